(** Support ([local identity] + liftability to dual numbers) for EVERY built-in closure:
    the ones of [Proofs/CodeSupport.v] plus matmul (with or without additive term), unroll,
    expand, sigmoid and the three custom operations, with the side conditions ([code_pre2])
    their local identities need. *)

From Coq Require Import List Arith Bool Lia PeanoNat.
From Corgi Require Import Lib.OptionMonad Lib.IdxDefs Lib.Idx Lib.Sums Model.Scalar Model.Arr
     Model.SlicedOp Model.Elementwise Model.Linalg Model.Image Model.Ops
     Proofs.ArrFacts Proofs.BroadcastDims Proofs.SpecDefs Proofs.SlicedOpSpec Proofs.EwSpec
     Proofs.ReduceSpec Proofs.FlattenSpec Proofs.MatmulSpec Proofs.ConvSpec
     Proofs.DualLift Proofs.LocalAdjoint Proofs.LocalAdjoint2 Proofs.OpsWf Proofs.FwdCode
     Proofs.CodeSupport.
Import ListNotations.

Lemma dim_back_snoc3 : forall (pre : list nat) x y z,
    dim_back (pre ++ [x; y; z]) 2 = Some y /\ dim_back (pre ++ [x; y; z]) 1 = Some z.
Proof.
  intros pre x y z. unfold dim_back. rewrite app_length. cbn [length].
  assert (H2 : (2 <=? length pre + 3) = true) by (apply Nat.leb_le; lia).
  assert (H1 : (1 <=? length pre + 3) = true) by (apply Nat.leb_le; lia).
  rewrite H1, H2. cbn [guard obind].
  replace (length pre + 3 - 2) with (length pre + 1) by lia.
  replace (length pre + 3 - 1) with (length pre + 2) by lia.
  rewrite !nth_error_app2 by lia.
  replace (length pre + 1 - length pre) with 1 by lia.
  replace (length pre + 2 - length pre) with 2 by lia. split; reflexivity.
Qed.

Section CodeSupport2.
  Context {F : Type} (O : ScalarOps F).
  Local Notation D2 := (dual_ops O).

  (** side conditions on the operands [cs] of a closure of a node of dimensions [d] *)
  Definition code_pre2 (code : bop_code F) (d : list nat) (cs : list (arr F)) : Prop :=
    match code with
    | BSum k _ => k <= length (dims (nth 0 cs dummy_arr))
    | BMatmul ta tb => mm_pre ta tb cs
    | BUnroll depth rows cols sr sc fr fc => unroll_pre depth rows cols sr sc fr fc cs
    | BExpand fcount _ => expand_pre (dimb d 2) (dimb d 1) fcount cs
    | BCustom CMul | BCustom CAff => same_dims2 cs
    | _ => True
    end.

  Definition code_supported2 (code : bop_code F) (d : list nat) : Prop :=
    forall (cs ts : list (arr F)) (flags : list bool) (delta : arr F)
           (RD : arr (@dual F)) (ds : list (option (arr F))),
      length cs = arity code -> Forall wf cs -> Forall2 tangent_for cs ts ->
      code_pre2 code d cs ->
      fwd_of_code D2 (inj2 O) code d (lift_children O 0 flags cs ts) = Some RD ->
      code_fits code cs (primal RD) ->
      wf delta -> dims delta = dims RD ->
      run_bop O code cs flags delta = Some ds ->
      exists xs, child_terms O 0 flags cs ts ds xs /\
                 dot O (vals delta) (vals (tangent RD)) = vsum O xs.

  Definition code_liftable2 (code : bop_code F) (d : list nat) : Prop :=
    forall (cs ts : list (arr F)) (flags : list bool) (v : arr F),
      length cs = arity code -> Forall wf cs -> Forall2 tangent_for cs ts ->
      code_pre2 code d cs ->
      fwd_of_code O (fun s => s) code d cs = Some v ->
      exists RD, fwd_of_code D2 (inj2 O) code d (lift_children O 0 flags cs ts) = Some RD /\
                 primal RD = v.

  Definition code_ok2 (code : bop_code F) (d : list nat) : Prop :=
    code_supported2 code d /\ code_liftable2 code d.

  (** the codes of [CodeSupport.v]: [code_pre2] is [code_pre] on them *)
  Lemma code_ok_ok2 : forall code d,
      (forall cs, code_pre2 code d cs -> code_pre code cs) -> code_ok O code d -> code_ok2 code d.
  Proof.
    intros code d Hpre [Hs Hl]. split.
    - intros cs ts flags delta RD ds Hlen Hwf Hts Hp. apply Hs; try assumption. apply Hpre. exact Hp.
    - intros cs ts flags v Hlen Hwf Hts Hp. apply Hl; try assumption. apply Hpre. exact Hp.
  Qed.


  (** * Liftability of the remaining operations *)

  Lemma map_combine4 : forall {A B C} (g : A -> A -> C) (x : list A) (x' : list B) (y : list A) (y' : list B),
      length x' = length x -> length y' = length y ->
      map (fun p : (A * B) * (A * B) => g (fst (fst p)) (fst (snd p))) (combine (combine x x') (combine y y'))
      = map (fun p => g (fst p) (snd p)) (combine x y).
  Proof.
    intros A B C g x. induction x as [|a x IH]; intros x' y y' H1 H2.
    - reflexivity.
    - destruct x' as [|a' x']; [discriminate H1 |].
      destruct y as [|b y]; [destruct y'; reflexivity |].
      destruct y' as [|b' y']; [discriminate H2 |].
      cbn [combine map fst snd]. f_equal. apply IH; simpl in *; lia.
  Qed.

  Lemma zip_liftable : forall (f : F -> F -> F) (fD : @dual F -> @dual F -> @dual F)
                              (a ta b tb v : arr F),
      (forall X Y, fst (fD X Y) = f (fst X) (fst Y)) ->
      wf a -> wf b -> tangent_for a ta -> tangent_for b tb ->
      zip_vals f a b = Some v ->
      exists RD, zip_vals fD (lift a ta) (lift b tb) = Some RD /\ primal RD = v.
  Proof.
    intros f fD a ta b tb v Hf Hwa Hwb Hta Htb Hv.
    pose proof (tangent_for_length a ta Hwa Hta) as Hla.
    pose proof (tangent_for_length b tb Hwb Htb) as Hlb.
    unfold zip_vals in *. apply mk_some in Hv. destruct Hv as (Hp & Hl & ->).
    eexists. split.
    - apply mk_some. split; [exact Hp |]. split; [| reflexivity].
      cbn [lift dims vals]. rewrite map_length, combine_length in *.
      unfold dual. rewrite !combine_length, Hla, Hlb, !Nat.min_id. exact Hl.
    - unfold primal. cbn [dims vals lift]. f_equal. rewrite map_map.
      rewrite (map_ext _ (fun p : (F * F) * (F * F) => f (fst (fst p)) (fst (snd p))))
        by (intros [X Y]; apply Hf).
      apply map_combine4; assumption.
  Qed.

  Lemma custom_liftable : forall c d, code_liftable2 (BCustom c) d.
  Proof.
    intros c d cs ts flags v Hlen Hwf Hts Hpre Hv. destruct c; cbn [arity] in Hlen.
    - destruct (cs2 cs Hlen) as (a & b & ->). destruct (ts2 a b ts Hts) as (ta & tb & -> & Hta & Htb).
      inversion Hwf as [|? ? Hwa Hwf1]; subst. inversion Hwf1 as [|? ? Hwb _]; subst.
      cbn [fwd_of_code lift_children custom_forward] in *.
      apply (zip_liftable (fmul O) (fmul D2)); try assumption;
        try (apply mask_tangent_for; assumption). reflexivity.
    - destruct (cs2 cs Hlen) as (a & b & ->). destruct (ts2 a b ts Hts) as (ta & tb & -> & Hta & Htb).
      inversion Hwf as [|? ? Hwa Hwf1]; subst. inversion Hwf1 as [|? ? Hwb _]; subst.
      cbn [fwd_of_code lift_children custom_forward] in *.
      apply (zip_liftable (fun x y => fadd O x (fmul O (two O) y))
                          (fun x y => fadd D2 x (fmul D2 (two D2) y))); try assumption;
        try (apply mask_tangent_for; assumption). reflexivity.
    - destruct (cs1 cs Hlen) as (a & ->). destruct (ts1 a ts Hts) as (t & -> & Ht).
      inversion Hwf as [|? ? Hwa _]; subst.
      cbn [fwd_of_code lift_children custom_forward] in *.
      apply (zip_liftable (fmul O) (fmul D2)); try assumption;
        try (apply mask_tangent_for; assumption). reflexivity.
  Qed.

  Lemma expand_liftable : forall fcount stride d, code_liftable2 (BExpand fcount stride) d.
  Proof.
    intros fcount stride d cs ts flags v Hlen Hwf Hts Hpre Hv. cbn [arity] in Hlen.
    destruct (cs1 cs Hlen) as (a & ->). destruct (ts1 a ts Hts) as (t & -> & Ht).
    inversion Hwf as [|? ? Hwa _]; subst.
    cbn [fwd_of_code lift_children code_pre2] in *.
    destruct Hpre as (Hrc & Hcc & batch & Ed). cbn [nth] in Ed.
    set (t' := mask O (flag flags 0) t) in *.
    assert (Ht' : tangent_for a t') by (apply mask_tangent_for; exact Ht).
    pose proof (tangent_for_length a t' Hwa Ht') as Hl.
    rewrite (expand_conv_closed O a batch _ _ fcount Hwa Ed Hrc Hcc) in Hv. injection Hv as Hv. subst v.
    rewrite (expand_conv_closed D2 (lift a t') batch _ _ fcount (lift_wf a t' Hwa Ht') Ed Hrc Hcc).
    eexists. split; [reflexivity |].
    unfold primal. cbn [dims vals]. f_equal. rewrite map_map. apply map_ext. intro ri.
    rewrite (lift_nth O a t' _ Hl). reflexivity.
  Qed.

  Lemma unroll_g_fst : forall depth rows cols sr sc fr fc rc cc (s : list (@dual F)),
      map fst (unroll_g D2 depth rows cols sr sc fr fc rc cc s)
      = unroll_g O depth rows cols sr sc fr fc rc cc (map fst s).
  Proof.
    intros. unfold unroll_g. rewrite map_map. apply map_ext. intro oi.
    change (f0 O) with (fst (f0 D2)). symmetry. apply map_nth.
  Qed.

  Lemma unroll_liftable : forall depth rows cols sr sc fr fc d,
      code_liftable2 (BUnroll depth rows cols sr sc fr fc) d.
  Proof.
    intros depth rows cols sr sc fr fc d cs ts flags v Hlen Hwf Hts Hpre Hv. cbn [arity] in Hlen.
    destruct (cs1 cs Hlen) as (a & ->). destruct (ts1 a ts Hts) as (t & -> & Ht).
    inversion Hwf as [|? ? Hwa _]; subst.
    cbn [fwd_of_code lift_children code_pre2] in *.
    destruct Hpre as (Hsr & Hsc & Hfr & Hfc & Hfr' & Hfc' & batch & Ed). cbn [nth] in Ed.
    set (t' := mask O (flag flags 0) t) in *.
    assert (Ht' : tangent_for a t') by (apply mask_tangent_for; exact Ht).
    pose proof (tangent_for_length a t' Hwa Ht') as Hl.
    destruct (unroll_blocks_blocks O a batch depth rows cols sr sc fr fc Hwa Ed Hsr Hsc Hfr Hfc Hfr' Hfc')
      as (u & Hu & Hwu & Hdu & Hblk).
    destruct (unroll_blocks_blocks D2 (lift a t') batch depth rows cols sr sc fr fc
                                   (lift_wf a t' Hwa Ht') Ed Hsr Hsc Hfr Hfc Hfr' Hfc')
      as (uD & HuD & HwuD & HduD & HblkD).
    cbv zeta in *. rewrite Hv in Hu. injection Hu as Hu. subst u.
    exists uD. split; [exact HuD |].
    set (rc := out_count rows fr sr) in *. set (cc := out_count cols fc sc) in *.
    set (g := rc * cc * (depth * (fr * fc) * 1)) in *.
    assert (Hlv : length (vals v) = prod batch * g).
    { destruct Hwu as [_ H]. rewrite <- H, Hdu, prod_app. cbn [prod fold_right]. unfold g. ring. }
    assert (HlD : length (vals uD) = prod batch * g).
    { destruct HwuD as [_ H]. rewrite <- H, HduD, prod_app. cbn [prod fold_right]. unfold g. ring. }
    destruct v as [dv vv]. unfold primal. cbn [dims vals] in *. f_equal; [congruence |].
    apply (blocks_ext g (prod batch)); [rewrite map_length; exact HlD | exact Hlv |].
    intros j Hj. rewrite block_map. unfold dual in *. rewrite (HblkD j Hj), (Hblk j Hj), unroll_g_fst.
    f_equal. rewrite <- block_map. f_equal. cbn [lift vals].
    apply map_fst_combine. symmetry. exact Hl.
  Qed.

  Section Ring.
    Hypothesis R : is_cring O.

    Ltac use_local2 Hloc :=
      let cs := fresh "cs" in let ts := fresh "ts" in let flags := fresh "flags" in
      let delta := fresh "delta" in let RD := fresh "RD" in let ds := fresh "ds" in
      let Hlen := fresh "Hlen" in let Hwf := fresh "Hwf" in let Hts := fresh "Hts" in
      let Hpre := fresh "Hpre" in let Hfwd := fresh "Hfwd" in let Hfit := fresh "Hfit" in
      let Hwd := fresh "Hwd" in let Hdd := fresh "Hdd" in let Hrun := fresh "Hrun" in
      intros cs ts flags delta RD ds Hlen Hwf Hts Hpre Hfwd Hfit Hwd Hdd Hrun;
      cbn [arity] in Hlen;
      refine (Hloc cs ts flags delta RD ds Hlen _ Hwf Hts _ Hwd Hdd _).

    Lemma matmul_supported : forall ta tb d, code_supported2 (BMatmul ta tb) d.
    Proof. intros ta tb d. use_local2 (matmul_local O R ta tb); [exact Hpre | exact Hfwd | exact Hrun]. Qed.

    Lemma unroll_supported : forall depth rows cols sr sc fr fc d,
        code_supported2 (BUnroll depth rows cols sr sc fr fc) d.
    Proof.
      intros depth rows cols sr sc fr fc d.
      use_local2 (unroll_local O R depth rows cols sr sc fr fc); [exact Hpre | exact Hfwd | exact Hrun].
    Qed.

    Lemma cmul_supported : forall d, code_supported2 (BCustom CMul) d.
    Proof. intro d. use_local2 (cmul_local O R); [exact Hpre | exact Hfwd | exact Hrun]. Qed.

    Lemma caff_supported : forall d, code_supported2 (BCustom CAff) d.
    Proof. intro d. use_local2 (caff_local O R); [exact Hpre | exact Hfwd | exact Hrun]. Qed.

    Lemma csq_supported : forall d, code_supported2 (BCustom CSq) d.
    Proof. intro d. use_local2 (csq_local O R); [exact I | exact Hfwd | exact Hrun]. Qed.

    Lemma expand_supported : forall fcount stride d, code_supported2 (BExpand fcount stride) d.
    Proof.
      intros fcount stride d.
      use_local2 (expand_local O R (dimb d 2) (dimb d 1) fcount); [exact Hpre | exact Hfwd |].
      cbn [code_fits] in Hfit. destruct Hfit as [_ Hst].
      (* the dimensions of the result end with [fcount; rc; cc] *)
      destruct (cs1 cs Hlen) as (a & ->). destruct (ts1 a ts Hts) as (t & -> & Ht).
      cbn [fwd_of_code lift_children] in Hfwd.
      pose proof Hfwd as Hx. unfold expand_conv in Hx. cbv zeta in Hx. inv_bind Hx.
      apply mk_wf in Hx. destruct Hx as [_ Hd].
      change (dims (primal RD)) with (dims RD) in Hst. unfold dimb in Hst at 1 2. rewrite Hd in Hst.
      match type of Hst with
      | context [dim_back (?pre ++ [?x; ?y; ?z]) 2] =>
        destruct (dim_back_snoc3 pre x y z) as [E2 E1]; rewrite E2, E1 in Hst
      end.
      rewrite <- Hst. exact Hrun.
    Qed.


    (** ** matmul *)

    Lemma mm_shape_bias : forall {G} ro co (c : arr G),
        wf c ->
        (dims c = [co] \/ dims c = [ro; co] \/ dims c = [1; co] \/ dims c = [1]) ->
        bias_shape ro co (Some c).
    Proof.
      intros G ro co c Hw [E | [E | [E | E]]].
      - apply bias_row; assumption.
      - apply bias_full; assumption.
      - apply bias_row2; assumption.
      - apply bias_one; assumption.
    Qed.

    Lemma matmul_liftable : forall ta tb d, code_liftable2 (BMatmul ta tb) d.
    Proof.
      intros ta tb d cs ts flags v Hlen Hwf Hts Hpre Hv. cbn [arity] in Hlen.
      destruct cs as [|a [|b [|c3 [|? ?]]]]; try discriminate Hlen.
      inversion Hts as [|? t0 ? ts1 Ht0 Hts1]; subst.
      inversion Hts1 as [|? t1 ? ts2 Ht1 Hts2]; subst.
      inversion Hts2 as [|? t2 ? ts3 Ht2 Hts3]; subst. inversion Hts3; subst.
      inversion Hwf as [|? ? Hwa Hwf1]; subst. inversion Hwf1 as [|? ? Hwb Hwf2]; subst.
      inversion Hwf2 as [|? ? Hwc _]; subst.
      cbn [code_pre2] in Hpre.
      destruct Hpre as (la & ar & ac & lb & br & bc & Ea & Eb & Hshape). cbn [nth] in Ea, Eb, Hshape.
      cbv zeta in Hshape. cbn [fwd_of_code lift_children] in *.
      set (ta' := mask O (flag flags 0) t0) in *. set (tb' := mask O (flag flags 1) t1) in *.
      set (tc' := mask O (flag flags 2) t2) in *.
      assert (Hta' : tangent_for a ta') by (apply mask_tangent_for; exact Ht0).
      assert (Htb' : tangent_for b tb') by (apply mask_tangent_for; exact Ht1).
      assert (Htc' : tangent_for c3 tc') by (apply mask_tangent_for; exact Ht2).
      pose proof (lift_wf a ta' Hwa Hta') as HwA. pose proof (lift_wf b tb' Hwb Htb') as HwB.
      pose proof (lift_wf c3 tc' Hwc Htc') as HwC.
      assert (EA : dims (lift a ta') = la ++ [ar; ac]) by exact Ea.
      assert (EB : dims (lift b tb') = lb ++ [br; bc]) by exact Eb.
      assert (Hinner : mm_inner_a ta ar ac = mm_inner_b tb br bc).
      { destruct (Nat.eq_dec (mm_inner_a ta ar ac) (mm_inner_b tb br bc)) as [E|Hne]; [exact E|].
        rewrite (matmul_refuses O _ ta _ tb _ la ar ac lb br bc Ea Eb (or_introl Hne)) in Hv.
        discriminate. }
      assert (Hcomp : bcompat la lb).
      { destruct (element_wise_dimensions la lb) as [d0|] eqn:Ee.
        - apply element_wise_dimensions_spec in Ee. apply Ee.
        - apply element_wise_dimensions_refuses in Ee.
          rewrite (matmul_refuses O _ ta _ tb _ la ar ac lb br bc Ea Eb (or_intror Ee)) in Hv.
          discriminate. }
      set (lead := bmax la lb) in *. set (ro := mm_rows ta ar ac) in *.
      set (co := mm_cols tb br bc) in *. set (nn := mm_inner_a ta ar ac) in *.
      destruct (mm_facts a b la lb ar ac br bc Hwa Hwb Ea Eb Hcomp)
        as (Hpla & Hplb & Hl & Hsa & Hsb & Har & Hac & Hbr & Hbc).
      fold lead in Hl.
      assert (Hro : 1 <= ro) by (unfold ro, mm_rows; destruct ta; assumption).
      assert (Hco : 1 <= co) by (unfold co, mm_cols; destruct tb; assumption).
      destruct (matmul_spec O a ta b tb (Some c3) la ar ac lb br bc Hwa Hwb Ea Eb Hinner Hcomp
                            (mm_shape_bias ro co c3 Hwc Hshape))
        as (r1 & Hr1 & Hw1 & Hd1 & Hv1).
      destruct (matmul_spec D2 _ ta _ tb (Some (lift c3 tc')) la ar ac lb br bc HwA HwB EA EB Hinner Hcomp
                            (mm_shape_bias ro co (lift c3 tc') HwC Hshape))
        as (r2 & Hr2 & Hw2 & Hd2 & Hv2).
      fold lead ro co nn in Hd1, Hv1, Hd2, Hv2.
      rewrite Hv in Hr1. injection Hr1 as Hr1. subst r1.
      exists r2. split; [exact Hr2 |].
      assert (Hl1 : length (vals v) = prod lead * (ro * co)).
      { destruct Hw1 as [_ H]. rewrite <- H, Hd1. rewrite prod_app. cbn [prod fold_right]. lia. }
      assert (Hl2 : length (vals r2) = prod lead * (ro * co)).
      { destruct Hw2 as [_ H]. rewrite <- H, Hd2. rewrite prod_app. cbn [prod fold_right]. lia. }
      apply (arr_ext O).
      - cbn [primal dims]. congruence.
      - cbn [primal vals]. rewrite map_length. unfold dual in *. rewrite Hl1, Hl2. reflexivity.
      - intros pos Hpos. cbn [primal vals] in Hpos. rewrite map_length in Hpos.
        unfold dual in *. rewrite Hl2 in Hpos.
        destruct (encode_flat3 ro co pos (prod lead) Hro Hco Hpos) as (Ht & Hi & Hj & Epos).
        set (t := pos / (ro * co)) in *. set (i := (pos mod (ro * co)) / co) in *.
        set (j := (pos mod (ro * co)) mod co) in *.
        assert (HJ : in_range (unrank lead t) lead) by (apply unrank_lt; exact Hl).
        destruct (Hv1 (unrank lead t) i j HJ Hi Hj) as [_ Hg1].
        destruct (Hv2 (unrank lead t) i j HJ Hi Hj) as [_ Hg2].
        apply (nth_get O) in Hg1. apply (nth_get D2) in Hg2.
        unfold dual in *. rewrite Hd1 in Hg1. rewrite Hd2 in Hg2.
        rewrite rowmajor_snoc2, rowmajor_unrank in Hg1, Hg2
          by (try assumption; rewrite unrank_length; reflexivity).
        rewrite primal_nth.
        replace pos with (t * (ro * co) + (i * co + j)) by lia.
        unfold dual in *. rewrite Hg1, Hg2.
        assert (Hfa : forall X Y : F * F, fst (fadd D2 X Y) = fadd O (fst X) (fst Y)) by reflexivity.
        rewrite Hfa. f_equal.
        + unfold cterm. rewrite (getd_lift O c3 tc' _ Hwc Htc'). reflexivity.
        + match goal with |- fst (vsum _ ?l) = _ => pose proof (vsum_dual O l) as Hvd end.
          unfold dual in Hvd. rewrite Hvd.
          cbn [fst]. rewrite map_map. f_equal. apply map_ext. intro k.
          rewrite (getd_lift O a ta' _ Hwa Hta'), (getd_lift O b tb' _ Hwb Htb'). reflexivity.
    Qed.

    Lemma matmul_ok2 : forall ta tb d, code_ok2 (BMatmul ta tb) d.
    Proof. intros. split; [apply matmul_supported | apply matmul_liftable]. Qed.

    Lemma unroll_ok2 : forall depth rows cols sr sc fr fc d,
        code_ok2 (BUnroll depth rows cols sr sc fr fc) d.
    Proof. intros. split; [apply unroll_supported | apply unroll_liftable]. Qed.

    Lemma expand_ok2 : forall fcount stride d, code_ok2 (BExpand fcount stride) d.
    Proof. intros. split; [apply expand_supported | apply expand_liftable]. Qed.

    Lemma custom_ok2 : forall c d, code_ok2 (BCustom c) d.
    Proof.
      intros c d. split; [| apply custom_liftable].
      destruct c; [apply cmul_supported | apply caff_supported | apply csq_supported].
    Qed.

    Section Sigmoid.
      Hypothesis Hsig_fst : forall x x', fst (sigmoid_fn D2 (x, x')) = sigmoid_fn O x.
      Hypothesis Hsig : forall x x',
          snd (sigmoid_fn D2 (x, x'))
          = fmul O (fmul O (sigmoid_fn O x) (fsub O (f1 O) (sigmoid_fn O x))) x'.

      Lemma sigmoid_supported : forall cached d, code_supported2 (BSigmoid cached) d.
      Proof.
        intros cached d. use_local2 (sigmoid_local O R Hsig_fst Hsig); [exact I | exact Hfwd |].
        cbn [code_fits] in Hfit. rewrite <- Hfit. exact Hrun.
      Qed.

      Lemma sigmoid_liftable : forall cached d, code_liftable2 (BSigmoid cached) d.
      Proof.
        intros cached d cs ts flags v Hlen Hwf Hts Hpre Hv. cbn [arity] in Hlen.
        destruct (cs1 cs Hlen) as (a & ->). destruct (ts1 a ts Hts) as (t & -> & Ht).
        inversion Hwf as [|? ? Hwa _]; subst. cbn [fwd_of_code lift_children] in *.
        apply (map_liftable O (sigmoid_fn O) (sigmoid_fn D2));
          try assumption; [| apply mask_tangent_for; assumption].
        intros [x x']. apply Hsig_fst.
      Qed.

      Lemma sigmoid_ok2 : forall cached d, code_ok2 (BSigmoid cached) d.
      Proof. intros. split; [apply sigmoid_supported | apply sigmoid_liftable]. Qed.

      (** ** every closure *)

      Hypothesis Hdiv : forall a b, fdiv O a b = fmul O a (fdiv O (f1 O) b).
      Hypothesis Hinv_mul : forall a b,
          fdiv O (f1 O) (fmul O a b) = fmul O (fdiv O (f1 O) a) (fdiv O (f1 O) b).
      Hypothesis Hpow2 : forall x, fpow O x (two O) = fmul O x x.

      Theorem all_code_ok2 : forall code d, code_ok2 code d.
      Proof.
        intros code d.
        destruct code as [ | | | |s| |e| |cached|k target| |ta tb|depth rows cols sr sc fr fc
                          |fcount stride| |cached|cu];
          try (apply code_ok_ok2;
               [intros cs Hp; exact Hp
               | first [apply (proven_ok O R); reflexivity
                       | apply (proven_div_ok O R Hdiv Hinv_mul Hpow2); reflexivity]]).
        - apply matmul_ok2.
        - apply unroll_ok2.
        - apply expand_ok2.
        - apply sigmoid_ok2.
        - apply custom_ok2.
      Qed.
    End Sigmoid.
  End Ring.
End CodeSupport2.

Print Assumptions matmul_ok2.
Print Assumptions unroll_ok2.
Print Assumptions expand_ok2.
Print Assumptions custom_ok2.
Print Assumptions all_code_ok2.
