(** Value-level trace of a backward pass: which nodes fired with which adjoint, which
    contributions were delivered, and how both relate to [contribs]. *)

From Coq Require Import List Arith Bool Lia PeanoNat Permutation.
From Corgi Require Import Lib.OptionMonad Model.Engine Proofs.EngineDefs Proofs.EngineBase
     Proofs.Propagate Proofs.EngineInv Proofs.AdjointSpec Proofs.ValueAlg Proofs.SweepChar.
Import ListNotations.

Lemma mapM_ext_in : forall {A B} (f h : A -> option B) l,
    (forall x, In x l -> f x = h x) -> mapM f l = mapM h l.
Proof.
  intros A B f h l. induction l as [|a l IH]; intro H; simpl.
  - reflexivity.
  - rewrite (H a (or_introl eq_refl)), IH; [reflexivity |].
    intros x Hx. apply H. right. exact Hx.
Qed.

Lemma in_combine_nth : forall {A B} (la : list A) (lb : list B) a b,
    In (a, b) (combine la lb) ->
    exists i, nth_error la i = Some a /\ nth_error lb i = Some b.
Proof.
  intros A B la. induction la as [|x la IH]; intros lb a b Hin.
  - destruct Hin.
  - destruct lb as [|y lb]; [destruct Hin |]. destruct Hin as [Hin|Hin].
    + injection Hin as Hx Hy. subst. exists 0. split; reflexivity.
    + destruct (IH lb a b Hin) as (i & Ha & Hb). exists (S i). split; assumption.
Qed.

Section Seg.
  Context {P D : Type}.
  Variable E : eops P D.
  Variable g0 : store P D.
  Variable r : nat.
  Hypothesis Hwf : wfg E g0.
  Hypothesis Hbc : bop_contract E g0.
  Hypothesis Hr : r < length g0.

  Definition leafb (m : nat) : bool :=
    match nth_error g0 m with
    | Some nd => match n_children nd with [] => true | _ => false end
    | None => false
    end.

  (** the gradient slot after accumulating [delta] (existing value on the left) *)
  Definition gstore (o : option D) (delta : D) (o' : option D) : Prop :=
    exists ng, oadd E o delta = Some ng /\ o' = Some ng.

  Definition pend (g' : store P D) (FT : list (fired D)) (m : nat) : option D :=
    match lk m FT with Some (d, _) => Some d | None => dlt g' m end.

  Definition grule (gr : nat -> option D) (g' : store P D) (FT : list (fired D)) (m : nat) : Prop :=
    match lk m FT with
    | None => grd g' m = gr m
    | Some (d, k) => if leafb m || k then gstore (gr m) d (grd g' m) else grd g' m = gr m
    end.

  Definition Seg (cn : nat -> nat) (dl gr : nat -> option D) (g' : store P D)
             (FT : list (fired D)) (H : list (nat * D)) : Prop :=
    SK g0 g' /\
    (forall m, cnt g' m <= cn m) /\
    (forall p, In p H -> 1 <= cn (fst p)) /\
    (forall f, In f FT -> 0 < cn (fnode f) /\ cnt g' (fnode f) = 0 /\ reach g0 r (fnode f) /\
                          contribs E g0 (fnode f) (fdel f) <> None) /\
    NoDup (map fnode FT) /\
    (forall m, 0 < cn m -> cnt g' m = 0 -> In m (map fnode FT)) /\
    (forall m, accum E (dl m) (vals m H) = Some (pend g' FT m)) /\
    (forall m, grule gr g' FT m).

  Lemma Seg_refl : forall g, SK g0 g -> Seg (cnt g) (dlt g) (grd g) g [] [].
  Proof.
    intros g HS. split; [exact HS |]. split; [intro m; lia |].
    split; [intros p [] |]. split; [intros f [] |]. split; [constructor |].
    split; [intros m H1 H2; lia |]. split; [intro m; reflexivity | intro m; reflexivity].
  Qed.

  Lemma Seg_ext : forall cn cn' dl dl' gr gr' g' FT H,
      (forall m, cn' m = cn m) -> (forall m, dl' m = dl m) -> (forall m, gr' m = gr m) ->
      Seg cn dl gr g' FT H -> Seg cn' dl' gr' g' FT H.
  Proof.
    intros cn cn' dl dl' gr gr' g' FT H Hc Hd Hg (Sa & Sb & Sc & Sd & Se & Sf & Sg & Sh).
    split; [exact Sa |]. split; [intro m; rewrite Hc; apply Sb |].
    split; [intros p Hp; rewrite Hc; apply Sc; exact Hp |].
    split; [intros f Hf; rewrite Hc; apply Sd; exact Hf |].
    split; [exact Se |].
    split; [intros m Hm; rewrite Hc in Hm; apply Sf; exact Hm |].
    split; [intro m; rewrite Hd; apply Sg |].
    intro m. specialize (Sh m). unfold grule in *. rewrite Hg. exact Sh.
  Qed.

  Lemma in_fnode_lk : forall (FT : list (fired D)) m,
      In m (map fnode FT) -> exists d k, lk m FT = Some (d, k).
  Proof.
    intros FT m Hin. destruct (lk m FT) as [[d k]|] eqn:Hlk.
    - exists d, k. reflexivity.
    - apply lk_none in Hlk. contradiction.
  Qed.

  Lemma lk_fnode_in : forall (FT : list (fired D)) m d k,
      lk m FT = Some (d, k) -> In m (map fnode FT).
  Proof.
    intros FT m d k Hlk. apply lk_in in Hlk.
    change m with (fnode (m, d, k)). apply in_map. exact Hlk.
  Qed.

  Lemma Seg_trans : forall cn dl gr (g1 g2 : store P D) F1 F2 H1 H2,
      Seg cn dl gr g1 F1 H1 -> Seg (cnt g1) (dlt g1) (grd g1) g2 F2 H2 ->
      Seg cn dl gr g2 (F1 ++ F2) (H1 ++ H2).
  Proof.
    intros cn dl gr g1 g2 F1 F2 H1 H2
           (Sa & Sb & Sc & Sd & Se & Sf & Sg & Sh) (Ta & Tb & Tc & Td & Te & Tf & Tg & Th).
    assert (Hdisj : forall m, In m (map fnode F1) -> In m (map fnode F2) -> False).
    { intros m Hm1 Hm2. apply in_map_iff in Hm1. destruct Hm1 as (f1 & Hf1 & Hin1).
      apply in_map_iff in Hm2. destruct Hm2 as (f2 & Hf2 & Hin2).
      destruct (Sd f1 Hin1) as (_ & Hz & _). destruct (Td f2 Hin2) as (Hp & _).
      rewrite Hf1 in Hz. rewrite Hf2 in Hp. lia. }
    assert (Hnov : forall m, In m (map fnode F1) -> vals m H2 = []).
    { intros m Hm. apply vals_nil_notin. intros p Hp Heq.
      specialize (Tc p Hp). rewrite Heq in Tc.
      apply in_map_iff in Hm. destruct Hm as (f1 & Hf1 & Hin1).
      destruct (Sd f1 Hin1) as (_ & Hz & _). rewrite Hf1 in Hz. lia. }
    split; [exact Ta |].
    split; [intro m; specialize (Sb m); specialize (Tb m); lia |].
    split.
    { intros p Hp. apply in_app_or in Hp. destruct Hp as [Hp|Hp]; [apply Sc; exact Hp |].
      specialize (Tc p Hp). specialize (Sb (fst p)). lia. }
    split.
    { intros f Hf. apply in_app_or in Hf. destruct Hf as [Hf|Hf].
      - destruct (Sd f Hf) as (H1' & H2' & H3' & H4').
        split; [exact H1' |]. split; [| tauto]. specialize (Tb (fnode f)). lia.
      - destruct (Td f Hf) as (H1' & H2' & H3' & H4').
        split; [specialize (Sb (fnode f)); lia | tauto]. }
    split.
    { rewrite map_app. clear -Se Te Hdisj.
      induction (map fnode F1) as [|x l IH]; simpl.
      - exact Te.
      - inversion Se as [|x' l' Hx Hl]. subst x' l'. constructor.
        + intro Hin. apply in_app_or in Hin. destruct Hin as [Hin|Hin]; [tauto |].
          apply (Hdisj x); [left; reflexivity | exact Hin].
        + apply IH; [exact Hl |]. intros m Hm1 Hm2. apply (Hdisj m); [right; exact Hm1 | exact Hm2]. }
    split.
    { intros m Hcn Hz. rewrite map_app. apply in_or_app.
      destruct (cnt g1 m) as [|k] eqn:Hc1.
      - left. apply Sf; assumption.
      - right. apply Tf; [lia | exact Hz]. }
    split.
    { intro m. rewrite vals_app, accum_app, (Sg m). simpl.
      unfold pend. rewrite lk_app. destruct (lk m F1) as [[d k]|] eqn:Hlk.
      - rewrite (Hnov m (lk_fnode_in F1 m d k Hlk)). reflexivity.
      - apply Tg. }
    intro m. specialize (Sh m). specialize (Th m). unfold grule in *. rewrite lk_app.
    destruct (lk m F1) as [[d k]|] eqn:Hlk.
    - assert (Hno : lk m F2 = None).
      { apply lk_none. intro Hin. apply (Hdisj m); [eapply lk_fnode_in; exact Hlk | exact Hin]. }
      rewrite Hno in Th. rewrite Th. exact Sh.
    - destruct (lk m F2) as [[d k]|]; rewrite <- Sh; exact Th.
  Qed.

  (** prepend one delivery that happened before the segment *)
  Lemma Seg_cons_deliver : forall cn dl dl' gr g2 FT H c d',
      Seg cn dl' gr g2 FT H -> 1 <= cn c ->
      (forall m, m <> c -> dl' m = dl m) -> oadd E (dl c) d' = dl' c -> dl' c <> None ->
      Seg cn dl gr g2 FT ((c, d') :: H).
  Proof.
    intros cn dl dl' gr g2 FT H c d' (Sa & Sb & Sc & Sd & Se & Sf & Sg & Sh) Hc Hoth Hadd Hne.
    split; [exact Sa |]. split; [exact Sb |].
    split; [intros p [Hp|Hp]; [subst p; exact Hc | apply Sc; exact Hp] |].
    split; [exact Sd |]. split; [exact Se |]. split; [exact Sf |].
    split; [| exact Sh].
    intro m. rewrite vals_cons. destruct (c =? m) eqn:Hcm.
    - apply Nat.eqb_eq in Hcm. subst m. simpl. rewrite Hadd.
      destruct (dl' c) as [z|] eqn:Hz; [| congruence]. simpl. rewrite <- Hz. apply Sg.
    - apply Nat.eqb_neq in Hcm. rewrite <- Hoth by congruence. apply Sg.
  Qed.

  (** a delivery that does not fire its target *)
  Lemma Seg_dec_base : forall (g g1 : store P D) c,
      SK g0 g1 -> 2 <= cnt g c ->
      (forall m, cnt g1 m = if m =? c then cnt g c - 1 else cnt g m) ->
      (forall m, grd g1 m = grd g m) ->
      Seg (cnt g) (dlt g1) (grd g) g1 [] [].
  Proof.
    intros g g1 c HS H2 Hcnt Hgrd.
    split; [exact HS |].
    split; [intro m; rewrite Hcnt; destruct (m =? c) eqn:Hm;
            [apply Nat.eqb_eq in Hm; subst m; lia | lia] |].
    split; [intros p [] |]. split; [intros f [] |]. split; [constructor |].
    split.
    { intros m Hp Hz. rewrite Hcnt in Hz. destruct (m =? c) eqn:Hm; lia. }
    split; [intro m; reflexivity |]. intro m. unfold grule. simpl. apply Hgrd.
  Qed.

  Definition upd1 (cn : nat -> nat) (c : nat) : nat -> nat :=
    fun m => if m =? c then 1 else cn m.
  Definition updd (dl : nat -> option D) (c : nat) (x : D) : nat -> option D :=
    fun m => if m =? c then Some x else dl m.

  (** wrap the body of node [id]: the node itself joins the fired records *)
  Lemma Seg_body : forall (g1 g2 g' : store P D) id x keep FT H,
      Seg (cnt g1) (dlt g1) (grd g1) g2 FT H ->
      cnt g1 id = 0 -> dlt g1 id = None -> reach g0 r id ->
      contribs E g0 id x <> None ->
      map sk g' = map sk g2 -> (forall m, cnt g' m = cnt g2 m) -> (forall m, dlt g' m = dlt g2 m) ->
      (forall m, m <> id -> grd g' m = grd g2 m) ->
      (if leafb id || keep then gstore (grd g2 id) x (grd g' id) else grd g' id = grd g2 id) ->
      Seg (upd1 (cnt g1) id) (updd (dlt g1) id x) (grd g1) g' ((id, x, keep) :: FT) H.
  Proof.
    intros g1 g2 g' id x keep FT H (Sa & Sb & Sc & Sd & Se & Sf & Sg & Sh)
           Hc0 Hd0 Hrid Hcon Hsk Hcnt Hdlt Hgrd Hgid.
    assert (Hnotin : ~ In id (map fnode FT)).
    { intro Hin. apply in_map_iff in Hin. destruct Hin as (f & Hf & Hin).
      destruct (Sd f Hin) as (Hp & _). rewrite Hf in Hp. lia. }
    assert (Hlkid : lk id FT = None) by (apply lk_none; exact Hnotin).
    split; [unfold SK in *; rewrite Hsk; exact Sa |].
    split.
    { intro m. rewrite Hcnt. unfold upd1. destruct (m =? id) eqn:Hm.
      - apply Nat.eqb_eq in Hm. subst m. specialize (Sb id). lia.
      - apply Sb. }
    split.
    { intros p Hp. specialize (Sc p Hp). unfold upd1. destruct (fst p =? id); lia. }
    split.
    { intros f [Hf|Hf].
      - subst f. unfold fnode, fdel. simpl. unfold upd1. rewrite Nat.eqb_refl.
        split; [lia |]. split; [rewrite Hcnt; specialize (Sb id); lia |].
        split; [exact Hrid | exact Hcon].
      - destruct (Sd f Hf) as (H1 & H2 & H3 & H4). unfold upd1.
        split; [destruct (fnode f =? id); lia |].
        split; [rewrite Hcnt; exact H2 | tauto]. }
    split; [simpl; constructor; [exact Hnotin | exact Se] |].
    split.
    { intros m Hp Hz. simpl. unfold upd1 in Hp. destruct (m =? id) eqn:Hm.
      - left. apply Nat.eqb_eq in Hm. unfold fnode. simpl. congruence.
      - right. apply Sf; [exact Hp | rewrite <- Hcnt; exact Hz]. }
    split.
    { intro m. unfold pend, updd. simpl. unfold fnode at 1. simpl.
      rewrite (Nat.eqb_sym id m). destruct (m =? id) eqn:Hm.
      - apply Nat.eqb_eq in Hm. subst m.
        rewrite vals_nil_notin; [reflexivity |].
        intros p Hp Heq. specialize (Sc p Hp). rewrite Heq in Sc. lia.
      - rewrite Hdlt. apply Sg. }
    intro m. unfold grule. simpl. unfold fnode at 1. simpl.
    rewrite (Nat.eqb_sym id m). destruct (m =? id) eqn:Hm.
    - apply Nat.eqb_eq in Hm. subst m. unfold fdel, fkeep. simpl.
      specialize (Sh id). unfold grule in Sh. rewrite Hlkid in Sh. rewrite <- Sh. exact Hgid.
    - apply Nat.eqb_neq in Hm. specialize (Sh m). unfold grule in Sh.
      rewrite (Hgrd m Hm). exact Sh.
  Qed.

  (** * Specifications *)

  (** a tracked entry of a reachable node *)
  Definition TE (e : entry) : Prop :=
    exists p nd, reach g0 r p /\ nth_error g0 p = Some nd /\ In e (n_children nd) /\
                 e_tracked e = true.

  Definition Orig (FT : list (fired D)) : Prop :=
    forall f, In f FT -> exists e, TE e /\ e_node e = fnode f /\ fkeep f = e_keep e.

  Definition LogIn (lnew : @trace D) (FT : list (fired D)) : Prop :=
    forall id d, In (id, d) lnew -> exists k, In (id, d, k) FT.

  Definition rec_val (rec : @rec_t P D) (bound : nat) : Prop :=
    forall ga c keep seed lg x g2 lg2,
      c < bound -> SK g0 ga -> reach g0 r c -> cnt ga c = 0 -> dlt ga c = Some x ->
      rec ga c keep seed lg = Some (g2, lg2) ->
      exists FT H lnew,
        Seg (upd1 (cnt ga) c) (dlt ga) (grd ga) g2 ((c, x, keep) :: FT) H /\
        Orig FT /\ Permutation H (flat_map (cso E g0) ((c, x, keep) :: FT)) /\
        lg2 = lg ++ lnew /\ LogIn lnew ((c, x, keep) :: FT).

  Lemma deliver_some_inv2 : forall rec (g : store P D) lg e d res,
      deliver E rec (Some (g, lg)) (e, Some d) = Some res ->
      exists c d' nw g',
        nth_error g (e_node e) = Some c /\ eo_flat E d (n_pay c) = Some d' /\
        oadd E (n_delta c) d' = Some nw /\ 1 <= n_count c /\
        put g (e_node e) (set_count (set_delta c (Some nw)) (n_count c - 1)) = Some g' /\
        (if n_count c =? 1 then rec g' (e_node e) (e_keep e) None lg else Some (g', lg))
        = Some res.
  Proof.
    intros rec g lg e d res H. unfold deliver in H. cbn [obind fst snd] in H.
    apply obind_some in H. destruct H as (c & Hc & H).
    apply obind_some in H. destruct H as (d' & Hd' & H).
    apply obind_some in H. destruct H as (nw & Hnw & H).
    apply obind_some in H. destruct H as (u & Hu & H).
    apply obind_some in H. destruct H as (g' & Hg' & H).
    apply guard_some in Hu. apply Nat.leb_le in Hu.
    exists c, d', nw, g'. unfold oadd. tauto.
  Qed.

  Lemma TE_reach : forall e, TE e -> reach g0 r (e_node e).
  Proof. intros e (p & nd & Hp & Hnd & Hin & Ht). eapply reach_step; eassumption. Qed.

  Lemma fold_val : forall rec bound, rec_val rec bound ->
      forall ps g lg g' lg',
        SK g0 g ->
        (forall e d, In (e, Some d) ps -> e_node e < bound /\ TE e) ->
        fold_left (deliver E rec) ps (Some (g, lg)) = Some (g', lg') ->
        exists own FT H lnew,
          cflat E g0 ps = Some own /\
          Seg (cnt g) (dlt g) (grd g) g' FT H /\ Orig FT /\
          Permutation H (own ++ flat_map (cso E g0) FT) /\
          lg' = lg ++ lnew /\ LogIn lnew FT.
  Proof.
    intros rec bound Hrec ps. induction ps as [|[e od] ps IH]; intros g lg g' lg' HS Hps Hf.
    - simpl in Hf. injection Hf as Hg Hl. subst g' lg'.
      exists [], [], [], []. split; [reflexivity |]. split; [apply Seg_refl; exact HS |].
      split; [intros f [] |]. split; [constructor |].
      split; [rewrite app_nil_r; reflexivity | intros id d []].
    - change (fold_left (deliver E rec) ((e, od) :: ps) (Some (g, lg)))
        with (fold_left (deliver E rec) ps (deliver E rec (Some (g, lg)) (e, od))) in Hf.
      assert (Hps' : forall e' d', In (e', Some d') ps -> e_node e' < bound /\ TE e').
      { intros e' d' Hin. apply (Hps e' d'). right. exact Hin. }
      destruct od as [d|].
      + destruct (Hps e d (or_introl eq_refl)) as (Hcb & Hte).
        pose proof (TE_reach e Hte) as Hcr.
        set (c := e_node e) in *.
        destruct (deliver E rec (Some (g, lg)) (e, Some d)) as [[g2 lg2]|] eqn:Hd;
          [| rewrite fold_deliver_none in Hf; discriminate Hf].
        apply deliver_some_inv2 in Hd.
        destruct Hd as (cn & d' & nw & ga & Hcn & Hd' & Hnw & Hle & Hput & Hres).
        fold c in Hcn, Hput, Hres.
        destruct (deliver_state g c cn nw ga Hcn Hput) as (Hsk & Hcnt & Hdlt & Hgrd).
        pose proof (cnt_nth g c cn Hcn) as Hcc.
        pose proof (dlt_nth g c cn Hcn) as Hdc.
        assert (HSa : SK g0 ga) by (unfold SK in *; rewrite Hsk; exact HS).
        destruct (SK_nth g0 g c cn HS Hcn) as (c0 & Hc0 & Hpay0 & _).
        assert (Hstep : exists F1 Hs l1,
                   Seg (cnt g) (dlt g) (grd g) g2 F1 ((c, d') :: Hs) /\ Orig F1 /\
                   Permutation Hs (flat_map (cso E g0) F1) /\ lg2 = lg ++ l1 /\ LogIn l1 F1).
        { destruct (n_count cn =? 1) eqn:H1.
          - apply Nat.eqb_eq in H1.
            assert (Hca0 : cnt ga c = 0) by (rewrite Hcnt, Nat.eqb_refl; lia).
            assert (Hda : dlt ga c = Some nw) by (rewrite Hdlt, Nat.eqb_refl; reflexivity).
            destruct (Hrec ga c (e_keep e) None lg nw g2 lg2 Hcb HSa Hcr Hca0 Hda Hres)
              as (FT & Hs & l1 & HSeg & HOr & HPerm & Hlg & HLi).
            exists ((c, nw, e_keep e) :: FT), Hs, l1.
            split.
            { apply (Seg_cons_deliver (cnt g) (dlt g) (dlt ga) (grd g)).
              - eapply Seg_ext; [| | | exact HSeg].
                + intro m. unfold upd1. rewrite Hcnt. destruct (m =? c) eqn:Hm; [| reflexivity].
                  apply Nat.eqb_eq in Hm. subst m. lia.
                + intro m. reflexivity.
                + intro m. symmetry. apply Hgrd.
              - lia.
              - intros m Hm. rewrite Hdlt. apply Nat.eqb_neq in Hm. rewrite Hm. reflexivity.
              - rewrite Hda, Hdc. exact Hnw.
              - rewrite Hda. discriminate. }
            split.
            { intros f [Hf'|Hf'].
              - subst f. exists e. split; [exact Hte |]. split; reflexivity.
              - apply HOr. exact Hf'. }
            split; [exact HPerm |]. split; [exact Hlg | exact HLi].
          - apply Nat.eqb_neq in H1. injection Hres as Hg2 Hl2. subst g2 lg2.
            exists [], [], []. split.
            { apply (Seg_cons_deliver (cnt g) (dlt g) (dlt ga) (grd g)).
              - apply (Seg_dec_base g ga c HSa); [lia | exact Hcnt | exact Hgrd].
              - lia.
              - intros m Hm. rewrite Hdlt. apply Nat.eqb_neq in Hm. rewrite Hm. reflexivity.
              - rewrite Hdlt, Nat.eqb_refl, Hdc. exact Hnw.
              - rewrite Hdlt, Nat.eqb_refl. discriminate. }
            split; [intros f [] |]. split; [constructor |].
            split; [rewrite app_nil_r; reflexivity | intros id d0 []]. }
        destruct Hstep as (F1 & Hs & l1 & HSeg1 & HOr1 & HPerm1 & Hlg1 & HLi1).
        assert (HS2 : SK g0 g2) by (destruct HSeg1 as (Sa & _); exact Sa).
        destruct (IH g2 lg2 g' lg' HS2 Hps' Hf)
          as (own2 & F2 & H2 & l2 & Hown2 & HSeg2 & HOr2 & HPerm2 & Hlg2 & HLi2).
        exists ((c, d') :: own2), (F1 ++ F2), (((c, d') :: Hs) ++ H2), (l1 ++ l2).
        split.
        { apply (cflat_some_fwd E g0 e d ps own2 c0 d' Hown2 Hc0). rewrite <- Hpay0. exact Hd'. }
        split; [eapply Seg_trans; eassumption |].
        split.
        { intros f Hf'. apply in_app_or in Hf'. destruct Hf' as [Hf'|Hf'];
            [apply HOr1 | apply HOr2]; exact Hf'. }
        split.
        { rewrite flat_map_app. simpl. constructor.
          eapply Permutation_trans; [apply Permutation_app; [exact HPerm1 | exact HPerm2] |].
          apply Permutation_app_swap_app. }
        split; [rewrite Hlg2, Hlg1, app_assoc; reflexivity |].
        intros id d0 Hin. apply in_app_or in Hin. destruct Hin as [Hin|Hin].
        * destruct (HLi1 id d0 Hin) as (k & Hk). exists k. apply in_or_app. left. exact Hk.
        * destruct (HLi2 id d0 Hin) as (k & Hk). exists k. apply in_or_app. right. exact Hk.
      + rewrite deliver_skip in Hf.
        destruct (IH g lg g' lg' HS Hps' Hf) as (own & FT & H & lnew & Hown & Hrest).
        exists own, FT, H, lnew. split; [rewrite cflat_skip; exact Hown | exact Hrest].
  Qed.

  Lemma finish_grad : forall (g2 : store P D) id keep delta log2 g' log' nd2,
      finish E g2 id keep delta log2 = Some (g', log') -> nth_error g2 id = Some nd2 ->
      if (match n_children nd2 with [] => true | _ => false end) || keep
      then gstore (grd g2 id) delta (grd g' id) else grd g' id = grd g2 id.
  Proof.
    intros g2 id keep delta log2 g' log' nd2 H Hnd2. unfold finish in H.
    rewrite Hnd2 in H. cbn [obind] in H.
    destruct ((match n_children nd2 with [] => true | _ :: _ => false end) || keep).
    - apply obind_some in H. destruct H as (ng & Hng & H).
      apply obind_some in H. destruct H as (g3 & Hput & H).
      injection H as Hg Hl. subst g3 log'. exists ng.
      rewrite (grd_nth g2 id nd2 Hnd2). split; [exact Hng |].
      rewrite (put_grd g2 id _ g' id Hput), Nat.eqb_refl. reflexivity.
    - injection H as Hg Hl. subst g'. reflexivity.
  Qed.

  Lemma sk_pay : forall g g' : store P D, map sk g = map sk g' -> map n_pay g = map n_pay g'.
  Proof.
    intros g g' H.
    assert (H1 : map fst (map sk g) = map fst (map sk g')) by (rewrite H; reflexivity).
    rewrite !map_map in H1. exact H1.
  Qed.

  Lemma pay_lookup : forall (ga gb : store P D) j,
      map n_pay ga = map n_pay gb ->
      (c <- nth_error ga j ;; Some (n_pay c)) = (c <- nth_error gb j ;; Some (n_pay c)).
  Proof.
    intros ga gb j H.
    assert (H1 : nth_error (map n_pay ga) j = nth_error (map n_pay gb) j) by (rewrite H; reflexivity).
    rewrite !nth_error_map in H1.
    destruct (nth_error ga j), (nth_error gb j); simpl in *; congruence.
  Qed.

  Lemma body_val : forall rec bound, rec_val rec bound ->
      forall g1 id keep x lg g' lg',
        id <= bound -> SK g0 g1 -> reach g0 r id -> cnt g1 id = 0 -> dlt g1 id = None ->
        bw_body E rec g1 id keep x lg = Some (g', lg') ->
        exists FT H lnew,
          Seg (upd1 (cnt g1) id) (updd (dlt g1) id x) (grd g1) g' ((id, x, keep) :: FT) H /\
          Orig FT /\ Permutation H (flat_map (cso E g0) ((id, x, keep) :: FT)) /\
          lg' = lg ++ lnew /\ LogIn lnew ((id, x, keep) :: FT).
  Proof.
    intros rec bound Hrec g1 id keep x lg g' lg' Hidb HS1 Hrid Hc0 Hd0 Hb.
    assert (Hidlt : id < length g0) by (apply (reach_lt E g0 r Hwf); assumption).
    pose proof (SK_length g0 g1 HS1) as Hlen1.
    destruct (nth_error g1 id) as [nd1|] eqn:Hnd1; [| apply nth_error_None in Hnd1; lia].
    destruct (SK_nth g0 g1 id nd1 HS1 Hnd1) as (nd0 & Hnd0 & Hpay & Hch).
    destruct (Hwf id nd0 Hnd0) as (Hchlt & Hnoop).
    assert (Hmid : exists g2 lg2 FT H lnew,
               finish E g2 id keep x lg2 = Some (g', lg') /\
               contribs E g0 id x <> None /\
               Seg (cnt g1) (dlt g1) (grd g1) g2 FT H /\ Orig FT /\
               Permutation H (cso E g0 (id, x, keep) ++ flat_map (cso E g0) FT) /\
               lg2 = lg ++ lnew /\ LogIn lnew ((id, x, keep) :: FT)).
    { destruct (eo_hasop E (n_pay nd1)) eqn:Hop.
      - destruct (bw_body_op E rec g1 id keep x lg nd1 Hnd1 Hop) as (g1a & Hg1a & Heq).
        rewrite Heq in Hb. clear Heq.
        apply obind_some in Hb. destruct Hb as (pays & Hpays & Hb).
        apply obind_some in Hb. destruct Hb as (ds & Hds & Hb).
        apply obind_some in Hb. destruct Hb as (u & Hu & Hb).
        apply obind_some in Hb. destruct Hb as ([g2 lg2] & Hfold & Hfin).
        rewrite Hpay, Hch in Hds. rewrite Hch in Hfold, Hpays.
        destruct (Hbc id nd0 pays x ds Hnd0 Hds) as (Hlenc & Hflags).
        destruct (fold_val rec bound Hrec (combine (n_children nd0) ds) g1
                           (lg ++ [(id, x)]) g2 lg2 HS1) as
            (own & FT & H & lnew & Hown & HSeg & HOr & HPerm & Hlg & HLi).
        { intros e d Hin. apply in_combine_nth in Hin. destruct Hin as (i & Hei & Hdi).
          assert (Hine : In e (n_children nd0)) by (eapply nth_error_In; exact Hei).
          split; [specialize (Hchlt e Hine); lia |].
          exists id, nd0. split; [exact Hrid |]. split; [exact Hnd0 |]. split; [exact Hine |].
          apply (Hflags i e Hei). exists d. exact Hdi. }
        { exact Hfold. }
        assert (Hcon : contribs E g0 id x = Some own).
        { rewrite contribs_unfold, Hnd0. cbn [obind]. rewrite <- Hpay, Hop.
          rewrite (mapM_ext_in
                     (fun e : entry => c <- nth_error g0 (e_node e) ;; Some (n_pay c))
                     (fun e : entry => c <- nth_error g1a (e_node e) ;; Some (n_pay c))).
          - rewrite Hpays. cbn [obind]. rewrite Hpay, Hds. cbn [obind]. exact Hown.
          - intros e _. symmetry. apply pay_lookup.
            rewrite (put_map n_pay g1 id nd1 _ g1a Hg1a Hnd1 eq_refl).
            apply sk_pay. exact HS1. }
        exists g2, lg2, FT, H, ((id, x) :: lnew).
        split; [exact Hfin |]. split; [rewrite Hcon; discriminate |].
        split; [exact HSeg |]. split; [exact HOr |].
        split.
        { unfold cso at 1. unfold fnode, fdel. simpl. rewrite Hcon. exact HPerm. }
        split; [rewrite Hlg, <- app_assoc; reflexivity |].
        intros id' d Hin. destruct Hin as [Hin|Hin].
        + injection Hin as H1 H2. subst id' d. exists keep. left. reflexivity.
        + destruct (HLi id' d Hin) as (k & Hk). exists k. right. exact Hk.
      - unfold bw_body in Hb. rewrite Hnd1 in Hb. cbn [obind] in Hb. rewrite Hop in Hb.
        cbv zeta in Hb.
        apply obind_some in Hb. destruct Hb as ([g2 lg2] & Hgl & Hfin).
        apply obind_some in Hgl. destruct Hgl as (u & Hu & Hgl).
        injection Hgl as Hg2 Hl2. subst g2 lg2.
        assert (Hcon : contribs E g0 id x = Some []).
        { rewrite contribs_unfold, Hnd0. cbn [obind]. rewrite <- Hpay, Hop. reflexivity. }
        exists g1, lg, [], [], [].
        split; [exact Hfin |]. split; [rewrite Hcon; discriminate |].
        split; [apply Seg_refl; exact HS1 |]. split; [intros f [] |].
        split.
        { unfold cso. unfold fnode, fdel. simpl. rewrite Hcon. constructor. }
        split; [rewrite app_nil_r; reflexivity | intros id' d []]. }
    destruct Hmid as (g2 & lg2 & FT & H & lnew & Hfin & Hcon & HSeg & HOr & HPerm & Hlg & HLi).
    assert (HS2 : SK g0 g2) by (destruct HSeg as (Sa & _); exact Sa).
    pose proof (SK_length g0 g2 HS2) as Hlen2.
    destruct (nth_error g2 id) as [nd2|] eqn:Hnd2; [| apply nth_error_None in Hnd2; lia].
    destruct (SK_nth g0 g2 id nd2 HS2 Hnd2) as (nd0' & Hnd0' & _ & Hch2).
    rewrite Hnd0 in Hnd0'. injection Hnd0' as Hnd0'. subst nd0'.
    pose proof (finish_grad g2 id keep x lg2 g' lg' nd2 Hfin Hnd2) as Hgr.
    rewrite Hch2 in Hgr.
    assert (Hleaf : leafb id = match n_children nd0 with [] => true | _ :: _ => false end)
      by (unfold leafb; rewrite Hnd0; reflexivity).
    rewrite <- Hleaf in Hgr.
    apply finish_inv in Hfin. destruct Hfin as (Hl & Hsk & Hcnt & Hdlt & Hgrd). subst lg'.
    exists FT, H, lnew.
    split; [eapply Seg_body; eassumption |].
    split; [exact HOr |]. split; [simpl; exact HPerm |]. split; [exact Hlg | exact HLi].
  Qed.

  Lemma backward_rec_val : forall f, rec_val (backward E f) f.
  Proof.
    induction f as [|f IHf]; intros ga c keep seed lg x g2 lg2 Hc HS Hrc Hc0 Hdx Hb.
    - lia.
    - rewrite backward_S in Hb.
      apply obind_some in Hb. destruct Hb as (nd & Hnd & Hb).
      pose proof (dlt_nth ga c nd Hnd) as Hdn. rewrite Hdx in Hdn. rewrite <- Hdn in Hb.
      apply obind_some in Hb. destruct Hb as ([g1 delta] & Hgd & Hb).
      apply obind_some in Hgd. destruct Hgd as (g1' & Hput & Hgd).
      injection Hgd as Hg1 Hdelta. subst g1' delta.
      assert (Hsk : map sk g1 = map sk ga)
        by (eapply put_map; [exact Hput | exact Hnd | reflexivity]).
      assert (Hcnt : forall m, cnt g1 m = cnt ga m).
      { intro m. rewrite (put_cnt ga c _ g1 m Hput). simpl.
        destruct (m =? c) eqn:Hm; [|reflexivity].
        apply Nat.eqb_eq in Hm. subst m. rewrite (cnt_nth ga c nd Hnd). reflexivity. }
      assert (Hdlt : forall m, dlt g1 m = if m =? c then None else dlt ga m).
      { intro m. rewrite (put_dlt ga c _ g1 m Hput). reflexivity. }
      assert (Hgrd : forall m, grd g1 m = grd ga m).
      { intro m. rewrite (put_grd ga c _ g1 m Hput). simpl.
        destruct (m =? c) eqn:Hm; [|reflexivity].
        apply Nat.eqb_eq in Hm. subst m. rewrite (grd_nth ga c nd Hnd). reflexivity. }
      destruct (body_val (backward E f) f IHf g1 c keep x lg g2 lg2) as
          (FT & H & lnew & HSeg & Hrest).
      + lia.
      + unfold SK in *. rewrite Hsk. exact HS.
      + exact Hrc.
      + rewrite Hcnt. exact Hc0.
      + rewrite Hdlt, Nat.eqb_refl. reflexivity.
      + exact Hb.
      + exists FT, H, lnew. split; [| exact Hrest].
        eapply Seg_ext; [| | | exact HSeg].
        * intro m. unfold upd1. rewrite Hcnt. reflexivity.
        * intro m. unfold updd. rewrite Hdlt. destruct (m =? c) eqn:Hm; [| reflexivity].
          apply Nat.eqb_eq in Hm. subst m. exact Hdx.
        * intro m. symmetry. apply Hgrd.
  Qed.
End Seg.
