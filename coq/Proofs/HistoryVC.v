(** [value_consistent] ([Proofs/FwdCode.v]) is an invariant of program histories: every
    instruction of [Model/Program.v] keeps it, together with [good] ([Proofs/HistoryInv.v]).
    So at every backward pass of every history each operation node holds the forward result
    of its closure's operation on its children's values. *)

From Coq Require Import List Arith Bool Lia PeanoNat.
From Corgi Require Import Lib.OptionMonad Lib.Sums Model.Scalar Model.Arr Model.SlicedOp
     Model.Elementwise Model.Linalg Model.Image Model.Ops Model.Engine Model.Program
     Proofs.ArrFacts Proofs.EngineDefs Proofs.EngineBase Proofs.Propagate Proofs.EngineInv
     Proofs.FlattenSpec Proofs.DualLift Proofs.LocalAdjoint Proofs.OpsWf Proofs.HistoryInv
     Proofs.FwdCode.
Import ListNotations.

Section HistoryVC.
  Context {F : Type} (O : ScalarOps F).

  Local Notation pay := (@pay F).
  Local Notation gnode := (@gnode F).
  Local Notation state := (@state F).
  Local Notation instr := (@instr F).
  Local Notation E := (Program.E O).
  Local Notation vc := (value_consistent O).

  (** * Values of children *)

  Lemma nval_app : forall (g x : list gnode) id, id < length g -> nval (g ++ x) id = nval g id.
  Proof. intros g x id H. unfold nval. rewrite nth_error_app1 by exact H. reflexivity. Qed.

  Lemma cvals_ext : forall (g g' : list gnode) es,
      (forall e, In e es -> nval g' (e_node e) = nval g (e_node e)) -> cvals g' es = cvals g es.
  Proof. intros g g' es H. unfold cvals. apply map_ext_in. exact H. Qed.

  Lemma node_vc_ext : forall (g g' : list gnode) nd,
      (forall e, In e (n_children nd) -> nval g' (e_node e) = nval g (e_node e)) ->
      node_vc O g nd -> node_vc O g' nd.
  Proof.
    intros g g' nd H Hv. unfold node_vc in *. rewrite (cvals_ext g g' _ H). exact Hv.
  Qed.

  (** the condition on a node about to be allocated *)
  Definition new_node_vc (g : list gnode) (a : arr F) (children : list handle)
             (bop : option (bop_code F)) : Prop :=
    match bop with
    | None => True
    | Some code =>
      code_fits code (cvals g children) a /\
      (fwd_of_code O (fun s => s) code (dims a) (cvals g children) = Some a \/
       matmul_nobias O code (cvals g children) a)
    end.

  Lemma alloc_vc : forall (s : state) (a : arr F) children bop buf,
      store_good (st_nodes s) -> vc (st_nodes s) ->
      (forall e, In e children -> hvalid (st_nodes s) e) ->
      new_node_vc (st_nodes s) a children bop ->
      vc (st_nodes (fst (alloc s a children bop buf))).
  Proof.
    intros s a children bop buf Hg Hv Hch Hnew. unfold alloc. cbn [fst st_nodes with_nodes].
    set (g := st_nodes s) in *.
    intros id x Hx.
    destruct (lt_eq_lt_dec id (length g)) as [[Hlt | Heq] | Hgt].
    - rewrite nth_error_app1 in Hx by exact Hlt.
      apply (node_vc_ext g); [| apply (Hv id x Hx)].
      intros e He. apply nval_app. destruct (Hg id x Hx) as (Hc & _). specialize (Hc e He). nlia.
    - subst id. rewrite nth_error_app2 in Hx by lia. rewrite Nat.sub_diag in Hx.
      injection Hx as Hx. subst x.
      unfold node_vc. cbn [n_pay n_children p_bop]. destruct bop as [code|]; [| exact I].
      cbv zeta. rewrite (cvals_ext g) by (intros e He; apply nval_app; apply Hch; exact He).
      cbn [new_node_vc] in Hnew. destruct a as [d v]. exact Hnew.
    - assert (Hn : nth_error (g ++ [{| n_pay := {| p_dims := dims a; p_vals := vals a; p_bop := bop;
                                                 p_buf := match buf with Some b => b | None => length g end;
                                                 p_tag := st_tag s |};
                                      n_children := children; n_count := 0; n_delta := None;
                                      n_grad := None |}]) id = None)
        by (apply nth_error_None; rewrite app_length; simpl; lia).
      unfold Program.gnode in *. rewrite Hn in Hx. discriminate Hx.
  Qed.

  Lemma alloc_leaf_vc : forall (s : state) (a : arr F) buf,
      store_good (st_nodes s) -> vc (st_nodes s) -> vc (st_nodes (fst (alloc s a [] None buf))).
  Proof.
    intros s a buf Hg Hv. apply alloc_vc; try assumption; [intros e [] | exact I].
  Qed.

  Lemma alloc_if_vc : forall (s : state) (a : arr F) tracked children code,
      store_good (st_nodes s) -> vc (st_nodes s) ->
      (forall e, In e children -> hvalid (st_nodes s) e) ->
      new_node_vc (st_nodes s) a children (Some code) ->
      vc (st_nodes (fst (alloc_if s a tracked children code))).
  Proof.
    intros s a tracked children code Hg Hv Hch Hnew. unfold alloc_if. destruct tracked.
    - apply alloc_vc; assumption.
    - apply alloc_leaf_vc; assumption.
  Qed.

  (** stores with the same payloads and children *)
  Lemma vc_same_skel : forall g g' : list gnode,
      length g' = length g ->
      (forall id nd nd', nth_error g id = Some nd -> nth_error g' id = Some nd' ->
                         n_pay nd' = n_pay nd /\ n_children nd' = n_children nd) ->
      vc g -> vc g'.
  Proof.
    intros g g' Hl Hsk Hv.
    assert (Hnv : forall id, nval g' id = nval g id).
    { intro id. unfold nval.
      destruct (nth_error g id) as [nd|] eqn:Hn; destruct (nth_error g' id) as [nd'|] eqn:Hn'.
      - destruct (Hsk id nd nd' Hn Hn') as [Hp _]. rewrite Hp. reflexivity.
      - apply nth_error_None in Hn'. apply nth_lt in Hn. nlia.
      - apply nth_error_None in Hn. apply nth_lt in Hn'. nlia.
      - reflexivity. }
    intros id nd' Hnd'.
    assert (Hid : id < length g) by (apply nth_lt in Hnd'; nlia).
    destruct (nth_error g id) as [nd|] eqn:Hnd; [| apply nth_error_None in Hnd; nlia].
    destruct (Hsk id nd nd' Hnd Hnd') as [Hp Hc].
    pose proof (Hv id nd Hnd) as Hvn. unfold node_vc in *. rewrite Hp, Hc.
    rewrite (cvals_ext g g') by (intros e _; apply Hnv). exact Hvn.
  Qed.

  (** * Operations *)

  Lemma h_arr_nval : forall (s : state) h a, h_arr s h = Some a -> nval (st_nodes s) (e_node h) = a.
  Proof.
    intros s h a H. apply h_arr_inv in H. destruct H as (nd & Hnd & ->).
    unfold h_node in Hnd. unfold nval. rewrite Hnd. reflexivity.
  Qed.

  Lemma unary_vc : forall (s : state) h fwd code r,
      store_good (st_nodes s) -> vc (st_nodes s) -> hvalid (st_nodes s) h ->
      (forall a c, h_arr s h = Some a -> fwd a = Some c ->
                   code_fits (code c) [a] c /\
                   fwd_of_code O (fun x => x) (code c) (dims c) [a] = Some c) ->
      unary s h fwd code = Some r -> vc (st_nodes (fst r)).
  Proof.
    intros s h fwd code r Hg Hv Hh Hcode H. unfold unary in H.
    apply obind_some in H. destruct H as (a & Ha & H).
    apply obind_some in H. destruct H as (c & Hc & H). injection H as H. subst r.
    apply alloc_if_vc; try assumption.
    - intros e [He | []]. subst e. exact Hh.
    - cbn [new_node_vc cvals map]. rewrite (h_arr_nval s h a Ha).
      destruct (Hcode a c Ha Hc) as [H1 H2]. split; [exact H1 | left; exact H2].
  Qed.

  Lemma binary_vc : forall (s : state) ha hb fwd code r,
      store_good (st_nodes s) -> vc (st_nodes s) ->
      hvalid (st_nodes s) ha -> hvalid (st_nodes s) hb ->
      (forall a b c, fwd a b = Some c ->
                     code_fits code [a; b] c /\
                     fwd_of_code O (fun x => x) code (dims c) [a; b] = Some c) ->
      binary s ha hb fwd code = Some r -> vc (st_nodes (fst r)).
  Proof.
    intros s ha hb fwd code r Hg Hv Hha Hhb Hcode H. unfold binary in H.
    apply obind_some in H. destruct H as (a & Ha & H).
    apply obind_some in H. destruct H as (b & Hb & H).
    apply obind_some in H. destruct H as (c & Hc & H). injection H as H. subst r.
    apply alloc_if_vc; try assumption.
    - intros e [He | [He | []]]; subst e; assumption.
    - cbn [new_node_vc cvals map]. rewrite (h_arr_nval s ha a Ha), (h_arr_nval s hb b Hb).
      destruct (Hcode a b c Hc) as [H1 H2]. split; [exact H1 | left; exact H2].
  Qed.

  Ltac simple_unary :=
    let a := fresh "a" in let c := fresh "c" in let Hc := fresh "Hc" in
    intros a c _ Hc; split; [exact I | exact Hc].

  Section Ops.
    Variable s : state.
    Hypothesis Hg : store_good (st_nodes s).
    Hypothesis Hv : vc (st_nodes s).

    Lemma op_neg_vc : forall h r, hvalid (st_nodes s) h -> op_neg O s h = Some r -> vc (st_nodes (fst r)).
    Proof. intros h r Hh H. eapply unary_vc; try eassumption. simple_unary. Qed.

    Lemma op_scale_vc : forall c h r,
        hvalid (st_nodes s) h -> op_scale O s c h = Some r -> vc (st_nodes (fst r)).
    Proof. intros c h r Hh H. eapply unary_vc; try eassumption. simple_unary. Qed.

    Lemma op_exp_vc : forall h r, hvalid (st_nodes s) h -> op_exp O s h = Some r -> vc (st_nodes (fst r)).
    Proof.
      intros h r Hh H. eapply unary_vc; try eassumption.
      intros a c _ Hc. split; [reflexivity | exact Hc].
    Qed.

    Lemma op_ln_vc : forall h r, hvalid (st_nodes s) h -> op_ln O s h = Some r -> vc (st_nodes (fst r)).
    Proof. intros h r Hh H. eapply unary_vc; try eassumption. simple_unary. Qed.

    Lemma op_powf_vc : forall e h r,
        hvalid (st_nodes s) h -> op_powf O s e h = Some r -> vc (st_nodes (fst r)).
    Proof. intros e h r Hh H. eapply unary_vc; try eassumption. simple_unary. Qed.

    Lemma op_relu_vc : forall h r, hvalid (st_nodes s) h -> op_relu O s h = Some r -> vc (st_nodes (fst r)).
    Proof. intros h r Hh H. eapply unary_vc; try eassumption. simple_unary. Qed.

    Lemma op_sigmoid_vc : forall h r,
        hvalid (st_nodes s) h -> op_sigmoid O s h = Some r -> vc (st_nodes (fst r)).
    Proof.
      intros h r Hh H. eapply unary_vc; try eassumption.
      intros a c _ Hc. split; [reflexivity | exact Hc].
    Qed.

    Lemma op_recip_vc : forall h r,
        hvalid (st_nodes s) h ->
        unary s h (a_reciprocal O) (fun _ => BRecip) = Some r -> vc (st_nodes (fst r)).
    Proof. intros h r Hh H. eapply unary_vc; try eassumption. simple_unary. Qed.

    Lemma op_add_vc : forall ha hb r,
        hvalid (st_nodes s) ha -> hvalid (st_nodes s) hb -> op_add O s ha hb = Some r ->
        vc (st_nodes (fst r)).
    Proof.
      intros ha hb r Ha Hb H. refine (binary_vc s ha hb _ _ r Hg Hv Ha Hb _ H).
      intros a b c Hc. split; [exact I | exact Hc].
    Qed.

    Lemma op_mul_vc : forall ha hb r,
        hvalid (st_nodes s) ha -> hvalid (st_nodes s) hb -> op_mul O s ha hb = Some r ->
        vc (st_nodes (fst r)).
    Proof.
      intros ha hb r Ha Hb H. refine (binary_vc s ha hb _ _ r Hg Hv Ha Hb _ H).
      intros a b c Hc. split; [exact I | exact Hc].
    Qed.

    Lemma op_div_vc : forall ha hb r,
        hvalid (st_nodes s) ha -> hvalid (st_nodes s) hb -> op_div O s ha hb = Some r ->
        vc (st_nodes (fst r)).
    Proof.
      intros ha hb r Ha Hb H. refine (binary_vc s ha hb _ _ r Hg Hv Ha Hb _ H).
      intros a b c Hc. split; [exact I | exact Hc].
    Qed.

    Lemma op_sum_vc : forall k h r,
        hvalid (st_nodes s) h -> op_sum O s k h = Some r -> vc (st_nodes (fst r)).
    Proof.
      intros k h r Hh H. unfold op_sum in H. destruct (k =? 0) eqn:Hk.
      - injection H as H. subst r. exact Hv.
      - apply obind_some in H. destruct H as (a & Ha & H).
        eapply unary_vc; try eassumption.
        intros a0 c Ha0 Hc. assert (Heq : a0 = a) by congruence. subst a0.
        apply Nat.eqb_neq in Hk. cbn [code_fits nth fwd_of_code]. tauto.
    Qed.

    Lemma op_reshape_vc : forall d h r,
        hvalid (st_nodes s) h -> op_reshape s d h = Some r -> vc (st_nodes (fst r)).
    Proof.
      intros d h r Hh H. unfold op_reshape in H.
      apply obind_some in H. destruct H as (nd & Hnd & H).
      apply obind_some in H. destruct H as (c & Hc & H). injection H as H. subst r.
      destruct (e_tracked h).
      - apply alloc_vc; try assumption.
        + intros e [He | []]. subst e. exact Hh.
        + cbn [new_node_vc cvals map code_fits fwd_of_code]. split; [exact I | left].
          unfold nval. unfold h_node in Hnd. rewrite Hnd.
          destruct (a_reshape_wf d _ c Hc) as [_ Hd]. rewrite Hd. exact Hc.
      - apply alloc_leaf_vc; assumption.
    Qed.

    Lemma op_matmul_vc : forall ta tb ha hb hc r,
        hvalid (st_nodes s) ha -> hvalid (st_nodes s) hb ->
        (forall h, hc = Some h -> hvalid (st_nodes s) h) ->
        op_matmul O s ta tb ha hb hc = Some r -> vc (st_nodes (fst r)).
    Proof.
      intros ta tb ha hb hc r Ha Hb Hc H. unfold op_matmul in H.
      apply obind_some in H. destruct H as (a & Haa & H).
      apply obind_some in H. destruct H as (b & Hbb & H).
      apply obind_some in H. destruct H as (c & Hcc & H).
      apply obind_some in H. destruct H as (x & Hx & H).
      destruct (e_tracked ha || e_tracked hb || match hc with Some h => e_tracked h | None => false end).
      - destruct hc as [h|].
        + injection H as H. subst r.
          apply obind_some in Hcc. destruct Hcc as (cv & Hcv & Hcc). injection Hcc as Hcc. subst c.
          apply alloc_vc; try assumption.
          * intros e [He | [He | [He | []]]]; subst e; try assumption. apply Hc. reflexivity.
          * cbn [new_node_vc cvals map code_fits fwd_of_code]. split; [exact I | left].
            rewrite (h_arr_nval s ha a Haa), (h_arr_nval s hb b Hbb), (h_arr_nval s h cv Hcv).
            exact Hx.
        + injection Hcc as Hcc. subst c.
          pose proof (alloc_leaf_post s (zeros1 O) None Hg (zeros1_wf O)) as Hp1.
          pose proof (alloc_leaf_vc s (zeros1 O) None Hg Hv) as Hv1.
          pose proof (alloc_post s (zeros1 O) [] None None Hg (zeros1_wf O)) as Hid.
          destruct (alloc s (zeros1 O) [] None None) as [s1 h3] eqn:Hal.
          injection H as H. subst r.
          destruct Hp1 as (Hx1 & Hg1 & Hh3). cbn [fst snd] in *.
          apply alloc_vc; try assumption.
          * intros e [He | [He | [He | []]]]; subst e; try assumption;
              eapply hvalid_ext; eassumption.
          * cbn [new_node_vc cvals map code_fits]. split; [exact I | right].
            cbn [matmul_nobias].
            assert (Hna : nval (st_nodes s1) (e_node ha) = a).
            { rewrite <- (h_arr_nval s ha a Haa). unfold nval.
              rewrite (ext_old s s1 _ Hx1 Ha). reflexivity. }
            assert (Hnb : nval (st_nodes s1) (e_node hb) = b).
            { rewrite <- (h_arr_nval s hb b Hbb). unfold nval.
              rewrite (ext_old s s1 _ Hx1 Hb). reflexivity. }
            rewrite Hna, Hnb. split; [| exact Hx].
            unfold alloc in Hal. injection Hal as Hs1 Hh3'. subst s1 h3.
            unfold nval. cbn [st_nodes with_nodes e_node mkh].
            rewrite nth_error_app2 by lia. rewrite Nat.sub_diag. reflexivity.
      - injection H as H. subst r. apply alloc_leaf_vc; assumption.
    Qed.

    Lemma op_unroll_vc : forall h sr sc fr fc r,
        hvalid (st_nodes s) h -> op_unroll O s h sr sc fr fc = Some r -> vc (st_nodes (fst r)).
    Proof.
      intros h sr sc fr fc r Hh H. unfold op_unroll in H.
      apply obind_some in H. destruct H as (a & Ha & H).
      apply obind_some in H. destruct H as (depth & Hdepth & H).
      apply obind_some in H. destruct H as (rows & Hrows & H).
      apply obind_some in H. destruct H as (cols & Hcols & H).
      apply obind_some in H. destruct H as (x & Hx & H).
      injection H as H. subst r.
      apply alloc_if_vc; try assumption.
      - intros e [He | []]. subst e. exact Hh.
      - cbn [new_node_vc cvals map code_fits fwd_of_code nth]. rewrite (h_arr_nval s h a Ha).
        split; [tauto | left; exact Hx].
    Qed.

    Lemma dim_back_app3 : forall (pre : list nat) x y z,
        dim_back (pre ++ [x; y; z]) 2 = Some y /\ dim_back (pre ++ [x; y; z]) 1 = Some z.
    Proof.
      intros pre x y z. unfold dim_back. rewrite app_length. cbn [length].
      assert (H2 : (2 <=? length pre + 3) = true) by (apply Nat.leb_le; lia).
      assert (H1 : (1 <=? length pre + 3) = true) by (apply Nat.leb_le; lia).
      rewrite H1, H2. cbn [guard obind].
      replace (length pre + 3 - 2) with (length pre + 1) by lia.
      replace (length pre + 3 - 1) with (length pre + 2) by lia.
      rewrite !nth_error_app2 by lia.
      replace (length pre + 1 - length pre) with 1 by lia.
      replace (length pre + 2 - length pre) with 2 by lia. split; reflexivity.
    Qed.

    Lemma op_expand_vc : forall h rc cc r,
        hvalid (st_nodes s) h -> op_expand O s h rc cc = Some r -> vc (st_nodes (fst r)).
    Proof.
      intros h rc cc r Hh H. unfold op_expand in H.
      apply obind_some in H. destruct H as (a & Ha & H).
      apply obind_some in H. destruct H as (fcount & Hfc & H).
      apply obind_some in H. destruct H as (x & Hx & H).
      injection H as H. subst r.
      assert (Hdx : dimb (dims x) 2 = rc /\ dimb (dims x) 1 = cc).
      { pose proof Hx as Hx'. unfold expand_conv in Hx'. cbv zeta in Hx'. inv_bind Hx'.
        apply mk_wf in Hx'. destruct Hx' as [_ Hd]. unfold dimb. rewrite Hd.
        destruct (dim_back_app3 (firstn (length (dims a) - 2) (dims a)) a0 rc cc) as [E2 E1].
        rewrite E2, E1. split; reflexivity. }
      destruct Hdx as [Hd2 Hd1].
      apply alloc_if_vc; try assumption.
      - intros e [He | []]. subst e. exact Hh.
      - cbn [new_node_vc cvals map code_fits fwd_of_code nth]. rewrite (h_arr_nval s h a Ha).
        rewrite Hd2, Hd1. split; [split; [exact Hfc | reflexivity] | left; exact Hx].
    Qed.

    Lemma mapM_h_arr : forall hs args, mapM (h_arr s) hs = Some args -> cvals (st_nodes s) hs = args.
    Proof.
      intro hs. induction hs as [|h hs IH]; intros args H.
      - injection H as H. subst args. reflexivity.
      - simpl in H. apply obind_some in H. destruct H as (y & Hy & H).
        apply obind_some in H. destruct H as (ys & Hys & H). injection H as H. subst args.
        cbn [cvals map]. rewrite (h_arr_nval s h y Hy). f_equal. apply IH. exact Hys.
    Qed.

    Lemma op_custom_vc : forall c hs r,
        (forall h, In h hs -> hvalid (st_nodes s) h) -> op_custom O s c hs = Some r ->
        vc (st_nodes (fst r)).
    Proof.
      intros c hs r Hhs H. unfold op_custom in H.
      apply obind_some in H. destruct H as (args & Hargs & H).
      apply obind_some in H. destruct H as (x & Hx & H). injection H as H. subst r.
      apply alloc_vc; try assumption.
      cbn [new_node_vc code_fits fwd_of_code]. rewrite (mapM_h_arr hs args Hargs).
      split; [exact I | left; exact Hx].
    Qed.
  End Ops.
  (** composite operations: [opost] (HistoryInv) and [vc] together *)

  Definition vpost (s : state) (r : state * handle) : Prop :=
    opost s r /\ vc (st_nodes (fst r)).

  Lemma op_sub_vc : forall s ha hb r,
      store_good (st_nodes s) -> vc (st_nodes s) ->
      hvalid (st_nodes s) ha -> hvalid (st_nodes s) hb ->
      op_sub O s ha hb = Some r -> vc (st_nodes (fst r)).
  Proof.
    intros s ha hb r Hg Hv Ha Hb H. unfold op_sub in H.
    apply obind_some in H. destruct H as ([s1 hn] & H1 & H).
    pose proof (op_neg_post O s Hg hb _ Hb H1) as (Hx1 & Hg1 & Hh1).
    pose proof (op_neg_vc s Hg Hv hb _ Hb H1) as Hv1. cbn [fst snd] in *.
    apply (op_add_vc s1 Hg1 Hv1 ha hn r); [eapply hvalid_ext; eassumption | exact Hh1 | exact H].
  Qed.

  Lemma op_axpy_vc : forall s alpha hx hy r,
      store_good (st_nodes s) -> vc (st_nodes s) ->
      hvalid (st_nodes s) hx -> hvalid (st_nodes s) hy ->
      op_axpy O s alpha hx hy = Some r -> vc (st_nodes (fst r)).
  Proof.
    intros s alpha hx hy r Hg Hv Ha Hb H. unfold op_axpy in H.
    apply obind_some in H. destruct H as ([s1 hs] & H1 & H).
    pose proof (op_scale_post O s Hg alpha hx _ Ha H1) as (Hx1 & Hg1 & Hh1).
    pose proof (op_scale_vc s Hg Hv alpha hx _ Ha H1) as Hv1. cbn [fst snd] in *.
    apply (op_add_vc s1 Hg1 Hv1 hs hy r); [exact Hh1 | eapply hvalid_ext; eassumption | exact H].
  Qed.

  Lemma op_softmax_vc : forall s h r,
      store_good (st_nodes s) -> vc (st_nodes s) -> hvalid (st_nodes s) h ->
      op_softmax O s h = Some r -> vc (st_nodes (fst r)).
  Proof.
    intros s h r Hg Hv Hh H. unfold op_softmax in H.
    apply obind_some in H. destruct H as ([s1 he] & H1 & H).
    apply obind_some in H. destruct H as ([s2 hs] & H2 & H).
    pose proof (op_exp_post O s Hg h _ Hh H1) as (Hx1 & Hg1 & Hh1).
    pose proof (op_exp_vc s Hg Hv h _ Hh H1) as Hv1. cbn [fst snd] in *.
    pose proof (op_sum_post O s1 Hg1 1 he _ Hh1 H2) as (Hx2 & Hg2 & Hh2).
    pose proof (op_sum_vc s1 Hg1 Hv1 1 he _ Hh1 H2) as Hv2. cbn [fst snd] in *.
    apply (op_div_vc s2 Hg2 Hv2 he hs r); [eapply hvalid_ext; eassumption | exact Hh2 | exact H].
  Qed.

  Lemma op_conv_vc : forall s sr sc hi hf r,
      store_good (st_nodes s) -> vc (st_nodes s) ->
      hvalid (st_nodes s) hi -> hvalid (st_nodes s) hf ->
      op_conv O s sr sc hi hf = Some r -> vc (st_nodes (fst r)).
  Proof.
    intros s sr sc hi hf r Hg Hv Hi Hf H. unfold op_conv in H. cbv zeta in H.
    apply obind_some in H. destruct H as (image & _ & H).
    apply obind_some in H. destruct H as (filters & _ & H).
    apply obind_some in H. destruct H as (u1 & _ & H).
    apply obind_some in H. destruct H as (u2 & _ & H).
    apply obind_some in H. destruct H as (depth & _ & H).
    apply obind_some in H. destruct H as (rows & _ & H).
    apply obind_some in H. destruct H as (cols & _ & H).
    apply obind_some in H. destruct H as (fr & _ & H).
    apply obind_some in H. destruct H as (fc & _ & H).
    apply obind_some in H. destruct H as (rcount & _ & H).
    apply obind_some in H. destruct H as (ccount & _ & H).
    apply obind_some in H. destruct H as ([s1 hu] & H1 & H).
    apply obind_some in H. destruct H as (ua & _ & H).
    apply obind_some in H. destruct H as (last & _ & H).
    apply obind_some in H. destruct H as ([s2 hm] & H2 & H).
    apply obind_some in H. destruct H as ([s3 hcv] & H3 & H).
    pose proof (op_unroll_post O s Hg hi _ _ _ _ _ Hi H1) as (Hx1 & Hg1 & Hh1).
    pose proof (op_unroll_vc s Hg Hv hi _ _ _ _ _ Hi H1) as Hv1. cbn [fst snd] in *.
    assert (Hf1 : hvalid (st_nodes s1) hf) by (eapply hvalid_ext; eassumption).
    pose proof (op_reshape_post s1 Hg1 _ hf _ Hf1 H2) as (Hx2 & Hg2 & Hh2).
    pose proof (op_reshape_vc s1 Hg1 Hv1 _ hf _ Hf1 H2) as Hv2. cbn [fst snd] in *.
    assert (Hu2 : hvalid (st_nodes s2) hu) by (eapply hvalid_ext; eassumption).
    assert (Hnone : forall h0 : handle, @None handle = Some h0 -> hvalid (st_nodes s2) h0)
      by (intros h0 Hh0; discriminate Hh0).
    pose proof (op_matmul_post O s2 Hg2 false true hu hm None _ Hu2 Hh2 Hnone H3) as (Hx3 & Hg3 & Hh3).
    pose proof (op_matmul_vc s2 Hg2 Hv2 false true hu hm None _ Hu2 Hh2 Hnone H3) as Hv3.
    cbn [fst snd] in *.
    exact (op_expand_vc s3 Hg3 Hv3 hcv _ _ r Hh3 H).
  Qed.

  Theorem apply_op_vc : forall s k hs r,
      store_good (st_nodes s) -> vc (st_nodes s) ->
      (forall h, In h hs -> hvalid (st_nodes s) h) ->
      apply_op O s k hs = Some r -> vc (st_nodes (fst r)).
  Proof.
    intros s k hs r Hg Hv Hhs H.
    destruct k; try (eapply op_custom_vc; eassumption);
      destruct hs as [|h1 [|h2 [|h3 [|h4 l]]]]; cbn [apply_op] in H; try discriminate H;
        try (assert (Hv1 : hvalid (st_nodes s) h1) by (apply Hhs; simpl; tauto));
        try (assert (Hv2 : hvalid (st_nodes s) h2) by (apply Hhs; simpl; tauto));
        try (assert (Hv3 : hvalid (st_nodes s) h3) by (apply Hhs; simpl; tauto)).
    - exact (op_add_vc s Hg Hv h1 h2 r Hv1 Hv2 H).
    - exact (op_sub_vc s h1 h2 r Hg Hv Hv1 Hv2 H).
    - exact (op_mul_vc s Hg Hv h1 h2 r Hv1 Hv2 H).
    - exact (op_div_vc s Hg Hv h1 h2 r Hv1 Hv2 H).
    - exact (op_neg_vc s Hg Hv h1 r Hv1 H).
    - exact (op_scale_vc s Hg Hv _ h1 r Hv1 H).
    - exact (op_recip_vc s Hg Hv h1 r Hv1 H).
    - exact (op_powf_vc s Hg Hv _ h1 r Hv1 H).
    - exact (op_ln_vc s Hg Hv h1 r Hv1 H).
    - exact (op_exp_vc s Hg Hv h1 r Hv1 H).
    - exact (op_sum_vc s Hg Hv _ h1 r Hv1 H).
    - exact (op_reshape_vc s Hg Hv _ h1 r Hv1 H).
    - refine (op_matmul_vc s Hg Hv _ _ h1 h2 None r Hv1 Hv2 _ H). intros h0 Hh0. discriminate Hh0.
    - refine (op_matmul_vc s Hg Hv _ _ h1 h2 (Some h3) r Hv1 Hv2 _ H).
      intros h0 Hh0. injection Hh0 as Hh0. subst h0. exact Hv3.
    - exact (op_conv_vc s _ _ h1 h2 r Hg Hv Hv1 Hv2 H).
    - exact (op_relu_vc s Hg Hv h1 r Hv1 H).
    - exact (op_sigmoid_vc s Hg Hv h1 r Hv1 H).
    - exact (op_softmax_vc s h1 r Hg Hv Hv1 H).
    - exact (op_axpy_vc s _ h1 h2 r Hg Hv Hv1 Hv2 H).
  Qed.

  (** * Passes and gradient slots *)

  Lemma pass_vc : forall (g : list gnode) r keep seed g' log,
      store_good g -> r < length g -> vc g ->
      run_backward E g r keep seed = Some (g', log) -> vc g'.
  Proof.
    intros g r keep seed g' log Hg Hr Hv Hrun.
    destruct (pass_spec E g r keep seed g' log (store_good_wfg O g Hg) (store_good_clean g Hg)
                        (store_good_contract O g Hg) Hr Hrun) as (_ & Hlen & Hskel & _).
    eapply vc_same_skel; [exact Hlen | exact Hskel | exact Hv].
  Qed.

  Lemma clear_grad_vc : forall (s : state) h s',
      vc (st_nodes s) -> clear_grad s h = Some s' -> vc (st_nodes s').
  Proof.
    intros s h s' Hv H. unfold clear_grad in H.
    apply obind_some in H. destruct H as (nd & Hnd & H).
    apply obind_some in H. destruct H as (g' & Hput & H). injection H as H. subst s'.
    cbn [st_nodes with_nodes]. unfold h_node in Hnd.
    eapply vc_same_skel; [exact (put_length _ _ _ _ Hput) | | exact Hv].
    intros id x x' Hx Hx'. apply put_inv in Hput. destruct Hput as (_ & _ & Hn).
    rewrite Hn in Hx'. destruct (id =? e_node h) eqn:Hid.
    - apply Nat.eqb_eq in Hid. subst id. injection Hx' as Hx'. subst x'.
      assert (Heq : x = nd) by (unfold Program.gnode in *; congruence). subst x. split; reflexivity.
    - assert (Heq : x' = x) by (unfold Program.gnode in *; congruence). subst x'. split; reflexivity.
  Qed.

  Lemma fold_clear_vc : forall hs (s s1 : state),
      vc (st_nodes s) ->
      fold_left (fun (acc : option state) (h : handle) => st <- acc ;; clear_grad st h) hs (Some s)
      = Some s1 -> vc (st_nodes s1).
  Proof.
    intro hs. induction hs as [|h hs IH]; intros s s1 Hv H.
    - injection H as H. subst s1. exact Hv.
    - cbn [fold_left obind] in H.
      destruct (clear_grad s h) as [s2|] eqn:Hc;
        [| rewrite fold_left_none in H by (intro b; reflexivity); discriminate H].
      apply (IH s2 s1); [eapply clear_grad_vc; eassumption | exact H].
  Qed.

  Lemma fold_gd_vc : forall ps (s : state) buf out s2 buf2 out2,
      store_good (st_nodes s) -> vc (st_nodes s) ->
      fold_left (gd_step (F := F)) ps (Some (s, buf, out)) = Some (s2, buf2, out2) ->
      vc (st_nodes s2).
  Proof.
    intro ps. induction ps as [|[h fr] ps IH]; intros s buf out s2 buf2 out2 Hg Hv H.
    - injection H as H1 H2 H3. subst s2. exact Hv.
    - cbn [fold_left] in H.
      destruct (gd_step (Some (s, buf, out)) (h, fr)) as [[[s1 buf1] out1]|] eqn:Hstep;
        [| rewrite fold_left_none in H by (intro b; reflexivity); discriminate H].
      assert (H1 : store_good (st_nodes s1) /\ vc (st_nodes s1)).
      { unfold gd_step in Hstep. cbn [obind fst snd] in Hstep. destruct fr.
        - injection Hstep as Ha Hb Hc. subst s1. split; assumption.
        - apply obind_some in Hstep. destruct Hstep as (a & Ha & Hstep).
          apply obind_some in Hstep. destruct Hstep as (u & _ & Hstep).
          apply obind_some in Hstep. destruct Hstep as (na & Hna & Hstep).
          apply mk_wf in Hna. destruct Hna as [Hwna _].
          pose proof (alloc_leaf_post s na None Hg Hwna) as Hp.
          pose proof (alloc_leaf_vc s na None Hg Hv) as Hv'.
          destruct (alloc s na [] None None) as [s'' h'].
          injection Hstep as Hb Hc Hd. subst s1. destruct Hp as (_ & Hg'' & _). split; assumption. }
      destruct H1 as [Hg1 Hv1]. eapply IH; eassumption.
  Qed.

  Lemma gd_update_vc : forall (s : state) lr params s2 out,
      store_good (st_nodes s) -> vc (st_nodes s) ->
      gd_update O s lr params = Some (s2, out) -> vc (st_nodes s2).
  Proof.
    intros s lr params s2 out Hg Hv H. unfold gd_update in H. cbv zeta in H.
    apply obind_some in H. destruct H as (pv & _ & H).
    apply obind_some in H. destruct H as (pg & _ & H).
    apply obind_some in H. destruct H as (s1 & Hs1 & H).
    apply obind_some in H. destruct H as ([[s3 buf3] out3] & Hfold & H).
    injection H as H1 H2. subst s3 out3.
    destruct (fold_clear_good _ s s1 Hg Hs1) as [Hg1 _].
    pose proof (fold_clear_vc _ s s1 Hv Hs1) as Hv1.
    change (fold_left (gd_step (F := F))
              (combine params (frozen_flags s [] params))
              (Some (s1, sgd_zip O lr (concat pv) (concat pg), [])) = Some (s2, buf3, out)) in Hfold.
    eapply fold_gd_vc; eassumption.
  Qed.

  (** * The model *)

  Lemma apply_act_vc : forall s a h r,
      store_good (st_nodes s) -> vc (st_nodes s) -> hvalid (st_nodes s) h ->
      apply_act O s a h = Some r -> vc (st_nodes (fst r)).
  Proof.
    intros s a h r Hg Hv Hh H. destruct a; cbn [apply_act] in H.
    - injection H as H. subst r. exact Hv.
    - exact (op_relu_vc s Hg Hv h r Hh H).
    - exact (op_sigmoid_vc s Hg Hv h r Hh H).
    - exact (op_softmax_vc s h r Hg Hv Hh H).
  Qed.

  Lemma layer_forward_vc : forall s l input r,
      store_good (st_nodes s) -> vc (st_nodes s) -> hvalid (st_nodes s) input ->
      hvalid (st_nodes s) (l_w l) -> hvalid (st_nodes s) (l_b l) ->
      layer_forward O s l input = Some r -> vc (st_nodes (fst r)).
  Proof.
    intros s l input r Hg Hv Hi Hw Hb H. unfold layer_forward in H.
    destruct (l_conv l) as [[sr sc]|].
    - apply obind_some in H. destruct H as ([s1 hc] & H1 & H).
      apply obind_some in H. destruct H as ([s2 h] & H2 & H).
      pose proof (op_conv_post O s sr sc input (l_w l) _ Hg Hi Hw H1) as (Hx1 & Hg1 & Hh1).
      pose proof (op_conv_vc s sr sc input (l_w l) _ Hg Hv Hi Hw H1) as Hv1. cbn [fst snd] in *.
      assert (Hb1 : hvalid (st_nodes s1) (l_b l)) by (eapply hvalid_ext; eassumption).
      pose proof (op_add_post O s1 Hg1 hc (l_b l) _ Hh1 Hb1 H2) as (Hx2 & Hg2 & Hh2).
      pose proof (op_add_vc s1 Hg1 Hv1 hc (l_b l) _ Hh1 Hb1 H2) as Hv2. cbn [fst snd] in *.
      eapply apply_act_vc; eassumption.
    - apply obind_some in H. destruct H as ([s1 h] & H1 & H).
      assert (Hsome : forall h0, Some (l_b l) = Some h0 -> hvalid (st_nodes s) h0)
        by (intros h0 Hh0; injection Hh0 as Hh0; subst h0; exact Hb).
      pose proof (op_matmul_post O s Hg false true input (l_w l) (Some (l_b l)) _ Hi Hw Hsome H1)
        as (Hx1 & Hg1 & Hh1).
      pose proof (op_matmul_vc s Hg Hv false true input (l_w l) (Some (l_b l)) _ Hi Hw Hsome H1) as Hv1.
      cbn [fst snd] in *. eapply apply_act_vc; eassumption.
  Qed.

  Lemma fold_layers_vc : forall ls s h s1 out,
      store_good (st_nodes s) -> vc (st_nodes s) -> hvalid (st_nodes s) h ->
      (forall l, In l ls -> lvalid (st_nodes s) l) ->
      fold_left (fun (acc : option (state * handle)) (l : layer) =>
                   st <- acc ;; let '(s', h') := st in layer_forward O s' l h')
                ls (Some (s, h)) = Some (s1, out) ->
      vc (st_nodes s1).
  Proof.
    intro ls. induction ls as [|l ls IH]; intros s h s1 out Hg Hv Hh Hls H.
    - injection H as H1 H2. subst s1. exact Hv.
    - cbn [fold_left obind] in H.
      destruct (layer_forward O s l h) as [[s2 h2]|] eqn:Hl;
        [| rewrite fold_left_none in H by (intro b; reflexivity); discriminate H].
      destruct (Hls l (or_introl eq_refl)) as [Hw Hb].
      pose proof (layer_forward_post O s l h _ Hg Hh Hw Hb Hl) as (Hx & Hg2 & Hh2).
      pose proof (layer_forward_vc s l h _ Hg Hv Hh Hw Hb Hl) as Hv2. cbn [fst snd] in *.
      apply (IH s2 h2 s1 out Hg2 Hv2 Hh2); [| exact H].
      intros l0 Hl0. destruct (Hls l0 (or_intror Hl0)) as [Hw0 Hb0].
      split; eapply hvalid_ext; eassumption.
  Qed.

  Lemma cost_apply_vc : forall s c output target r,
      store_good (st_nodes s) -> vc (st_nodes s) ->
      hvalid (st_nodes s) output -> hvalid (st_nodes s) target ->
      cost_apply O s c output target = Some r -> vc (st_nodes (fst r)).
  Proof.
    intros s c output target r Hg Hv Ho Ht H. unfold cost_apply in H.
    apply obind_some in H. destruct H as (o & _ & H). destruct c.
    - cbv zeta in H.
      apply obind_some in H. destruct H as ([s1 d] & H1 & H).
      apply obind_some in H. destruct H as ([s2 p] & H2 & H).
      pose proof (op_sub_post O s target output _ Hg Ht Ho H1) as (Hx1 & Hg1 & Hh1).
      pose proof (op_sub_vc s target output _ Hg Hv Ht Ho H1) as Hv1. cbn [fst snd] in *.
      pose proof (op_powf_post O s1 Hg1 _ d _ Hh1 H2) as (Hx2 & Hg2 & Hh2).
      pose proof (op_powf_vc s1 Hg1 Hv1 _ d _ Hh1 H2) as Hv2. cbn [fst snd] in *.
      exact (op_scale_vc s2 Hg2 Hv2 _ p r Hh2 H).
    - apply obind_some in H. destruct H as (batch & _ & H).
      apply obind_some in H. destruct H as ([s1 nt] & H1 & H).
      apply obind_some in H. destruct H as ([s2 lo] & H2 & H).
      apply obind_some in H. destruct H as ([s3 m] & H3 & H).
      pose proof (op_neg_post O s Hg target _ Ht H1) as (Hx1 & Hg1 & Hh1).
      pose proof (op_neg_vc s Hg Hv target _ Ht H1) as Hv1. cbn [fst snd] in *.
      assert (Ho1 : hvalid (st_nodes s1) output) by (eapply hvalid_ext; eassumption).
      pose proof (op_ln_post O s1 Hg1 output _ Ho1 H2) as (Hx2 & Hg2 & Hh2).
      pose proof (op_ln_vc s1 Hg1 Hv1 output _ Ho1 H2) as Hv2. cbn [fst snd] in *.
      assert (Hnt2 : hvalid (st_nodes s2) nt) by (eapply hvalid_ext; eassumption).
      pose proof (op_mul_post O s2 Hg2 nt lo _ Hnt2 Hh2 H3) as (Hx3 & Hg3 & Hh3).
      pose proof (op_mul_vc s2 Hg2 Hv2 nt lo _ Hnt2 Hh2 H3) as Hv3. cbn [fst snd] in *.
      exact (op_scale_vc s3 Hg3 Hv3 _ m r Hh3 H).
  Qed.

  Lemma make_layer_vc : forall s l s' ly,
      store_good (st_nodes s) -> vc (st_nodes s) -> make_layer s l = Some (s', ly) ->
      vc (st_nodes s').
  Proof.
    intros s l s' ly Hg Hv H.
    assert (Hgen : forall (wa ba : arr F) conv a,
               wf wa -> wf ba ->
               (let '(s1, hw) := alloc s wa [] None None in
                let '(s2, hb) := alloc s1 ba [] None None in
                Some (s2, {| l_conv := conv; l_act := a;
                             l_w := mkh (e_node hw) true true; l_b := mkh (e_node hb) true true |}))
               = Some (s', ly) -> vc (st_nodes s')).
    { intros wa ba conv a Hwa Hba H0.
      pose proof (alloc_leaf_post s wa None Hg Hwa) as Hp1.
      pose proof (alloc_leaf_vc s wa None Hg Hv) as Hv1.
      destruct (alloc s wa [] None None) as [s1 hw].
      destruct Hp1 as (_ & Hg1 & _). cbn [fst snd] in *.
      pose proof (alloc_leaf_vc s1 ba None Hg1 Hv1) as Hv2.
      destruct (alloc s1 ba [] None None) as [s2 hb]. cbn [fst snd] in *.
      injection H0 as H1 H2. subst s'. exact Hv2. }
    destruct l as [nin nout a w b | count depth fr fc sr sc a f b]; cbn [make_layer] in H.
    - apply obind_some in H. destruct H as (wa & Hwa & H).
      apply obind_some in H. destruct H as (ba & Hba & H).
      apply mk_wf in Hwa. apply mk_wf in Hba. eapply Hgen; [| | exact H]; tauto.
    - apply obind_some in H. destruct H as (fa & Hfa & H).
      apply obind_some in H. destruct H as (ba & Hba & H).
      apply mk_wf in Hfa. apply mk_wf in Hba. eapply Hgen; [| | exact H]; tauto.
  Qed.

  Lemma fold_make_layers_vc : forall ls s out s1 layers,
      store_good (st_nodes s) -> vc (st_nodes s) ->
      fold_left (fun (acc : option (state * list layer)) (l : layer_spec) =>
                   st <- acc ;;
                   let '(s', out) := st in
                   r <- make_layer s' l ;;
                   let '(s'', ly) := r in Some (s'', out ++ [ly]))
                ls (Some (s, out)) = Some (s1, layers) ->
      vc (st_nodes s1).
  Proof.
    intro ls. induction ls as [|l ls IH]; intros s out s1 layers Hg Hv H.
    - injection H as H1 H2. subst s1. exact Hv.
    - cbn [fold_left obind] in H.
      destruct (make_layer s l) as [[s2 ly]|] eqn:Hm; cbn [obind] in H;
        [| rewrite fold_left_none in H by (intro b; reflexivity); discriminate H].
      destruct (make_layer_post s l s2 ly Hg Hm) as (_ & Hg2 & _).
      pose proof (make_layer_vc s l s2 ly Hg Hv Hm) as Hv2.
      eapply IH; eassumption.
  Qed.

  Lemma set_var_nodes : forall (s : state) i o s', set_var s i o = Some s' -> st_nodes s' = st_nodes s.
  Proof.
    intros s i o s' H. unfold set_var in H. apply obind_some in H. destruct H as (p & _ & H).
    injection H as H. subst s'. reflexivity.
  Qed.

  Lemma fold_set_var_nodes : forall ps (s1 s2 : state),
      fold_left (fun (acc : option state) (p : nat * handle) =>
                   st <- acc ;; set_var st (fst p) (Some (snd p))) ps (Some s1) = Some s2 ->
      st_nodes s2 = st_nodes s1.
  Proof.
    intro ps. induction ps as [|[i h] ps IH]; intros s1 s2 H.
    - injection H as H. subst s2. reflexivity.
    - cbn [fold_left obind fst snd] in H.
      destruct (set_var s1 i (Some h)) as [s3|] eqn:Hsv;
        [| rewrite fold_left_none in H by (intro b; reflexivity); discriminate H].
      rewrite (IH s3 s2 H). eapply set_var_nodes. exact Hsv.
  Qed.

  (** * Every instruction keeps [value_consistent] *)

  Definition good2 (s : state) : Prop := good s /\ vc (st_nodes s).

  Theorem good2_init : good2 (init_state O).
  Proof.
    split; [apply good_init |]. intros id nd H. destruct id; discriminate H.
  Qed.

  Theorem step_vc : forall s0 i s' o,
      good s0 -> vc (st_nodes s0) -> step O s0 i = Some (s', o) -> vc (st_nodes s').
  Proof.
    intros s0 i s' o Hgd0 Hv0 H. unfold step in H. cbv zeta in H.
    set (s := with_tag s0 (length (st_pool s0))) in *.
    assert (Hgd : good s) by (apply good_with_tag; exact Hgd0).
    assert (Hv : vc (st_nodes s)) by exact Hv0.
    pose proof Hgd as [Hg Hr].
    destruct i.
    - (* ILeaf *)
      apply obind_some in H. destruct H as (a & Ha & H).
      pose proof (alloc_leaf_vc s a None Hg Hv) as Hp.
      destruct (alloc s a [] None None) as [s1 h]. injection H as H _. subst s'. exact Hp.
    - apply obind_some in H. destruct H as (a & Ha & H).
      pose proof (alloc_leaf_vc s a None Hg Hv) as Hp.
      destruct (alloc s a [] None None) as [s1 h]. injection H as H _. subst s'. exact Hp.
    - apply obind_some in H. destruct H as (a & Ha & H).
      pose proof (alloc_leaf_vc s a None Hg Hv) as Hp.
      destruct (alloc s a [] None None) as [s1 h]. injection H as H _. subst s'. exact Hp.
    - apply obind_some in H. destruct H as (args & _ & H).
      apply obind_some in H. destruct H as (a & Ha & H).
      pose proof (alloc_leaf_vc s a None Hg Hv) as Hp.
      destruct (alloc s a [] None None) as [s1 h]. injection H as H _. subst s'. exact Hp.
    - (* IOp *)
      apply obind_some in H. destruct H as (hs & Hhs & H).
      apply obind_some in H. destruct H as ([s1 h] & Hop & H).
      apply obind_some in H. destruct H as (a & _ & H). injection H as H _. subst s'.
      exact (apply_op_vc s k hs _ Hg Hv (mapM_var_valid s args hs Hr Hhs) Hop).
    - (* IClone *)
      apply obind_some in H. destruct H as (x & Hx & H). injection H as H _. subst s'. exact Hv.
    - (* IDrop *)
      apply obind_some in H. destruct H as (x & Hx & H).
      apply obind_some in H. destruct H as (s1 & Hs1 & H). injection H as H _. subst s'.
      cbn [push with_pool st_nodes]. rewrite (set_var_nodes _ _ _ _ Hs1). exact Hv.
    - apply obind_some in H. destruct H as (x & Hx & H).
      apply obind_some in H. destruct H as (s1 & Hs1 & H). injection H as H _. subst s'.
      cbn [push with_pool st_nodes]. rewrite (set_var_nodes _ _ _ _ Hs1). exact Hv.
    - apply obind_some in H. destruct H as (x & Hx & H).
      apply obind_some in H. destruct H as (s1 & Hs1 & H). injection H as H _. subst s'.
      cbn [push with_pool st_nodes]. rewrite (set_var_nodes _ _ _ _ Hs1). exact Hv.
    - apply obind_some in H. destruct H as (x & Hx & H).
      apply obind_some in H. destruct H as (s1 & Hs1 & H). injection H as H _. subst s'.
      cbn [push with_pool st_nodes]. rewrite (set_var_nodes _ _ _ _ Hs1). exact Hv.
    - apply obind_some in H. destruct H as (x & Hx & H).
      apply obind_some in H. destruct H as (s1 & Hs1 & H). injection H as H _. subst s'.
      cbn [push with_pool st_nodes]. rewrite (set_var_nodes _ _ _ _ Hs1). exact Hv.
    - (* IBackward *)
      apply obind_some in H. destruct H as (x & Hx & H).
      apply obind_some in H. destruct H as (sd & Hsd & H).
      apply obind_some in H. destruct H as ([g' log] & Hrun & H). injection H as H _. subst s'.
      cbn [push with_pool with_nodes st_nodes fst].
      exact (pass_vc (st_nodes s) _ _ _ g' log Hg (var_valid s h x Hr Hx) Hv Hrun).
    - (* IGrad *)
      apply obind_some in H. destruct H as (x & Hx & H). injection H as H _. subst s'. exact Hv.
    - (* IClearGrad *)
      apply obind_some in H. destruct H as (x & Hx & H).
      apply obind_some in H. destruct H as (s1 & Hs1 & H). injection H as H _. subst s'.
      exact (clear_grad_vc s x s1 Hv Hs1).
    - (* IFetchGrad *)
      apply obind_some in H. destruct H as (x & Hx & H).
      destruct (grad_of s x) as [gr|].
      + pose proof (alloc_leaf_vc s gr None Hg Hv) as Hp.
        destruct (alloc s gr [] None None) as [s1 hg]. injection H as H _. subst s'. exact Hp.
      + injection H as H _. subst s'. exact Hv.
    - (* ITakeVec *)
      apply obind_some in H. destruct H as (x & Hx & H).
      apply obind_some in H. destruct H as (a & _ & H).
      apply obind_some in H. destruct H as (u & _ & H).
      apply obind_some in H. destruct H as (s1 & Hs1 & H). injection H as H _. subst s'.
      cbn [push with_pool st_nodes]. rewrite (set_var_nodes _ _ _ _ Hs1). exact Hv.
    - inv_bind H. injection H as H _. subst s'. exact Hv.
    - inv_bind H. injection H as H _. subst s'. exact Hv.
    - inv_bind H. injection H as H _. subst s'. exact Hv.
    - inv_bind H. injection H as H _. subst s'. exact Hv.
    - inv_bind H. injection H as H _. subst s'. exact Hv.
    - (* IUpdate *)
      apply obind_some in H. destruct H as (params & Hparams & H).
      apply obind_some in H. destruct H as ([s1 out] & Hgd1 & H).
      apply obind_some in H. destruct H as (s2 & Hs2 & H). injection H as H _. subst s'.
      cbn [push with_pool st_nodes]. rewrite (fold_set_var_nodes _ _ _ Hs2).
      exact (gd_update_vc s lr params s1 out Hg Hv Hgd1).
    - (* IModel *)
      apply obind_some in H. destruct H as ([s1 layers] & Hfold & H). injection H as H _. subst s'.
      exact (fold_make_layers_vc ls s [] s1 layers Hg Hv Hfold).
    - (* IForward *)
      apply obind_some in H. destruct H as (x & Hx & H).
      apply obind_some in H. destruct H as ([s1 out] & Hmf & H).
      apply obind_some in H. destruct H as (a & _ & H). injection H as H _. subst s'.
      unfold model_forward in Hmf.
      apply obind_some in Hmf. destruct Hmf as ([s2 out2] & Hfold & Hmf).
      injection Hmf as H1 H2. subst s1 out2.
      exact (fold_layers_vc (st_layers s) s x s2 out Hg Hv (var_valid s h x Hr Hx)
                            (fun l Hl => rvalid_layers s l Hr Hl) Hfold).
    - (* IModelBackward *)
      apply obind_some in H. destruct H as (x & Hx & H).
      apply obind_some in H. destruct H as ([s1 loss] & Hmb & H). injection H as H _. subst s'.
      unfold model_backward in Hmb.
      apply obind_some in Hmb. destruct Hmb as (output & Hout & Hmb).
      apply obind_some in Hmb. destruct Hmb as ([s2 err] & Hcost & Hmb).
      apply obind_some in Hmb. destruct Hmb as ([g' log] & Hrun & Hmb).
      apply obind_some in Hmb. destruct Hmb as (ea & _ & Hmb).
      injection Hmb as H1 H2. subst s1 loss.
      pose proof (cost_apply_post O s (st_cost s) output x _ Hg (rvalid_output s output Hr Hout)
                                  (var_valid s h x Hr Hx) Hcost) as (Hxx & Hg2 & Hh2).
      pose proof (cost_apply_vc s (st_cost s) output x _ Hg Hv (rvalid_output s output Hr Hout)
                                (var_valid s h x Hr Hx) Hcost) as Hv2.
      cbn [fst snd push with_pool with_nodes st_nodes] in *.
      exact (pass_vc (st_nodes s2) _ _ _ g' log Hg2 Hh2 Hv2 Hrun).
    - (* IModelUpdate *)
      apply obind_some in H. destruct H as (s1 & Hmu & H). injection H as H _. subst s'.
      unfold model_update in Hmu.
      apply obind_some in Hmu. destruct Hmu as ([s2 hs] & Hgu & Hmu). injection Hmu as Hmu. subst s1.
      exact (gd_update_vc s (st_lr s) (model_params s) s2 hs Hg Hv Hgu).
    - (* IParams *)
      injection H as H _. subst s'. exact Hv.
  Qed.

  Theorem step_good2 : forall s0 i s' o,
      good2 s0 -> seed_ok s0 i -> step O s0 i = Some (s', o) -> good2 s'.
  Proof.
    intros s0 i s' o [Hgd Hv] Hseed H. split.
    - eapply step_good; eassumption.
    - eapply step_vc; eassumption.
  Qed.

  Theorem reaches_good2 : forall s0 p s, good2 s0 -> reaches O s0 p s -> good2 s.
  Proof.
    intros s0 p s Hgd H. induction H as [s0 p | s0 i p s1 o s Hseed Hstep Hre IH].
    - exact Hgd.
    - apply IH. eapply step_good2; eassumption.
  Qed.

  Theorem run_good2 : forall p s, reachable_state O p s -> good2 s.
  Proof. intros p s H. eapply reaches_good2; [apply good2_init | exact H]. Qed.
End HistoryVC.

Print Assumptions apply_op_vc.
Print Assumptions step_good2.
Print Assumptions run_good2.
