(** [pre_ok_all]: every operation node satisfies the side conditions [code_pre3] of its
    closure ([Proofs/CodeSupport3.v]: as [code_pre3], but a matmul may also be one of the
    rank-1 forms: dot product of two untransposed vectors, vector x matrix, matrix x vector),
    as an invariant of program histories.  This file is [Proofs/HistoryPre.v] with
    [code_pre3] replaced by [code_pre3]; the side conditions on the instructions are:
    - [OSum k]: [k] at most the rank of the operand;
    - [OSoftmax]: operand of rank at least 1;
    - [OMatmul]: [mm_any]: operands of rank at least 2, or one of the three rank-1 forms;
      additive term (if any) of an admissible shape;
    - [OConv]: filters of rank at least 4 (as the convolutional layers build them);
    - [OCustom CMul/CAff]: operands of equal dimensions.
    Everything else (unroll/expand geometry, the matmul inside a convolution) is derived
    from the success of the forward operation. *)

From Coq Require Import List Arith Bool Lia PeanoNat.
From Corgi Require Import Lib.OptionMonad Lib.Sums Model.Scalar Model.Arr Model.SlicedOp
     Model.Elementwise Model.Linalg Model.Image Model.Ops Model.Engine Model.Program
     Proofs.ArrFacts Proofs.BroadcastDims Proofs.EngineDefs Proofs.EngineBase Proofs.Propagate
     Proofs.EngineInv Proofs.SlicedOpSpec Proofs.FlattenSpec Proofs.MatmulSpec Proofs.ConvSpec
     Proofs.DualLift Proofs.LocalAdjoint Proofs.LocalAdjoint2 Proofs.OpsWf Proofs.HistoryInv
     Proofs.LocalAdjoint3 Proofs.FwdCode Proofs.CodeSupport2 Proofs.HistoryVC Proofs.C01Gen
     Proofs.CodeSupport3.
Import ListNotations.

Section HistoryPre3.
  Context {F : Type} (O : ScalarOps F).

  Local Notation pay := (@pay F).
  Local Notation gnode := (@gnode F).
  Local Notation state := (@state F).
  Local Notation instr := (@instr F).
  Local Notation opk := (@opk F).
  Local Notation E := (Program.E O).

  Definition pre_ok_all (g : list gnode) : Prop := pre_ok_gen code_pre3 g.

  Definition node_pre (g : list gnode) (nd : gnode) : Prop :=
    match p_bop (n_pay nd) with
    | None => True
    | Some code => code_pre3 code (p_dims (n_pay nd)) (cvals g (n_children nd))
    end.

  Lemma pre_ok_iff : forall g : list gnode,
      pre_ok_all g <-> forall id nd, nth_error g id = Some nd -> node_pre g nd.
  Proof.
    intro g. unfold pre_ok_all, pre_ok_gen, node_pre. split.
    - intros H id nd Hnd. destruct (p_bop (n_pay nd)) as [code|] eqn:Hb; [| exact I].
      apply (H id nd code Hnd Hb).
    - intros H id nd code Hnd Hb. specialize (H id nd Hnd). rewrite Hb in H. exact H.
  Qed.

  Lemma node_pre_ext : forall (g g' : list gnode) nd,
      (forall e, In e (n_children nd) -> nval g' (e_node e) = nval g (e_node e)) ->
      node_pre g nd -> node_pre g' nd.
  Proof.
    intros g g' nd H Hp. unfold node_pre in *. rewrite (cvals_ext g g' _ H). exact Hp.
  Qed.

  Definition new_node_pre (g : list gnode) (a : arr F) (children : list handle)
             (bop : option (bop_code F)) : Prop :=
    match bop with
    | None => True
    | Some code => code_pre3 code (dims a) (cvals g children)
    end.

  Lemma alloc_pre : forall (s : state) (a : arr F) children bop buf,
      store_good (st_nodes s) -> pre_ok_all (st_nodes s) ->
      (forall e, In e children -> hvalid (st_nodes s) e) ->
      new_node_pre (st_nodes s) a children bop ->
      pre_ok_all (st_nodes (fst (alloc s a children bop buf))).
  Proof.
    intros s a children bop buf Hg Hp Hch Hnew. apply pre_ok_iff.
    rewrite pre_ok_iff in Hp. unfold alloc. cbn [fst st_nodes with_nodes].
    set (g := st_nodes s) in *.
    intros id x Hx.
    destruct (lt_eq_lt_dec id (length g)) as [[Hlt | Heq] | Hgt].
    - rewrite nth_error_app1 in Hx by exact Hlt.
      apply (node_pre_ext g); [| apply (Hp id x Hx)].
      intros e He. apply nval_app. destruct (Hg id x Hx) as (Hc & _). specialize (Hc e He). nlia.
    - subst id. rewrite nth_error_app2 in Hx by lia. rewrite Nat.sub_diag in Hx.
      injection Hx as Hx. subst x.
      unfold node_pre. cbn [n_pay n_children p_bop p_dims]. destruct bop as [code|]; [| exact I].
      rewrite (cvals_ext g) by (intros e He; apply nval_app; apply Hch; exact He).
      exact Hnew.
    - assert (Hn : id >= length (g ++ [{| n_pay := {| p_dims := dims a; p_vals := vals a; p_bop := bop;
                                                 p_buf := match buf with Some b => b | None => length g end;
                                                 p_tag := st_tag s |};
                                      n_children := children; n_count := 0; n_delta := None;
                                      n_grad := None |}]))
        by (rewrite app_length; simpl; lia).
      apply nth_error_None in Hn. unfold Program.gnode in *. rewrite Hn in Hx. discriminate Hx.
  Qed.

  Lemma alloc_leaf_pre : forall (s : state) (a : arr F) buf,
      store_good (st_nodes s) -> pre_ok_all (st_nodes s) ->
      pre_ok_all (st_nodes (fst (alloc s a [] None buf))).
  Proof. intros s a buf Hg Hp. apply alloc_pre; try assumption; [intros e [] | exact I]. Qed.

  Lemma alloc_if_pre : forall (s : state) (a : arr F) tracked children code,
      store_good (st_nodes s) -> pre_ok_all (st_nodes s) ->
      (forall e, In e children -> hvalid (st_nodes s) e) ->
      new_node_pre (st_nodes s) a children (Some code) ->
      pre_ok_all (st_nodes (fst (alloc_if s a tracked children code))).
  Proof.
    intros s a tracked children code Hg Hp Hch Hnew. unfold alloc_if. destruct tracked.
    - apply alloc_pre; assumption.
    - apply alloc_leaf_pre; assumption.
  Qed.

  Lemma pre_same_skel : forall g g' : list gnode,
      length g' = length g ->
      (forall id nd nd', nth_error g id = Some nd -> nth_error g' id = Some nd' ->
                         n_pay nd' = n_pay nd /\ n_children nd' = n_children nd) ->
      pre_ok_all g -> pre_ok_all g'.
  Proof.
    intros g g' Hl Hsk Hp. rewrite pre_ok_iff in *.
    assert (Hnv : forall id, nval g' id = nval g id).
    { intro id. unfold nval.
      destruct (nth_error g id) as [nd|] eqn:Hn; destruct (nth_error g' id) as [nd'|] eqn:Hn'.
      - destruct (Hsk id nd nd' Hn Hn') as [Hq _]. rewrite Hq. reflexivity.
      - apply nth_error_None in Hn'. apply nth_lt in Hn. nlia.
      - apply nth_error_None in Hn. apply nth_lt in Hn'. nlia.
      - reflexivity. }
    intros id nd' Hnd'.
    assert (Hid : id < length g) by (apply nth_lt in Hnd'; nlia).
    destruct (nth_error g id) as [nd|] eqn:Hnd; [| apply nth_error_None in Hnd; nlia].
    destruct (Hsk id nd nd' Hnd Hnd') as [Hq Hc].
    pose proof (Hp id nd Hnd) as Hpn. unfold node_pre in *. rewrite Hq, Hc.
    rewrite (cvals_ext g g') by (intros e _; apply Hnv). exact Hpn.
  Qed.


  (** * Values of results *)

  Lemma alloc_h_arr : forall (s : state) (a : arr F) children bop buf,
      h_arr (fst (alloc s a children bop buf)) (snd (alloc s a children bop buf)) = Some a.
  Proof.
    intros s a children bop buf. unfold alloc, h_arr, h_node. cbn [fst snd st_nodes with_nodes e_node mkh].
    rewrite nth_error_app2 by lia. rewrite Nat.sub_diag. cbn [nth_error obind n_pay pay_arr p_dims p_vals].
    destruct a; reflexivity.
  Qed.

  Lemma alloc_if_h_arr : forall (s : state) (a : arr F) tracked children code,
      h_arr (fst (alloc_if s a tracked children code)) (snd (alloc_if s a tracked children code)) = Some a.
  Proof. intros. unfold alloc_if. destruct tracked; apply alloc_h_arr. Qed.

  Lemma h_arr_ext : forall (s s' : state) h,
      ext s s' -> hvalid (st_nodes s) h -> h_arr s' h = h_arr s h.
  Proof.
    intros s s' h Hx Hh. unfold h_arr, h_node. rewrite (ext_old s s' _ Hx Hh). reflexivity.
  Qed.

  Lemma unary_result : forall (s : state) h fwd code s1 h1,
      unary s h fwd code = Some (s1, h1) ->
      exists a c, h_arr s h = Some a /\ fwd a = Some c /\ h_arr s1 h1 = Some c.
  Proof.
    intros s h fwd code s1 h1 H. unfold unary in H.
    apply obind_some in H. destruct H as (a & Ha & H).
    apply obind_some in H. destruct H as (c & Hc & H).
    exists a, c. split; [exact Ha |]. split; [exact Hc |].
    pose proof (alloc_if_h_arr s c (e_tracked h) [h] (code c)) as Hr.
    injection H as H. rewrite H in Hr. exact Hr.
  Qed.

  (** * Shapes *)

  Lemma dim_back_inv : forall d k v, dim_back d k = Some v -> k <= length d /\ nth_error d (length d - k) = Some v.
  Proof.
    intros d k v H. unfold dim_back in H. destruct (k <=? length d) eqn:Hk; [| discriminate H].
    apply Nat.leb_le in Hk. cbn [guard obind] in H. split; assumption.
  Qed.

  Lemma dim_back_split3 : forall d x y z,
      dim_back d 3 = Some x -> dim_back d 2 = Some y -> dim_back d 1 = Some z ->
      d = firstn (length d - 3) d ++ [x; y; z].
  Proof.
    intros d x y z H3 H2 H1.
    apply dim_back_inv in H3. apply dim_back_inv in H2. apply dim_back_inv in H1.
    destruct H3 as [Hl H3]. destruct H2 as [_ H2]. destruct H1 as [_ H1].
    set (pre := firstn (length d - 3) d).
    assert (Hf : length pre = length d - 3) by (unfold pre; rewrite firstn_length; lia).
    assert (Hs : length (skipn (length d - 3) d) = 3) by (rewrite skipn_length; lia).
    destruct (skipn (length d - 3) d) as [|a [|b [|c [|? ?]]]] eqn:Hsk; simpl in Hs; try lia.
    assert (Hd : d = pre ++ [a; b; c]) by (unfold pre; rewrite <- Hsk; symmetry; apply firstn_skipn).
    assert (Hn : forall i, nth_error d (length pre + i) = nth_error [a; b; c] i).
    { intro i. rewrite Hd at 1. rewrite nth_error_app2 by lia. f_equal. lia. }
    replace (length d - 3) with (length pre + 0) in H3 by lia.
    replace (length d - 2) with (length pre + 1) in H2 by lia.
    replace (length d - 1) with (length pre + 2) in H1 by lia.
    rewrite Hn in H3, H2, H1. simpl in H3, H2, H1.
    rewrite Hd at 1. congruence.
  Qed.

  Lemma stride_count_inv : forall i f st c,
      stride_count i f st = Some c -> f <= i /\ 1 <= st /\ c = out_count i f st.
  Proof.
    intros i f st c H. unfold stride_count in H.
    destruct (f <=? i) eqn:H1; [| discriminate H]. cbn [guard obind] in H.
    destruct (1 <=? st) eqn:H2; [| discriminate H]. cbn [guard obind] in H.
    apply Nat.leb_le in H1. apply Nat.leb_le in H2. injection H as H.
    split; [exact H1 |]. split; [exact H2 |]. symmetry. exact H.
  Qed.

  (** the success of [unroll_blocks] gives the geometry its closure needs *)
  Lemma unroll_blocks_pre : forall (a x : arr F) depth rows cols sr sc fr fc,
      dim_back (dims a) 3 = Some depth -> dim_back (dims a) 2 = Some rows ->
      dim_back (dims a) 1 = Some cols ->
      unroll_blocks O a sr sc fr fc = Some x ->
      unroll_pre depth rows cols sr sc fr fc [a] /\
      dims x = firstn (length (dims a) - 3) (dims a)
                      ++ [out_count rows fr sr * out_count cols fc sc; depth * (fr * fc)].
  Proof.
    intros a x depth rows cols sr sc fr fc H3 H2 H1 Hx.
    unfold unroll_blocks in Hx. cbv zeta in Hx. rewrite H3, H2, H1 in Hx. cbn [obind] in Hx.
    apply obind_some in Hx. destruct Hx as (rcount & Hrc & Hx).
    apply obind_some in Hx. destruct Hx as (ccount & Hcc & Hx).
    apply stride_count_inv in Hrc. destruct Hrc as (Hfr' & Hsr & ->).
    apply stride_count_inv in Hcc. destruct Hcc as (Hfc' & Hsc & ->).
    destruct (sliced_op_shape O _ _ _ _ _ _ Hx) as [[Hpx _] Hdx].
    split; [| exact Hdx].
    rewrite Hdx in Hpx. apply Forall_app in Hpx. destruct Hpx as [_ Hpx].
    inversion Hpx as [|? ? _ Hpx1]; subst. inversion Hpx1 as [|? ? Hp _]; subst.
    unfold unroll_pre. cbn [nth].
    split; [exact Hsr |]. split; [exact Hsc |].
    split; [destruct fr; [rewrite Nat.mul_0_l, Nat.mul_0_r in Hp; lia | lia] |].
    split; [destruct fc; [rewrite !Nat.mul_0_r in Hp; lia | lia] |].
    split; [exact Hfr' |]. split; [exact Hfc' |].
    eexists. apply dim_back_split3; assumption.
  Qed.

  (** * Operations without side condition *)

  Lemma unary_pre : forall (s : state) h fwd code r,
      store_good (st_nodes s) -> pre_ok_all (st_nodes s) -> hvalid (st_nodes s) h ->
      (forall a c, h_arr s h = Some a -> fwd a = Some c -> code_pre3 (code c) (dims c) [a]) ->
      unary s h fwd code = Some r -> pre_ok_all (st_nodes (fst r)).
  Proof.
    intros s h fwd code r Hg Hp Hh Hcode H. unfold unary in H.
    apply obind_some in H. destruct H as (a & Ha & H).
    apply obind_some in H. destruct H as (c & Hc & H). injection H as H. subst r.
    apply alloc_if_pre; try assumption.
    - intros e [He | []]. subst e. exact Hh.
    - cbn [new_node_pre cvals map]. rewrite (h_arr_nval s h a Ha). apply (Hcode a c Ha Hc).
  Qed.

  Lemma binary_pre : forall (s : state) ha hb fwd code r,
      store_good (st_nodes s) -> pre_ok_all (st_nodes s) ->
      hvalid (st_nodes s) ha -> hvalid (st_nodes s) hb ->
      (forall d cs, code_pre3 code d cs) ->
      binary s ha hb fwd code = Some r -> pre_ok_all (st_nodes (fst r)).
  Proof.
    intros s ha hb fwd code r Hg Hp Hha Hhb Hcode H. unfold binary in H.
    apply obind_some in H. destruct H as (a & Ha & H).
    apply obind_some in H. destruct H as (b & Hb & H).
    apply obind_some in H. destruct H as (c & Hc & H). injection H as H. subst r.
    apply alloc_if_pre; try assumption.
    - intros e [He | [He | []]]; subst e; assumption.
    - apply Hcode.
  Qed.

  Section Ops.
    Variable s : state.
    Hypothesis Hg : store_good (st_nodes s).
    Hypothesis Hp : pre_ok_all (st_nodes s).

    Lemma op_neg_pre : forall h r, hvalid (st_nodes s) h -> op_neg O s h = Some r -> pre_ok_all (st_nodes (fst r)).
    Proof. intros h r Hh H. eapply unary_pre; try eassumption. intros; exact I. Qed.
    Lemma op_scale_pre : forall c h r,
        hvalid (st_nodes s) h -> op_scale O s c h = Some r -> pre_ok_all (st_nodes (fst r)).
    Proof. intros c h r Hh H. eapply unary_pre; try eassumption. intros; exact I. Qed.
    Lemma op_exp_pre : forall h r, hvalid (st_nodes s) h -> op_exp O s h = Some r -> pre_ok_all (st_nodes (fst r)).
    Proof. intros h r Hh H. eapply unary_pre; try eassumption. intros; exact I. Qed.
    Lemma op_ln_pre : forall h r, hvalid (st_nodes s) h -> op_ln O s h = Some r -> pre_ok_all (st_nodes (fst r)).
    Proof. intros h r Hh H. eapply unary_pre; try eassumption. intros; exact I. Qed.
    Lemma op_powf_pre : forall e h r,
        hvalid (st_nodes s) h -> op_powf O s e h = Some r -> pre_ok_all (st_nodes (fst r)).
    Proof. intros e h r Hh H. eapply unary_pre; try eassumption. intros; exact I. Qed.
    Lemma op_relu_pre : forall h r, hvalid (st_nodes s) h -> op_relu O s h = Some r -> pre_ok_all (st_nodes (fst r)).
    Proof. intros h r Hh H. eapply unary_pre; try eassumption. intros; exact I. Qed.
    Lemma op_sigmoid_pre : forall h r,
        hvalid (st_nodes s) h -> op_sigmoid O s h = Some r -> pre_ok_all (st_nodes (fst r)).
    Proof. intros h r Hh H. eapply unary_pre; try eassumption. intros; exact I. Qed.
    Lemma op_recip_pre : forall h r,
        hvalid (st_nodes s) h ->
        unary s h (a_reciprocal O) (fun _ => BRecip) = Some r -> pre_ok_all (st_nodes (fst r)).
    Proof. intros h r Hh H. eapply unary_pre; try eassumption. intros; exact I. Qed.

    Lemma op_add_pre : forall ha hb r,
        hvalid (st_nodes s) ha -> hvalid (st_nodes s) hb -> op_add O s ha hb = Some r ->
        pre_ok_all (st_nodes (fst r)).
    Proof. intros ha hb r Ha Hb H. refine (binary_pre s ha hb _ _ r Hg Hp Ha Hb _ H). intros; exact I. Qed.
    Lemma op_mul_pre : forall ha hb r,
        hvalid (st_nodes s) ha -> hvalid (st_nodes s) hb -> op_mul O s ha hb = Some r ->
        pre_ok_all (st_nodes (fst r)).
    Proof. intros ha hb r Ha Hb H. refine (binary_pre s ha hb _ _ r Hg Hp Ha Hb _ H). intros; exact I. Qed.
    Lemma op_div_pre : forall ha hb r,
        hvalid (st_nodes s) ha -> hvalid (st_nodes s) hb -> op_div O s ha hb = Some r ->
        pre_ok_all (st_nodes (fst r)).
    Proof. intros ha hb r Ha Hb H. refine (binary_pre s ha hb _ _ r Hg Hp Ha Hb _ H). intros; exact I. Qed.

    Lemma op_reshape_pre : forall d h r,
        hvalid (st_nodes s) h -> op_reshape s d h = Some r -> pre_ok_all (st_nodes (fst r)).
    Proof.
      intros d h r Hh H. unfold op_reshape in H.
      apply obind_some in H. destruct H as (nd & Hnd & H).
      apply obind_some in H. destruct H as (c & Hc & H). injection H as H. subst r.
      destruct (e_tracked h).
      - apply alloc_pre; try assumption; [| exact I].
        intros e [He | []]. subst e. exact Hh.
      - apply alloc_leaf_pre; assumption.
    Qed.


    Lemma op_matmul_pre : forall ta tb ha hb hc r,
        hvalid (st_nodes s) ha -> hvalid (st_nodes s) hb ->
        (forall h, hc = Some h -> hvalid (st_nodes s) h) ->
        (forall a b c, h_arr s ha = Some a -> h_arr s hb = Some b ->
                       match hc with Some h => h_arr s h = Some c | None => c = zeros1 O end ->
                       mm_any ta tb [a; b; c]) ->
        op_matmul O s ta tb ha hb hc = Some r -> pre_ok_all (st_nodes (fst r)).
    Proof.
      intros ta tb ha hb hc r Ha Hb Hc Hmm H. unfold op_matmul in H.
      apply obind_some in H. destruct H as (a & Haa & H).
      apply obind_some in H. destruct H as (b & Hbb & H).
      apply obind_some in H. destruct H as (c & Hcc & H).
      apply obind_some in H. destruct H as (x & Hx & H).
      destruct (e_tracked ha || e_tracked hb || match hc with Some h => e_tracked h | None => false end).
      - destruct hc as [h|].
        + injection H as H. subst r.
          apply obind_some in Hcc. destruct Hcc as (cv & Hcv & Hcc). injection Hcc as Hcc. subst c.
          apply alloc_pre; try assumption.
          * intros e [He | [He | [He | []]]]; subst e; try assumption. apply Hc. reflexivity.
          * cbn [new_node_pre cvals map code_pre3 code_pre2].
            rewrite (h_arr_nval s ha a Haa), (h_arr_nval s hb b Hbb), (h_arr_nval s h cv Hcv).
            apply Hmm; assumption.
        + injection Hcc as Hcc. subst c.
          pose proof (alloc_leaf_post s (zeros1 O) None Hg (zeros1_wf O)) as Hp1.
          pose proof (alloc_leaf_pre s (zeros1 O) None Hg Hp) as Hpre1.
          destruct (alloc s (zeros1 O) [] None None) as [s1 h3] eqn:Hal.
          injection H as H. subst r.
          destruct Hp1 as (Hx1 & Hg1 & Hh3). cbn [fst snd] in *.
          apply alloc_pre; try assumption.
          * intros e [He | [He | [He | []]]]; subst e; try assumption;
              eapply hvalid_ext; eassumption.
          * cbn [new_node_pre cvals map code_pre3 code_pre2].
            assert (Hna : nval (st_nodes s1) (e_node ha) = a).
            { rewrite <- (h_arr_nval s ha a Haa). unfold nval.
              rewrite (ext_old s s1 _ Hx1 Ha). reflexivity. }
            assert (Hnb : nval (st_nodes s1) (e_node hb) = b).
            { rewrite <- (h_arr_nval s hb b Hbb). unfold nval.
              rewrite (ext_old s s1 _ Hx1 Hb). reflexivity. }
            assert (Hnc : nval (st_nodes s1) (e_node h3) = zeros1 O).
            { unfold alloc in Hal. injection Hal as Hs1 Hh3'. subst s1 h3.
              unfold nval. cbn [st_nodes with_nodes e_node mkh].
              rewrite nth_error_app2 by lia. rewrite Nat.sub_diag. reflexivity. }
            rewrite Hna, Hnb, Hnc. apply Hmm; try assumption. reflexivity.
      - injection H as H. subst r. apply alloc_leaf_pre; assumption.
    Qed.

    Lemma op_unroll_pre : forall h sr sc fr fc r,
        hvalid (st_nodes s) h -> op_unroll O s h sr sc fr fc = Some r -> pre_ok_all (st_nodes (fst r)).
    Proof.
      intros h sr sc fr fc r Hh H. unfold op_unroll in H.
      apply obind_some in H. destruct H as (a & Ha & H).
      apply obind_some in H. destruct H as (depth & Hdepth & H).
      apply obind_some in H. destruct H as (rows & Hrows & H).
      apply obind_some in H. destruct H as (cols & Hcols & H).
      apply obind_some in H. destruct H as (x & Hx & H).
      injection H as H. subst r.
      apply alloc_if_pre; try assumption.
      - intros e [He | []]. subst e. exact Hh.
      - cbn [new_node_pre cvals map code_pre3 code_pre2]. rewrite (h_arr_nval s h a Ha).
        apply (unroll_blocks_pre a x depth rows cols sr sc fr fc Hdepth Hrows Hcols Hx).
    Qed.

    (** [expand] is only used on the matmul output inside a convolution; its geometry is a
        premise here *)
    Lemma op_expand_pre : forall h rc cc r,
        hvalid (st_nodes s) h ->
        (forall a, h_arr s h = Some a ->
                   1 <= rc /\ 1 <= cc /\ exists batch count, dims a = batch ++ [rc * cc; count]) ->
        op_expand O s h rc cc = Some r -> pre_ok_all (st_nodes (fst r)).
    Proof.
      intros h rc cc r Hh Hgeo H. unfold op_expand in H.
      apply obind_some in H. destruct H as (a & Ha & H).
      apply obind_some in H. destruct H as (fcount & Hfc & H).
      apply obind_some in H. destruct H as (x & Hx & H).
      injection H as H. subst r.
      destruct (Hgeo a Ha) as (Hrc & Hcc & batch & count & Ed).
      assert (Hwa : wf a) by (eapply h_arr_wf; eassumption).
      rewrite Ed, dim_back_snoc2_1 in Hfc. injection Hfc as Hfc. subst fcount.
      rewrite (expand_conv_closed O a batch rc cc count Hwa Ed Hrc Hcc) in Hx.
      injection Hx as Hx. subst x.
      apply alloc_if_pre; try assumption.
      - intros e [He | []]. subst e. exact Hh.
      - cbn [new_node_pre cvals map code_pre3 code_pre2 dims]. rewrite (h_arr_nval s h a Ha).
        unfold dimb. destruct (dim_back_snoc3 batch count rc cc) as [E2 E1]. rewrite E2, E1.
        unfold expand_pre. cbn [nth]. split; [exact Hrc |]. split; [exact Hcc |].
        exists batch. exact Ed.
    Qed.

    (** ** operations with a side condition on the operands *)

    Lemma op_sum_pre : forall k h r,
        hvalid (st_nodes s) h ->
        (forall a, h_arr s h = Some a -> k <= length (dims a)) ->
        op_sum O s k h = Some r -> pre_ok_all (st_nodes (fst r)).
    Proof.
      intros k h r Hh Hk H. unfold op_sum in H. destruct (k =? 0).
      - injection H as H. subst r. exact Hp.
      - apply obind_some in H. destruct H as (a & Ha & H).
        eapply unary_pre; try eassumption.
        intros a0 c Ha0 _. cbn [code_pre3 code_pre2 nth]. apply Hk. exact Ha0.
    Qed.

    Lemma op_custom_pre : forall c hs r,
        (forall h, In h hs -> hvalid (st_nodes s) h) ->
        (match c with CSq => True | _ => same_dims2 (cvals (st_nodes s) hs) end) ->
        op_custom O s c hs = Some r -> pre_ok_all (st_nodes (fst r)).
    Proof.
      intros c hs r Hhs Hsd H. unfold op_custom in H.
      apply obind_some in H. destruct H as (args & Hargs & H).
      apply obind_some in H. destruct H as (x & Hx & H). injection H as H. subst r.
      apply alloc_pre; assumption.
    Qed.
  End Ops.

  (** * Composite operations *)

  Lemma op_sub_pre : forall s ha hb r,
      store_good (st_nodes s) -> pre_ok_all (st_nodes s) ->
      hvalid (st_nodes s) ha -> hvalid (st_nodes s) hb ->
      op_sub O s ha hb = Some r -> pre_ok_all (st_nodes (fst r)).
  Proof.
    intros s ha hb r Hg Hp Ha Hb H. unfold op_sub in H.
    apply obind_some in H. destruct H as ([s1 hn] & H1 & H).
    pose proof (op_neg_post O s Hg hb _ Hb H1) as (Hx1 & Hg1 & Hh1).
    pose proof (op_neg_pre s Hg Hp hb _ Hb H1) as Hp1. cbn [fst snd] in *.
    apply (op_add_pre s1 Hg1 Hp1 ha hn r); [eapply hvalid_ext; eassumption | exact Hh1 | exact H].
  Qed.

  Lemma op_axpy_pre : forall s alpha hx hy r,
      store_good (st_nodes s) -> pre_ok_all (st_nodes s) ->
      hvalid (st_nodes s) hx -> hvalid (st_nodes s) hy ->
      op_axpy O s alpha hx hy = Some r -> pre_ok_all (st_nodes (fst r)).
  Proof.
    intros s alpha hx hy r Hg Hp Ha Hb H. unfold op_axpy in H.
    apply obind_some in H. destruct H as ([s1 hs] & H1 & H).
    pose proof (op_scale_post O s Hg alpha hx _ Ha H1) as (Hx1 & Hg1 & Hh1).
    pose proof (op_scale_pre s Hg Hp alpha hx _ Ha H1) as Hp1. cbn [fst snd] in *.
    apply (op_add_pre s1 Hg1 Hp1 hs hy r); [exact Hh1 | eapply hvalid_ext; eassumption | exact H].
  Qed.

  Lemma op_softmax_pre : forall s h r,
      store_good (st_nodes s) -> pre_ok_all (st_nodes s) -> hvalid (st_nodes s) h ->
      (forall a, h_arr s h = Some a -> 1 <= length (dims a)) ->
      op_softmax O s h = Some r -> pre_ok_all (st_nodes (fst r)).
  Proof.
    intros s h r Hg Hp Hh Hrank H. unfold op_softmax in H.
    apply obind_some in H. destruct H as ([s1 he] & H1 & H).
    apply obind_some in H. destruct H as ([s2 hs] & H2 & H).
    pose proof (op_exp_post O s Hg h _ Hh H1) as (Hx1 & Hg1 & Hh1).
    pose proof (op_exp_pre s Hg Hp h _ Hh H1) as Hp1. cbn [fst snd] in *.
    destruct (unary_result s h _ _ s1 he H1) as (a & e & Ha & He & Hhe).
    assert (Hsum : forall x, h_arr s1 he = Some x -> 1 <= length (dims x)).
    { intros x Hx. assert (x = e) by congruence. subst x.
      apply OpsWf.map_arr_wf in He. destruct He as [_ Hd]. rewrite Hd. apply Hrank. exact Ha. }
    pose proof (op_sum_post O s1 Hg1 1 he _ Hh1 H2) as (Hx2 & Hg2 & Hh2).
    pose proof (op_sum_pre s1 Hg1 Hp1 1 he _ Hh1 Hsum H2) as Hp2. cbn [fst snd] in *.
    apply (op_div_pre s2 Hg2 Hp2 he hs r); [eapply hvalid_ext; eassumption | exact Hh2 | exact H].
  Qed.

  Lemma op_unroll_result : forall (s : state) h sr sc fr fc s1 hu,
      op_unroll O s h sr sc fr fc = Some (s1, hu) ->
      exists a x depth rows cols,
        h_arr s h = Some a /\ dim_back (dims a) 3 = Some depth /\ dim_back (dims a) 2 = Some rows /\
        dim_back (dims a) 1 = Some cols /\ unroll_blocks O a sr sc fr fc = Some x /\
        h_arr s1 hu = Some x.
  Proof.
    intros s h sr sc fr fc s1 hu H. unfold op_unroll in H.
    apply obind_some in H. destruct H as (a & Ha & H).
    apply obind_some in H. destruct H as (depth & Hdepth & H).
    apply obind_some in H. destruct H as (rows & Hrows & H).
    apply obind_some in H. destruct H as (cols & Hcols & H).
    apply obind_some in H. destruct H as (x & Hx & H).
    exists a, x, depth, rows, cols. repeat (split; [assumption |]).
    pose proof (alloc_if_h_arr s x (e_tracked h) [h] (BUnroll depth rows cols sr sc fr fc)) as Hr.
    injection H as H. rewrite H in Hr. exact Hr.
  Qed.

  Lemma op_reshape_result : forall (s : state) d h s1 hm,
      op_reshape s d h = Some (s1, hm) ->
      exists a x, h_arr s h = Some a /\ a_reshape d a = Some x /\ h_arr s1 hm = Some x.
  Proof.
    intros s d h s1 hm H. unfold op_reshape in H.
    apply obind_some in H. destruct H as (nd & Hnd & H).
    apply obind_some in H. destruct H as (c & Hc & H).
    exists (pay_arr (n_pay nd)), c. split; [unfold h_arr; rewrite Hnd; reflexivity |].
    split; [exact Hc |]. injection H as H.
    destruct (e_tracked h).
    - pose proof (alloc_h_arr s c [h] (Some BReshape) (Some (p_buf (n_pay nd)))) as Hr.
      rewrite H in Hr. exact Hr.
    - pose proof (alloc_h_arr s c [] None (Some (p_buf (n_pay nd)))) as Hr.
      rewrite H in Hr. exact Hr.
  Qed.

  Lemma op_matmul_none_result : forall (s : state) ta tb ha hb s1 h1,
      store_good (st_nodes s) ->
      op_matmul O s ta tb ha hb None = Some (s1, h1) ->
      exists a b x, h_arr s ha = Some a /\ h_arr s hb = Some b /\
                    a_matmul O a ta b tb None = Some x /\ h_arr s1 h1 = Some x.
  Proof.
    intros s ta tb ha hb s1 h1 Hg H. unfold op_matmul in H.
    apply obind_some in H. destruct H as (a & Haa & H).
    apply obind_some in H. destruct H as (b & Hbb & H).
    apply obind_some in H. destruct H as (c & Hcc & H).
    apply obind_some in H. destruct H as (x & Hx & H).
    injection Hcc as Hcc. subst c.
    exists a, b, x. repeat (split; [assumption |]).
    destruct (e_tracked ha || e_tracked hb || false).
    - destruct (alloc s (zeros1 O) [] None None) as [s0 h3].
      injection H as E1 E2. subst s1 h1.
      exact (alloc_h_arr s0 x [ha; hb; h3] (Some (BMatmul ta tb)) None).
    - injection H as E1 E2. subst s1 h1. exact (alloc_h_arr s x [] None None).
  Qed.

  Lemma nonempty_snoc : forall {A} (l : list A), 1 <= length l -> exists l' x, l = l' ++ [x].
  Proof.
    intros A l H. destruct (exists_last (l := l)) as (l' & x & E).
    - intro E. subst l. simpl in H. lia.
    - exists l', x. exact E.
  Qed.

  Lemma op_conv_pre : forall s sr sc hi hf r,
      store_good (st_nodes s) -> pre_ok_all (st_nodes s) ->
      hvalid (st_nodes s) hi -> hvalid (st_nodes s) hf ->
      (forall y, h_arr s hf = Some y -> 4 <= length (dims y)) ->
      op_conv O s sr sc hi hf = Some r -> pre_ok_all (st_nodes (fst r)).
  Proof.
    intros s sr sc hi hf r Hg Hp Hi Hf Hrank H. unfold op_conv in H. cbv zeta in H.
    apply obind_some in H. destruct H as (image & Himage & H).
    apply obind_some in H. destruct H as (filters & Hfilters & H).
    apply obind_some in H. destruct H as (u1 & _ & H).
    apply obind_some in H. destruct H as (u2 & _ & H).
    apply obind_some in H. destruct H as (depth & Hdepth & H).
    apply obind_some in H. destruct H as (rows & Hrows & H).
    apply obind_some in H. destruct H as (cols & Hcols & H).
    apply obind_some in H. destruct H as (fr & _ & H).
    apply obind_some in H. destruct H as (fc & _ & H).
    apply obind_some in H. destruct H as (rcount & Hrcount & H).
    apply obind_some in H. destruct H as (ccount & Hccount & H).
    apply obind_some in H. destruct H as ([s1 hu] & H1 & H).
    apply obind_some in H. destruct H as (ua & Hua & H).
    apply obind_some in H. destruct H as (last & _ & H).
    apply obind_some in H. destruct H as ([s2 hm] & H2 & H).
    apply obind_some in H. destruct H as ([s3 hcv] & H3 & H).
    (* unroll *)
    pose proof (op_unroll_post O s Hg hi _ _ _ _ _ Hi H1) as (Hx1 & Hg1 & Hh1).
    pose proof (op_unroll_pre s Hg Hp hi _ _ _ _ _ Hi H1) as Hp1. cbn [fst snd] in *.
    destruct (op_unroll_result s hi sr sc fr fc s1 hu H1)
      as (a & x & depth' & rows' & cols' & Ha & Hd3 & Hd2 & Hd1 & Hx & Hhu).
    assert (a = image) by congruence. subst a.
    assert (depth' = depth) by congruence. assert (rows' = rows) by congruence.
    assert (cols' = cols) by congruence. subst depth' rows' cols'.
    destruct (unroll_blocks_pre image x depth rows cols sr sc fr fc Hd3 Hd2 Hd1 Hx) as [_ Hdx].
    apply stride_count_inv in Hrcount. destruct Hrcount as (_ & _ & Erc).
    apply stride_count_inv in Hccount. destruct Hccount as (_ & _ & Ecc).
    rewrite <- Erc, <- Ecc in Hdx.
    (* reshape *)
    assert (Hf1 : hvalid (st_nodes s1) hf) by (eapply hvalid_ext; eassumption).
    pose proof (op_reshape_post s1 Hg1 _ hf _ Hf1 H2) as (Hx2 & Hg2 & Hh2).
    pose proof (op_reshape_pre s1 Hg1 Hp1 _ hf _ Hf1 H2) as Hp2. cbn [fst snd] in *.
    destruct (op_reshape_result s1 _ hf s2 hm H2) as (fa & fm & Hfa & Hfm & Hhm).
    rewrite (h_arr_ext s s1 hf Hx1 Hf) in Hfa.
    assert (fa = filters) by congruence. subst fa.
    destruct (a_reshape_wf _ _ _ Hfm) as [_ Hdfm].
    assert (Hpre4 : 1 <= length (firstn (length (dims filters) - 3) (dims filters))).
    { rewrite firstn_length. pose proof (Hrank filters Hfilters). lia. }
    destruct (nonempty_snoc _ Hpre4) as (fpre & cnt & Efpre).
    rewrite Efpre, <- app_assoc in Hdfm. cbn [app] in Hdfm.
    (* matmul *)
    assert (Hu2 : hvalid (st_nodes s2) hu) by (eapply hvalid_ext; eassumption).
    assert (Hhu2 : h_arr s2 hu = Some x) by (rewrite (h_arr_ext s1 s2 hu Hx2 Hh1); exact Hhu).
    assert (Hnone : forall h0 : handle, @None handle = Some h0 -> hvalid (st_nodes s2) h0)
      by (intros h0 Hh0; discriminate Hh0).
    assert (Hmm : forall a b c, h_arr s2 hu = Some a -> h_arr s2 hm = Some b -> c = zeros1 O ->
                                mm_any false true [a; b; c]).
    { intros a b c Ha' Hb' Hc'. assert (a = x) by congruence. assert (b = fm) by congruence. subst a b c.
      left. unfold mm_pre. cbn [nth]. do 6 eexists. split; [exact Hdx |]. split; [exact Hdfm |].
      cbv zeta. right. right. right. reflexivity. }
    pose proof (op_matmul_post O s2 Hg2 false true hu hm None _ Hu2 Hh2 Hnone H3) as (Hx3 & Hg3 & Hh3).
    pose proof (op_matmul_pre s2 Hg2 Hp2 false true hu hm None _ Hu2 Hh2 Hnone Hmm H3) as Hp3.
    cbn [fst snd] in *.
    destruct (op_matmul_none_result s2 false true hu hm s3 hcv Hg2 H3)
      as (a & b & mr & Ha' & Hb' & Hmr & Hhcv).
    assert (a = x) by congruence. assert (b = fm) by congruence. subst a b.
    (* the dimensions of the matmul result *)
    destruct (a_matmul_dims O x false fm true None mr Hmr) as (sh & Hsh & Hdmr).
    rewrite Hdx, Hdfm in Hsh.
    destruct (matmul_dims_rank2 (firstn (length (dims image) - 3) (dims image)) (rcount * ccount)
                                (depth * (fr * fc)) false fpre cnt (last / depth * depth) true)
      as (p & q & Emd).
    rewrite Emd in Hsh.
    apply obind_some in Hsh. destruct Hsh as (lead & _ & Hsh).
    apply obind_some in Hsh. destruct Hsh as (u3 & _ & Hsh).
    injection Hsh as Hsh. subst sh. cbn [ms_out mm_rows mm_cols] in Hdmr.
    (* expand *)
    apply (op_expand_pre s3 Hg3 Hp3 hcv rcount ccount r Hh3); [| exact H].
    intros a Ha''. assert (a = mr) by congruence. subst a.
    split; [rewrite Erc; apply out_count_pos |]. split; [rewrite Ecc; apply out_count_pos |].
    exists lead, cnt. exact Hdmr.
  Qed.

  (** * [apply_op] *)

  Definition op_ok_all (s : state) (k : opk) (hs : list handle) : Prop :=
    match k, hs with
    | OSum n, [a] => forall x, h_arr s a = Some x -> n <= length (dims x)
    | OSoftmax, [a] => forall x, h_arr s a = Some x -> 1 <= length (dims x)
    | OMatmul ta tb, [a; b] =>
      forall x y, h_arr s a = Some x -> h_arr s b = Some y -> mm_any ta tb [x; y; zeros1 O]
    | OMatmul ta tb, [a; b; c] =>
      forall x y z, h_arr s a = Some x -> h_arr s b = Some y -> h_arr s c = Some z ->
                    mm_any ta tb [x; y; z]
    | OConv _ _, [a; b] => forall y, h_arr s b = Some y -> 4 <= length (dims y)
    | OCustom CMul, _ | OCustom CAff, _ => same_dims2 (cvals (st_nodes s) hs)
    | _, _ => True
    end.

  Theorem apply_op_pre_all : forall s k hs r,
      store_good (st_nodes s) -> pre_ok_all (st_nodes s) ->
      (forall h, In h hs -> hvalid (st_nodes s) h) -> op_ok_all s k hs ->
      apply_op O s k hs = Some r -> pre_ok_all (st_nodes (fst r)).
  Proof.
    intros s k hs r Hg Hp Hhs Hok H.
    destruct k;
      try (destruct c; (eapply op_custom_pre; [exact Hg | exact Hp | exact Hhs | | exact H]);
           first [exact Hok | exact I]);
      destruct hs as [|h1 [|h2 [|h3 [|h4 l]]]]; cbn [apply_op] in H; try discriminate H;
        cbn [op_ok_all] in Hok;
        try (assert (Hv1 : hvalid (st_nodes s) h1) by (apply Hhs; simpl; tauto));
        try (assert (Hv2 : hvalid (st_nodes s) h2) by (apply Hhs; simpl; tauto));
        try (assert (Hv3 : hvalid (st_nodes s) h3) by (apply Hhs; simpl; tauto)).
    - exact (op_add_pre s Hg Hp h1 h2 r Hv1 Hv2 H).
    - exact (op_sub_pre s h1 h2 r Hg Hp Hv1 Hv2 H).
    - exact (op_mul_pre s Hg Hp h1 h2 r Hv1 Hv2 H).
    - exact (op_div_pre s Hg Hp h1 h2 r Hv1 Hv2 H).
    - exact (op_neg_pre s Hg Hp h1 r Hv1 H).
    - exact (op_scale_pre s Hg Hp _ h1 r Hv1 H).
    - exact (op_recip_pre s Hg Hp h1 r Hv1 H).
    - exact (op_powf_pre s Hg Hp _ h1 r Hv1 H).
    - exact (op_ln_pre s Hg Hp h1 r Hv1 H).
    - exact (op_exp_pre s Hg Hp h1 r Hv1 H).
    - exact (op_sum_pre s Hg Hp _ h1 r Hv1 Hok H).
    - exact (op_reshape_pre s Hg Hp _ h1 r Hv1 H).
    - refine (op_matmul_pre s Hg Hp _ _ h1 h2 None r Hv1 Hv2 _ _ H).
      + intros h0 Hh0. discriminate Hh0.
      + intros a b c Ha Hb Hc. subst c. apply Hok; assumption.
    - refine (op_matmul_pre s Hg Hp _ _ h1 h2 (Some h3) r Hv1 Hv2 _ _ H).
      + intros h0 Hh0. injection Hh0 as Hh0. subst h0. exact Hv3.
      + intros a b c Ha Hb Hc. apply Hok; assumption.
    - exact (op_conv_pre s _ _ h1 h2 r Hg Hp Hv1 Hv2 Hok H).
    - exact (op_relu_pre s Hg Hp h1 r Hv1 H).
    - exact (op_sigmoid_pre s Hg Hp h1 r Hv1 H).
    - exact (op_softmax_pre s h1 r Hg Hp Hv1 Hok H).
    - exact (op_axpy_pre s _ h1 h2 r Hg Hp Hv1 Hv2 H).
  Qed.

  (** * Passes, gradient slots, optimizer *)

  Lemma pass_pre : forall (g : list gnode) r keep seed g' log,
      store_good g -> r < length g -> pre_ok_all g ->
      run_backward E g r keep seed = Some (g', log) -> pre_ok_all g'.
  Proof.
    intros g r keep seed g' log Hg Hr Hp Hrun.
    destruct (pass_spec E g r keep seed g' log (store_good_wfg O g Hg) (store_good_clean g Hg)
                        (store_good_contract O g Hg) Hr Hrun) as (_ & Hlen & Hskel & _).
    eapply pre_same_skel; [exact Hlen | exact Hskel | exact Hp].
  Qed.

  Lemma clear_grad_pre : forall (s : state) h s',
      pre_ok_all (st_nodes s) -> clear_grad s h = Some s' -> pre_ok_all (st_nodes s').
  Proof.
    intros s h s' Hp H. unfold clear_grad in H.
    apply obind_some in H. destruct H as (nd & Hnd & H).
    apply obind_some in H. destruct H as (g' & Hput & H). injection H as H. subst s'.
    cbn [st_nodes with_nodes]. unfold h_node in Hnd.
    eapply pre_same_skel; [exact (EngineBase.put_length _ _ _ _ Hput) | | exact Hp].
    intros id x x' Hx Hx'. apply put_inv in Hput. destruct Hput as (_ & _ & Hn).
    rewrite Hn in Hx'. destruct (id =? e_node h) eqn:Hid.
    - apply Nat.eqb_eq in Hid. subst id. injection Hx' as Hx'. subst x'.
      assert (Heq : x = nd) by (unfold Program.gnode in *; congruence). subst x. split; reflexivity.
    - assert (Heq : x' = x) by (unfold Program.gnode in *; congruence). subst x'. split; reflexivity.
  Qed.

  Lemma fold_clear_pre : forall hs (s s1 : state),
      pre_ok_all (st_nodes s) ->
      fold_left (fun (acc : option state) (h : handle) => st <- acc ;; clear_grad st h) hs (Some s)
      = Some s1 -> pre_ok_all (st_nodes s1).
  Proof.
    intro hs. induction hs as [|h hs IH]; intros s s1 Hp H.
    - injection H as H. subst s1. exact Hp.
    - cbn [fold_left obind] in H.
      destruct (clear_grad s h) as [s2|] eqn:Hc;
        [| rewrite fold_left_none in H by (intro b; reflexivity); discriminate H].
      apply (IH s2 s1); [eapply clear_grad_pre; eassumption | exact H].
  Qed.

  Lemma fold_gd_pre : forall ps (s : state) buf out s2 buf2 out2,
      store_good (st_nodes s) -> pre_ok_all (st_nodes s) ->
      fold_left (gd_step (F := F)) ps (Some (s, buf, out)) = Some (s2, buf2, out2) ->
      pre_ok_all (st_nodes s2).
  Proof.
    intro ps. induction ps as [|[h fr] ps IH]; intros s buf out s2 buf2 out2 Hg Hp H.
    - injection H as H1 H2 H3. subst s2. exact Hp.
    - cbn [fold_left] in H.
      destruct (gd_step (Some (s, buf, out)) (h, fr)) as [[[s1 buf1] out1]|] eqn:Hstep;
        [| rewrite fold_left_none in H by (intro b; reflexivity); discriminate H].
      assert (H1 : store_good (st_nodes s1) /\ pre_ok_all (st_nodes s1)).
      { unfold gd_step in Hstep. cbn [obind fst snd] in Hstep. destruct fr.
        - injection Hstep as Ha Hb Hc. subst s1. split; assumption.
        - apply obind_some in Hstep. destruct Hstep as (a & Ha & Hstep).
          apply obind_some in Hstep. destruct Hstep as (u & _ & Hstep).
          apply obind_some in Hstep. destruct Hstep as (na & Hna & Hstep).
          apply mk_wf in Hna. destruct Hna as [Hwna _].
          pose proof (alloc_leaf_post s na None Hg Hwna) as Hpost.
          pose proof (alloc_leaf_pre s na None Hg Hp) as Hp'.
          destruct (alloc s na [] None None) as [s'' h'].
          injection Hstep as Hb Hc Hd. subst s1. destruct Hpost as (_ & Hg'' & _). split; assumption. }
      destruct H1 as [Hg1 Hp1]. eapply IH; eassumption.
  Qed.

  Lemma gd_update_pre : forall (s : state) lr params s2 out,
      store_good (st_nodes s) -> pre_ok_all (st_nodes s) ->
      gd_update O s lr params = Some (s2, out) -> pre_ok_all (st_nodes s2).
  Proof.
    intros s lr params s2 out Hg Hp H. unfold gd_update in H. cbv zeta in H.
    apply obind_some in H. destruct H as (pv & _ & H).
    apply obind_some in H. destruct H as (pg & _ & H).
    apply obind_some in H. destruct H as (s1 & Hs1 & H).
    apply obind_some in H. destruct H as ([[s3 buf3] out3] & Hfold & H).
    injection H as H1 H2. subst s3 out3.
    destruct (fold_clear_good _ s s1 Hg Hs1) as [Hg1 _].
    pose proof (fold_clear_pre _ s s1 Hp Hs1) as Hp1.
    change (fold_left (gd_step (F := F))
              (combine params (frozen_flags s [] params))
              (Some (s1, sgd_zip O lr (concat pv) (concat pg), [])) = Some (s2, buf3, out)) in Hfold.
    eapply fold_gd_pre; eassumption.
  Qed.

  (** * The model *)

  Definition act_ok (s1 : state) (a : Program.act) (h1 : handle) : Prop :=
    match a with
    | ASoftmax => forall x, h_arr s1 h1 = Some x -> 1 <= length (dims x)
    | _ => True
    end.

  Lemma apply_act_pre : forall s a h r,
      store_good (st_nodes s) -> pre_ok_all (st_nodes s) -> hvalid (st_nodes s) h -> act_ok s a h ->
      apply_act O s a h = Some r -> pre_ok_all (st_nodes (fst r)).
  Proof.
    intros s a h r Hg Hp Hh Hok H. destruct a; cbn [apply_act] in H.
    - injection H as H. subst r. exact Hp.
    - exact (op_relu_pre s Hg Hp h r Hh H).
    - exact (op_sigmoid_pre s Hg Hp h r Hh H).
    - exact (op_softmax_pre s h r Hg Hp Hh Hok H).
  Qed.

  (** the operand shapes one layer needs: dense layers multiply operands of rank >= 2 with an
      admissible bias, convolutional layers have filters of rank >= 4, a softmax activation
      acts on a non-scalar *)
  Definition layer_ok_all (s : state) (l : layer) (input : handle) : Prop :=
    match l_conv l with
    | None =>
      (forall x y z, h_arr s input = Some x -> h_arr s (l_w l) = Some y -> h_arr s (l_b l) = Some z ->
                     mm_any false true [x; y; z]) /\
      (forall s1 h1, op_matmul O s false true input (l_w l) (Some (l_b l)) = Some (s1, h1) ->
                     act_ok s1 (l_act l) h1)
    | Some (sr, sc) =>
      (forall y, h_arr s (l_w l) = Some y -> 4 <= length (dims y)) /\
      (forall s1 hc s2 h2, op_conv O s sr sc input (l_w l) = Some (s1, hc) ->
                           op_add O s1 hc (l_b l) = Some (s2, h2) -> act_ok s2 (l_act l) h2)
    end.

  Fixpoint layers_ok_all (s : state) (ls : list layer) (h : handle) : Prop :=
    match ls with
    | [] => True
    | l :: ls' => layer_ok_all s l h /\
                  forall s1 h1, layer_forward O s l h = Some (s1, h1) -> layers_ok_all s1 ls' h1
    end.

  Lemma layer_forward_pre : forall s l input r,
      store_good (st_nodes s) -> pre_ok_all (st_nodes s) -> hvalid (st_nodes s) input ->
      hvalid (st_nodes s) (l_w l) -> hvalid (st_nodes s) (l_b l) -> layer_ok_all s l input ->
      layer_forward O s l input = Some r -> pre_ok_all (st_nodes (fst r)).
  Proof.
    intros s l input r Hg Hp Hi Hw Hb Hok H. unfold layer_forward in H. unfold layer_ok_all in Hok.
    destruct (l_conv l) as [[sr sc]|].
    - destruct Hok as [Hrank Hact].
      apply obind_some in H. destruct H as ([s1 hc] & H1 & H).
      apply obind_some in H. destruct H as ([s2 h] & H2 & H).
      pose proof (op_conv_post O s sr sc input (l_w l) _ Hg Hi Hw H1) as (Hx1 & Hg1 & Hh1).
      pose proof (op_conv_pre s sr sc input (l_w l) _ Hg Hp Hi Hw Hrank H1) as Hp1. cbn [fst snd] in *.
      assert (Hb1 : hvalid (st_nodes s1) (l_b l)) by (eapply hvalid_ext; eassumption).
      pose proof (op_add_post O s1 Hg1 hc (l_b l) _ Hh1 Hb1 H2) as (Hx2 & Hg2 & Hh2).
      pose proof (op_add_pre s1 Hg1 Hp1 hc (l_b l) _ Hh1 Hb1 H2) as Hp2. cbn [fst snd] in *.
      eapply apply_act_pre; try eassumption. eapply Hact; eassumption.
    - destruct Hok as [Hmm Hact].
      apply obind_some in H. destruct H as ([s1 h] & H1 & H).
      assert (Hsome : forall h0, Some (l_b l) = Some h0 -> hvalid (st_nodes s) h0)
        by (intros h0 Hh0; injection Hh0 as Hh0; subst h0; exact Hb).
      pose proof (op_matmul_post O s Hg false true input (l_w l) (Some (l_b l)) _ Hi Hw Hsome H1)
        as (Hx1 & Hg1 & Hh1).
      pose proof (op_matmul_pre s Hg Hp false true input (l_w l) (Some (l_b l)) _ Hi Hw Hsome Hmm H1)
        as Hp1.
      cbn [fst snd] in *. eapply apply_act_pre; try eassumption. apply Hact. exact H1.
  Qed.

  Lemma fold_layers_pre : forall ls s h s1 out,
      store_good (st_nodes s) -> pre_ok_all (st_nodes s) -> hvalid (st_nodes s) h ->
      (forall l, In l ls -> lvalid (st_nodes s) l) -> layers_ok_all s ls h ->
      fold_left (fun (acc : option (state * handle)) (l : layer) =>
                   st <- acc ;; let '(s', h') := st in layer_forward O s' l h')
                ls (Some (s, h)) = Some (s1, out) ->
      pre_ok_all (st_nodes s1).
  Proof.
    intro ls. induction ls as [|l ls IH]; intros s h s1 out Hg Hp Hh Hls Hok H.
    - injection H as H1 H2. subst s1. exact Hp.
    - cbn [fold_left obind] in H. cbn [layers_ok_all] in Hok. destruct Hok as [Hl Hrest].
      destruct (layer_forward O s l h) as [[s2 h2]|] eqn:Hlf;
        [| rewrite fold_left_none in H by (intro b; reflexivity); discriminate H].
      destruct (Hls l (or_introl eq_refl)) as [Hw Hb].
      pose proof (layer_forward_post O s l h _ Hg Hh Hw Hb Hlf) as (Hx & Hg2 & Hh2).
      pose proof (layer_forward_pre s l h _ Hg Hp Hh Hw Hb Hl Hlf) as Hp2. cbn [fst snd] in *.
      apply (IH s2 h2 s1 out Hg2 Hp2 Hh2); [| apply Hrest; reflexivity | exact H].
      intros l0 Hl0. destruct (Hls l0 (or_intror Hl0)) as [Hw0 Hb0].
      split; eapply hvalid_ext; eassumption.
  Qed.

  Lemma cost_apply_pre : forall s c output target r,
      store_good (st_nodes s) -> pre_ok_all (st_nodes s) ->
      hvalid (st_nodes s) output -> hvalid (st_nodes s) target ->
      cost_apply O s c output target = Some r -> pre_ok_all (st_nodes (fst r)).
  Proof.
    intros s c output target r Hg Hp Ho Ht H. unfold cost_apply in H.
    apply obind_some in H. destruct H as (o & _ & H). destruct c.
    - cbv zeta in H.
      apply obind_some in H. destruct H as ([s1 d] & H1 & H).
      apply obind_some in H. destruct H as ([s2 p] & H2 & H).
      pose proof (op_sub_post O s target output _ Hg Ht Ho H1) as (Hx1 & Hg1 & Hh1).
      pose proof (op_sub_pre s target output _ Hg Hp Ht Ho H1) as Hp1. cbn [fst snd] in *.
      pose proof (op_powf_post O s1 Hg1 _ d _ Hh1 H2) as (Hx2 & Hg2 & Hh2).
      pose proof (op_powf_pre s1 Hg1 Hp1 _ d _ Hh1 H2) as Hp2. cbn [fst snd] in *.
      exact (op_scale_pre s2 Hg2 Hp2 _ p r Hh2 H).
    - apply obind_some in H. destruct H as (batch & _ & H).
      apply obind_some in H. destruct H as ([s1 nt] & H1 & H).
      apply obind_some in H. destruct H as ([s2 lo] & H2 & H).
      apply obind_some in H. destruct H as ([s3 m] & H3 & H).
      pose proof (op_neg_post O s Hg target _ Ht H1) as (Hx1 & Hg1 & Hh1).
      pose proof (op_neg_pre s Hg Hp target _ Ht H1) as Hp1. cbn [fst snd] in *.
      assert (Ho1 : hvalid (st_nodes s1) output) by (eapply hvalid_ext; eassumption).
      pose proof (op_ln_post O s1 Hg1 output _ Ho1 H2) as (Hx2 & Hg2 & Hh2).
      pose proof (op_ln_pre s1 Hg1 Hp1 output _ Ho1 H2) as Hp2. cbn [fst snd] in *.
      assert (Hnt2 : hvalid (st_nodes s2) nt) by (eapply hvalid_ext; eassumption).
      pose proof (op_mul_post O s2 Hg2 nt lo _ Hnt2 Hh2 H3) as (Hx3 & Hg3 & Hh3).
      pose proof (op_mul_pre s2 Hg2 Hp2 nt lo _ Hnt2 Hh2 H3) as Hp3. cbn [fst snd] in *.
      exact (op_scale_pre s3 Hg3 Hp3 _ m r Hh3 H).
  Qed.

  Lemma make_layer_pre : forall (s : state) l s' ly,
      store_good (st_nodes s) -> pre_ok_all (st_nodes s) -> make_layer s l = Some (s', ly) ->
      pre_ok_all (st_nodes s').
  Proof.
    intros s l s' ly Hg Hp H.
    assert (Hgen : forall (wa ba : arr F) conv a,
               wf wa -> wf ba ->
               (let '(s1, hw) := alloc s wa [] None None in
                let '(s2, hb) := alloc s1 ba [] None None in
                Some (s2, {| l_conv := conv; l_act := a;
                             l_w := mkh (e_node hw) true true; l_b := mkh (e_node hb) true true |}))
               = Some (s', ly) -> pre_ok_all (st_nodes s')).
    { intros wa ba conv a Hwa Hba H0.
      pose proof (alloc_leaf_post s wa None Hg Hwa) as Hp1.
      pose proof (alloc_leaf_pre s wa None Hg Hp) as Hv1.
      destruct (alloc s wa [] None None) as [s1 hw].
      destruct Hp1 as (_ & Hg1 & _). cbn [fst snd] in *.
      pose proof (alloc_leaf_pre s1 ba None Hg1 Hv1) as Hv2.
      destruct (alloc s1 ba [] None None) as [s2 hb]. cbn [fst snd] in *.
      injection H0 as H1 H2. subst s'. exact Hv2. }
    destruct l as [nin nout a w b | count depth fr fc sr sc a f b]; cbn [make_layer] in H.
    - apply obind_some in H. destruct H as (wa & Hwa & H).
      apply obind_some in H. destruct H as (ba & Hba & H).
      apply mk_wf in Hwa. apply mk_wf in Hba. eapply Hgen; [| | exact H]; tauto.
    - apply obind_some in H. destruct H as (fa & Hfa & H).
      apply obind_some in H. destruct H as (ba & Hba & H).
      apply mk_wf in Hfa. apply mk_wf in Hba. eapply Hgen; [| | exact H]; tauto.
  Qed.

  Lemma fold_make_layers_pre : forall ls s out s1 layers,
      store_good (st_nodes s) -> pre_ok_all (st_nodes s) ->
      fold_left (fun (acc : option (state * list layer)) (l : layer_spec) =>
                   st <- acc ;;
                   let '(s', out) := st in
                   r <- make_layer s' l ;;
                   let '(s'', ly) := r in Some (s'', out ++ [ly]))
                ls (Some (s, out)) = Some (s1, layers) ->
      pre_ok_all (st_nodes s1).
  Proof.
    intro ls. induction ls as [|l ls IH]; intros s out s1 layers Hg Hp H.
    - injection H as H1 H2. subst s1. exact Hp.
    - cbn [fold_left obind] in H.
      destruct (make_layer s l) as [[s2 ly]|] eqn:Hm; cbn [obind] in H;
        [| rewrite fold_left_none in H by (intro b; reflexivity); discriminate H].
      destruct (make_layer_post s l s2 ly Hg Hm) as (_ & Hg2 & _).
      pose proof (make_layer_pre s l s2 ly Hg Hp Hm) as Hp2.
      eapply IH; eassumption.
  Qed.

  (** * Every instruction, under its side condition *)

  Definition instr_ok_all (s0 : state) (i : instr) : Prop :=
    let s := with_tag s0 (length (st_pool s0)) in
    match i with
    | IOp k args => forall hs, mapM (var s) args = Some hs -> op_ok_all s k hs
    | IForward h => forall x, var s h = Some x -> layers_ok_all s (st_layers s) x
    | _ => True
    end.

  Theorem step_pre_all : forall s0 i s' o,
      good s0 -> pre_ok_all (st_nodes s0) -> instr_ok_all s0 i -> step O s0 i = Some (s', o) ->
      pre_ok_all (st_nodes s').
  Proof.
    intros s0 i s' o Hgd0 Hp0 Hok H. unfold step in H. unfold instr_ok_all in Hok. cbv zeta in H, Hok.
    set (s := with_tag s0 (length (st_pool s0))) in *.
    assert (Hgd : good s) by (apply good_with_tag; exact Hgd0).
    assert (Hp : pre_ok_all (st_nodes s)) by exact Hp0.
    pose proof Hgd as [Hg Hr].
    destruct i.
    - apply obind_some in H. destruct H as (a & Ha & H).
      pose proof (alloc_leaf_pre s a None Hg Hp) as Hq.
      destruct (alloc s a [] None None) as [s1 h]. injection H as H _. subst s'. exact Hq.
    - apply obind_some in H. destruct H as (a & Ha & H).
      pose proof (alloc_leaf_pre s a None Hg Hp) as Hq.
      destruct (alloc s a [] None None) as [s1 h]. injection H as H _. subst s'. exact Hq.
    - apply obind_some in H. destruct H as (a & Ha & H).
      pose proof (alloc_leaf_pre s a None Hg Hp) as Hq.
      destruct (alloc s a [] None None) as [s1 h]. injection H as H _. subst s'. exact Hq.
    - apply obind_some in H. destruct H as (args & _ & H).
      apply obind_some in H. destruct H as (a & Ha & H).
      pose proof (alloc_leaf_pre s a None Hg Hp) as Hq.
      destruct (alloc s a [] None None) as [s1 h]. injection H as H _. subst s'. exact Hq.
    - (* IOp *)
      apply obind_some in H. destruct H as (hs & Hhs & H).
      apply obind_some in H. destruct H as ([s1 h] & Hop & H).
      apply obind_some in H. destruct H as (a & _ & H). injection H as H _. subst s'.
      exact (apply_op_pre_all s k hs _ Hg Hp (mapM_var_valid s args hs Hr Hhs) (Hok hs Hhs) Hop).
    - apply obind_some in H. destruct H as (x & Hx & H). injection H as H _. subst s'. exact Hp.
    - apply obind_some in H. destruct H as (x & Hx & H).
      apply obind_some in H. destruct H as (s1 & Hs1 & H). injection H as H _. subst s'.
      cbn [push with_pool st_nodes]. rewrite (set_var_nodes _ _ _ _ Hs1). exact Hp.
    - apply obind_some in H. destruct H as (x & Hx & H).
      apply obind_some in H. destruct H as (s1 & Hs1 & H). injection H as H _. subst s'.
      cbn [push with_pool st_nodes]. rewrite (set_var_nodes _ _ _ _ Hs1). exact Hp.
    - apply obind_some in H. destruct H as (x & Hx & H).
      apply obind_some in H. destruct H as (s1 & Hs1 & H). injection H as H _. subst s'.
      cbn [push with_pool st_nodes]. rewrite (set_var_nodes _ _ _ _ Hs1). exact Hp.
    - apply obind_some in H. destruct H as (x & Hx & H).
      apply obind_some in H. destruct H as (s1 & Hs1 & H). injection H as H _. subst s'.
      cbn [push with_pool st_nodes]. rewrite (set_var_nodes _ _ _ _ Hs1). exact Hp.
    - apply obind_some in H. destruct H as (x & Hx & H).
      apply obind_some in H. destruct H as (s1 & Hs1 & H). injection H as H _. subst s'.
      cbn [push with_pool st_nodes]. rewrite (set_var_nodes _ _ _ _ Hs1). exact Hp.
    - (* IBackward *)
      apply obind_some in H. destruct H as (x & Hx & H).
      apply obind_some in H. destruct H as (sd & Hsd & H).
      apply obind_some in H. destruct H as ([g' log] & Hrun & H). injection H as H _. subst s'.
      cbn [push with_pool with_nodes st_nodes fst].
      exact (pass_pre (st_nodes s) _ _ _ g' log Hg (var_valid s h x Hr Hx) Hp Hrun).
    - apply obind_some in H. destruct H as (x & Hx & H). injection H as H _. subst s'. exact Hp.
    - apply obind_some in H. destruct H as (x & Hx & H).
      apply obind_some in H. destruct H as (s1 & Hs1 & H). injection H as H _. subst s'.
      exact (clear_grad_pre s x s1 Hp Hs1).
    - apply obind_some in H. destruct H as (x & Hx & H).
      destruct (grad_of s x) as [gr|].
      + pose proof (alloc_leaf_pre s gr None Hg Hp) as Hq.
        destruct (alloc s gr [] None None) as [s1 hg]. injection H as H _. subst s'. exact Hq.
      + injection H as H _. subst s'. exact Hp.
    - apply obind_some in H. destruct H as (x & Hx & H).
      apply obind_some in H. destruct H as (a & _ & H).
      apply obind_some in H. destruct H as (u & _ & H).
      apply obind_some in H. destruct H as (s1 & Hs1 & H). injection H as H _. subst s'.
      cbn [push with_pool st_nodes]. rewrite (set_var_nodes _ _ _ _ Hs1). exact Hp.
    - inv_bind H. injection H as H _. subst s'. exact Hp.
    - inv_bind H. injection H as H _. subst s'. exact Hp.
    - inv_bind H. injection H as H _. subst s'. exact Hp.
    - inv_bind H. injection H as H _. subst s'. exact Hp.
    - inv_bind H. injection H as H _. subst s'. exact Hp.
    - (* IUpdate *)
      apply obind_some in H. destruct H as (params & Hparams & H).
      apply obind_some in H. destruct H as ([s1 out] & Hgd1 & H).
      apply obind_some in H. destruct H as (s2 & Hs2 & H). injection H as H _. subst s'.
      cbn [push with_pool st_nodes]. rewrite (fold_set_var_nodes _ _ _ Hs2).
      exact (gd_update_pre s lr params s1 out Hg Hp Hgd1).
    - (* IModel *)
      apply obind_some in H. destruct H as ([s1 layers] & Hfold & H). injection H as H _. subst s'.
      exact (fold_make_layers_pre ls s [] s1 layers Hg Hp Hfold).
    - (* IForward *)
      apply obind_some in H. destruct H as (x & Hx & H).
      apply obind_some in H. destruct H as ([s1 out] & Hmf & H).
      apply obind_some in H. destruct H as (a & _ & H). injection H as H _. subst s'.
      unfold model_forward in Hmf.
      apply obind_some in Hmf. destruct Hmf as ([s2 out2] & Hfold & Hmf).
      injection Hmf as H1 H2. subst s1 out2.
      exact (fold_layers_pre (st_layers s) s x s2 out Hg Hp (var_valid s h x Hr Hx)
                             (fun l Hl => rvalid_layers s l Hr Hl) (Hok x Hx) Hfold).
    - (* IModelBackward *)
      apply obind_some in H. destruct H as (x & Hx & H).
      apply obind_some in H. destruct H as ([s1 loss] & Hmb & H). injection H as H _. subst s'.
      unfold model_backward in Hmb.
      apply obind_some in Hmb. destruct Hmb as (output & Hout & Hmb).
      apply obind_some in Hmb. destruct Hmb as ([s2 err] & Hcost & Hmb).
      apply obind_some in Hmb. destruct Hmb as ([g' log] & Hrun & Hmb).
      apply obind_some in Hmb. destruct Hmb as (ea & _ & Hmb).
      injection Hmb as H1 H2. subst s1 loss.
      pose proof (cost_apply_post O s (st_cost s) output x _ Hg (rvalid_output s output Hr Hout)
                                  (var_valid s h x Hr Hx) Hcost) as (Hxx & Hg2 & Hh2).
      pose proof (cost_apply_pre s (st_cost s) output x _ Hg Hp (rvalid_output s output Hr Hout)
                                 (var_valid s h x Hr Hx) Hcost) as Hp2.
      cbn [fst snd push with_pool with_nodes st_nodes] in *.
      exact (pass_pre (st_nodes s2) _ _ _ g' log Hg2 Hh2 Hp2 Hrun).
    - (* IModelUpdate *)
      apply obind_some in H. destruct H as (s1 & Hmu & H). injection H as H _. subst s'.
      unfold model_update in Hmu.
      apply obind_some in Hmu. destruct Hmu as ([s2 hs] & Hgu & Hmu). injection Hmu as Hmu. subst s1.
      exact (gd_update_pre s (st_lr s) (model_params s) s2 hs Hg Hp Hgu).
    - injection H as H _. subst s'. exact Hp.
  Qed.

  (** * Histories *)

  Definition good_all (s : state) : Prop := good2 O s /\ pre_ok_all (st_nodes s).

  Theorem good_all_init : good_all (init_state O).
  Proof.
    split; [apply good2_init |]. intros id nd code H. destruct id; discriminate H.
  Qed.

  Theorem step_good_all : forall s0 i s' o,
      good_all s0 -> seed_ok s0 i -> instr_ok_all s0 i -> step O s0 i = Some (s', o) -> good_all s'.
  Proof.
    intros s0 i s' o [Hg2 Hp] Hseed Hok H. split.
    - eapply step_good2; eassumption.
    - destruct Hg2 as [Hgd _]. eapply step_pre_all; eassumption.
  Qed.

  (** [s] is reached from [s0] by a prefix of [p] all of whose instructions satisfy their
      side conditions (well-shaped explicit seeds, [instr_ok_all]) *)
  Inductive reaches_ok_all (s0 : state) : list instr -> state -> Prop :=
  | reaches_ok_all_nil : forall p, reaches_ok_all s0 p s0
  | reaches_ok_all_step : forall i p s1 o s,
      seed_ok s0 i -> instr_ok_all s0 i -> step O s0 i = Some (s1, o) -> reaches_ok_all s1 p s ->
      reaches_ok_all s0 (i :: p) s.

  Theorem reaches_ok_good_all : forall s0 p s, good_all s0 -> reaches_ok_all s0 p s -> good_all s.
  Proof.
    intros s0 p s Hgd H. induction H as [s0 p | s0 i p s1 o s Hseed Hok Hstep Hre IH].
    - exact Hgd.
    - apply IH. eapply step_good_all; eassumption.
  Qed.

  Definition reachable_ok_all (p : list instr) (s : state) : Prop := reaches_ok_all (init_state O) p s.

  Theorem run_good_all : forall p s, reachable_ok_all p s -> good_all s.
  Proof. intros p s H. eapply reaches_ok_good_all; [apply good_all_init | exact H]. Qed.
End HistoryPre3.

Print Assumptions apply_op_pre_all.
Print Assumptions step_good_all.
Print Assumptions run_good_all.
