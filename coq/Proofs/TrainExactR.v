(** [train_step_exact] at the real numbers: no hypothesis on the scalars. *)

From Coq Require Import List Arith Bool Reals.
From Corgi Require Import Lib.OptionMonad Lib.Sums Model.Scalar Model.RealScalar Model.Arr
     Model.Elementwise Model.Ops Model.Engine Model.Program
     Proofs.ArrFacts Proofs.FlattenSpec Proofs.DualLift Proofs.RealDerivs
     Proofs.HistoryInv Proofs.FwdCode Proofs.HistoryPre3 Proofs.C01Real Proofs.TrainLoop
     Proofs.TrainExact.
Import ListNotations.

Theorem train_step_exact_R : forall (s : @state R) x s1 out t s2 loss s3 tau,
    ready s -> good_all R_ops s ->
    hvalid (st_nodes s) x -> layers_ok_all R_ops s (st_layers s) x ->
    model_forward R_ops s x = Some (s1, out) ->
    hvalid (st_nodes s1) t ->
    model_backward R_ops s1 t = Some (s2, loss) ->
    model_update R_ops s2 = Some s3 ->
    tau_ok s tau ->
    exists sc err ndr,
      cost_apply R_ops s1 (st_cost s) out t = Some (sc, err) /\
      nth_error (st_nodes sc) (e_node err) = Some ndr /\
      loss = a_sum_all R_ops (pay_arr (n_pay ndr)) /\
      param_step_pairing R_ops s s3 tau
      = fmul R_ops (st_lr s)
             (dot R_ops (vals (eo_ones (Program.E R_ops) (n_pay ndr)))
                  (vals (tan R_ops (st_nodes sc) (lt_params R_ops s (st_nodes sc) tau) (e_node err)))) /\
      ready s3.
Proof.
  exact (train_step_exact R_ops R_is_cring R_div_mul_inv R_inv_mul R_pow_two R_sig_fst R_sig_snd).
Qed.

Print Assumptions train_step_exact_R.
