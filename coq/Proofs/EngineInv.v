(** The pass invariant of [backward] and the pass specification [pass_spec]. *)

From Coq Require Import List Arith Bool Lia PeanoNat.
From Corgi Require Import Lib.OptionMonad Model.Engine Proofs.EngineDefs
     Proofs.EngineBase Proofs.Propagate.
Import ListNotations.

(** * [pos_in] / [before] *)

Lemma pos_in_app_l : forall a l l' i, pos_in a l = Some i -> pos_in a (l ++ l') = Some i.
Proof.
  intros a l. induction l as [|x l IH]; intros l' i H; simpl in H.
  - discriminate H.
  - simpl. destruct (x =? a); [exact H |].
    destruct (pos_in a l) as [k|] eqn:Hk; [|discriminate H].
    rewrite (IH l' k eq_refl). exact H.
Qed.

Lemma pos_in_In : forall a l, In a l -> exists i, pos_in a l = Some i /\ i < length l.
Proof.
  intros a l. induction l as [|x l IH]; intro H.
  - destruct H.
  - simpl. destruct (x =? a) eqn:Hxa.
    + exists 0. split; [reflexivity | lia].
    + destruct H as [H|H]; [apply Nat.eqb_neq in Hxa; congruence |].
      destruct (IH H) as (i & Hi & Hlt). rewrite Hi. exists (S i). split; [reflexivity | lia].
Qed.

Lemma pos_in_last : forall b l, ~ In b l -> pos_in b (l ++ [b]) = Some (length l).
Proof.
  intros b l. induction l as [|x l IH]; intro H.
  - simpl. rewrite Nat.eqb_refl. reflexivity.
  - simpl. destruct (x =? b) eqn:Hxb.
    + apply Nat.eqb_eq in Hxb. exfalso. apply H. left. exact Hxb.
    + rewrite IH; [reflexivity |]. intro Hin. apply H. right. exact Hin.
Qed.

Lemma before_app : forall l l' a b, before l a b -> before (l ++ l') a b.
Proof.
  intros l l' a b (i & j & Hi & Hj & Hlt). exists i, j.
  split; [apply pos_in_app_l; exact Hi |]. split; [apply pos_in_app_l; exact Hj | exact Hlt].
Qed.

Lemma before_last : forall l a b, In a l -> ~ In b l -> before (l ++ [b]) a b.
Proof.
  intros l a b Ha Hb. destruct (pos_in_In a l Ha) as (i & Hi & Hlt).
  exists i, (length l). split; [apply pos_in_app_l; exact Hi |].
  split; [apply pos_in_last; exact Hb | exact Hlt].
Qed.

Section Inv.
  Context {P D : Type}.
  Variable E : eops P D.
  Variable g0 : store P D.
  Variable r : nat.
  Hypothesis Hwf : wfg E g0.
  Hypothesis Hbc : bop_contract E g0.
  Hypothesis Hr : r < length g0.

  Definition rec_t : Type :=
    store P D -> nat -> bool -> option D -> @trace D -> option (store P D * @trace D).

  (** * [backward] unfolded into named pieces *)

  Definition deliver (rec : rec_t) (acc : option (store P D * @trace D)) (p : entry * option D)
    : option (store P D * @trace D) :=
    st <- acc ;;
    let '(g, lg) := st in
    let e := fst p in
    match snd p with
    | None => Some (g, lg)
    | Some d =>
      c <- nth_error g (e_node e) ;;
      d' <- eo_flat E d (n_pay c) ;;
      nw <- match n_delta c with
            | Some x => eo_add E x d'
            | None => Some d'
            end ;;
      let cc := n_count c in
      check (1 <=? cc) ;;
      g' <- put g (e_node e) (set_count (set_delta c (Some nw)) (cc - 1)) ;;
      if cc =? 1 then rec g' (e_node e) (e_keep e) None lg
      else Some (g', lg)
    end.

  Definition finish (g2 : store P D) (id : nat) (keep : bool) (delta : D) (log2 : @trace D)
    : option (store P D * @trace D) :=
    nd2 <- nth_error g2 id ;;
    if (match n_children nd2 with [] => true | _ => false end) || keep then
      ng <- match n_grad nd2 with
            | Some x => eo_add E x delta
            | None => Some delta
            end ;;
      g3 <- put g2 id (set_grad nd2 (Some ng)) ;;
      Some (g3, log2)
    else Some (g2, log2).

  Definition bw_body (rec : rec_t) (g1 : store P D) (id : nat) (keep : bool) (delta : D)
             (log : @trace D) : option (store P D * @trace D) :=
    nd1 <- nth_error g1 id ;;
    let es := n_children nd1 in
    gl <- (if eo_hasop E (n_pay nd1) then
             let saved := map e_tracked es in
             g1a <- put g1 id (set_children nd1 (clear_flags es)) ;;
             pays <- mapM (fun e => c <- nth_error g1a (e_node e) ;; Some (n_pay c)) es ;;
             ds <- eo_bop E (n_pay nd1) pays saved delta ;;
             nd1a <- nth_error g1a id ;;
             g1b <- put g1a id (set_children nd1a (restore_flags (n_children nd1a) saved)) ;;
             check (length ds <=? length es) ;;
             fold_left (deliver rec) (combine es ds) (Some (g1b, log ++ [(id, delta)]))
           else
             check (match es with [] => true | _ => false end) ;;
             Some (g1, log)) ;;
    let '(g2, log2) := gl in
    finish g2 id keep delta log2.

  Lemma backward_S : forall f (g : store P D) id keep seed log,
      backward E (S f) g id keep seed log =
      (nd <- nth_error g id ;;
       gd <- match n_delta nd with
             | Some x => g1 <- put g id (set_delta nd None) ;; Some (g1, x)
             | None =>
               g1 <- propagate (S id) g id ;;
               Some (g1, match seed with Some s => s | None => eo_ones E (n_pay nd) end)
             end ;;
       let '(g1, delta) := gd in
       bw_body (backward E f) g1 id keep delta log).
  Proof. reflexivity. Qed.

  Lemma deliver_acc_none : forall rec p, deliver rec None p = None.
  Proof. reflexivity. Qed.

  Lemma deliver_skip : forall rec g lg e, deliver rec (Some (g, lg)) (e, None) = Some (g, lg).
  Proof. reflexivity. Qed.

  Lemma deliver_some_inv : forall rec g lg e d res,
      deliver rec (Some (g, lg)) (e, Some d) = Some res ->
      exists c nw g',
        nth_error g (e_node e) = Some c /\ 1 <= n_count c /\
        put g (e_node e) (set_count (set_delta c (Some nw)) (n_count c - 1)) = Some g' /\
        (if n_count c =? 1 then rec g' (e_node e) (e_keep e) None lg else Some (g', lg))
        = Some res.
  Proof.
    intros rec g lg e d res H. unfold deliver in H. cbn [obind fst snd] in H.
    apply obind_some in H. destruct H as (c & Hc & H).
    apply obind_some in H. destruct H as (d' & Hd' & H).
    apply obind_some in H. destruct H as (nw & Hnw & H).
    apply obind_some in H. destruct H as (u & Hu & H).
    apply obind_some in H. destruct H as (g' & Hg' & H).
    apply guard_some in Hu. apply Nat.leb_le in Hu.
    exists c, nw, g'. tauto.
  Qed.

  Lemma fold_deliver_none : forall rec ps, fold_left (deliver rec) ps None = None.
  Proof. intros rec ps. apply fold_left_none. intro b. reflexivity. Qed.

  (** * Invariants *)

  Definition act (g : store P D) (n : nat) : bool := negb (cnt g n =? 0).

  Definition Inv (g : store P D) (X : list nat) : Prop :=
    forall m, cnt g m = indeg g0 (act g) m + occ m X.

  Definition DInv (g : store P D) : Prop := forall m, cnt g m = 0 -> dlt g m = None.
  Definition DInvX (g : store P D) (id : nat) : Prop :=
    forall m, m <> id -> cnt g m = 0 -> dlt g m = None.

  Definition opb (m : nat) : bool :=
    match nth_error g0 m with Some nd => hasop E nd | None => false end.

  Definition ids (log : @trace D) : list nat := map fst log.

  Definition LInv (g : store P D) (log : @trace D) : Prop :=
    NoDup (ids log) /\
    forall m, In m (ids log) <-> (reach g0 r m /\ opb m = true /\ cnt g m = 0).
  Definition LInvX (g : store P D) (log : @trace D) (id : nat) : Prop :=
    NoDup (ids log) /\
    forall m, In m (ids log) <-> (reach g0 r m /\ opb m = true /\ cnt g m = 0 /\ m <> id).

  Definition OInv (log : @trace D) : Prop :=
    forall n m, reach g0 r n -> tedge g0 n m -> In m (ids log) -> before (ids log) n m.

  Definition SK (g : store P D) : Prop := map sk g = map sk g0.

  Definition GOut (g g' : store P D) : Prop :=
    forall m, ~ reach g0 r m -> grd g' m = grd g m.

  Definition SI (g : store P D) (X : list nat) (lg : @trace D) : Prop :=
    SK g /\ Inv g X /\ DInv g /\ LInv g lg /\ OInv lg.

  Lemma GOut_refl : forall g, GOut g g.
  Proof. intros g m _. reflexivity. Qed.

  Lemma GOut_trans : forall g1 g2 g3, GOut g1 g2 -> GOut g2 g3 -> GOut g1 g3.
  Proof. intros g1 g2 g3 H1 H2 m Hm. rewrite (H2 m Hm). apply H1. exact Hm. Qed.

  Lemma ids_snoc : forall (log : @trace D) id delta, ids (log ++ [(id, delta)]) = ids log ++ [id].
  Proof. intros log id delta. unfold ids. rewrite map_app. reflexivity. Qed.

  Lemma act_ext : forall g g', (forall m, cnt g' m = cnt g m) -> forall n, act g' n = act g n.
  Proof. intros g g' H n. unfold act. rewrite H. reflexivity. Qed.

  Lemma Inv_ext : forall g g' X, (forall m, cnt g' m = cnt g m) -> Inv g X -> Inv g' X.
  Proof.
    intros g g' X Hc HI m. rewrite Hc, (HI m). f_equal.
    apply indeg_ext. intros n _. symmetry. apply act_ext. exact Hc.
  Qed.

  Lemma LInv_ext : forall g g' lg, (forall m, cnt g' m = cnt g m) -> LInv g lg -> LInv g' lg.
  Proof.
    intros g g' lg Hc (Hnd & HL). split; [exact Hnd |].
    intro m. rewrite Hc. apply HL.
  Qed.

  Lemma LInvX_ext : forall g g' lg id,
      (forall m, cnt g' m = cnt g m) -> LInvX g lg id -> LInvX g' lg id.
  Proof.
    intros g g' lg id Hc (Hnd & HL). split; [exact Hnd |].
    intro m. rewrite Hc. apply HL.
  Qed.

  Lemma SI_ext : forall g g' X lg,
      map sk g' = map sk g -> (forall m, cnt g' m = cnt g m) -> (forall m, dlt g' m = dlt g m) ->
      SI g X lg -> SI g' X lg.
  Proof.
    intros g g' X lg Hsk Hc Hd (HS & HI & HD & HL & HO).
    split; [unfold SK; rewrite Hsk; exact HS |].
    split; [eapply Inv_ext; eassumption |].
    split; [intros m Hm; rewrite Hd; apply HD; rewrite <- Hc; exact Hm |].
    split; [eapply LInv_ext; eassumption | exact HO].
  Qed.

  (** node lookup through the skeleton *)
  Lemma SK_nth : forall g id nd, SK g -> nth_error g id = Some nd ->
      exists nd0, nth_error g0 id = Some nd0 /\ n_pay nd = n_pay nd0 /\
                  n_children nd = n_children nd0.
  Proof.
    intros g id nd HS Hn. destruct (map_eq_nth sk g g0 id nd HS Hn) as (nd0 & Hn0 & Hsk).
    exists nd0. unfold sk in Hsk. split; [exact Hn0 |]. split; congruence.
  Qed.

  Lemma SK_length : forall g, SK g -> length g = length g0.
  Proof. intros g HS. apply (map_eq_length sk). exact HS. Qed.

  (** * Counting steps *)

  Lemma inv_fire : forall g g1 c X,
      c < length g0 -> cnt g c = 1 ->
      (forall m, cnt g1 m = if m =? c then 0 else cnt g m) ->
      Inv g (c :: X) -> Inv g1 (tkn g0 c ++ X).
  Proof.
    intros g g1 c X Hc Hc1 Hg1 HI m.
    rewrite occ_app, <- mult_occ.
    assert (Hfl : indeg g0 (act g) m = mult g0 c m + indeg g0 (act g1) m).
    { apply indeg_flip; [exact Hc | | |].
      - unfold act. rewrite Hg1, Nat.eqb_refl. reflexivity.
      - unfold act. rewrite Hc1. reflexivity.
      - intros n Hn. unfold act. rewrite Hg1. apply Nat.eqb_neq in Hn. rewrite Hn. reflexivity. }
    pose proof (HI m) as Hm. rewrite occ_cons, Hfl in Hm. rewrite Hg1.
    destruct (m =? c) eqn:Hmc.
    - apply Nat.eqb_eq in Hmc. subst m. lia.
    - lia.
  Qed.

  Lemma inv_dec : forall g g1 c X,
      2 <= cnt g c ->
      (forall m, cnt g1 m = if m =? c then cnt g c - 1 else cnt g m) ->
      Inv g (c :: X) -> Inv g1 X.
  Proof.
    intros g g1 c X Hc Hg1 HI m.
    rewrite (indeg_ext g0 (act g1) (act g) m).
    - pose proof (HI m) as Hm. rewrite occ_cons in Hm. rewrite Hg1.
      destruct (m =? c) eqn:Hmc.
      + apply Nat.eqb_eq in Hmc. subst m. lia.
      + lia.
    - intros n _. unfold act. rewrite Hg1. destruct (n =? c) eqn:Hnc; [|reflexivity].
      apply Nat.eqb_eq in Hnc. subst n.
      destruct (cnt g c - 1) as [|k] eqn:Hk; [lia |].
      destruct (cnt g c) as [|k']; [lia | reflexivity].
  Qed.

  Lemma inv_nil_zero : forall g, Inv g [] -> forall m, cnt g m = 0.
  Proof.
    intros g HI.
    assert (H : forall k m, length g0 <= m + k -> cnt g m = 0).
    { induction k as [|k IH]; intros m Hm.
      - rewrite (HI m), occ_nil. rewrite indeg_zero; [reflexivity |].
        intros n Hn _. apply (mult_zero_ge E g0 Hwf). lia.
      - rewrite (HI m), occ_nil. rewrite indeg_zero; [reflexivity |].
        intros n Hn Ha. destruct (le_lt_dec n m) as [Hle|Hlt].
        + apply (mult_zero_ge E g0 Hwf). exact Hle.
        + unfold act in Ha. rewrite (IH n) in Ha; [discriminate Ha | lia]. }
    intro m. apply (H (length g0) m). lia.
  Qed.

  (** a node with a tracked child has a closure *)
  Lemma tedge_opb : forall n m, tedge g0 n m -> opb n = true.
  Proof.
    intros n m (nd & e & Hn & Hin & _ & _). unfold opb. rewrite Hn.
    destruct (hasop E nd) eqn:Hop; [reflexivity |].
    destruct (Hwf n nd Hn) as (_ & Hch). rewrite (Hch Hop) in Hin. destruct Hin.
  Qed.

  (** logging node [id] at the moment it fires *)
  Lemma oinv_log : forall g id X log delta,
      Inv g (tkn g0 id ++ X) -> cnt g id = 0 -> LInvX g log id -> OInv log ->
      OInv (log ++ [(id, delta)]).
  Proof.
    intros g id X log delta HI Hc0 (Hnd & HL) HO n m Hrn Hte Hin.
    rewrite ids_snoc in *. apply in_app_or in Hin. destruct Hin as [Hin|Hin].
    - apply before_app. apply HO; assumption.
    - destruct Hin as [Hin|[]]. subst m.
      assert (Hnot : ~ In id (ids log)).
      { intro H. apply HL in H. destruct H as (_ & _ & _ & H). apply H. reflexivity. }
      apply before_last; [| exact Hnot].
      apply HL. split; [exact Hrn |]. split; [eapply tedge_opb; exact Hte |].
      pose proof (tedge_lt E g0 Hwf n id Hte) as (Hlt & Hn).
      split; [| lia].
      pose proof (HI id) as Hid. rewrite Hc0 in Hid.
      destruct (cnt g n) as [|k] eqn:Hcn; [reflexivity |].
      assert (Ha : act g n = true) by (unfold act; rewrite Hcn; reflexivity).
      pose proof (indeg_ge g0 (act g) n id Hn Ha) as Hge.
      apply mult_pos_tedge in Hte. lia.
  Qed.

  Lemma linv_log : forall g id log delta,
      reach g0 r id -> opb id = true -> cnt g id = 0 ->
      LInvX g log id -> LInv g (log ++ [(id, delta)]).
  Proof.
    intros g id log delta Hrid Hop Hc0 (Hnd & HL). split.
    - rewrite ids_snoc.
      assert (Hnot : ~ In id (ids log)).
      { intro H. apply HL in H. destruct H as (_ & _ & _ & H). apply H. reflexivity. }
      clear HL. induction (ids log) as [|x l IH].
      + simpl. constructor; [intros [] | constructor].
      + simpl. inversion Hnd as [|x' l' Hx Hl]. subst x' l'. constructor.
        * intro H. apply in_app_or in H. destruct H as [H|[H|[]]]; [tauto |].
          subst x. apply Hnot. left. reflexivity.
        * apply IH; [exact Hl |]. intro H. apply Hnot. right. exact H.
    - intro m. rewrite ids_snoc. split.
      + intro H. apply in_app_or in H. destruct H as [H|[H|[]]].
        * apply HL in H. tauto.
        * subst m. tauto.
      + intros (H1 & H2 & H3). destruct (Nat.eq_dec m id) as [Heq|Hne].
        * subst m. apply in_or_app. right. left. reflexivity.
        * apply in_or_app. left. apply HL. tauto.
  Qed.

  Lemma linv_nolog : forall g id log, opb id = false -> LInvX g log id -> LInv g log.
  Proof.
    intros g id log Hop (Hnd & HL). split; [exact Hnd |]. intro m. split.
    - intro H. apply HL in H. tauto.
    - intros (H1 & H2 & H3). apply HL. split; [exact H1 |]. split; [exact H2 |].
      split; [exact H3 |]. intro Heq. subst m. congruence.
  Qed.

  (** * One delivery *)

  Lemma deliver_state : forall (g : store P D) c cn nw (g1 : store P D),
      nth_error g c = Some cn ->
      put g c (set_count (set_delta cn (Some nw)) (n_count cn - 1)) = Some g1 ->
      map sk g1 = map sk g /\
      (forall m, cnt g1 m = if m =? c then cnt g c - 1 else cnt g m) /\
      (forall m, dlt g1 m = if m =? c then Some nw else dlt g m) /\
      (forall m, grd g1 m = grd g m).
  Proof.
    intros g c cn nw g1 Hcn Hput. split; [|split; [|split]].
    - eapply put_map; [exact Hput | exact Hcn | reflexivity].
    - intro m. rewrite (put_cnt g c _ g1 m Hput), (cnt_nth g c cn Hcn). reflexivity.
    - intro m. rewrite (put_dlt g c _ g1 m Hput). reflexivity.
    - intro m. rewrite (put_grd g c _ g1 m Hput). simpl.
      destruct (m =? c) eqn:Hmc; [|reflexivity].
      apply Nat.eqb_eq in Hmc. subst m. rewrite (grd_nth g c cn Hcn). reflexivity.
  Qed.

  Lemma si_fire : forall g g1 c X lg nw,
      SI g (c :: X) lg -> c < length g0 -> cnt g c = 1 ->
      map sk g1 = map sk g ->
      (forall m, cnt g1 m = if m =? c then cnt g c - 1 else cnt g m) ->
      (forall m, dlt g1 m = if m =? c then Some nw else dlt g m) ->
      SK g1 /\ cnt g1 c = 0 /\ dlt g1 c = Some nw /\ Inv g1 (tkn g0 c ++ X) /\
      DInvX g1 c /\ LInvX g1 lg c /\ OInv lg.
  Proof.
    intros g g1 c X lg nw (HS & HI & HD & (Hnd & HL) & HO) Hc Hc1 Hsk Hcnt Hdlt.
    rewrite Hc1 in Hcnt. simpl in Hcnt.
    split; [unfold SK; rewrite Hsk; exact HS |].
    split; [rewrite Hcnt, Nat.eqb_refl; reflexivity |].
    split; [rewrite Hdlt, Nat.eqb_refl; reflexivity |].
    split; [apply (inv_fire g g1 c X Hc Hc1 Hcnt HI) |].
    split.
    { intros m Hne Hm. rewrite Hdlt. rewrite Hcnt in Hm. apply Nat.eqb_neq in Hne.
      rewrite Hne in *. apply HD. exact Hm. }
    split; [| exact HO].
    split; [exact Hnd |]. intro m. rewrite HL. rewrite Hcnt.
    destruct (m =? c) eqn:Hmc.
    - apply Nat.eqb_eq in Hmc. subst m. rewrite Hc1. split.
      + intros (_ & _ & H). discriminate H.
      + intros (_ & _ & _ & H). exfalso. apply H. reflexivity.
    - apply Nat.eqb_neq in Hmc. tauto.
  Qed.

  Lemma si_dec : forall g g1 c X lg nw,
      SI g (c :: X) lg -> 2 <= cnt g c ->
      map sk g1 = map sk g ->
      (forall m, cnt g1 m = if m =? c then cnt g c - 1 else cnt g m) ->
      (forall m, dlt g1 m = if m =? c then Some nw else dlt g m) ->
      SI g1 X lg.
  Proof.
    intros g g1 c X lg nw (HS & HI & HD & (Hnd & HL) & HO) Hc2 Hsk Hcnt Hdlt.
    split; [unfold SK; rewrite Hsk; exact HS |].
    split; [apply (inv_dec g g1 c X Hc2 Hcnt HI) |].
    split.
    { intros m Hm. rewrite Hdlt. rewrite Hcnt in Hm. destruct (m =? c) eqn:Hmc.
      - lia.
      - apply HD. exact Hm. }
    split; [| exact HO].
    split; [exact Hnd |]. intro m. rewrite HL. rewrite Hcnt.
    destruct (m =? c) eqn:Hmc.
    - apply Nat.eqb_eq in Hmc. subst m. split; intros (_ & _ & H); lia.
    - tauto.
  Qed.

  (** * Specification of a recursive call, of the delivery loop and of the body *)

  Definition rec_spec (rec : rec_t) (bound : nat) : Prop :=
    forall g id keep seed log X x g' log',
      id < bound -> reach g0 r id -> SK g -> cnt g id = 0 -> dlt g id = Some x ->
      Inv g (tkn g0 id ++ X) -> DInvX g id -> LInvX g log id -> OInv log ->
      rec g id keep seed log = Some (g', log') ->
      SI g' X log' /\ GOut g g'.

  (** delivery targets of a list of (entry, returned delta) pairs *)
  Fixpoint dl (ps : list (entry * option D)) : list nat :=
    match ps with
    | [] => []
    | (e, Some _) :: ps' => e_node e :: dl ps'
    | (_, None) :: ps' => dl ps'
    end.

  Lemma dl_combine : forall (es : list entry) (ds : list (option D)),
      length ds <= length es ->
      (forall i e, nth_error es i = Some e ->
                   (e_tracked e = true <-> exists d, nth_error ds i = Some (Some d))) ->
      dl (combine es ds) = tks es.
  Proof.
    induction es as [|e es IH]; intros ds Hlen Hc.
    - reflexivity.
    - rewrite tks_cons. destruct ds as [|od ds].
      + simpl.
        assert (Hall : forall es' : list entry,
                   (forall i e', nth_error es' i = Some e' -> e_tracked e' = false) ->
                   tks es' = []).
        { induction es' as [|e' es' IH']; intro H.
          - reflexivity.
          - rewrite tks_cons. rewrite (H 0 e' eq_refl). apply IH'.
            intros i e'' Hi. apply (H (S i)). exact Hi. }
        assert (Hf : forall i e', nth_error (e :: es) i = Some e' -> e_tracked e' = false).
        { intros i e' Hi. destruct (e_tracked e') eqn:Ht; [|reflexivity].
          apply (Hc i e' Hi) in Ht. destruct Ht as (d & Hd).
          destruct i; discriminate Hd. }
        rewrite (Hf 0 e eq_refl). symmetry. apply Hall.
        intros i e' Hi. apply (Hf (S i)). exact Hi.
      + simpl in Hlen. simpl combine.
        assert (IH' : dl (combine es ds) = tks es).
        { apply IH; [lia |]. intros i e' Hi. apply (Hc (S i) e' Hi). }
        pose proof (Hc 0 e eq_refl) as H0. simpl in H0.
        destruct od as [d|]; simpl.
        * assert (Ht : e_tracked e = true) by (apply H0; exists d; reflexivity).
          rewrite Ht, IH'. reflexivity.
        * destruct (e_tracked e) eqn:Ht.
          -- destruct H0 as (H0 & _). destruct (H0 eq_refl) as (d & Hd). discriminate Hd.
          -- exact IH'.
  Qed.

  Lemma fold_spec : forall rec bound, rec_spec rec bound ->
      forall ps g lg X g' lg',
        (forall c, In c (dl ps) -> c < bound /\ reach g0 r c) ->
        SI g (dl ps ++ X) lg ->
        fold_left (deliver rec) ps (Some (g, lg)) = Some (g', lg') ->
        SI g' X lg' /\ GOut g g'.
  Proof.
    intros rec bound Hrec ps. induction ps as [|[e od] ps IH]; intros g lg X g' lg' Hps HSI Hf.
    - simpl in Hf. injection Hf as Hg Hl. subst g' lg'. split; [exact HSI | apply GOut_refl].
    - change (fold_left (deliver rec) ((e, od) :: ps) (Some (g, lg)))
        with (fold_left (deliver rec) ps (deliver rec (Some (g, lg)) (e, od))) in Hf.
      destruct od as [d|].
      + change (dl ((e, Some d) :: ps)) with (e_node e :: dl ps) in *.
        set (c := e_node e) in *.
        assert (Hps' : forall c', In c' (dl ps) -> c' < bound /\ reach g0 r c').
        { intros c' Hin. apply Hps. right. exact Hin. }
        destruct (Hps c (or_introl eq_refl)) as (Hcb & Hcr).
        destruct (deliver rec (Some (g, lg)) (e, Some d)) as [[g2 lg2]|] eqn:Hd;
          [| rewrite fold_deliver_none in Hf; discriminate Hf].
        apply deliver_some_inv in Hd.
        destruct Hd as (cn & nw & g1 & Hcn & Hle & Hput & Hres). fold c in Hcn, Hput, Hres.
        destruct (deliver_state g c cn nw g1 Hcn Hput) as (Hsk & Hcnt & Hdlt & Hgrd).
        pose proof (cnt_nth g c cn Hcn) as Hcc.
        assert (Hclt : c < length g0) by (apply (reach_lt E g0 r Hwf); assumption).
        assert (HG1 : GOut g g1) by (intros m _; apply Hgrd).
        simpl app in HSI.
        destruct (n_count cn =? 1) eqn:H1.
        * apply Nat.eqb_eq in H1.
          assert (Hc1 : cnt g c = 1) by lia.
          destruct (si_fire g g1 c (dl ps ++ X) lg nw HSI Hclt Hc1 Hsk Hcnt Hdlt)
            as (HS1 & Hc0 & Hd1 & HI1 & HDX1 & HLX1 & HO1).
          destruct (Hrec g1 c (e_keep e) None lg (dl ps ++ X) nw g2 lg2
                         Hcb Hcr HS1 Hc0 Hd1 HI1 HDX1 HLX1 HO1 Hres) as (HSI2 & HG2).
          destruct (IH g2 lg2 X g' lg' Hps' HSI2 Hf) as (HSI3 & HG3).
          split; [exact HSI3 |].
          eapply GOut_trans; [exact HG1 |]. eapply GOut_trans; [exact HG2 | exact HG3].
        * apply Nat.eqb_neq in H1. injection Hres as Hg2 Hl2. subst g2 lg2.
          assert (Hc2 : 2 <= cnt g c) by lia.
          pose proof (si_dec g g1 c (dl ps ++ X) lg nw HSI Hc2 Hsk Hcnt Hdlt) as HSI1.
          destruct (IH g1 lg X g' lg' Hps' HSI1 Hf) as (HSI3 & HG3).
          split; [exact HSI3 |]. eapply GOut_trans; [exact HG1 | exact HG3].
      + rewrite deliver_skip in Hf. apply (IH g lg X g' lg'); assumption.
  Qed.

  Lemma finish_inv : forall g2 id keep delta log2 g' log',
      finish g2 id keep delta log2 = Some (g', log') ->
      log' = log2 /\ map sk g' = map sk g2 /\
      (forall m, cnt g' m = cnt g2 m) /\ (forall m, dlt g' m = dlt g2 m) /\
      (forall m, m <> id -> grd g' m = grd g2 m).
  Proof.
    intros g2 id keep delta log2 g' log' H. unfold finish in H.
    apply obind_some in H. destruct H as (nd2 & Hnd2 & H).
    destruct ((match n_children nd2 with [] => true | _ :: _ => false end) || keep).
    - apply obind_some in H. destruct H as (ng & Hng & H).
      apply obind_some in H. destruct H as (g3 & Hput & H).
      injection H as Hg Hl. subst g3 log'.
      split; [reflexivity |].
      split; [eapply put_map; [exact Hput | exact Hnd2 | reflexivity] |].
      split; [|split].
      + intro m. rewrite (put_cnt g2 id _ g' m Hput). simpl.
        destruct (m =? id) eqn:Hm; [|reflexivity].
        apply Nat.eqb_eq in Hm. subst m. rewrite (cnt_nth g2 id nd2 Hnd2). reflexivity.
      + intro m. rewrite (put_dlt g2 id _ g' m Hput). simpl.
        destruct (m =? id) eqn:Hm; [|reflexivity].
        apply Nat.eqb_eq in Hm. subst m. rewrite (dlt_nth g2 id nd2 Hnd2). reflexivity.
      + intros m Hm. rewrite (put_grd g2 id _ g' m Hput).
        apply Nat.eqb_neq in Hm. rewrite Hm. reflexivity.
    - injection H as Hg Hl. subst g' log'.
      split; [reflexivity |]. split; [reflexivity |]. split; [reflexivity |].
      split; reflexivity.
  Qed.

  Lemma tkn_nth : forall id nd0, nth_error g0 id = Some nd0 -> tkn g0 id = tks (n_children nd0).
  Proof. intros id nd0 H. unfold tkn. rewrite H. reflexivity. Qed.

  Lemma body_spec : forall rec bound, rec_spec rec bound ->
      forall g1 id keep delta log X g' log',
        id <= bound -> reach g0 r id -> SK g1 -> cnt g1 id = 0 ->
        Inv g1 (tkn g0 id ++ X) -> DInv g1 -> LInvX g1 log id -> OInv log ->
        bw_body rec g1 id keep delta log = Some (g', log') ->
        SI g' X log' /\ GOut g1 g'.
  Proof.
    intros rec bound Hrec g1 id keep delta log X g' log' Hidb Hrid HS1 Hc0 HI1 HD1 HLX HO Hb.
    unfold bw_body in Hb.
    apply obind_some in Hb. destruct Hb as (nd1 & Hnd1 & Hb).
    apply obind_some in Hb. destruct Hb as ([g2 log2] & Hgl & Hfin).
    destruct (SK_nth g1 id nd1 HS1 Hnd1) as (nd0 & Hnd0 & Hpay & Hch).
    pose proof (tkn_nth id nd0 Hnd0) as Htk.
    assert (Hmid : SI g2 X log2 /\ GOut g1 g2).
    { destruct (eo_hasop E (n_pay nd1)) eqn:Hop.
      - apply obind_some in Hgl. destruct Hgl as (g1a & Hg1a & Hgl).
        apply obind_some in Hgl. destruct Hgl as (pays & Hpays & Hgl).
        apply obind_some in Hgl. destruct Hgl as (ds & Hds & Hgl).
        apply obind_some in Hgl. destruct Hgl as (nd1a & Hnd1a & Hgl).
        apply obind_some in Hgl. destruct Hgl as (g1b & Hg1b & Hgl).
        apply obind_some in Hgl. destruct Hgl as (u & Hu & Hgl).
        (* the flag dance is the identity *)
        rewrite (put_nth_eq g1 id _ g1a Hg1a) in Hnd1a. injection Hnd1a as Hnd1a. subst nd1a.
        simpl n_children in Hg1b. rewrite restore_clear in Hg1b.
        rewrite set_children_twice, set_children_id in Hg1b.
        pose proof (put_put g1 id _ _ g1a g1b Hg1a Hg1b) as Hpp.
        pose proof (put_same g1 id nd1 g1b Hpp Hnd1) as Heq. subst g1b.
        (* the closure contract *)
        rewrite Hpay, Hch in Hds.
        destruct (Hbc id nd0 pays delta ds Hnd0 Hds) as (Hlen & Hflags).
        pose proof (dl_combine (n_children nd0) ds Hlen Hflags) as Hdl.
        rewrite Hch in Hgl.
        assert (Hopb : opb id = true).
        { unfold opb, hasop. rewrite Hnd0, <- Hpay. exact Hop. }
        apply (fold_spec rec bound Hrec (combine (n_children nd0) ds) g1
                         (log ++ [(id, delta)]) X g2 log2).
        + intros c Hin. rewrite Hdl, <- Htk in Hin. apply tkn_tedge in Hin.
          pose proof (tedge_lt E g0 Hwf id c Hin) as (Hlt & _).
          split; [lia |]. eapply reach_tedge; eassumption.
        + rewrite Hdl, <- Htk.
          split; [exact HS1 |]. split; [exact HI1 |]. split; [exact HD1 |].
          split; [apply linv_log; assumption |].
          eapply oinv_log; eassumption.
        + exact Hgl.
      - apply obind_some in Hgl. destruct Hgl as (u & Hu & Hgl).
        injection Hgl as Hg2 Hl2. subst g2 log2.
        apply guard_some in Hu.
        assert (Hnil : n_children nd0 = []).
        { rewrite <- Hch. destruct (n_children nd1); [reflexivity | discriminate Hu]. }
        rewrite Htk, Hnil in HI1. simpl in HI1.
        assert (Hopb : opb id = false).
        { unfold opb, hasop. rewrite Hnd0, <- Hpay. exact Hop. }
        split; [| apply GOut_refl].
        split; [exact HS1 |]. split; [exact HI1 |]. split; [exact HD1 |].
        split; [eapply linv_nolog; eassumption | exact HO]. }
    destruct Hmid as (HSI2 & HG2).
    apply finish_inv in Hfin. destruct Hfin as (Hl & Hsk & Hcnt & Hdlt & Hgrd). subst log'.
    split.
    - apply (SI_ext g2 g' X log2 Hsk Hcnt Hdlt HSI2).
    - eapply GOut_trans; [exact HG2 |]. intros m Hm. apply Hgrd.
      intro Heq. subst m. apply Hm. exact Hrid.
  Qed.

  Lemma backward_rec_spec : forall f, rec_spec (backward E f) f.
  Proof.
    induction f as [|f IHf];
      intros g id keep seed log X x g' log' Hid Hrid HS Hc0 Hdx HI HDX HLX HO Hb.
    - lia.
    - rewrite backward_S in Hb.
      apply obind_some in Hb. destruct Hb as (nd & Hnd & Hb).
      pose proof (dlt_nth g id nd Hnd) as Hdn. rewrite Hdx in Hdn. rewrite <- Hdn in Hb.
      apply obind_some in Hb. destruct Hb as ([g1 delta] & Hgd & Hb).
      apply obind_some in Hgd. destruct Hgd as (g1' & Hput & Hgd).
      injection Hgd as Hg1 Hdelta. subst g1' delta.
      assert (Hsk : map sk g1 = map sk g)
        by (eapply put_map; [exact Hput | exact Hnd | reflexivity]).
      assert (Hcnt : forall m, cnt g1 m = cnt g m).
      { intro m. rewrite (put_cnt g id _ g1 m Hput). simpl.
        destruct (m =? id) eqn:Hm; [|reflexivity].
        apply Nat.eqb_eq in Hm. subst m. rewrite (cnt_nth g id nd Hnd). reflexivity. }
      assert (Hdlt : forall m, dlt g1 m = if m =? id then None else dlt g m).
      { intro m. rewrite (put_dlt g id _ g1 m Hput). reflexivity. }
      assert (Hgrd : forall m, grd g1 m = grd g m).
      { intro m. rewrite (put_grd g id _ g1 m Hput). simpl.
        destruct (m =? id) eqn:Hm; [|reflexivity].
        apply Nat.eqb_eq in Hm. subst m. rewrite (grd_nth g id nd Hnd). reflexivity. }
      assert (HD1 : DInv g1).
      { intros m Hm. rewrite Hdlt. destruct (m =? id) eqn:Hmid; [reflexivity |].
        apply Nat.eqb_neq in Hmid. apply HDX; [exact Hmid |]. rewrite <- Hcnt. exact Hm. }
      destruct (body_spec (backward E f) f IHf g1 id keep x log X g' log') as (HSI & HG).
      + lia.
      + exact Hrid.
      + unfold SK. rewrite Hsk. exact HS.
      + rewrite Hcnt. exact Hc0.
      + eapply Inv_ext; [exact Hcnt | exact HI].
      + exact HD1.
      + eapply LInvX_ext; [exact Hcnt | exact HLX].
      + exact HO.
      + exact Hb.
      + split; [exact HSI |]. eapply GOut_trans; [| exact HG]. intros m _. apply Hgrd.
  Qed.

  (** * Totality: with total operations the pass never panics *)

  Definition total_ops : Prop :=
    (forall d p, eo_flat E d p <> None) /\
    (forall x y, eo_add E x y <> None) /\
    (forall p pays saved d, eo_bop E p pays saved d <> None).

  Definition rec_total (rec : rec_t) (bound : nat) : Prop :=
    forall g id keep seed log X x,
      id < bound -> reach g0 r id -> SK g -> cnt g id = 0 -> dlt g id = Some x ->
      Inv g (tkn g0 id ++ X) -> DInvX g id -> LInvX g log id -> OInv log ->
      exists res, rec g id keep seed log = Some res.

  Lemma mapM_some : forall {A B} (f : A -> option B) (l : list A),
      (forall x, In x l -> exists y, f x = Some y) -> exists ys, mapM f l = Some ys.
  Proof.
    intros A B f l. induction l as [|a l IH]; intro H.
    - exists []. reflexivity.
    - destruct (H a (or_introl eq_refl)) as (y & Hy).
      destruct IH as (ys & Hys); [intros x Hx; apply H; right; exact Hx |].
      exists (y :: ys). simpl. rewrite Hy. simpl. rewrite Hys. reflexivity.
  Qed.

  Lemma deliver_fwd : forall rec (g : store P D) lg e d c d' nw g1,
      nth_error g (e_node e) = Some c -> eo_flat E d (n_pay c) = Some d' ->
      match n_delta c with Some x => eo_add E x d' | None => Some d' end = Some nw ->
      1 <= n_count c ->
      put g (e_node e) (set_count (set_delta c (Some nw)) (n_count c - 1)) = Some g1 ->
      deliver rec (Some (g, lg)) (e, Some d) =
      if n_count c =? 1 then rec g1 (e_node e) (e_keep e) None lg else Some (g1, lg).
  Proof.
    intros rec g lg e d c d' nw g1 Hc Hd' Hnw Hle Hput.
    unfold deliver. cbn [obind fst snd]. rewrite Hc. cbn [obind]. rewrite Hd'. cbn [obind].
    rewrite Hnw. cbn [obind]. apply Nat.leb_le in Hle. rewrite Hle. cbn [guard obind].
    rewrite Hput. reflexivity.
  Qed.

  Lemma fold_total : total_ops -> forall rec bound, rec_spec rec bound -> rec_total rec bound ->
      forall ps g lg X,
        (forall c, In c (dl ps) -> c < bound /\ reach g0 r c) ->
        SI g (dl ps ++ X) lg ->
        exists res, fold_left (deliver rec) ps (Some (g, lg)) = Some res.
  Proof.
    intros (Hflat & Hadd & Hbop) rec bound Hrec Htot ps.
    induction ps as [|[e od] ps IH]; intros g lg X Hps HSI.
    - exists (g, lg). reflexivity.
    - change (fold_left (deliver rec) ((e, od) :: ps) (Some (g, lg)))
        with (fold_left (deliver rec) ps (deliver rec (Some (g, lg)) (e, od))).
      destruct od as [d|].
      + change (dl ((e, Some d) :: ps)) with (e_node e :: dl ps) in *.
        set (c := e_node e) in *.
        assert (Hps' : forall c', In c' (dl ps) -> c' < bound /\ reach g0 r c').
        { intros c' Hin. apply Hps. right. exact Hin. }
        destruct (Hps c (or_introl eq_refl)) as (Hcb & Hcr).
        assert (Hclt : c < length g0) by (apply (reach_lt E g0 r Hwf); assumption).
        simpl app in HSI.
        pose proof HSI as (HS & HI & _).
        pose proof (SK_length g HS) as Hlen.
        destruct (nth_error g c) as [cn|] eqn:Hcn; [| apply nth_error_None in Hcn; lia].
        destruct (eo_flat E d (n_pay cn)) as [d'|] eqn:Hd'; [| exfalso; eapply Hflat; exact Hd'].
        destruct (match n_delta cn with Some x => eo_add E x d' | None => Some d' end)
          as [nw|] eqn:Hnw;
          [| destruct (n_delta cn); [exfalso; eapply Hadd; exact Hnw | discriminate Hnw]].
        pose proof (cnt_nth g c cn Hcn) as Hcc.
        assert (Hle : 1 <= n_count cn).
        { pose proof (HI c) as Hc. rewrite occ_cons, Nat.eqb_refl in Hc. lia. }
        destruct (put_some g c (set_count (set_delta cn (Some nw)) (n_count cn - 1)))
          as (g1 & Hput); [lia |].
        rewrite (deliver_fwd rec g lg e d cn d' nw g1 Hcn Hd' Hnw Hle Hput). fold c.
        destruct (deliver_state g c cn nw g1 Hcn Hput) as (Hsk & Hcnt & Hdlt & Hgrd).
        destruct (n_count cn =? 1) eqn:H1.
        * apply Nat.eqb_eq in H1.
          assert (Hc1 : cnt g c = 1) by lia.
          destruct (si_fire g g1 c (dl ps ++ X) lg nw HSI Hclt Hc1 Hsk Hcnt Hdlt)
            as (HS1 & Hc0 & Hd1 & HI1 & HDX1 & HLX1 & HO1).
          destruct (Htot g1 c (e_keep e) None lg (dl ps ++ X) nw
                         Hcb Hcr HS1 Hc0 Hd1 HI1 HDX1 HLX1 HO1) as ([g2 lg2] & Hres).
          rewrite Hres.
          destruct (Hrec g1 c (e_keep e) None lg (dl ps ++ X) nw g2 lg2
                         Hcb Hcr HS1 Hc0 Hd1 HI1 HDX1 HLX1 HO1 Hres) as (HSI2 & _).
          apply (IH g2 lg2 X Hps' HSI2).
        * apply Nat.eqb_neq in H1.
          assert (Hc2 : 2 <= cnt g c) by lia.
          pose proof (si_dec g g1 c (dl ps ++ X) lg nw HSI Hc2 Hsk Hcnt Hdlt) as HSI1.
          apply (IH g1 lg X Hps' HSI1).
      + rewrite deliver_skip. apply (IH g lg X); assumption.
  Qed.

  Lemma finish_total : total_ops -> forall (g2 : store P D) id keep delta log2 nd2,
      nth_error g2 id = Some nd2 -> exists res, finish g2 id keep delta log2 = Some res.
  Proof.
    intros (Hflat & Hadd & Hbop) g2 id keep delta log2 nd2 Hnd2.
    unfold finish. rewrite Hnd2. cbn [obind].
    destruct ((match n_children nd2 with [] => true | _ :: _ => false end) || keep).
    - destruct (match n_grad nd2 with Some x => eo_add E x delta | None => Some delta end)
        as [ng|] eqn:Hng;
        [| destruct (n_grad nd2); [exfalso; eapply Hadd; exact Hng | discriminate Hng]].
      cbn [obind].
      destruct (put_some g2 id (set_grad nd2 (Some ng))) as (g3 & Hput);
        [eapply nth_lt; exact Hnd2 |].
      rewrite Hput. cbn [obind]. eexists. reflexivity.
    - eexists. reflexivity.
  Qed.

  (** the closure branch of the body with the flag dance removed *)
  Lemma bw_body_op : forall rec (g1 : store P D) id keep delta log nd1,
      nth_error g1 id = Some nd1 -> eo_hasop E (n_pay nd1) = true ->
      exists g1a,
        put g1 id (set_children nd1 (clear_flags (n_children nd1))) = Some g1a /\
        bw_body rec g1 id keep delta log =
        (pays <- mapM (fun e => c <- nth_error g1a (e_node e) ;; Some (n_pay c))
                      (n_children nd1) ;;
         ds <- eo_bop E (n_pay nd1) pays (map e_tracked (n_children nd1)) delta ;;
         check (length ds <=? length (n_children nd1)) ;;
         gl <- fold_left (deliver rec) (combine (n_children nd1) ds)
                         (Some (g1, log ++ [(id, delta)])) ;;
         let '(g2, log2) := gl in finish g2 id keep delta log2).
  Proof.
    intros rec g1 id keep delta log nd1 Hnd1 Hop.
    destruct (put_some g1 id (set_children nd1 (clear_flags (n_children nd1)))) as (g1a & Hg1a);
      [eapply nth_lt; exact Hnd1 |].
    exists g1a. split; [exact Hg1a |].
    unfold bw_body. rewrite Hnd1. cbn [obind]. rewrite Hop. cbv zeta. rewrite Hg1a. cbn [obind].
    destruct (mapM (fun e => c <- nth_error g1a (e_node e) ;; Some (n_pay c)) (n_children nd1))
      as [pays|]; cbn [obind]; [|reflexivity].
    destruct (eo_bop E (n_pay nd1) pays (map e_tracked (n_children nd1)) delta) as [ds|];
      cbn [obind]; [|reflexivity].
    rewrite (put_nth_eq g1 id _ g1a Hg1a). cbn [obind].
    simpl n_children. rewrite restore_clear, set_children_twice, set_children_id.
    destruct (put_some g1a id nd1) as (g1b & Hg1b);
      [rewrite (put_length g1 id _ g1a Hg1a); eapply nth_lt; exact Hnd1 |].
    pose proof (put_put g1 id _ _ g1a g1b Hg1a Hg1b) as Hpp.
    pose proof (put_same g1 id nd1 g1b Hpp Hnd1) as Heq. subst g1b.
    rewrite Hg1b. cbn [obind]. destruct (length ds <=? length (n_children nd1)); reflexivity.
  Qed.

  Lemma body_total : total_ops -> forall rec bound, rec_spec rec bound -> rec_total rec bound ->
      forall g1 id keep delta log X,
        id <= bound -> reach g0 r id -> SK g1 -> cnt g1 id = 0 ->
        Inv g1 (tkn g0 id ++ X) -> DInv g1 -> LInvX g1 log id -> OInv log ->
        exists res, bw_body rec g1 id keep delta log = Some res.
  Proof.
    intros Hops rec bound Hrec Htot g1 id keep delta log X Hidb Hrid HS1 Hc0 HI1 HD1 HLX HO.
    pose proof Hops as (Hflat & Hadd & Hbop).
    assert (Hidlt : id < length g0) by (apply (reach_lt E g0 r Hwf); assumption).
    pose proof (SK_length g1 HS1) as Hlen1.
    destruct (nth_error g1 id) as [nd1|] eqn:Hnd1; [| apply nth_error_None in Hnd1; lia].
    destruct (SK_nth g1 id nd1 HS1 Hnd1) as (nd0 & Hnd0 & Hpay & Hch).
    pose proof (tkn_nth id nd0 Hnd0) as Htk.
    destruct (Hwf id nd0 Hnd0) as (Hchlt & Hnoop).
    destruct (eo_hasop E (n_pay nd1)) eqn:Hop.
    - destruct (bw_body_op rec g1 id keep delta log nd1 Hnd1 Hop) as (g1a & Hg1a & Heq).
      rewrite Heq. clear Heq.
      destruct (mapM_some (fun e => c <- nth_error g1a (e_node e) ;; Some (n_pay c))
                          (n_children nd1)) as (pays & Hpays).
      { intros e Hin. rewrite Hch in Hin. specialize (Hchlt e Hin).
        destruct (nth_error g1a (e_node e)) as [c|] eqn:Hc.
        - exists (n_pay c). reflexivity.
        - apply nth_error_None in Hc. rewrite (put_length g1 id _ g1a Hg1a) in Hc. lia. }
      rewrite Hpays. cbn [obind].
      destruct (eo_bop E (n_pay nd1) pays (map e_tracked (n_children nd1)) delta) as [ds|] eqn:Hds;
        [| exfalso; eapply Hbop; exact Hds].
      cbn [obind].
      rewrite Hpay, Hch in Hds.
      destruct (Hbc id nd0 pays delta ds Hnd0 Hds) as (Hlenc & Hflags).
      pose proof (dl_combine (n_children nd0) ds Hlenc Hflags) as Hdl.
      rewrite Hch.
      apply Nat.leb_le in Hlenc. rewrite Hlenc. cbn [guard obind].
      assert (Hopb : opb id = true).
      { unfold opb, hasop. rewrite Hnd0, <- Hpay. exact Hop. }
      assert (Hps : forall c, In c (dl (combine (n_children nd0) ds)) ->
                              c < bound /\ reach g0 r c).
      { intros c Hin. rewrite Hdl, <- Htk in Hin. apply tkn_tedge in Hin.
        pose proof (tedge_lt E g0 Hwf id c Hin) as (Hlt & _).
        split; [lia |]. eapply reach_tedge; eassumption. }
      assert (HSI : SI g1 (dl (combine (n_children nd0) ds) ++ X) (log ++ [(id, delta)])).
      { rewrite Hdl, <- Htk.
        split; [exact HS1 |]. split; [exact HI1 |]. split; [exact HD1 |].
        split; [apply linv_log; assumption |].
        eapply oinv_log; eassumption. }
      destruct (fold_total Hops rec bound Hrec Htot (combine (n_children nd0) ds) g1
                           (log ++ [(id, delta)]) X Hps HSI) as ([g2 log2] & Hfold).
      match goal with |- exists res, obind ?t _ = _ =>
        assert (Ht : t = Some (g2, log2)) by exact Hfold; rewrite Ht end. cbn [obind].
      destruct (fold_spec rec bound Hrec (combine (n_children nd0) ds) g1
                          (log ++ [(id, delta)]) X g2 log2 Hps HSI Hfold) as ((HS2 & _) & _).
      pose proof (SK_length g2 HS2) as Hlen2.
      destruct (nth_error g2 id) as [nd2|] eqn:Hnd2; [| apply nth_error_None in Hnd2; lia].
      apply (finish_total Hops g2 id keep delta log2 nd2 Hnd2).
    - unfold bw_body. rewrite Hnd1. cbn [obind]. rewrite Hop. cbv zeta.
      assert (Hnil : n_children nd1 = []).
      { rewrite Hch. apply Hnoop. unfold hasop. rewrite <- Hpay. exact Hop. }
      rewrite Hnil. cbn [guard obind].
      apply (finish_total Hops g1 id keep delta log nd1 Hnd1).
  Qed.

  Lemma backward_rec_total : total_ops -> forall f, rec_total (backward E f) f.
  Proof.
    intros Hops f. induction f as [|f IHf];
      intros g id keep seed log X x Hid Hrid HS Hc0 Hdx HI HDX HLX HO.
    - lia.
    - rewrite backward_S.
      assert (Hidlt : id < length g0) by (apply (reach_lt E g0 r Hwf); assumption).
      pose proof (SK_length g HS) as Hlen.
      destruct (nth_error g id) as [nd|] eqn:Hnd; [| apply nth_error_None in Hnd; lia].
      cbn [obind].
      pose proof (dlt_nth g id nd Hnd) as Hdn. rewrite Hdx in Hdn. rewrite <- Hdn.
      destruct (put_some g id (set_delta nd None)) as (g1 & Hput); [lia |].
      rewrite Hput. cbn [obind].
      assert (Hsk : map sk g1 = map sk g)
        by (eapply put_map; [exact Hput | exact Hnd | reflexivity]).
      assert (Hcnt : forall m, cnt g1 m = cnt g m).
      { intro m. rewrite (put_cnt g id _ g1 m Hput). simpl.
        destruct (m =? id) eqn:Hm; [|reflexivity].
        apply Nat.eqb_eq in Hm. subst m. rewrite (cnt_nth g id nd Hnd). reflexivity. }
      assert (Hdlt : forall m, dlt g1 m = if m =? id then None else dlt g m).
      { intro m. rewrite (put_dlt g id _ g1 m Hput). reflexivity. }
      assert (HD1 : DInv g1).
      { intros m Hm. rewrite Hdlt. destruct (m =? id) eqn:Hmid; [reflexivity |].
        apply Nat.eqb_neq in Hmid. apply HDX; [exact Hmid |]. rewrite <- Hcnt. exact Hm. }
      apply (body_total Hops (backward E f) f (backward_rec_spec f) IHf g1 id keep x log X).
      + lia.
      + exact Hrid.
      + unfold SK. rewrite Hsk. exact HS.
      + rewrite Hcnt. exact Hc0.
      + eapply Inv_ext; [exact Hcnt | exact HI].
      + exact HD1.
      + eapply LInvX_ext; [exact Hcnt | exact HLX].
      + exact HO.
  Qed.
End Inv.

(** * The pass specification *)

Section Pass.
  Context {P D : Type}.
  Variable E : eops P D.

  (** The consumer-count pass, stated with an arbitrary decision function for the
      reachable set: every count becomes the number of tracked in-edges from
      reachable nodes, nothing else changes. *)
  Theorem propagate_count : forall (g : store P D) r,
      wfg E g -> clean g -> r < length g ->
      exists g1, propagate (S r) g r = Some g1 /\
        map nc g1 = map nc g /\
        forall rb : nat -> bool, (forall n, rb n = true <-> reach g r n) ->
          forall m, cnt g1 m = wsum (length g) (fun n => if rb n then mult g n m else 0).
  Proof.
    intros g r Hwf Hclean Hr.
    destruct (propagate_spec E g r Hwf Hclean Hr) as (g1 & Hprop & Hnc & Hreach & Hcr & Hind).
    exists g1. split; [exact Hprop |]. split; [exact Hnc |].
    intros rb Hrb m. rewrite Hind. apply indeg_ext. intros n _.
    destruct (rb n) eqn:Hb.
    - apply Hrb in Hb. apply Hreach in Hb. unfold pact. destruct Hb as [Hb|Hb].
      + destruct (cnt g1 n) as [|k]; [lia | reflexivity].
      + subst n. rewrite Nat.eqb_refl. apply orb_true_r.
    - destruct (pact r g1 n) eqn:Hp; [|reflexivity].
      assert (Hre : reach g r n).
      { apply Hreach. unfold pact in Hp. apply orb_true_iff in Hp. destruct Hp as [Hp|Hp].
        - left. destruct (cnt g1 n) as [|k]; [discriminate Hp | lia].
        - right. apply Nat.eqb_eq. exact Hp. }
      apply Hrb in Hre. congruence.
  Qed.

  (** state right after the root's consumer-count pass *)
  Lemma root_state : forall (g : store P D) r,
      wfg E g -> clean g -> r < length g ->
      exists g1, propagate (S r) g r = Some g1 /\ map nc g1 = map nc g /\
        (forall n, (0 < cnt g1 n \/ n = r) <-> reach g r n) /\
        SK g g1 /\ cnt g1 r = 0 /\ Inv g g1 (tkn g r ++ []) /\ DInv g1 /\
        LInvX E g r g1 [] r /\ OInv g r [].
  Proof.
    intros g r Hwf Hclean Hr.
    destruct (propagate_spec E g r Hwf Hclean Hr) as (g1 & Hprop & Hnc & Hreach & Hcr & Hind).
    exists g1. split; [exact Hprop |]. split; [exact Hnc |]. split; [exact Hreach |].
    assert (Hdl0 : forall m, dlt g m = None).
    { intro m. unfold dlt. destruct (nth_error g m) as [x|] eqn:Hx; [|reflexivity].
      apply (Hclean m x Hx). }
    split; [apply nc_sk; exact Hnc |]. split; [exact Hcr |].
    split.
    { intro m. rewrite app_nil_r, <- mult_occ, Hind.
      rewrite (indeg_flip g (act g1) (pact r g1) r m Hr).
      - lia.
      - unfold act. rewrite Hcr. reflexivity.
      - unfold pact. rewrite Nat.eqb_refl. apply orb_true_r.
      - intros n Hn. unfold pact, act. apply Nat.eqb_neq in Hn. rewrite Hn. apply orb_false_r. }
    split.
    { intros m _. rewrite (nc_dlt g1 g m Hnc). apply Hdl0. }
    split.
    { split; [constructor |]. intro m. simpl. split; [tauto |].
      intros (Hrm & _ & Hc & Hne). apply Hreach in Hrm.
      destruct Hrm as [Hrm|Hrm]; [lia | congruence]. }
    intros n m _ _ [].
  Qed.

  Theorem pass_spec : forall (g : store P D) r keep seed g' log,
      wfg E g -> clean g -> bop_contract E g -> r < length g ->
      run_backward E g r keep seed = Some (g', log) ->
      (* (a) no residue *)
      clean g' /\ length g' = length g /\
      (* (b) nothing but gradients changes *)
      (forall id nd nd', nth_error g id = Some nd -> nth_error g' id = Some nd' ->
           n_pay nd' = n_pay nd /\ n_children nd' = n_children nd) /\
      (* (c) gradient slots outside the differentiated sub-graph are untouched *)
      (forall id nd nd', nth_error g id = Some nd -> nth_error g' id = Some nd' ->
           ~ reach g r id -> n_grad nd' = n_grad nd) /\
      (* (d) every closure of the differentiated sub-graph runs exactly once, nothing else *)
      NoDup (map fst log) /\
      (forall id, In id (map fst log) <->
                  (reach g r id /\ exists nd, nth_error g id = Some nd /\ hasop E nd = true)) /\
      (* (e) a closure runs only after the closures of all its consumers in the sub-graph *)
      (forall n m, reach g r n -> tedge g n m ->
           (exists nd, nth_error g m = Some nd /\ hasop E nd = true) ->
           before (map fst log) n m).
  Proof.
    intros g r keep seed g' log Hwf Hclean Hbc Hr Hrun.
    unfold run_backward in Hrun. rewrite backward_S in Hrun.
    apply obind_some in Hrun. destruct Hrun as (nd & Hnd & Hrun).
    destruct (Hclean r nd Hnd) as (_ & Hdn). rewrite Hdn in Hrun.
    apply obind_some in Hrun. destruct Hrun as ([g1 delta] & Hgd & Hrun).
    apply obind_some in Hgd. destruct Hgd as (g1' & Hprop & Hgd).
    injection Hgd as Hg1 Hdelta. subst g1'.
    destruct (root_state g r Hwf Hclean Hr)
      as (g1'' & Hprop' & Hnc & Hreach & HS1 & Hcr & HI1 & HD1 & HLX & HO).
    rewrite Hprop in Hprop'. injection Hprop' as Hprop'. subst g1''.
    destruct (body_spec E g r Hwf Hbc Hr (backward E r) r (backward_rec_spec E g r Hwf Hbc Hr r)
                        g1 r keep delta [] [] g' log (le_n r) (reach_root g r) HS1 Hcr HI1 HD1
                        HLX HO Hrun) as ((HS' & HI' & HD' & (Hnd' & HL') & HO') & HG).
    assert (Hz : forall m, cnt g' m = 0) by (eapply inv_nil_zero; eassumption).
    assert (Hopb : forall id, opb E g id = true <->
                              exists x, nth_error g id = Some x /\ hasop E x = true).
    { intro id. unfold opb. destruct (nth_error g id) as [x|].
      - split; [intro H; exists x; tauto | intros (x' & Hx' & H); congruence].
      - split; [discriminate | intros (x' & Hx' & _); discriminate Hx']. }
    split.
    { intros id x Hx. split.
      - rewrite <- (cnt_nth g' id x Hx). apply Hz.
      - rewrite <- (dlt_nth g' id x Hx). apply HD'. apply Hz. }
    split; [apply (map_eq_length sk); exact HS' |].
    split.
    { intros id x x' Hx Hx'. destruct (map_eq_nth sk g' g id x' HS' Hx') as (y & Hy & Hsk).
      rewrite Hx in Hy. injection Hy as Hy. subst y. unfold sk in Hsk. split; congruence. }
    split.
    { intros id x x' Hx Hx' Hnr.
      rewrite <- (grd_nth g' id x' Hx'), <- (grd_nth g id x Hx).
      rewrite (HG id Hnr). apply nc_grd. exact Hnc. }
    split; [exact Hnd' |].
    split.
    { intro id. fold (ids log). rewrite HL', <- Hopb. split.
      - tauto.
      - intros (H1 & H2). split; [exact H1 |]. split; [exact H2 | apply Hz]. }
    intros n m Hrn Hte Hm. apply HO'; [exact Hrn | exact Hte |].
    apply HL'. split; [eapply reach_tedge; eassumption |].
    split; [apply Hopb; exact Hm | apply Hz].
  Qed.

  (** With total operations a pass on a clean well-formed store never panics. *)
  Theorem run_backward_total : forall (g : store P D) r keep seed,
      wfg E g -> clean g -> bop_contract E g -> r < length g ->
      (forall d p, eo_flat E d p <> None) ->
      (forall x y, eo_add E x y <> None) ->
      (forall p pays saved d, eo_bop E p pays saved d <> None) ->
      run_backward E g r keep seed <> None.
  Proof.
    intros g r keep seed Hwf Hclean Hbc Hr Hflat Hadd Hbop.
    assert (Hops : total_ops E) by (split; [exact Hflat | split; [exact Hadd | exact Hbop]]).
    destruct (root_state g r Hwf Hclean Hr)
      as (g1 & Hprop & Hnc & Hreach & HS1 & Hcr & HI1 & HD1 & HLX & HO).
    unfold run_backward. rewrite backward_S.
    destruct (nth_error g r) as [nd|] eqn:Hnd; [| apply nth_error_None in Hnd; lia].
    cbn [obind]. destruct (Hclean r nd Hnd) as (_ & Hdn). rewrite Hdn.
    rewrite Hprop. cbn [obind].
    destruct (body_total E g r Hwf Hbc Hr Hops (backward E r) r
                         (backward_rec_spec E g r Hwf Hbc Hr r)
                         (backward_rec_total E g r Hwf Hbc Hr Hops r)
                         g1 r keep
                         (match seed with Some s => s | None => eo_ones E (n_pay nd) end)
                         [] [] (le_n r) (reach_root g r) HS1 Hcr HI1 HD1 HLX HO)
      as (res & Hres).
    rewrite Hres. discriminate.
  Qed.
End Pass.

Print Assumptions propagate_count.
Print Assumptions pass_spec.
Print Assumptions run_backward_total.
