(** Definitions for the end-to-end statement of C01 on the concrete engine:
    - [fwd_of_code]: the forward operation a derivative closure belongs to, generic in the
      scalar instance (so that it can be run on dual numbers);
    - [value_consistent]: every operation node holds the forward result of its closure's
      operation on its children's values (and the data captured by the closure fits);
    - [tan]: the forward (dual-number) tangent of every node, given tangents of the leaves;
      untracked child entries are constants (stop-gradient). *)

From Coq Require Import List Arith Bool Lia PeanoNat ZArith.
From Corgi Require Import Lib.OptionMonad Model.Scalar Model.Arr Model.SlicedOp
     Model.Elementwise Model.Linalg Model.Image Model.Ops Model.Engine Model.Program
     Proofs.ArrFacts Proofs.FlattenSpec Proofs.DualLift Proofs.LocalAdjoint.
Import ListNotations.

Section FwdCode.
  Context {F : Type}.

  Definition dimb (d : list nat) (back : nat) : nat :=
    match dim_back d back with Some x => x | None => 0 end.

  (** [inj] embeds the scalar constants captured by a closure into the instance [G]
      (the identity for [O], [fun s => (s, 0)] for the dual numbers); [d] are the
      dimensions of the result (needed by reshape and expand) *)
  Definition fwd_of_code {G : Type} (OG : ScalarOps G) (inj : F -> G) (code : bop_code F)
             (d : list nat) (cs : list (arr G)) : option (arr G) :=
    match code, cs with
    | BAdd, [a; b] => a_add OG a b
    | BMul, [a; b] => a_mul OG a b
    | BDiv, [a; b] => a_div OG a b
    | BNeg, [a] => a_neg OG a
    | BScale s, [a] => a_scale OG (inj s) a
    | BRecip, [a] => a_reciprocal OG a
    | BPowf e, [a] => a_powf OG (inj e) a
    | BLn, [a] => a_ln OG a
    | BExp _, [a] => a_exp OG a
    | BSum k _, [a] => a_sum OG k a
    | BReshape, [a] => a_reshape d a
    | BMatmul ta tb, [a; b; c] => a_matmul OG a ta b tb (Some c)
    | BUnroll _ _ _ sr sc fr fc, [a] => unroll_blocks OG a sr sc fr fc
    | BExpand _ _, [a] => expand_conv OG a (dimb d 2) (dimb d 1)
    | BRelu, [a] => a_relu OG a
    | BSigmoid _, [a] => a_sigmoid OG a
    | BCustom c, _ => custom_forward OG c cs
    | _, _ => None
    end.

  (** the data captured by the closure fits the operands [cs] and the result [v] *)
  Definition code_fits (code : bop_code F) (cs : list (arr F)) (v : arr F) : Prop :=
    match code with
    | BExp cached => cached = vals v
    | BSigmoid cached => cached = vals v
    | BSum k target => k <> 0 /\ target = sum_target (dims (nth 0 cs dummy_arr)) k
    | BUnroll depth rows cols _ _ _ _ =>
      let d := dims (nth 0 cs dummy_arr) in
      dim_back d 3 = Some depth /\ dim_back d 2 = Some rows /\ dim_back d 1 = Some cols
    | BExpand fcount stride =>
      dim_back (dims (nth 0 cs dummy_arr)) 1 = Some fcount /\
      stride = dimb (dims v) 2 * dimb (dims v) 1
    | _ => True
    end.
End FwdCode.

Section Consistency.
  Context {F : Type} (O : ScalarOps F).

  Local Notation gnode := (@gnode F).
  Local Notation D2 := (dual_ops O).

  Definition inj2 (s : F) : @dual F := (s, f0 O).

  (** the value of node [id] ([dummy_arr] if there is no such node) *)
  Definition nval (g : list gnode) (id : nat) : arr F :=
    match nth_error g id with Some nd => pay_arr (n_pay nd) | None => dummy_arr end.

  Definition cvals (g : list gnode) (es : list entry) : list (arr F) :=
    map (fun e => nval g (e_node e)) es.

  (** [matmul] without additive term records a fresh [zeros1] node as third child *)
  Definition matmul_nobias (code : bop_code F) (cs : list (arr F)) (v : arr F) : Prop :=
    match code, cs with
    | BMatmul ta tb, [a; b; c] => c = zeros1 O /\ a_matmul O a ta b tb None = Some v
    | _, _ => False
    end.

  Definition node_vc (g : list gnode) (nd : gnode) : Prop :=
    match p_bop (n_pay nd) with
    | None => True
    | Some code =>
      let cs := cvals g (n_children nd) in
      let v := pay_arr (n_pay nd) in
      code_fits code cs v /\
      (fwd_of_code O (fun s => s) code (dims v) cs = Some v \/ matmul_nobias code cs v)
    end.

  Definition value_consistent (g : list gnode) : Prop :=
    forall id nd, nth_error g id = Some nd -> node_vc g nd.

  (** * Forward tangents *)

  (** the tangent of one node, given the tangents [prev] of the nodes before it *)
  Definition node_tan (g : list gnode) (lt : nat -> arr F) (prev : list (arr F)) (id : nat)
    : arr F :=
    match nth_error g id with
    | None => dummy_arr
    | Some nd =>
      match p_bop (n_pay nd) with
      | None => lt id
      | Some code =>
        let es := n_children nd in
        let ts := map (fun e => nth (e_node e) prev dummy_arr) es in
        match fwd_of_code D2 inj2 code (p_dims (n_pay nd))
                          (lift_children O 0 (map e_tracked es) (cvals g es) ts) with
        | Some RD => tangent RD
        | None => zeros_like O (pay_arr (n_pay nd))
        end
      end
    end.

  (** tangents of the nodes [0 .. n-1] *)
  Fixpoint tans (g : list gnode) (lt : nat -> arr F) (n : nat) : list (arr F) :=
    match n with
    | 0 => []
    | S k => let prev := tans g lt k in prev ++ [node_tan g lt prev k]
    end.

  Definition tan (g : list gnode) (lt : nat -> arr F) (n : nat) : arr F :=
    nth n (tans g lt (S n)) dummy_arr.

  Definition is_leaf (g : list gnode) (m : nat) : bool :=
    match nth_error g m with
    | Some nd => match p_bop (n_pay nd) with Some _ => false | None => true end
    | None => true
    end.

  Definition grad_at (g : list gnode) (m : nat) : option (arr F) :=
    match nth_error g m with Some nd => n_grad nd | None => None end.

  (** right-hand side of C01: the stored leaf gradients paired with the leaf tangents *)
  Definition leaf_pairing (g g' : list gnode) (lt : nat -> arr F) (r : nat) : F :=
    vsum O (map (fun l => match grad_at g' l with
                          | Some gl => dot O (vals gl) (vals (lt l))
                          | None => f0 O
                          end)
                (filter (is_leaf g) (seq 0 (S r)))).
End Consistency.

(** * Sanity check over the integers: the diamond x*x + x with broadcasting, then more *)

Module Sanity.
  Definition mkZ (d : list nat) (v : list Z) : arr Z := {| dims := d; vals := v |}.

  Fixpoint run_states (s : @state Z) (p : list (@instr Z)) : option (@state Z) :=
    match p with
    | [] => Some s
    | i :: p' => match step Z_ops s i with Some (s', _) => run_states s' p' | None => None end
    end.

  (* v0 = x [2;1;3], v1 = b [2;1] (broadcast), v2 = x*x, v3 = v2 + x, v4 = v3 * b, v5 = -v4,
     v6 = sum_1 v5, v7 = v6 + v3 (shape [2;1;3] + [2;1;1]) *)
  Definition prog : list (@instr Z) :=
    [ ILeaf [2;1;3] [2;-3;5;7;-11;13]%Z true;
      ILeaf [2;1] [3;-4]%Z true;
      IOp OMul [0;0];
      IOp OAdd [2;0];
      IOp OMul [3;1];
      IOp ONeg [4];
      IOp (OSum 1) [5];
      IOp OAdd [6;3] ].

  Definition st := run_states (init_state Z_ops) prog.

  Definition lt0 (l : nat) : arr Z :=
    match l with
    | 0 => mkZ [2;1;3] [1;4;-2;3;-5;6]%Z
    | _ => mkZ [2;1] [-7;2]%Z
    end.

  Definition seed3 := mkZ [2;1;3] [1;-2;3;4;5;-6]%Z.
  Definition seed7 := mkZ [2;2;3] [1;-2;3;4;5;-6;7;8;-9;10;-11;12]%Z.

  Definition chk (r : nat) (seed : arr Z) : option (Z * Z) :=
    s <- st ;;
    let g := st_nodes s in
    res <- run_backward (Program.E Z_ops) g r true (Some seed) ;;
    Some (dot Z_ops (vals seed) (vals (tan Z_ops g lt0 r)),
          leaf_pairing Z_ops g (fst res) lt0 r).

  Definition ok (x : option (Z * Z)) : bool :=
    match x with Some (a, b) => Z.eqb a b | None => false end.

  Example diamond_ok : ok (chk 3 seed3) = true.
  Proof. vm_compute. reflexivity. Qed.
  Example deep_ok : ok (chk 7 seed7) = true.
  Proof. vm_compute. reflexivity. Qed.
  Example sum_ok : ok (chk 6 (mkZ [2;2;1] [3;-4;5;7]%Z)) = true.
  Proof. vm_compute. reflexivity. Qed.
  (* the same graph with the second leaf untracked: its entries are constants *)
  Definition prog' : list (@instr Z) :=
    ILeaf [2;1;3] [2;-3;5;7;-11;13]%Z true :: ILeaf [2;1] [3;-4]%Z false :: skipn 2 prog.
  Definition chk' (r : nat) (seed : arr Z) : option (Z * Z) :=
    s <- run_states (init_state Z_ops) prog' ;;
    let g := st_nodes s in
    res <- run_backward (Program.E Z_ops) g r true (Some seed) ;;
    Some (dot Z_ops (vals seed) (vals (tan Z_ops g lt0 r)),
          leaf_pairing Z_ops g (fst res) lt0 r).
  Example stopgrad_ok : ok (chk' 7 seed7) = true.
  Proof. vm_compute. reflexivity. Qed.
  Eval vm_compute in (chk' 7 seed7).
  Eval vm_compute in (chk 3 seed3, chk 7 seed7, chk 6 (mkZ [2;2;1] [3;-4;5;7]%Z)).
End Sanity.
