(** A characterisation of the sweep table independent of the order of accumulation:
    given a set of "fired" records (node, adjoint) whose adjoints are the accumulation,
    in ANY order, of the contributions of the fired consumers, [adjoints] succeeds and
    its table holds exactly those adjoints. *)

From Coq Require Import List Arith Bool Lia PeanoNat Permutation.
From Corgi Require Import Lib.OptionMonad Model.Engine Proofs.EngineDefs Proofs.EngineBase
     Proofs.AdjointSpec Proofs.ValueAlg.
Import ListNotations.

(** * Firing records: (node, adjoint it fired with, keep flag of the call) *)

Definition fired (D : Type) : Type := (nat * D * bool)%type.
Definition fnode {D} (f : fired D) : nat := fst (fst f).
Definition fdel {D} (f : fired D) : D := snd (fst f).
Definition fkeep {D} (f : fired D) : bool := snd f.

Fixpoint lk {D} (m : nat) (FT : list (fired D)) : option (D * bool) :=
  match FT with
  | [] => None
  | f :: FT' => if fnode f =? m then Some (fdel f, fkeep f) else lk m FT'
  end.

Lemma lk_app : forall {D} m (F1 F2 : list (fired D)),
    lk m (F1 ++ F2) = match lk m F1 with Some x => Some x | None => lk m F2 end.
Proof.
  intros D m F1 F2. induction F1 as [|f F1 IH]; simpl.
  - reflexivity.
  - destruct (fnode f =? m); [reflexivity | exact IH].
Qed.

Lemma lk_in : forall {D} m (FT : list (fired D)) d k, lk m FT = Some (d, k) -> In (m, d, k) FT.
Proof.
  intros D m FT d k. induction FT as [|f FT IH]; simpl; intro H.
  - discriminate H.
  - destruct (fnode f =? m) eqn:Hn.
    + apply Nat.eqb_eq in Hn. injection H as Hd Hk. left.
      destruct f as [[n x] b]. unfold fnode, fdel, fkeep in *. simpl in *. congruence.
    + right. apply IH. exact H.
Qed.

Lemma lk_none : forall {D} m (FT : list (fired D)), lk m FT = None <-> ~ In m (map fnode FT).
Proof.
  intros D m FT. induction FT as [|f FT IH]; simpl.
  - split; [intros _ [] | reflexivity].
  - destruct (fnode f =? m) eqn:Hn.
    + apply Nat.eqb_eq in Hn. split; [discriminate | intro H; exfalso; apply H; left; exact Hn].
    + apply Nat.eqb_neq in Hn. rewrite IH. tauto.
Qed.

Lemma lk_nodup : forall {D} (FT : list (fired D)) m d k,
    NoDup (map fnode FT) -> In (m, d, k) FT -> lk m FT = Some (d, k).
Proof.
  intros D FT m d k. induction FT as [|f FT IH]; simpl; intros Hnd Hin.
  - destruct Hin.
  - inversion Hnd as [|x l Hx Hl]. subst x l. destruct Hin as [Hin|Hin].
    + subst f. unfold fnode, fdel, fkeep. simpl. rewrite Nat.eqb_refl. reflexivity.
    + destruct (fnode f =? m) eqn:Hn.
      * apply Nat.eqb_eq in Hn. exfalso. apply Hx. rewrite Hn.
        change m with (fnode (m, d, k)). apply in_map. exact Hin.
      * apply IH; assumption.
Qed.

Lemma filter_node_lk : forall {D} (FT : list (fired D)) m,
    NoDup (map fnode FT) ->
    filter (fun f => fnode f =? m) FT =
    match lk m FT with Some (d, k) => [(m, d, k)] | None => [] end.
Proof.
  intros D FT m. induction FT as [|f FT IH]; simpl; intro Hnd.
  - reflexivity.
  - inversion Hnd as [|x l Hx Hl]. subst x l. destruct (fnode f =? m) eqn:Hn.
    + apply Nat.eqb_eq in Hn. rewrite (IH Hl).
      assert (Hno : lk m FT = None) by (apply lk_none; rewrite <- Hn; exact Hx).
      rewrite Hno. destruct f as [[n x] b]. unfold fnode, fdel, fkeep in *. simpl in *.
      subst n. reflexivity.
    + apply IH. exact Hl.
Qed.

(** * Descending ranges *)

(** [rng k n = [k+n-1; ...; k]] *)
Fixpoint rng (k n : nat) : list nat :=
  match n with 0 => [] | S n' => (k + n') :: rng k n' end.

Lemma rng_in : forall k n x, In x (rng k n) -> k <= x < k + n.
Proof.
  intros k n. induction n as [|n IH]; simpl; intros x H.
  - destruct H.
  - destruct H as [H|H]; [lia |]. apply IH in H. lia.
Qed.

Lemma rng_split : forall a b, rng 0 (a + b) = rng a b ++ rng 0 a.
Proof.
  intros a b. induction b as [|b IH].
  - rewrite Nat.add_0_r. reflexivity.
  - replace (a + S b) with (S (a + b)) by lia. simpl. rewrite IH. reflexivity.
Qed.

Lemma rng_snoc : forall n k, rng k (S n) = rng (S k) n ++ [k].
Proof.
  induction n as [|n IH]; intro k.
  - simpl. rewrite Nat.add_0_r. reflexivity.
  - change (rng k (S (S n))) with ((k + S n) :: rng k (S n)). rewrite IH.
    change (rng (S k) (S n)) with ((S k + n) :: rng (S k) n).
    replace (k + S n) with (S k + n) by lia. reflexivity.
Qed.

Lemma rev_seq_rng : forall n, rev (seq 0 n) = rng 0 n.
Proof.
  induction n as [|n IH].
  - reflexivity.
  - rewrite seq_S, rev_app_distr. simpl. rewrite IH. reflexivity.
Qed.

Lemma flat_map_ext_in : forall {A B} (f h : A -> list B) l,
    (forall a, In a l -> f a = h a) -> flat_map f l = flat_map h l.
Proof.
  intros A B f h l. induction l as [|a l IH]; intro H; simpl.
  - reflexivity.
  - rewrite (H a (or_introl eq_refl)), IH; [reflexivity |].
    intros b Hb. apply H. right. exact Hb.
Qed.

Lemma flat_map_flat_map : forall {A B C} (f : B -> list C) (h : A -> list B) l,
    flat_map f (flat_map h l) = flat_map (fun x => flat_map f (h x)) l.
Proof.
  intros A B C f h l. induction l as [|a l IH]; simpl.
  - reflexivity.
  - rewrite flat_map_app, IH. reflexivity.
Qed.

Lemma bucket_perm : forall {D} n (FT : list (fired D)),
    (forall f, In f FT -> fnode f < n) ->
    Permutation FT (flat_map (fun k => filter (fun f => fnode f =? k) FT) (rng 0 n)).
Proof.
  intros D n. induction n as [|n IH]; intros FT Hb.
  - destruct FT as [|f FT]; [constructor |].
    specialize (Hb f (or_introl eq_refl)). lia.
  - simpl.
    eapply Permutation_trans; [apply (filter_partition_perm (fun f => fnode f =? n)) |].
    apply Permutation_app_head.
    set (FT' := filter (fun x => negb (fnode x =? n)) FT).
    assert (Hb' : forall f, In f FT' -> fnode f < n).
    { intros f Hf. apply filter_In in Hf. destruct Hf as (Hf & Hn).
      specialize (Hb f Hf). apply negb_true_iff in Hn. apply Nat.eqb_neq in Hn. lia. }
    eapply Permutation_trans; [apply (IH FT' Hb') |].
    rewrite (flat_map_ext_in (fun k => filter (fun f => fnode f =? k) FT')
                             (fun k => filter (fun f => fnode f =? k) FT)); [apply Permutation_refl |].
    intros k Hk. apply rng_in in Hk. unfold FT'. clear -Hk.
    induction FT as [|f FT IHF]; simpl.
    + reflexivity.
    + destruct (fnode f =? n) eqn:Hfn; simpl.
      * apply Nat.eqb_eq in Hfn. destruct (fnode f =? k) eqn:Hfk.
        -- apply Nat.eqb_eq in Hfk. lia.
        -- exact IHF.
      * destruct (fnode f =? k); [f_equal; exact IHF | exact IHF].
Qed.

(** * [contribs] as a fold *)

Section Contribs.
  Context {P D : Type}.
  Variable E : eops P D.
  Variable g : store P D.

  Definition cstep (p : entry * option D) (acc : option (list (nat * D)))
    : option (list (nat * D)) :=
    rest <- acc ;;
    match snd p with
    | None => Some rest
    | Some d =>
      c <- nth_error g (e_node (fst p)) ;;
      d' <- eo_flat E d (n_pay c) ;;
      Some ((e_node (fst p), d') :: rest)
    end.

  Definition cflat (ps : list (entry * option D)) : option (list (nat * D)) :=
    fold_right cstep (Some []) ps.

  Lemma contribs_unfold : forall n delta,
      contribs E g n delta =
      (nd <- nth_error g n ;;
       if eo_hasop E (n_pay nd) then
         pays <- mapM (fun e : entry => c <- nth_error g (e_node e) ;; Some (n_pay c))
                      (n_children nd) ;;
         ds <- eo_bop E (n_pay nd) pays (map e_tracked (n_children nd)) delta ;;
         cflat (combine (n_children nd) ds)
       else Some []).
  Proof. reflexivity. Qed.

  Lemma cflat_cons : forall p ps, cflat (p :: ps) = cstep p (cflat ps).
  Proof. reflexivity. Qed.

  Lemma cflat_skip : forall e ps, cflat ((e, None) :: ps) = cflat ps.
  Proof.
    intros e ps. rewrite cflat_cons. unfold cstep. simpl.
    destruct (cflat ps); reflexivity.
  Qed.

  Lemma cflat_some_inv : forall e d ps own,
      cflat ((e, Some d) :: ps) = Some own ->
      exists rest c d', cflat ps = Some rest /\ nth_error g (e_node e) = Some c /\
                        eo_flat E d (n_pay c) = Some d' /\ own = (e_node e, d') :: rest.
  Proof.
    intros e d ps own H. rewrite cflat_cons in H. unfold cstep in H. simpl in H.
    apply obind_some in H. destruct H as (rest & Hrest & H).
    apply obind_some in H. destruct H as (c & Hc & H).
    apply obind_some in H. destruct H as (d' & Hd' & H).
    injection H as H. exists rest, c, d'. repeat split; congruence.
  Qed.

  Lemma cflat_some_fwd : forall e d ps rest c d',
      cflat ps = Some rest -> nth_error g (e_node e) = Some c ->
      eo_flat E d (n_pay c) = Some d' ->
      cflat ((e, Some d) :: ps) = Some ((e_node e, d') :: rest).
  Proof.
    intros e d ps rest c d' Hrest Hc Hd'. rewrite cflat_cons. unfold cstep. simpl.
    rewrite Hrest. simpl. rewrite Hc. simpl. rewrite Hd'. reflexivity.
  Qed.

  Lemma cflat_targets : forall ps own m d,
      cflat ps = Some own -> In (m, d) own ->
      exists e d0 c, In (e, Some d0) ps /\ e_node e = m /\ nth_error g m = Some c /\
                     eo_flat E d0 (n_pay c) = Some d.
  Proof.
    induction ps as [|[e od] ps IH]; intros own m d Hown Hin.
    - simpl in Hown. injection Hown as Hown. subst own. destruct Hin.
    - destruct od as [d0|].
      + apply cflat_some_inv in Hown.
        destruct Hown as (rest & c & d' & Hrest & Hc & Hd' & Hown). subst own.
        destruct Hin as [Hin|Hin].
        * injection Hin as Hm Hd. subst m d'. exists e, d0, c.
          split; [left; reflexivity | tauto].
        * destruct (IH rest m d Hrest Hin) as (e' & d0' & c' & Hin' & H).
          exists e', d0', c'. split; [right; exact Hin' | exact H].
      + rewrite cflat_skip in Hown.
        destruct (IH own m d Hown Hin) as (e' & d0' & c' & Hin' & H).
        exists e', d0', c'. split; [right; exact Hin' | exact H].
  Qed.

  Lemma contribs_targets : forall n delta cs m d,
      wfg E g -> contribs E g n delta = Some cs -> In (m, d) cs ->
      m < n /\ exists c d0, nth_error g m = Some c /\ eo_flat E d0 (n_pay c) = Some d.
  Proof.
    intros n delta cs m d Hwf Hc Hin. rewrite contribs_unfold in Hc.
    apply obind_some in Hc. destruct Hc as (nd & Hnd & Hc).
    destruct (eo_hasop E (n_pay nd)).
    - apply obind_some in Hc. destruct Hc as (pays & Hpays & Hc).
      apply obind_some in Hc. destruct Hc as (ds & Hds & Hc).
      destruct (cflat_targets _ cs m d Hc Hin) as (e & d0 & c & Hin' & He & Hcm & Hfl).
      apply in_combine_l in Hin'. destruct (Hwf n nd Hnd) as (Hlt & _).
      specialize (Hlt e Hin'). split; [lia |]. exists c, d0. tauto.
    - injection Hc as Hc. subst cs. destruct Hin.
  Qed.
End Contribs.

(** * The sweep computes the accumulated adjoints *)

Section SweepChar.
  Context {P D : Type}.
  Variable E : eops P D.
  Variable S : Type.
  Variable sh : D -> S.
  Variable psh : P -> S.
  Hypothesis add_ok : forall x y, sh x = sh y -> exists z, eo_add E x y = Some z /\ sh z = sh x.
  Hypothesis add_comm : forall x y, sh x = sh y -> eo_add E x y = eo_add E y x.
  Hypothesis add_assoc : forall x y z xy yz, sh x = sh y -> sh y = sh z ->
      eo_add E x y = Some xy -> eo_add E y z = Some yz -> eo_add E xy z = eo_add E x yz.
  Hypothesis flat_sh : forall d p d', eo_flat E d p = Some d' -> sh d' = psh p.

  Variable g : store P D.
  Variable r : nat.
  Variable s0 : D.
  Hypothesis Hwf : wfg E g.
  Hypothesis Hr : r < length g.

  Variable FT : list (fired D).
  Variable H : list (nat * D).

  Definition cso (f : fired D) : list (nat * D) :=
    match contribs E g (fnode f) (fdel f) with Some cs => cs | None => [] end.

  Definition init (m : nat) : option D := if m =? r then Some s0 else None.
  Definition dvl (m : nat) : option D := option_map fst (lk m FT).

  Hypothesis HA1 : NoDup (map fnode FT).
  Hypothesis HA2 : forall f, In f FT ->
      fnode f <= r /\ contribs E g (fnode f) (fdel f) <> None.
  Hypothesis HA3 : Permutation H (flat_map cso FT).
  Hypothesis HA4 : forall m, accum E (init m) (vals m H) = Some (dvl m).
  Hypothesis HA6 : exists ndr, nth_error g r = Some ndr /\ sh s0 = psh (n_pay ndr).

  Definition csn (k : nat) : list (nat * D) :=
    flat_map cso (filter (fun f => fnode f =? k) FT).
  Definition CSab (k : nat) : list (nat * D) := flat_map csn (rng k (Datatypes.S r - k)).

  Lemma cso_targets : forall f m d, In (m, d) (cso f) ->
      m < fnode f /\ exists c, nth_error g m = Some c /\ sh d = psh (n_pay c).
  Proof.
    intros f m d Hin. unfold cso in Hin.
    destruct (contribs E g (fnode f) (fdel f)) as [cs|] eqn:Hc; [| destruct Hin].
    destruct (contribs_targets E g _ _ cs m d Hwf Hc Hin) as (Hlt & c & d0 & Hcm & Hfl).
    split; [exact Hlt |]. exists c. split; [exact Hcm |]. eapply flat_sh. exact Hfl.
  Qed.

  Lemma csn_targets : forall k m d, In (m, d) (csn k) ->
      m < k /\ exists c, nth_error g m = Some c /\ sh d = psh (n_pay c).
  Proof.
    intros k m d Hin. unfold csn in Hin. apply in_flat_map in Hin.
    destruct Hin as (f & Hf & Hin). apply filter_In in Hf. destruct Hf as (_ & Hk).
    apply Nat.eqb_eq in Hk. subst k. apply cso_targets. exact Hin.
  Qed.

  Lemma all_perm : Permutation H (CSab 0).
  Proof.
    unfold CSab. rewrite Nat.sub_0_r.
    eapply Permutation_trans; [exact HA3 |].
    unfold csn.
    rewrite <- (flat_map_flat_map cso (fun k => filter (fun f => fnode f =? k) FT)).
    apply Permutation_flat_map. apply bucket_perm.
    intros f Hf. destruct (HA2 f Hf) as (Hle & _). lia.
  Qed.

  Lemma CSab_in : forall k m d, In (m, d) (CSab k) ->
      exists c, nth_error g m = Some c /\ sh d = psh (n_pay c).
  Proof.
    intros k m d Hin. unfold CSab in Hin. apply in_flat_map in Hin.
    destruct Hin as (n & _ & Hin). apply csn_targets in Hin. tauto.
  Qed.

  Lemma init_shape : forall m c, nth_error g m = Some c -> oshape S sh (psh (n_pay c)) (init m).
  Proof.
    intros m c Hc. unfold init. destruct (m =? r) eqn:Hm; simpl; [| exact I].
    apply Nat.eqb_eq in Hm. subst m. destruct HA6 as (ndr & Hndr & Hs). congruence.
  Qed.

  Lemma vals_shape : forall X m c, nth_error g m = Some c ->
      (forall m' d, In (m', d) X -> exists c', nth_error g m' = Some c' /\ sh d = psh (n_pay c')) ->
      Forall (fun d => sh d = psh (n_pay c)) (vals m X).
  Proof.
    intros X m c Hc HX. apply Forall_forall. intros d Hd. apply vals_in in Hd.
    destruct (HX m d Hd) as (c' & Hc' & Hs). congruence.
  Qed.

  Lemma H_in : forall m d, In (m, d) H ->
      exists c, nth_error g m = Some c /\ sh d = psh (n_pay c).
  Proof.
    intros m d Hin. apply (Permutation_in _ all_perm) in Hin. eapply CSab_in. exact Hin.
  Qed.

  Lemma HA4' : forall m, m < length g -> accum E (init m) (vals m (CSab 0)) = Some (dvl m).
  Proof.
    intros m Hm. destruct (nth_error g m) as [c|] eqn:Hc; [| apply nth_error_None in Hc; lia].
    rewrite <- (HA4 m). symmetry.
    apply (accum_perm E S sh add_ok add_comm add_assoc (psh (n_pay c))).
    - apply vals_perm. exact all_perm.
    - eapply init_shape. exact Hc.
    - apply vals_shape; [exact Hc | exact H_in].
  Qed.

  Lemma CSab_step : forall k, k <= r -> CSab k = CSab (Datatypes.S k) ++ csn k.
  Proof.
    intros k Hk. unfold CSab.
    replace (Datatypes.S r - k) with (Datatypes.S (r - k)) by lia.
    replace (Datatypes.S r - Datatypes.S k) with (r - k) by lia.
    rewrite rng_snoc, flat_map_app. simpl. rewrite app_nil_r. reflexivity.
  Qed.

  Lemma CSab_full : forall k, k <= Datatypes.S r ->
      CSab 0 = CSab k ++ flat_map csn (rng 0 k).
  Proof.
    intros k Hk. unfold CSab. rewrite Nat.sub_0_r.
    replace (Datatypes.S r) with (k + (Datatypes.S r - k)) at 1 by lia.
    rewrite rng_split, flat_map_app. reflexivity.
  Qed.

  Lemma vals_below_nil : forall k m, k <= Datatypes.S m -> vals m (flat_map csn (rng 0 k)) = [].
  Proof.
    intros k m Hk. apply vals_nil_notin. intros [m' d] Hin. simpl.
    apply in_flat_map in Hin. destruct Hin as (n & Hn & Hin).
    apply rng_in in Hn. apply csn_targets in Hin. lia.
  Qed.

  (** accumulating a list of contributions into a table *)
  Lemma tab_add_all_spec : forall cs (T : table),
      (forall p, In p cs -> fst p < length T) ->
      (forall m, m < length T ->
                 exists o', (o <- nth_error T m ;; accum E o (vals m cs)) = Some o') ->
      exists T', tab_add_all E T cs = Some T' /\ length T' = length T /\
                 forall m, m < length T ->
                           nth_error T' m = (o <- nth_error T m ;; accum E o (vals m cs)).
  Proof.
    induction cs as [|[c d] cs IH]; intros T Hlt Hok.
    - exists T. split; [reflexivity |]. split; [reflexivity |].
      intros m Hm. destruct (nth_error T m) as [o|] eqn:Ho; [reflexivity |].
      apply nth_error_None in Ho. lia.
    - assert (Hc : c < length T) by (apply (Hlt (c, d)); left; reflexivity).
      destruct (nth_error T c) as [cur|] eqn:Hcur; [| apply nth_error_None in Hcur; lia].
      destruct (Hok c Hc) as (o' & Ho'). rewrite Hcur in Ho'. simpl in Ho'.
      rewrite vals_cons, Nat.eqb_refl in Ho'. simpl in Ho'.
      destruct (oadd E cur d) as [z|] eqn:Hz; [| discriminate Ho']. simpl in Ho'.
      assert (Hta : tab_add E T (c, d) =
                    Some (firstn c T ++ Some z :: skipn (Datatypes.S c) T)).
      { unfold tab_add. simpl. rewrite Hcur. simpl. unfold oadd in Hz. rewrite Hz. simpl.
        unfold set_nth. apply Nat.ltb_lt in Hc. rewrite Hc. reflexivity. }
      set (T1 := firstn c T ++ Some z :: skipn (Datatypes.S c) T) in *.
      assert (Hlen1 : length T1 = length T) by (apply set_nth_length; exact Hc).
      assert (Hnth1 : forall j, nth_error T1 j = if j =? c then Some (Some z) else nth_error T j)
        by (intro j; apply set_nth_spec; exact Hc).
      destruct (IH T1) as (T' & HT' & Hlen' & Hnth').
      + intros p Hp. rewrite Hlen1. apply Hlt. right. exact Hp.
      + intros m Hm. rewrite Hlen1 in Hm. rewrite Hnth1. destruct (m =? c) eqn:Hmc.
        * apply Nat.eqb_eq in Hmc. subst m. simpl. exists o'. exact Ho'.
        * destruct (Hok m Hm) as (o'' & Ho''). rewrite vals_cons in Ho''.
          rewrite Nat.eqb_sym, Hmc in Ho''. exists o''. exact Ho''.
      + exists T'. split.
        * unfold tab_add_all in *. simpl. rewrite Hta. exact HT'.
        * split; [congruence |]. intros m Hm. rewrite Hnth'; [| rewrite Hlen1; exact Hm].
          rewrite Hnth1. rewrite vals_cons. destruct (m =? c) eqn:Hmc.
          -- apply Nat.eqb_eq in Hmc. subst m. rewrite Nat.eqb_refl, Hcur. simpl.
             rewrite Hz. reflexivity.
          -- rewrite Nat.eqb_sym, Hmc. reflexivity.
  Qed.

  Lemma sweep_rng : forall k (T : table),
      k <= Datatypes.S r -> length T = length g ->
      (forall m, m < length g -> nth_error T m = accum E (init m) (vals m (CSab k))) ->
      exists T', sweep E g (rng 0 k) T = Some T' /\ length T' = length g /\
                 forall m, m < length g -> nth_error T' m = accum E (init m) (vals m (CSab 0)).
  Proof.
    induction k as [|k IH]; intros T Hk Hlen HT.
    - exists T. split; [reflexivity |]. split; [exact Hlen | exact HT].
    - assert (Hkr : k <= r) by lia. assert (HkN : k < length g) by lia.
      change (rng 0 (Datatypes.S k)) with (k :: rng 0 k).
      (* the slot of [k] is final *)
      assert (Hslot : nth_error T k = Some (dvl k)).
      { rewrite (HT k HkN), <- (HA4' k HkN).
        rewrite (CSab_full (Datatypes.S k) Hk), vals_app.
        rewrite (vals_below_nil (Datatypes.S k) k (le_n _)), app_nil_r. reflexivity. }
      assert (Hnth : nth k T None = dvl k) by (apply nth_error_nth; exact Hslot).
      pose proof (filter_node_lk FT k HA1) as Hfil.
      simpl sweep. rewrite Hnth. unfold dvl in *.
      destruct (lk k FT) as [[delta kp]|] eqn:Hlk; simpl.
      + assert (Hin : In (k, delta, kp) FT) by (apply lk_in; exact Hlk).
        destruct (HA2 _ Hin) as (_ & Hcne). unfold fnode, fdel in Hcne. simpl in Hcne.
        destruct (contribs E g k delta) as [cs|] eqn:Hcs; [| congruence]. simpl.
        assert (Hcsn : csn k = cs).
        { unfold csn. rewrite Hfil. simpl. unfold cso, fnode, fdel. simpl.
          rewrite Hcs. apply app_nil_r. }
        assert (Hstep : CSab k = CSab (Datatypes.S k) ++ cs)
          by (rewrite <- Hcsn; apply CSab_step; exact Hkr).
        destruct (tab_add_all_spec cs T) as (T1 & HT1 & Hlen1 & Hnth1).
        * intros [m d] Hp. simpl. rewrite Hlen. rewrite <- Hcsn in Hp.
          apply csn_targets in Hp. lia.
        * intros m Hm. rewrite Hlen in Hm. rewrite (HT m Hm).
          rewrite <- accum_app, <- vals_app, <- Hstep.
          pose proof (HA4' m Hm) as Hfull.
          rewrite (CSab_full k) in Hfull by lia. rewrite vals_app in Hfull.
          eapply accum_prefix. exact Hfull.
        * rewrite HT1. simpl. apply IH; [lia | congruence |].
          intros m Hm. rewrite Hnth1 by (rewrite Hlen; exact Hm). rewrite (HT m Hm).
          rewrite <- accum_app, <- vals_app, <- Hstep. reflexivity.
      + assert (Hcsn : csn k = []) by (unfold csn; rewrite Hfil; reflexivity).
        apply IH; [lia | exact Hlen |].
        intros m Hm. rewrite (HT m Hm), (CSab_step k Hkr), Hcsn, app_nil_r. reflexivity.
  Qed.

  Lemma init_table_nth : forall m, m < length g ->
      nth_error (init_table (length g) r s0) m = Some (init m).
  Proof.
    intros m Hm. unfold init_table, init.
    destruct (lt_eq_lt_dec m r) as [[Hlt|Heq]|Hgt].
    - rewrite nth_error_app1 by (rewrite repeat_length; exact Hlt).
      rewrite nth_error_repeat by exact Hlt.
      destruct (m =? r) eqn:Hmr; [apply Nat.eqb_eq in Hmr; lia | reflexivity].
    - subst m. rewrite nth_error_app2 by (rewrite repeat_length; lia).
      rewrite repeat_length, Nat.sub_diag, Nat.eqb_refl. reflexivity.
    - rewrite nth_error_app2 by (rewrite repeat_length; lia).
      rewrite repeat_length.
      rewrite nth_error_app2 by (simpl; lia). simpl length.
      rewrite nth_error_repeat by lia.
      destruct (m =? r) eqn:Hmr; [apply Nat.eqb_eq in Hmr; lia | reflexivity].
  Qed.

  Theorem sweep_char :
    exists tab, adjoints E g r s0 = Some tab /\ length tab = length g /\
                forall m, m < length g -> nth_error tab m = Some (dvl m).
  Proof.
    unfold adjoints, down_from. rewrite rev_seq_rng.
    destruct (sweep_rng (Datatypes.S r) (init_table (length g) r s0)) as (T' & HT' & Hlen' & Hn').
    - lia.
    - unfold init_table. rewrite !app_length, !repeat_length. simpl. lia.
    - intros m Hm. rewrite init_table_nth by exact Hm.
      unfold CSab. rewrite Nat.sub_diag. reflexivity.
    - exists T'. split; [exact HT' |]. split; [exact Hlen' |].
      intros m Hm. rewrite (Hn' m Hm). apply HA4'. exact Hm.
  Qed.

  (** shapes of the adjoints *)
  Lemma dvl_shape : forall m c delta,
      nth_error g m = Some c -> dvl m = Some delta -> sh delta = psh (n_pay c).
  Proof.
    intros m c delta Hc Hd. pose proof (HA4 m) as Ha. rewrite Hd in Ha.
    apply (accum_shape E S sh add_ok (psh (n_pay c))) in Ha.
    - exact Ha.
    - eapply init_shape. exact Hc.
    - apply vals_shape; [exact Hc | exact H_in].
  Qed.
End SweepChar.
