(** C14: each training iteration steps the parameters along the gradient of the current
    loss; no gradient, graph or other state of a previous iteration leaks into the next.

    The loop is [model_forward] / [model_backward] / [model_update] of [Model/Program.v]
    (Rust: [Model::forward], [Model::backward], [Model::update]).

    - [armed s]: the state invariant [HistoryInv.good], every layer parameter handle is
      tracked and keeps gradients and points to a LEAF node (no children, no closure), and
      the parameter nodes are pairwise distinct.
    - [ready s]: [armed s] and every parameter's gradient slot is empty.

    [ready] holds after model construction ([model_construction_ready]); [model_forward]
    preserves [armed] and [ready]; [model_backward] preserves [armed]; [model_update]
    turns [armed] into [ready] ([model_update_ready]) -- whatever happened before, after an
    update all parameters are fresh or untouched leaves with empty slots.  The iteration
    theorem [train_iteration] states what one iteration computes; [train_ready] is the
    induction over any number of batches. *)

From Coq Require Import List Arith Bool Lia PeanoNat.
From Corgi Require Import Lib.OptionMonad Model.Scalar Model.Arr Model.SlicedOp Model.Elementwise
     Model.Linalg Model.Image Model.Ops
     Model.Engine Model.Program
     Proofs.ArrFacts Proofs.EngineDefs Proofs.EngineBase Proofs.EngineInv Proofs.AdjointSpec
     Proofs.EngineValue Proofs.OpsWf Proofs.OptimSpec Proofs.HistoryInv Proofs.ValueConcrete.
From Corgi Require Proofs.PassTheorems Proofs.Ownership.
Import ListNotations.

Section TrainLoop.
  Context {F : Type} (O : ScalarOps F).

  Local Notation state := (@Program.state F).
  Local Notation gnode := (@Program.gnode F).
  Local Notation pay := (@Program.pay F).
  Local Notation E := (Program.E O).

  (** * The invariants *)

  Definition leaf_node (nd : gnode) : Prop := n_children nd = [] /\ p_bop (n_pay nd) = None.

  Definition param_leaf (s : state) (h : handle) : Prop :=
    e_tracked h = true /\ e_keep h = true /\
    exists nd, h_node s h = Some nd /\ leaf_node nd.

  Definition armed (s : state) : Prop :=
    good s /\
    (forall h, In h (model_params s) -> param_leaf s h) /\
    NoDup (map e_node (model_params s)).

  Definition grads_empty (s : state) : Prop :=
    forall h, In h (model_params s) -> grad_of s h = None.

  Definition ready (s : state) : Prop := armed s /\ grads_empty s.

  (** [ready], spelled out as one statement *)
  Lemma ready_spelled : forall s,
      ready s <->
      (good s /\
       (forall h, In h (model_params s) ->
          e_tracked h = true /\ e_keep h = true /\
          exists nd, h_node s h = Some nd /\ n_children nd = [] /\ p_bop (n_pay nd) = None /\
                     n_grad nd = None) /\
       NoDup (map e_node (model_params s))).
  Proof.
    intro s. unfold ready, armed, grads_empty, param_leaf, leaf_node. split.
    - intros ((Hg & Hp & Hnd) & He). split; [exact Hg |]. split; [| exact Hnd].
      intros h Hh. destruct (Hp h Hh) as (Ht & Hk & nd & Hn & Hc & Hb).
      split; [exact Ht |]. split; [exact Hk |]. exists nd. repeat (split; [assumption |]).
      specialize (He h Hh). unfold grad_of in He. rewrite Hn in He. exact He.
    - intros (Hg & Hp & Hnd). split; [split; [exact Hg | split; [| exact Hnd]] |].
      + intros h Hh. destruct (Hp h Hh) as (Ht & Hk & nd & Hn & Hc & Hb & _).
        split; [exact Ht |]. split; [exact Hk |]. exists nd. tauto.
      + intros h Hh. destruct (Hp h Hh) as (_ & _ & nd & Hn & _ & _ & Hgr).
        unfold grad_of. rewrite Hn. exact Hgr.
  Qed.

  (** ** transfer along a change of state that keeps layers and the parameters' skeleton *)

  Definition keeps_skel (s s' : state) : Prop :=
    forall h nd, In h (model_params s) -> h_node s h = Some nd ->
                 exists nd', h_node s' h = Some nd' /\ n_pay nd' = n_pay nd /\
                             n_children nd' = n_children nd.

  Definition keeps_nodes (s s' : state) : Prop :=
    forall h, In h (model_params s) -> h_node s' h = h_node s h.

  Lemma keeps_nodes_skel : forall s s', keeps_nodes s s' -> keeps_skel s s'.
  Proof.
    intros s s' H h nd Hh Hn. exists nd. rewrite (H h Hh). auto.
  Qed.

  Lemma model_params_layers : forall s s' : state,
      st_layers s' = st_layers s -> model_params s' = model_params s.
  Proof. intros s s' H. unfold model_params. rewrite H. reflexivity. Qed.

  Lemma armed_transfer : forall s s',
      armed s -> good s' -> st_layers s' = st_layers s -> keeps_skel s s' -> armed s'.
  Proof.
    intros s s' (_ & Hp & Hnd) Hg' Hl Hk.
    rewrite <- (model_params_layers s s' Hl) in Hp, Hnd.
    split; [exact Hg' |]. split; [| exact Hnd].
    intros h Hh. destruct (Hp h Hh) as (Ht & Hkp & nd & Hn & Hc & Hb).
    rewrite (model_params_layers s s' Hl) in Hh.
    destruct (Hk h nd Hh Hn) as (nd' & Hn' & Hpay & Hch).
    split; [exact Ht |]. split; [exact Hkp |]. exists nd'. split; [exact Hn' |].
    split; [rewrite Hch; exact Hc | rewrite Hpay; exact Hb].
  Qed.

  Lemma ready_transfer : forall s s',
      ready s -> good s' -> st_layers s' = st_layers s -> keeps_nodes s s' -> ready s'.
  Proof.
    intros s s' (Ha & He) Hg' Hl Hk. split.
    - apply (armed_transfer s s' Ha Hg' Hl). apply keeps_nodes_skel. exact Hk.
    - intros h Hh. rewrite (model_params_layers s s' Hl) in Hh.
      unfold grad_of. rewrite (Hk h Hh). apply (He h Hh).
  Qed.

  Lemma model_params_valid : forall s : state,
      rvalid s -> forall h, In h (model_params s) -> hvalid (st_nodes s) h.
  Proof.
    intros s Hr h Hh. unfold model_params in Hh. apply in_flat_map in Hh.
    destruct Hh as (l & Hl & Hh). destruct (rvalid_layers s l Hr Hl) as [Ha Hb].
    destruct Hh as [Hh | [Hh | []]]; subst h; assumption.
  Qed.

  Lemma ext_keeps_nodes : forall s s', rvalid s -> ext s s' -> keeps_nodes s s'.
  Proof.
    intros s s' Hr Hx h Hh. unfold h_node. apply ext_old; [exact Hx |].
    apply (model_params_valid s Hr h Hh).
  Qed.

  (** * [Model::forward] *)

  Lemma model_forward_inv : forall s x s1 out,
      good s -> hvalid (st_nodes s) x ->
      model_forward O s x = Some (s1, out) ->
      exists s1', ext s s1' /\ s1 = with_output s1' (Some out) /\
                  store_good (st_nodes s1') /\ hvalid (st_nodes s1') out /\ good s1.
  Proof.
    intros s x s1 out [Hg Hr] Hx H. unfold model_forward in H.
    apply obind_some in H. destruct H as ([s2 out2] & Hfold & H).
    injection H as H1 H2. subst s1 out2.
    pose proof (fold_layers_post O (st_layers s) s x s2 out Hg Hx
                                 (fun l Hl => rvalid_layers s l Hr Hl) Hfold) as Hp.
    destruct Hp as (Hxx & Hg2 & Hh2). cbn [fst snd] in *.
    exists s2. split; [exact Hxx |]. split; [reflexivity |]. split; [exact Hg2 |].
    split; [exact Hh2 |].
    destruct (ext_fields s s2 Hxx) as (Hpool & Hlay & _ & _ & _ & _).
    split; [exact Hg2 |].
    apply rvalid_intro; cbn [with_output st_nodes st_pool st_layers st_output].
    - intros h0 Hh0. rewrite Hpool in Hh0.
      eapply hvalid_ext; [exact Hxx | eapply rvalid_pool; eassumption].
    - intros l0 Hl0. rewrite Hlay in Hl0.
      destruct (rvalid_layers s l0 Hr Hl0) as [Ha Hb]. split; eapply hvalid_ext; eassumption.
    - intros h0 Hh0. injection Hh0 as Hh0. subst h0. exact Hh2.
  Qed.

  Theorem model_forward_armed : forall s x s1 out,
      armed s -> hvalid (st_nodes s) x ->
      model_forward O s x = Some (s1, out) ->
      armed s1 /\ (ready s -> ready s1) /\
      st_output s1 = Some out /\ hvalid (st_nodes s1) out /\
      st_layers s1 = st_layers s /\ st_cost s1 = st_cost s /\ st_lr s1 = st_lr s /\
      st_pool s1 = st_pool s /\
      length (st_nodes s) <= length (st_nodes s1) /\
      (forall id, id < length (st_nodes s) ->
                  nth_error (st_nodes s1) id = nth_error (st_nodes s) id).
  Proof.
    intros s x s1 out Ha Hx H. pose proof Ha as (Hgd & _).
    destruct (model_forward_inv s x s1 out Hgd Hx H) as (s1' & Hxx & Hs1 & Hg1 & Ho & Hgd1).
    destruct (ext_fields s s1' Hxx) as (Hpool & Hlay & Hcost & Hlr & _ & _).
    assert (Hl : st_layers s1 = st_layers s) by (subst s1; exact Hlay).
    assert (Hk : keeps_nodes s s1).
    { subst s1. intros h Hh. unfold h_node. cbn [with_output st_nodes].
      apply (ext_keeps_nodes s s1' (proj2 Hgd) Hxx h Hh). }
    split; [apply (armed_transfer s s1 Ha Hgd1 Hl); apply keeps_nodes_skel; exact Hk |].
    split; [intro Hr; apply (ready_transfer s s1 Hr Hgd1 Hl Hk) |].
    subst s1. cbn [with_output st_nodes st_pool st_layers st_output st_cost st_lr].
    split; [reflexivity |]. split; [exact Ho |]. split; [exact Hlay |].
    split; [exact Hcost |]. split; [exact Hlr |]. split; [exact Hpool |].
    split; [apply ext_len; exact Hxx |].
    intros id Hid. apply ext_old; assumption.
  Qed.

  (** * [Model::backward] *)

  (** the pieces of a successful [model_backward]: the cost node is built from the current
      output and the target, ONE pass is run on it with the default (all-ones) seed, the
      returned loss is the sum of the cost array *)
  Lemma model_backward_inv : forall s1 t s2 loss,
      good s1 -> hvalid (st_nodes s1) t ->
      model_backward O s1 t = Some (s2, loss) ->
      exists out sc err ndr g' log,
        st_output s1 = Some out /\
        cost_apply O s1 (st_cost s1) out t = Some (sc, err) /\
        ext s1 sc /\ store_good (st_nodes sc) /\
        nth_error (st_nodes sc) (e_node err) = Some ndr /\
        loss = a_sum_all O (pay_arr (n_pay ndr)) /\
        run_backward E (st_nodes sc) (e_node err) (e_keep err) None = Some (g', log) /\
        s2 = with_nodes sc g' /\
        length g' = length (st_nodes sc) /\ store_good g' /\ good s2 /\
        (forall id nd nd', nth_error (st_nodes sc) id = Some nd -> nth_error g' id = Some nd' ->
                           n_pay nd' = n_pay nd /\ n_children nd' = n_children nd).
  Proof.
    intros s1 t s2 loss Hgd Ht H. pose proof Hgd as [Hg Hr]. unfold model_backward in H.
    apply obind_some in H. destruct H as (out & Hout & H).
    apply obind_some in H. destruct H as ([sc err] & Hcost & H).
    apply obind_some in H. destruct H as ([g' log] & Hrun & H).
    apply obind_some in H. destruct H as (ea & Hea & H).
    injection H as H1 H2. subst s2 loss. cbn [fst] in *.
    pose proof (cost_apply_post O s1 (st_cost s1) out t _ Hg (rvalid_output s1 out Hr Hout) Ht Hcost)
      as (Hxx & Hgc & Hherr). cbn [fst snd] in *.
    apply h_arr_inv in Hea. destruct Hea as (ndr & Hndr & Hea). subst ea.
    assert (Hseed : forall (sd : arr F) (nd : gnode), @None (arr F) = Some sd ->
                      nth_error (st_nodes sc) (e_node err) = Some nd -> grad_ok (n_pay nd) sd)
      by (intros sd nd Hsd; discriminate Hsd).
    destruct (pass_good O (st_nodes sc) (e_node err) (e_keep err) None g' log Hgc Hherr Hseed Hrun)
      as [Hg' Hl'].
    destruct (pass_spec E (st_nodes sc) (e_node err) (e_keep err) None g' log
                        (store_good_wfg O _ Hgc) (store_good_clean _ Hgc)
                        (store_good_contract O _ Hgc) Hherr Hrun) as (_ & _ & Hskel & _).
    exists out, sc, err, ndr, g', log.
    split; [exact Hout |]. split; [exact Hcost |]. split; [exact Hxx |]. split; [exact Hgc |].
    split; [exact Hndr |]. split; [reflexivity |]. split; [exact Hrun |]. split; [reflexivity |].
    split; [exact Hl' |]. split; [exact Hg' |]. split; [| exact Hskel].
    apply good_with_nodes; [| exact Hg' | exact Hl'].
    split; [exact Hgc | eapply rvalid_ext; eassumption].
  Qed.

  Theorem model_backward_armed : forall s1 t s2 loss,
      armed s1 -> hvalid (st_nodes s1) t ->
      model_backward O s1 t = Some (s2, loss) ->
      armed s2 /\ st_layers s2 = st_layers s1 /\ st_output s2 = st_output s1 /\
      st_cost s2 = st_cost s1 /\ st_lr s2 = st_lr s1 /\ st_pool s2 = st_pool s1 /\
      length (st_nodes s1) <= length (st_nodes s2).
  Proof.
    intros s1 t s2 loss Ha Ht H. pose proof Ha as (Hgd & _).
    destruct (model_backward_inv s1 t s2 loss Hgd Ht H)
      as (out & sc & err & ndr & g' & log & Hout & Hcost & Hxx & Hgc & Hndr & Hloss & Hrun & Hs2
          & Hl' & Hg' & Hgd2 & Hskel).
    destruct (ext_fields s1 sc Hxx) as (Hpool & Hlay & Hco & Hlr & Hoo & _).
    assert (Hl : st_layers s2 = st_layers s1) by (subst s2; exact Hlay).
    split.
    - apply (armed_transfer s1 s2 Ha Hgd2 Hl).
      intros h nd Hh Hn.
      pose proof (ext_keeps_nodes s1 sc (proj2 Hgd) Hxx h Hh) as Hsame.
      rewrite <- Hsame in Hn. unfold h_node in *. subst s2. cbn [with_nodes st_nodes].
      destruct (nth_error g' (e_node h)) as [nd'|] eqn:Hn'.
      + exists nd'. split; [exact Hn' |]. apply (Hskel _ nd nd' Hn Hn').
      + apply nth_error_None in Hn'. assert (e_node h < length (st_nodes sc))
          by (apply nth_error_Some; rewrite Hn; discriminate). nlia.
    - subst s2. cbn [with_nodes st_nodes st_layers st_output st_cost st_lr st_pool].
      repeat (split; [assumption |]). pose proof (ext_len s1 sc Hxx) as Hle. nlia.
  Qed.

  (** * [Model::update] *)

  Lemma model_update_good : forall s s', good s -> model_update O s = Some s' -> good s'.
  Proof.
    intros s s' [Hg Hr] Hmu. unfold model_update in Hmu.
    apply obind_some in Hmu. destruct Hmu as ([s2 hs] & Hgu & Hmu). injection Hmu as Hmu. subst s'.
    destruct (gd_update_good O s (st_lr s) (model_params s) s2 hs Hg (model_params_valid s Hr) Hgu)
      as (Hg2 & Hgr2 & Hhs).
    destruct Hgr2 as (Hlen & Hpool & Hlay & Hout).
    split; [exact Hg2 |].
    apply rvalid_intro; cbn [with_layers st_nodes st_pool st_layers st_output].
    - intros h0 Hh0. rewrite Hpool in Hh0.
      pose proof (rvalid_pool s h0 Hr Hh0) as Hv. unfold hvalid in *. nlia.
    - apply rebuild_valid; [| exact Hhs].
      intros l0 Hl0. rewrite Hlay in Hl0. destruct (rvalid_layers s l0 Hr Hl0) as [Ha Hb].
      unfold lvalid, hvalid in *. split; nlia.
    - intros h0 Hh0. rewrite Hout in Hh0.
      pose proof (rvalid_output s h0 Hr Hh0) as Hv. unfold hvalid in *. nlia.
  Qed.

  (** the hypotheses of [model_update_spec] follow from [armed] *)
  Lemma NoDup_map_filter : forall {A B} (f : A -> B) (p : A -> bool) (l : list A),
      NoDup (map f l) -> NoDup (map f (filter p l)).
  Proof.
    intros A B f p l. induction l as [|x l IH]; intros H; simpl; [constructor |].
    inversion H as [|? ? Hnin Hnd]; subst. destruct (p x); simpl.
    - constructor; [| apply IH; exact Hnd].
      intro Hin. apply Hnin. apply in_map_iff in Hin. destruct Hin as (y & Hy & Hin).
      apply filter_In in Hin. rewrite <- Hy. apply in_map. apply Hin.
    - apply IH. exact Hnd.
  Qed.

  Lemma armed_gd_pre : forall s,
      armed s ->
      NoDup (map e_node (unfrozen s (model_params s))) /\ gd_pre s (model_params s).
  Proof.
    intros s ((Hg & Hr) & Hp & Hnd). split.
    - apply unfrozen_nodup.
    - intros h p g Hh Hparr Hgr.
      apply h_arr_some in Hparr. destruct Hparr as (nd & Hn & ->).
      apply grad_of_some in Hgr. destruct Hgr as (nd' & Hn' & Hgr).
      assert (nd' = nd) by congruence. subst nd'.
      destruct (Hg _ nd Hn) as (_ & _ & _ & _ & Hw & Hgok).
      destruct (Hgok g Hgr) as [[_ Hwg] Hdg]. split; [exact Hw |].
      destruct Hw as [_ Hwp]. cbn [pay_arr dims vals] in *. rewrite <- Hwg, <- Hwp, Hdg. reflexivity.
  Qed.

  (** ids of the returned handles: old ids of the frozen parameters, fresh ids otherwise *)
  Lemma gd_out_f_ids : forall (pf : list (handle * bool)) b0 b,
      (forall p, In p pf -> e_node (fst p) < b0) -> b0 <= b ->
      NoDup (map e_node (map fst pf)) ->
      NoDup (map e_node (gd_out_f b pf)) /\
      forall j, In j (map e_node (gd_out_f b pf)) -> In j (map e_node (map fst pf)) \/ b <= j.
  Proof.
    intros pf b0. induction pf as [|[h fb] pf IH]; intros b Hlt Hb Hnd.
    - simpl. split; [constructor | intros j []].
    - cbn [map fst] in Hnd. inversion Hnd as [|? ? Hnin Hnd']; subst.
      assert (Hlt' : forall p, In p pf -> e_node (fst p) < b0) by (intros p Hp; apply Hlt; right; exact Hp).
      assert (Hh : e_node h < b0) by (apply (Hlt (h, fb)); left; reflexivity).
      destruct fb; cbn [gd_out_f map fst e_node mkh].
      + destruct (IH b Hlt' Hb Hnd') as [IH1 IH2]. split.
        * constructor; [| exact IH1]. intro Hin. destruct (IH2 _ Hin) as [Hin' | Hge].
          -- apply Hnin. exact Hin'.
          -- lia.
        * intros j [Hj | Hj]; [left; left; exact Hj |]. destruct (IH2 j Hj) as [Hin | Hge].
          -- left. right. exact Hin.
          -- right. exact Hge.
      + destruct (IH (S b) Hlt' (le_S _ _ Hb) Hnd') as [IH1 IH2]. split.
        * constructor; [| exact IH1]. intro Hin. destruct (IH2 b Hin) as [Hin' | Hge]; [| lia].
          apply in_map_iff in Hin'. destruct Hin' as (h' & He & Hin').
          apply in_map_iff in Hin'. destruct Hin' as (p & Hp & Hin'). subst h'.
          specialize (Hlt' p Hin'). lia.
        * intros j [Hj | Hj]; [right; lia |]. destruct (IH2 j Hj) as [Hin | Hge].
          -- left. right. exact Hin.
          -- right. lia.
  Qed.

  (** ids of the returned handles: old ids of the frozen parameters, fresh ids otherwise *)
  Lemma gd_out_ids : forall (s : state) ps b0 b,
      (forall h, In h ps -> e_node h < b0) -> b0 <= b ->
      NoDup (map e_node ps) ->
      NoDup (map e_node (gd_out s b ps)) /\
      forall j, In j (map e_node (gd_out s b ps)) -> In j (map e_node ps) \/ b <= j.
  Proof.
    intros s ps b0 b Hlt Hb Hnd. unfold gd_out.
    assert (Hfst : map fst (flagged s ps) = ps) by (unfold flagged; apply map_fst_combine_flags).
    destruct (gd_out_f_ids (flagged s ps) b0 b) as [H1 H2]; [| exact Hb | rewrite Hfst; exact Hnd |].
    - intros p Hp. apply Hlt. rewrite <- Hfst. apply in_map. exact Hp.
    - rewrite Hfst in H2. split; assumption.
  Qed.

  (** what [model_update] does to one parameter: position [i] of the layers' parameter list *)
  Definition updated_param (s2 s3 : state) (i : nat) (h : handle) (nd2 : gnode) : Prop :=
    match n_grad nd2 with
    | None =>
      (* not reached by the pass: the handle and its node are unchanged *)
      nth_error (model_params s3) i = Some h /\ h_node s3 h = Some nd2
    | Some g =>
      (* one step along [g], in a fresh tracked leaf; the old node only loses its slot *)
      exists h3,
        nth_error (model_params s3) i = Some h3 /\
        length (st_nodes s2) <= e_node h3 /\ e_tracked h3 = true /\ e_keep h3 = true /\
        h_node s3 h3 =
        Some {| n_pay := {| p_dims := p_dims (n_pay nd2);
                            p_vals := map2 (fun x gx => fsub O x (fmul O (st_lr s2) gx))
                                           (p_vals (n_pay nd2)) (vals g);
                            p_bop := None; p_buf := e_node h3; p_tag := st_tag s2 |};
                n_children := []; n_count := 0; n_delta := None; n_grad := None |} /\
        h_node s3 h = Some (set_grad nd2 None)
    end.

  Theorem model_update_ready : forall s2 s3,
      armed s2 -> model_update O s2 = Some s3 ->
      ready s3 /\
      st_pool s3 = st_pool s2 /\ st_cost s3 = st_cost s2 /\ st_lr s3 = st_lr s2 /\
      st_output s3 = st_output s2 /\
      length (model_params s3) = length (model_params s2) /\
      length (st_layers s3) = length (st_layers s2) /\
      (forall i h nd2, nth_error (model_params s2) i = Some h -> h_node s2 h = Some nd2 ->
                       updated_param s2 s3 i h nd2) /\
      (* every old node keeps everything but, for the stepped parameters, its gradient *)
      (forall j nd, nth_error (st_nodes s2) j = Some nd ->
                    exists nd', nth_error (st_nodes s3) j = Some nd' /\
                                n_pay nd' = n_pay nd /\ n_children nd' = n_children nd /\
                                (n_grad nd' = n_grad nd \/ n_grad nd' = None)).
  Proof.
    intros s2 s3 Ha Hmu. pose proof Ha as (Hgd & Hp & Hnd).
    destruct (armed_gd_pre s2 Ha) as [HndU Hpre].
    destruct (model_update_spec O s2 Hpre)
      as (s2u & out & Hup & Hpost & Hmu' & Hparams & Hlenl & _).
    rewrite Hmu in Hmu'. injection Hmu' as Hs3.
    pose proof Hpost as ((P1 & P2 & P3 & P4 & P5 & P6) & Hlen & Hlen' & Hfro & Hunf & Hclr & Hoth).
    assert (Hnodes3 : st_nodes s3 = st_nodes s2u) by (subst s3; reflexivity).
    assert (Hpar3 : model_params s3 = out) by (subst s3; exact Hparams).
    (* the outputs, position by position *)
    assert (Hpos : forall i h nd2, nth_error (model_params s2) i = Some h -> h_node s2 h = Some nd2 ->
                                   updated_param s2 s3 i h nd2).
    { intros i h nd2 Hi Hn. unfold updated_param. rewrite Hpar3. unfold h_node. rewrite Hnodes3.
      destruct (n_grad nd2) as [g|] eqn:Hg.
      - assert (Hgo : grad_of s2 h = Some g) by (apply grad_of_some; eauto).
        assert (Harr : h_arr s2 h = Some (pay_arr (n_pay nd2))) by (apply h_arr_some; eauto).
        destruct (Hunf i h _ g Hi Harr Hgo (nodup_first_occ e_node _ i h Hnd Hi)) as (Ho & Hnew).
        cbv zeta in Ho, Hnew.
        eexists. split; [exact Ho |]. cbn [e_node e_tracked e_keep mkh].
        split; [lia |]. split; [reflexivity |]. split; [reflexivity |].
        split; [exact Hnew |].
        apply (Hclr h nd2); [| exact Hn]. rewrite (unfrozen_nodup_eq s2 _ Hnd). apply filter_In.
        split; [eapply nth_error_In; exact Hi | unfold has_grad; rewrite Hgo; reflexivity].
      - assert (Hgo : grad_of s2 h = None) by (unfold grad_of; rewrite Hn; exact Hg).
        destruct (Hfro i h Hi Hgo) as (Ho & Hsame). split; [exact Ho |]. apply Hsame. exact Hn. }
    assert (Hgd3 : good s3) by (apply (model_update_good s2 s3 Hgd Hmu)).
    split; [| split; [subst s3; exact P1 | split; [subst s3; exact P3 | split; [subst s3; exact P4 |
              split; [subst s3; exact P5 | split; [rewrite Hpar3; exact Hlen |
              split; [subst s3; exact Hlenl | split; [exact Hpos |]]]]]]]].
    - (* ready *)
      assert (Hall : forall h3, In h3 out ->
                 param_leaf s3 h3 /\ grad_of s3 h3 = None).
      { intros h3 Hin. apply In_nth_error in Hin. destruct Hin as (i & Hi).
        assert (Hil : i < length (model_params s2)).
        { rewrite <- Hlen. apply nth_error_Some. rewrite Hi. discriminate. }
        destruct (nth_error (model_params s2) i) as [h|] eqn:Hh;
          [| apply nth_error_None in Hh; lia].
        assert (Hinh : In h (model_params s2)) by (eapply nth_error_In; exact Hh).
        destruct (Hp h Hinh) as (Ht & Hk & nd2 & Hn & Hc & Hb).
        pose proof (Hpos i h nd2 Hh Hn) as Hu. unfold updated_param in Hu. rewrite Hpar3 in Hu.
        destruct (n_grad nd2) as [g|] eqn:Hg.
        - destruct Hu as (h3' & Ho & _ & Ht3 & Hk3 & Hn3 & _).
          assert (h3' = h3) by congruence. subst h3'.
          split.
          + split; [exact Ht3 |]. split; [exact Hk3 |]. eexists. split; [exact Hn3 |].
            split; reflexivity.
          + unfold grad_of. rewrite Hn3. reflexivity.
        - destruct Hu as (Ho & Hn3). assert (h3 = h) by congruence. subst h3.
          split.
          + split; [exact Ht |]. split; [exact Hk |]. exists nd2. split; [exact Hn3 |].
            split; assumption.
          + unfold grad_of. rewrite Hn3. exact Hg. }
      split; [split; [exact Hgd3 | split] |].
      + intros h3 Hin. rewrite Hpar3 in Hin. apply (Hall h3 Hin).
      + rewrite Hpar3.
        rewrite (gd_update_closed O s2 (st_lr s2) (model_params s2) (gd_pre_ok s2 _ Hpre)) in Hup.
        injection Hup as _ Hout. rewrite <- Hout.
        apply (gd_out_ids s2 (model_params s2) (length (st_nodes s2)) (length (st_nodes s2)));
          [| apply le_n | exact Hnd].
        intros h Hh. apply (model_params_valid s2 (proj2 Hgd) h Hh).
      + intros h3 Hin. rewrite Hpar3 in Hin. apply (Hall h3 Hin).
    - (* old nodes *)
      intros j nd Hj. rewrite Hnodes3.
      destruct (in_dec Nat.eq_dec j (map e_node (unfrozen s2 (model_params s2)))) as [Hin | Hnin].
      + apply in_map_iff in Hin. destruct Hin as (h & He & Hin). subst j.
        exists (set_grad nd None). split; [apply (Hclr h nd Hin Hj) |].
        cbn [set_grad n_pay n_children n_grad]. auto.
      + exists nd. split; [apply (Hoth j nd Hj Hnin) |]. auto.
  Qed.

  (** * What the pass deposits in the parameter slots (needs the ring laws: the adjoint
      table is order independent) *)

  Section Slots.
    Hypothesis R : Sums.is_cring O.
    Local Notation E' := (ValueConcrete.E' O).

    (** the pass of [model_backward], as a pass of the concrete engine on the store [g]
        that contains the cost node [r]: each leaf slot receives exactly the entry of the
        adjoint table of THIS pass (root = the cost node, seed = all ones), accumulated
        onto what the slot held before *)
    Lemma pass_leaf_slots : forall (g : list gnode) r keep ndr g' log,
        store_good g -> nth_error g r = Some ndr ->
        run_backward E g r keep None = Some (g', log) ->
        exists tab,
          adjoints E' g r (eo_ones E (n_pay ndr)) = Some tab /\ length tab = length g /\
          forall id nd nd', nth_error g id = Some nd -> nth_error g' id = Some nd' ->
                            n_children nd = [] ->
                            PassTheorems.stored_opt E' (n_grad nd) (nth id tab None) (n_grad nd').
    Proof.
      intros g r keep ndr g' log Hg Hndr Hrun.
      assert (Hr : r < length g) by (apply nth_error_Some; rewrite Hndr; discriminate).
      assert (Hseed : seed_of E g r None = Some (eo_ones E (n_pay ndr))).
      { pose proof Hndr as Hndr'. unfold Program.gnode in Hndr'. unfold seed_of. rewrite Hndr'. reflexivity. }
      destruct (pass_value_concrete O R g r keep None _ ndr g' log Hg Hr Hndr Hseed)
        as (_ & _ & tab & Htab & Hlen & _ & _ & _ & _ & Hany & Hleaf & _).
      - intros sd Hsd. discriminate Hsd.
      - exact Hrun.
      - exists tab. split; [exact Htab |]. split; [exact Hlen |].
        intros id nd nd' Hn Hn' Hch. unfold PassTheorems.stored_opt.
        assert (Hid : id < length tab).
        { rewrite Hlen. apply nth_error_Some. rewrite Hn. discriminate. }
        destruct (nth_error tab id) as [x|] eqn:Hx; [| apply nth_error_None in Hx; lia].
        rewrite (nth_error_nth tab id None Hx).
        destruct x as [delta|].
        + apply (Hleaf id nd nd' delta Hn Hn' Hx Hch).
        + destruct (Hany id nd nd' Hn Hn') as [Hsame | (delta & Hd & _)]; [exact Hsame |].
          rewrite Hx in Hd. discriminate Hd.
    Qed.

    Theorem model_backward_slots : forall s1 t s2 loss,
        armed s1 -> hvalid (st_nodes s1) t ->
        model_backward O s1 t = Some (s2, loss) ->
        exists out sc err ndr g' log tab,
          (* the cost node is built from the current output and the target *)
          st_output s1 = Some out /\
          cost_apply O s1 (st_cost s1) out t = Some (sc, err) /\
          ext s1 sc /\ store_good (st_nodes sc) /\
          nth_error (st_nodes sc) (e_node err) = Some ndr /\
          (* the returned loss is the sum of the cost array *)
          loss = a_sum_all O (pay_arr (n_pay ndr)) /\
          (* one pass, default seed *)
          run_backward E (st_nodes sc) (e_node err) (e_keep err) None = Some (g', log) /\
          s2 = with_nodes sc g' /\
          (* its adjoint table *)
          adjoints E' (st_nodes sc) (e_node err) (eo_ones E (n_pay ndr)) = Some tab /\
          length tab = length (st_nodes sc) /\
          (* every parameter slot accumulates its entry of that table *)
          forall h nd1, In h (model_params s1) -> h_node s1 h = Some nd1 ->
            exists nd2, h_node s2 h = Some nd2 /\ n_pay nd2 = n_pay nd1 /\ n_children nd2 = [] /\
                        PassTheorems.stored_opt E' (n_grad nd1) (nth (e_node h) tab None)
                                                (n_grad nd2).
    Proof.
      intros s1 t s2 loss Ha Ht H. pose proof Ha as (Hgd & Hp & _).
      destruct (model_backward_inv s1 t s2 loss Hgd Ht H)
        as (out & sc & err & ndr & g' & log & Hout & Hcost & Hxx & Hgc & Hndr & Hloss & Hrun & Hs2
            & Hl' & Hg' & Hgd2 & Hskel).
      destruct (pass_leaf_slots (st_nodes sc) (e_node err) (e_keep err) ndr g' log Hgc Hndr Hrun)
        as (tab & Htab & Hlen & Hleaf).
      exists out, sc, err, ndr, g', log, tab.
      repeat (split; [assumption |]).
      intros h nd1 Hh Hn1.
      destruct (Hp h Hh) as (_ & _ & nd & Hn & Hc & _).
      assert (nd = nd1) by congruence. subst nd.
      pose proof (ext_keeps_nodes s1 sc (proj2 Hgd) Hxx h Hh) as Hsame.
      rewrite <- Hsame in Hn1. unfold h_node in *. subst s2. cbn [with_nodes st_nodes].
      destruct (nth_error g' (e_node h)) as [nd2|] eqn:Hn2.
      - exists nd2. split; [exact Hn2 |].
        destruct (Hskel _ nd1 nd2 Hn1 Hn2) as [Hpay Hch].
        split; [exact Hpay |]. split; [rewrite Hch; exact Hc |].
        apply (Hleaf _ nd1 nd2 Hn1 Hn2 Hc).
      - apply nth_error_None in Hn2. assert (e_node h < length (st_nodes sc))
          by (apply nth_error_Some; rewrite Hn1; discriminate). nlia.
    Qed.

    (** * One iteration *)

    (** From a [ready] state: forward on a batch, one backward against a target, one update.
        (a) the returned loss is the sum of the cost array built from the CURRENT output;
        (b) every parameter is stepped, element-wise, by [theta - lr * g] where [g] is exactly
            the entry of the adjoint table of this iteration's single pass on the cost node
            (the slot was empty before the pass), or is left alone if the pass did not reach it;
        (c) the resulting state is [ready] again. *)
    Theorem train_iteration : forall s x s1 out t s2 loss s3,
        ready s -> hvalid (st_nodes s) x ->
        model_forward O s x = Some (s1, out) ->
        hvalid (st_nodes s1) t ->
        model_backward O s1 t = Some (s2, loss) ->
        model_update O s2 = Some s3 ->
        exists sc err ndr g' log tab,
          (* (a) *)
          st_output s1 = Some out /\
          cost_apply O s1 (st_cost s) out t = Some (sc, err) /\
          nth_error (st_nodes sc) (e_node err) = Some ndr /\
          loss = a_sum_all O (pay_arr (n_pay ndr)) /\
          (* the single pass and its table *)
          store_good (st_nodes sc) /\
          (forall h, In h (model_params s) -> h_node sc h = h_node s h) /\
          run_backward E (st_nodes sc) (e_node err) (e_keep err) None = Some (g', log) /\
          s2 = with_nodes sc g' /\
          adjoints E' (st_nodes sc) (e_node err) (eo_ones E (n_pay ndr)) = Some tab /\
          (* (b) *)
          length (model_params s3) = length (model_params s) /\
          (forall i h nd, nth_error (model_params s) i = Some h -> h_node s h = Some nd ->
             exists nd2, h_node s2 h = Some nd2 /\ n_pay nd2 = n_pay nd /\
                         n_grad nd2 = nth (e_node h) tab None /\
                         updated_param s2 s3 i h nd2) /\
          st_lr s2 = st_lr s /\
          (* (c) *)
          ready s3.
    Proof.
      intros s x s1 out t s2 loss s3 Hr Hx Hf Ht Hb Hu. pose proof Hr as (Ha & He).
      destruct (model_forward_armed s x s1 out Ha Hx Hf)
        as (Ha1 & Hr1 & Hout1 & Hvout & Hlay1 & Hcost1 & Hlr1 & Hpool1 & Hlen1 & Hold1).
      specialize (Hr1 Hr). destruct Hr1 as (_ & He1).
      destruct (model_backward_slots s1 t s2 loss Ha1 Ht Hb)
        as (out' & sc & err & ndr & g' & log & tab & Hout & Hcost & Hxx & Hgc & Hndr & Hloss & Hrun
            & Hs2 & Htab & Hlen & Hslots).
      assert (out' = out) by congruence. subst out'.
      destruct (model_backward_armed s1 t s2 loss Ha1 Ht Hb)
        as (Ha2 & Hlay2 & Hout2 & Hcost2 & Hlr2 & Hpool2 & Hlen2).
      destruct (model_update_ready s2 s3 Ha2 Hu)
        as (Hr3 & Hpool3 & Hcost3 & Hlr3 & Hout3 & Hlenp & Hlenl & Hupd & Hold3).
      assert (Hpar1 : model_params s1 = model_params s) by (apply model_params_layers; exact Hlay1).
      assert (Hpar2 : model_params s2 = model_params s1) by (apply model_params_layers; exact Hlay2).
      pose proof Ha as ((_ & Hrv) & _).
      assert (Hsame1 : forall h, In h (model_params s) -> h_node s1 h = h_node s h).
      { intros h Hh. unfold h_node. apply Hold1. apply (model_params_valid s Hrv h Hh). }
      exists sc, err, ndr, g', log, tab.
      split; [exact Hout |]. split; [rewrite <- Hcost1; exact Hcost |]. split; [exact Hndr |].
      split; [exact Hloss |]. split; [exact Hgc |].
      split.
      { intros h Hh. rewrite <- (Hsame1 h Hh). rewrite <- Hpar1 in Hh.
        apply (ext_keeps_nodes s1 sc (proj2 (proj1 Ha1)) Hxx h Hh). }
      split; [exact Hrun |]. split; [exact Hs2 |]. split; [exact Htab |].
      split; [rewrite Hlenp, Hpar2, Hpar1; reflexivity |].
      split; [| split; [congruence | exact Hr3]].
      intros i h nd Hi Hn.
      assert (Hh : In h (model_params s)) by (eapply nth_error_In; exact Hi).
      assert (Hn1 : h_node s1 h = Some nd) by (rewrite (Hsame1 h Hh); exact Hn).
      assert (Hh1 : In h (model_params s1)) by (rewrite Hpar1; exact Hh).
      destruct (Hslots h nd Hh1 Hn1) as (nd2 & Hn2 & Hpay & Hch & Hst).
      exists nd2. split; [exact Hn2 |]. split; [exact Hpay |].
      assert (Hg0 : n_grad nd = None).
      { specialize (He h Hh). unfold grad_of in He. rewrite Hn in He. exact He. }
      rewrite Hg0 in Hst.
      assert (Hslot : n_grad nd2 = nth (e_node h) tab None).
      { unfold PassTheorems.stored_opt in Hst.
        destruct (nth (e_node h) tab None) as [d|]; simpl in Hst; exact Hst. }
      split; [exact Hslot |].
      apply Hupd; [rewrite Hpar2, Hpar1; exact Hi | exact Hn2].
    Qed.
  End Slots.
  (** * (L1) Model construction establishes [ready] *)

  Definition fresh_leaf (g : list gnode) (h : handle) : Prop :=
    e_tracked h = true /\ e_keep h = true /\
    exists nd, nth_error g (e_node h) = Some nd /\ leaf_node nd /\ n_grad nd = None.

  Definition wb (l : layer) : list handle := [l_w l; l_b l].

  Lemma fresh_leaf_app : forall g extra h, fresh_leaf g h -> fresh_leaf (g ++ extra) h.
  Proof.
    intros g extra h (Ht & Hk & nd & Hn & Hl & Hg). split; [exact Ht |]. split; [exact Hk |].
    exists nd. split; [| tauto]. rewrite nth_error_app1; [exact Hn |].
    apply nth_error_Some. rewrite Hn. discriminate.
  Qed.

  Lemma fresh_leaf_lt : forall g h, fresh_leaf g h -> e_node h < length g.
  Proof.
    intros g h (_ & _ & nd & Hn & _). apply nth_error_Some. rewrite Hn. discriminate.
  Qed.

  Lemma NoDup_app_two : forall (l : list nat) n,
      NoDup l -> (forall x, In x l -> x < n) -> NoDup (l ++ [n; S n]).
  Proof.
    intros l n Hnd Hlt. induction l as [|x l IH]; simpl.
    - constructor; [simpl; lia |]. constructor; [simpl; tauto | constructor].
    - inversion Hnd as [|? ? Hnin Hnd']; subst. constructor.
      + intro Hin. apply in_app_or in Hin. destruct Hin as [Hin | Hin]; [contradiction |].
        assert (x < n) by (apply Hlt; left; reflexivity). simpl in Hin. lia.
      + apply IH; [exact Hnd' |]. intros y Hy. apply Hlt. right. exact Hy.
  Qed.

  (** [make_layer] appends two leaves without gradient and returns tracked handles to them *)
  Lemma make_layer_fresh : forall (s : state) l s' ly,
      make_layer s l = Some (s', ly) ->
      exists nw nb,
        s' = with_nodes s (st_nodes s ++ [nw; nb]) /\
        leaf_node nw /\ n_grad nw = None /\ leaf_node nb /\ n_grad nb = None /\
        l_w ly = mkh (length (st_nodes s)) true true /\
        l_b ly = mkh (S (length (st_nodes s))) true true.
  Proof.
    intros s l s' ly H.
    assert (Hgen : forall (wa ba : arr F) conv a,
               (let '(s1, hw) := alloc s wa [] None None in
                let '(s2, hb) := alloc s1 ba [] None None in
                Some (s2, {| l_conv := conv; l_act := a;
                             l_w := mkh (e_node hw) true true; l_b := mkh (e_node hb) true true |}))
               = Some (s', ly) ->
               exists nw nb,
                 s' = with_nodes s (st_nodes s ++ [nw; nb]) /\
                 leaf_node nw /\ n_grad nw = None /\ leaf_node nb /\ n_grad nb = None /\
                 l_w ly = mkh (length (st_nodes s)) true true /\
                 l_b ly = mkh (S (length (st_nodes s))) true true).
    { intros wa ba conv a H0. unfold alloc in H0. cbn [st_nodes with_nodes e_node mkh] in H0.
      injection H0 as H1 H2. subst s' ly. eexists. eexists.
      split; [unfold with_nodes; cbn [st_nodes st_pool st_layers st_cost st_lr st_output st_tag];
              rewrite <- app_assoc; reflexivity |].
      cbn [l_w l_b]. rewrite app_length. cbn [length]. rewrite Nat.add_1_r.
      unfold leaf_node. cbn [n_children n_pay p_bop n_grad]. repeat split. }
    destruct l as [nin nout a w b | count depth fr fc sr sc a f b]; cbn [make_layer] in H.
    - apply obind_some in H. destruct H as (wa & _ & H).
      apply obind_some in H. destruct H as (ba & _ & H). eapply Hgen. exact H.
    - apply obind_some in H. destruct H as (fa & _ & H).
      apply obind_some in H. destruct H as (ba & _ & H). eapply Hgen. exact H.
  Qed.

  Lemma fold_make_layers_fresh : forall ls (s : state) out s1 layers,
      (forall h, In h (flat_map wb out) -> fresh_leaf (st_nodes s) h) ->
      NoDup (map e_node (flat_map wb out)) ->
      fold_left (fun (acc : option (state * list layer)) (l : layer_spec) =>
                   st <- acc ;;
                   let '(s', out) := st in
                   r <- make_layer s' l ;;
                   let '(s'', ly) := r in Some (s'', out ++ [ly]))
                ls (Some (s, out)) = Some (s1, layers) ->
      (forall h, In h (flat_map wb layers) -> fresh_leaf (st_nodes s1) h) /\
      NoDup (map e_node (flat_map wb layers)).
  Proof.
    intro ls. induction ls as [|l ls IH]; intros s out s1 layers Hf Hnd H.
    - injection H as H1 H2. subst s1 layers. split; assumption.
    - cbn [fold_left obind] in H.
      destruct (make_layer s l) as [[s2 ly]|] eqn:Hm; cbn [obind] in H;
        [| rewrite fold_left_none in H by (intro b; reflexivity); discriminate H].
      destruct (make_layer_fresh s l s2 ly Hm)
        as (nw & nb & Hs2 & Hlw & Hgw & Hlb & Hgb & Hw & Hb).
      apply (IH s2 (out ++ [ly]) s1 layers); [| | exact H].
      + intros h Hh. rewrite flat_map_app in Hh. subst s2. cbn [st_nodes with_nodes].
        apply in_app_or in Hh. destruct Hh as [Hh | Hh].
        * apply fresh_leaf_app. apply Hf. exact Hh.
        * simpl in Hh. destruct Hh as [Hh | [Hh | []]]; subst h.
          -- rewrite Hw. split; [reflexivity |]. split; [reflexivity |]. exists nw.
             cbn [e_node mkh]. split; [| tauto].
             rewrite nth_error_app2 by apply le_n. rewrite Nat.sub_diag. reflexivity.
          -- rewrite Hb. split; [reflexivity |]. split; [reflexivity |]. exists nb.
             cbn [e_node mkh]. split; [| tauto].
             rewrite nth_error_app2 by lia.
             replace (S (length (st_nodes s)) - length (st_nodes s)) with 1 by lia. reflexivity.
      + rewrite flat_map_app, map_app. simpl. rewrite Hw, Hb. cbn [e_node mkh].
        apply NoDup_app_two; [exact Hnd |].
        intros x Hx. apply in_map_iff in Hx. destruct Hx as (h & He & Hh). subst x.
        apply fresh_leaf_lt. apply Hf. exact Hh.
  Qed.

  Theorem model_construction_ready : forall s0 ls c lr s' o,
      good s0 -> step O s0 (IModel ls c lr) = Some (s', o) -> ready s'.
  Proof.
    intros s0 ls c lr s' o Hgd H.
    assert (Hgd' : good s') by (apply (step_good O s0 (IModel ls c lr) s' o Hgd I H)).
    unfold step in H. cbv zeta in H.
    apply obind_some in H. destruct H as ([s1 layers] & Hfold & H). injection H as H _.
    destruct (fold_make_layers_fresh ls (with_tag s0 (length (st_pool s0))) [] s1 layers) with (3 := Hfold) as (Hf & Hnd).
    { intros h []. }
    { constructor. }
    assert (Hpar : model_params s' = flat_map wb layers) by (subst s'; reflexivity).
    assert (Hnodes : st_nodes s' = st_nodes s1) by (subst s'; reflexivity).
    apply ready_spelled. split; [exact Hgd' |]. rewrite Hpar. split; [| exact Hnd].
    intros h Hh. destruct (Hf h Hh) as (Ht & Hk & nd & Hn & (Hc & Hb) & Hg).
    split; [exact Ht |]. split; [exact Hk |]. exists nd. unfold h_node. rewrite Hnodes. tauto.
  Qed.

  (** * Pool and tag changes do not matter *)

  Lemma armed_push : forall s o,
      armed s -> (forall h, o = Some h -> hvalid (st_nodes s) h) -> armed (push s o).
  Proof.
    intros s o (Hg & Hp & Hnd) Ho. split; [apply good_push; assumption |]. split; assumption.
  Qed.

  Lemma ready_push : forall s o,
      ready s -> (forall h, o = Some h -> hvalid (st_nodes s) h) -> ready (push s o).
  Proof. intros s o (Ha & He) Ho. split; [apply armed_push; assumption | exact He]. Qed.

  Lemma armed_with_tag : forall s t, armed s -> armed (with_tag s t).
  Proof. intros s t H. exact H. Qed.

  Lemma ready_with_tag : forall s t, ready s -> ready (with_tag s t).
  Proof. intros s t H. exact H. Qed.

  (** a new leaf (the batch, the target) *)
  Lemma ready_alloc_leaf : forall (s : state) (a : arr F) buf,
      ready s -> wf a ->
      ready (fst (alloc s a [] None buf)) /\
      hvalid (st_nodes (fst (alloc s a [] None buf))) (snd (alloc s a [] None buf)) /\
      ext s (fst (alloc s a [] None buf)).
  Proof.
    intros s a buf Hr Hw. pose proof Hr as (((Hg & Hrv) & _) & _).
    destruct (alloc_leaf_post s a buf Hg Hw) as (Hx & Hg' & Hh).
    split; [| split; assumption].
    apply (ready_transfer s _ Hr).
    - split; [exact Hg' | eapply rvalid_ext; eassumption].
    - apply (ext_fields _ _ Hx).
    - apply ext_keeps_nodes; assumption.
  Qed.

  Lemma armed_alloc_leaf : forall (s : state) (a : arr F) buf,
      armed s -> wf a ->
      armed (fst (alloc s a [] None buf)) /\
      hvalid (st_nodes (fst (alloc s a [] None buf))) (snd (alloc s a [] None buf)).
  Proof.
    intros s a buf Ha Hw. pose proof Ha as ((Hg & Hrv) & _).
    destruct (alloc_leaf_post s a buf Hg Hw) as (Hx & Hg' & Hh).
    split; [| assumption].
    apply (armed_transfer s _ Ha).
    - split; [exact Hg' | eapply rvalid_ext; eassumption].
    - apply (ext_fields _ _ Hx).
    - apply keeps_nodes_skel. apply ext_keeps_nodes; assumption.
  Qed.

  (** * The instructions of the loop preserve the invariants *)

  Theorem step_leaf_ready : forall s0 d v t s' o,
      ready s0 -> step O s0 (ILeaf d v t) = Some (s', o) -> ready s'.
  Proof.
    intros s0 d v t s' o Hr H. unfold step in H. cbv zeta in H.
    apply obind_some in H. destruct H as (a & Ha & H). apply mk_wf in Ha. destruct Ha as [Ha _].
    pose proof (ready_alloc_leaf _ a None (ready_with_tag s0 (length (st_pool s0)) Hr) Ha)
      as (Hr1 & Hv & _).
    destruct (alloc (with_tag s0 (length (st_pool s0))) a [] None None) as [s1 h].
    injection H as H _. subst s'. cbn [fst snd] in *.
    apply ready_push; [exact Hr1 |]. intros h0 Hh0. injection Hh0 as Hh0. subst h0. exact Hv.
  Qed.

  Theorem step_leaf_armed : forall s0 d v t s' o,
      armed s0 -> step O s0 (ILeaf d v t) = Some (s', o) -> armed s'.
  Proof.
    intros s0 d v t s' o Hr H. unfold step in H. cbv zeta in H.
    apply obind_some in H. destruct H as (a & Ha & H). apply mk_wf in Ha. destruct Ha as [Ha _].
    pose proof (armed_alloc_leaf _ a None (armed_with_tag s0 (length (st_pool s0)) Hr) Ha)
      as (Hr1 & Hv).
    destruct (alloc (with_tag s0 (length (st_pool s0))) a [] None None) as [s1 h].
    injection H as H _. subst s'. cbn [fst snd] in *.
    apply armed_push; [exact Hr1 |]. intros h0 Hh0. injection Hh0 as Hh0. subst h0. exact Hv.
  Qed.

  Theorem step_forward_armed : forall s0 h s' o,
      armed s0 -> step O s0 (IForward h) = Some (s', o) ->
      armed s' /\ (ready s0 -> ready s').
  Proof.
    intros s0 h s' o Ha H. unfold step in H. cbv zeta in H.
    set (s := with_tag s0 (length (st_pool s0))) in *.
    assert (Has : armed s) by (apply armed_with_tag; exact Ha).
    apply obind_some in H. destruct H as (x & Hx & H).
    apply obind_some in H. destruct H as ([s1 out] & Hmf & H).
    apply obind_some in H. destruct H as (a & _ & H). injection H as H _. subst s'.
    assert (Hvx : hvalid (st_nodes s) x) by (eapply var_valid; [apply Has | exact Hx]).
    destruct (model_forward_armed s x s1 out Has Hvx Hmf) as (Ha1 & Hr1 & _ & Hvo & _).
    assert (Hpo : forall h0, Some out = Some h0 -> hvalid (st_nodes s1) h0)
      by (intros h0 Hh0; injection Hh0 as Hh0; subst h0; exact Hvo).
    split; [apply armed_push; assumption |].
    intro Hr. apply ready_push; [apply Hr1; apply ready_with_tag; exact Hr | exact Hpo].
  Qed.

  Theorem step_backward_armed : forall s0 h s' o,
      armed s0 -> step O s0 (IModelBackward h) = Some (s', o) -> armed s'.
  Proof.
    intros s0 h s' o Ha H. unfold step in H. cbv zeta in H.
    set (s := with_tag s0 (length (st_pool s0))) in *.
    assert (Has : armed s) by (apply armed_with_tag; exact Ha).
    apply obind_some in H. destruct H as (x & Hx & H).
    apply obind_some in H. destruct H as ([s1 loss] & Hmb & H). injection H as H _. subst s'.
    assert (Hvx : hvalid (st_nodes s) x) by (eapply var_valid; [apply Has | exact Hx]).
    destruct (model_backward_armed s x s1 loss Has Hvx Hmb) as (Ha1 & _).
    apply armed_push; [exact Ha1 |]. intros h0 Hh0. discriminate Hh0.
  Qed.

  Theorem step_update_ready : forall s0 s' o,
      armed s0 -> step O s0 IModelUpdate = Some (s', o) -> ready s'.
  Proof.
    intros s0 s' o Ha H. unfold step in H. cbv zeta in H.
    set (s := with_tag s0 (length (st_pool s0))) in *.
    assert (Has : armed s) by (apply armed_with_tag; exact Ha).
    apply obind_some in H. destruct H as (s1 & Hmu & H). injection H as H _. subst s'.
    destruct (model_update_ready s s1 Has Hmu) as (Hr1 & _).
    apply ready_push; [exact Hr1 |]. intros h0 Hh0. discriminate Hh0.
  Qed.

  (** * Induction over batches *)

  (** programs: a batch is [(dims, values)] of the input and of the target *)
  Definition batch : Type := ((list nat * list F) * (list nat * list F))%type.

  Definition batch_prog (n : nat) (b : batch) : list (@instr F) :=
    [ILeaf (fst (fst b)) (snd (fst b)) false; ILeaf (fst (snd b)) (snd (snd b)) false;
     IForward n; IModelBackward (S n); IModelUpdate].

  Fixpoint exec (s : state) (p : list (@instr F)) : option state :=
    match p with
    | [] => Some s
    | i :: p' => r <- step O s i ;; exec (fst r) p'
    end.

  (** the training program: the iteration for each batch, one after the other; [n] is the
      number of pool slots before the iteration (every instruction adds one slot) *)
  Fixpoint train_prog (n : nat) (bs : list batch) : list (@instr F) :=
    match bs with
    | [] => []
    | b :: bs' => batch_prog n b ++ train_prog (5 + n) bs'
    end.

  Lemma exec_app : forall p q s,
      exec s (p ++ q) = (s' <- exec s p ;; exec s' q).
  Proof.
    intro p. induction p as [|i p IH]; intros q s; simpl; [reflexivity |].
    destruct (step O s i) as [[s1 o]|]; simpl; [apply IH | reflexivity].
  Qed.

  Theorem batch_prog_ready : forall s n b s',
      ready s -> exec s (batch_prog n b) = Some s' -> ready s'.
  Proof.
    intros s n b s' Hr H. unfold batch_prog in H. cbn [exec] in H.
    apply obind_some in H. destruct H as ([s1 o1] & H1 & H). cbn [fst] in H.
    apply obind_some in H. destruct H as ([s2 o2] & H2 & H). cbn [fst] in H.
    apply obind_some in H. destruct H as ([s3 o3] & H3 & H). cbn [fst] in H.
    apply obind_some in H. destruct H as ([s4 o4] & H4 & H). cbn [fst] in H.
    apply obind_some in H. destruct H as ([s5 o5] & H5 & H). cbn [fst] in H.
    injection H as H. subst s'.
    pose proof (step_leaf_ready _ _ _ _ _ _ Hr H1) as Hr1.
    pose proof (step_leaf_ready _ _ _ _ _ _ Hr1 H2) as Hr2.
    destruct (step_forward_armed _ _ _ _ (proj1 Hr2) H3) as [Ha3 _].
    pose proof (step_backward_armed _ _ _ _ Ha3 H4) as Ha4.
    apply (step_update_ready _ _ _ Ha4 H5).
  Qed.

  (** every iteration of the training program starts, and ends, in a [ready] state *)
  Theorem train_prog_ready : forall bs n s s',
      ready s -> exec s (train_prog n bs) = Some s' -> ready s'.
  Proof.
    intro bs. induction bs as [|b bs IH]; intros n s s' Hr H.
    - injection H as H. subst s'. exact Hr.
    - cbn [train_prog] in H. rewrite exec_app in H.
      apply obind_some in H. destruct H as (s1 & H1 & H).
      apply (IH (5 + n) s1 s'); [| exact H].
      apply (batch_prog_ready s n b s1 Hr H1).
  Qed.

  Theorem train_prog_iterations_ready : forall bs1 b bs2 n s s',
      ready s -> exec s (train_prog n (bs1 ++ b :: bs2)) = Some s' ->
      exists sk sk',
        exec s (train_prog n bs1) = Some sk /\ ready sk /\
        exec sk (batch_prog (5 * length bs1 + n) b) = Some sk' /\ ready sk' /\
        exec sk' (train_prog (5 * S (length bs1) + n) bs2) = Some s' /\ ready s'.
  Proof.
    intro bs1. induction bs1 as [|b1 bs1 IH]; intros b bs2 n s s' Hr H.
    - cbn [app train_prog] in H. rewrite exec_app in H.
      apply obind_some in H. destruct H as (s1 & H1 & H).
      exists s, s1. cbn [train_prog exec length]. rewrite Nat.mul_0_r. cbn [Nat.add].
      split; [reflexivity |]. split; [exact Hr |]. split; [exact H1 |].
      pose proof (batch_prog_ready s n b s1 Hr H1) as Hr1. split; [exact Hr1 |].
      replace (5 * 1 + n) with (5 + n) by lia. split; [exact H |].
      apply (train_prog_ready bs2 _ s1 s' Hr1 H).
    - cbn [app train_prog] in H. rewrite exec_app in H.
      apply obind_some in H. destruct H as (s1 & H1 & H).
      pose proof (batch_prog_ready s n b1 s1 Hr H1) as Hr1.
      destruct (IH b bs2 (5 + n) s1 s' Hr1 H) as (sk & sk' & Hk & Hrk & Hk' & Hrk' & Hrest & Hr').
      exists sk, sk'. cbn [train_prog length]. rewrite exec_app, H1. cbn [obind].
      split; [exact Hk |]. split; [exact Hrk |].
      replace (5 * S (length bs1) + n) with (5 * length bs1 + (5 + n)) by lia.
      split; [exact Hk' |]. split; [exact Hrk' |].
      replace (5 * S (S (length bs1)) + n) with (5 * S (length bs1) + (5 + n)) by lia.
      split; [exact Hrest | exact Hr'].
  Qed.

  (** the same loop, as direct calls (batches given as arrays) *)
  Definition train_batch (s : state) (b : arr F * arr F) : option (state * F) :=
    let '(sa, hx) := alloc s (fst b) [] None None in
    let '(sb, ht) := alloc sa (snd b) [] None None in
    r1 <- model_forward O sb hx ;;
    let '(s1, _) := r1 in
    r2 <- model_backward O s1 ht ;;
    let '(s2, loss) := r2 in
    s3 <- model_update O s2 ;;
    Some (s3, loss).

  Fixpoint train (s : state) (bs : list (arr F * arr F)) : option (state * list F) :=
    match bs with
    | [] => Some (s, [])
    | b :: bs' =>
      r <- train_batch s b ;;
      let '(s', l) := r in
      r' <- train s' bs' ;;
      let '(s'', ls) := r' in Some (s'', l :: ls)
    end.

  Theorem train_batch_ready : forall s b s' loss,
      ready s -> wf (fst b) -> wf (snd b) -> train_batch s b = Some (s', loss) -> ready s'.
  Proof.
    intros s b s' loss Hr Hwx Hwt H. unfold train_batch in H.
    pose proof (ready_alloc_leaf s (fst b) None Hr Hwx) as (Hra & Hvx & Hxa).
    destruct (alloc s (fst b) [] None None) as [sa hx]. cbn [fst snd] in Hra, Hvx, Hxa.
    pose proof (ready_alloc_leaf sa (snd b) None Hra Hwt) as (Hrb & Hvt & Hxb).
    destruct (alloc sa (snd b) [] None None) as [sb ht]. cbn [fst snd] in Hrb, Hvt, Hxb.
    apply obind_some in H. destruct H as ([s1 out] & Hf & H).
    apply obind_some in H. destruct H as ([s2 l] & Hb & H).
    apply obind_some in H. destruct H as (s3 & Hu & H). injection H as H1 H2. subst s' loss.
    assert (Hvx' : hvalid (st_nodes sb) hx) by (eapply hvalid_ext; eassumption).
    destruct (model_forward_armed sb hx s1 out (proj1 Hrb) Hvx' Hf)
      as (Ha1 & _ & _ & _ & _ & _ & _ & _ & Hlen1 & _).
    assert (Hvt1 : hvalid (st_nodes s1) ht) by (unfold hvalid in *; nlia).
    destruct (model_backward_armed s1 ht s2 l Ha1 Hvt1 Hb) as (Ha2 & _).
    apply (model_update_ready s2 s3 Ha2 Hu).
  Qed.

  Theorem train_ready : forall bs s s' ls,
      ready s -> Forall (fun b => wf (fst b) /\ wf (snd b)) bs ->
      train s bs = Some (s', ls) -> ready s' /\ length ls = length bs.
  Proof.
    intro bs. induction bs as [|b bs IH]; intros s s' ls Hr Hw H.
    - injection H as H1 H2. subst s' ls. split; [exact Hr | reflexivity].
    - inversion Hw as [|? ? [Hwx Hwt] Hw']; subst. cbn [train] in H.
      apply obind_some in H. destruct H as ([s1 l] & H1 & H).
      apply obind_some in H. destruct H as ([s2 ls'] & H2 & H). injection H as Ha Hb. subst s' ls.
      pose proof (train_batch_ready s b s1 l Hr Hwx Hwt H1) as Hr1.
      destruct (IH s1 s2 ls' Hr1 Hw' H2) as [Hr2 Hl]. split; [exact Hr2 | simpl; rewrite Hl; reflexivity].
  Qed.

  (** every iteration starts in a [ready] state: [train_iteration] applies to each of them *)
  Theorem train_iterations_ready : forall bs1 b bs2 s s' ls,
      ready s -> Forall (fun b => wf (fst b) /\ wf (snd b)) (bs1 ++ b :: bs2) ->
      train s (bs1 ++ b :: bs2) = Some (s', ls) ->
      exists sk ls1 sk' l ls2,
        train s bs1 = Some (sk, ls1) /\ ready sk /\
        train_batch sk b = Some (sk', l) /\ ready sk' /\
        train sk' bs2 = Some (s', ls2) /\ ls = ls1 ++ l :: ls2.
  Proof.
    intro bs1. induction bs1 as [|b1 bs1 IH]; intros b bs2 s s' ls Hr Hw H.
    - cbn [app] in *. inversion Hw as [|? ? [Hwx Hwt] Hw']; subst. cbn [train] in H.
      apply obind_some in H. destruct H as ([s1 l] & H1 & H).
      apply obind_some in H. destruct H as ([s2 ls'] & H2 & H). injection H as Ha Hb. subst s' ls.
      exists s, [], s1, l, ls'. cbn [train app].
      split; [reflexivity |]. split; [exact Hr |]. split; [exact H1 |].
      split; [apply (train_batch_ready s b s1 l Hr Hwx Hwt H1) |]. split; [exact H2 | reflexivity].
    - cbn [app] in *. inversion Hw as [|? ? [Hwx Hwt] Hw']; subst. cbn [train] in H.
      apply obind_some in H. destruct H as ([s1 l1] & H1 & H).
      apply obind_some in H. destruct H as ([s2 ls'] & H2 & H). injection H as Ha Hb. subst s' ls.
      pose proof (train_batch_ready s b1 s1 l1 Hr Hwx Hwt H1) as Hr1.
      destruct (IH b bs2 s1 s2 ls' Hr1 Hw' H2) as (sk & ls1 & sk' & l & ls2 & Hk & Hrk & Hb & Hrk' & Hrest & Hls).
      exists sk, (l1 :: ls1), sk', l, ls2. cbn [train]. rewrite H1. cbn [obind]. rewrite Hk. cbn [obind].
      split; [reflexivity |]. split; [exact Hrk |]. split; [exact Hb |]. split; [exact Hrk' |].
      split; [exact Hrest |]. subst ls'. reflexivity.
  Qed.
  (** * (L2a) The loss is a function of the current parameter values and the batch

      A pure mirror of the forward computation over arrays.  It uses the model's own pure
      functions ([a_matmul], [conv], [a_softmax], [a_sub], ...).  The theorems below need
      NO invariant: whatever else the state contains (stale gradients, old graphs, pool
      variables), the output and the loss are these functions of the parameter arrays,
      the input array and the target array. *)

  Definition act_val (a : Program.act) (x : arr F) : option (arr F) :=
    match a with
    | ANone => Some x
    | ARelu => a_relu O x
    | ASigmoid => a_sigmoid O x
    | ASoftmax => a_softmax O x
    end.

  Definition layer_val (cv : option (nat * nat)) (a : Program.act) (w b x : arr F) : option (arr F) :=
    match cv with
    | None => r <- a_matmul O x false w true (Some b) ;; act_val a r
    | Some (sr, sc) => c <- Image.conv O x w sr sc ;; r <- a_add O c b ;; act_val a r
    end.

  Definition lvals : Type := (option (nat * nat) * Program.act * arr F * arr F)%type.

  Definition layer_arrs (s : state) (l : layer) : option lvals :=
    w <- h_arr s (l_w l) ;; b <- h_arr s (l_b l) ;; Some (l_conv l, l_act l, w, b).

  Definition model_val (ps : list lvals) (x : arr F) : option (arr F) :=
    fold_left (fun (acc : option (arr F)) (p : lvals) =>
                 x <- acc ;; let '(cv, a, w, b) := p in layer_val cv a w b x)
              ps (Some x).

  Definition cost_val (c : Program.cost) (o t : arr F) : option (arr F) :=
    match c with
    | CMse =>
      d <- a_sub O t o ;; p <- a_powf O (two O) d ;;
      a_scale O (fdiv O (f1 O) (fofnat O (prod (dims o)))) p
    | CCrossEntropy =>
      batch <- nth_error (dims o) 0 ;;
      nt <- a_neg O t ;; lo <- a_ln O o ;; m <- a_mul O nt lo ;;
      a_scale O (fdiv O (f1 O) (fofnat O batch)) m
    end.

  (** the loss of parameters [ps] on the batch [(x, t)] *)
  Definition loss_val (c : Program.cost) (ps : list lvals) (x t : arr F) : option F :=
    o <- model_val ps x ;; ca <- cost_val c o t ;; Some (a_sum_all O ca).

  (** ** values of handles *)

  (** result of an operation: the state is extended and the new handle holds [r] *)
  Definition vpost (s : state) (res : state * handle) (r : arr F) : Prop :=
    ext s (fst res) /\ h_arr (fst res) (snd res) = Some r.

  Lemma ext_h_arr : forall (s s' : state) h (a : arr F),
      ext s s' -> h_arr s h = Some a -> h_arr s' h = Some a.
  Proof.
    intros s s' h a Hx H. unfold h_arr, h_node in *.
    destruct (nth_error (st_nodes s) (e_node h)) as [nd|] eqn:Hn; [| discriminate H].
    rewrite (ext_old s s' (e_node h) Hx), Hn; [exact H |].
    apply nth_error_Some. rewrite Hn. discriminate.
  Qed.

  Lemma alloc_val : forall (s : state) (a : arr F) ch bop buf, vpost s (alloc s a ch bop buf) a.
  Proof.
    intros s a ch bop buf. unfold vpost, alloc. cbn [fst snd]. split.
    - eexists. reflexivity.
    - unfold h_arr, h_node. cbn [st_nodes with_nodes e_node mkh].
      rewrite nth_error_app2 by apply le_n. rewrite Nat.sub_diag. cbn [nth_error obind n_pay].
      unfold pay_arr. cbn [p_dims p_vals]. destruct a; reflexivity.
  Qed.

  Lemma alloc_if_val : forall (s : state) (a : arr F) tr ch code, vpost s (alloc_if s a tr ch code) a.
  Proof. intros s a tr ch code. unfold alloc_if. destruct tr; apply alloc_val. Qed.

  Lemma vpost_trans : forall s s1 h1 r1 res r,
      vpost s (s1, h1) r1 -> vpost s1 res r -> vpost s res r.
  Proof.
    intros s s1 h1 r1 res r [Hx1 _] [Hx2 Hv]. cbn [fst snd] in *.
    split; [eapply ext_trans; eassumption | exact Hv].
  Qed.

  Lemma unary_val : forall (s : state) h fwd code res,
      unary s h fwd code = Some res ->
      exists a r, h_arr s h = Some a /\ fwd a = Some r /\ vpost s res r.
  Proof.
    intros s h fwd code res H. unfold unary in H.
    apply obind_some in H. destruct H as (a & Ha & H).
    apply obind_some in H. destruct H as (r & Hr & H). injection H as H. subst res.
    exists a, r. split; [exact Ha |]. split; [exact Hr | apply alloc_if_val].
  Qed.

  Lemma binary_val : forall (s : state) ha hb fwd code res,
      binary s ha hb fwd code = Some res ->
      exists a b r, h_arr s ha = Some a /\ h_arr s hb = Some b /\ fwd a b = Some r /\ vpost s res r.
  Proof.
    intros s ha hb fwd code res H. unfold binary in H.
    apply obind_some in H. destruct H as (a & Ha & H).
    apply obind_some in H. destruct H as (b & Hb & H).
    apply obind_some in H. destruct H as (r & Hr & H). injection H as H. subst res.
    exists a, b, r. repeat (split; [assumption |]). apply alloc_if_val.
  Qed.

  Lemma matmul_val : forall (s : state) ta tb ha hb hc res,
      op_matmul O s ta tb ha hb hc = Some res ->
      exists a b c r,
        h_arr s ha = Some a /\ h_arr s hb = Some b /\
        match hc with Some h => h_arr s h = Some c /\ True | None => True end /\
        a_matmul O a ta b tb (match hc with Some _ => Some c | None => None end) = Some r /\
        vpost s res r.
  Proof.
    intros s ta tb ha hb hc res H. unfold op_matmul in H.
    apply obind_some in H. destruct H as (a & Ha & H).
    apply obind_some in H. destruct H as (b & Hb & H).
    apply obind_some in H. destruct H as (c & Hc & H).
    apply obind_some in H. destruct H as (r & Hr & H).
    destruct hc as [h|].
    - apply obind_some in Hc. destruct Hc as (x & Hx & Hc). injection Hc as Hc. subst c.
      exists a, b, x, r. split; [exact Ha |]. split; [exact Hb |]. split; [auto |].
      split; [exact Hr |].
      destruct (e_tracked ha || e_tracked hb || e_tracked h); injection H as H; subst res;
        apply alloc_val.
    - injection Hc as Hc. subst c.
      exists a, b, a, r. split; [exact Ha |]. split; [exact Hb |]. split; [exact I |].
      split; [exact Hr |].
      destruct (e_tracked ha || e_tracked hb || false).
      + pose proof (alloc_val s (zeros1 O) [] None None) as Hz.
        destruct (alloc s (zeros1 O) [] None None) as [s1 h3]. injection H as H. subst res.
        eapply vpost_trans; [exact Hz | apply alloc_val].
      + injection H as H. subst res. apply alloc_val.
  Qed.

  Lemma reshape_val : forall (s : state) d h res,
      op_reshape s d h = Some res ->
      exists a r, h_arr s h = Some a /\ a_reshape d a = Some r /\ vpost s res r.
  Proof.
    intros s d h res H. unfold op_reshape in H.
    apply obind_some in H. destruct H as (nd & Hnd & H).
    apply obind_some in H. destruct H as (r & Hr & H). injection H as H. subst res.
    exists (pay_arr (n_pay nd)), r. split; [unfold h_arr; rewrite Hnd; reflexivity |].
    split; [exact Hr |]. destruct (e_tracked h); apply alloc_val.
  Qed.

  Lemma softmax_val : forall (s : state) h res,
      op_softmax O s h = Some res ->
      exists a r, h_arr s h = Some a /\ a_softmax O a = Some r /\ vpost s res r.
  Proof.
    intros s h res H. unfold op_softmax in H.
    apply obind_some in H. destruct H as ([s1 he] & H1 & H).
    apply obind_some in H. destruct H as ([s2 hs] & H2 & H).
    destruct (unary_val s h _ _ _ H1) as (a & e & Ha & He & Hp1).
    unfold op_sum in H2. cbn [Nat.eqb] in H2.
    apply obind_some in H2. destruct H2 as (e' & He' & H2).
    destruct (unary_val s1 he _ _ _ H2) as (e'' & sm & He'' & Hsm & Hp2).
    destruct Hp1 as [Hx1 Hv1]. cbn [fst snd] in *.
    assert (e'' = e) by congruence. subst e''.
    destruct (binary_val s2 he hs _ _ _ H) as (x & y & r & Hx & Hy & Hr & Hp3).
    destruct Hp2 as [Hx2 Hv2]. cbn [fst snd] in *.
    assert (x = e) by (pose proof (ext_h_arr s1 s2 he e Hx2 Hv1); congruence). subst x.
    assert (y = sm) by congruence. subst y.
    exists a, r. split; [exact Ha |]. split.
    - unfold a_softmax. rewrite He. cbn [obind]. rewrite Hsm. cbn [obind]. exact Hr.
    - destruct Hp3 as [Hx3 Hv3]. split; [| exact Hv3].
      eapply ext_trans; [exact Hx1 |]. eapply ext_trans; eassumption.
  Qed.

  Lemma apply_act_val : forall (s : state) a h res,
      apply_act O s a h = Some res ->
      (exists x r, h_arr s h = Some x /\ act_val a x = Some r /\ vpost s res r) \/
      (* [ANone] on a dangling handle: nothing is read *)
      (a = ANone /\ res = (s, h)).
  Proof.
    intros s a h res H. destruct a; cbn [apply_act] in H.
    - right. injection H as H. subst res. split; reflexivity.
    - left. destruct (unary_val s h _ _ _ H) as (x & r & Hx & Hr & Hp). exists x, r. auto.
    - left. destruct (unary_val s h _ _ _ H) as (x & r & Hx & Hr & Hp). exists x, r. auto.
    - left. destruct (softmax_val s h _ H) as (x & r & Hx & Hr & Hp). exists x, r. auto.
  Qed.

  (** [apply_act] after an operation whose result is known *)
  Lemma act_after : forall (s s1 : state) h1 (r1 : arr F) a res,
      vpost s (s1, h1) r1 -> apply_act O s1 a h1 = Some res ->
      exists r, act_val a r1 = Some r /\ vpost s res r.
  Proof.
    intros s s1 h1 r1 a res Hp H. pose proof Hp as [Hx Hv]. cbn [fst snd] in *.
    destruct (apply_act_val s1 a h1 res H) as [(x & r & Hxx & Hr & Hp2) | (Ha & Hres)].
    - assert (x = r1) by congruence. subst x. exists r. split; [exact Hr |].
      eapply vpost_trans; eassumption.
    - subst a res. exists r1. split; [reflexivity | exact Hp].
  Qed.

  Lemma conv_val : forall (s : state) sr sc hi hf res,
      op_conv O s sr sc hi hf = Some res ->
      exists image filters r,
        h_arr s hi = Some image /\ h_arr s hf = Some filters /\
        Image.conv O image filters sr sc = Some r /\ vpost s res r.
  Proof.
    intros s sr sc hi hf res H. unfold op_conv in H. cbv zeta in H.
    apply obind_some in H. destruct H as (image & Hi & H).
    apply obind_some in H. destruct H as (filters & Hf & H).
    apply obind_some in H. destruct H as (u1 & Hu1 & H).
    apply obind_some in H. destruct H as (u2 & Hu2 & H).
    apply obind_some in H. destruct H as (depth & Hdepth & H).
    apply obind_some in H. destruct H as (rows & Hrows & H).
    apply obind_some in H. destruct H as (cols & Hcols & H).
    apply obind_some in H. destruct H as (fr & Hfr & H).
    apply obind_some in H. destruct H as (fc & Hfc & H).
    apply obind_some in H. destruct H as (rcount & Hrc & H).
    apply obind_some in H. destruct H as (ccount & Hcc & H).
    apply obind_some in H. destruct H as ([s1 hu] & H1 & H).
    apply obind_some in H. destruct H as (ua & Hua & H).
    apply obind_some in H. destruct H as (last & Hlast & H).
    apply obind_some in H. destruct H as ([s2 hm] & H2 & H).
    apply obind_some in H. destruct H as ([s3 hcv] & H3 & H).
    (* unroll *)
    unfold op_unroll in H1.
    apply obind_some in H1. destruct H1 as (im' & Him' & H1).
    assert (im' = image) by congruence. subst im'.
    apply obind_some in H1. destruct H1 as (d3 & _ & H1).
    apply obind_some in H1. destruct H1 as (d2 & _ & H1).
    apply obind_some in H1. destruct H1 as (d1 & _ & H1).
    apply obind_some in H1. destruct H1 as (un & Hun & H1). injection H1 as H1.
    pose proof (alloc_if_val s un (e_tracked hi) [hi] (BUnroll d3 d2 d1 sr sc fr fc)) as Hp1.
    rewrite H1 in Hp1. destruct Hp1 as [Hx1 Hv1]. cbn [fst snd] in *.
    assert (ua = un) by congruence. subst ua.
    (* reshape of the filters *)
    destruct (reshape_val s1 _ hf _ H2) as (fl' & fm & Hfl' & Hfm & Hp2).
    assert (fl' = filters) by (pose proof (ext_h_arr s s1 hf filters Hx1 Hf); congruence). subst fl'.
    destruct Hp2 as [Hx2 Hv2]. cbn [fst snd] in *.
    (* product *)
    destruct (matmul_val s2 false true hu hm None _ H3) as (a & b & c & cv & Ha & Hb & _ & Hcv & Hp3).
    assert (a = un) by (pose proof (ext_h_arr s1 s2 hu un Hx2 Hv1); congruence). subst a.
    assert (b = fm) by congruence. subst b.
    destruct Hp3 as [Hx3 Hv3]. cbn [fst snd] in *.
    (* expansion *)
    unfold op_expand in H.
    apply obind_some in H. destruct H as (cv' & Hcv' & H).
    assert (cv' = cv) by congruence. subst cv'.
    apply obind_some in H. destruct H as (fcount & _ & H).
    apply obind_some in H. destruct H as (r & Hr & H). injection H as H.
    pose proof (alloc_if_val s3 r (e_tracked hcv) [hcv] (BExpand fcount (rcount * ccount))) as Hp4.
    rewrite H in Hp4. destruct Hp4 as [Hx4 Hv4].
    exists image, filters, r. split; [exact Hi |]. split; [exact Hf |]. split.
    - unfold Image.conv. cbv zeta. rewrite Hu1. cbn [obind]. rewrite Hu2. cbn [obind].
      rewrite Hdepth. cbn [obind]. rewrite Hrows. cbn [obind]. rewrite Hcols. cbn [obind].
      rewrite Hfr. cbn [obind]. rewrite Hfc. cbn [obind]. rewrite Hrc. cbn [obind].
      rewrite Hcc. cbn [obind]. rewrite Hun. cbn [obind]. rewrite Hlast. cbn [obind].
      rewrite Hfm. cbn [obind]. rewrite Hcv. cbn [obind]. exact Hr.
    - split; [| exact Hv4].
      eapply ext_trans; [exact Hx1 |]. eapply ext_trans; [exact Hx2 |].
      eapply ext_trans; eassumption.
  Qed.

  Lemma ext_h_arr_back : forall (s s' : state) h,
      ext s s' -> hvalid (st_nodes s) h -> h_arr s' h = h_arr s h.
  Proof.
    intros s s' h Hx Hv. unfold h_arr, h_node. rewrite (ext_old s s' (e_node h) Hx Hv). reflexivity.
  Qed.

  Lemma layer_forward_val : forall (s : state) l input res (x : arr F),
      h_arr s input = Some x -> hvalid (st_nodes s) (l_b l) ->
      layer_forward O s l input = Some res ->
      exists w b r, h_arr s (l_w l) = Some w /\ h_arr s (l_b l) = Some b /\
                    layer_val (l_conv l) (l_act l) w b x = Some r /\ vpost s res r.
  Proof.
    intros s l input res x Hx Hvb H. unfold layer_forward in H. unfold layer_val.
    destruct (l_conv l) as [[sr sc]|].
    - apply obind_some in H. destruct H as ([s1 hc] & H1 & H).
      apply obind_some in H. destruct H as ([s2 h] & H2 & H).
      destruct (conv_val s sr sc input (l_w l) _ H1) as (im & w & c & Him & Hw & Hc & Hp1).
      assert (im = x) by congruence. subst im.
      destruct (binary_val s1 hc (l_b l) _ _ _ H2) as (c' & b & r & Hc' & Hb & Hr & Hp2).
      pose proof Hp1 as [Hx1 Hv1]. cbn [fst snd] in *.
      assert (c' = c) by congruence. subst c'.
      rewrite (ext_h_arr_back s s1 (l_b l) Hx1 Hvb) in Hb.
      exists w, b. rewrite Hc. cbn [obind]. rewrite Hr. cbn [obind].
      assert (Hp12 : vpost s (s2, h) r) by (eapply vpost_trans; eassumption).
      destruct (act_after s s2 h r (l_act l) res Hp12 H) as (r' & Hr' & Hp').
      exists r'. auto.
    - apply obind_some in H. destruct H as ([s1 h] & H1 & H).
      destruct (matmul_val s false true input (l_w l) (Some (l_b l)) _ H1)
        as (a' & w & b & r & Ha' & Hw & (Hb & _) & Hr & Hp1).
      assert (a' = x) by congruence. subst a'.
      exists w, b. rewrite Hr. cbn [obind].
      destruct (act_after s s1 h r (l_act l) res Hp1 H) as (r' & Hr' & Hp').
      exists r'. auto.
  Qed.

  Lemma mapM_cons_some : forall {A B} (f : A -> option B) x xs y ys,
      f x = Some y -> mapM f xs = Some ys -> mapM f (x :: xs) = Some (y :: ys).
  Proof. intros A B f x xs y ys H1 H2. simpl. rewrite H1. simpl. rewrite H2. reflexivity. Qed.

  Lemma model_val_cons : forall cv a (w b x r : arr F) ps,
      layer_val cv a w b x = Some r -> model_val ((cv, a, w, b) :: ps) x = model_val ps r.
  Proof. intros cv a w b x r ps H. unfold model_val. cbn [fold_left obind]. rewrite H. reflexivity. Qed.

  Lemma fold_layers_val : forall ls (s0 s : state) h (x : arr F) s1 out,
      ext s0 s -> (forall l, In l ls -> lvalid (st_nodes s0) l) ->
      h_arr s h = Some x ->
      fold_left (fun (acc : option (state * handle)) (l : layer) =>
                   st <- acc ;; let '(s', h') := st in layer_forward O s' l h')
                ls (Some (s, h)) = Some (s1, out) ->
      ext s s1 /\
      exists ps r, mapM (layer_arrs s0) ls = Some ps /\ model_val ps x = Some r /\
                   h_arr s1 out = Some r.
  Proof.
    intro ls. induction ls as [|l ls IH]; intros s0 s h x s1 out Hx0 Hval Hx H.
    - injection H as H1 H2. subst s1 out. split; [apply ext_refl |].
      exists [], x. split; [reflexivity |]. split; [reflexivity | exact Hx].
    - cbn [fold_left obind] in H.
      destruct (layer_forward O s l h) as [[s2 h2]|] eqn:Hl;
        [| rewrite fold_left_none in H by (intro b; reflexivity); discriminate H].
      destruct (Hval l (or_introl eq_refl)) as [Hvw Hvb].
      assert (Hvb' : hvalid (st_nodes s) (l_b l)) by (eapply hvalid_ext; eassumption).
      destruct (layer_forward_val s l h _ x Hx Hvb' Hl) as (w & b & r & Hw & Hb & Hr & Hp).
      destruct Hp as [Hx2 Hv2]. cbn [fst snd] in *.
      destruct (IH s0 s2 h2 r s1 out) as (Hx1 & ps & r' & Hps & Hmv & Hout).
      + eapply ext_trans; eassumption.
      + intros l0 Hl0. apply Hval. right. exact Hl0.
      + exact Hv2.
      + exact H.
      + split; [eapply ext_trans; eassumption |].
        exists ((l_conv l, l_act l, w, b) :: ps), r'. split; [| split; [| exact Hout]].
        * apply mapM_cons_some; [| exact Hps]. unfold layer_arrs.
          rewrite <- (ext_h_arr_back s0 s (l_w l) Hx0 Hvw), Hw.
          rewrite <- (ext_h_arr_back s0 s (l_b l) Hx0 Hvb), Hb. reflexivity.
        * rewrite (model_val_cons _ _ _ _ _ r _ Hr). exact Hmv.
  Qed.

  (** the output of [Model::forward] is [model_val] of the current parameter arrays *)
  Theorem model_forward_value : forall (s : state) x (xa : arr F) s1 out,
      rvalid s -> h_arr s x = Some xa ->
      model_forward O s x = Some (s1, out) ->
      exists ps oa, mapM (layer_arrs s) (st_layers s) = Some ps /\
                    model_val ps xa = Some oa /\ h_arr s1 out = Some oa /\
                    st_output s1 = Some out /\ st_cost s1 = st_cost s.
  Proof.
    intros s x xa s1 out Hr Hx H. unfold model_forward in H.
    apply obind_some in H. destruct H as ([s2 out2] & Hfold & H).
    injection H as H1 H2. subst s1 out2.
    destruct (fold_layers_val (st_layers s) s s x xa s2 out (ext_refl s)
                              (fun l Hl => rvalid_layers s l Hr Hl) Hx Hfold)
      as (Hxx & ps & oa & Hps & Hmv & Hout).
    exists ps, oa. split; [exact Hps |]. split; [exact Hmv |]. split; [exact Hout |].
    split; [reflexivity |]. apply (ext_fields s s2 Hxx).
  Qed.

  Lemma cost_apply_val : forall (s : state) c output target res (oa ta : arr F),
      h_arr s output = Some oa -> h_arr s target = Some ta ->
      cost_apply O s c output target = Some res ->
      exists ca, cost_val c oa ta = Some ca /\ vpost s res ca.
  Proof.
    intros s c output target res oa ta Ho Ht H. unfold cost_apply in H.
    apply obind_some in H. destruct H as (o & Ho' & H).
    assert (o = oa) by congruence. subst o. destruct c; unfold cost_val.
    - cbv zeta in H.
      apply obind_some in H. destruct H as ([s1 d] & H1 & H).
      apply obind_some in H. destruct H as ([s2 p] & H2 & H).
      unfold op_sub in H1.
      apply obind_some in H1. destruct H1 as ([s0 hn] & H0 & H1).
      destruct (unary_val s output _ _ _ H0) as (o' & n & Ho'' & Hn & Hp0).
      assert (o' = oa) by congruence. subst o'.
      destruct Hp0 as [Hx0 Hv0]. cbn [fst snd] in *.
      destruct (binary_val s0 target hn _ _ _ H1) as (t' & n' & dd & Ht' & Hn' & Hd & Hp1).
      assert (t' = ta) by (pose proof (ext_h_arr s s0 target ta Hx0 Ht); congruence). subst t'.
      assert (n' = n) by congruence. subst n'.
      destruct Hp1 as [Hx1 Hv1]. cbn [fst snd] in *.
      destruct (unary_val s1 d _ _ _ H2) as (d' & pp & Hd' & Hpp & Hp2).
      assert (d' = dd) by congruence. subst d'.
      destruct Hp2 as [Hx2 Hv2]. cbn [fst snd] in *.
      destruct (unary_val s2 p _ _ _ H) as (p' & ca & Hp' & Hca & Hp3).
      assert (p' = pp) by congruence. subst p'.
      exists ca. split.
      + unfold a_sub. rewrite Hn. cbn [obind]. rewrite Hd. cbn [obind]. rewrite Hpp. cbn [obind].
        exact Hca.
      + destruct Hp3 as [Hx3 Hv3]. split; [| exact Hv3].
        eapply ext_trans; [exact Hx0 |]. eapply ext_trans; [exact Hx1 |].
        eapply ext_trans; eassumption.
    - apply obind_some in H. destruct H as (batch & Hbatch & H).
      apply obind_some in H. destruct H as ([s1 nt] & H1 & H).
      apply obind_some in H. destruct H as ([s2 lo] & H2 & H).
      apply obind_some in H. destruct H as ([s3 m] & H3 & H).
      destruct (unary_val s target _ _ _ H1) as (t' & ntv & Ht' & Hnt & Hp1).
      assert (t' = ta) by congruence. subst t'.
      destruct Hp1 as [Hx1 Hv1]. cbn [fst snd] in *.
      destruct (unary_val s1 output _ _ _ H2) as (o' & lov & Ho'' & Hlo & Hp2).
      assert (o' = oa) by (pose proof (ext_h_arr s s1 output oa Hx1 Ho); congruence). subst o'.
      destruct Hp2 as [Hx2 Hv2]. cbn [fst snd] in *.
      destruct (binary_val s2 nt lo _ _ _ H3) as (nt' & lo' & mv & Hnt' & Hlo' & Hm & Hp3).
      assert (nt' = ntv) by (pose proof (ext_h_arr s1 s2 nt ntv Hx2 Hv1); congruence). subst nt'.
      assert (lo' = lov) by congruence. subst lo'.
      destruct Hp3 as [Hx3 Hv3]. cbn [fst snd] in *.
      destruct (unary_val s3 m _ _ _ H) as (m' & ca & Hm' & Hca & Hp4).
      assert (m' = mv) by congruence. subst m'.
      exists ca. split.
      + rewrite Hbatch. cbn [obind]. rewrite Hnt. cbn [obind]. rewrite Hlo. cbn [obind].
        rewrite Hm. cbn [obind]. exact Hca.
      + destruct Hp4 as [Hx4 Hv4]. split; [| exact Hv4].
        eapply ext_trans; [exact Hx1 |]. eapply ext_trans; [exact Hx2 |].
        eapply ext_trans; eassumption.
  Qed.

  (** the loss returned by [Model::backward] is the sum of [cost_val] of the current output *)
  Theorem model_backward_loss : forall (s1 : state) t s2 loss out (oa ta : arr F),
      st_output s1 = Some out -> h_arr s1 out = Some oa -> h_arr s1 t = Some ta ->
      model_backward O s1 t = Some (s2, loss) ->
      exists ca, cost_val (st_cost s1) oa ta = Some ca /\ loss = a_sum_all O ca.
  Proof.
    intros s1 t s2 loss out oa ta Hout Hoa Hta H. unfold model_backward in H.
    apply obind_some in H. destruct H as (out' & Hout' & H).
    assert (out' = out) by congruence. subst out'.
    apply obind_some in H. destruct H as ([sc err] & Hcost & H).
    apply obind_some in H. destruct H as (res & _ & H).
    apply obind_some in H. destruct H as (ea & Hea & H). injection H as _ Hl.
    destruct (cost_apply_val s1 _ out t _ oa ta Hoa Hta Hcost) as (ca & Hca & _ & Hv).
    cbn [fst snd] in Hv. exists ca. split; [exact Hca |]. congruence.
  Qed.

  (** (a) the loss an iteration returns is [loss_val] of the CURRENT parameter arrays, the
      batch and the target: nothing else of the state enters *)
  Theorem iteration_loss_value : forall (s : state) x (xa : arr F) s1 out t (ta : arr F) s2 loss,
      rvalid s -> h_arr s x = Some xa ->
      model_forward O s x = Some (s1, out) ->
      h_arr s1 t = Some ta ->
      model_backward O s1 t = Some (s2, loss) ->
      exists ps, mapM (layer_arrs s) (st_layers s) = Some ps /\
                 loss_val (st_cost s) ps xa ta = Some loss.
  Proof.
    intros s x xa s1 out t ta s2 loss Hr Hx Hf Ht Hb.
    destruct (model_forward_value s x xa s1 out Hr Hx Hf) as (ps & oa & Hps & Hmv & Hoa & Hout & Hc).
    destruct (model_backward_loss s1 t s2 loss out oa ta Hout Hoa Ht Hb) as (ca & Hca & Hl).
    exists ps. split; [exact Hps |]. unfold loss_val. rewrite Hmv. cbn [obind].
    rewrite <- Hc, Hca. cbn [obind]. rewrite Hl. reflexivity.
  Qed.
  (** * (L2d) Two backward calls before one update: the slots hold the sum *)

  Section Doubled.
    Hypothesis R : Sums.is_cring O.
    Local Notation E' := (ValueConcrete.E' O).

    (** each call builds its own cost node from the same output and runs its own pass; a
        parameter slot accumulates the entries of the two tables, in order.  With [ready s1]
        the first accumulation starts from the empty slot. *)
    Theorem double_backward_slots : forall s1 t1 s2 l1 t2 s2' l2,
        armed s1 -> hvalid (st_nodes s1) t1 ->
        model_backward O s1 t1 = Some (s2, l1) ->
        hvalid (st_nodes s2) t2 ->
        model_backward O s2 t2 = Some (s2', l2) ->
        exists out sc1 err1 ndr1 tab1 sc2 err2 ndr2 tab2,
          st_output s1 = Some out /\
          cost_apply O s1 (st_cost s1) out t1 = Some (sc1, err1) /\
          nth_error (st_nodes sc1) (e_node err1) = Some ndr1 /\
          adjoints E' (st_nodes sc1) (e_node err1) (eo_ones E (n_pay ndr1)) = Some tab1 /\
          cost_apply O s2 (st_cost s1) out t2 = Some (sc2, err2) /\
          nth_error (st_nodes sc2) (e_node err2) = Some ndr2 /\
          adjoints E' (st_nodes sc2) (e_node err2) (eo_ones E (n_pay ndr2)) = Some tab2 /\
          armed s2' /\
          forall h nd1, In h (model_params s1) -> h_node s1 h = Some nd1 ->
            exists nd2 o1,
              h_node s2' h = Some nd2 /\ n_pay nd2 = n_pay nd1 /\
              PassTheorems.stored_opt E' (n_grad nd1) (nth (e_node h) tab1 None) o1 /\
              PassTheorems.stored_opt E' o1 (nth (e_node h) tab2 None) (n_grad nd2).
    Proof.
      intros s1 t1 s2 l1 t2 s2' l2 Ha1 Ht1 Hb1 Ht2 Hb2.
      destruct (model_backward_slots R s1 t1 s2 l1 Ha1 Ht1 Hb1)
        as (out & sc1 & err1 & ndr1 & g1 & log1 & tab1 & Hout & Hcost1 & _ & _ & Hndr1 & _ & _ & _
            & Htab1 & _ & Hslots1).
      destruct (model_backward_armed s1 t1 s2 l1 Ha1 Ht1 Hb1)
        as (Ha2 & Hlay2 & Hout2 & Hcost2 & _).
      destruct (model_backward_slots R s2 t2 s2' l2 Ha2 Ht2 Hb2)
        as (out' & sc2 & err2 & ndr2 & g2 & log2 & tab2 & Hout' & Hcostb & _ & _ & Hndr2 & _ & _ & _
            & Htab2 & _ & Hslots2).
      assert (out' = out) by congruence. subst out'.
      destruct (model_backward_armed s2 t2 s2' l2 Ha2 Ht2 Hb2) as (Ha2' & _).
      assert (Hpar2 : model_params s2 = model_params s1) by (apply model_params_layers; exact Hlay2).
      exists out, sc1, err1, ndr1, tab1, sc2, err2, ndr2, tab2.
      split; [exact Hout |]. split; [exact Hcost1 |]. split; [exact Hndr1 |]. split; [exact Htab1 |].
      split; [rewrite <- Hcost2; exact Hcostb |]. split; [exact Hndr2 |]. split; [exact Htab2 |].
      split; [exact Ha2' |].
      intros h nd1 Hh Hn1.
      destruct (Hslots1 h nd1 Hh Hn1) as (ndm & Hnm & Hpm & _ & Hst1).
      assert (Hh2 : In h (model_params s2)) by (rewrite Hpar2; exact Hh).
      destruct (Hslots2 h ndm Hh2 Hnm) as (nd2 & Hn2 & Hp2 & _ & Hst2).
      exists nd2, (n_grad ndm). split; [exact Hn2 |]. split; [congruence |].
      split; assumption.
    Qed.
  End Doubled.

  (** * (L3) Nothing leaks into the next iteration *)

  (** after the update: the gradient slot of every old parameter node is empty; a layer
      handle is either an untouched parameter whose slot was already empty or a node
      created by this update; every layer handle points to a childless node without
      closure and without gradient, so the graph built by the iteration is not reachable
      from the parameters *)
  Theorem update_no_leak : forall s2 s3,
      armed s2 -> model_update O s2 = Some s3 ->
      (forall h, In h (model_params s2) -> grad_of s3 h = None) /\
      (forall h3, In h3 (model_params s3) ->
         (In h3 (model_params s2) /\ grad_of s2 h3 = None) \/ length (st_nodes s2) <= e_node h3) /\
      (forall h3, In h3 (model_params s3) ->
         exists nd, h_node s3 h3 = Some nd /\ n_children nd = [] /\ p_bop (n_pay nd) = None /\
                    n_grad nd = None).
  Proof.
    intros s2 s3 Ha Hu. pose proof Ha as (_ & Hp & _).
    destruct (model_update_ready s2 s3 Ha Hu) as (Hr3 & _ & _ & _ & _ & Hlen & _ & Hupd & _).
    split; [| split].
    - intros h Hh. destruct (Hp h Hh) as (_ & _ & nd2 & Hn & _).
      apply In_nth_error in Hh. destruct Hh as (i & Hi).
      pose proof (Hupd i h nd2 Hi Hn) as Hu2. unfold updated_param in Hu2. unfold grad_of.
      destruct (n_grad nd2) as [g|] eqn:Hg.
      + destruct Hu2 as (h3 & _ & _ & _ & _ & _ & Hn3). rewrite Hn3. reflexivity.
      + destruct Hu2 as (_ & Hn3). rewrite Hn3. exact Hg.
    - intros h3 Hin. apply In_nth_error in Hin. destruct Hin as (i & Hi).
      assert (Hil : i < length (model_params s2)).
      { rewrite <- Hlen. apply nth_error_Some. rewrite Hi. discriminate. }
      destruct (nth_error (model_params s2) i) as [h|] eqn:Hh; [| apply nth_error_None in Hh; lia].
      assert (Hinh : In h (model_params s2)) by (eapply nth_error_In; exact Hh).
      destruct (Hp h Hinh) as (_ & _ & nd2 & Hn & _).
      pose proof (Hupd i h nd2 Hh Hn) as Hu2. unfold updated_param in Hu2.
      destruct (n_grad nd2) as [g|] eqn:Hg.
      + destruct Hu2 as (h3' & Ho & Hge & _). assert (h3' = h3) by congruence. subst h3'.
        right. exact Hge.
      + destruct Hu2 as (Ho & _). assert (h3 = h) by congruence. subst h3.
        left. split; [exact Hinh |]. unfold grad_of. rewrite Hn. exact Hg.
    - apply ready_spelled in Hr3. destruct Hr3 as (_ & Hp3 & _).
      intros h3 Hin. destruct (Hp3 h3 Hin) as (_ & _ & nd & H). exists nd. exact H.
  Qed.

  (** the handles the program holds after a forward call: the pool, the layer parameters and
      the output ([Ownership.model_forward_roots]); with the previous theorem, the graph of
      an iteration is reachable from the output and from user handles only *)
  Theorem iteration_roots : forall (s s1 : state) x out,
      model_forward O s x = Some (s1, out) ->
      st_output s1 = Some out /\
      roots s1 = Ownership.pool_handles (st_pool s1) ++ model_params s1 ++ [out].
  Proof. intros s s1 x out H. exact (Ownership.model_forward_roots O s s1 x out H). Qed.
End TrainLoop.

(** * Example over exact integers: one dense layer 2 -> 1, mean squared error *)

From Coq Require Import ZArith.

Module TrainExamples.
  Open Scope Z_scope.

  Definition net : @instr Z := IModel [LDense 2 1 ANone [3; 4] [5]] CMse 1.

  Definition batches : list (@batch Z) :=
    [ (([1%nat; 2%nat], [1; 2]), ([1%nat; 1%nat], [10]));
      (([1%nat; 2%nat], [1; 1]), ([1%nat; 1%nat], [0])) ].

  (** the program runs; the state after construction and the state after both iterations
      are [ready] (by the theorems); the parameters went [3;4],[5] -> [-9;-20],[-7] ->
      [135;124],[65] and hold no gradient *)
  Example train_example :
    exists s1 o1 s',
      step Z_ops (init_state Z_ops) net = Some (s1, o1) /\
      exec Z_ops s1 (train_prog 1 batches) = Some s' /\
      ready s1 /\ ready s' /\
      o_params s' = [ (1%nat, [1%nat; 1%nat; 2%nat], [63; 52]); (3%nat, [], []);
                      (1%nat, [1%nat; 1%nat], [65]); (3%nat, [], []) ].
  Proof.
    assert (H1 : exists s1 o1, step Z_ops (init_state Z_ops) net = Some (s1, o1))
      by (vm_compute; eexists; eexists; reflexivity).
    destruct H1 as (s1 & o1 & H1).
    assert (Hr1 : ready s1) by (apply (model_construction_ready Z_ops _ _ _ _ _ _ (good_init Z_ops) H1)).
    assert (H2 : exists s', exec Z_ops s1 (train_prog 1 batches) = Some s' /\
                            o_params s' = [ (1%nat, [1%nat; 1%nat; 2%nat], [63; 52]); (3%nat, [], []);
                                            (1%nat, [1%nat; 1%nat], [65]); (3%nat, [], []) ]).
    { vm_compute in H1. injection H1 as H1 _. subst s1. vm_compute. eexists. split; reflexivity. }
    destruct H2 as (s' & H2 & H3).
    exists s1, o1, s'. split; [exact H1 |]. split; [exact H2 |]. split; [exact Hr1 |].
    split; [| exact H3]. apply (train_prog_ready Z_ops batches 1 s1 s' Hr1 H2).
  Qed.
  (** the hypotheses of [train_iteration] are satisfiable: the first iteration above, as
      direct calls *)
  Lemma Z_cring : Sums.is_cring Z_ops.
  Proof. exact InitialRing.Zth. Qed.

  Example train_iteration_instance :
    exists s x s1 out t s2 loss s3,
      ready s /\ hvalid (st_nodes s) x /\
      model_forward Z_ops s x = Some (s1, out) /\
      hvalid (st_nodes s1) t /\
      model_backward Z_ops s1 t = Some (s2, loss) /\
      model_update Z_ops s2 = Some s3 /\
      loss = 36 /\ ready s3.
  Proof.
    assert (H : exists s, exec Z_ops (init_state Z_ops)
                               [net; ILeaf [1%nat; 2%nat] [1; 2] false;
                                ILeaf [1%nat; 1%nat] [10] false] = Some s)
      by (vm_compute; eexists; reflexivity).
    destruct H as (s & H).
    assert (Hr : ready s).
    { cbn [exec] in H.
      apply obind_some in H. destruct H as ([s1 o1] & H1 & H). cbn [fst] in H.
      apply obind_some in H. destruct H as ([s2 o2] & H2 & H). cbn [fst] in H.
      apply obind_some in H. destruct H as ([s3 o3] & H3 & H). cbn [fst] in H.
      injection H as H. subst s.
      pose proof (model_construction_ready Z_ops _ _ _ _ _ _ (good_init Z_ops) H1) as Hr1.
      pose proof (step_leaf_ready Z_ops _ _ _ _ _ _ Hr1 H2) as Hr2.
      apply (step_leaf_ready Z_ops _ _ _ _ _ _ Hr2 H3). }
    assert (Hall : exists s1 out s2 loss s3,
               hvalid (st_nodes s) (mkh 2 false false) /\
               model_forward Z_ops s (mkh 2 false false) = Some (s1, out) /\
               hvalid (st_nodes s1) (mkh 3 false false) /\
               model_backward Z_ops s1 (mkh 3 false false) = Some (s2, loss) /\
               model_update Z_ops s2 = Some s3 /\ loss = 36).
    { vm_compute in H. injection H as H. subst s.
      eexists. eexists. eexists. eexists. eexists.
      split; [unfold hvalid; simpl; lia |].
      split; [vm_compute; reflexivity |].
      split; [unfold hvalid; simpl; lia |].
      split; [vm_compute; reflexivity |].
      split; [vm_compute; reflexivity | reflexivity]. }
    destruct Hall as (s1 & out & s2 & loss & s3 & Hx & Hf & Ht & Hb & Hu & Hl).
    destruct (train_iteration Z_ops Z_cring s _ s1 out _ s2 loss s3 Hr Hx Hf Ht Hb Hu)
      as (_ & _ & _ & _ & _ & _ & _ & _ & _ & _ & _ & _ & _ & _ & _ & _ & _ & _ & Hr3).
    exists s, (mkh 2 false false), s1, out, (mkh 3 false false), s2, loss, s3.
    repeat (split; [assumption |]). exact Hr3.
  Qed.
End TrainExamples.

Print Assumptions ready_spelled.
Print Assumptions model_construction_ready.
Print Assumptions model_forward_armed.
Print Assumptions model_backward_armed.
Print Assumptions model_update_ready.
Print Assumptions model_backward_slots.
Print Assumptions train_iteration.
Print Assumptions iteration_loss_value.
Print Assumptions batch_prog_ready.
Print Assumptions train_prog_ready.
Print Assumptions train_prog_iterations_ready.
Print Assumptions train_ready.
Print Assumptions train_iterations_ready.
Print Assumptions double_backward_slots.
Print Assumptions update_no_leak.
Print Assumptions iteration_roots.
Print Assumptions TrainExamples.train_example.
Print Assumptions TrainExamples.train_iteration_instance.
