(** Per-closure support for C01: the local transpose identity ([Proofs/LocalAdjoint.v])
    re-stated for a fixed [bop_code] against [fwd_of_code], and "liftability": when the
    forward operation succeeds on the values it also succeeds on their dual-number lifts,
    with the same values.  Both are proved for the closures whose local identity is
    available; the end-to-end theorem takes them as hypotheses on the codes of the graph. *)

From Coq Require Import List Arith Bool Lia PeanoNat.
From Corgi Require Import Lib.OptionMonad Lib.Sums Model.Scalar Model.Arr Model.SlicedOp
     Model.Elementwise Model.Linalg Model.Image Model.Ops
     Proofs.ArrFacts Proofs.BroadcastDims Proofs.EwSpec Proofs.ReduceSpec Proofs.FlattenSpec
     Proofs.DualLift Proofs.LocalAdjoint Proofs.OpsWf Proofs.FwdCode.
Import ListNotations.

Section CodeSupport.
  Context {F : Type} (O : ScalarOps F).
  Local Notation D2 := (dual_ops O).

  (** side condition on the operands (beyond what the forward success gives) *)
  Definition code_pre (code : bop_code F) (cs : list (arr F)) : Prop :=
    match code with
    | BSum k _ => k <= length (dims (nth 0 cs dummy_arr))
    | _ => True
    end.

  (** the local transpose identity of the closure [code] *)
  Definition code_supported (code : bop_code F) (d : list nat) : Prop :=
    forall (cs ts : list (arr F)) (flags : list bool) (delta : arr F)
           (RD : arr (@dual F)) (ds : list (option (arr F))),
      length cs = arity code -> Forall wf cs -> Forall2 tangent_for cs ts -> code_pre code cs ->
      fwd_of_code D2 (inj2 O) code d (lift_children O 0 flags cs ts) = Some RD ->
      code_fits code cs (primal RD) ->
      wf delta -> dims delta = dims RD ->
      run_bop O code cs flags delta = Some ds ->
      exists xs, child_terms O 0 flags cs ts ds xs /\
                 dot O (vals delta) (vals (tangent RD)) = vsum O xs.

  (** the forward operation lifts to dual numbers *)
  Definition code_liftable (code : bop_code F) (d : list nat) : Prop :=
    forall (cs ts : list (arr F)) (flags : list bool) (v : arr F),
      length cs = arity code -> Forall wf cs -> Forall2 tangent_for cs ts -> code_pre code cs ->
      fwd_of_code O (fun s => s) code d cs = Some v ->
      exists RD, fwd_of_code D2 (inj2 O) code d (lift_children O 0 flags cs ts) = Some RD /\
                 primal RD = v.

  Definition code_ok (code : bop_code F) (d : list nat) : Prop :=
    code_supported code d /\ code_liftable code d.

  (** * Generic facts *)

  Lemma fwd_of_code_wf : forall {G} (OG : ScalarOps G) (inj : F -> G) code d (cs : list (arr G)) r,
      Forall wf cs -> fwd_of_code OG inj code d cs = Some r -> wf r.
  Proof.
    intros G OG inj code d cs r Hwf H.
    destruct code as [ | | | |s| |e| |cached|k target| |ta tb|depth rows cols sr sc fr fc
                      |fcount stride| |cached|cu];
      try (eapply custom_forward_wf; exact H);
      destruct cs as [|c0 [|c1 [|c2 [|c3 l]]]]; cbn [fwd_of_code] in H; try discriminate H.
    - eapply a_add_wf; exact H.
    - eapply a_mul_wf; exact H.
    - eapply a_div_wf; exact H.
    - eapply a_neg_wf; exact H.
    - eapply a_scale_wf; exact H.
    - eapply a_reciprocal_wf; exact H.
    - eapply a_powf_wf; exact H.
    - eapply a_ln_wf; exact H.
    - eapply a_exp_wf; exact H.
    - inversion Hwf; subst. eapply a_sum_wf; eassumption.
    - apply a_reshape_wf in H. tauto.
    - eapply a_matmul_wf; exact H.
    - eapply unroll_blocks_wf; exact H.
    - eapply expand_conv_wf; exact H.
    - eapply a_relu_wf; exact H.
    - eapply a_sigmoid_wf; exact H.
  Qed.

  Lemma lift_children_wf : forall flags cs ts i,
      Forall wf cs -> Forall2 tangent_for cs ts -> Forall wf (lift_children O i flags cs ts).
  Proof.
    intros flags cs. induction cs as [|c cs IH]; intros ts i Hwf Hts.
    - constructor.
    - inversion Hts as [|? t ? ts' Ht Hts']; subst. inversion Hwf as [|? ? Hc Hwf']; subst.
      cbn [lift_children]. constructor.
      + apply lift_wf; [exact Hc | apply mask_tangent_for; exact Ht].
      + apply IH; assumption.
  Qed.

  Lemma lift_children_length : forall flags cs ts i,
      length cs = length ts -> length (lift_children O i flags cs ts) = length cs.
  Proof.
    intros flags cs. induction cs as [|c cs IH]; intros [|t ts] i H; simpl in *; try lia.
    f_equal. apply IH. lia.
  Qed.

  (** ** destructing the operand lists *)

  Lemma cs1 : forall {A} (cs : list A), length cs = 1 -> exists a, cs = [a].
  Proof. intros A [|a [|b l]] H; simpl in H; try lia. exists a. reflexivity. Qed.

  Lemma cs2 : forall {A} (cs : list A), length cs = 2 -> exists a b, cs = [a; b].
  Proof. intros A [|a [|b [|c l]]] H; simpl in H; try lia. exists a, b. reflexivity. Qed.

  Lemma ts1 : forall (a : arr F) ts, Forall2 tangent_for [a] ts -> exists t, ts = [t] /\ tangent_for a t.
  Proof.
    intros a ts H. inversion H as [|? t ? ts' Ht Hts']; subst. inversion Hts'; subst.
    exists t. split; [reflexivity | exact Ht].
  Qed.

  Lemma ts2 : forall (a b : arr F) ts,
      Forall2 tangent_for [a; b] ts ->
      exists ta tb, ts = [ta; tb] /\ tangent_for a ta /\ tangent_for b tb.
  Proof.
    intros a b ts H. inversion H as [|? ta ? ts' Hta Hts']; subst.
    destruct (ts1 b ts' Hts') as (tb & -> & Htb). exists ta, tb. tauto.
  Qed.

  (** ** liftability of the mapped and element-wise operations *)

  Lemma map_liftable : forall (f : F -> F) (fD : @dual F -> @dual F) (a t v : arr F),
      (forall X, fst (fD X) = f (fst X)) ->
      wf a -> tangent_for a t -> map_arr f a = Some v ->
      exists RD, map_arr fD (lift a t) = Some RD /\ primal RD = v.
  Proof.
    intros f fD a t v Hf Hwa Ht Hv.
    pose proof (lift_wf a t Hwa Ht) as HwA.
    exists (map_result fD (lift a t)). split; [apply map_arr_closed; exact HwA |].
    pose proof (map_lifted_primal O f fD a t _ Hf Hwa Ht (map_arr_closed fD _ HwA)) as Hp.
    congruence.
  Qed.

  Lemma ew_liftable : forall (f : F -> F -> F) (fD : @dual F -> @dual F -> @dual F)
                             (a ta b tb v : arr F),
      (forall X Y, fst (fD X Y) = f (fst X) (fst Y)) ->
      wf a -> wf b -> tangent_for a ta -> tangent_for b tb ->
      element_wise_op O f a b = Some v ->
      exists RD, element_wise_op D2 fD (lift a ta) (lift b tb) = Some RD /\ primal RD = v.
  Proof.
    intros f fD a ta b tb v Hf Hwa Hwb Hta Htb Hv.
    destruct (element_wise_op_inv O f a b v Hv) as (Hna & Hnb & Hc).
    pose proof (lift_wf a ta Hwa Hta) as HwA. pose proof (lift_wf b tb Hwb Htb) as HwB.
    pose proof (element_wise_op_closed D2 fD (lift a ta) (lift b tb) HwA HwB Hna Hnb Hc) as HR.
    eexists. split; [exact HR |].
    pose proof (ew_lifted_primal O f fD a ta b tb _ Hf Hwa Hwb Hta Htb HR) as Hp. congruence.
  Qed.

  (** * The closures with a proved local identity *)

  Definition proven_code (code : bop_code F) : bool :=
    match code with
    | BAdd | BMul | BNeg | BScale _ | BReshape | BSum _ _ | BPowf _ | BExp _ | BRelu => true
    | _ => false
    end.

  Definition proven_code_div (code : bop_code F) : bool :=
    match code with
    | BDiv | BLn | BRecip => true
    | _ => false
    end.

  Section Ring.
    Hypothesis R : is_cring O.

    Ltac use_local Hloc :=
      let cs := fresh "cs" in let ts := fresh "ts" in let flags := fresh "flags" in
      let delta := fresh "delta" in let RD := fresh "RD" in let ds := fresh "ds" in
      let Hlen := fresh "Hlen" in let Hwf := fresh "Hwf" in let Hts := fresh "Hts" in
      let Hpre := fresh "Hpre" in let Hfwd := fresh "Hfwd" in let Hfit := fresh "Hfit" in
      let Hwd := fresh "Hwd" in let Hdd := fresh "Hdd" in let Hrun := fresh "Hrun" in
      intros cs ts flags delta RD ds Hlen Hwf Hts Hpre Hfwd Hfit Hwd Hdd Hrun;
      cbn [arity] in Hlen;
      refine (Hloc cs ts flags delta RD ds Hlen _ Hwf Hts _ Hwd Hdd _).

    Lemma fwd2_eq : forall {G} (f : arr G -> arr G -> option (arr G)) (l : list (arr G)) x,
        match l with [a; b] => f a b | _ => None end = x -> fwd2 f l = x.
    Proof. intros G f l x H. exact H. Qed.

    Theorem proven_supported : forall code d, proven_code code = true -> code_supported code d.
    Proof.
      intros code d Hp. destruct code; try discriminate Hp; clear Hp.
      - (* BAdd *) use_local (add_local O R); [exact I | exact Hfwd | exact Hrun].
      - (* BMul *) use_local (mul_local O R); [exact I | exact Hfwd | exact Hrun].
      - (* BNeg *) use_local (neg_local O R); [exact I | exact Hfwd | exact Hrun].
      - (* BScale *) use_local (scale_local O R s); [exact I | exact Hfwd | exact Hrun].
      - (* BPowf *) use_local (powf_local O R e); [exact I | exact Hfwd | exact Hrun].
      - (* BExp *) use_local (exp_local O R); [exact I | exact Hfwd |].
        cbn [code_fits] in Hfit. rewrite <- Hfit. exact Hrun.
      - (* BSum *) use_local (sum_local O R k).
        + cbn [code_fits code_pre] in Hfit, Hpre. unfold sum_pre. lia.
        + exact Hfwd.
        + cbn [code_fits] in Hfit. destruct Hfit as [_ Hfit]. unfold sum_code.
          rewrite <- Hfit. exact Hrun.
      - (* BReshape *) use_local (reshape_local O R d); [exact I | exact Hfwd | exact Hrun].
      - (* BRelu *) use_local (relu_local O R); [exact I | exact Hfwd | exact Hrun].
    Qed.

    Theorem proven_liftable : forall code d, proven_code code = true -> code_liftable code d.
    Proof.
      intros code d Hp cs ts flags v Hlen Hwf Hts Hpre Hv.
      destruct code; try discriminate Hp; clear Hp; cbn [arity] in Hlen.
      - (* BAdd *)
        destruct (cs2 cs Hlen) as (a & b & ->). destruct (ts2 a b ts Hts) as (ta & tb & -> & Hta & Htb).
        inversion Hwf as [|? ? Hwa Hwf1]; subst. inversion Hwf1 as [|? ? Hwb _]; subst.
        cbn [fwd_of_code lift_children] in *.
        apply (ew_liftable (fadd O) (fadd D2)); try assumption;
          try (apply mask_tangent_for; assumption). reflexivity.
      - (* BMul *)
        destruct (cs2 cs Hlen) as (a & b & ->). destruct (ts2 a b ts Hts) as (ta & tb & -> & Hta & Htb).
        inversion Hwf as [|? ? Hwa Hwf1]; subst. inversion Hwf1 as [|? ? Hwb _]; subst.
        cbn [fwd_of_code lift_children] in *.
        apply (ew_liftable (fmul O) (fmul D2)); try assumption;
          try (apply mask_tangent_for; assumption). reflexivity.
      - (* BNeg *)
        destruct (cs1 cs Hlen) as (a & ->). destruct (ts1 a ts Hts) as (t & -> & Ht).
        inversion Hwf as [|? ? Hwa _]; subst. cbn [fwd_of_code lift_children] in *.
        apply (map_liftable (fun x => fmul O x (m1 O)) (fun x => fmul D2 x (m1 D2)));
          try assumption; [| apply mask_tangent_for; assumption].
        intros X. reflexivity.
      - (* BScale *)
        destruct (cs1 cs Hlen) as (a & ->). destruct (ts1 a ts Hts) as (t & -> & Ht).
        inversion Hwf as [|? ? Hwa _]; subst. cbn [fwd_of_code lift_children] in *.
        apply (map_liftable (fun x => fmul O x s) (fun x => fmul D2 x (inj2 O s)));
          try assumption; [| apply mask_tangent_for; assumption].
        intros X. reflexivity.
      - (* BPowf *)
        destruct (cs1 cs Hlen) as (a & ->). destruct (ts1 a ts Hts) as (t & -> & Ht).
        inversion Hwf as [|? ? Hwa _]; subst. cbn [fwd_of_code lift_children] in *.
        apply (map_liftable (fun x => fpow O x e) (fun x => fpow D2 x (inj2 O e)));
          try assumption; [| apply mask_tangent_for; assumption].
        intros X. reflexivity.
      - (* BExp *)
        destruct (cs1 cs Hlen) as (a & ->). destruct (ts1 a ts Hts) as (t & -> & Ht).
        inversion Hwf as [|? ? Hwa _]; subst. cbn [fwd_of_code lift_children] in *.
        apply (map_liftable (fexp O) (fexp D2));
          try assumption; [| apply mask_tangent_for; assumption].
        intros X. reflexivity.
      - (* BSum *)
        destruct (cs1 cs Hlen) as (a & ->). destruct (ts1 a ts Hts) as (t & -> & Ht).
        inversion Hwf as [|? ? Hwa _]; subst. cbn [fwd_of_code lift_children code_pre nth] in *.
        assert (Ht' : tangent_for a (mask O (flag flags 0) t)) by (apply mask_tangent_for; exact Ht).
        destruct (Nat.eq_dec k 0) as [Hk0 | Hk0].
        + subst k. unfold a_sum in *. cbn [Nat.eqb] in *. injection Hv as Hv. subst v.
          eexists. split; [reflexivity |]. apply primal_lift.
          apply tangent_for_length; assumption.
        + assert (Hk : 1 <= k <= length (dims a)) by lia.
          pose proof (a_sum_closed D2 k (lift a _) (lift_wf a _ Hwa Ht') Hk) as HR.
          eexists. split; [exact HR |].
          destruct (sum_lifted O k a _ _ Hwa Ht' Hk HR) as (_ & _ & Hs). congruence.
      - (* BReshape *)
        destruct (cs1 cs Hlen) as (a & ->). destruct (ts1 a ts Hts) as (t & -> & Ht).
        inversion Hwf as [|? ? Hwa _]; subst. cbn [fwd_of_code lift_children] in *.
        assert (Ht' : tangent_for a (mask O (flag flags 0) t)) by (apply mask_tangent_for; exact Ht).
        apply a_reshape_spec in Hv. destruct Hv as (Hd & Hpd & ->).
        assert (HR : a_reshape d (lift a (mask O (flag flags 0) t))
                     = Some {| dims := d; vals := vals (lift a (mask O (flag flags 0) t)) |}).
        { apply a_reshape_spec. split; [exact Hd |]. split; [| reflexivity].
          cbn [lift vals]. unfold dual. rewrite combine_length.
          rewrite (tangent_for_length a _ Hwa Ht'), Nat.min_id. exact Hpd. }
        eexists. split; [exact HR |].
        destruct (reshape_lifted d a _ _ Hwa Ht' HR) as (_ & Hp & _). exact Hp.
      - (* BRelu *)
        destruct (cs1 cs Hlen) as (a & ->). destruct (ts1 a ts Hts) as (t & -> & Ht).
        inversion Hwf as [|? ? Hwa _]; subst. cbn [fwd_of_code lift_children] in *.
        apply (map_liftable (fun x => if fgt0 O x then x else f0 O)
                            (fun x => if fgt0 D2 x then x else f0 D2));
          try assumption; [| apply mask_tangent_for; assumption].
        intros X. cbn [fgt0 dual_ops]. destruct (fgt0 O (fst X)); reflexivity.
    Qed.

    Corollary proven_ok : forall code d, proven_code code = true -> code_ok code d.
    Proof. intros code d H. split; [apply proven_supported | apply proven_liftable]; exact H. Qed.

    (** ** the division-like closures, under the hypotheses of [LocalAdjoint.Section Division] *)

    Hypothesis Hdiv : forall a b, fdiv O a b = fmul O a (fdiv O (f1 O) b).
    Hypothesis Hinv_mul : forall a b,
        fdiv O (f1 O) (fmul O a b) = fmul O (fdiv O (f1 O) a) (fdiv O (f1 O) b).
    Hypothesis Hpow2 : forall x, fpow O x (two O) = fmul O x x.

    Theorem proven_div_ok : forall code d, proven_code_div code = true -> code_ok code d.
    Proof.
      intros code d Hp. split.
      - destruct code; try discriminate Hp; clear Hp.
        + use_local (div_local O R Hdiv Hpow2); [exact I | exact Hfwd | exact Hrun].
        + use_local (recip_local O R Hdiv Hinv_mul Hpow2); [exact I | exact Hfwd | exact Hrun].
        + use_local (ln_local O R Hdiv); [exact I | exact Hfwd | exact Hrun].
      - intros cs ts flags v Hlen Hwf Hts Hpre Hv.
        destruct code; try discriminate Hp; clear Hp; cbn [arity] in Hlen.
        + destruct (cs2 cs Hlen) as (a & b & ->).
          destruct (ts2 a b ts Hts) as (ta & tb & -> & Hta & Htb).
          inversion Hwf as [|? ? Hwa Hwf1]; subst. inversion Hwf1 as [|? ? Hwb _]; subst.
          cbn [fwd_of_code lift_children] in *.
          apply (ew_liftable (fdiv O) (fdiv D2)); try assumption;
            try (apply mask_tangent_for; assumption). reflexivity.
        + destruct (cs1 cs Hlen) as (a & ->). destruct (ts1 a ts Hts) as (t & -> & Ht).
          inversion Hwf as [|? ? Hwa _]; subst. cbn [fwd_of_code lift_children] in *.
          apply (map_liftable (fun x => fdiv O (f1 O) x) (fun x => fdiv D2 (f1 D2) x));
            try assumption; [| apply mask_tangent_for; assumption].
          intros X. reflexivity.
        + destruct (cs1 cs Hlen) as (a & ->). destruct (ts1 a ts Hts) as (t & -> & Ht).
          inversion Hwf as [|? ? Hwa _]; subst. cbn [fwd_of_code lift_children] in *.
          apply (map_liftable (fln O) (fln D2));
            try assumption; [| apply mask_tangent_for; assumption].
          intros X. reflexivity.
    Qed.
  End Ring.
End CodeSupport.

Print Assumptions proven_ok.
Print Assumptions proven_div_ok.
