(** Well-formedness of everything the array operations return (all of them end in the
    checking constructor [mk]), of what the derivative closures [run_bop] return, and the
    contract of [run_bop]: a successful run returns one slot per operand, filled exactly
    for the operands whose flag is set (or unconditionally, for the closures that do not
    look at the flag). *)

From Coq Require Import List Arith Bool Lia PeanoNat.
From Corgi Require Import Lib.OptionMonad Model.Scalar Model.Arr Model.SlicedOp
     Model.Elementwise Model.Linalg Model.Image Model.Ops
     Proofs.ArrFacts Proofs.BroadcastDims Proofs.EngineBase Proofs.SlicedOpSpec Proofs.EwSpec
     Proofs.ReduceSpec Proofs.FlattenSpec.
Import ListNotations.

(** invert a chain of monadic binds *)
Ltac inv_bind H :=
  repeat match type of H with
         | obind _ _ = Some _ =>
           let a := fresh "a" in let Ha := fresh "Ha" in
           apply obind_some in H; destruct H as (a & Ha & H)
         end.

Section OpsWf.
  Context {F : Type} (O : ScalarOps F).

  Lemma mk_wf : forall d (v : list F) a, mk d v = Some a -> wf a /\ dims a = d.
  Proof.
    intros d v a H. apply mk_some in H. destruct H as (H1 & H2 & H3). subst a.
    split; [split; assumption | reflexivity].
  Qed.

  Lemma sliced_op_wf : forall (arrays : list (arr F)) op in_dims out_dims k fl c,
      sliced_op O arrays op in_dims out_dims k fl = Some c -> wf c.
  Proof.
    intros arrays op in_dims out_dims k fl c H. rewrite sliced_op_unfold in H. cbv zeta in H.
    inv_bind H. apply mk_wf in H. tauto.
  Qed.

  Lemma map_arr_wf : forall (f : F -> F) (a c : arr F),
      map_arr f a = Some c -> wf c /\ dims c = dims a.
  Proof. intros f a c H. unfold map_arr in H. apply mk_wf in H. exact H. Qed.

  Lemma element_wise_op_wf : forall f (a b c : arr F), element_wise_op O f a b = Some c -> wf c.
  Proof.
    intros f a b c H. unfold element_wise_op in H. inv_bind H.
    eapply sliced_op_wf. exact H.
  Qed.

  Lemma element_wise_op_same : forall f (a b c : arr F),
      dims a = dims b -> element_wise_op O f a b = Some c -> wf c /\ dims c = dims a.
  Proof.
    intros f a b c Hd H. unfold element_wise_op in H. inv_bind H.
    apply sliced_op_shape in H. destruct H as [Hw Hdc]. split; [exact Hw |].
    apply element_wise_dimensions_spec in Ha. destruct Ha as [_ Ha].
    rewrite <- Hd, bmax_idem in Ha. congruence.
  Qed.

  Lemma a_add_wf : forall a b c : arr F, a_add O a b = Some c -> wf c.
  Proof. intros a b c. apply element_wise_op_wf. Qed.
  Lemma a_mul_wf : forall a b c : arr F, a_mul O a b = Some c -> wf c.
  Proof. intros a b c. apply element_wise_op_wf. Qed.
  Lemma a_div_wf : forall a b c : arr F, a_div O a b = Some c -> wf c.
  Proof. intros a b c. apply element_wise_op_wf. Qed.

  Lemma a_add_same : forall a b c : arr F,
      dims a = dims b -> a_add O a b = Some c -> wf c /\ dims c = dims a.
  Proof. intros a b c. apply element_wise_op_same. Qed.

  Lemma a_scale_wf : forall s (a c : arr F), a_scale O s a = Some c -> wf c.
  Proof. intros s a c H. apply map_arr_wf in H. tauto. Qed.
  Lemma a_neg_wf : forall a c : arr F, a_neg O a = Some c -> wf c.
  Proof. intros a c H. apply map_arr_wf in H. tauto. Qed.
  Lemma a_reciprocal_wf : forall a c : arr F, a_reciprocal O a = Some c -> wf c.
  Proof. intros a c H. apply map_arr_wf in H. tauto. Qed.
  Lemma a_powf_wf : forall e (a c : arr F), a_powf O e a = Some c -> wf c.
  Proof. intros e a c H. apply map_arr_wf in H. tauto. Qed.
  Lemma a_ln_wf : forall a c : arr F, a_ln O a = Some c -> wf c.
  Proof. intros a c H. apply map_arr_wf in H. tauto. Qed.
  Lemma a_exp_wf : forall a c : arr F, a_exp O a = Some c -> wf c.
  Proof. intros a c H. apply map_arr_wf in H. tauto. Qed.
  Lemma a_relu_wf : forall a c : arr F, a_relu O a = Some c -> wf c.
  Proof. intros a c H. apply map_arr_wf in H. tauto. Qed.
  Lemma a_sigmoid_wf : forall a c : arr F, a_sigmoid O a = Some c -> wf c.
  Proof. intros a c H. apply map_arr_wf in H. tauto. Qed.

  Lemma a_sum_wf : forall k (a c : arr F), wf a -> a_sum O k a = Some c -> wf c.
  Proof.
    intros k a c Hw H. unfold a_sum in H. destruct (k =? 0).
    - injection H as H. subst c. exact Hw.
    - eapply sliced_op_wf. exact H.
  Qed.

  Lemma a_reshape_wf : forall d (a c : arr F), a_reshape d a = Some c -> wf c /\ dims c = d.
  Proof. intros d a c H. unfold a_reshape in H. apply mk_wf in H. exact H. Qed.

  Lemma a_matmul_wf : forall (a : arr F) ta b tb c r, a_matmul O a ta b tb c = Some r -> wf r.
  Proof.
    intros a ta b tb c r H. unfold a_matmul in H. inv_bind H. eapply sliced_op_wf. exact H.
  Qed.

  Lemma unroll_blocks_wf : forall (a : arr F) sr sc fr fc r,
      unroll_blocks O a sr sc fr fc = Some r -> wf r.
  Proof.
    intros a sr sc fr fc r H. unfold unroll_blocks in H. cbv zeta in H. inv_bind H.
    eapply sliced_op_wf. exact H.
  Qed.

  Lemma roll_blocks_wf : forall summed (a : arr F) depth rows cols sr sc fr fc r,
      roll_blocks O summed a depth rows cols sr sc fr fc = Some r -> wf r.
  Proof.
    intros summed a depth rows cols sr sc fr fc r H. unfold roll_blocks in H. cbv zeta in H.
    inv_bind H. eapply sliced_op_wf. exact H.
  Qed.

  Lemma expand_conv_wf : forall (a : arr F) rc cc r, expand_conv O a rc cc = Some r -> wf r.
  Proof.
    intros a rc cc r H. unfold expand_conv in H. cbv zeta in H. inv_bind H.
    apply mk_wf in H. tauto.
  Qed.

  Lemma zip_vals_wf : forall f (a b c : arr F), zip_vals f a b = Some c -> wf c.
  Proof. intros f a b c H. unfold zip_vals in H. apply mk_wf in H. tauto. Qed.

  Lemma custom_forward_wf : forall c (args : list (arr F)) r,
      custom_forward O c args = Some r -> wf r.
  Proof.
    intros c args r H.
    destruct c; destruct args as [|a0 [|a1 [|a2 l]]]; simpl in H; try discriminate H;
      eapply zip_vals_wf; exact H.
  Qed.

  Lemma custom_forward_arity : forall c (args : list (arr F)) r,
      custom_forward O c args = Some r ->
      length args = match c with CSq => 1 | _ => 2 end.
  Proof.
    intros c args r H.
    destruct c; destruct args as [|a0 [|a1 [|a2 l]]]; simpl in H; try discriminate H; reflexivity.
  Qed.

  Lemma zeros_wf : forall d (a : arr F), zeros O d = Some a -> wf a.
  Proof. intros d a H. unfold zeros in H. apply mk_wf in H. tauto. Qed.

  Lemma from_flat_wf : forall (v : list F) a, from_flat v = Some a -> wf a.
  Proof. intros v a H. unfold from_flat in H. apply mk_wf in H. tauto. Qed.

  Lemma from_arrays_wf : forall (l : list (arr F)) a, from_arrays l = Some a -> wf a.
  Proof.
    intros l a H. unfold from_arrays in H. destruct l as [|first rest]; [discriminate H |].
    inv_bind H. apply mk_wf in H. tauto.
  Qed.

  Lemma zeros1_wf : wf (zeros1 O).
  Proof. split; [repeat constructor | reflexivity]. Qed.

  (** * Derivative closures *)

  Lemma when_inv : forall b (x : option (arr F)) o,
      when b x = Some o ->
      (b = true /\ exists r, x = Some r /\ o = Some r) \/ (b = false /\ o = None).
  Proof.
    intros b x o H. unfold when in H. destruct b.
    - left. split; [reflexivity |]. inv_bind H. injection H as H. exists a. split; congruence.
    - right. split; [reflexivity | congruence].
  Qed.

  Lemma when_wf : forall b (x : option (arr F)) o d,
      (forall r, x = Some r -> wf r) -> when b x = Some o -> o = Some d -> wf d.
  Proof.
    intros b x o d Hx H Ho. apply when_inv in H.
    destruct H as [(_ & r & Hr & Hor) | (_ & Hn)]; [| congruence].
    apply Hx. congruence.
  Qed.

  Lemma when_filled : forall b (x : option (arr F)) o,
      when b x = Some o -> ((exists d, o = Some d) <-> b = true).
  Proof.
    intros b x o H. apply when_inv in H.
    destruct H as [(Hb & r & _ & Hor) | (Hb & Hn)]; subst.
    - split; [reflexivity | intros _; exists r; reflexivity].
    - split; [intros [d Hd]; discriminate Hd | discriminate].
  Qed.

  Lemma if_filled : forall (b : bool) (x : arr F),
      (exists d, (if b then Some x else None) = Some d) <-> b = true.
  Proof.
    intros b x. destruct b.
    - split; [reflexivity | intros _; exists x; reflexivity].
    - split; [intros [d Hd]; discriminate Hd | discriminate].
  Qed.

  (** everything a closure returns is well-formed when the adjoint it receives is *)
  Definition slots_wf (ds : list (option (arr F))) : Prop :=
    forall i d, nth_error ds i = Some (Some d) -> wf d.

  Lemma slots_wf_nil : slots_wf [].
  Proof. intros i d H. destruct i; discriminate H. Qed.

  Lemma slots_wf_cons : forall o ds,
      (forall d, o = Some d -> wf d) -> slots_wf ds -> slots_wf (o :: ds).
  Proof.
    intros o ds Ho Hds i d H. destruct i as [|i]; simpl in H.
    - injection H as H. apply Ho. exact H.
    - apply (Hds i d H).
  Qed.

  Lemma some_wf : forall (r d : arr F), wf r -> Some r = Some d -> wf d.
  Proof. intros r d Hr H. injection H as H. subst d. exact Hr. Qed.

  Lemma if_wf : forall (b : bool) (x d : arr F), wf x -> (if b then Some x else None) = Some d -> wf d.
  Proof. intros b x d Hx H. destruct b; [injection H as H; subst d; exact Hx | discriminate H]. Qed.

  Ltac use_when :=
    match goal with
    | Hw : when _ _ = Some ?o, Ho : ?o = Some ?d |- wf ?d =>
      eapply (when_wf _ _ o d); [| exact Hw | exact Ho];
      let r := fresh "r" in let Hr := fresh "Hr" in intros r Hr
    end.

  Ltac slots :=
    repeat (first [ apply slots_wf_nil
                  | apply slots_wf_cons; [intros ? ? |] ]).

  Theorem run_bop_wf : forall code (c : list (arr F)) t x ds,
      wf x -> run_bop O code c t x = Some ds -> slots_wf ds.
  Proof.
    intros code c t x ds Hx H.
    destruct code as [ | | | |s| |e| |cached|k target| |ta tb|depth rows cols sr sc fr fc
                      |fcount stride| |cached|cu];
      try destruct cu;
      destruct c as [|c0 [|c1 [|c2 [|c3 l]]]]; cbn [run_bop] in H; try discriminate H;
        cbv zeta in H; inv_bind H; injection H as H; subst ds; slots;
          try (eapply if_wf; eassumption);
          try (eapply some_wf; [| eassumption]);
          try use_when.
    - (* BMul *) eapply a_mul_wf; exact Hr.
    - eapply a_mul_wf; exact Hr.
    - (* BDiv *) eapply a_div_wf; exact Hr.
    - inv_bind Hr.
      eapply a_mul_wf; exact Hr.
    - (* BNeg *) eapply a_neg_wf; eassumption.
    - (* BScale *) eapply a_scale_wf; eassumption.
    - (* BRecip *) eapply a_mul_wf; eassumption.
    - (* BPowf *) eapply a_mul_wf; eassumption.
    - (* BLn *) eapply a_mul_wf; eassumption.
    - (* BExp *) match goal with Hm : mk _ _ = Some _ |- _ => apply mk_wf in Hm; tauto end.
    - (* BSum *) eapply sliced_op_wf; eassumption.
    - (* BReshape *)
      apply a_reshape_wf in Hr. tauto.
    - (* BMatmul *)
      destruct ((length (dims c0) <? 2) && (length (dims c1) <? 2) && negb ta && negb tb);
        [eapply a_mul_wf; exact Hr |].
      destruct ta; eapply a_matmul_wf; exact Hr.
    -
      destruct ((length (dims c0) <? 2) && (length (dims c1) <? 2) && negb ta && negb tb);
        [eapply a_mul_wf; exact Hr |].
      destruct tb; eapply a_matmul_wf; exact Hr.
    - (* BUnroll *)
      eapply roll_blocks_wf; exact Hr.
    - (* BExpand *) match goal with Hm : mk _ _ = Some _ |- _ => apply mk_wf in Hm; tauto end.
    - (* BRelu *) eapply a_mul_wf; eassumption.
    - (* BSigmoid *) match goal with Hm : mk _ _ = Some _ |- _ => apply mk_wf in Hm; tauto end.
    - (* CMul *) eapply zip_vals_wf; exact Hr.
    - eapply zip_vals_wf; exact Hr.
    - (* CAff *) eapply a_scale_wf; exact Hr.
    - (* CSq *) inv_bind Hr.
      eapply zip_vals_wf; exact Hr.
  Qed.

  (** * The closure contract *)

  (** number of operands of a closure *)
  Definition arity (code : bop_code F) : nat :=
    match code with
    | BAdd | BMul | BDiv => 2
    | BMatmul _ _ => 3
    | BCustom CMul | BCustom CAff => 2
    | _ => 1
    end.

  (** closures that return a delta whatever the flag of their operand says *)
  Definition uncond (code : bop_code F) : bool :=
    match code with
    | BNeg | BScale _ | BRecip | BPowf _ | BLn | BExp _ | BSum _ _ | BRelu | BSigmoid _
    | BExpand _ _ => true
    | _ => false
    end.

  Definition filled (ds : list (option (arr F))) (i : nat) : Prop :=
    exists d, nth_error ds i = Some (Some d).

  Lemma filled_0 : forall o ds, filled (o :: ds) 0 <-> exists d : arr F, o = Some d.
  Proof.
    intros o ds. unfold filled. simpl. split; intros [d Hd]; exists d; congruence.
  Qed.

  Lemma filled_S : forall o ds i, filled (o :: ds) (S i) <-> filled ds i.
  Proof. intros o ds i. unfold filled. simpl. tauto. Qed.

  Lemma filled_some : forall (r : arr F), (exists d, Some r = Some d) <-> True.
  Proof. intro r. split; [tauto | intros _; exists r; reflexivity]. Qed.

  Theorem run_bop_contract : forall code (c : list (arr F)) t x ds,
      run_bop O code c t x = Some ds ->
      length ds = arity code /\
      forall i, i < arity code -> (filled ds i <-> (uncond code = true \/ flag t i = true)).
  Proof.
    intros code c t x ds H.
    destruct code as [ | | | |s| |e| |cached|k target| |ta tb|depth rows cols sr sc fr fc
                      |fcount stride| |cached|cu];
      try destruct cu;
      destruct c as [|c0 [|c1 [|c2 [|c3 l]]]]; cbn [run_bop] in H; try discriminate H;
        cbv zeta in H; inv_bind H; injection H as H; subst ds;
          (split; [reflexivity |]); cbn [arity uncond];
            intros i Hi;
            repeat (destruct i as [|i]; [| try lia]);
            rewrite ?filled_S, ?filled_0;
            repeat match goal with
                   | Hw : when _ _ = Some _ |- _ => apply when_filled in Hw
                   end;
            rewrite ?if_filled, ?filled_some;
            intuition (try discriminate; try congruence).
  Qed.
End OpsWf.

Print Assumptions run_bop_wf.
Print Assumptions run_bop_contract.
