(** Value homomorphism: for two scalar instances [O1], [O2] and a map
    [phi : F1 -> F2] preserving the RING operations ([f0 f1 fadd fmul fsub fneg
    fofnat]; nothing is assumed about division, exp, ln, pow or comparisons),
    every ring-only operation of the model commutes with [phi] applied to all
    values, and panics on exactly the same inputs.

    The proof is relational, on the pattern of Proofs/ShapeParametric.v, with the
    relations [hs x y := y = phi x], [hl l1 l2 := l2 = map phi l1] and
    [ha a1 a2 := a2 = map_arr_phi a1]; the equational forms
    [op O2 (map_arr_phi a) .. = option_map map_arr_phi (op O1 a ..)] are corollaries. *)

From Coq Require Import List Arith Bool Lia.
From Corgi Require Import Lib.OptionMonad Lib.IdxDefs Model.Scalar Model.Arr Model.SlicedOp
     Model.Elementwise Model.Linalg Model.Image Model.Ops Proofs.ShapeParametric.
Import ListNotations.

Section RingHom.
  Context {F1 F2 : Type} (O1 : ScalarOps F1) (O2 : ScalarOps F2) (phi : F1 -> F2).

  Record ring_hom : Prop := {
    rh_0 : phi (f0 O1) = f0 O2;
    rh_1 : phi (f1 O1) = f1 O2;
    rh_add : forall x y, phi (fadd O1 x y) = fadd O2 (phi x) (phi y);
    rh_mul : forall x y, phi (fmul O1 x y) = fmul O2 (phi x) (phi y);
    rh_sub : forall x y, phi (fsub O1 x y) = fsub O2 (phi x) (phi y);
    rh_neg : forall x, phi (fneg O1 x) = fneg O2 (phi x);
    rh_ofnat : forall n, phi (fofnat O1 n) = fofnat O2 n
  }.

  Hypothesis RH : ring_hom.

  Definition map_arr_phi (a : arr F1) : arr F2 := {| dims := dims a; vals := map phi (vals a) |}.

  Definition hs (x : F1) (y : F2) : Prop := y = phi x.
  Definition hl (l1 : list F1) (l2 : list F2) : Prop := l2 = map phi l1.
  Definition ha (a1 : arr F1) (a2 : arr F2) : Prop := a2 = map_arr_phi a1.

  (** ** The relations against the equational forms *)

  Lemma orel_hl_eq : forall x y, orel hl x y <-> y = option_map (map phi) x.
  Proof.
    intros [a|] [b|]; simpl; unfold hl; split; intros H; try congruence; try contradiction;
      try discriminate; try exact I.
  Qed.

  Lemma orel_ha_eq : forall x y, orel ha x y <-> y = option_map map_arr_phi x.
  Proof.
    intros [a|] [b|]; simpl; unfold ha; split; intros H; try congruence; try contradiction;
      try discriminate; try exact I.
  Qed.

  Lemma F2_hs_hl : forall l1 l2, Forall2 hs l1 l2 -> hl l1 l2.
  Proof. intros l1 l2 H. unfold hl. induction H; simpl; [reflexivity|]. rewrite H, IHForall2. reflexivity. Qed.

  Lemma hl_F2_hs : forall l1 l2, hl l1 l2 -> Forall2 hs l1 l2.
  Proof. intros l1 l2 ->. induction l1; simpl; constructor; [reflexivity|assumption]. Qed.

  Lemma F2_hl_map : forall l1 l2, Forall2 hl l1 l2 -> l2 = map (map phi) l1.
  Proof. intros l1 l2 H. induction H; simpl; [reflexivity|]. rewrite H, IHForall2. reflexivity. Qed.

  Lemma F2_ha_map : forall l, Forall2 ha l (map map_arr_phi l).
  Proof. induction l; simpl; constructor; [reflexivity|assumption]. Qed.

  Lemma F2_ha_eq : forall l1 l2, Forall2 ha l1 l2 -> l2 = map map_arr_phi l1.
  Proof. intros l1 l2 H. induction H; simpl; [reflexivity|]. rewrite H, IHForall2. reflexivity. Qed.

  Lemma ha_dims : forall a1 a2, ha a1 a2 -> dims a2 = dims a1.
  Proof. intros a1 a2 ->. reflexivity. Qed.

  Lemma ha_vals : forall a1 a2, ha a1 a2 -> hl (vals a1) (vals a2).
  Proof. intros a1 a2 ->. reflexivity. Qed.

  Lemma ha_intro : forall d v1 v2, hl v1 v2 -> ha {| dims := d; vals := v1 |} {| dims := d; vals := v2 |}.
  Proof. intros d v1 v2 ->. reflexivity. Qed.

  Lemma hl_length : forall l1 l2, hl l1 l2 -> length l2 = length l1.
  Proof. intros l1 l2 ->. apply map_length. Qed.

  Lemma ha_length : forall a1 a2, ha a1 a2 -> length (vals a2) = length (vals a1).
  Proof. intros a1 a2 ->. simpl. apply map_length. Qed.

  (** ** Lists *)

  Lemma nth_error_hl : forall l1 l2 i, hl l1 l2 -> orel hs (nth_error l1 i) (nth_error l2 i).
  Proof.
    intros l1 l2 i ->. rewrite nth_error_map. destruct (nth_error l1 i); simpl; [reflexivity|exact I].
  Qed.

  Lemma slice_hl : forall off len l1 l2, hl l1 l2 -> orel hl (slice off len l1) (slice off len l2).
  Proof.
    intros off len l1 l2 ->. unfold slice. rewrite map_length.
    destruct (off + len <=? length l1); cbn [orel]; [|exact I].
    unfold hl. rewrite skipn_map, firstn_map. reflexivity.
  Qed.

  Lemma splice_hl : forall off n1 n2 l1 l2,
      hl n1 n2 -> hl l1 l2 -> hl (splice off n1 l1) (splice off n2 l2).
  Proof.
    intros off n1 n2 l1 l2 -> ->. unfold hl, splice.
    rewrite !map_app, map_length, firstn_map, skipn_map. reflexivity.
  Qed.

  Lemma set_nth_hl : forall i x y l1 l2,
      hs x y -> hl l1 l2 -> orel hl (set_nth i x l1) (set_nth i y l2).
  Proof.
    intros i x y l1 l2 -> ->. unfold set_nth. rewrite map_length.
    destruct (i <? length l1); cbn [orel]; [|exact I].
    unfold hl. rewrite map_app, firstn_map. cbn [map]. rewrite skipn_map. reflexivity.
  Qed.

  Lemma map_repeat_phi : forall x n, map phi (repeat x n) = repeat (phi x) n.
  Proof. intros x n. induction n; simpl; [reflexivity|]. rewrite IHn. reflexivity. Qed.

  Lemma repeat0_hl : forall n, hl (repeat (f0 O1) n) (repeat (f0 O2) n).
  Proof. intros n. unfold hl. rewrite map_repeat_phi, (rh_0 RH). reflexivity. Qed.

  Lemma app_hl : forall l1 l2 m1 m2, hl l1 l2 -> hl m1 m2 -> hl (l1 ++ m1) (l2 ++ m2).
  Proof. intros l1 l2 m1 m2 -> ->. unfold hl. rewrite map_app. reflexivity. Qed.

  Lemma firstn_hl : forall n l1 l2, hl l1 l2 -> hl (firstn n l1) (firstn n l2).
  Proof. intros n l1 l2 ->. unfold hl. apply firstn_map. Qed.

  Lemma skipn_hl : forall n l1 l2, hl l1 l2 -> hl (skipn n l1) (skipn n l2).
  Proof. intros n l1 l2 ->. unfold hl. apply skipn_map. Qed.

  Lemma concat_hl : forall l1 l2, Forall2 hl l1 l2 -> hl (concat l1) (concat l2).
  Proof. intros l1 l2 H. apply F2_hl_map in H. subst l2. unfold hl. rewrite concat_map. reflexivity. Qed.

  Lemma map_same_hl : forall {X} (f : X -> F1) (g : X -> F2) l,
      (forall x, g x = phi (f x)) -> hl (map f l) (map g l).
  Proof. intros X f g l H. unfold hl. rewrite map_map. apply map_ext. exact H. Qed.

  Lemma map_hl : forall (f : F1 -> F1) (g : F2 -> F2) l1 l2,
      (forall x, g (phi x) = phi (f x)) -> hl l1 l2 -> hl (map f l1) (map g l2).
  Proof. intros f g l1 l2 H ->. unfold hl. rewrite !map_map. apply map_ext. exact H. Qed.

  Lemma mapM_same_hl : forall {X} (f : X -> option F1) (g : X -> option F2) l,
      (forall a, orel hs (f a) (g a)) -> orel hl (mapM f l) (mapM g l).
  Proof.
    intros X f g l H. eapply orel_mono; [|apply (mapM_same hs); exact H].
    intros a b K. apply F2_hs_hl. exact K.
  Qed.

  Lemma zip_hl : forall (f : F1 -> F1 -> F1) (g : F2 -> F2 -> F2) a1 a2 b1 b2,
      (forall x y, g (phi x) (phi y) = phi (f x y)) -> hl a1 a2 -> hl b1 b2 ->
      hl (map (fun p => f (fst p) (snd p)) (combine a1 b1))
         (map (fun p => g (fst p) (snd p)) (combine a2 b2)).
  Proof.
    intros f g a1 a2 b1 b2 H -> ->. unfold hl. revert b1.
    induction a1 as [|x a1 IH]; intros [|y b1]; simpl; try reflexivity.
    rewrite H, IH. reflexivity.
  Qed.

  Lemma combine_idx_hl : forall (f : nat * F1 -> F1) (g : nat * F2 -> F2) ns l1 l2,
      (forall n x, g (n, phi x) = phi (f (n, x))) -> hl l1 l2 ->
      hl (map f (combine ns l1)) (map g (combine ns l2)).
  Proof.
    intros f g ns l1 l2 H ->. unfold hl. revert l1.
    induction ns as [|n ns IH]; intros [|x l1]; simpl; try reflexivity.
    rewrite H, IH. reflexivity.
  Qed.

  Lemma vsum_hom : forall l, phi (vsum O1 l) = vsum O2 (map phi l).
  Proof.
    intros l. unfold vsum. rewrite <- (rh_0 RH). generalize (f0 O1).
    induction l as [|x l IH]; intros acc; simpl; [reflexivity|].
    rewrite IH, (rh_add RH). reflexivity.
  Qed.

  Lemma phi_m1 : phi (m1 O1) = m1 O2.
  Proof. unfold m1. rewrite (rh_neg RH), (rh_1 RH). reflexivity. Qed.

  Lemma phi_two : phi (two O1) = two O2.
  Proof. unfold two. rewrite (rh_add RH), (rh_1 RH). reflexivity. Qed.

  (** ** Constructors *)

  Lemma mk_hom : forall d v1 v2, hl v1 v2 -> orel ha (mk d v1) (mk d v2).
  Proof.
    intros d v1 v2 H. unfold mk. rewrite (hl_length _ _ H).
    destruct (dims_valid d); simpl; [|exact I].
    destruct (prod d =? length v1); simpl; [|exact I].
    apply ha_intro. exact H.
  Qed.

  Lemma mk_hom' : forall d1 d2 v1 v2, d2 = d1 -> hl v1 v2 -> orel ha (mk d1 v1) (mk d2 v2).
  Proof. intros d1 d2 v1 v2 -> H. apply mk_hom. exact H. Qed.

  Lemma zeros_hom : forall d, orel ha (zeros O1 d) (zeros O2 d).
  Proof. intros d. unfold zeros. apply mk_hom. apply repeat0_hl. Qed.

  Lemma from_flat_hom : forall v1 v2, hl v1 v2 -> orel ha (from_flat v1) (from_flat v2).
  Proof.
    intros v1 v2 H. unfold from_flat. apply mk_hom'; [rewrite (hl_length _ _ H); reflexivity|exact H].
  Qed.

  Lemma from_arrays_hom : forall l1 l2,
      Forall2 ha l1 l2 -> orel ha (from_arrays l1) (from_arrays l2).
  Proof.
    intros l1 l2 H. destruct H as [|a1 a2 l1 l2 Ha Hl]; simpl; [exact I|].
    apply check_rel.
    - apply (forallb_F2 ha); [|exact Hl].
      intros b1 b2 Hb. rewrite (ha_dims _ _ Hb), (ha_dims _ _ Ha). reflexivity.
    - apply mk_hom'.
      + rewrite (F2_length _ _ _ Hl), (ha_dims _ _ Ha). reflexivity.
      + apply app_hl; [apply ha_vals; exact Ha|].
        apply concat_hl. apply (F2_map ha); [|exact Hl].
        intros b1 b2 Hb. apply ha_vals. exact Hb.
  Qed.

  (** ** [sliced_op] *)

  (** the closure commutes with [phi] *)
  Definition sop_hom (op1 : @sop F1) (op2 : @sop F2) : Prop :=
    forall cur1 cur2 sl1 sl2,
      hl cur1 cur2 -> Forall2 hl sl1 sl2 -> orel hl (op1 cur1 sl1) (op2 cur2 sl2).

  Lemma sliced_valid_hom : forall k in_dims a1 a2,
      ha a1 a2 -> sliced_valid k in_dims a1 = sliced_valid k in_dims a2.
  Proof. intros k in_dims a1 a2 H. unfold sliced_valid. rewrite (ha_dims _ _ H). reflexivity. Qed.

  Lemma group_length_hom : forall k a1 a2, ha a1 a2 -> group_length k a2 = group_length k a1.
  Proof. intros k a1 a2 H. unfold group_length. rewrite (ha_dims _ _ H). reflexivity. Qed.

  Lemma operand_slice_hom : forall k lc idx a1 a2,
      ha a1 a2 -> orel hl (operand_slice k lc idx a1) (operand_slice k lc idx a2).
  Proof.
    intros k lc idx a1 a2 H. unfold operand_slice.
    rewrite (group_length_hom k _ _ H), (ha_dims _ _ H).
    apply slice_hl. apply ha_vals. exact H.
  Qed.

  Lemma sliced_loop_hom : forall op1 op2 l1 l2 k lc lead out_dims ogl n idx out1 out2,
      sop_hom op1 op2 -> Forall2 ha l1 l2 -> hl out1 out2 ->
      orel hl (sliced_loop op1 l1 k lc lead out_dims ogl n idx out1)
              (sliced_loop op2 l2 k lc lead out_dims ogl n idx out2).
  Proof.
    intros op1 op2 l1 l2 k lc lead out_dims ogl n idx out1 out2 Hop Hl.
    revert idx out1 out2. induction n as [|n IH]; intros idx out1 out2 Hout; simpl; [exact Hout|].
    eapply obind_rel.
    { apply (mapM_F2 ha hl); [|exact Hl]. intros a b Hab. apply operand_slice_hom. exact Hab. }
    intros sl1 sl2 Hsl.
    eapply obind_rel; [apply slice_hl; exact Hout|]. intros cur1 cur2 Hcur.
    eapply obind_rel; [apply Hop; [exact Hcur|exact Hsl]|]. intros new1 new2 Hnew.
    apply check_rel; [rewrite (hl_length _ _ Hnew); reflexivity|].
    apply IH. apply splice_hl; assumption.
  Qed.

  Theorem sliced_op_hom : forall l1 l2 op1 op2 in_dims out_dims k flatten,
      sop_hom op1 op2 -> Forall2 ha l1 l2 ->
      orel ha (sliced_op O1 l1 op1 in_dims out_dims k flatten)
              (sliced_op O2 l2 op2 in_dims out_dims k flatten).
  Proof.
    intros l1 l2 op1 op2 in_dims out_dims k flatten Hop Hl. unfold sliced_op.
    apply check_rel.
    { apply (forallb_F2 ha); [|exact Hl]. intros a b Hab. apply sliced_valid_hom. exact Hab. }
    eapply obind_rel with (R := hl).
    - destruct (length in_dims - k =? 0).
      + eapply obind_rel.
        { apply (mapM_F2 ha hl); [|exact Hl]. intros a b Hab.
          rewrite (group_length_hom k _ _ Hab). apply slice_hl. apply ha_vals. exact Hab. }
        intros sl1 sl2 Hsl.
        eapply obind_rel; [apply slice_hl; apply repeat0_hl|]. intros cur1 cur2 Hcur.
        eapply obind_rel; [apply Hop; [exact Hcur|exact Hsl]|]. intros new1 new2 Hnew.
        apply check_rel; [rewrite (hl_length _ _ Hnew); reflexivity|].
        cbn [orel]. apply splice_hl; [exact Hnew|apply repeat0_hl].
      + apply sliced_loop_hom; [exact Hop|exact Hl|apply repeat0_hl].
    - intros out1 out2 Hout. apply obind_rel_same. intros d'. apply mk_hom. exact Hout.
  Qed.

  (** ** Element-wise operations *)

  Lemma ew_sop_hom : forall (g1 : F1 -> F1 -> F1) (g2 : F2 -> F2 -> F2) la lb,
      (forall x y, g2 (phi x) (phi y) = phi (g1 x y)) ->
      sop_hom (ew_sop g1 la lb) (ew_sop g2 la lb).
  Proof.
    intros g1 g2 la lb Hg cur1 cur2 sl1 sl2 Hcur Hsl. unfold ew_sop.
    inv_f2 Hsl. inv_f2 Hsl. inv_f2 Hsl.
    rewrite (hl_length _ _ Hcur). apply mapM_same_hl. intros i.
    eapply obind_rel; [apply nth_error_hl; eassumption|]. intros x1 x2 Hx.
    eapply obind_rel; [apply nth_error_hl; eassumption|]. intros y1 y2 Hy.
    cbn [orel]. unfold hs in *. subst. apply Hg.
  Qed.

  Theorem element_wise_op_hom : forall g1 g2 a1 a2 b1 b2,
      (forall x y, g2 (phi x) (phi y) = phi (g1 x y)) ->
      ha a1 a2 -> ha b1 b2 ->
      orel ha (element_wise_op O1 g1 a1 b1) (element_wise_op O2 g2 a2 b2).
  Proof.
    intros g1 g2 a1 a2 b1 b2 Hg Ha Hb. unfold element_wise_op.
    rewrite (ha_dims _ _ Ha), (ha_dims _ _ Hb).
    apply obind_rel_same. intros d. apply obind_rel_same. intros la. apply obind_rel_same. intros lb.
    apply sliced_op_hom; [apply ew_sop_hom; exact Hg|].
    constructor; [exact Ha|]. constructor; [exact Hb|constructor].
  Qed.

  Theorem map_arr_hom : forall (g1 : F1 -> F1) (g2 : F2 -> F2) a1 a2,
      (forall x, g2 (phi x) = phi (g1 x)) ->
      ha a1 a2 -> orel ha (map_arr g1 a1) (map_arr g2 a2).
  Proof.
    intros g1 g2 a1 a2 Hg Ha. unfold map_arr. apply mk_hom'; [apply ha_dims; exact Ha|].
    apply map_hl; [exact Hg|]. apply ha_vals. exact Ha.
  Qed.

  Lemma a_scale_hom : forall s1 s2 a1 a2,
      hs s1 s2 -> ha a1 a2 -> orel ha (a_scale O1 s1 a1) (a_scale O2 s2 a2).
  Proof.
    intros s1 s2 a1 a2 -> Ha. apply map_arr_hom; [|exact Ha].
    intros x. rewrite (rh_mul RH). reflexivity.
  Qed.

  Lemma a_neg_hom : forall a1 a2, ha a1 a2 -> orel ha (a_neg O1 a1) (a_neg O2 a2).
  Proof. intros. apply a_scale_hom; [|assumption]. unfold hs. symmetry. apply phi_m1. Qed.

  Lemma a_add_hom : forall a1 a2 b1 b2, ha a1 a2 -> ha b1 b2 ->
      orel ha (a_add O1 a1 b1) (a_add O2 a2 b2).
  Proof. intros. apply element_wise_op_hom; try assumption. intros. symmetry. apply (rh_add RH). Qed.

  Lemma a_mul_hom : forall a1 a2 b1 b2, ha a1 a2 -> ha b1 b2 ->
      orel ha (a_mul O1 a1 b1) (a_mul O2 a2 b2).
  Proof. intros. apply element_wise_op_hom; try assumption. intros. symmetry. apply (rh_mul RH). Qed.

  Lemma a_sub_hom : forall a1 a2 b1 b2, ha a1 a2 -> ha b1 b2 ->
      orel ha (a_sub O1 a1 b1) (a_sub O2 a2 b2).
  Proof.
    intros a1 a2 b1 b2 Ha Hb. unfold a_sub.
    eapply obind_rel; [apply a_neg_hom; exact Hb|]. intros n1 n2 Hn. apply a_add_hom; assumption.
  Qed.

  Lemma a_axpy_hom : forall al1 al2 x1 x2 y1 y2, hs al1 al2 -> ha x1 x2 -> ha y1 y2 ->
      orel ha (a_axpy O1 al1 x1 y1) (a_axpy O2 al2 x2 y2).
  Proof.
    intros al1 al2 x1 x2 y1 y2 Hal Hx Hy. unfold a_axpy.
    eapply obind_rel; [apply a_scale_hom; assumption|]. intros n1 n2 Hn. apply a_add_hom; assumption.
  Qed.

  (** ** Reductions, reshape, flatten_to *)

  Lemma sum_sop_hom : sop_hom (sum_sop O1) (sum_sop O2).
  Proof.
    intros cur1 cur2 sl1 sl2 Hcur Hsl. unfold sum_sop.
    inv_f2 Hsl. inv_f2 Hsl.
    unfold hl in Hcur, Hs. subst. destruct cur1; simpl; [exact I|].
    unfold hl. simpl. rewrite vsum_hom. reflexivity.
  Qed.

  Theorem a_sum_hom : forall k a1 a2, ha a1 a2 -> orel ha (a_sum O1 k a1) (a_sum O2 k a2).
  Proof.
    intros k a1 a2 Ha. unfold a_sum. destruct (k =? 0); [exact Ha|].
    rewrite (ha_dims _ _ Ha).
    apply sliced_op_hom; [apply sum_sop_hom|]. constructor; [exact Ha|constructor].
  Qed.

  Theorem a_reshape_hom : forall d a1 a2, ha a1 a2 -> orel ha (a_reshape d a1) (a_reshape d a2).
  Proof. intros d a1 a2 Ha. unfold a_reshape. apply mk_hom. apply ha_vals. exact Ha. Qed.

  Lemma strided_hom : forall i stride s, strided O2 i stride (map phi s) = map phi (strided O1 i stride s).
  Proof.
    intros i stride s. unfold strided. rewrite map_length, map_map. apply map_ext.
    intros j. rewrite <- (rh_0 RH). apply map_nth.
  Qed.

  Lemma flatten_sop_hom : sop_hom (flatten_sop O1) (flatten_sop O2).
  Proof.
    intros cur1 cur2 sl1 sl2 Hcur Hsl. unfold flatten_sop.
    inv_f2 Hsl. inv_f2 Hsl.
    rewrite (hl_length _ _ Hcur). apply combine_idx_hl; [|exact Hcur].
    intros n x. cbn [fst snd]. unfold hl in Hs. subst s0.
    rewrite strided_hom, <- vsum_hom, (rh_add RH). reflexivity.
  Qed.

  Theorem flatten_to_hom : forall a1 a2 target,
      ha a1 a2 -> orel ha (flatten_to O1 a1 target) (flatten_to O2 a2 target).
  Proof.
    intros a1 a2 target Ha. unfold flatten_to. rewrite (ha_dims _ _ Ha).
    destruct (dims_eqb (dims a1) target); [exact Ha|].
    eapply obind_rel with (R := ha).
    - destruct (length (dims a1) - length target =? 0); [exact Ha|].
      apply sliced_op_hom; [apply flatten_sop_hom|]. constructor; [exact Ha|constructor].
    - intros fl1 fl2 Hfl. rewrite (ha_dims _ _ Hfl).
      destruct (dims_eqb (dims fl1) target); [exact Hfl|].
      apply sliced_op_hom; [apply flatten_sop_hom|]. constructor; [exact Hfl|constructor].
  Qed.

  (** ** matmul *)

  Lemma matmul_slice_hom : forall rows cols sum_len ta tb cur1 sa1 sb1 cur2 sa2 sb2,
      hl cur1 cur2 -> hl sa1 sa2 -> hl sb1 sb2 ->
      orel hl (matmul_slice O1 rows cols sum_len ta tb cur1 sa1 sb1)
              (matmul_slice O2 rows cols sum_len ta tb cur2 sa2 sb2).
  Proof.
    intros rows cols sum_len ta tb cur1 sa1 sb1 cur2 sa2 sb2 Hc Ha Hb. unfold matmul_slice.
    apply mapM_same_hl. intros p.
    eapply obind_rel with (R := hl).
    - apply mapM_same_hl. intros k.
      eapply obind_rel; [apply nth_error_hl; exact Ha|]. intros x1 x2 Hx.
      eapply obind_rel; [apply nth_error_hl; exact Hb|]. intros y1 y2 Hy.
      cbn [orel]. unfold hs in *. subst. symmetry. apply (rh_mul RH).
    - intros t1 t2 Ht.
      eapply obind_rel; [apply nth_error_hl; exact Hc|]. intros o1 o2 Ho.
      cbn [orel]. unfold hs, hl in *. subst. rewrite (rh_add RH), vsum_hom. reflexivity.
  Qed.

  Lemma cyc_fill_hom : forall cur1 s1 cur2 s2,
      hl cur1 cur2 -> hl s1 s2 -> hl (cyc_fill O1 cur1 s1) (cyc_fill O2 cur2 s2).
  Proof.
    intros cur1 s1 cur2 s2 Hc Hs. unfold cyc_fill.
    rewrite (hl_length _ _ Hc). unfold hl in Hs. subst s2.
    destruct s1 as [|x s1]; [exact Hc|].
    change (map phi (x :: s1)) with (phi x :: map phi s1).
    change (phi x :: map phi s1) with (map phi (x :: s1)).
    set (s := x :: s1). rewrite map_length.
    apply map_same_hl. intros i. rewrite <- (rh_0 RH). apply map_nth.
  Qed.

  Lemma matmul_sop_hom : forall set_output rows cols sum_len ta tb,
      sop_hom (matmul_sop O1 set_output rows cols sum_len ta tb)
              (matmul_sop O2 set_output rows cols sum_len ta tb).
  Proof.
    intros set_output rows cols sum_len ta tb cur1 cur2 sl1 sl2 Hcur Hsl. unfold matmul_sop.
    inv_f2 Hsl. inv_f2 Hsl. inv_f2 Hsl. inv_f2 Hsl.
    apply matmul_slice_hom; try assumption.
    destruct set_output; [apply cyc_fill_hom; assumption|exact Hcur].
  Qed.

  Lemma bias_ok_hom : forall c1 c2 rows cols, ha c1 c2 -> bias_ok c2 rows cols = bias_ok c1 rows cols.
  Proof.
    intros c1 c2 rows cols H. unfold bias_ok. rewrite (ha_dims _ _ H), (ha_length _ _ H). reflexivity.
  Qed.

  Lemma zeros1_hom : ha (zeros1 O1) (zeros1 O2).
  Proof. unfold ha, map_arr_phi, zeros1. simpl. rewrite (rh_0 RH). reflexivity. Qed.

  Theorem a_matmul_hom : forall a1 a2 ta b1 b2 tb c1 c2,
      ha a1 a2 -> ha b1 b2 -> orel ha c1 c2 ->
      orel ha (a_matmul O1 a1 ta b1 tb c1) (a_matmul O2 a2 ta b2 tb c2).
  Proof.
    intros a1 a2 ta b1 b2 tb c1 c2 Ha Hb Hc. unfold a_matmul.
    rewrite (ha_dims _ _ Ha), (ha_dims _ _ Hb).
    apply obind_rel_same. intros sh.
    destruct c1 as [c1|], c2 as [c2|]; simpl in Hc; try contradiction.
    - apply check_rel; [symmetry; apply bias_ok_hom; exact Hc|].
      apply sliced_op_hom; [apply matmul_sop_hom|].
      constructor; [exact Ha|]. constructor; [exact Hb|]. constructor; [exact Hc|constructor].
    - apply check_rel; [reflexivity|].
      apply sliced_op_hom; [apply matmul_sop_hom|].
      constructor; [exact Ha|]. constructor; [exact Hb|]. constructor; [exact zeros1_hom|constructor].
  Qed.

  (** ** Image operations *)

  Lemma unroll_sop_hom : forall depth rows cols sr sc fr fc rcount ccount,
      sop_hom (@unroll_sop F1 depth rows cols sr sc fr fc rcount ccount)
              (@unroll_sop F2 depth rows cols sr sc fr fc rcount ccount).
  Proof.
    intros depth rows cols sr sc fr fc rcount ccount cur1 cur2 sl1 sl2 Hcur Hsl. unfold unroll_sop.
    inv_f2 Hsl. inv_f2 Hsl.
    apply mapM_same_hl. intros oi. apply nth_error_hl. assumption.
  Qed.

  Theorem unroll_blocks_hom : forall a1 a2 sr sc fr fc,
      ha a1 a2 -> orel ha (unroll_blocks O1 a1 sr sc fr fc) (unroll_blocks O2 a2 sr sc fr fc).
  Proof.
    intros a1 a2 sr sc fr fc Ha. unfold unroll_blocks. rewrite (ha_dims _ _ Ha).
    apply obind_rel_same. intros depth. apply obind_rel_same. intros rows.
    apply obind_rel_same. intros cols. apply obind_rel_same. intros rcount.
    apply obind_rel_same. intros ccount.
    apply sliced_op_hom; [apply unroll_sop_hom|]. constructor; [exact Ha|constructor].
  Qed.

  Lemma roll_sop_hom : forall summed count depth rows cols sr sc fr fc ccount,
      sop_hom (roll_sop O1 summed count depth rows cols sr sc fr fc ccount)
              (roll_sop O2 summed count depth rows cols sr sc fr fc ccount).
  Proof.
    intros summed count depth rows cols sr sc fr fc ccount cur1 cur2 sl1 sl2 Hcur Hsl.
    unfold roll_sop. inv_f2 Hsl. inv_f2 Hsl.
    apply (fold_left_rel_same (orel hl)); [|exact Hcur].
    intros acc1 acc2 ii Hacc.
    eapply obind_rel; [exact Hacc|]. intros out1 out2 Hout.
    eapply obind_rel; [apply nth_error_hl; eassumption|]. intros x1 x2 Hx.
    eapply obind_rel; [apply nth_error_hl; exact Hout|]. intros o1 o2 Ho.
    apply set_nth_hl; [|exact Hout].
    unfold hs in *. subst. destruct summed; [symmetry; apply (rh_add RH)|reflexivity].
  Qed.

  Theorem roll_blocks_hom : forall summed a1 a2 depth rows cols sr sc fr fc,
      ha a1 a2 ->
      orel ha (roll_blocks O1 summed a1 depth rows cols sr sc fr fc)
              (roll_blocks O2 summed a2 depth rows cols sr sc fr fc).
  Proof.
    intros summed a1 a2 depth rows cols sr sc fr fc Ha. unfold roll_blocks.
    rewrite (ha_dims _ _ Ha).
    apply obind_rel_same. intros count. apply obind_rel_same. intros ccount.
    apply sliced_op_hom; [apply roll_sop_hom|]. constructor; [exact Ha|constructor].
  Qed.

  Theorem expand_conv_hom : forall a1 a2 rcount ccount,
      ha a1 a2 -> orel ha (expand_conv O1 a1 rcount ccount) (expand_conv O2 a2 rcount ccount).
  Proof.
    intros a1 a2 rcount ccount Ha. unfold expand_conv.
    rewrite (ha_dims _ _ Ha), (ha_length _ _ Ha).
    apply obind_rel_same. intros fcount.
    apply check_rel; [reflexivity|].
    eapply obind_rel with (R := hl).
    - apply mapM_same_hl. intros ri. apply nth_error_hl. apply ha_vals. exact Ha.
    - intros v1 v2 Hvv. rewrite (hl_length _ _ Hvv).
      apply check_rel; [reflexivity|].
      apply mk_hom. apply app_hl; [exact Hvv|apply repeat0_hl].
  Qed.

  Theorem conv_hom : forall i1 i2 k1 k2 sr sc,
      ha i1 i2 -> ha k1 k2 -> orel ha (conv O1 i1 k1 sr sc) (conv O2 i2 k2 sr sc).
  Proof.
    intros i1 i2 k1 k2 sr sc Hi Hf. unfold conv.
    rewrite (ha_dims _ _ Hi), (ha_dims _ _ Hf).
    apply check_rel; [reflexivity|]. apply check_rel; [reflexivity|].
    apply obind_rel_same. intros depth. apply obind_rel_same. intros rows.
    apply obind_rel_same. intros cols. apply obind_rel_same. intros fr.
    apply obind_rel_same. intros fc. apply obind_rel_same. intros rcount.
    apply obind_rel_same. intros ccount.
    eapply obind_rel; [apply unroll_blocks_hom; exact Hi|]. intros u1 u2 Hu.
    rewrite (ha_dims _ _ Hu).
    apply obind_rel_same. intros last.
    eapply obind_rel; [apply a_reshape_hom; exact Hf|]. intros fm1 fm2 Hfm.
    eapply obind_rel; [apply a_matmul_hom; [exact Hu|exact Hfm|exact I]|]. intros cv1 cv2 Hcv.
    apply expand_conv_hom. exact Hcv.
  Qed.

  (** ** Derivative closures (ring-only constructors) *)

  Inductive code_hom : bop_code F1 -> bop_code F2 -> Prop :=
  | CH_Add : code_hom BAdd BAdd
  | CH_Mul : code_hom BMul BMul
  | CH_Neg : code_hom BNeg BNeg
  | CH_Scale : forall s, code_hom (BScale s) (BScale (phi s))
  | CH_Exp : forall c, code_hom (BExp c) (BExp (map phi c))
  | CH_Sum : forall k target, code_hom (BSum k target) (BSum k target)
  | CH_Reshape : code_hom BReshape BReshape
  | CH_Matmul : forall ta tb, code_hom (BMatmul ta tb) (BMatmul ta tb)
  | CH_Unroll : forall depth rows cols sr sc fr fc,
      code_hom (BUnroll depth rows cols sr sc fr fc) (BUnroll depth rows cols sr sc fr fc)
  | CH_Expand : forall fcount stride, code_hom (BExpand fcount stride) (BExpand fcount stride)
  | CH_Sigmoid : forall c, code_hom (BSigmoid c) (BSigmoid (map phi c))
  | CH_Custom : forall c, code_hom (BCustom c) (BCustom c).

  Lemma when_hom : forall b (x1 : option (arr F1)) (x2 : option (arr F2)),
      orel ha x1 x2 -> orel (orel ha) (when b x1) (when b x2).
  Proof.
    intros b x1 x2 H. unfold when. destruct b; [|exact I].
    eapply obind_rel; [exact H|]. intros r1 r2 Hr. exact Hr.
  Qed.

  Lemma mul_values_hom : forall a1 b1 a2 b2,
      hl a1 a2 -> hl b1 b2 -> hl (mul_values O1 a1 b1) (mul_values O2 a2 b2).
  Proof.
    intros. unfold mul_values. apply (zip_hl (fmul O1) (fmul O2)); try assumption.
    intros. symmetry. apply (rh_mul RH).
  Qed.

  Lemma fill_sop_hom : sop_hom (@fill_sop F1) (@fill_sop F2).
  Proof.
    intros cur1 cur2 sl1 sl2 Hcur Hsl. unfold fill_sop.
    inv_f2 Hsl. inv_f2 Hsl.
    eapply obind_rel; [apply (nth_error_hl s s0 0); eassumption|]. intros x1 x2 Hx.
    cbn [orel]. unfold hs, hl in *. subst. rewrite !map_map. reflexivity.
  Qed.

  Lemma zip_vals_hom : forall (g1 : F1 -> F1 -> F1) (g2 : F2 -> F2 -> F2) a1 a2 b1 b2,
      (forall x y, g2 (phi x) (phi y) = phi (g1 x y)) ->
      ha a1 a2 -> ha b1 b2 -> orel ha (zip_vals g1 a1 b1) (zip_vals g2 a2 b2).
  Proof.
    intros g1 g2 a1 a2 b1 b2 Hg Ha Hb. unfold zip_vals.
    apply mk_hom'; [apply ha_dims; exact Ha|].
    apply zip_hl; [exact Hg|apply ha_vals; exact Ha|apply ha_vals; exact Hb].
  Qed.

  Lemma zip_mul_hom : forall a1 a2 b1 b2,
      ha a1 a2 -> ha b1 b2 -> orel ha (zip_vals (fmul O1) a1 b1) (zip_vals (fmul O2) a2 b2).
  Proof. intros. apply zip_vals_hom; try assumption. intros. symmetry. apply (rh_mul RH). Qed.

  Theorem custom_forward_hom : forall c l1 l2,
      Forall2 ha l1 l2 -> orel ha (custom_forward O1 c l1) (custom_forward O2 c l2).
  Proof.
    intros c l1 l2 H. unfold custom_forward.
    destruct c; inv_f2 H; inv_f2 H; try inv_f2 H; try (apply zip_mul_hom; assumption).
    apply zip_vals_hom; try assumption.
    intros x y. rewrite (rh_add RH), (rh_mul RH), phi_two. reflexivity.
  Qed.

  Lemma expand_back_hom : forall fcount stride m n x1 x2,
      hl x1 x2 ->
      orel hl
        (fold_left (fun acc di => out <- acc ;; v <- nth_error x1 di ;;
                                  set_nth (expand_index fcount stride di) v out)
                   (seq 0 m) (Some (repeat (f0 O1) n)))
        (fold_left (fun acc di => out <- acc ;; v <- nth_error x2 di ;;
                                  set_nth (expand_index fcount stride di) v out)
                   (seq 0 m) (Some (repeat (f0 O2) n))).
  Proof.
    intros fcount stride m n x1 x2 Hx.
    apply (fold_left_rel_same (orel hl)); [|apply repeat0_hl].
    intros acc1 acc2 di Hacc.
    eapply obind_rel; [exact Hacc|]. intros out1 out2 Hout.
    eapply obind_rel; [apply nth_error_hl; exact Hx|]. intros v1 v2 Hv.
    apply set_nth_hl; assumption.
  Qed.

  Ltac rew_dims :=
    repeat match goal with
           | H : ha ?a ?b |- context [dims ?b] => rewrite (ha_dims a b H)
           end.

  Ltac prim :=
    first
      [ assumption
      | exact I
      | match goal with
        | |- hs ?x (phi ?x) => reflexivity
        | |- hs (two O1) (two O2) => symmetry; apply phi_two
        | |- orel _ (when _ _) (when _ _) => apply when_hom
        | |- orel _ (a_mul _ _ _) (a_mul _ _ _) => apply a_mul_hom
        | |- orel _ (a_neg _ _) (a_neg _ _) => apply a_neg_hom
        | |- orel _ (a_scale _ _ _) (a_scale _ _ _) => apply a_scale_hom
        | |- orel _ (a_reshape _ _) (a_reshape _ _) => apply a_reshape_hom
        | |- orel _ (a_matmul _ _ _ _ _ _) (a_matmul _ _ _ _ _ _) => apply a_matmul_hom
        | |- orel _ (roll_blocks _ _ _ _ _ _ _ _ _ _) (roll_blocks _ _ _ _ _ _ _ _ _ _) =>
          apply roll_blocks_hom
        | |- orel _ (zip_vals (fmul _) _ _) (zip_vals (fmul _) _ _) => apply zip_mul_hom
        | |- orel _ (mk _ _) (mk _ _) => apply mk_hom
        | |- hl (mul_values _ _ _) (mul_values _ _ _) => apply mul_values_hom
        | |- hl (vals _) (vals _) => apply ha_vals
        | |- hl ?c (map phi ?c) => reflexivity
        end ].

  Ltac hom_auto :=
    repeat first
      [ prim
      | match goal with
        | |- orel _ (obind _ _) (obind _ _) => eapply obind_rel; [ | intros ? ? ? ]
        | |- orel _ (Some _) (Some _) => cbn [orel]
        | |- Forall2 _ (_ :: _) (_ :: _) => constructor
        | |- Forall2 _ [] [] => constructor
        | |- context [if ?b then _ else _] => destruct b
        end ].

  Ltac inv_l H :=
    let a := fresh "s" in let b := fresh "s" in let Hab := fresh "Hs" in
    destruct H as [|a b ? ? Hab H]; cbn [run_bop]; try exact I.

  Theorem run_bop_hom : forall code1 code2 cs1 cs2 t x1 x2,
      code_hom code1 code2 -> Forall2 ha cs1 cs2 -> ha x1 x2 ->
      orel (Forall2 (orel ha)) (run_bop O1 code1 cs1 t x1) (run_bop O2 code2 cs2 t x2).
  Proof.
    intros code1 code2 cs1 cs2 t x1 x2 Hcode Hcs Hx.
    destruct Hcode; try (match goal with c : custom_op |- _ => destruct c end);
      inv_l Hcs; try (inv_l Hcs); try (inv_l Hcs); try (inv_l Hcs); rew_dims.
    - (* BAdd *) hom_auto.
    - (* BMul *) hom_auto.
    - (* BNeg *) hom_auto.
    - (* BScale *) hom_auto.
    - (* BExp *) hom_auto.
    - (* BSum *)
      eapply obind_rel; [apply a_reshape_hom; exact Hx|]. intros y1 y2 Hy.
      eapply obind_rel.
      { apply sliced_op_hom; [apply fill_sop_hom|]. constructor; [exact Hy|constructor]. }
      intros d1 d2 Hd. hom_auto.
    - (* BReshape *) hom_auto.
    - (* BMatmul *) hom_auto.
    - (* BUnroll *) hom_auto.
    - (* BExpand *)
      apply check_rel; [reflexivity|].
      eapply obind_rel; [apply expand_back_hom; apply ha_vals; exact Hx|].
      intros v1 v2 Hv. hom_auto.
    - (* BSigmoid *)
      eapply obind_rel.
      { apply mk_hom. apply mul_values_hom; [|apply ha_vals; exact Hx].
        apply map_hl; [|reflexivity].
        intros v. rewrite (rh_mul RH), (rh_sub RH), (rh_1 RH). reflexivity. }
      intros d1 d2 Hd. hom_auto.
    - (* CMul *) hom_auto.
    - (* CAff *) hom_auto.
    - (* CSq *) hom_auto.
  Qed.

  (** ** Equational forms *)

  Lemma orel_res_eq : forall (x : option (list (option (arr F1)))) (y : option (list (option (arr F2)))),
      orel (Forall2 (orel ha)) x y -> y = option_map (map (option_map map_arr_phi)) x.
  Proof.
    intros [l1|] [l2|] H; simpl in H; try contradiction; simpl; [|reflexivity].
    f_equal. induction H as [|o1 o2 l1 l2 Ho Hl IH]; simpl; [reflexivity|].
    rewrite IH. f_equal. apply orel_ha_eq. exact Ho.
  Qed.

  Corollary mk_commutes : forall d v, mk d (map phi v) = option_map map_arr_phi (mk d v).
  Proof. intros. apply orel_ha_eq. apply mk_hom. reflexivity. Qed.

  Corollary zeros_commutes : forall d, zeros O2 d = option_map map_arr_phi (zeros O1 d).
  Proof. intros. apply orel_ha_eq. apply zeros_hom. Qed.

  Corollary from_flat_commutes : forall v, from_flat (map phi v) = option_map map_arr_phi (from_flat v).
  Proof. intros. apply orel_ha_eq. apply from_flat_hom. reflexivity. Qed.

  Corollary from_arrays_commutes : forall l,
      from_arrays (map map_arr_phi l) = option_map map_arr_phi (from_arrays l).
  Proof. intros. apply orel_ha_eq. apply from_arrays_hom. apply F2_ha_map. Qed.

  Corollary sliced_op_commutes : forall l op1 op2 in_dims out_dims k flatten,
      sop_hom op1 op2 ->
      sliced_op O2 (map map_arr_phi l) op2 in_dims out_dims k flatten
      = option_map map_arr_phi (sliced_op O1 l op1 in_dims out_dims k flatten).
  Proof. intros. apply orel_ha_eq. apply sliced_op_hom; [assumption|apply F2_ha_map]. Qed.

  Corollary a_add_commutes : forall a b,
      a_add O2 (map_arr_phi a) (map_arr_phi b) = option_map map_arr_phi (a_add O1 a b).
  Proof. intros. apply orel_ha_eq. apply a_add_hom; reflexivity. Qed.

  Corollary a_sub_commutes : forall a b,
      a_sub O2 (map_arr_phi a) (map_arr_phi b) = option_map map_arr_phi (a_sub O1 a b).
  Proof. intros. apply orel_ha_eq. apply a_sub_hom; reflexivity. Qed.

  Corollary a_mul_commutes : forall a b,
      a_mul O2 (map_arr_phi a) (map_arr_phi b) = option_map map_arr_phi (a_mul O1 a b).
  Proof. intros. apply orel_ha_eq. apply a_mul_hom; reflexivity. Qed.

  Corollary a_neg_commutes : forall a,
      a_neg O2 (map_arr_phi a) = option_map map_arr_phi (a_neg O1 a).
  Proof. intros. apply orel_ha_eq. apply a_neg_hom; reflexivity. Qed.

  Corollary a_scale_commutes : forall c a,
      a_scale O2 (phi c) (map_arr_phi a) = option_map map_arr_phi (a_scale O1 c a).
  Proof. intros. apply orel_ha_eq. apply a_scale_hom; reflexivity. Qed.

  Corollary a_axpy_commutes : forall c x y,
      a_axpy O2 (phi c) (map_arr_phi x) (map_arr_phi y) = option_map map_arr_phi (a_axpy O1 c x y).
  Proof. intros. apply orel_ha_eq. apply a_axpy_hom; reflexivity. Qed.

  Corollary a_sum_commutes : forall k a,
      a_sum O2 k (map_arr_phi a) = option_map map_arr_phi (a_sum O1 k a).
  Proof. intros. apply orel_ha_eq. apply a_sum_hom; reflexivity. Qed.

  Corollary a_sum_all_commutes : forall a, a_sum_all O2 (map_arr_phi a) = phi (a_sum_all O1 a).
  Proof. intros. unfold a_sum_all. simpl. symmetry. apply vsum_hom. Qed.

  Corollary a_reshape_commutes : forall d a,
      a_reshape d (map_arr_phi a) = option_map map_arr_phi (a_reshape d a).
  Proof. intros. apply orel_ha_eq. apply a_reshape_hom; reflexivity. Qed.

  Corollary flatten_to_commutes : forall a target,
      flatten_to O2 (map_arr_phi a) target = option_map map_arr_phi (flatten_to O1 a target).
  Proof. intros. apply orel_ha_eq. apply flatten_to_hom; reflexivity. Qed.

  Corollary a_matmul_commutes : forall a ta b tb c,
      a_matmul O2 (map_arr_phi a) ta (map_arr_phi b) tb (option_map map_arr_phi c)
      = option_map map_arr_phi (a_matmul O1 a ta b tb c).
  Proof.
    intros. apply orel_ha_eq. apply a_matmul_hom; try reflexivity.
    destruct c; simpl; [reflexivity|exact I].
  Qed.

  Corollary unroll_blocks_commutes : forall a sr sc fr fc,
      unroll_blocks O2 (map_arr_phi a) sr sc fr fc
      = option_map map_arr_phi (unroll_blocks O1 a sr sc fr fc).
  Proof. intros. apply orel_ha_eq. apply unroll_blocks_hom; reflexivity. Qed.

  Corollary roll_blocks_commutes : forall summed a depth rows cols sr sc fr fc,
      roll_blocks O2 summed (map_arr_phi a) depth rows cols sr sc fr fc
      = option_map map_arr_phi (roll_blocks O1 summed a depth rows cols sr sc fr fc).
  Proof. intros. apply orel_ha_eq. apply roll_blocks_hom; reflexivity. Qed.

  Corollary expand_conv_commutes : forall a rcount ccount,
      expand_conv O2 (map_arr_phi a) rcount ccount
      = option_map map_arr_phi (expand_conv O1 a rcount ccount).
  Proof. intros. apply orel_ha_eq. apply expand_conv_hom; reflexivity. Qed.

  Corollary conv_commutes : forall image filters sr sc,
      conv O2 (map_arr_phi image) (map_arr_phi filters) sr sc
      = option_map map_arr_phi (conv O1 image filters sr sc).
  Proof. intros. apply orel_ha_eq. apply conv_hom; reflexivity. Qed.

  Corollary custom_forward_commutes : forall c l,
      custom_forward O2 c (map map_arr_phi l) = option_map map_arr_phi (custom_forward O1 c l).
  Proof. intros. apply orel_ha_eq. apply custom_forward_hom. apply F2_ha_map. Qed.

  Corollary run_bop_commutes : forall code1 code2 cs t x,
      code_hom code1 code2 ->
      run_bop O2 code2 (map map_arr_phi cs) t (map_arr_phi x)
      = option_map (map (option_map map_arr_phi)) (run_bop O1 code1 cs t x).
  Proof.
    intros. apply orel_res_eq. apply run_bop_hom; [assumption|apply F2_ha_map|reflexivity].
  Qed.
End RingHom.

(** ** Non-vacuity: the identity on the integers, and reduction to the one-point ring *)

From Coq Require Import ZArith.

Lemma ring_hom_id : forall {F} (O : ScalarOps F), ring_hom O O (fun x => x).
Proof. intros F O. constructor; reflexivity. Qed.

Lemma ring_hom_unit : forall {F} (O : ScalarOps F), ring_hom O unit_ops (fun _ => tt).
Proof. intros F O. constructor; reflexivity. Qed.

(** parity, Z -> GF(2): a non-injective map that preserves the ring operations (and
    nothing else: not [Z.div], not the comparisons) *)
Definition bool_ops : ScalarOps bool := {|
  f0 := false; f1 := true;
  fadd := xorb; fmul := andb; fsub := xorb; fdiv := fun x _ => x;
  fneg := fun x => x; fexp := fun x => x; fln := fun x => x; fpow := fun x _ => x;
  fgt0 := fun x => x; feqb := Bool.eqb; fofnat := Nat.odd
|}.

Lemma ring_hom_parity : ring_hom Z_ops bool_ops Z.odd.
Proof.
  constructor; simpl; try reflexivity.
  - intros x y. apply Z.odd_add.
  - intros x y. apply Z.odd_mul.
  - intros x y. apply Z.odd_sub.
  - intros x. apply Z.odd_opp.
  - intros n. induction n as [|n IH]; [reflexivity|].
    rewrite Nat2Z.inj_succ, Z.odd_succ, Nat.odd_succ, <- Z.negb_odd, IH.
    rewrite <- Nat.negb_odd. reflexivity.
Qed.

Example parity_matmul :
  let a := {| dims := [2; 2]; vals := [1; 2; 3; 4]%Z |} in
  let b := {| dims := [2; 2]; vals := [5; 6; 7; 8]%Z |} in
  a_matmul bool_ops (map_arr_phi Z.odd a) false (map_arr_phi Z.odd b) false None
  = option_map (map_arr_phi Z.odd) (a_matmul Z_ops a false b false None)
  /\ a_matmul Z_ops a false b false None = Some {| dims := [2; 2]; vals := [19; 22; 43; 50]%Z |}.
Proof. split; reflexivity. Qed.

Print Assumptions sliced_op_hom.
Print Assumptions element_wise_op_hom.
Print Assumptions a_sum_hom.
Print Assumptions flatten_to_hom.
Print Assumptions a_matmul_hom.
Print Assumptions conv_hom.
Print Assumptions roll_blocks_hom.
Print Assumptions run_bop_hom.
Print Assumptions run_bop_commutes.
Print Assumptions a_matmul_commutes.
Print Assumptions conv_commutes.
Print Assumptions ring_hom_parity.
