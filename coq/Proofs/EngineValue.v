(** The engine computes exactly the adjoints of the declarative sweep
    ([Proofs/AdjointSpec.v]), under a shape-indexed commutative-monoid hypothesis
    on [eo_add]. *)

From Coq Require Import List Arith Bool Lia PeanoNat Permutation.
From Corgi Require Import Lib.OptionMonad Model.Engine Proofs.EngineDefs Proofs.EngineBase
     Proofs.Propagate Proofs.EngineInv Proofs.AdjointSpec Proofs.ValueAlg Proofs.SweepChar
     Proofs.EngineSeg.
Import ListNotations.

(** the gradient slot [o] became [o'] by accumulating [delta] (existing value on the left) *)
Definition stored {P D} (E : eops P D) (o : option D) (delta : D) (o' : option D) : Prop :=
  match o with
  | Some x => exists z, eo_add E x delta = Some z /\ o' = Some z
  | None => o' = Some delta
  end.

Lemma gstore_stored : forall {P D} (E : eops P D) o delta o',
    gstore E o delta o' -> stored E o delta o'.
Proof.
  intros P D E o delta o' (ng & Hng & Ho'). unfold stored. destruct o as [x|]; simpl in Hng.
  - exists ng. split; assumption.
  - congruence.
Qed.

(** * What a successful pass did, without any algebra *)

Section Facts.
  Context {P D : Type}.
  Variable E : eops P D.

  Lemma engine_facts : forall (g : store P D) r keep seed s0 g' log,
      wfg E g -> clean g -> bop_contract E g -> r < length g ->
      seed_of E g r seed = Some s0 ->
      run_backward E g r keep seed = Some (g', log) ->
      exists FT' H,
        NoDup (map fnode ((r, s0, keep) :: FT')) /\
        (forall m, In m (map fnode ((r, s0, keep) :: FT')) <-> reach g r m) /\
        (forall f, In f ((r, s0, keep) :: FT') -> contribs E g (fnode f) (fdel f) <> None) /\
        Permutation H (flat_map (cso E g) ((r, s0, keep) :: FT')) /\
        (forall m, accum E (init r s0 m) (vals m H) = Some (dvl ((r, s0, keep) :: FT') m)) /\
        LogIn log ((r, s0, keep) :: FT') /\
        (forall m, grule E g (grd g) g' ((r, s0, keep) :: FT') m) /\
        Orig g r FT'.
  Proof.
    intros g r keep seed s0 g' log Hwf Hclean Hbc Hr Hseed Hrun.
    destruct (pass_spec E g r keep seed g' log Hwf Hclean Hbc Hr Hrun) as (Hclean' & _).
    unfold run_backward in Hrun. rewrite backward_S in Hrun.
    apply obind_some in Hrun. destruct Hrun as (nd & Hnd & Hrun).
    destruct (Hclean r nd Hnd) as (_ & Hdn). rewrite Hdn in Hrun.
    apply obind_some in Hrun. destruct Hrun as ([g1 delta] & Hgd & Hrun).
    apply obind_some in Hgd. destruct Hgd as (g1' & Hprop & Hgd).
    injection Hgd as Hg1 Hdelta. subst g1'.
    assert (Hds : delta = s0).
    { unfold seed_of in Hseed. destruct seed as [s|].
      - congruence.
      - rewrite Hnd in Hseed. simpl in Hseed. congruence. }
    subst delta. rewrite Hds in Hrun.
    destruct (root_state E g r Hwf Hclean Hr)
      as (g1'' & Hprop' & Hnc & Hreach & HS1 & Hcr & _ & HD1 & _ & _).
    rewrite Hprop in Hprop'. injection Hprop' as Hprop'. subst g1''.
    assert (Hdl1 : forall m, dlt g1 m = None).
    { intro m. rewrite (nc_dlt g1 g m Hnc). unfold dlt.
      destruct (nth_error g m) as [x|] eqn:Hx; [| reflexivity]. apply (Hclean m x Hx). }
    assert (Hdl' : forall m, dlt g' m = None).
    { intro m. unfold dlt. destruct (nth_error g' m) as [x|] eqn:Hx; [| reflexivity].
      apply (Hclean' m x Hx). }
    assert (Hc' : forall m, cnt g' m = 0).
    { intro m. unfold cnt. destruct (nth_error g' m) as [x|] eqn:Hx; [| reflexivity].
      apply (Hclean' m x Hx). }
    destruct (body_val E g r Hwf Hbc Hr (backward E r) r (backward_rec_val E g r Hwf Hbc Hr r)
                       g1 r keep s0 [] g' log (le_n r) HS1 (reach_root g r) Hcr (Hdl1 r) Hrun)
      as (FT' & H & lnew & (Sa & Sb & Sc & Sd & Se & Sf & Sg & Sh) & HOr & HPerm & Hlog & HLi).
    simpl in Hlog. subst lnew.
    exists FT', H.
    split; [exact Se |].
    split.
    { intro m. split.
      - intro Hin. apply in_map_iff in Hin. destruct Hin as (f & Hf & Hin).
        destruct (Sd f Hin) as (_ & _ & Hre & _). rewrite <- Hf. exact Hre.
      - intro Hre. destruct (Nat.eq_dec m r) as [Heq|Hne].
        + subst m. left. reflexivity.
        + apply Sf; [| apply Hc'].
          unfold upd1. apply Nat.eqb_neq in Hne. rewrite Hne.
          apply Hreach in Hre. destruct Hre as [Hre|Hre]; [exact Hre |].
          apply Nat.eqb_neq in Hne. contradiction. }
    split; [intros f Hf; apply (Sd f Hf) |].
    split; [exact HPerm |].
    split.
    { intro m. specialize (Sg m).
      assert (Hi : updd (dlt g1) r s0 m = init r s0 m).
      { unfold updd, init. destruct (m =? r); [reflexivity | apply Hdl1]. }
      rewrite Hi in Sg. rewrite Sg. f_equal. unfold pend, dvl.
      destruct (lk m ((r, s0, keep) :: FT')) as [[d k]|]; [reflexivity | apply Hdl']. }
    split; [exact HLi |].
    split; [| exact HOr].
    intro m. specialize (Sh m). unfold grule in *. rewrite (nc_grd g1 g m Hnc) in Sh. exact Sh.
  Qed.
End Facts.

(** * The value theorem *)

Section Value.
  Context {P D : Type}.
  Variable E : eops P D.
  Variable S : Type.
  Variable sh : D -> S.
  Variable psh : P -> S.
  Hypothesis add_ok : forall x y, sh x = sh y -> exists z, eo_add E x y = Some z /\ sh z = sh x.
  Hypothesis add_comm : forall x y, sh x = sh y -> eo_add E x y = eo_add E y x.
  Hypothesis add_assoc : forall x y z xy yz, sh x = sh y -> sh y = sh z ->
      eo_add E x y = Some xy -> eo_add E y z = Some yz -> eo_add E xy z = eo_add E x yz.
  Hypothesis flat_sh : forall d p d', eo_flat E d p = Some d' -> sh d' = psh p.

  Theorem pass_value : forall (g : store P D) r keep seed s0 ndr g' log,
      wfg E g -> clean g -> bop_contract E g -> r < length g ->
      nth_error g r = Some ndr ->
      seed_of E g r seed = Some s0 -> sh s0 = psh (n_pay ndr) ->
      (forall id nd x, nth_error g id = Some nd -> n_grad nd = Some x -> sh x = psh (n_pay nd)) ->
      run_backward E g r keep seed = Some (g', log) ->
      exists tab, adjoints E g r s0 = Some tab /\ length tab = length g /\
        (* (0) the root's adjoint is the seed *)
        nth_error tab r = Some (Some s0) /\
        (* (1) every closure received exactly its adjoint *)
        (forall id delta, In (id, delta) log -> nth_error tab id = Some (Some delta)) /\
        (* (2) the table is non-empty exactly on the differentiated sub-graph *)
        (forall id, id < length g -> (nth id tab None <> None <-> reach g r id)) /\
        (* (3) every adjoint has its node's shape *)
        (forall id nd delta, nth_error g id = Some nd ->
             nth_error tab id = Some (Some delta) -> sh delta = psh (n_pay nd)) /\
        (* (4) a gradient slot is untouched or the adjoint was added to it *)
        (forall id nd nd', nth_error g id = Some nd -> nth_error g' id = Some nd' ->
             n_grad nd' = n_grad nd \/
             exists delta, nth_error tab id = Some (Some delta) /\
                           stored E (n_grad nd) delta (n_grad nd')) /\
        (* (5a) leaves of the sub-graph always store *)
        (forall id nd nd' delta, nth_error g id = Some nd -> nth_error g' id = Some nd' ->
             nth_error tab id = Some (Some delta) -> n_children nd = [] ->
             stored E (n_grad nd) delta (n_grad nd')) /\
        (* (5b) the root stores when [keep] or when it is a leaf, and only then *)
        (forall ndr', nth_error g' r = Some ndr' ->
             (keep = true \/ n_children ndr = [] -> stored E (n_grad ndr) s0 (n_grad ndr')) /\
             (keep = false -> n_children ndr <> [] -> n_grad ndr' = n_grad ndr)) /\
        (* (5c) an interior node other than the root stores when every tracked entry pointing
           to it from the sub-graph has [e_keep = true] ... *)
        (forall id nd nd' delta, nth_error g id = Some nd -> nth_error g' id = Some nd' ->
             id <> r -> nth_error tab id = Some (Some delta) ->
             (forall p ndp e, reach g r p -> nth_error g p = Some ndp -> In e (n_children ndp) ->
                              e_tracked e = true -> e_node e = id -> e_keep e = true) ->
             stored E (n_grad nd) delta (n_grad nd')) /\
        (* (5d) ... and does not store when every one has [e_keep = false] *)
        (forall id nd nd', nth_error g id = Some nd -> nth_error g' id = Some nd' ->
             id <> r -> n_children nd <> [] ->
             (forall p ndp e, reach g r p -> nth_error g p = Some ndp -> In e (n_children ndp) ->
                              e_tracked e = true -> e_node e = id -> e_keep e = false) ->
             n_grad nd' = n_grad nd) /\
        (* (6) the gradient-shape invariant is preserved *)
        (forall id nd' x, nth_error g' id = Some nd' -> n_grad nd' = Some x ->
             sh x = psh (n_pay nd')).
  Proof.
    intros g r keep seed s0 ndr g' log Hwf Hclean Hbc Hr Hndr Hseed Hs0 Hgsh Hrun.
    destruct (pass_spec E g r keep seed g' log Hwf Hclean Hbc Hr Hrun)
      as (_ & Hlen' & Hskel & _).
    destruct (engine_facts E g r keep seed s0 g' log Hwf Hclean Hbc Hr Hseed Hrun)
      as (FT' & H & HA1 & Hnodes & Hcon & HA3 & HA4 & HLi & Hgr & HOr).
    set (FT := (r, s0, keep) :: FT') in *.
    assert (HA2 : forall f, In f FT -> fnode f <= r /\ contribs E g (fnode f) (fdel f) <> None).
    { intros f Hf. split; [| apply Hcon; exact Hf].
      apply (reach_le E g r Hwf). apply Hnodes. apply in_map. exact Hf. }
    assert (HA6 : exists x, nth_error g r = Some x /\ sh s0 = psh (n_pay x))
      by (exists ndr; split; assumption).
    destruct (sweep_char E S sh psh add_ok add_comm add_assoc flat_sh g r s0 Hwf Hr FT H
                         HA1 HA2 HA3 HA4 HA6) as (tab & Htab & Hlen & Hnth).
    pose proof (dvl_shape E S sh psh add_ok flat_sh g r s0 Hwf Hr FT H HA2 HA3 HA4 HA6) as Hshape.
    exists tab. split; [exact Htab |]. split; [exact Hlen |].
    assert (Hlkr : lk r FT = Some (s0, keep)).
    { unfold FT. simpl. unfold fnode. simpl. rewrite Nat.eqb_refl. reflexivity. }
    (* reading the table *)
    assert (Hread : forall id delta, id < length g ->
               (nth_error tab id = Some (Some delta) <-> exists k, lk id FT = Some (delta, k))).
    { intros id delta Hid. rewrite (Hnth id Hid). unfold dvl. split.
      - intro Hd. destruct (lk id FT) as [[d k]|]; simpl in Hd; [| discriminate Hd].
        exists k. congruence.
      - intros (k & Hk). rewrite Hk. reflexivity. }
    assert (Hlt : forall id x, nth_error g id = Some x -> id < length g)
      by (intros id x Hx; eapply nth_lt; exact Hx).
    (* the gradient rule, node-wise *)
    assert (Hrule : forall id nd nd', nth_error g id = Some nd -> nth_error g' id = Some nd' ->
               match lk id FT with
               | None => n_grad nd' = n_grad nd
               | Some (d, k) =>
                 if (match n_children nd with [] => true | _ => false end) || k
                 then stored E (n_grad nd) d (n_grad nd') else n_grad nd' = n_grad nd
               end).
    { intros id nd nd' Hnd Hnd'. specialize (Hgr id). unfold grule in Hgr.
      rewrite (grd_nth g id nd Hnd), (grd_nth g' id nd' Hnd') in Hgr.
      assert (Hleaf : leafb g id = match n_children nd with [] => true | _ => false end)
        by (unfold leafb; rewrite Hnd; reflexivity).
      rewrite Hleaf in Hgr.
      destruct (lk id FT) as [[d k]|]; [| exact Hgr].
      destruct ((match n_children nd with [] => true | _ => false end) || k);
        [apply gstore_stored; exact Hgr | exact Hgr]. }
    (* origin of the keep flag of a non-root node *)
    assert (Horig : forall id d k, id <> r -> lk id FT = Some (d, k) ->
               exists p ndp e, reach g r p /\ nth_error g p = Some ndp /\ In e (n_children ndp) /\
                               e_tracked e = true /\ e_node e = id /\ k = e_keep e).
    { intros id d k Hne Hlk. apply lk_in in Hlk. destruct Hlk as [Hlk|Hlk].
      - injection Hlk as H1 _ _. congruence.
      - destruct (HOr _ Hlk) as (e & (p & ndp & Hp & Hndp & Hin & Ht) & He & Hk).
        exists p, ndp, e. unfold fnode, fkeep in *. simpl in *. tauto. }
    split; [apply (Hread r s0 Hr); exists keep; exact Hlkr |].
    split.
    { intros id delta Hin. destruct (HLi id delta Hin) as (k & Hk).
      assert (Hre : reach g r id).
      { apply Hnodes. change id with (fnode (id, delta, k)). apply in_map. exact Hk. }
      apply Hread; [apply (reach_lt E g r Hwf); assumption |].
      exists k. apply lk_nodup; assumption. }
    split.
    { intros id Hid. rewrite (nth_error_nth tab id None (Hnth id Hid)).
      rewrite <- Hnodes. unfold dvl. split.
      - intro Hne. destruct (lk id FT) as [[d k]|] eqn:Hlk; [| exfalso; apply Hne; reflexivity].
        eapply lk_fnode_in. exact Hlk.
      - intro Hin. apply in_fnode_lk in Hin. destruct Hin as (d & k & Hlk).
        rewrite Hlk. discriminate. }
    split.
    { intros id nd delta Hnd Ht. apply (Hshape id nd delta Hnd).
      rewrite (Hnth id (Hlt id nd Hnd)) in Ht. congruence. }
    split.
    { intros id nd nd' Hnd Hnd'. pose proof (Hrule id nd nd' Hnd Hnd') as Hru.
      destruct (lk id FT) as [[d k]|] eqn:Hlk; [| left; exact Hru].
      destruct ((match n_children nd with [] => true | _ => false end) || k);
        [| left; exact Hru].
      right. exists d. split; [| exact Hru].
      apply (Hread id d (Hlt id nd Hnd)). exists k. exact Hlk. }
    split.
    { intros id nd nd' delta Hnd Hnd' Ht Hleaf.
      apply (Hread id delta (Hlt id nd Hnd)) in Ht. destruct Ht as (k & Hlk).
      pose proof (Hrule id nd nd' Hnd Hnd') as Hru. rewrite Hlk, Hleaf in Hru. exact Hru. }
    split.
    { intros ndr' Hndr'. pose proof (Hrule r ndr ndr' Hndr Hndr') as Hru. rewrite Hlkr in Hru.
      split.
      - intros [Hk|Hl]; [subst keep; rewrite orb_true_r in Hru; exact Hru |].
        rewrite Hl in Hru. exact Hru.
      - intros Hk Hne. subst keep. destruct (n_children ndr); [congruence | exact Hru]. }
    split.
    { intros id nd nd' delta Hnd Hnd' Hne Ht Hall.
      apply (Hread id delta (Hlt id nd Hnd)) in Ht. destruct Ht as (k & Hlk).
      pose proof (Hrule id nd nd' Hnd Hnd') as Hru. rewrite Hlk in Hru.
      destruct (Horig id delta k Hne Hlk) as (p & ndp & e & Hp & Hndp & Hin & Ht & He & Hk).
      rewrite (Hall p ndp e Hp Hndp Hin Ht He) in Hk. subst k.
      rewrite orb_true_r in Hru. exact Hru. }
    split.
    { intros id nd nd' Hnd Hnd' Hne Hint Hall.
      pose proof (Hrule id nd nd' Hnd Hnd') as Hru.
      destruct (lk id FT) as [[d k]|] eqn:Hlk; [| exact Hru].
      destruct (Horig id d k Hne Hlk) as (p & ndp & e & Hp & Hndp & Hin & Ht & He & Hk).
      rewrite (Hall p ndp e Hp Hndp Hin Ht He) in Hk. subst k.
      destruct (n_children nd); [congruence | exact Hru]. }
    intros id nd' x Hnd' Hx.
    assert (Hid : id < length g) by (rewrite <- Hlen'; eapply nth_lt; exact Hnd').
    destruct (nth_error g id) as [nd|] eqn:Hnd; [| apply nth_error_None in Hnd; lia].
    destruct (Hskel id nd nd' Hnd Hnd') as (Hpay & _). rewrite Hpay.
    pose proof (Hrule id nd nd' Hnd Hnd') as Hru.
    assert (Hun : n_grad nd' = n_grad nd -> sh x = psh (n_pay nd)).
    { intro Heq. apply (Hgsh id nd x Hnd). congruence. }
    destruct (lk id FT) as [[d k]|] eqn:Hlk; [| apply Hun; exact Hru].
    destruct ((match n_children nd with [] => true | _ => false end) || k);
      [| apply Hun; exact Hru].
    assert (Hd : sh d = psh (n_pay nd)).
    { apply (Hshape id nd d Hnd). unfold dvl. rewrite Hlk. reflexivity. }
    unfold stored in Hru. destruct (n_grad nd) as [y|] eqn:Hy.
    - destruct Hru as (z & Hz & Hnz).
      pose proof (Hgsh id nd y Hnd Hy) as Hsy.
      destruct (add_ok y d) as (z' & Hz' & Hsz'); [congruence |]. congruence.
    - congruence.
  Qed.

  (** the default seed has the root's shape *)
  Lemma default_seed_shape :
    (forall p, sh (eo_ones E p) = psh p) ->
    forall (g : store P D) r s0 ndr,
      nth_error g r = Some ndr -> seed_of E g r None = Some s0 -> sh s0 = psh (n_pay ndr).
  Proof.
    intros Hones g r s0 ndr Hndr Hseed. unfold seed_of in Hseed. rewrite Hndr in Hseed.
    simpl in Hseed. injection Hseed as Hseed. subst s0. apply Hones.
  Qed.
End Value.

Print Assumptions engine_facts.
Print Assumptions pass_value.
