(** The value theorem [pass_value] ([Proofs/EngineValue.v]) for the concrete engine.

    The hypotheses of [EngineValue.Section Value] quantify over all adjoint values and are
    false for [Program.E O] ([HistoryInv.add_ok_false]).  We therefore instantiate them on a
    repaired instance [E'] that differs from [E O] only outside the values a pass ever sees:

    - [eo_add E' x y] is the pointwise sum [padd x y] of two well-formed arrays of equal
      dimensions, and [Some x] otherwise (so it is total);
    - [eo_flat E' d p] is [flatten_to] on well-formed [d], and fails otherwise;
    - [eo_ones], [eo_hasop], [eo_bop] are those of [E O].

    [E'] satisfies the hypotheses unconditionally (with the shape function [sh] that
    separates ill-formed arrays), and every successful pass of [E O] on a sound store
    ([HistoryInv.store_good]) is the pass of [E'] with the same result
    ([Proofs/EngineAgree.v]).  Hence [pass_value] holds for the passes of the concrete
    engine, the declarative table being the one of [E']. *)

From Coq Require Import List Arith Bool Lia PeanoNat.
From Corgi Require Import Lib.OptionMonad Lib.Sums Model.Scalar Model.Arr Model.SlicedOp
     Model.Elementwise Model.Ops Model.Engine Model.Program
     Proofs.ArrFacts Proofs.EngineDefs Proofs.EngineBase Proofs.EngineInv Proofs.AdjointSpec
     Proofs.EnginePred Proofs.EngineAgree Proofs.EngineValue Proofs.FlattenSpec Proofs.OpsWf
     Proofs.HistoryInv.
Import ListNotations.

Section Zip.
  Context {A : Type}.
  Variable f : A -> A -> A.

  Definition zipw (a b : list A) : list A := map (fun p => f (fst p) (snd p)) (combine a b).

  Lemma zipw_length : forall a b, length (zipw a b) = Nat.min (length a) (length b).
  Proof. intros a b. unfold zipw. rewrite map_length, combine_length. reflexivity. Qed.

  Lemma zipw_comm : (forall x y, f x y = f y x) -> forall a b, zipw a b = zipw b a.
  Proof.
    intros Hc a. induction a as [|x a IH]; intros [|y b]; try reflexivity.
    unfold zipw in *. simpl. rewrite Hc. f_equal. apply IH.
  Qed.

  Lemma zipw_assoc : (forall x y z, f x (f y z) = f (f x y) z) ->
                     forall a b c, zipw (zipw a b) c = zipw a (zipw b c).
  Proof.
    intros Ha a. induction a as [|x a IH]; intros [|y b] [|z c]; try reflexivity.
    unfold zipw in *. simpl. rewrite Ha. f_equal. apply IH.
  Qed.

  Lemma zipw_nth : forall a b k d,
      k < length a -> k < length b -> nth k (zipw a b) d = f (nth k a d) (nth k b d).
  Proof.
    intro a. induction a as [|x a IH]; intros [|y b] k d Hka Hkb; simpl in *; try lia.
    destruct k as [|k]; [reflexivity |]. unfold zipw in *. simpl. apply IH; lia.
  Qed.
End Zip.

Section ValueConcrete.
  Context {F : Type} (O : ScalarOps F) (R : is_cring O).

  Local Notation pay := (@pay F).
  Local Notation gnode := (@gnode F).
  Local Notation E := (Program.E O).

  (** * The repaired instance *)

  Definition wfb (x : arr F) : bool := dims_valid (dims x) && (prod (dims x) =? length (vals x)).

  Lemma wfb_spec : forall x, wfb x = true <-> wf x.
  Proof.
    intro x. unfold wfb, wf. rewrite andb_true_iff, dims_valid_spec, Nat.eqb_eq. tauto.
  Qed.

  Lemma wfb_false : forall x, wfb x = false -> ~ wf x.
  Proof. intros x H Hw. apply wfb_spec in Hw. congruence. Qed.

  (** pointwise sum *)
  Definition padd (x y : arr F) : arr F :=
    {| dims := dims x; vals := zipw (fadd O) (vals x) (vals y) |}.

  Definition add' (x y : arr F) : option (arr F) :=
    if wfb x && wfb y && dims_eqb (dims x) (dims y) then Some (padd x y) else Some x.

  Definition flat' (d : arr F) (p : pay) : option (arr F) :=
    if wfb d then flatten_to O d (p_dims p) else None.

  Definition E' : eops pay (arr F) := {|
    eo_ones := eo_ones E;
    eo_flat := flat';
    eo_add := add';
    eo_hasop := eo_hasop E;
    eo_bop := eo_bop E |}.

  (** shapes: the dimensions of a well-formed array; an ill-formed array is alone in its class *)
  Definition shape : Type := (list nat + arr F)%type.
  Definition sh (x : arr F) : shape := if wfb x then inl (dims x) else inr x.
  Definition psh (p : pay) : shape := inl (p_dims p).

  Lemma sh_wf : forall x, wf x -> sh x = inl (dims x).
  Proof. intros x H. unfold sh. apply wfb_spec in H. rewrite H. reflexivity. Qed.

  Lemma sh_inl : forall x d, sh x = inl d -> wf x /\ dims x = d.
  Proof.
    intros x d H. unfold sh in H. destruct (wfb x) eqn:Hw; [| discriminate H].
    injection H as H. split; [apply wfb_spec; exact Hw | exact H].
  Qed.

  Lemma sh_eq_cases : forall x y,
      sh x = sh y -> (wf x /\ wf y /\ dims x = dims y) \/ (wfb x = false /\ y = x).
  Proof.
    intros x y H. unfold sh in H.
    destruct (wfb x) eqn:Hx; destruct (wfb y) eqn:Hy; try discriminate H.
    - left. injection H as H. split; [apply wfb_spec; exact Hx |]. split; [apply wfb_spec; exact Hy | exact H].
    - right. injection H as H. split; [reflexivity | symmetry; exact H].
  Qed.

  Lemma padd_wf : forall x y, wf x -> wf y -> dims x = dims y -> wf (padd x y) /\ dims (padd x y) = dims x.
  Proof.
    intros x y [Hx1 Hx2] [Hy1 Hy2] Hd. split; [| reflexivity].
    split; cbn [padd dims vals]; [exact Hx1 |].
    rewrite zipw_length, <- Hx2, <- Hy2, <- Hd. symmetry. apply Nat.min_id.
  Qed.

  Lemma add'_wf : forall x y, wf x -> wf y -> dims x = dims y -> add' x y = Some (padd x y).
  Proof.
    intros x y Hx Hy Hd. unfold add'.
    apply wfb_spec in Hx. apply wfb_spec in Hy. apply dims_eqb_spec in Hd.
    rewrite Hx, Hy, Hd. reflexivity.
  Qed.

  Lemma add'_bad : forall x y, wfb x = false -> add' x y = Some x.
  Proof. intros x y H. unfold add'. rewrite H. reflexivity. Qed.

  Lemma padd_comm : forall x y, dims x = dims y -> padd x y = padd y x.
  Proof.
    intros x y Hd. unfold padd. rewrite Hd. f_equal. apply zipw_comm. apply (cr_add_comm O R).
  Qed.

  Lemma padd_assoc : forall x y z, padd (padd x y) z = padd x (padd y z).
  Proof.
    intros x y z. unfold padd. cbn [dims vals]. f_equal. apply zipw_assoc. apply (cr_add_assoc O R).
  Qed.

  (** ** the hypotheses of [EngineValue.Section Value], unconditionally *)

  Lemma add_ok' : forall x y, sh x = sh y -> exists z, eo_add E' x y = Some z /\ sh z = sh x.
  Proof.
    intros x y H. destruct (sh_eq_cases x y H) as [(Hx & Hy & Hd) | (Hx & Hy)].
    - exists (padd x y). split; [apply add'_wf; assumption |].
      destruct (padd_wf x y Hx Hy Hd) as [Hw Hdp]. rewrite (sh_wf _ Hw), (sh_wf _ Hx), Hdp. reflexivity.
    - subst y. exists x. split; [apply add'_bad; exact Hx | reflexivity].
  Qed.

  Lemma add_comm' : forall x y, sh x = sh y -> eo_add E' x y = eo_add E' y x.
  Proof.
    intros x y H. destruct (sh_eq_cases x y H) as [(Hx & Hy & Hd) | (Hx & Hy)].
    - cbn [eo_add E']. rewrite (add'_wf x y Hx Hy Hd), (add'_wf y x Hy Hx (eq_sym Hd)).
      f_equal. apply padd_comm. exact Hd.
    - subst y. reflexivity.
  Qed.

  Lemma add_assoc' : forall x y z xy yz,
      sh x = sh y -> sh y = sh z ->
      eo_add E' x y = Some xy -> eo_add E' y z = Some yz -> eo_add E' xy z = eo_add E' x yz.
  Proof.
    intros x y z xy yz Hxy Hyz H1 H2. cbn [eo_add E'] in *.
    destruct (sh_eq_cases x y Hxy) as [(Hx & Hy & Hd) | (Hx & Hy)].
    - destruct (sh_eq_cases y z Hyz) as [(_ & Hz & Hd2) | (Hyb & _)];
        [| apply wfb_spec in Hy; congruence].
      rewrite (add'_wf x y Hx Hy Hd) in H1. injection H1 as H1. subst xy.
      rewrite (add'_wf y z Hy Hz Hd2) in H2. injection H2 as H2. subst yz.
      destruct (padd_wf x y Hx Hy Hd) as [Hw1 Hd1'].
      destruct (padd_wf y z Hy Hz Hd2) as [Hw2 Hd2'].
      rewrite (add'_wf (padd x y) z Hw1 Hz) by congruence.
      rewrite (add'_wf x (padd y z) Hx Hw2) by congruence.
      f_equal. apply padd_assoc.
    - subst y. destruct (sh_eq_cases x z Hyz) as [(Hxw & _) | (_ & Hz)];
        [apply wfb_spec in Hxw; congruence |].
      subst z. rewrite (add'_bad x x Hx) in H1, H2.
      injection H1 as H1. injection H2 as H2. subst xy yz. reflexivity.
  Qed.

  Lemma flat_sh' : forall d p d', eo_flat E' d p = Some d' -> sh d' = psh p.
  Proof.
    intros d p d' H. cbn [eo_flat E'] in H. unfold flat' in H.
    destruct (wfb d) eqn:Hd; [| discriminate H]. apply wfb_spec in Hd.
    destruct (flatten_to_shape O d d' _ Hd H) as [Hw Hdd].
    rewrite (sh_wf _ Hw), Hdd. reflexivity.
  Qed.

  Lemma ones_sh' : forall p, wf (pay_arr p) -> sh (eo_ones E' p) = psh p.
  Proof.
    intros p Hp. destruct (wf_ones O p Hp) as [Hw Hd].
    cbn [eo_ones E']. rewrite (sh_wf _ Hw). unfold psh. rewrite Hd. reflexivity.
  Qed.

  (** * [E O] and [E'] agree on the values of a pass *)

  Lemma agree_flat : forall d (p : pay) d',
      wf d -> eo_flat E d p = Some d' -> eo_flat E' d p = Some d'.
  Proof.
    intros d p d' Hd H. cbn [eo_flat E']. unfold flat'. apply wfb_spec in Hd. rewrite Hd. exact H.
  Qed.

  Lemma a_add_padd : forall x y z,
      wf x -> wf y -> dims x = dims y -> a_add O x y = Some z -> z = padd x y.
  Proof.
    intros x y z Hx Hy Hd Hz.
    destruct (dims x) as [|d0 dr] eqn:Hdx.
    - rewrite (a_add_nil_dims O x y Hdx) in Hz. discriminate Hz.
    - assert (Hne : dims x <> []) by (rewrite Hdx; discriminate).
      rewrite <- Hdx in Hd.
      destruct (a_add_same_dims O x y Hx Hy Hd Hne) as (c & Hc & Hwc & Hdc & Hvc).
      rewrite Hc in Hz. injection Hz as Hz. subst c.
      destruct (padd_wf x y Hx Hy Hd) as [[_ Hlp] Hdp].
      destruct Hwc as [_ Hlc]. pose proof Hx as [_ Hlx]. pose proof Hy as [_ Hly].
      apply (arr_ext O); [congruence | congruence |].
      intros k Hk. rewrite <- Hlc, Hdc in Hk.
      rewrite (Hvc k Hk). cbn [padd vals]. symmetry. apply zipw_nth; [lia | rewrite <- Hly, <- Hd; exact Hk].
  Qed.

  Lemma agree_add : forall (p : pay) x y z,
      grad_ok p x -> grad_ok p y -> eo_add E x y = Some z -> eo_add E' x y = Some z.
  Proof.
    intros p x y z [Hx Hdx] [Hy Hdy] Hz. cbn [eo_add E' Program.E] in *.
    assert (Hd : dims x = dims y) by congruence.
    rewrite (add'_wf x y Hx Hy Hd). f_equal. symmetry. apply a_add_padd; assumption.
  Qed.

  (** a successful pass of the concrete engine on a sound store is the pass of [E'] *)
  Theorem run_backward_E' : forall (g : list gnode) r keep seed res,
      store_good g ->
      (forall sd nd, seed = Some sd -> nth_error g r = Some nd -> grad_ok (n_pay nd) sd) ->
      run_backward E g r keep seed = Some res -> run_backward E' g r keep seed = Some res.
  Proof.
    intros g r keep seed res Hg Hseed Hrun.
    apply (run_backward_agree E E' (fun p : pay => wf (pay_arr p)) (@wf F) grad_ok); try assumption;
      try reflexivity.
    - intros p x [Hw _]. exact Hw.
    - exact (wf_ones O).
    - intros p pays saved x ds i d Hx Hds Hi. simpl in Hds.
      apply obind_some in Hds. destruct Hds as (code & _ & Hds).
      apply (run_bop_wf O code _ _ x ds Hx Hds i d Hi).
    - intros d p d' Hd Hfl. simpl in Hfl. apply (flatten_to_shape O d d' _ Hd Hfl).
    - intros p x y z [Hwx Hdx] [Hwy Hdy] Hz. simpl in Hz.
      destruct (a_add_same O x y z) as [Hwz Hdz]; [congruence | exact Hz |].
      split; [exact Hwz | congruence].
    - exact agree_flat.
    - exact agree_add.
    - apply store_good_vinv. exact Hg.
  Qed.

  (** * The value theorem for the concrete engine *)

  Lemma wfg_E' : forall g : list gnode, wfg E g -> wfg E' g.
  Proof. intros g H. exact H. Qed.

  Lemma contract_E' : forall g : list gnode, bop_contract E g -> bop_contract E' g.
  Proof. intros g H. exact H. Qed.

  Theorem pass_value_concrete : forall (g : list gnode) r keep seed s0 ndr g' log,
      store_good g -> r < length g -> nth_error g r = Some ndr ->
      seed_of E g r seed = Some s0 ->
      (forall sd, seed = Some sd -> grad_ok (n_pay ndr) sd) ->
      run_backward E g r keep seed = Some (g', log) ->
      run_backward E' g r keep seed = Some (g', log) /\
      grad_ok (n_pay ndr) s0 /\
      exists tab, adjoints E' g r s0 = Some tab /\ length tab = length g /\
        nth_error tab r = Some (Some s0) /\
        (forall id delta, In (id, delta) log -> nth_error tab id = Some (Some delta)) /\
        (forall id, id < length g -> (nth id tab None <> None <-> EngineDefs.reach g r id)) /\
        (forall id nd delta, nth_error g id = Some nd ->
             nth_error tab id = Some (Some delta) -> grad_ok (n_pay nd) delta) /\
        (forall id nd nd', nth_error g id = Some nd -> nth_error g' id = Some nd' ->
             n_grad nd' = n_grad nd \/
             exists delta, nth_error tab id = Some (Some delta) /\
                           stored E' (n_grad nd) delta (n_grad nd')) /\
        (forall id nd nd' delta, nth_error g id = Some nd -> nth_error g' id = Some nd' ->
             nth_error tab id = Some (Some delta) -> n_children nd = [] ->
             stored E' (n_grad nd) delta (n_grad nd')) /\
        (forall ndr', nth_error g' r = Some ndr' ->
             (keep = true \/ n_children ndr = [] -> stored E' (n_grad ndr) s0 (n_grad ndr')) /\
             (keep = false -> n_children ndr <> [] -> n_grad ndr' = n_grad ndr)) /\
        (forall id nd nd' delta, nth_error g id = Some nd -> nth_error g' id = Some nd' ->
             id <> r -> nth_error tab id = Some (Some delta) ->
             (forall p ndp e, EngineDefs.reach g r p -> nth_error g p = Some ndp ->
                              In e (n_children ndp) ->
                              e_tracked e = true -> e_node e = id -> e_keep e = true) ->
             stored E' (n_grad nd) delta (n_grad nd')) /\
        (forall id nd nd', nth_error g id = Some nd -> nth_error g' id = Some nd' ->
             id <> r -> n_children nd <> [] ->
             (forall p ndp e, EngineDefs.reach g r p -> nth_error g p = Some ndp ->
                              In e (n_children ndp) ->
                              e_tracked e = true -> e_node e = id -> e_keep e = false) ->
             n_grad nd' = n_grad nd) /\
        store_good g'.
  Proof.
    intros g r keep seed s0 ndr g' log Hg Hr Hndr Hseed Hsd Hrun.
    assert (Hs0 : grad_ok (n_pay ndr) s0).
    { unfold seed_of in Hseed. destruct seed as [sd|].
      - injection Hseed as Hseed. subst sd. apply Hsd. reflexivity.
      - apply obind_some in Hseed. destruct Hseed as (nd & Hnd & Hseed).
        assert (Heq : nd = ndr) by (unfold Program.gnode in *; congruence). subst nd.
        injection Hseed as Hseed. subst s0.
        apply (wf_ones O). destruct (Hg r ndr Hndr) as (_ & _ & _ & _ & Hw & _). exact Hw. }
    assert (Hseed' : forall sd nd, seed = Some sd -> nth_error g r = Some nd -> grad_ok (n_pay nd) sd).
    { intros sd nd Hs Hnd. rewrite Hndr in Hnd. injection Hnd as Hnd. subst nd. apply Hsd. exact Hs. }
    pose proof (run_backward_E' g r keep seed (g', log) Hg Hseed' Hrun) as Hrun'.
    split; [exact Hrun' |]. split; [exact Hs0 |].
    destruct (pass_good O g r keep seed g' log Hg Hr Hseed' Hrun) as [Hg' _].
    destruct (pass_value E' shape sh psh add_ok' add_comm' add_assoc' flat_sh'
                         g r keep seed s0 ndr g' log
                         (wfg_E' g (store_good_wfg O g Hg)) (store_good_clean g Hg)
                         (contract_E' g (store_good_contract O g Hg)) Hr Hndr)
      as (tab & H0 & H1 & H2 & H3 & H4 & H5 & H6 & H7 & H8 & H9 & H10 & _).
    - exact Hseed.
    - destruct Hs0 as [Hw Hd]. rewrite (sh_wf _ Hw). unfold psh. rewrite Hd. reflexivity.
    - intros id nd x Hnd Hx. destruct (Hg id nd Hnd) as (_ & _ & _ & _ & _ & Hgr).
      destruct (Hgr x Hx) as [Hw Hd]. rewrite (sh_wf _ Hw). unfold psh. rewrite Hd. reflexivity.
    - exact Hrun'.
    - exists tab. repeat (split; [assumption |]).
      split; [| repeat (split; [assumption |]); exact Hg'].
      intros id nd delta Hnd Ht. specialize (H5 id nd delta Hnd Ht).
      unfold psh in H5. apply sh_inl in H5. exact H5.
  Qed.
End ValueConcrete.

Print Assumptions run_backward_E'.
Print Assumptions pass_value_concrete.
