(** Independent specification vocabulary used by the value theorems
    (C03-C07): element access by multi-index, the broadcast index map, finite sums. *)

From Coq Require Import List Arith Bool Lia.
From Corgi Require Import Lib.OptionMonad Model.Scalar Model.Arr Model.SlicedOp Proofs.ArrFacts.
Import ListNotations.

Section SpecDefs.
  Context {F : Type}.

  (** element of [a] at the full multi-index [I] (row-major) *)
  Definition get (a : arr F) (I : list nat) : option F :=
    nth_error (vals a) (rowmajor (dims a) I).

  (** the index of an operand of dimensions [d] that position [I] of the broadcast result
      reads: [I] right-aligned to [d], 0 along unit dimensions *)
  Definition bclamp (d I : list nat) : list nat :=
    map (fun p : nat * nat => if snd p =? 1 then 0 else fst p)
        (combine (lastn (length d) I) d).
End SpecDefs.
