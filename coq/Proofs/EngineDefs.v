(** Specification vocabulary for the reverse-mode engine (C09, C10, C11):
    well-formed stores, clean stores, reachability through tracked entries,
    the contract a derivative closure must satisfy. *)

From Coq Require Import List Arith Bool Lia.
From Corgi Require Import Lib.OptionMonad Model.Engine.
Import ListNotations.

Section EngineDefs.
  Context {P D : Type}.
  Variable E : eops P D.

  Definition hasop (nd : node P D) : bool := eo_hasop E (n_pay nd).

  (** node ids are a topological order, and only nodes with a closure have children *)
  Definition wfg (g : store P D) : Prop :=
    forall id nd, nth_error g id = Some nd ->
      (forall e, In e (n_children nd) -> e_node e < id) /\
      (hasop nd = false -> n_children nd = []).

  (** no pass is in flight: every consumer count is 0 and no delta is pending *)
  Definition clean (g : store P D) : Prop :=
    forall id nd, nth_error g id = Some nd -> n_count nd = 0 /\ n_delta nd = None.

  (** nodes a pass started on [r] differentiates: [r] and everything reachable from it
      through child entries whose tracking flag is set *)
  Inductive reach (g : store P D) (r : nat) : nat -> Prop :=
  | reach_root : reach g r r
  | reach_step : forall m nd e,
      reach g r m -> nth_error g m = Some nd -> In e (n_children nd) ->
      e_tracked e = true -> reach g r (e_node e).

  (** [n] consumes [m] through a tracked entry *)
  Definition tedge (g : store P D) (n m : nat) : Prop :=
    exists nd e, nth_error g n = Some nd /\ In e (n_children nd) /\
                 e_tracked e = true /\ e_node e = m.

  (** number of tracked entries of node [n] that point to [m] *)
  Definition mult (g : store P D) (n m : nat) : nat :=
    match nth_error g n with
    | Some nd => length (filter (fun e => e_tracked e && (e_node e =? m)) (n_children nd))
    | None => 0
    end.

  (** the contract of a derivative closure: it returns at most one delta per child and a
      delta exactly for the children whose saved flag is set *)
  Definition bop_contract (g : store P D) : Prop :=
    forall id nd pays delta ds,
      nth_error g id = Some nd ->
      eo_bop E (n_pay nd) pays (map e_tracked (n_children nd)) delta = Some ds ->
      length ds <= length (n_children nd) /\
      forall i e, nth_error (n_children nd) i = Some e ->
                  (e_tracked e = true <-> exists d, nth_error ds i = Some (Some d)).

  (** position of the first occurrence of [id] in a trace *)
  Fixpoint pos_in (id : nat) (l : list nat) : option nat :=
    match l with
    | [] => None
    | x :: l' => if x =? id then Some 0
                 else match pos_in id l' with Some k => Some (S k) | None => None end
    end.

  Definition before (l : list nat) (a b : nat) : Prop :=
    exists i j, pos_in a l = Some i /\ pos_in b l = Some j /\ i < j.
End EngineDefs.
