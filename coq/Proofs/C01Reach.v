(** [backward_exact] without the assumption that ALL gradient slots are empty: in a
    training run the store still holds the nodes of earlier iterations with full slots;
    only the slots of the leaves the new pass reaches have to be empty.

    - [backward_table_gen]: the identity in table form (no assumption on the slots): the
      seed paired with the forward tangent of the root is the sum, over the leaves, of the
      entries of the adjoint table of the pass paired with the leaf tangents; plus what the
      pass does to every leaf slot in terms of that table, and where the table is non-empty;
    - [backward_exact_gen_reach]: if the slots of the reachable leaves are empty, the sum
      is over the gradients stored on the reachable leaves.
    Both are generic in the side-condition predicate ([Proofs/C01Gen.v]); the instances for
    [code_pre3] follow. *)

From Coq Require Import List Arith Bool Lia PeanoNat.
From Corgi Require Import Lib.OptionMonad Lib.Sums Model.Scalar Model.Arr Model.SlicedOp
     Model.Elementwise Model.Linalg Model.Ops Model.Engine Model.Program
     Proofs.ArrFacts Proofs.EngineDefs Proofs.EngineBase Proofs.Propagate Proofs.AdjointSpec
     Proofs.SweepBase Proofs.SweepAdjoint Proofs.SweepAdjointG Proofs.EngineValue
     Proofs.FlattenSpec Proofs.DualLift Proofs.LocalAdjoint Proofs.OpsWf
     Proofs.HistoryInv Proofs.ValueConcrete Proofs.FwdCode Proofs.CodeSupport
     Proofs.CodeSupport2 Proofs.HistoryVC Proofs.C01Concrete Proofs.C01Gen Proofs.CodeSupport3.
Import ListNotations.

Section C01Reach.
  Context {F : Type} (O : ScalarOps F) (R : is_cring O).

  Local Notation pay := (@pay F).
  Local Notation gnode := (@gnode F).
  Local Notation E := (Program.E O).
  Local Notation E' := (ValueConcrete.E' O).
  Local Notation D2 := (dual_ops O).

  (** what slot [m] of the table pairs to *)
  Definition tab_term (tab : table) (lt : nat -> arr F) (m : nat) : F :=
    match nth m tab None with
    | Some d => dot O (vals d) (vals (lt m))
    | None => f0 O
    end.

  Definition grad_term (g' : list gnode) (lt : nat -> arr F) (l : nat) : F :=
    match grad_at g' l with
    | Some gl => dot O (vals gl) (vals (lt l))
    | None => f0 O
    end.

  Lemma vsum_filter_restrict : forall {A} (p q : A -> bool) (f h : A -> F) l,
      (forall x, In x l -> p x = true -> q x = true -> f x = h x) ->
      (forall x, In x l -> p x = true -> q x = false -> f x = f0 O) ->
      vsum O (map f (filter p l)) = vsum O (map h (filter (fun x => p x && q x) l)).
  Proof.
    intros A p q f h l. induction l as [|a l IH]; intros H1 H2; [reflexivity |].
    assert (IH' : vsum O (map f (filter p l)) = vsum O (map h (filter (fun x => p x && q x) l))).
    { apply IH; intros x Hx; [apply H1 | apply H2]; right; exact Hx. }
    cbn [filter]. destruct (p a) eqn:Hp; cbn [andb]; [| exact IH'].
    destruct (q a) eqn:Hq; cbn [map]; rewrite !(vsum_cons O R).
    - rewrite IH', (H1 a (or_introl eq_refl) Hp Hq). reflexivity.
    - rewrite (H2 a (or_introl eq_refl) Hp Hq), (cr_add_0_l O R). exact IH'.
  Qed.

  Section Gen.
    Variable cpre : bop_code F -> list nat -> list (arr F) -> Prop.
    Variable g : list gnode.
    Variable lt : nat -> arr F.
    Hypothesis Hg : store_good g.
    Hypothesis Hvc : value_consistent O g.
    Hypothesis Hpre : pre_ok_gen cpre g.
    Hypothesis Hsupp : forall code d, code_supported_gen O cpre code d.
    Hypothesis Hliftable : forall code d, code_liftable_gen O cpre code d.
    Hypothesis Hnb : nobias_strict_gen O cpre.
    Hypothesis Hlt : leaf_tangents_ok g lt.

    Local Notation tan := (tan O g lt).

    Theorem backward_table_gen : forall r keep seed s0 ndr g' log,
        r < length g -> nth_error g r = Some ndr ->
        seed_of E g r seed = Some s0 ->
        (forall sd, seed = Some sd -> wf sd /\ dims sd = p_dims (n_pay ndr)) ->
        run_backward E g r keep seed = Some (g', log) ->
        exists tab,
          adjoints E' g r s0 = Some tab /\ length tab = length g /\
          (* the identity, in table form *)
          dot O (vals s0) (vals (tan r))
          = vsum O (map (tab_term tab lt) (filter (is_leaf g) (seq 0 (S r)))) /\
          (* the table is non-empty exactly on the reachable nodes *)
          (forall id, id < length g -> (nth id tab None <> None <-> EngineDefs.reach g r id)) /\
          (* what the pass does to the slot of a leaf *)
          (forall m nd nd', nth_error g m = Some nd -> nth_error g' m = Some nd' ->
                            n_children nd = [] ->
                            match nth m tab None with
                            | Some d => stored E' (n_grad nd) d (n_grad nd')
                            | None => n_grad nd' = n_grad nd
                            end) /\
          length g' = length g.
    Proof.
      intros r keep seed s0 ndr g' log Hr Hndr Hseed Hsd Hrun.
      destruct (pass_value_concrete O R g r keep seed s0 ndr g' log Hg Hr Hndr Hseed Hsd Hrun)
        as (_ & Hs0 & tab & Htab & Hlen & _ & _ & H2 & _ & H4 & H5a & _ & _ & _ & Hg').
      destruct (adjoint_identity_g E' g (arr F) F (f0 O) (fadd O)
                                   (cr_add_assoc O R) (cr_add_comm O R) (cr_add_0_l O R)
                                   (pairF O) tan grad_ok (G_add' O) (G_contribs' O g)
                                   (H_pair_add' O R)
                                   (H_local_gen O R cpre g lt Hg Hvc Hpre Hsupp Hliftable Hnb Hlt)
                                   r s0 tab ndr (store_good_wfg O g Hg) Hndr Hs0 Htab)
        as (_ & Hid).
      exists tab. split; [exact Htab |]. split; [exact Hlen |]. split; [| split; [exact H2 | split]].
      - change (pairF O s0 (tan r) = vsum O (map (tab_term tab lt) (filter (is_leaf g) (seq 0 (S r))))).
        rewrite Hid, (ksum_vsum O R).
        rewrite (filter_ext (fun m => negb (isop E' g m)) (is_leaf g))
          by (intro m; symmetry; apply is_leaf_isop).
        f_equal. apply map_ext_in. intros m Hm. apply filter_In in Hm. destruct Hm as [Hm Hleaf].
        apply in_seq in Hm. unfold tab_term.
        destruct (nth m tab None) as [d|]; [| reflexivity].
        assert (Hmg : m < length g) by lia.
        destruct (nth_error g m) as [nd|] eqn:Hnd; [| apply nth_error_None in Hnd; nlia].
        unfold is_leaf in Hleaf. unfold Program.gnode in Hleaf, Hnd. rewrite Hnd in Hleaf.
        destruct (p_bop (n_pay nd)) as [code|] eqn:Hb; [discriminate Hleaf |].
        rewrite (tan_leaf O g lt m nd Hnd Hb). reflexivity.
      - intros m nd nd' Hnd Hnd' Hch. rewrite nth_nth_error.
        destruct (nth_error tab m) as [[delta|]|] eqn:Ht.
        + apply (H5a m nd nd' delta Hnd Hnd' Ht Hch).
        + destruct (H4 m nd nd' Hnd Hnd') as [Hsame | (delta & Hd & _)]; [exact Hsame | congruence].
        + destruct (H4 m nd nd' Hnd Hnd') as [Hsame | (delta & Hd & _)]; [exact Hsame | congruence].
      - destruct (pass_good O g r keep seed g' log Hg Hr) as [_ Hl]; [| exact Hrun | exact Hl].
        intros sd nd0 Hs Hn0. rewrite Hndr in Hn0. injection Hn0 as Hn0. subst nd0.
        apply Hsd. exact Hs.
    Qed.

    (** only the slots of the reachable leaves have to be empty; [rb] decides reachability
        (for instance through the table, see [reach_decider]) *)
    Theorem backward_exact_gen_reach : forall r keep seed s0 ndr g' log (rb : nat -> bool),
        (forall l, l < length g -> (rb l = true <-> EngineDefs.reach g r l)) ->
        (forall l nd, EngineDefs.reach g r l -> nth_error g l = Some nd ->
                      p_bop (n_pay nd) = None -> n_grad nd = None) ->
        r < length g -> nth_error g r = Some ndr ->
        seed_of E g r seed = Some s0 ->
        (forall sd, seed = Some sd -> wf sd /\ dims sd = p_dims (n_pay ndr)) ->
        run_backward E g r keep seed = Some (g', log) ->
        dot O (vals s0) (vals (tan r))
        = vsum O (map (grad_term g' lt)
                      (filter (fun l => is_leaf g l && rb l) (seq 0 (S r)))).
    Proof.
      intros r keep seed s0 ndr g' log rb Hrb Hempty Hr Hndr Hseed Hsd Hrun.
      destruct (backward_table_gen r keep seed s0 ndr g' log Hr Hndr Hseed Hsd Hrun)
        as (tab & _ & Hlen & Hid & Hreach & Hslot & Hlen').
      rewrite Hid. apply vsum_filter_restrict.
      - intros m Hm Hleaf Hrbm. apply in_seq in Hm.
        assert (Hmg : m < length g) by lia.
        destruct (nth_error g m) as [nd|] eqn:Hnd; [| apply nth_error_None in Hnd; nlia].
        destruct (nth_error g' m) as [nd'|] eqn:Hnd'; [| apply nth_error_None in Hnd'; nlia].
        unfold is_leaf in Hleaf. unfold Program.gnode in Hleaf, Hnd, Hnd'. rewrite Hnd in Hleaf.
        destruct (p_bop (n_pay nd)) as [code|] eqn:Hb; [discriminate Hleaf |].
        assert (Hch : n_children nd = []).
        { destruct (Hg m nd Hnd) as (_ & Hnok & _). unfold node_ok, node_ok' in Hnok.
          rewrite Hb in Hnok. exact Hnok. }
        assert (Hre : EngineDefs.reach g r m) by (apply (Hrb m Hmg); exact Hrbm).
        pose proof (Hslot m nd nd' Hnd Hnd' Hch) as Hs.
        rewrite (Hempty m nd Hre Hnd Hb) in Hs.
        unfold tab_term, grad_term, grad_at. unfold Program.gnode. rewrite Hnd'.
        destruct (nth m tab None) as [d|]; [unfold stored in Hs; rewrite Hs; reflexivity |].
        rewrite Hs. reflexivity.
      - intros m Hm Hleaf Hrbm. apply in_seq in Hm.
        assert (Hmg : m < length g) by lia.
        unfold tab_term. destruct (nth m tab None) as [d|] eqn:Ht; [| reflexivity].
        exfalso. assert (Hre : EngineDefs.reach g r m) by (apply (Hreach m Hmg); rewrite Ht; discriminate).
        apply (Hrb m Hmg) in Hre. congruence.
    Qed.

    (** reachability is decided by the table of the pass *)
    Lemma reach_decider : forall r keep seed s0 ndr g' log,
        r < length g -> nth_error g r = Some ndr ->
        seed_of E g r seed = Some s0 ->
        (forall sd, seed = Some sd -> wf sd /\ dims sd = p_dims (n_pay ndr)) ->
        run_backward E g r keep seed = Some (g', log) ->
        exists rb : nat -> bool, forall l, l < length g -> (rb l = true <-> EngineDefs.reach g r l).
    Proof.
      intros r keep seed s0 ndr g' log Hr Hndr Hseed Hsd Hrun.
      destruct (backward_table_gen r keep seed s0 ndr g' log Hr Hndr Hseed Hsd Hrun)
        as (tab & _ & _ & _ & Hreach & _).
      exists (fun l => match nth l tab None with Some _ => true | None => false end).
      intros l Hl. rewrite <- (Hreach l Hl).
      destruct (nth l tab None); split; intro H; try reflexivity; try discriminate.
      exfalso. apply H. reflexivity.
    Qed.
  End Gen.

  (** * The instances for every built-in closure, rank-1 matmul forms included *)

  Section Scalars.
    Hypothesis Hdiv : forall a b, fdiv O a b = fmul O a (fdiv O (f1 O) b).
    Hypothesis Hinv_mul : forall a b,
        fdiv O (f1 O) (fmul O a b) = fmul O (fdiv O (f1 O) a) (fdiv O (f1 O) b).
    Hypothesis Hpow2 : forall x, fpow O x (two O) = fmul O x x.
    Hypothesis Hsig_fst : forall x x', fst (sigmoid_fn D2 (x, x')) = sigmoid_fn O x.
    Hypothesis Hsig : forall x x',
        snd (sigmoid_fn D2 (x, x'))
        = fmul O (fmul O (sigmoid_fn O x) (fsub O (f1 O) (sigmoid_fn O x))) x'.

    Theorem backward_table_all : forall (g : list gnode) lt r keep seed s0 ndr g' log,
        store_good g -> value_consistent O g -> pre_ok_gen code_pre3 g -> leaf_tangents_ok g lt ->
        r < length g -> nth_error g r = Some ndr ->
        seed_of E g r seed = Some s0 ->
        (forall sd, seed = Some sd -> wf sd /\ dims sd = p_dims (n_pay ndr)) ->
        run_backward E g r keep seed = Some (g', log) ->
        exists tab,
          adjoints E' g r s0 = Some tab /\ length tab = length g /\
          dot O (vals s0) (vals (tan O g lt r))
          = vsum O (map (tab_term tab lt) (filter (is_leaf g) (seq 0 (S r)))) /\
          (forall id, id < length g -> (nth id tab None <> None <-> EngineDefs.reach g r id)) /\
          (forall m nd nd', nth_error g m = Some nd -> nth_error g' m = Some nd' ->
                            n_children nd = [] ->
                            match nth m tab None with
                            | Some d => stored E' (n_grad nd) d (n_grad nd')
                            | None => n_grad nd' = n_grad nd
                            end) /\
          length g' = length g.
    Proof.
      intros g lt r keep seed s0 ndr g' log Hg Hvc Hpre Hlt.
      apply (backward_table_gen code_pre3 g lt Hg Hvc Hpre
                                (all_supported3 O R Hsig_fst Hsig Hdiv Hinv_mul Hpow2)
                                (all_liftable3 O R Hsig_fst Hsig Hdiv Hinv_mul Hpow2)
                                (nobias_strict3 O) Hlt).
    Qed.

    Theorem backward_exact_reach : forall (g : list gnode) lt r keep seed s0 ndr g' log
                                          (rb : nat -> bool),
        store_good g -> value_consistent O g -> pre_ok_gen code_pre3 g -> leaf_tangents_ok g lt ->
        (forall l, l < length g -> (rb l = true <-> EngineDefs.reach g r l)) ->
        (forall l nd, EngineDefs.reach g r l -> nth_error g l = Some nd ->
                      p_bop (n_pay nd) = None -> n_grad nd = None) ->
        r < length g -> nth_error g r = Some ndr ->
        seed_of E g r seed = Some s0 ->
        (forall sd, seed = Some sd -> wf sd /\ dims sd = p_dims (n_pay ndr)) ->
        run_backward E g r keep seed = Some (g', log) ->
        dot O (vals s0) (vals (tan O g lt r))
        = vsum O (map (grad_term g' lt) (filter (fun l => is_leaf g l && rb l) (seq 0 (S r)))).
    Proof.
      intros g lt r keep seed s0 ndr g' log rb Hg Hvc Hpre Hlt.
      apply (backward_exact_gen_reach code_pre3 g lt Hg Hvc Hpre
                                      (all_supported3 O R Hsig_fst Hsig Hdiv Hinv_mul Hpow2)
                                      (all_liftable3 O R Hsig_fst Hsig Hdiv Hinv_mul Hpow2)
                                      (nobias_strict3 O) Hlt).
    Qed.
  End Scalars.
End C01Reach.

Print Assumptions backward_table_gen.
Print Assumptions backward_exact_gen_reach.
Print Assumptions backward_exact_reach.
