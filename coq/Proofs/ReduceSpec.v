(** C07: reductions and point-wise maps.  [vsum] is the literal left fold (Rust's
    [iter().sum()]); no assumption on the scalar operations anywhere in this file. *)

From Coq Require Import List Arith Bool Lia PeanoNat.
From Corgi Require Import Lib.OptionMonad Lib.IdxDefs Lib.Idx Model.Scalar Model.Arr
     Model.SlicedOp Model.Elementwise Proofs.ArrFacts Proofs.BroadcastDims Proofs.SpecDefs
     Proofs.SlicedOpSpec Proofs.EwSpec.
Import ListNotations.

(** * All multi-indices of given dimensions, in row-major order *)

Definition all_indices (d : list nat) : list (list nat) := map (unrank d) (seq 0 (prod d)).

Lemma all_indices_length : forall d, length (all_indices d) = prod d.
Proof. intros. unfold all_indices. rewrite map_length, seq_length. reflexivity. Qed.

Lemma nth_error_all_indices : forall d x,
    x < prod d -> nth_error (all_indices d) x = Some (unrank d x).
Proof.
  intros d x Hx. unfold all_indices.
  rewrite nth_error_map.
  rewrite nth_error_nth' with (d := 0) by (rewrite seq_length; exact Hx).
  rewrite seq_nth by exact Hx. reflexivity.
Qed.

Lemma all_indices_in_range : forall d I,
    Forall (fun x => 1 <= x) d -> (In I (all_indices d) <-> in_range I d).
Proof.
  intros d I Hd. unfold all_indices. rewrite in_map_iff. split.
  - intros (x & <- & _). apply unrank_lt. exact Hd.
  - intros H. exists (rowmajor d I). split; [apply unrank_rowmajor; exact H|].
    apply in_seq. pose proof (rowmajor_lt_prod d I H). lia.
Qed.

(** * Blocks of the value buffer are the trailing sub-arrays *)

Section Blocks.
  Context {F : Type}.

  Lemma block_map : forall {B} (f : F -> B) g j (l : list F),
      block g j (map f l) = map f (block g j l).
  Proof. intros. unfold block. rewrite skipn_map, firstn_map. reflexivity. Qed.

  (** position [x] of block [rowmajor lead J] is the element at [J ++ unrank trail x] *)
  Lemma block_get : forall (a : arr F) lead trail J x,
      dims a = lead ++ trail -> Forall (fun v => 1 <= v) trail ->
      length J = length lead -> x < prod trail ->
      nth_error (block (prod trail) (rowmajor lead J) (vals a)) x = get a (J ++ unrank trail x).
  Proof.
    intros a lead trail J x Ed Ht HJ Hx. rewrite nth_error_block by exact Hx.
    unfold get. rewrite Ed, rowmajor_app by (symmetry; exact HJ).
    rewrite rowmajor_unrank by assumption. f_equal. lia.
  Qed.

  Lemma block_all_indices : forall (a : arr F) lead trail J,
      wf a -> dims a = lead ++ trail -> in_range J lead ->
      map Some (block (prod trail) (rowmajor lead J) (vals a))
      = map (fun K => get a (J ++ K)) (all_indices trail).
  Proof.
    intros a lead trail J [Hp Hl] Ed HJ.
    assert (Ht : Forall (fun v => 1 <= v) trail).
    { rewrite Ed in Hp. apply Forall_app in Hp. apply Hp. }
    assert (HlenJ : length J = length lead) by (eapply Forall2_len; exact HJ).
    assert (Hbl : length (block (prod trail) (rowmajor lead J) (vals a)) = prod trail).
    { apply (block_length _ _ (prod lead)).
      - rewrite <- Hl, Ed, prod_app. reflexivity.
      - apply rowmajor_lt_prod. exact HJ. }
    apply nth_error_ext. intros x. rewrite !nth_error_map.
    destruct (Nat.lt_ge_cases x (prod trail)) as [Hx|Hx].
    - rewrite nth_error_all_indices by exact Hx. cbn [option_map].
      rewrite <- (block_get a lead trail J x Ed Ht HlenJ Hx).
      destruct (nth_error (block (prod trail) (rowmajor lead J) (vals a)) x) eqn:E;
        [reflexivity|]. apply nth_error_None in E. lia.
    - replace (nth_error (block (prod trail) (rowmajor lead J) (vals a)) x) with (@None F)
        by (symmetry; apply nth_error_None; lia).
      replace (nth_error (all_indices trail) x) with (@None (list nat))
        by (symmetry; apply nth_error_None; rewrite all_indices_length; exact Hx).
      reflexivity.
  Qed.

  (** the last-dimension row *)
  Lemma row_get : forall (a : arr F) lead n J i,
      dims a = lead ++ [n] -> length J = length lead -> i < n ->
      nth_error (block n (rowmajor lead J) (vals a)) i = get a (J ++ [i]).
  Proof.
    intros a lead n J i Ed HJ Hi. rewrite nth_error_block by exact Hi.
    unfold get. rewrite Ed, rowmajor_snoc by (symmetry; exact HJ). f_equal. lia.
  Qed.
End Blocks.

Lemma firstn_app_len : forall {A} (l1 l2 : list A), firstn (length l1) (l1 ++ l2) = l1.
Proof.
  intros A l1 l2. rewrite firstn_app, Nat.sub_diag, firstn_all. cbn [firstn]. apply app_nil_r.
Qed.

Lemma skipn_app_len : forall {A} (l1 l2 : list A), skipn (length l1) (l1 ++ l2) = l2.
Proof.
  intros A l1 l2. rewrite skipn_app, Nat.sub_diag, skipn_all. reflexivity.
Qed.

Lemma prod_repeat_1 : forall k, prod (repeat 1 k) = 1.
Proof.
  induction k as [|k IH]; [reflexivity|].
  change (1 * prod (repeat 1 k) = 1). rewrite IH. reflexivity.
Qed.

(** * [sum] *)

Section Sum.
  Context {F : Type} (O : ScalarOps F).

  Theorem a_sum_zero : forall a : arr F, a_sum O 0 a = Some a.
  Proof. reflexivity. Qed.

  (** [sum(k)], [1 <= k <= rank]: the last [k] dimensions are summed away (left fold, in
      row-major order) and replaced by a single unit dimension *)
  Theorem a_sum_spec : forall k (a : arr F),
      wf a -> 1 <= k <= length (dims a) ->
      let lead := firstn (length (dims a) - k) (dims a) in
      let g := prod (lastn k (dims a)) in
      exists c, a_sum O k a = Some c /\ wf c /\ dims c = lead ++ [1] /\
        forall J, in_range J lead ->
          get c (J ++ [0]) = Some (vsum O (block g (rowmajor lead J) (vals a))).
  Proof.
    intros k a Hwa Hk lead g. pose proof Hwa as [Hpa Hla].
    assert (Hlead : Forall (fun x => 1 <= x) lead) by (apply Forall_firstn; exact Hpa).
    assert (Hlc : length lead = length (dims a) - k) by (unfold lead; rewrite firstn_length; lia).
    assert (Ek : (k =? 0) = false) by (apply Nat.eqb_neq; lia).
    assert (Eo1 : firstn (length (dims a) - k) (sum_target (dims a) k) = lead).
    { unfold sum_target. fold lead. rewrite <- Hlc. apply firstn_app_len. }
    assert (Eo2 : prod (skipn (length (dims a) - k) (sum_target (dims a) k)) = 1).
    { unfold sum_target. fold lead. rewrite <- Hlc, skipn_app_len. apply prod_repeat_1. }
    assert (Efl : flatten_dims (sum_target (dims a) k) k = Some (lead ++ [1])).
    { unfold flatten_dims. rewrite Ek.
      assert (El : length (sum_target (dims a) k) = length (dims a)).
      { unfold sum_target. fold lead. rewrite app_length, repeat_length. lia. }
      rewrite El. replace (k <=? length (dims a)) with true by (symmetry; apply Nat.leb_le; lia).
      cbn [guard obind]. rewrite Eo1, Eo2. reflexivity. }
    assert (Hpc : Forall (fun x => 1 <= x) (lead ++ [1])).
    { apply Forall_app. split; [exact Hlead|]. constructor; [lia|constructor]. }
    assert (Hsl : forall i, i < prod lead ->
               mapM (operand_slice k (length (dims a) - k) (unrank lead i)) [a]
               = Some [block g i (vals a)]).
    { intros i Hi. cbn [mapM].
      rewrite (operand_slice_spec k _ lead i a Hwa Hlead Hlc) by apply sub_lead_refl.
      fold lead. rewrite bclamp_id by (apply unrank_lt; exact Hlead).
      rewrite rowmajor_unrank by assumption. reflexivity. }
    assert (Hv : forallb (sliced_valid k (dims a)) [a] = true).
    { cbn [forallb]. rewrite andb_true_r. apply sliced_valid_spec; [lia|]. apply sub_lead_refl. }
    pose proof (sliced_op_nonacc_total O [a] (sum_sop O) (dims a) (sum_target (dims a) k)
                                       k k (lead ++ [1])) as T.
    cbv zeta in T. fold lead in T. rewrite Eo2 in T.
    destruct T as (out & Hout); try assumption.
    { intros i Hi. eexists. eexists. split; [apply Hsl; exact Hi|]. split; reflexivity. }
    { rewrite !prod_app. unfold sum_target. fold lead. rewrite prod_app, prod_repeat_1.
      reflexivity. }
    set (c := {| dims := lead ++ [1]; vals := out |}) in *.
    exists c.
    assert (Hsum : a_sum O k a = Some c) by (unfold a_sum; rewrite Ek; exact Hout).
    split; [exact Hsum|].
    pose proof (sliced_op_nonacc O [a] (sum_sop O) (dims a) (sum_target (dims a) k) k k c) as S.
    cbv zeta in S. fold lead in S. rewrite Eo2 in S.
    apply (proj1 (S Eo1 Hlead)) in Hout. clear S.
    destruct Hout as (_ & out' & Hlen & Hb & Hmk).
    rewrite Efl in Hmk. cbn [obind] in Hmk.
    apply mk_some in Hmk. destruct Hmk as (_ & Hpl & Hceq).
    assert (out' = out) by (unfold c in Hceq; congruence). subst out'.
    split; [split; [exact Hpc|exact Hpl]|].
    split; [reflexivity|].
    intros J HJ.
    assert (HlenJ : length J = length lead) by (eapply Forall2_len; exact HJ).
    set (i := rowmajor lead J).
    assert (Hi : i < prod lead) by (apply rowmajor_lt_prod; exact HJ).
    destruct (Hb i Hi) as (slices & Hs & Hnew).
    rewrite (Hsl i Hi) in Hs. inversion Hs; subst slices. clear Hs.
    cbn [repeat sum_sop] in Hnew. inversion Hnew as [Hblk]. clear Hnew.
    unfold get. cbn [dims vals c].
    rewrite rowmajor_snoc by (symmetry; exact HlenJ). fold i.
    replace (i * 1 + 0) with (1 * i + 0) by lia.
    rewrite <- (nth_error_block 1 i out 0) by lia. rewrite <- Hblk. reflexivity.
  Qed.

  (** the summed block, element by element *)
  Corollary a_sum_block_indices : forall k (a : arr F) J,
      wf a -> k <= length (dims a) ->
      in_range J (firstn (length (dims a) - k) (dims a)) ->
      map Some (block (prod (lastn k (dims a)))
                      (rowmajor (firstn (length (dims a) - k) (dims a)) J) (vals a))
      = map (fun K => get a (J ++ K)) (all_indices (lastn k (dims a))).
  Proof.
    intros k a J Hwa Hk HJ. apply block_all_indices; [exact Hwa| |exact HJ].
    symmetry. apply firstn_lastn.
  Qed.
End Sum.

(** * [reshape] and the point-wise maps *)

Section Pointwise.
  Context {F : Type} (O : ScalarOps F).

  Theorem a_reshape_spec : forall d (a c : arr F),
      a_reshape d a = Some c <->
      (Forall (fun x => 1 <= x) d /\ prod d = length (vals a) /\
       c = {| dims := d; vals := vals a |}).
  Proof. intros d a c. unfold a_reshape. apply mk_some. Qed.

  Lemma map_arr_wf : forall (g : F -> F) (a : arr F),
      wf a -> map_arr g a = Some {| dims := dims a; vals := map g (vals a) |}.
  Proof.
    intros g a [Hp Hl]. unfold map_arr. apply mk_some. rewrite map_length. auto.
  Qed.

  Lemma map_arr_result_wf : forall (g : F -> F) (a : arr F),
      wf a -> wf {| dims := dims a; vals := map g (vals a) |}.
  Proof. intros g a [Hp Hl]. split; cbn [dims vals]; [exact Hp|]. rewrite map_length. exact Hl. Qed.

  (** a map panics exactly on an ill-formed operand *)
  Lemma map_arr_some_iff : forall (g : F -> F) (a c : arr F),
      map_arr g a = Some c <-> (wf a /\ c = {| dims := dims a; vals := map g (vals a) |}).
  Proof.
    intros g a c. unfold map_arr. rewrite mk_some, map_length. unfold wf. tauto.
  Qed.

  Theorem a_scale_spec : forall s (a : arr F), wf a ->
      a_scale O s a = Some {| dims := dims a; vals := map (fun x => fmul O x s) (vals a) |}.
  Proof. intros s a. apply map_arr_wf. Qed.

  Theorem a_neg_spec : forall a : arr F, wf a ->
      a_neg O a = Some {| dims := dims a;
                          vals := map (fun x => fmul O x (fneg O (f1 O))) (vals a) |}.
  Proof. intros a. apply map_arr_wf. Qed.

  Theorem a_reciprocal_spec : forall a : arr F, wf a ->
      a_reciprocal O a = Some {| dims := dims a; vals := map (fun x => fdiv O (f1 O) x) (vals a) |}.
  Proof. intros a. apply map_arr_wf. Qed.

  Theorem a_powf_spec : forall e (a : arr F), wf a ->
      a_powf O e a = Some {| dims := dims a; vals := map (fun x => fpow O x e) (vals a) |}.
  Proof. intros e a. apply map_arr_wf. Qed.

  Theorem a_ln_spec : forall a : arr F, wf a ->
      a_ln O a = Some {| dims := dims a; vals := map (fln O) (vals a) |}.
  Proof. intros a. apply map_arr_wf. Qed.

  Theorem a_exp_spec : forall a : arr F, wf a ->
      a_exp O a = Some {| dims := dims a; vals := map (fexp O) (vals a) |}.
  Proof. intros a. apply map_arr_wf. Qed.

  Theorem a_relu_spec : forall a : arr F, wf a ->
      a_relu O a = Some {| dims := dims a;
                           vals := map (fun x => if fgt0 O x then x else f0 O) (vals a) |}.
  Proof. intros a. apply map_arr_wf. Qed.

  Theorem a_sigmoid_spec : forall a : arr F, wf a ->
      a_sigmoid O a
      = Some {| dims := dims a;
                vals := map (fun x => fdiv O (f1 O) (fadd O (f1 O) (fexp O (fneg O x)))) (vals a) |}.
  Proof. intros a. apply map_arr_wf. Qed.

  (** element view of a point-wise map *)
  Lemma get_map : forall (g : F -> F) d (v : list F) I,
      get {| dims := d; vals := map g v |} I = option_map g (get {| dims := d; vals := v |} I).
  Proof. intros. unfold get. cbn [dims vals]. apply nth_error_map. Qed.
End Pointwise.

(** * [softmax] along the last dimension *)

Section Softmax.
  Context {F : Type} (O : ScalarOps F).

  Lemma bcompat_rev_refl_1 : forall x : list nat, bcompat_rev x x.
  Proof. induction x as [|a x IH]; simpl; auto. Qed.

  Lemma bmax_rev_idem : forall x : list nat, bmax_rev x x = x.
  Proof. induction x as [|a x IH]; simpl; [reflexivity|]. rewrite IH, Nat.max_id. reflexivity. Qed.

  Lemma bcompat_refl : forall x, bcompat x x.
  Proof. intros. apply bcompat_rev_refl_1. Qed.

  Lemma bmax_idem : forall x, bmax x x = x.
  Proof. intros. unfold bmax. rewrite bmax_rev_idem. apply rev_involutive. Qed.

  (** [softmax(a)[J, i] = exp(a[J, i]) / sum_j exp(a[J, j])], the sum being the left fold
      over the row [J] of [a] *)
  Theorem a_softmax_spec : forall (a : arr F) lead n,
      wf a -> dims a = lead ++ [n] ->
      exists c, a_softmax O a = Some c /\ wf c /\ dims c = dims a /\
        forall J i, in_range J lead -> i < n ->
          exists x, get a (J ++ [i]) = Some x /\
                    get c (J ++ [i])
                    = Some (fdiv O (fexp O x)
                                 (vsum O (map (fexp O) (block n (rowmajor lead J) (vals a))))).
  Proof.
    intros a lead n Hwa Ed.
    set (e := {| dims := dims a; vals := map (fexp O) (vals a) |}).
    assert (He : a_exp O a = Some e) by (apply a_exp_spec; exact Hwa).
    assert (Hwe : wf e) by (apply map_arr_result_wf; exact Hwa).
    assert (Ede : dims e = lead ++ [n]) by exact Ed.
    assert (Hr : 1 <= 1 <= length (dims e)).
    { rewrite Ede, app_length. cbn [length]. lia. }
    destruct (a_sum_spec O 1 e Hwe Hr) as (s & Hs & Hws & Hds & Hgs).
    cbv zeta in Hgs.
    assert (El : firstn (length (dims e) - 1) (dims e) = lead).
    { rewrite Ede, app_length. cbn [length].
      replace (length lead + 1 - 1) with (length lead) by lia. apply firstn_app_len. }
    assert (Eg : prod (lastn 1 (dims e)) = n).
    { unfold lastn. rewrite Ede, app_length. cbn [length].
      replace (length lead + 1 - 1) with (length lead) by lia.
      rewrite skipn_app_len. cbn [prod fold_right]. lia. }
    rewrite El in Hds, Hgs. rewrite Eg in Hgs.
    destruct (wf_snoc a lead n Hwa Ed) as (Hpl & Hn & Hva).
    assert (Hc : bcompat (dims e) (dims s)).
    { rewrite Ede, Hds. apply bcompat_snoc. split; [auto|apply bcompat_refl]. }
    assert (Hbm : bmax (dims e) (dims s) = dims a).
    { rewrite Ede, Hds, bmax_snoc, bmax_idem, Ed. f_equal. f_equal. lia. }
    destruct (a_div_spec O e s Hwe Hws) as (c & Hdiv & Hwc & Hdc & Hval).
    { rewrite Ede. destruct lead; discriminate. }
    { rewrite Hds. destruct lead; discriminate. }
    { exact Hc. }
    exists c. split; [|split; [exact Hwc|split; [rewrite Hdc; exact Hbm|]]].
    - unfold a_softmax. rewrite He. cbn [obind]. rewrite Hs. cbn [obind]. exact Hdiv.
    - intros J i HJ Hi.
      assert (HlenJ : length J = length lead) by (eapply Forall2_len; exact HJ).
      assert (HI : in_range (J ++ [i]) (dims c)).
      { rewrite Hdc, Hbm, Ed. apply Forall2_app; [exact HJ|]. constructor; [exact Hi|constructor]. }
      destruct (Hval _ HI) as (x' & y & Hx' & Hy & Hz).
      assert (HIe : in_range (J ++ [i]) (dims e)) by (change (dims e) with (dims a); rewrite <- Hbm, <- Hdc; exact HI).
      rewrite (bclamp_id _ _ HIe) in Hx'.
      rewrite Hds in Hy. rewrite bclamp_snoc in Hy by lia.
      rewrite (bclamp_id _ _ HJ) in Hy. cbn [Nat.eqb] in Hy.
      rewrite (Hgs J HJ) in Hy. inversion Hy; subst y. clear Hy.
      unfold e in Hx'. rewrite get_map in Hx'.
      replace (get {| dims := dims a; vals := vals a |} (J ++ [i])) with (get a (J ++ [i]))
        in Hx' by reflexivity.
      destruct (get a (J ++ [i])) as [x|] eqn:Ex; [|discriminate].
      cbn [option_map] in Hx'. inversion Hx'; subst x'.
      exists x. split; [reflexivity|]. rewrite Hz. unfold e. cbn [vals].
      rewrite block_map. reflexivity.
  Qed.

  (** the row that is summed, element by element *)
  Lemma softmax_row : forall (a : arr F) lead n J i,
      dims a = lead ++ [n] -> length J = length lead -> i < n ->
      nth_error (block n (rowmajor lead J) (vals a)) i = get a (J ++ [i]).
  Proof. exact row_get. Qed.
End Softmax.

Print Assumptions a_sum_spec.
Print Assumptions a_softmax_spec.
Print Assumptions a_sigmoid_spec.
Print Assumptions a_reshape_spec.
