(** The existence direction: a backward pass on a sound, value-consistent graph with a
    well-shaped seed never panics.

    Part 1 (abstract engine): [guarded_total] -- [run_backward_total] of EngineInv.v with
    the totality hypotheses restricted to the values that actually occur (deltas
    acceptable for their node, [EnginePred.VInv] threaded through the pass).
    Part 2 (arrays): the closures of Model/Ops.v are total on such values. *)

From Coq Require Import List Arith Bool Lia PeanoNat.
From Corgi Require Import Lib.OptionMonad Model.Engine Proofs.EngineDefs Proofs.EngineBase
     Proofs.Propagate Proofs.EngineInv Proofs.EnginePred.
Import ListNotations.

Section Guarded.
  Context {P D : Type}.
  Variable E : eops P D.

  Variable pok : P -> Prop.
  Variable wfd : D -> Prop.
  Variable okd : P -> D -> Prop.

  (** preservation on successful calls (as in EnginePred.v) *)
  Hypothesis okd_wfd : forall p x, okd p x -> wfd x.
  Hypothesis H_ones : forall p, pok p -> okd p (eo_ones E p).
  Hypothesis H_bop : forall p pays saved x ds i d,
      wfd x -> eo_bop E p pays saved x = Some ds -> nth_error ds i = Some (Some d) -> wfd d.
  Hypothesis H_flat : forall d p d', wfd d -> eo_flat E d p = Some d' -> okd p d'.
  Hypothesis H_add : forall p x y z, okd p x -> okd p y -> eo_add E x y = Some z -> okd p z.

  Variable g0 : store P D.
  Variable r : nat.
  Hypothesis Hwf : wfg E g0.
  Hypothesis Hbc : bop_contract E g0.
  Hypothesis Hr : r < length g0.

  (** totality on acceptable values only *)
  Hypothesis T_add : forall p x y, pok p -> okd p x -> okd p y -> eo_add E x y <> None.
  Hypothesis T_bop : forall id nd pays delta,
      nth_error g0 id = Some nd -> eo_hasop E (n_pay nd) = true ->
      mapM (fun e : entry => c <- nth_error g0 (e_node e) ;; Some (n_pay c)) (n_children nd)
      = Some pays ->
      okd (n_pay nd) delta ->
      exists ds, eo_bop E (n_pay nd) pays (map e_tracked (n_children nd)) delta = Some ds /\
        forall i e d c, nth_error (n_children nd) i = Some e -> nth_error ds i = Some (Some d) ->
                        nth_error g0 (e_node e) = Some c -> eo_flat E d (n_pay c) <> None.

  Local Notation VInv := (VInv pok okd).
  Local Notation rec_ok := (rec_ok pok okd).
  Local Notation rec_spec := (rec_spec E g0 r).
  Local Notation SI := (SI E g0 r).

  Definition rec_total' (rec : @rec_t P D) (bound : nat) : Prop :=
    forall g id keep seed log X x,
      id < bound -> reach g0 r id -> SK g0 g -> cnt g id = 0 -> dlt g id = Some x ->
      Inv g0 g (tkn g0 id ++ X) -> DInvX g id -> LInvX E g0 r g log id -> OInv g0 r log ->
      VInv g ->
      exists res, rec g id keep seed log = Some res.

  Lemma fold_total' : forall rec bound,
      rec_spec rec bound -> rec_ok rec -> rec_total' rec bound ->
      forall ps g lg X,
        (forall c, In c (dl ps) -> c < bound /\ reach g0 r c) ->
        SI g (dl ps ++ X) lg -> VInv g ->
        (forall e d, In (e, Some d) ps ->
                     wfd d /\ forall c0, nth_error g0 (e_node e) = Some c0 ->
                                         eo_flat E d (n_pay c0) <> None) ->
        exists res, fold_left (deliver E rec) ps (Some (g, lg)) = Some res.
  Proof.
    intros rec bound Hrec Hok Htot ps.
    induction ps as [|[e od] ps IH]; intros g lg X Hps HSI HV Hds.
    - exists (g, lg). reflexivity.
    - change (fold_left (deliver E rec) ((e, od) :: ps) (Some (g, lg)))
        with (fold_left (deliver E rec) ps (deliver E rec (Some (g, lg)) (e, od))).
      assert (Hds' : forall e0 d0, In (e0, Some d0) ps ->
                 wfd d0 /\ forall c0, nth_error g0 (e_node e0) = Some c0 ->
                                      eo_flat E d0 (n_pay c0) <> None).
      { intros e0 d0 Hin. apply Hds. right. exact Hin. }
      destruct od as [d|].
      + change (dl ((e, Some d) :: ps)) with (e_node e :: dl ps) in *.
        set (c := e_node e) in *.
        assert (Hps' : forall c', In c' (dl ps) -> c' < bound /\ reach g0 r c').
        { intros c' Hin. apply Hps. right. exact Hin. }
        destruct (Hps c (or_introl eq_refl)) as (Hcb & Hcr).
        assert (Hclt : c < length g0) by (apply (reach_lt E g0 r Hwf); assumption).
        simpl app in HSI.
        pose proof HSI as (HS & HI & _).
        pose proof (SK_length g0 g HS) as Hlen.
        destruct (nth_error g c) as [cn|] eqn:Hcn; [| apply nth_error_None in Hcn; lia].
        destruct (SK_nth g0 g c cn HS Hcn) as (c0 & Hc0 & Hpay & _).
        destruct (Hds e d (or_introl eq_refl)) as (Hwd & Hfl).
        specialize (Hfl c0 Hc0). rewrite <- Hpay in Hfl.
        destruct (eo_flat E d (n_pay cn)) as [d'|] eqn:Hd'; [| congruence].
        assert (Hokd' : okd (n_pay cn) d') by (eapply H_flat; eassumption).
        destruct (HV c cn Hcn) as (Hpok & Hdl & Hgr).
        destruct (match n_delta cn with Some x => eo_add E x d' | None => Some d' end)
          as [nw|] eqn:Hnw.
        2:{ destruct (n_delta cn) as [x|] eqn:Hx; [| discriminate Hnw].
            exfalso. apply (T_add (n_pay cn) x d'); [exact Hpok | apply Hdl; reflexivity | exact Hokd' | exact Hnw]. }
        assert (Hoknw : okd (n_pay cn) nw).
        { destruct (n_delta cn) as [x|] eqn:Hx.
          - eapply H_add; [apply Hdl; reflexivity | exact Hokd' | exact Hnw].
          - injection Hnw as Hnw. subst nw. exact Hokd'. }
        pose proof (cnt_nth g c cn Hcn) as Hcc.
        assert (Hle : 1 <= n_count cn).
        { pose proof (HI c) as Hc. rewrite occ_cons, Nat.eqb_refl in Hc. lia. }
        destruct (put_some g c (set_count (set_delta cn (Some nw)) (n_count cn - 1)))
          as (g1 & Hput); [lia |].
        rewrite (deliver_fwd E rec g lg e d cn d' nw g1 Hcn Hd' Hnw Hle Hput). fold c.
        destruct (deliver_state g c cn nw g1 Hcn Hput) as (Hsk & Hcnt & Hdlt & Hgrd).
        assert (HV1 : VInv g1).
        { eapply VInv_put; [exact HV | exact Hput |]. unfold nok. simpl.
          split; [exact Hpok |]. split; [| exact Hgr].
          intros x Hx. injection Hx as Hx. subst x. exact Hoknw. }
        destruct (n_count cn =? 1) eqn:H1.
        * apply Nat.eqb_eq in H1.
          assert (Hc1 : cnt g c = 1) by lia.
          destruct (si_fire E g0 r Hr g g1 c (dl ps ++ X) lg nw HSI Hclt Hc1 Hsk Hcnt Hdlt)
            as (HS1 & Hcz & Hd1 & HI1 & HDX1 & HLX1 & HO1).
          destruct (Htot g1 c (e_keep e) None lg (dl ps ++ X) nw
                         Hcb Hcr HS1 Hcz Hd1 HI1 HDX1 HLX1 HO1 HV1) as ([g2 lg2] & Hres).
          rewrite Hres.
          destruct (Hrec g1 c (e_keep e) None lg (dl ps ++ X) nw g2 lg2
                         Hcb Hcr HS1 Hcz Hd1 HI1 HDX1 HLX1 HO1 Hres) as (HSI2 & _).
          destruct (Hok g1 c (e_keep e) None lg g2 lg2 HV1) as (HV2 & _);
            [intros s nd Hs; discriminate Hs | exact Hres |].
          apply (IH g2 lg2 X Hps' HSI2 HV2 Hds').
        * apply Nat.eqb_neq in H1.
          assert (Hc2 : 2 <= cnt g c) by lia.
          pose proof (si_dec E g0 r Hr g g1 c (dl ps ++ X) lg nw HSI Hc2 Hsk Hcnt Hdlt) as HSI1.
          apply (IH g1 lg X Hps' HSI1 HV1 Hds').
      + rewrite deliver_skip. apply (IH g lg X); assumption.
  Qed.

  Lemma finish_total' : forall (g2 : store P D) id keep delta log2 nd2,
      VInv g2 -> nth_error g2 id = Some nd2 -> okd (n_pay nd2) delta ->
      exists res, finish E g2 id keep delta log2 = Some res.
  Proof.
    intros g2 id keep delta log2 nd2 HV Hnd2 Hok.
    unfold finish. rewrite Hnd2. cbn [obind].
    destruct ((match n_children nd2 with [] => true | _ :: _ => false end) || keep).
    - destruct (HV id nd2 Hnd2) as (Hpok2 & _ & Hgr).
      destruct (match n_grad nd2 with Some x => eo_add E x delta | None => Some delta end)
        as [ng|] eqn:Hng.
      2:{ destruct (n_grad nd2) as [x|] eqn:Hx; [| discriminate Hng].
          exfalso. apply (T_add (n_pay nd2) x delta); [exact Hpok2 | apply Hgr; reflexivity | exact Hok | exact Hng]. }
      cbn [obind].
      destruct (put_some g2 id (set_grad nd2 (Some ng))) as (g3 & Hput);
        [eapply nth_lt; exact Hnd2 |].
      rewrite Hput. cbn [obind]. eexists. reflexivity.
    - eexists. reflexivity.
  Qed.

  Lemma sk_pay' : forall g g' : store P D, map sk g = map sk g' -> map n_pay g = map n_pay g'.
  Proof.
    intros g g' H.
    assert (H1 : map fst (map sk g) = map fst (map sk g')) by (rewrite H; reflexivity).
    rewrite !map_map in H1. exact H1.
  Qed.

  Lemma pay_lookup' : forall (ga gb : store P D) j,
      map n_pay ga = map n_pay gb ->
      (c <- nth_error ga j ;; Some (n_pay c)) = (c <- nth_error gb j ;; Some (n_pay c)).
  Proof.
    intros ga gb j H.
    assert (H1 : nth_error (map n_pay ga) j = nth_error (map n_pay gb) j) by (rewrite H; reflexivity).
    rewrite !nth_error_map in H1.
    destruct (nth_error ga j), (nth_error gb j); simpl in *; congruence.
  Qed.

  Lemma mapM_ext_in' : forall {A B} (f h : A -> option B) l,
      (forall x, In x l -> f x = h x) -> mapM f l = mapM h l.
  Proof.
    intros A B f h l. induction l as [|a l IH]; intro H; simpl.
    - reflexivity.
    - rewrite (H a (or_introl eq_refl)), IH; [reflexivity |].
      intros x Hx. apply H. right. exact Hx.
  Qed.

  Lemma body_total' : forall rec bound,
      rec_spec rec bound -> rec_ok rec -> rec_total' rec bound ->
      forall g1 id keep delta log X,
        id <= bound -> reach g0 r id -> SK g0 g1 -> cnt g1 id = 0 ->
        Inv g0 g1 (tkn g0 id ++ X) -> DInv g1 -> LInvX E g0 r g1 log id -> OInv g0 r log ->
        VInv g1 -> (forall nd1, nth_error g1 id = Some nd1 -> okd (n_pay nd1) delta) ->
        exists res, bw_body E rec g1 id keep delta log = Some res.
  Proof.
    intros rec bound Hrec Hok Htot g1 id keep delta log X Hidb Hrid HS1 Hc0 HI1 HD1 HLX HO HV1 Hdelta.
    assert (Hidlt : id < length g0) by (apply (reach_lt E g0 r Hwf); assumption).
    pose proof (SK_length g0 g1 HS1) as Hlen1.
    destruct (nth_error g1 id) as [nd1|] eqn:Hnd1; [| apply nth_error_None in Hnd1; lia].
    destruct (SK_nth g0 g1 id nd1 HS1 Hnd1) as (nd0 & Hnd0 & Hpay & Hch).
    pose proof (tkn_nth g0 id nd0 Hnd0) as Htk.
    destruct (Hwf id nd0 Hnd0) as (Hchlt & Hnoop).
    pose proof (Hdelta nd1 eq_refl) as Hokdelta.
    destruct (eo_hasop E (n_pay nd1)) eqn:Hop.
    - destruct (bw_body_op E rec g1 id keep delta log nd1 Hnd1 Hop) as (g1a & Hg1a & Heq).
      rewrite Heq. clear Heq.
      (* the payloads read through [g1a] are those of [g0] *)
      assert (Hpaya : map n_pay g1a = map n_pay g0).
      { rewrite (put_map n_pay g1 id nd1 _ g1a Hg1a Hnd1 eq_refl). apply sk_pay'. exact HS1. }
      assert (Hmap : mapM (fun e : entry => c <- nth_error g1a (e_node e) ;; Some (n_pay c))
                          (n_children nd1)
                   = mapM (fun e : entry => c <- nth_error g0 (e_node e) ;; Some (n_pay c))
                          (n_children nd0)).
      { rewrite Hch. apply mapM_ext_in'. intros e _. apply pay_lookup'. exact Hpaya. }
      destruct (mapM_some (fun e : entry => c <- nth_error g0 (e_node e) ;; Some (n_pay c))
                          (n_children nd0)) as (pays & Hpays).
      { intros e Hin. specialize (Hchlt e Hin).
        destruct (nth_error g0 (e_node e)) as [c|] eqn:Hc.
        - exists (n_pay c). reflexivity.
        - apply nth_error_None in Hc. lia. }
      rewrite Hmap, Hpays. cbn [obind].
      rewrite Hpay in Hop, Hokdelta.
      destruct (T_bop id nd0 pays delta Hnd0 Hop Hpays Hokdelta) as (ds & Hds & Hflat).
      rewrite Hpay, Hch, Hds. cbn [obind].
      destruct (Hbc id nd0 pays delta ds Hnd0 Hds) as (Hlenc & Hflags).
      pose proof (dl_combine g0 r Hr (n_children nd0) ds Hlenc Hflags) as Hdl.
      pose proof Hlenc as Hlenb. apply Nat.leb_le in Hlenb. rewrite Hlenb. cbn [guard obind].
      assert (Hopb : opb E g0 id = true).
      { unfold opb, hasop. rewrite Hnd0. exact Hop. }
      assert (Hps : forall c, In c (dl (combine (n_children nd0) ds)) ->
                              c < bound /\ reach g0 r c).
      { intros c Hin. rewrite Hdl, <- Htk in Hin. apply tkn_tedge in Hin.
        pose proof (tedge_lt E g0 Hwf id c Hin) as (Hlt & _).
        split; [lia |]. eapply reach_tedge; eassumption. }
      assert (HSI : SI g1 (dl (combine (n_children nd0) ds) ++ X) (log ++ [(id, delta)])).
      { rewrite Hdl, <- Htk.
        split; [exact HS1 |]. split; [exact HI1 |]. split; [exact HD1 |].
        split; [apply linv_log; assumption |].
        eapply (oinv_log E g0 r Hwf Hr); eassumption. }
      assert (Hwds : forall e d, In (e, Some d) (combine (n_children nd0) ds) ->
                 wfd d /\ forall c0, nth_error g0 (e_node e) = Some c0 ->
                                     eo_flat E d (n_pay c0) <> None).
      { intros e d Hin.
        assert (Hi : exists i, nth_error (n_children nd0) i = Some e /\
                               nth_error ds i = Some (Some d)).
        { clear -Hin. revert Hin. generalize (n_children nd0) as es. generalize ds as l.
          induction l as [|o l IH]; intros es Hin.
          - destruct es; destruct Hin.
          - destruct es as [|e0 es]; [destruct Hin |]. destruct Hin as [Hin|Hin].
            + injection Hin as H1 H2. subst. exists 0. split; reflexivity.
            + destruct (IH es Hin) as (i & H1 & H2). exists (S i). split; assumption. }
        destruct Hi as (i & Hei & Hdi). split.
        - eapply H_bop; [eapply okd_wfd; exact Hokdelta | exact Hds | exact Hdi].
        - intros c0 Hc0'. apply (Hflat i e d c0 Hei Hdi Hc0'). }
      destruct (fold_total' rec bound Hrec Hok Htot (combine (n_children nd0) ds) g1
                            (log ++ [(id, delta)]) X Hps HSI HV1 Hwds) as ([g2 log2] & Hfold).
      match goal with |- exists res, obind ?t _ = _ =>
        assert (Ht : t = Some (g2, log2)) by exact Hfold; rewrite Ht end. cbn [obind].
      destruct (fold_spec E g0 r Hwf Hr rec bound Hrec (combine (n_children nd0) ds) g1
                          (log ++ [(id, delta)]) X g2 log2 Hps HSI Hfold) as ((HS2 & _) & _).
      assert (Hwd2 : forall e d, In (e, Some d) (combine (n_children nd0) ds) -> wfd d)
        by (intros e d Hin; apply (Hwds e d Hin)).
      destruct (fold_deliver_ok E pok wfd okd H_flat H_add rec (combine (n_children nd0) ds) g1
                                (log ++ [(id, delta)]) g2 log2 Hok HV1 Hwd2 Hfold) as (HV2 & Hp2).
      pose proof (SK_length g0 g2 HS2) as Hlen2.
      destruct (nth_error g2 id) as [nd2|] eqn:Hnd2; [| apply nth_error_None in Hnd2; lia].
      apply (finish_total' g2 id keep delta log2 nd2 HV2 Hnd2).
      rewrite (pay_nth g1 g2 id nd1 nd2 Hp2 Hnd1 Hnd2), Hpay. exact Hokdelta.
    - unfold bw_body. rewrite Hnd1. cbn [obind]. rewrite Hop. cbv zeta.
      assert (Hnil : n_children nd1 = []).
      { rewrite Hch. apply Hnoop. unfold hasop. rewrite <- Hpay. exact Hop. }
      rewrite Hnil. cbn [guard obind].
      apply (finish_total' g1 id keep delta log nd1 HV1 Hnd1 Hokdelta).
  Qed.

  Lemma backward_rec_total' : forall f, rec_total' (backward E f) f.
  Proof.
    induction f as [|f IHf];
      intros g id keep seed log X x Hid Hrid HS Hc0 Hdx HI HDX HLX HO HV.
    - lia.
    - rewrite backward_S.
      assert (Hidlt : id < length g0) by (apply (reach_lt E g0 r Hwf); assumption).
      pose proof (SK_length g0 g HS) as Hlen.
      destruct (nth_error g id) as [nd|] eqn:Hnd; [| apply nth_error_None in Hnd; lia].
      cbn [obind].
      pose proof (dlt_nth g id nd Hnd) as Hdn. rewrite Hdx in Hdn. rewrite <- Hdn.
      destruct (put_some g id (set_delta nd None)) as (g1 & Hput); [lia |].
      rewrite Hput. cbn [obind].
      assert (Hsk : map sk g1 = map sk g)
        by (eapply put_map; [exact Hput | exact Hnd | reflexivity]).
      assert (Hcnt : forall m, cnt g1 m = cnt g m).
      { intro m. rewrite (put_cnt g id _ g1 m Hput). simpl.
        destruct (m =? id) eqn:Hm; [|reflexivity].
        apply Nat.eqb_eq in Hm. subst m. rewrite (cnt_nth g id nd Hnd). reflexivity. }
      assert (Hdlt : forall m, dlt g1 m = if m =? id then None else dlt g m).
      { intro m. rewrite (put_dlt g id _ g1 m Hput). reflexivity. }
      assert (HD1 : DInv g1).
      { intros m Hm. rewrite Hdlt. destruct (m =? id) eqn:Hmid; [reflexivity |].
        apply Nat.eqb_neq in Hmid. apply HDX; [exact Hmid |]. rewrite <- Hcnt. exact Hm. }
      destruct (HV id nd Hnd) as (Hpok & Hdl & Hgr).
      assert (HV1 : VInv g1).
      { eapply VInv_put; [exact HV | exact Hput |]. unfold nok. simpl.
        split; [exact Hpok |]. split; [intros y Hy; discriminate Hy | exact Hgr]. }
      apply (body_total' (backward E f) f (backward_rec_spec E g0 r Hwf Hbc Hr f)
                         (backward_rec_ok E pok wfd okd okd_wfd H_ones H_bop H_flat H_add f)
                         IHf g1 id keep x log X).
      + lia.
      + exact Hrid.
      + unfold SK in *. rewrite Hsk. exact HS.
      + rewrite Hcnt. exact Hc0.
      + eapply Inv_ext; [exact Hcnt | exact HI].
      + exact HD1.
      + eapply LInvX_ext; [exact Hcnt | exact HLX].
      + exact HO.
      + exact HV1.
      + intros nd1 Hnd1. rewrite (put_nth_eq g id _ g1 Hput) in Hnd1. injection Hnd1 as Hnd1.
        subst nd1. simpl. apply Hdl. symmetry. exact Hdn.
  Qed.

  (** a pass on a clean store whose values are acceptable never panics *)
  Theorem guarded_total : forall keep seed,
      clean g0 -> VInv g0 ->
      (forall s nd, seed = Some s -> nth_error g0 r = Some nd -> okd (n_pay nd) s) ->
      run_backward E g0 r keep seed <> None.
  Proof.
    intros keep seed Hclean HV Hseed.
    destruct (root_state E g0 r Hwf Hclean Hr)
      as (g1 & Hprop & Hnc & Hreach & HS1 & Hcr & HI1 & HD1 & HLX & HO).
    unfold run_backward. rewrite backward_S.
    destruct (nth_error g0 r) as [nd|] eqn:Hnd; [| apply nth_error_None in Hnd; lia].
    cbn [obind]. destruct (Hclean r nd Hnd) as (_ & Hdn). rewrite Hdn.
    rewrite Hprop. cbn [obind].
    assert (HV1 : VInv g1) by (eapply VInv_nc; [exact Hnc | exact HV]).
    destruct (HV r nd Hnd) as (Hpok & _ & _).
    destruct (body_total' (backward E r) r (backward_rec_spec E g0 r Hwf Hbc Hr r)
                          (backward_rec_ok E pok wfd okd okd_wfd H_ones H_bop H_flat H_add r)
                          (backward_rec_total' r) g1 r keep
                          (match seed with Some s => s | None => eo_ones E (n_pay nd) end)
                          [] [] (le_n r) (reach_root g0 r) HS1 Hcr HI1 HD1 HLX HO HV1)
      as (res & Hres).
    - intros nd1 Hnd1.
      destruct (SK_nth g0 g1 r nd1 HS1 Hnd1) as (nd0 & Hnd0 & Hpay & _).
      rewrite Hnd in Hnd0. injection Hnd0 as Hnd0. subst nd0. rewrite Hpay.
      destruct seed as [s|]; [apply (Hseed s nd eq_refl eq_refl) | apply H_ones; exact Hpok].
    - rewrite Hres. discriminate.
  Qed.
End Guarded.

(** * Part 2: the array engine *)

From Corgi Require Import Lib.IdxDefs Lib.Idx Lib.Sums Model.Scalar Model.Arr Model.SlicedOp Model.Elementwise
     Model.Linalg Model.Image Model.Ops Model.Program
     Proofs.ArrFacts Proofs.BroadcastDims Proofs.SpecDefs Proofs.SlicedOpSpec Proofs.EwSpec
     Proofs.ReduceSpec Proofs.FlattenSpec Proofs.MatmulSpec Proofs.ConvSpec Proofs.OpsWf Proofs.HistoryInv Proofs.DualLift
     Proofs.LocalAdjoint Proofs.FwdCode.

Section Concrete.
  Context {F : Type} (O : ScalarOps F) (R : is_cring O).

  Local Notation pay := (@pay F).
  Local Notation gnode := (@gnode F).
  Local Notation E := (Program.E O).

  (** no rank-0 array in the graph (two rank-0 arrays cannot be added) *)
  Definition nonscalar (g : list gnode) : Prop :=
    forall id nd, nth_error g id = Some nd -> p_dims (n_pay nd) <> [].

  (** the closure [code] of a node with value [v] and children values [cs] is total: on
      every delta of the node's shape it returns deltas that flatten to its children *)
  Definition closure_total (code : bop_code F) (cs : list (arr F)) (v : arr F)
             (flags : list bool) : Prop :=
    forall delta, wf delta -> dims delta = dims v ->
      exists ds, run_bop O code cs flags delta = Some ds /\
        forall i c d, nth_error cs i = Some c -> nth_error ds i = Some (Some d) ->
                      flatten_to O d (dims c) <> None.

  Definition closures_total (g : list gnode) : Prop :=
    forall id nd code, nth_error g id = Some nd -> p_bop (n_pay nd) = Some code ->
      closure_total code (cvals g (n_children nd)) (pay_arr (n_pay nd))
                    (map e_tracked (n_children nd)).

  Lemma mapM_pays_cvals : forall (g : list gnode) es pays,
      mapM (fun e : entry => c <- nth_error g (e_node e) ;; Some (n_pay c)) es = Some pays ->
      map pay_arr pays = cvals g es.
  Proof.
    intros g es. induction es as [|e es IH]; intros pays H; simpl in H.
    - injection H as H. subst pays. reflexivity.
    - apply obind_some in H. destruct H as (p & Hp & H).
      apply obind_some in H. destruct H as (ps & Hps & H). injection H as H. subst pays.
      apply obind_some in Hp. destruct Hp as (c & Hc & Hp). injection Hp as Hp. subst p.
      simpl. unfold nval at 1. unfold Program.gnode in *. rewrite Hc. f_equal. apply IH. exact Hps.
  Qed.

  (** the general statement: sound store, no rank-0 node, every closure total *)
  Theorem backward_total_gen : forall (g : list gnode) r keep seed,
      store_good g -> nonscalar g -> closures_total g -> r < length g ->
      (forall sd nd, seed = Some sd -> nth_error g r = Some nd -> grad_ok (n_pay nd) sd) ->
      run_backward E g r keep seed <> None.
  Proof.
    intros g r keep seed Hg Hns Hct Hr Hseed.
    apply (guarded_total E (fun p : pay => wf (pay_arr p) /\ p_dims p <> []) (@wf F) grad_ok).
    - intros p x [Hw _]. exact Hw.
    - intros p [Hp _]. apply (wf_ones O). exact Hp.
    - intros p pays saved x ds i d Hx Hds Hi. simpl in Hds.
      apply obind_some in Hds. destruct Hds as (code & _ & Hds).
      apply (run_bop_wf O code _ _ x ds Hx Hds i d Hi).
    - intros d p d' Hd Hfl. simpl in Hfl. apply (flatten_to_shape O d d' _ Hd Hfl).
    - intros p x y z [Hwx Hdx] [Hwy Hdy] Hz. simpl in Hz.
      destruct (a_add_same O x y z) as [Hwz Hdz]; [congruence | exact Hz |].
      split; [exact Hwz | congruence].
    - exact (store_good_wfg O g Hg).
    - exact (store_good_contract O g Hg).
    - exact Hr.
    - intros p x y [_ Hne] [Hwx Hdx] [Hwy Hdy]. simpl.
      destruct (a_add_same_dims O x y Hwx Hwy) as (c & Hc & _); [congruence | congruence |].
      rewrite Hc. discriminate.
    - intros id nd pays delta Hnd Hop Hpays [Hwd Hdd].
      simpl in Hop. destruct (p_bop (n_pay nd)) as [code|] eqn:Hcode; [| discriminate Hop].
      destruct (Hct id nd code Hnd Hcode delta Hwd) as (ds & Hds & Hfl); [exact Hdd |].
      exists ds. split.
      + simpl. rewrite Hcode. cbn [obind]. rewrite (mapM_pays_cvals g _ pays Hpays). exact Hds.
      + intros i e d c He Hd Hc. simpl.
        apply (Hfl i (pay_arr (n_pay c)) d); [| exact Hd].
        unfold cvals. rewrite nth_error_map, He. simpl. unfold nval.
        unfold Program.gnode in *. rewrite Hc. reflexivity.
    - exact (store_good_clean g Hg).
    - intros id nd Hnd. destruct (Hg id nd Hnd) as (_ & _ & _ & Hd & Hw & Hgr).
      split; [split; [exact Hw | apply (Hns id nd Hnd)] |].
      split; [intros x Hx; rewrite Hd in Hx; discriminate Hx | exact Hgr].
    - exact Hseed.
  Qed.

  (** * Totality of the closures *)

  (** side conditions beyond what the forward success gives: the user operations of the
      harness are used on equal dimensions; [sum(k)] within the rank *)
  Definition closure_side (code : bop_code F) (cs : list (arr F)) (v : arr F) : Prop :=
    match code with
    | BCustom CMul | BCustom CAff => dims (nth 0 cs dummy_arr) = dims (nth 1 cs dummy_arr)
    | BSum k _ => k <= length (dims (nth 0 cs dummy_arr))
    | BMatmul ta tb =>
      ((2 <= length (dims (nth 0 cs dummy_arr)) /\ 2 <= length (dims (nth 1 cs dummy_arr))) \/
       (length (dims (nth 0 cs dummy_arr)) = 1 /\ length (dims (nth 1 cs dummy_arr)) = 1 /\
        ta = false /\ tb = false)) /\
      sub_lead (dims (nth 2 cs dummy_arr)) (dims v)
    | _ => True
    end.

  Definition node_facts (code : bop_code F) (cs : list (arr F)) (v : arr F) : Prop :=
    length cs = arity code /\ Forall (@wf F) cs /\ Forall (fun c : arr F => dims c <> []) cs /\
    wf v /\ dims v <> [] /\ code_fits code cs v /\ closure_side code cs v /\
    (fwd_of_code O (fun s => s) code (dims v) cs = Some v \/ matmul_nobias O code cs v).

  (** ** helpers *)

  Lemma flat_same : forall (d c : arr F), dims d = dims c -> flatten_to O d (dims c) <> None.
  Proof. intros d c H. rewrite <- H, (flatten_to_same O d). discriminate. Qed.

  Lemma flat_sub : forall (d c : arr F),
      wf d -> wf c -> dims c <> [] -> sub_lead (dims c) (dims d) ->
      flatten_to O d (dims c) <> None.
  Proof.
    intros d c Hd [Hc _] Hne Hsub.
    destruct (flatten_to_flat O R d (dims c) Hd Hne Hc) as (r & Hr & _).
    - apply sub_target_sub_lead. exact Hsub.
    - rewrite Hr. discriminate.
  Qed.

  Lemma ew_inv : forall (f : F -> F -> F) (a b v : arr F),
      element_wise_op O f a b = Some v ->
      bcompat (dims a) (dims b) /\ dims v = bmax (dims a) (dims b) /\
      dims a <> [] /\ dims b <> [].
  Proof.
    intros f a b v H. unfold element_wise_op in H.
    apply obind_some in H. destruct H as (d & Hd & H).
    apply obind_some in H. destruct H as (la & Hla & H).
    apply obind_some in H. destruct H as (lb & Hlb & H).
    apply element_wise_dimensions_spec in Hd. destruct Hd as (Hc & ->).
    apply (sliced_op_shape O) in H. destruct H as (_ & Hdv).
    split; [exact Hc |]. split; [exact Hdv |]. split.
    - intro He. rewrite He in Hla. discriminate Hla.
    - intro He. rewrite He in Hlb. discriminate Hlb.
  Qed.

  Lemma ew_total : forall (f : F -> F -> F) (a b : arr F),
      wf a -> wf b -> dims a <> [] -> dims b <> [] -> bcompat (dims a) (dims b) ->
      exists c, element_wise_op O f a b = Some c /\ wf c /\ dims c = bmax (dims a) (dims b).
  Proof.
    intros f a b Ha Hb Hna Hnb Hc.
    destruct (element_wise_op_spec O f a b Ha Hb Hna Hnb Hc) as (c & H1 & H2 & H3 & _).
    exists c. tauto.
  Qed.

  Lemma bcompat_rev_absorb : forall x y, bcompat_rev x y -> bcompat_rev y (bmax_rev x y).
  Proof.
    induction x as [|a x IH]; intros [|b y] H; simpl in *; try exact I.
    - exact (bcompat_rev_refl_1 (b :: y)).
    - destruct H as (Hab & H). split; [lia | apply IH; exact H].
  Qed.

  Lemma bmax_rev_absorb : forall x y, bmax_rev y (bmax_rev x y) = bmax_rev x y.
  Proof.
    induction x as [|a x IH]; intros [|b y]; simpl.
    - reflexivity.
    - f_equal; [lia | apply bmax_rev_idem].
    - reflexivity.
    - f_equal; [lia | apply IH].
  Qed.

  Lemma bcompat_absorb_r : forall x y, bcompat x y -> bcompat y (bmax x y).
  Proof.
    intros x y H. unfold bcompat, bmax in *. rewrite rev_involutive. apply bcompat_rev_absorb. exact H.
  Qed.

  Lemma bmax_absorb_r : forall x y, bmax y (bmax x y) = bmax x y.
  Proof. intros x y. unfold bmax. rewrite rev_involutive, bmax_rev_absorb. reflexivity. Qed.

  Lemma bcompat_absorb_l : forall x y, bcompat x y -> bcompat x (bmax x y).
  Proof.
    intros x y H. rewrite bmax_sym. apply bcompat_absorb_r. apply bcompat_sym. exact H.
  Qed.

  Lemma bmax_absorb_l : forall x y, bmax x (bmax x y) = bmax x y.
  Proof. intros x y. rewrite (bmax_sym x y). apply bmax_absorb_r. Qed.

  Lemma map_arr_total : forall (g : F -> F) (a : arr F),
      wf a -> exists c, map_arr g a = Some c /\ wf c /\ dims c = dims a.
  Proof.
    intros g a Ha. exists {| dims := dims a; vals := map g (vals a) |}.
    split; [apply ReduceSpec.map_arr_wf; exact Ha |]. split; [apply map_arr_result_wf; exact Ha | reflexivity].
  Qed.

  Lemma when_total : forall (b : bool) (X : option (arr F)) (Q : arr F -> Prop),
      (exists r, X = Some r /\ Q r) ->
      exists o, when b X = Some o /\ forall d, o = Some d -> Q d.
  Proof.
    intros b X Q (r & Hr & HQ). unfold when. destruct b.
    - rewrite Hr. simpl. exists (Some r). split; [reflexivity |].
      intros d Hd. injection Hd as Hd. subst d. exact HQ.
    - exists None. split; [reflexivity |]. intros d Hd. discriminate Hd.
  Qed.

  Definition slot_ok (c : arr F) (o : option (arr F)) : Prop :=
    forall d, o = Some d -> flatten_to O d (dims c) <> None.

  Lemma slots1 : forall c0 o0, slot_ok c0 o0 ->
      forall i c d, nth_error [c0] i = Some c -> nth_error [o0] i = Some (Some d) ->
                    flatten_to O d (dims c) <> None.
  Proof.
    intros c0 o0 H i c d Hc Hd. destruct i as [|[|i]]; simpl in *; try discriminate Hc.
    injection Hc as Hc. injection Hd as Hd. subst c. apply (H d Hd).
  Qed.

  Lemma slots2 : forall c0 c1 o0 o1, slot_ok c0 o0 -> slot_ok c1 o1 ->
      forall i c d, nth_error [c0; c1] i = Some c -> nth_error [o0; o1] i = Some (Some d) ->
                    flatten_to O d (dims c) <> None.
  Proof.
    intros c0 c1 o0 o1 H0 H1 i c d Hc Hd.
    destruct i as [|[|[|i]]]; simpl in *; try discriminate Hc.
    - injection Hc as Hc. injection Hd as Hd. subst c. apply (H0 d Hd).
    - injection Hc as Hc. injection Hd as Hd. subst c. apply (H1 d Hd).
  Qed.

  Lemma slot_if : forall (b : bool) (c x : arr F),
      flatten_to O x (dims c) <> None -> slot_ok c (if b then Some x else None).
  Proof. intros b c x H d Hd. destruct b; [injection Hd as Hd; subst d; exact H | discriminate Hd]. Qed.

  Lemma wf_pos : forall a : arr F, wf a -> Forall (fun x => 1 <= x) (dims a).
  Proof. intros a [H _]. exact H. Qed.

  Lemma cs_1 : forall (cs : list (arr F)), length cs = 1 -> exists c0, cs = [c0].
  Proof. intros [|c0 [|c1 cs]] H; try discriminate H. exists c0. reflexivity. Qed.

  Lemma cs_2 : forall (cs : list (arr F)), length cs = 2 -> exists c0 c1, cs = [c0; c1].
  Proof. intros [|c0 [|c1 [|c2 cs]]] H; try discriminate H. exists c0, c1. reflexivity. Qed.

  Ltac inv1 H := inversion H as [|?c ?l ?Hh ?Ht]; subst; clear H.

  (** the delta of a binary broadcasting operation, multiplied by one operand, flattens to
      the other *)
  Lemma mul_delta_ok : forall (f : F -> F -> F) (c0 c1 delta : arr F),
      wf c0 -> wf c1 -> wf delta -> dims c0 <> [] -> dims c1 <> [] ->
      bcompat (dims c0) (dims c1) -> dims delta = bmax (dims c0) (dims c1) ->
      exists r, element_wise_op O f c1 delta = Some r /\ wf r /\
                dims r = bmax (dims c0) (dims c1) /\ flatten_to O r (dims c0) <> None.
  Proof.
    intros f c0 c1 delta H0 H1 Hd Hn0 Hn1 Hc Hdd.
    assert (Hnd : dims delta <> []).
    { rewrite Hdd. intro He. pose proof (bmax_sub_lead_l _ _ Hc (wf_pos c0 H0)) as (Hl & _).
      rewrite He in Hl. simpl in Hl. destruct (dims c0); [congruence | simpl in Hl; lia]. }
    destruct (ew_total f c1 delta H1 Hd Hn1 Hnd) as (r & Hr & Hwr & Hdr).
    { rewrite Hdd. apply bcompat_absorb_r. exact Hc. }
    exists r. split; [exact Hr |]. split; [exact Hwr |].
    rewrite Hdd, bmax_absorb_r in Hdr. split; [exact Hdr |].
    apply flat_sub; [exact Hwr | exact H0 | exact Hn0 |].
    rewrite Hdr. apply bmax_sub_lead_l; [exact Hc | apply wf_pos; exact H0].
  Qed.

  Lemma bmax_nonempty : forall x y, bcompat x y -> x <> [] -> Forall (fun v => 1 <= v) x -> bmax x y <> [].
  Proof.
    intros x y Hc Hx Hp He. pose proof (bmax_sub_lead_l x y Hc Hp) as (Hl & _).
    rewrite He in Hl. destruct x; [congruence | simpl in Hl; lia].
  Qed.

  (** ** the binary broadcasting closures *)

  Lemma total_BAdd : forall cs v flags, node_facts BAdd cs v -> closure_total BAdd cs v flags.
  Proof.
    intros cs v flags (Hlen & Hwf & Hns & Hwv & Hnv & _ & _ & Hfwd) delta Hwd Hdd.
    destruct (cs_2 cs Hlen) as (c0 & c1 & ->).
    destruct Hfwd as [Hfwd | []]. cbn [fwd_of_code] in Hfwd.
    inv1 Hwf. inv1 Ht. inv1 Hns. inv1 Ht.
    destruct (ew_inv _ c0 c1 v Hfwd) as (Hc & Hdv & _ & _).
    cbn [run_bop]. eexists. split; [reflexivity |].
    apply slots2; apply slot_if; apply flat_sub; try assumption; rewrite Hdd, Hdv.
    - apply bmax_sub_lead_l; [exact Hc | apply wf_pos; assumption].
    - apply bmax_sub_lead_r; [exact Hc | apply wf_pos; assumption].
  Qed.

  Lemma total_BMul : forall cs v flags, node_facts BMul cs v -> closure_total BMul cs v flags.
  Proof.
    intros cs v flags (Hlen & Hwf & Hns & Hwv & Hnv & _ & _ & Hfwd) delta Hwd Hdd.
    destruct (cs_2 cs Hlen) as (c0 & c1 & ->).
    destruct Hfwd as [Hfwd | []]. cbn [fwd_of_code] in Hfwd.
    inv1 Hwf. inv1 Ht. inv1 Hns. inv1 Ht.
    destruct (ew_inv _ c0 c1 v Hfwd) as (Hc & Hdv & _ & _). rewrite Hdv in Hdd.
    destruct (mul_delta_ok (fmul O) c0 c1 delta) as (r0 & Hr0 & _ & _ & Hf0); try assumption.
    destruct (mul_delta_ok (fmul O) c1 c0 delta) as (r1 & Hr1 & _ & _ & Hf1); try assumption.
    { apply bcompat_sym. exact Hc. } { rewrite bmax_sym. exact Hdd. }
    cbn [run_bop].
    destruct (when_total (flag flags 0) (a_mul O c1 delta)
                         (fun d => flatten_to O d (dims c0) <> None)) as (o0 & Ho0 & Hq0);
      [exists r0; split; assumption |].
    destruct (when_total (flag flags 1) (a_mul O c0 delta)
                         (fun d => flatten_to O d (dims c1) <> None)) as (o1 & Ho1 & Hq1);
      [exists r1; split; assumption |].
    rewrite Ho0. cbn [obind]. rewrite Ho1. cbn [obind]. eexists. split; [reflexivity |].
    apply slots2; assumption.
  Qed.

  Lemma total_BDiv : forall cs v flags, node_facts BDiv cs v -> closure_total BDiv cs v flags.
  Proof.
    intros cs v flags (Hlen & Hwf & Hns & Hwv & Hnv & _ & _ & Hfwd) delta Hwd Hdd.
    destruct (cs_2 cs Hlen) as (c0 & c1 & ->).
    destruct Hfwd as [Hfwd | []]. cbn [fwd_of_code] in Hfwd.
    inv1 Hwf. inv1 Ht. inv1 Hns. inv1 Ht.
    destruct (ew_inv _ c0 c1 v Hfwd) as (Hc & Hdv & _ & _). rewrite Hdv in Hdd.
    assert (Hnd : dims delta <> []).
    { rewrite Hdd. apply bmax_nonempty; [exact Hc | assumption | apply wf_pos; assumption]. }
    (* d0 = delta / c1 *)
    destruct (ew_total (fdiv O) delta c1 Hwd) as (r0 & Hr0 & Hwr0 & Hdr0); try assumption.
    { apply bcompat_sym. rewrite Hdd. apply bcompat_absorb_r. exact Hc. }
    rewrite bmax_sym, Hdd, bmax_absorb_r in Hdr0.
    (* d1 = (-c0 / c1^2) * delta *)
    destruct (map_arr_total (fun x => fmul O x (m1 O)) c0) as (n & Hn & Hwn & Hdn); [assumption |].
    destruct (map_arr_total (fun x => fpow O x (two O)) c1) as (p & Hp & Hwp & Hdp); [assumption |].
    destruct (ew_total (fdiv O) n p Hwn Hwp) as (q & Hq & Hwq & Hdq);
      [congruence | congruence | rewrite Hdn, Hdp; exact Hc |].
    rewrite Hdn, Hdp in Hdq.
    destruct (ew_total (fmul O) q delta Hwq Hwd) as (r1 & Hr1 & Hwr1 & Hdr1);
      [rewrite Hdq, <- Hdd; exact Hnd | exact Hnd | rewrite Hdq, Hdd; apply bcompat_refl |].
    rewrite Hdq, Hdd, bmax_idem in Hdr1.
    cbn [run_bop].
    destruct (when_total (flag flags 0) (a_div O delta c1)
                         (fun d => flatten_to O d (dims c0) <> None)) as (o0 & Ho0 & Hq0).
    { exists r0. split; [exact Hr0 |]. apply flat_sub; try assumption.
      rewrite Hdr0. apply bmax_sub_lead_l; [exact Hc | apply wf_pos; assumption]. }
    destruct (when_total (flag flags 1)
                (n0 <- a_neg O c0 ;; p0 <- a_powf O (two O) c1 ;; q0 <- a_div O n0 p0 ;;
                 a_mul O q0 delta)
                (fun d => flatten_to O d (dims c1) <> None)) as (o1 & Ho1 & Hq1).
    { exists r1. split.
      - unfold a_neg, a_scale, a_powf. rewrite Hn. cbn [obind]. rewrite Hp. cbn [obind].
        unfold a_div. rewrite Hq. cbn [obind]. exact Hr1.
      - apply flat_sub; try assumption.
        rewrite Hdr1. apply bmax_sub_lead_r; [exact Hc | apply wf_pos; assumption]. }
    rewrite Ho0. cbn [obind]. rewrite Ho1. cbn [obind]. eexists. split; [reflexivity |].
    apply slots2; assumption.
  Qed.

  (** ** the unary closures *)

  Lemma fwd_map_dims : forall (g : F -> F) (c0 v : arr F), map_arr g c0 = Some v -> dims v = dims c0.
  Proof. intros g c0 v H. apply map_arr_dims in H. exact H. Qed.

  (** [s * delta] (or [delta * s]) with [s] of the operand's dimensions *)
  Lemma mul_same_ok : forall (s delta c0 : arr F),
      wf s -> wf delta -> dims s = dims c0 -> dims delta = dims c0 -> dims c0 <> [] ->
      (exists r, a_mul O s delta = Some r /\ dims r = dims c0) /\
      (exists r, a_mul O delta s = Some r /\ dims r = dims c0).
  Proof.
    intros s delta c0 Hs Hd Hds Hdd Hne. split.
    - destruct (ew_total (fmul O) s delta Hs Hd) as (r & Hr & _ & Hdr);
        [congruence | congruence | rewrite Hds, Hdd; apply bcompat_refl |].
      exists r. split; [exact Hr |]. rewrite Hdr, Hds, Hdd. apply bmax_idem.
    - destruct (ew_total (fmul O) delta s Hd Hs) as (r & Hr & _ & Hdr);
        [congruence | congruence | rewrite Hds, Hdd; apply bcompat_refl |].
      exists r. split; [exact Hr |]. rewrite Hdr, Hds, Hdd. apply bmax_idem.
  Qed.

  Ltac unary_start cs v flags H delta Hwd Hdd c0 Hw0 Hn0 Hfwd :=
    let Hlen := fresh "Hlen" in let Hwf := fresh "Hwf" in let Hns := fresh "Hns" in
    let Hwv := fresh "Hwv" in let Hnv := fresh "Hnv" in
    destruct H as (Hlen & Hwf & Hns & Hwv & Hnv & ?Hfit & ?Hside & Hfwd);
    intros delta Hwd Hdd;
    destruct (cs_1 cs Hlen) as (c0 & ->);
    destruct Hfwd as [Hfwd | []]; cbn [fwd_of_code] in Hfwd;
    inversion Hwf as [|? ? Hw0 ?]; subst; inversion Hns as [|? ? Hn0 ?]; subst.

  Lemma total_BNeg : forall cs v flags, node_facts BNeg cs v -> closure_total BNeg cs v flags.
  Proof.
    intros cs v flags H. unary_start cs v flags H delta Hwd Hdd c0 Hw0 Hn0 Hfwd.
    apply fwd_map_dims in Hfwd. rewrite Hfwd in Hdd.
    destruct (map_arr_total (fun x => fmul O x (m1 O)) delta Hwd) as (r & Hr & _ & Hdr).
    cbn [run_bop]. unfold a_neg, a_scale. rewrite Hr. cbn [obind]. eexists. split; [reflexivity |].
    apply slots1. intros d Hd. injection Hd as Hd. subst d. apply flat_same. congruence.
  Qed.

  Lemma total_BScale : forall s cs v flags,
      node_facts (BScale s) cs v -> closure_total (BScale s) cs v flags.
  Proof.
    intros s cs v flags H. unary_start cs v flags H delta Hwd Hdd c0 Hw0 Hn0 Hfwd.
    apply fwd_map_dims in Hfwd. rewrite Hfwd in Hdd.
    destruct (map_arr_total (fun x => fmul O x s) delta Hwd) as (r & Hr & _ & Hdr).
    cbn [run_bop]. unfold a_scale. rewrite Hr. cbn [obind]. eexists. split; [reflexivity |].
    apply slots1. intros d Hd. injection Hd as Hd. subst d. apply flat_same. congruence.
  Qed.

  Lemma total_BRecip : forall cs v flags, node_facts BRecip cs v -> closure_total BRecip cs v flags.
  Proof.
    intros cs v flags H. unary_start cs v flags H delta Hwd Hdd c0 Hw0 Hn0 Hfwd.
    apply fwd_map_dims in Hfwd. rewrite Hfwd in Hdd.
    destruct (map_arr_total (fun x => fdiv O (f1 O) x) c0 Hw0) as (r & Hr & Hwr & Hdr).
    destruct (map_arr_total (fun x => fpow O x (two O)) r Hwr) as (p & Hp & Hwp & Hdp).
    destruct (map_arr_total (fun x => fmul O x (m1 O)) p Hwp) as (n & Hn & Hwn & Hdn).
    destruct (mul_same_ok n delta c0 Hwn Hwd) as ((d0 & Hd0 & Hdd0) & _); [congruence | exact Hdd | exact Hn0 |].
    cbn [run_bop]. unfold a_reciprocal, a_powf, a_neg, a_scale.
    rewrite Hr. cbn [obind]. rewrite Hp. cbn [obind]. rewrite Hn. cbn [obind]. rewrite Hd0. cbn [obind].
    eexists. split; [reflexivity |].
    apply slots1. intros d Hd. injection Hd as Hd. subst d. apply flat_same. exact Hdd0.
  Qed.

  Lemma total_BPowf : forall e cs v flags,
      node_facts (BPowf e) cs v -> closure_total (BPowf e) cs v flags.
  Proof.
    intros e cs v flags H. unary_start cs v flags H delta Hwd Hdd c0 Hw0 Hn0 Hfwd.
    apply fwd_map_dims in Hfwd. rewrite Hfwd in Hdd.
    destruct (map_arr_total (fun x => fpow O x (fsub O e (f1 O))) c0 Hw0) as (p & Hp & Hwp & Hdp).
    destruct (map_arr_total (fun x => fmul O x e) p Hwp) as (s & Hs & Hws & Hds).
    destruct (mul_same_ok s delta c0 Hws Hwd) as ((d0 & Hd0 & Hdd0) & _); [congruence | exact Hdd | exact Hn0 |].
    cbn [run_bop]. unfold a_powf, a_scale.
    rewrite Hp. cbn [obind]. rewrite Hs. cbn [obind]. rewrite Hd0. cbn [obind].
    eexists. split; [reflexivity |].
    apply slots1. intros d Hd. injection Hd as Hd. subst d. apply flat_same. exact Hdd0.
  Qed.

  Lemma total_BLn : forall cs v flags, node_facts BLn cs v -> closure_total BLn cs v flags.
  Proof.
    intros cs v flags H. unary_start cs v flags H delta Hwd Hdd c0 Hw0 Hn0 Hfwd.
    apply fwd_map_dims in Hfwd. rewrite Hfwd in Hdd.
    destruct (map_arr_total (fun x => fdiv O (f1 O) x) c0 Hw0) as (r & Hr & Hwr & Hdr).
    destruct (mul_same_ok r delta c0 Hwr Hwd) as (_ & (d0 & Hd0 & Hdd0)); [congruence | exact Hdd | exact Hn0 |].
    cbn [run_bop]. unfold a_reciprocal. rewrite Hr. cbn [obind]. rewrite Hd0. cbn [obind].
    eexists. split; [reflexivity |].
    apply slots1. intros d Hd. injection Hd as Hd. subst d. apply flat_same. exact Hdd0.
  Qed.

  Lemma total_BRelu : forall cs v flags, node_facts BRelu cs v -> closure_total BRelu cs v flags.
  Proof.
    intros cs v flags H. unary_start cs v flags H delta Hwd Hdd c0 Hw0 Hn0 Hfwd.
    apply fwd_map_dims in Hfwd. rewrite Hfwd in Hdd.
    destruct (map_arr_total (fun x => if fgt0 O x then f1 O else f0 O) c0 Hw0) as (der & Hder & Hwder & Hdder).
    destruct (mul_same_ok der delta c0 Hwder Hwd) as ((d0 & Hd0 & Hdd0) & _); [congruence | exact Hdd | exact Hn0 |].
    cbn [run_bop]. rewrite Hder. cbn [obind]. rewrite Hd0. cbn [obind].
    eexists. split; [reflexivity |].
    apply slots1. intros d Hd. injection Hd as Hd. subst d. apply flat_same. exact Hdd0.
  Qed.

  Lemma mul_values_length : forall a b : list F, length (mul_values O a b) = Nat.min (length a) (length b).
  Proof. intros a b. unfold mul_values. rewrite map_length, combine_length. reflexivity. Qed.

  Lemma mk_total : forall d (vs : list F),
      Forall (fun x => 1 <= x) d -> prod d = length vs ->
      mk d vs = Some {| dims := d; vals := vs |}.
  Proof. intros d vs H1 H2. apply mk_some. split; [exact H1 |]. split; [exact H2 | reflexivity]. Qed.

  Lemma total_BExp : forall cached cs v flags,
      node_facts (BExp cached) cs v -> closure_total (BExp cached) cs v flags.
  Proof.
    intros cached cs v flags H. unary_start cs v flags H delta Hwd Hdd c0 Hw0 Hn0 Hfwd.
    cbn [code_fits] in Hfit. subst cached.
    apply fwd_map_dims in Hfwd.
    pose proof Hw0 as (Hp0 & Hl0). pose proof Hwd as (_ & Hld). pose proof Hwv as (_ & Hlv).
    cbn [run_bop].
    rewrite (mk_total (dims c0) (mul_values O (vals delta) (vals v)) Hp0).
    - cbn [obind]. eexists. split; [reflexivity |].
      apply slots1. intros d Hd. injection Hd as Hd. subst d. apply flat_same. reflexivity.
    - rewrite mul_values_length, <- Hld, <- Hlv, Hdd, Hfwd. symmetry. apply Nat.min_id.
  Qed.

  Lemma total_BSigmoid : forall cached cs v flags,
      node_facts (BSigmoid cached) cs v -> closure_total (BSigmoid cached) cs v flags.
  Proof.
    intros cached cs v flags H. unary_start cs v flags H delta Hwd Hdd c0 Hw0 Hn0 Hfwd.
    cbn [code_fits] in Hfit. subst cached.
    apply fwd_map_dims in Hfwd.
    pose proof Hw0 as (Hp0 & Hl0). pose proof Hwd as (_ & Hld). pose proof Hwv as (_ & Hlv).
    cbn [run_bop].
    rewrite (mk_total (dims c0) _ Hp0).
    - cbn [obind]. eexists. split; [reflexivity |].
      apply slots1. intros d Hd. injection Hd as Hd. subst d. apply flat_same. reflexivity.
    - rewrite mul_values_length, map_length, <- Hld, <- Hlv, Hdd, Hfwd. symmetry. apply Nat.min_id.
  Qed.

  Lemma total_BReshape : forall cs v flags,
      node_facts BReshape cs v -> closure_total BReshape cs v flags.
  Proof.
    intros cs v flags H. unary_start cs v flags H delta Hwd Hdd c0 Hw0 Hn0 Hfwd.
    apply a_reshape_spec in Hfwd. destruct Hfwd as (_ & Hprod & Hv).
    pose proof Hw0 as (Hp0 & Hl0). pose proof Hwd as (_ & Hld).
    cbn [run_bop].
    destruct (when_total (flag flags 0) (a_reshape (dims c0) delta)
                         (fun d => flatten_to O d (dims c0) <> None)) as (o0 & Ho0 & Hq0).
    { exists {| dims := dims c0; vals := vals delta |}. split.
      - unfold a_reshape. apply mk_total; [exact Hp0 |]. rewrite Hl0, <- Hprod, <- Hld, Hdd. reflexivity.
      - apply flat_same. reflexivity. }
    rewrite Ho0. cbn [obind]. eexists. split; [reflexivity |]. apply slots1. exact Hq0.
  Qed.

  (** ** the user operations of the harness (on equal dimensions) *)

  Lemma zip_inv : forall (f : F -> F -> F) (a b v : arr F),
      zip_vals f a b = Some v -> dims v = dims a.
  Proof.
    intros f a b v H. unfold zip_vals in H. apply mk_some in H. destruct H as (_ & _ & ->). reflexivity.
  Qed.

  Lemma zip_total : forall (f : F -> F -> F) (a b : arr F),
      wf a -> length (vals b) = length (vals a) ->
      exists r, zip_vals f a b = Some r /\ dims r = dims a.
  Proof.
    intros f a b (Hp & Hl) Hlb. eexists. split.
    - unfold zip_vals. apply mk_total; [exact Hp |].
      rewrite map_length, combine_length, Hlb, Nat.min_id. exact Hl.
    - reflexivity.
  Qed.

  Lemma wf_len : forall a : arr F, wf a -> length (vals a) = prod (dims a).
  Proof. intros a (_ & H). symmetry. exact H. Qed.

  Lemma total_BCustom : forall cu cs v flags,
      node_facts (BCustom cu) cs v -> closure_total (BCustom cu) cs v flags.
  Proof.
    intros cu cs v flags (Hlen & Hwf & Hns & Hwv & Hnv & _ & Hside & Hfwd) delta Hwd Hdd.
    destruct Hfwd as [Hfwd | Hnb]; [| destruct cu; destruct cs as [|? [|? [|? ?]]]; destruct Hnb].
    cbn [fwd_of_code] in Hfwd.
    destruct cu; cbn [arity] in Hlen.
    - (* CMul *)
      destruct (cs_2 cs Hlen) as (c0 & c1 & ->). cbn [custom_forward] in Hfwd.
      cbn [closure_side nth] in Hside.
      inv1 Hwf. inv1 Ht. apply zip_inv in Hfwd.
      assert (Hld : length (vals delta) = prod (dims c0)) by (rewrite (wf_len delta Hwd); congruence).
      destruct (zip_total (fmul O) c1 delta) as (r0 & Hr0 & Hd0);
        [assumption | rewrite Hld, (wf_len c1), Hside by assumption; reflexivity |].
      destruct (zip_total (fmul O) c0 delta) as (r1 & Hr1 & Hd1);
        [assumption | rewrite Hld, (wf_len c0) by assumption; reflexivity |].
      cbn [run_bop].
      destruct (when_total (flag flags 0) (zip_vals (fmul O) c1 delta)
                           (fun d => flatten_to O d (dims c0) <> None)) as (o0 & Ho0 & Hq0);
        [exists r0; split; [exact Hr0 | apply flat_same; congruence] |].
      destruct (when_total (flag flags 1) (zip_vals (fmul O) c0 delta)
                           (fun d => flatten_to O d (dims c1) <> None)) as (o1 & Ho1 & Hq1);
        [exists r1; split; [exact Hr1 | apply flat_same; congruence] |].
      rewrite Ho0. cbn [obind]. rewrite Ho1. cbn [obind]. eexists. split; [reflexivity |].
      apply slots2; assumption.
    - (* CAff *)
      destruct (cs_2 cs Hlen) as (c0 & c1 & ->). cbn [custom_forward] in Hfwd.
      cbn [closure_side nth] in Hside.
      inv1 Hwf. inv1 Ht. apply zip_inv in Hfwd.
      destruct (map_arr_total (fun x => fmul O x (two O)) delta Hwd) as (r1 & Hr1 & _ & Hd1).
      cbn [run_bop].
      destruct (when_total (flag flags 1) (a_scale O (two O) delta)
                           (fun d => flatten_to O d (dims c1) <> None)) as (o1 & Ho1 & Hq1);
        [exists r1; split; [exact Hr1 | apply flat_same; congruence] |].
      rewrite Ho1. cbn [obind]. eexists. split; [reflexivity |].
      apply slots2; [| exact Hq1]. apply slot_if. apply flat_same. congruence.
    - (* CSq *)
      destruct (cs_1 cs Hlen) as (c0 & ->). cbn [custom_forward] in Hfwd.
      inv1 Hwf. apply zip_inv in Hfwd.
      destruct (map_arr_total (fun x => fmul O x (two O)) c0) as (s & Hs & Hws & Hds); [assumption |].
      destruct (zip_total (fmul O) s delta Hws) as (r0 & Hr0 & Hd0).
      { rewrite (wf_len delta Hwd), (wf_len s Hws). congruence. }
      cbn [run_bop].
      destruct (when_total (flag flags 0) (s0 <- a_scale O (two O) c0 ;; zip_vals (fmul O) s0 delta)
                           (fun d => flatten_to O d (dims c0) <> None)) as (o0 & Ho0 & Hq0).
      { exists r0. split; [unfold a_scale; rewrite Hs; cbn [obind]; exact Hr0 |].
        apply flat_same. congruence. }
      rewrite Ho0. cbn [obind]. eexists. split; [reflexivity |]. apply slots1. exact Hq0.
  Qed.

  (** ** [sum(k)], [1 <= k <= rank] *)

  Lemma sliced_valid_same : forall k (a : arr F), sliced_valid k (dims a) a = true.
  Proof.
    intros k a. unfold sliced_valid. generalize (skipn k (rev (dims a))) as l.
    induction l as [|x l IH]; [reflexivity |]. simpl. rewrite Nat.eqb_refl, orb_true_r. exact IH.
  Qed.

  Lemma total_BSum : forall k target cs v flags,
      node_facts (BSum k target) cs v -> closure_total (BSum k target) cs v flags.
  Proof.
    intros k target cs v flags H. unary_start cs v flags H delta Hwd Hdd c0 Hw0 Hn0 Hfwd.
    cbn [code_fits nth] in Hfit. destruct Hfit as (Hk0 & ->).
    cbn [closure_side nth] in Hside.
    assert (Hk : 1 <= k <= length (dims c0)) by lia.
    destruct (a_sum_spec O k c0 Hw0 Hk) as (v' & Hv' & _ & Hdv' & _). cbv zeta in Hdv'.
    assert (v' = v) by congruence. subst v'.
    set (lead := firstn (length (dims c0) - k) (dims c0)) in *.
    pose proof (wf_pos c0 Hw0) as Hp0.
    assert (Hlead : Forall (fun x => 1 <= x) lead) by (apply Forall_firstn; exact Hp0).
    assert (Hll : length lead = length (dims c0) - k) by (unfold lead; rewrite firstn_length; lia).
    assert (Htgt : sum_target (dims c0) k = lead ++ repeat 1 k) by reflexivity.
    assert (Hld : length (vals delta) = prod lead).
    { rewrite (wf_len delta Hwd), Hdd, Hdv', prod_app. change (prod [1]) with 1. lia. }
    (* the reshape *)
    set (x' := {| dims := sum_target (dims c0) k; vals := vals delta |}).
    assert (Hptgt : Forall (fun x => 1 <= x) (sum_target (dims c0) k)).
    { rewrite Htgt. apply Forall_app. split; [exact Hlead |]. apply Forall_forall.
      intros x Hx. apply repeat_spec in Hx. lia. }
    assert (Hx' : a_reshape (sum_target (dims c0) k) delta = Some x').
    { unfold a_reshape. apply mk_total; [exact Hptgt |].
      rewrite Htgt, prod_app, prod_repeat_1, Hld. lia. }
    assert (Hwx : wf x').
    { split; [exact Hptgt |]. cbn [dims vals x']. rewrite Htgt, prod_app, prod_repeat_1, Hld. lia. }
    assert (Hlt' : length (sum_target (dims c0) k) - k = length lead).
    { rewrite Htgt, app_length, repeat_length. lia. }
    assert (Et1 : firstn (length lead) (sum_target (dims c0) k) = lead).
    { rewrite Htgt. apply firstn_app_len. }
    assert (Ec1 : firstn (length lead) (dims c0) = lead) by (rewrite Hll; reflexivity).
    assert (Eld : lead_dims k x' = lead).
    { unfold lead_dims. cbn [dims x']. rewrite Hlt'. exact Et1. }
    assert (Egl : group_length k x' = 1).
    { unfold group_length, lastn. cbn [dims x']. rewrite Hlt', Htgt, skipn_app_len.
      apply prod_repeat_1. }
    destruct (sliced_op_nonacc_total O [x'] (fill_sop (F:=F)) (sum_target (dims c0) k) (dims c0) k 0
                                     (dims c0)) as (out & Hout).
    - rewrite Hlt', Et1. exact Ec1.
    - rewrite Hlt', Et1. exact Hlead.
    - simpl. change (sum_target (dims c0) k) with (dims x'). rewrite sliced_valid_same. reflexivity.
    - rewrite Hlt', Et1. intros i Hi. cbn [mapM].
      rewrite (operand_slice_spec k (length lead) lead i x' Hwx Hlead eq_refl)
        by (rewrite Eld; apply sub_lead_refl).
      rewrite Eld, Egl. rewrite bclamp_id by (apply unrank_lt; exact Hlead).
      rewrite rowmajor_unrank by assumption. cbn [obind vals x'].
      eexists. eexists. split; [reflexivity |]. unfold fill_sop.
      rewrite nth_error_block by lia.
      rewrite (nth_error_nth' (vals delta) (f0 O)) by lia. cbn [obind].
      split; [reflexivity |]. rewrite map_length, repeat_length. reflexivity.
    - reflexivity.
    - exact Hp0.
    - reflexivity.
    - cbn [run_bop]. rewrite Hx'. cbn [obind]. rewrite Hout. cbn [obind].
      eexists. split; [reflexivity |].
      apply slots1. intros d Hd. injection Hd as Hd. subst d. apply flat_same. reflexivity.
  Qed.

  (** ** matrix product, both operands of rank at least 2 *)

  Lemma snoc2_of_rank : forall d : list nat, 2 <= length d -> exists l x y, d = l ++ [x; y].
  Proof.
    intros d H. destruct (exists_last (l := d)) as (d1 & y & ->); [intro He; subst d; simpl in H; lia |].
    rewrite app_length in H. simpl in H.
    destruct (exists_last (l := d1)) as (l & x & ->); [intro He; subst d1; simpl in H; lia |].
    exists l, x, y. rewrite <- app_assoc. reflexivity.
  Qed.

  Lemma sub_lead_snoc : forall l L x, sub_lead l L -> sub_lead (l ++ [x]) (L ++ [x]).
  Proof.
    intros l L x (Hlen & Hf). split; [rewrite !app_length; simpl; lia |].
    rewrite app_length. simpl. rewrite Nat.add_1_r, (lastn_snoc _ L x Hlen).
    apply Forall2_app; [exact Hf | constructor; [right; reflexivity | constructor]].
  Qed.

  Lemma sub_lead_snoc2 : forall l L x y, sub_lead l L -> sub_lead (l ++ [x; y]) (L ++ [x; y]).
  Proof.
    intros l L x y H.
    replace (l ++ [x; y]) with ((l ++ [x]) ++ [y]) by (rewrite <- app_assoc; reflexivity).
    replace (L ++ [x; y]) with ((L ++ [x]) ++ [y]) by (rewrite <- app_assoc; reflexivity).
    apply sub_lead_snoc. apply sub_lead_snoc. exact H.
  Qed.

  Lemma matmul_fwd_inv : forall (a : arr F) ta (b : arr F) tb c v la ar ac lb br bc,
      dims a = la ++ [ar; ac] -> dims b = lb ++ [br; bc] ->
      a_matmul O a ta b tb c = Some v ->
      mm_inner_a ta ar ac = mm_inner_b tb br bc /\ bcompat la lb /\
      dims v = bmax la lb ++ [mm_rows ta ar ac; mm_cols tb br bc].
  Proof.
    intros a ta b tb c v la ar ac lb br bc Ea Eb H.
    destruct (Nat.eq_dec (mm_inner_a ta ar ac) (mm_inner_b tb br bc)) as [Hin|Hin].
    2:{ rewrite (matmul_refuses O a ta b tb c la ar ac lb br bc Ea Eb (or_introl Hin)) in H.
        discriminate H. }
    destruct (element_wise_dimensions la lb) as [lead|] eqn:He.
    2:{ apply element_wise_dimensions_refuses in He.
        rewrite (matmul_refuses O a ta b tb c la ar ac lb br bc Ea Eb (or_intror He)) in H.
        discriminate H. }
    apply element_wise_dimensions_spec in He. destruct He as (Hc & ->).
    split; [exact Hin |]. split; [exact Hc |].
    destruct (a_matmul_dims O a ta b tb c v H) as (shp & Hshp & Hdv).
    rewrite Ea, Eb in Hshp.
    destruct (matmul_dims_rank2 la ar ac ta lb br bc tb) as (p & q & Hmd).
    rewrite Hmd in Hshp.
    assert (Hewd : element_wise_dimensions la lb = Some (bmax la lb))
      by (apply element_wise_dimensions_spec; split; [exact Hc | reflexivity]).
    rewrite Hewd in Hshp. cbn [obind] in Hshp.
    apply Nat.eqb_eq in Hin. rewrite Hin in Hshp. cbn [guard obind] in Hshp.
    injection Hshp as Hshp. subst shp. exact Hdv.
  Qed.

  Lemma matmul_tot : forall (a : arr F) ta (b : arr F) tb la ar ac lb br bc,
      wf a -> wf b -> dims a = la ++ [ar; ac] -> dims b = lb ++ [br; bc] ->
      mm_inner_a ta ar ac = mm_inner_b tb br bc -> bcompat la lb ->
      exists r, a_matmul O a ta b tb None = Some r /\ wf r /\
                dims r = bmax la lb ++ [mm_rows ta ar ac; mm_cols tb br bc].
  Proof.
    intros a ta b tb la ar ac lb br bc Ha Hb Ea Eb Hin Hc.
    destruct (matmul_spec_nobias O a ta b tb la ar ac lb br bc Ha Hb Ea Eb Hin Hc)
      as (r & Hr & Hwr & Hdr & _).
    exists r. tauto.
  Qed.

  Lemma wf_snoc2_lead : forall (a : arr F) l x y,
      wf a -> dims a = l ++ [x; y] -> Forall (fun v => 1 <= v) l.
  Proof.
    intros a l x y (Hp & _) E. rewrite E in Hp. apply Forall_app in Hp. tauto.
  Qed.

  Lemma total_BMatmul_rank2 : forall ta tb cs v flags,
      node_facts (BMatmul ta tb) cs v ->
      2 <= length (dims (nth 0 cs dummy_arr)) -> 2 <= length (dims (nth 1 cs dummy_arr)) ->
      closure_total (BMatmul ta tb) cs v flags.
  Proof.
    intros ta tb cs v flags (Hlen & Hwf & Hns & Hwv & Hnv & _ & Hside & Hfwd) Hr0 Hr1 delta Hwd Hdd.
    cbn [arity] in Hlen.
    destruct cs as [|c0 [|c1 [|c2 [|c3 cs]]]]; try discriminate Hlen.
    cbn [closure_side nth] in Hside. cbn [nth] in Hr0, Hr1. destruct Hside as (_ & Hsub2).
    inversion Hwf as [|? ? Hw0 Hwf1]; subst. inversion Hwf1 as [|? ? Hw1 Hwf2]; subst.
    inversion Hwf2 as [|? ? Hw2 _]; subst.
    inversion Hns as [|? ? Hn0 Hns1]; subst. inversion Hns1 as [|? ? Hn1 Hns2]; subst.
    inversion Hns2 as [|? ? Hn2 _]; subst.
    destruct (snoc2_of_rank _ Hr0) as (la & ar & ac & Ea).
    destruct (snoc2_of_rank _ Hr1) as (lb & br & bc & Eb).
    assert (Hfw : exists c, a_matmul O c0 ta c1 tb c = Some v).
    { destruct Hfwd as [Hfwd | (_ & Hfwd)]; [cbn [fwd_of_code] in Hfwd |]; eexists; exact Hfwd. }
    destruct Hfw as (cb & Hfw).
    destruct (matmul_fwd_inv c0 ta c1 tb cb v la ar ac lb br bc Ea Eb Hfw) as (Hin & Hc & Hdv).
    set (L := bmax la lb) in *.
    rewrite Hdv in Hdd.
    pose proof (wf_snoc2_lead c0 la ar ac Hw0 Ea) as Hpla.
    pose proof (wf_snoc2_lead c1 lb br bc Hw1 Eb) as Hplb.
    assert (HsubA : sub_lead la L) by (apply bmax_sub_lead_l; assumption).
    assert (HsubB : sub_lead lb L) by (apply bmax_sub_lead_r; assumption).
    assert (HcA : bcompat la L) by (apply bcompat_absorb_l; exact Hc).
    assert (HcB : bcompat lb L) by (apply bcompat_absorb_r; exact Hc).
    assert (HmA : bmax la L = L) by apply bmax_absorb_l.
    assert (HmB : bmax lb L = L) by apply bmax_absorb_r.
    assert (HmA' : bmax L la = L) by (rewrite bmax_sym; exact HmA).
    assert (HmB' : bmax L lb = L) by (rewrite bmax_sym; exact HmB).
    assert (Hdot : (length (dims c0) <? 2) && (length (dims c1) <? 2) && negb ta && negb tb = false).
    { assert (H0 : (length (dims c0) <? 2) = false) by (apply Nat.ltb_ge; exact Hr0).
      rewrite H0. reflexivity. }
    (* slot 0 *)
    assert (S0 : exists r, (if ta then a_matmul O c1 tb delta true None
                            else a_matmul O delta false c1 (negb tb) None) = Some r /\
                           flatten_to O r (dims c0) <> None).
    { destruct ta.
      - destruct (matmul_tot c1 tb delta true lb br bc L (mm_rows true ar ac) (mm_cols tb br bc)
                             Hw1 Hwd Eb Hdd) as (r & Hr & Hwr & Hdr).
        { unfold mm_inner_a, mm_inner_b, mm_cols. destruct tb; reflexivity. }
        { exact HcB. }
        exists r. split; [exact Hr |]. apply flat_sub; try assumption.
        rewrite Hdr, HmB, Ea.
        replace (mm_rows tb br bc) with ar
          by (unfold mm_rows, mm_inner_a, mm_inner_b in *; destruct tb; simpl in *; lia).
        replace (mm_cols true (mm_rows true ar ac) (mm_cols tb br bc)) with ac by reflexivity.
        apply sub_lead_snoc2. exact HsubA.
      - destruct (matmul_tot delta false c1 (negb tb) L (mm_rows false ar ac) (mm_cols tb br bc)
                             lb br bc Hwd Hw1 Hdd Eb) as (r & Hr & Hwr & Hdr).
        { unfold mm_inner_a, mm_inner_b, mm_cols. destruct tb; reflexivity. }
        { apply bcompat_sym. exact HcB. }
        exists r. split; [exact Hr |]. apply flat_sub; try assumption.
        rewrite Hdr, HmB', Ea.
        replace (mm_rows false (mm_rows false ar ac) (mm_cols tb br bc)) with ar by reflexivity.
        replace (mm_cols (negb tb) br bc) with ac
          by (unfold mm_cols, mm_inner_a, mm_inner_b in *; destruct tb; simpl in *; lia).
        apply sub_lead_snoc2. exact HsubA. }
    (* slot 1 *)
    assert (S1 : exists r, (if tb then a_matmul O delta true c0 ta None
                            else a_matmul O c0 (negb ta) delta false None) = Some r /\
                           flatten_to O r (dims c1) <> None).
    { destruct tb.
      - destruct (matmul_tot delta true c0 ta L (mm_rows ta ar ac) (mm_cols true br bc)
                             la ar ac Hwd Hw0 Hdd Ea) as (r & Hr & Hwr & Hdr).
        { unfold mm_inner_a, mm_inner_b, mm_rows. destruct ta; reflexivity. }
        { apply bcompat_sym. exact HcA. }
        exists r. split; [exact Hr |]. apply flat_sub; try assumption.
        rewrite Hdr, HmA', Eb.
        replace (mm_rows true (mm_rows ta ar ac) (mm_cols true br bc)) with br by reflexivity.
        replace (mm_cols ta ar ac) with bc
          by (unfold mm_cols, mm_inner_a, mm_inner_b in *; destruct ta; simpl in *; lia).
        apply sub_lead_snoc2. exact HsubB.
      - destruct (matmul_tot c0 (negb ta) delta false la ar ac L (mm_rows ta ar ac)
                             (mm_cols false br bc) Hw0 Hwd Ea Hdd) as (r & Hr & Hwr & Hdr).
        { unfold mm_inner_a, mm_inner_b, mm_rows. destruct ta; reflexivity. }
        { exact HcA. }
        exists r. split; [exact Hr |]. apply flat_sub; try assumption.
        rewrite Hdr, HmA, Eb.
        replace (mm_rows (negb ta) ar ac) with br
          by (unfold mm_rows, mm_inner_a, mm_inner_b in *; destruct ta; simpl in *; lia).
        replace (mm_cols false (mm_rows ta ar ac) (mm_cols false br bc)) with bc by reflexivity.
        apply sub_lead_snoc2. exact HsubB. }
    destruct S0 as (r0 & Hr0' & Hf0). destruct S1 as (r1 & Hr1' & Hf1).
    cbn [run_bop]. cbv zeta. rewrite Hdot.
    destruct (when_total (flag flags 0)
                (if ta then a_matmul O c1 tb delta true None
                 else a_matmul O delta false c1 (negb tb) None)
                (fun d => flatten_to O d (dims c0) <> None)) as (o0 & Ho0 & Hq0);
      [exists r0; split; assumption |].
    destruct (when_total (flag flags 1)
                (if tb then a_matmul O delta true c0 ta None
                 else a_matmul O c0 (negb ta) delta false None)
                (fun d => flatten_to O d (dims c1) <> None)) as (o1 & Ho1 & Hq1);
      [exists r1; split; assumption |].
    rewrite Ho0. cbn [obind]. rewrite Ho1. cbn [obind]. eexists. split; [reflexivity |].
    intros i c d Hci Hdi. destruct i as [|[|[|i]]]; simpl in Hci, Hdi; try discriminate Hci.
    - injection Hci as Hci. injection Hdi as Hdi. subst c. apply (Hq0 d Hdi).
    - injection Hci as Hci. injection Hdi as Hdi. subst c. apply (Hq1 d Hdi).
    - injection Hci as Hci. subst c. destruct (flag flags 2); [| discriminate Hdi].
      injection Hdi as Hdi. subst d. apply flat_sub; try assumption.
      rewrite <- Hdv in Hdd. rewrite Hdd. exact Hsub2.
    - destruct i; discriminate Hci.
  Qed.


  (** the dot product of two vectors (the branch of defect D13) *)
  Lemma total_BMatmul_dot : forall cs v flags,
      node_facts (BMatmul false false) cs v ->
      length (dims (nth 0 cs dummy_arr)) = 1 -> length (dims (nth 1 cs dummy_arr)) = 1 ->
      closure_total (BMatmul false false) cs v flags.
  Proof.
    intros cs v flags (Hlen & Hwf & Hns & Hwv & Hnv & _ & Hside & Hfwd) Hr0 Hr1 delta Hwd Hdd.
    cbn [arity] in Hlen.
    destruct cs as [|c0 [|c1 [|c2 [|c3 cs]]]]; try discriminate Hlen.
    cbn [closure_side nth] in Hside. cbn [nth] in Hr0, Hr1. destruct Hside as (_ & Hsub2).
    inversion Hwf as [|? ? Hw0 Hwf1]; subst. inversion Hwf1 as [|? ? Hw1 Hwf2]; subst.
    inversion Hwf2 as [|? ? Hw2 _]; subst.
    inversion Hns as [|? ? Hn0 Hns1]; subst. inversion Hns1 as [|? ? Hn1 Hns2]; subst.
    inversion Hns2 as [|? ? Hn2 _]; subst.
    destruct (dims c0) as [|n [|? ?]] eqn:E0; try discriminate Hr0.
    destruct (dims c1) as [|m [|? ?]] eqn:E1; try discriminate Hr1.
    assert (Hfw : exists c, a_matmul O c0 false c1 false c = Some v).
    { destruct Hfwd as [Hfwd | (_ & Hfwd)]; [cbn [fwd_of_code] in Hfwd |]; eexists; exact Hfwd. }
    destruct Hfw as (cb & Hfw).
    destruct (a_matmul_dims O c0 false c1 false cb v Hfw) as (shp & Hshp & Hdv).
    rewrite E0, E1, matmul_dims_dot in Hshp.
    destruct (n =? m) eqn:Hnm; [| discriminate Hshp]. apply Nat.eqb_eq in Hnm. subst m.
    cbn [guard obind] in Hshp. injection Hshp as Hshp. subst shp. cbn [ms_out] in Hdv.
    rewrite Hdv in Hdd.
    assert (Hn1' : 1 <= n).
    { pose proof (wf_pos c0 Hw0) as Hp. rewrite E0 in Hp. inversion Hp; assumption. }
    assert (Hmul : forall c : arr F, wf c -> dims c = [n] ->
               exists r, a_mul O c delta = Some r /\ dims r = [n]).
    { intros c Hwc Ec.
      destruct (ew_total (fmul O) c delta Hwc Hwd) as (r & Hr & _ & Hdr).
      - rewrite Ec. discriminate.
      - rewrite Hdd. discriminate.
      - rewrite Ec, Hdd. unfold bcompat. simpl. tauto.
      - exists r. split; [exact Hr |]. rewrite Hdr, Ec, Hdd. unfold bmax. simpl.
        rewrite Nat.max_l by lia. reflexivity. }
    destruct (Hmul c1 Hw1 E1) as (r0 & Hr0' & Hd0).
    destruct (Hmul c0 Hw0 E0) as (r1 & Hr1' & Hd1).
    cbn [run_bop]. cbv zeta. rewrite E0, E1. cbn [length Nat.ltb Nat.leb andb negb].
    destruct (when_total (flag flags 0) (a_mul O c1 delta)
                         (fun d => flatten_to O d (dims c0) <> None)) as (o0 & Ho0 & Hq0);
      [exists r0; split; [exact Hr0' | apply flat_same; congruence] |].
    destruct (when_total (flag flags 1) (a_mul O c0 delta)
                         (fun d => flatten_to O d (dims c1) <> None)) as (o1 & Ho1 & Hq1);
      [exists r1; split; [exact Hr1' | apply flat_same; congruence] |].
    rewrite Ho0. cbn [obind]. rewrite Ho1. cbn [obind]. eexists. split; [reflexivity |].
    intros i c d Hci Hdi. destruct i as [|[|[|i]]]; simpl in Hci, Hdi; try discriminate Hci.
    - injection Hci as Hci. injection Hdi as Hdi. subst c. apply (Hq0 d Hdi).
    - injection Hci as Hci. injection Hdi as Hdi. subst c. apply (Hq1 d Hdi).
    - injection Hci as Hci. subst c. destruct (flag flags 2); [| discriminate Hdi].
      injection Hdi as Hdi. subst d. apply flat_sub; try assumption.
      rewrite <- Hdv in Hdd. rewrite Hdd. exact Hsub2.
    - destruct i; discriminate Hci.
  Qed.

  Lemma total_BMatmul : forall ta tb cs v flags,
      node_facts (BMatmul ta tb) cs v -> closure_total (BMatmul ta tb) cs v flags.
  Proof.
    intros ta tb cs v flags Hf. pose proof Hf as (_ & _ & _ & _ & _ & _ & Hside & _).
    cbn [closure_side] in Hside. destruct Hside as ([(H0 & H1) | (H0 & H1 & -> & ->)] & _).
    - apply total_BMatmul_rank2; assumption.
    - apply total_BMatmul_dot; assumption.
  Qed.

  (** ** convolution: expanding and rolling *)

  Lemma set_nth_total : forall i (x : F) (l : list F),
      i < length l -> exists l', set_nth i x l = Some l' /\ length l' = length l.
  Proof.
    intros i x l H. unfold set_nth. apply Nat.ltb_lt in H. rewrite H. eexists. split; [reflexivity |].
    apply Nat.ltb_lt in H. apply set_nth_length. exact H.
  Qed.

  Lemma expand_fold_total : forall fcount stride (vd : list F) n l out,
      length out = n ->
      (forall di, In di l -> di < length vd /\ expand_index fcount stride di < n) ->
      exists r, fold_left (fun acc di => out0 <- acc ;; v <- nth_error vd di ;;
                                          set_nth (expand_index fcount stride di) v out0)
                          l (Some out) = Some r /\ length r = n.
  Proof.
    intros fcount stride vd n l. induction l as [|di l IH]; intros out Hlen Hl.
    - exists out. split; [reflexivity | exact Hlen].
    - destruct (Hl di (or_introl eq_refl)) as (H1 & H2).
      simpl. destruct (nth_error vd di) as [x|] eqn:Hx; [| apply nth_error_None in Hx; lia].
      cbn [obind].
      destruct (set_nth_total (expand_index fcount stride di) x out) as (out1 & Ho1 & Hl1); [lia |].
      rewrite Ho1. apply IH; [lia |]. intros d Hd. apply Hl. right. exact Hd.
  Qed.

  Lemma total_BExpand : forall fcount stride cs v flags,
      node_facts (BExpand fcount stride) cs v -> closure_total (BExpand fcount stride) cs v flags.
  Proof.
    intros fcount stride cs v flags H. unary_start cs v flags H delta Hwd Hdd c0 Hw0 Hn0 Hfwd.
    cbn [code_fits nth] in Hfit. destruct Hfit as (Hfc & Hst).
    unfold expand_conv in Hfwd. cbv zeta in Hfwd. rewrite Hfc in Hfwd. cbn [obind] in Hfwd.
    rewrite <- Hst in Hfwd.
    apply obind_some in Hfwd. destruct Hfwd as (u1 & Hu1 & Hfwd).
    apply obind_some in Hfwd. destruct Hfwd as (vs & Hvs & Hfwd).
    apply obind_some in Hfwd. destruct Hfwd as (u2 & Hu2 & Hfwd).
    apply mk_some in Hfwd. destruct Hfwd as (_ & Hpl & Hv).
    apply guard_some in Hu2. apply Nat.leb_le in Hu2.
    pose proof (mapM_length _ _ _ Hvs) as Hlvs. rewrite seq_length in Hlvs.
    set (n := length (vals c0)) in *. set (il := stride * fcount) in *.
    assert (Hn : prod (dims c0) = n) by (destruct Hw0 as (_ & Hl0); exact Hl0).
    assert (Hlv : length (vals v) = n).
    { rewrite Hv. cbn [vals]. rewrite app_length, repeat_length. lia. }
    assert (Hld : length (vals delta) = n).
    { rewrite (wf_len delta Hwd), Hdd, <- (wf_len v Hwv). exact Hlv. }
    destruct (expand_fold_total fcount stride (vals delta) n
                                (seq 0 ((n + il - 1) / il * il)) (repeat (f0 O) n))
      as (r & Hr & Hlr).
    - apply repeat_length.
    - intros di Hdi. apply in_seq in Hdi. split; [lia |].
      destruct (mapM_nth_error _ _ vs di di Hvs) as (y & Hy & _).
      { rewrite nth_error_nth' with (d := 0) by (rewrite seq_length; lia). rewrite seq_nth by lia. reflexivity. }
      apply nth_error_Some. rewrite Hy. discriminate.
    - cbn [run_bop]. cbv zeta. rewrite Hn. fold il. rewrite Hu1. cbn [obind]. rewrite Hr. cbn [obind].
      rewrite (mk_total (dims c0) r (wf_pos c0 Hw0)) by lia. cbn [obind].
      eexists. split; [reflexivity |].
      apply slots1. intros d Hd. injection Hd as Hd. subst d. apply flat_same. reflexivity.
  Qed.

  Lemma dims_last3 : forall (d : list nat) x y z,
      dim_back d 3 = Some x -> dim_back d 2 = Some y -> dim_back d 1 = Some z ->
      d = firstn (length d - 3) d ++ [x; y; z].
  Proof.
    intros d x y z H3 H2 H1. unfold dim_back in *.
    apply obind_some in H3. destruct H3 as (u3 & Hg3 & H3). apply guard_some in Hg3. apply Nat.leb_le in Hg3.
    apply obind_some in H2. destruct H2 as (u2 & _ & H2).
    apply obind_some in H1. destruct H1 as (u1 & _ & H1).
    set (k := length d - 3) in *.
    rewrite <- (firstn_skipn k d) at 1. f_equal.
    assert (Hl : length (skipn k d) = 3) by (rewrite skipn_length; unfold k; lia).
    replace (length d - 2) with (k + 1) in H2 by (unfold k; lia).
    replace (length d - 1) with (k + 2) in H1 by (unfold k; lia).
    replace k with (k + 0) in H3 by lia.
    rewrite <- nth_error_skipn_add in H3, H2, H1.
    destruct (skipn k d) as [|a [|b [|c [|e l]]]]; try discriminate Hl.
    simpl in H3, H2, H1. congruence.
  Qed.

  (** the flat output index of [roll_blocks] stays inside the image block *)
  Lemma roll_index_bound : forall depth rows cols sr sc0 fr fc rcount ccount ii,
      rcount = (rows - fr) / sr + 1 -> ccount = (cols - fc) / sc0 + 1 ->
      fr <= rows -> fc <= cols -> 1 <= sr -> 1 <= sc0 -> 1 <= fr -> 1 <= fc -> 1 <= depth ->
      ii < rcount * ccount * (fr * fc * depth) ->
      let usize := fr * fc in
      let i := ii / (usize * depth) in
      let j := ii mod (usize * depth) in
      (j mod usize) mod fc + cols * ((j mod usize) / fc) + rows * cols * (j / usize)
      + (cols * sr * (i / ccount) + sc0 * (i mod ccount)) < depth * (rows * (cols * 1)).
  Proof.
    intros depth rows cols sr sc0 fr fc rcount ccount ii Hrc Hcc Hfr Hfc Hsr Hsc Hfr1 Hfc1 Hd Hii.
    cbv zeta.
    set (usize := fr * fc). set (i := ii / (usize * depth)). set (j := ii mod (usize * depth)).
    assert (Hud : 1 <= usize * depth) by (unfold usize; nia).
    assert (Hi : i < rcount * ccount).
    { unfold i. apply Nat.div_lt_upper_bound; [lia |]. unfold usize. nia. }
    assert (Hj : j < usize * depth) by (unfold j; apply Nat.mod_upper_bound; lia).
    assert (Hcd : j / usize < depth).
    { apply Nat.div_lt_upper_bound; [unfold usize; nia | lia]. }
    assert (Hfi : j mod usize < usize) by (apply Nat.mod_upper_bound; unfold usize; nia).
    assert (Hx1 : (j mod usize) mod fc < fc) by (apply Nat.mod_upper_bound; lia).
    assert (Hy1 : (j mod usize) / fc < fr).
    { apply Nat.div_lt_upper_bound; [lia |]. rewrite (Nat.mul_comm fc fr). exact Hfi. }
    assert (Hcpos : 1 <= ccount) by lia.
    assert (Hr2 : i / ccount < rcount).
    { apply Nat.div_lt_upper_bound; [lia |]. nia. }
    assert (Hc2 : i mod ccount < ccount) by (apply Nat.mod_upper_bound; lia).
    pose proof (stride_bound rows fr sr (i / ccount) Hsr Hfr ltac:(lia)) as HY.
    pose proof (stride_bound cols fc sc0 (i mod ccount) Hsc Hfc ltac:(lia)) as HX.
    set (a := (j mod usize) mod fc) in *. set (b := (j mod usize) / fc) in *.
    set (cd := j / usize) in *. set (q := i / ccount) in *. set (m := i mod ccount) in *.
    assert (HA : a + sc0 * m + 1 <= cols) by lia.
    assert (HB : b + sr * q + 1 <= rows) by lia.
    assert (HC : cd + 1 <= depth) by lia.
    replace (a + cols * b + rows * cols * cd + (cols * sr * q + sc0 * m))
      with ((a + sc0 * m) + cols * (b + sr * q) + rows * cols * cd) by ring.
    generalize dependent (a + sc0 * m). generalize dependent (b + sr * q).
    intros B HB A HA. clear - HA HB HC.
    assert (H1 : cols * B + cols <= cols * rows) by nia.
    assert (H2 : rows * cols * cd + rows * cols <= rows * cols * depth) by nia.
    nia.
  Qed.

  Lemma roll_fold_total : forall (count depth rows cols sr sc0 fr fc ccount : nat) (sl : list F) ogl l out,
      length out = ogl ->
      (forall ii, In ii l ->
         ii < length sl /\
         (let usize := fr * fc in
          let i := ii / (usize * depth) in
          let j := ii mod (usize * depth) in
          (j mod usize) mod fc + cols * ((j mod usize) / fc) + rows * cols * (j / usize)
          + (cols * sr * (i / ccount) + sc0 * (i mod ccount))) < ogl) ->
      exists r,
        fold_left
          (fun acc ii =>
             out0 <- acc ;;
             let usize := fr * fc in
             let i := ii / (usize * depth) in
             let j := ii mod (usize * depth) in
             let stride_offset := cols * sr * (i / ccount) + sc0 * (i mod ccount) in
             let current_depth := j / usize in
             let filter_index := j mod usize in
             let oi := filter_index mod fc + cols * (filter_index / fc)
                       + rows * cols * current_depth + stride_offset in
             x <- nth_error sl ii ;;
             o <- nth_error out0 oi ;;
             set_nth oi (fadd O o x) out0)
          l (Some out) = Some r /\ length r = ogl.
  Proof.
    intros count depth rows cols sr sc0 fr fc ccount sl ogl l.
    induction l as [|ii l IH]; intros out Hlen Hl.
    - exists out. split; [reflexivity | exact Hlen].
    - destruct (Hl ii (or_introl eq_refl)) as (H1 & H2). cbv zeta in H2.
      cbn [fold_left obind]. cbv zeta.
      destruct (nth_error sl ii) as [x|] eqn:Hx; [| apply nth_error_None in Hx; lia]. cbn [obind].
      match goal with |- context [nth_error out ?oi] => set (oi0 := oi) in * end.
      destruct (nth_error out oi0) as [o|] eqn:Ho; [| apply nth_error_None in Ho; lia]. cbn [obind].
      destruct (set_nth_total oi0 (fadd O o x) out) as (out1 & Ho1 & Hl1); [lia |].
      rewrite Ho1. apply IH; [lia |]. intros d Hd. apply Hl. right. exact Hd.
  Qed.

  Lemma total_BUnroll : forall depth rows cols sr sc0 fr fc cs v flags,
      node_facts (BUnroll depth rows cols sr sc0 fr fc) cs v ->
      closure_total (BUnroll depth rows cols sr sc0 fr fc) cs v flags.
  Proof.
    intros depth rows cols sr sc0 fr fc cs v flags H.
    unary_start cs v flags H delta Hwd Hdd c0 Hw0 Hn0 Hfwd.
    cbn [code_fits nth] in Hfit. destruct Hfit as (Hd3 & Hd2 & Hd1).
    unfold unroll_blocks in Hfwd. cbv zeta in Hfwd. rewrite Hd3, Hd2, Hd1 in Hfwd. cbn [obind] in Hfwd.
    apply obind_some in Hfwd. destruct Hfwd as (rcount & Hrc & Hfwd).
    apply obind_some in Hfwd. destruct Hfwd as (ccount & Hcc & Hfwd).
    apply (sliced_op_dims O) in Hfwd.
    set (lead := firstn (length (dims c0) - 3) (dims c0)) in *.
    pose proof (dims_last3 (dims c0) depth rows cols Hd3 Hd2 Hd1) as Ed0. fold lead in Ed0.
    (* geometry from the forward stride counts *)
    unfold stride_count in Hrc, Hcc.
    apply obind_some in Hrc. destruct Hrc as (ur1 & Hur1 & Hrc).
    apply obind_some in Hrc. destruct Hrc as (ur2 & Hur2 & Hrc). injection Hrc as Hrc.
    apply guard_some in Hur1. apply Nat.leb_le in Hur1. apply guard_some in Hur2. apply Nat.leb_le in Hur2.
    pose proof Hcc as Hcc0.
    apply obind_some in Hcc. destruct Hcc as (uc1 & Huc1 & Hcc).
    apply obind_some in Hcc. destruct Hcc as (uc2 & Huc2 & Hcc). injection Hcc as Hcc.
    apply guard_some in Huc1. apply Nat.leb_le in Huc1. apply guard_some in Huc2. apply Nat.leb_le in Huc2.
    (* positivity from well-formedness *)
    pose proof (wf_pos c0 Hw0) as Hp0. rewrite Ed0 in Hp0. apply Forall_app in Hp0.
    destruct Hp0 as (Hplead & Hp3).
    pose proof (Forall_inv Hp3) as Hdep. pose proof (Forall_inv_tail Hp3) as Hp2.
    pose proof (Forall_inv Hp2) as Hrows. pose proof (Forall_inv_tail Hp2) as Hp1.
    pose proof (Forall_inv Hp1) as Hcols. cbv beta in Hdep, Hrows, Hcols.
    pose proof (wf_pos v Hwv) as Hpv. rewrite Hfwd in Hpv. apply Forall_app in Hpv.
    destruct Hpv as (_ & Hpv2).
    pose proof (Forall_inv Hpv2) as Hcnt. pose proof (Forall_inv (Forall_inv_tail Hpv2)) as Husz.
    cbv beta in Hcnt, Husz.
    assert (Hfr1 : 1 <= fr) by nia. assert (Hfc1 : 1 <= fc) by nia.
    rewrite Hfwd in Hdd.
    set (count := rcount * ccount) in *.
    assert (Hdb2 : dim_back (dims delta) 2 = Some count) by (rewrite Hdd; apply dim_back_snoc2_2).
    assert (Hlen2 : firstn (length (dims delta) - 2) (dims delta) = lead) by (rewrite Hdd; apply firstn_snoc2).
    set (out_dims := lead ++ [depth; rows; cols]).
    assert (Hllead : length (dims delta) - 2 = length lead) by (rewrite Hdd, length_snoc2; lia).
    assert (Efo : firstn (length lead) out_dims = lead) by (unfold out_dims; apply firstn_app_len).
    assert (Eso : skipn (length lead) out_dims = [depth; rows; cols])
      by (unfold out_dims; apply skipn_app_len).
    assert (Eld : lead_dims 2 delta = lead) by (unfold lead_dims; exact Hlen2).
    assert (Egl : group_length 2 delta = count * (depth * (fr * fc))).
    { apply (group_length_snoc2 delta lead _ _ Hdd). }
    destruct (sliced_op_nonacc_total O [delta]
                (roll_sop O true count depth rows cols sr sc0 fr fc ccount)
                (dims delta) out_dims 2 0 out_dims) as (out & Hout).
    - rewrite Hlen2, Hllead. exact Efo.
    - rewrite Hlen2. exact Hplead.
    - simpl. rewrite sliced_valid_same. reflexivity.
    - rewrite Hlen2, Hllead, Eso. intros i Hi. cbn [mapM].
      rewrite (operand_slice_spec 2 (length lead) lead i delta Hwd Hplead eq_refl)
        by (rewrite Eld; apply sub_lead_refl).
      rewrite Eld, Egl. cbn [obind].
      set (sl := block (count * (depth * (fr * fc)))
                       (rowmajor lead (bclamp lead (unrank lead i))) (vals delta)).
      assert (Hsl : length sl = count * (depth * (fr * fc))).
      { unfold sl. apply (block_length _ _ (prod lead)).
        - rewrite (wf_len delta Hwd), Hdd, prod_app. simpl. lia.
        - apply rowmajor_lt_prod. apply (bclamp_in_range _ lead); [exact Hplead | apply sub_lead_refl |].
          apply unrank_lt. exact Hplead. }
      destruct (roll_fold_total count depth rows cols sr sc0 fr fc ccount sl
                                (prod [depth; rows; cols]) (seq 0 (count * (fr * fc * depth)))
                                (repeat (f0 O) (prod [depth; rows; cols]))) as (r & Hr & Hlr).
      + apply repeat_length.
      + intros ii Hii. apply in_seq in Hii. split; [rewrite Hsl; nia |].
        simpl prod.
        apply (roll_index_bound depth rows cols sr sc0 fr fc rcount ccount ii); try assumption;
          try (symmetry; assumption). unfold count in Hii. nia.
      + eexists. exists r. split; [reflexivity |]. split; [| exact Hlr].
        unfold roll_sop. exact Hr.
    - reflexivity.
    - unfold out_dims. apply Forall_app. split; [exact Hplead |].
      constructor; [exact Hdep |]. constructor; [exact Hrows |]. constructor; [exact Hcols | constructor].
    - reflexivity.
    - cbn [run_bop].
      destruct (when_total (flag flags 0) (roll_blocks O true delta depth rows cols sr sc0 fr fc)
                           (fun d => flatten_to O d (dims c0) <> None)) as (o0 & Ho0 & Hq0).
      { eexists. split.
        - unfold roll_blocks. cbv zeta. rewrite Hdb2. cbn [obind]. unfold stride_count. rewrite Hcc0. cbn [obind].
          rewrite Hlen2. fold out_dims. exact Hout.
        - apply flat_same. cbn [dims]. unfold out_dims. symmetry. exact Ed0. }
      rewrite Ho0. cbn [obind]. eexists. split; [reflexivity |]. apply slots1. exact Hq0.
  Qed.

  (** * The proved set *)

  Definition total_proved (code : bop_code F) : bool := true.

  Theorem closure_total_proved : forall code cs v flags,
      total_proved code = true -> node_facts code cs v -> closure_total code cs v flags.
  Proof.
    intros code cs v flags H Hf. destruct code; try discriminate H.
    - apply total_BAdd; exact Hf.
    - apply total_BMul; exact Hf.
    - apply total_BDiv; exact Hf.
    - apply total_BNeg; exact Hf.
    - apply total_BScale; exact Hf.
    - apply total_BRecip; exact Hf.
    - apply total_BPowf; exact Hf.
    - apply total_BLn; exact Hf.
    - apply total_BExp; exact Hf.
    - apply total_BSum; exact Hf.
    - apply total_BReshape; exact Hf.
    - apply total_BMatmul; exact Hf.
    - apply total_BUnroll; exact Hf.
    - apply total_BExpand; exact Hf.
    - apply total_BRelu; exact Hf.
    - apply total_BSigmoid; exact Hf.
    - apply total_BCustom; exact Hf.
  Qed.

  (** * From the history invariants to the facts about one node *)

  Lemma node_facts_of_good : forall (g : list gnode) id nd code,
      store_good g -> nonscalar g -> value_consistent O g ->
      nth_error g id = Some nd -> p_bop (n_pay nd) = Some code ->
      closure_side code (cvals g (n_children nd)) (pay_arr (n_pay nd)) ->
      node_facts code (cvals g (n_children nd)) (pay_arr (n_pay nd)).
  Proof.
    intros g id nd code Hg Hns Hvc Hnd Hcode Hside.
    destruct (Hg id nd Hnd) as (Hlt & Hok & _ & _ & Hw & _).
    pose proof (Hvc id nd Hnd) as Hv. unfold node_vc in Hv. rewrite Hcode in Hv. cbv zeta in Hv.
    destruct Hv as (Hfit & Hfwd).
    unfold node_ok, node_ok' in Hok. rewrite Hcode in Hok. destruct Hok as (Hlen & _).
    assert (Hch : forall e, In e (n_children nd) ->
               exists c, nth_error g (e_node e) = Some c /\ nval g (e_node e) = pay_arr (n_pay c)).
    { intros e He. specialize (Hlt e He).
      assert (Hid : id < length g) by (eapply nth_lt; exact Hnd).
      destruct (nth_error g (e_node e)) as [c|] eqn:Hc; [| apply nth_error_None in Hc; lia].
      exists c. split; [reflexivity |]. unfold nval. unfold Program.gnode in *. rewrite Hc. reflexivity. }
    split; [unfold cvals; rewrite map_length; exact Hlen |].
    split.
    { apply Forall_forall. intros a Ha. unfold cvals in Ha. apply in_map_iff in Ha.
      destruct Ha as (e & <- & He). destruct (Hch e He) as (c & Hc & ->).
      destruct (Hg _ c Hc) as (_ & _ & _ & _ & Hwc & _). exact Hwc. }
    split.
    { apply Forall_forall. intros a Ha. unfold cvals in Ha. apply in_map_iff in Ha.
      destruct Ha as (e & <- & He). destruct (Hch e He) as (c & Hc & ->).
      apply (Hns _ c Hc). }
    split; [exact Hw |]. split; [apply (Hns id nd Hnd) |].
    split; [exact Hfit |]. split; [exact Hside | exact Hfwd].
  Qed.

  (** every closure of the graph is in the proved set and within its side condition *)
  Definition graph_total_proved (g : list gnode) : Prop :=
    forall id nd code, nth_error g id = Some nd -> p_bop (n_pay nd) = Some code ->
      total_proved code = true /\
      closure_side code (cvals g (n_children nd)) (pay_arr (n_pay nd)).

  (** a backward pass with a well-shaped seed on a graph built through the public
      operations (sound, value-consistent, without rank-0 arrays) never panics *)
  Theorem backward_total_proved : forall (g : list gnode) r keep seed,
      store_good g -> value_consistent O g -> nonscalar g -> graph_total_proved g ->
      r < length g ->
      (forall sd nd, seed = Some sd -> nth_error g r = Some nd -> grad_ok (n_pay nd) sd) ->
      run_backward E g r keep seed <> None.
  Proof.
    intros g r keep seed Hg Hvc Hns Hgp Hr Hseed.
    apply backward_total_gen; try assumption.
    intros id nd code Hnd Hcode. destruct (Hgp id nd code Hnd Hcode) as (Htp & Hside).
    apply closure_total_proved; [exact Htp |].
    apply (node_facts_of_good g id nd code); assumption.
  Qed.
End Concrete.

Print Assumptions guarded_total.
Print Assumptions backward_total_gen.
Print Assumptions closure_total_proved.
Print Assumptions backward_total_proved.
