(** C19, closeness for COMPOSITIONS: rounding-error bounds for whole layer computations of
    the model run at a rounded-real instance ([rounded_ops emin prec], any precision and
    minimal exponent; binary32 = (-149, 24), binary64 = (-1074, 53)) against the same model
    run over the reals ([R_ops]).  Builds on Proofs/RoundingSpec.v.  Notation as there:
    [u = 2^(-prec)], [eta = 2^(emin-1)], [theta k = (1+u)^k - 1 <= gamma k = k u / (1 - k u)].

    Scalar tools: [close_terms k kap e E] (each [e_j] within relative [theta k] and absolute
    [kap] of [E_j]); [vsum_close_terms], [dot_close_terms] (left-fold sum / sum then addition
    onto a representable [c] of such terms: [theta (n-1+k)] resp. [theta (n+k)]);
    [rel_mul_th], [rel_rn_th] (propagation through a product / one rounding);
    [no_uflow], [rn_err_normal] (no underflow: purely relative rounding error).

    1. Dense layer forward [a_matmul x false w true (Some b)] (the call of [layer_forward]):
       [dense_rounding], [dense_rounding_gamma]:
       [|fl(out) - out| <= gamma (n+1) * (|b_j| + sum_k |x_ik| |w_jk|) + n * eta * (1 + gamma n)],
       and without the [eta] term when no product underflows.
    2. Mean squared error in the literal order of [cost_apply CMse] + [a_sum_all]
       ([a_mse], shown equal to the mathematical MSE over the reals, [a_mse_real]):
       [mse_rounding], [mse_rounding_gamma]:
       [|fl(mse) - mse| <= gamma (N+4) * mse + N * kappa * (1 + gamma (N-1))],
       [kappa = eta * ((1+u)^2 + 1)].
    3. Two formats, and binary32 against binary64: [dense_two_formats], [mse_two_formats],
       [dense_f32_f64], [mse_f32_f64].
    4. Softmax with a libm [exp] of relative accuracy [eps] on the data ([with_fexp]):
       [softmax_elem_err], [softmax_rounding] (each output within relative [softmax_rel n],
       rows sum to one within [softmax_rel n + n * eta]); the correctly rounded [fexp] of
       [rounded_ops] is an instance ([rounded_exp_ok], [softmax_rounding_ideal]).
    Non-vacuity: [dense_f32_example], [mse_f32_example], [softmax_f32_example].
    Not modelled (as in RoundingSpec.v): overflow, NaN/infinities, signed zeros.
    No axiom is declared here. *)

From Coq Require Import List Arith Bool Lia PeanoNat ZArith Reals Lra Psatz.
From Flocq Require Import Core Relative Plus_error.
From Corgi Require Import Lib.OptionMonad Lib.IdxDefs Lib.Idx Model.Scalar Model.RealScalar
     Model.RoundedScalar Model.Arr Model.SlicedOp Model.Elementwise Model.Ops Lib.Sums
     Proofs.ArrFacts Proofs.BroadcastDims Proofs.SpecDefs Proofs.SlicedOpSpec Proofs.EwSpec
     Proofs.ReduceSpec Proofs.FlattenSpec Model.Linalg Proofs.MatmulSpec Proofs.RealDerivs
     Proofs.RoundingSpec.
Import ListNotations.

Local Open Scope R_scope.

(** * Scalar level: sums and dot products of terms that already carry an error *)

Section Compose.
  Variables emin prec : Z.
  Context {Hprec : Prec_gt_0 prec}.

  Notation fmt := (generic_format radix2 (FLT_exp emin prec)).
  Notation rn := (rnd emin prec).
  Notation O := (rounded_ops emin prec).
  Notation uu := (u prec).
  Notation ee := (eta emin).
  Notation th := (theta prec).
  Notation ga := (gamma prec).

  Lemma pow1u_theta : forall k, (1 + uu) ^ k = 1 + th k.
  Proof. intros k. unfold theta. ring. Qed.

  Lemma theta_add : forall j k, th (j + k) = (1 + th j) * (1 + th k) - 1.
  Proof. intros j k. unfold theta. rewrite pow_add. ring. Qed.

  Lemma theta_0 : th 0 = 0.
  Proof. unfold theta. cbn. ring. Qed.

  (** [e_j] approximates [E_j] with relative error [theta k] and absolute error [kap] *)
  Definition close_terms (k : nat) (kap : R) (e E : list R) : Prop :=
    Forall2 (fun ej Ej => Rabs (ej - Ej) <= th k * Rabs Ej + kap) e E.

  Lemma close_terms_length : forall k kap e E, close_terms k kap e E -> length e = length E.
  Proof. intros k kap e E H. induction H; cbn; congruence. Qed.

  Lemma close_terms_sums : forall k kap e E,
      close_terms k kap e E ->
      Rabs (rsum e - rsum E) <= th k * rsum (map Rabs E) + INR (length E) * kap /\
      rsum (map Rabs e) <= (1 + th k) * rsum (map Rabs E) + INR (length E) * kap.
  Proof.
    intros k kap e E H. induction H as [|ej Ej e E Hj _ (IE & IA)].
    - cbn [map length INR]. rewrite !rsum_nil, Rminus_0_r, Rabs_R0. lra.
    - cbn [map length]. rewrite S_INR, !rsum_cons. split.
      + replace (ej + rsum e - (Ej + rsum E)) with ((ej - Ej) + (rsum e - rsum E)) by ring.
        pose proof (Rabs_triang (ej - Ej) (rsum e - rsum E)). lra.
      + assert (Rabs ej <= Rabs Ej + Rabs (ej - Ej)).
        { replace ej with (Ej + (ej - Ej)) at 1 by ring. apply Rabs_triang. }
        lra.
  Qed.

  (** the model's left-fold sum of such terms *)
  Theorem vsum_close_terms : forall k kap e E,
      Forall (fun x => fmt x) e -> close_terms k kap e E -> 0 <= kap ->
      let n := length E in
      Rabs (vsum O e - rsum E)
      <= th (n - 1 + k) * rsum (map Rabs E) + INR n * kap * (1 + uu) ^ (n - 1).
  Proof.
    intros k kap e E Fe Hc Hk n.
    destruct (close_terms_sums k kap e E Hc) as [HE HA]. fold n in HE, HA.
    destruct (vsum_err emin prec e Fe) as [_ HV].
    rewrite (close_terms_length _ _ _ _ Hc) in HV. fold n in HV.
    set (T := rsum (map Rabs E)) in *. set (A := rsum (map Rabs e)) in *.
    assert (HT : 0 <= T) by apply rsum_abs_nonneg.
    pose proof (theta_nonneg prec (n - 1)) as H1. pose proof (theta_nonneg prec k) as H2.
    assert (HN : 0 <= INR n * kap) by (apply Rmult_le_pos; [apply pos_INR|exact Hk]).
    replace (vsum O e - rsum E) with ((vsum O e - rsum e) + (rsum e - rsum E)) by ring.
    pose proof (Rabs_triang (vsum O e - rsum e) (rsum e - rsum E)) as Tr.
    rewrite theta_add, pow1u_theta.
    assert (H3 : th (n - 1) * A <= th (n - 1) * ((1 + th k) * T + INR n * kap))
      by (apply Rmult_le_compat_l; lra).
    nra.
  Qed.

  (** ... followed by the rounded addition onto a representable [c] (the additive term of
      [matmul]): the element formula of a dense layer *)
  Theorem dot_close_terms : forall k kap c e E,
      fmt c -> Forall (fun x => fmt x) e -> close_terms k kap e E -> 0 <= kap ->
      let n := length E in
      Rabs (fadd O c (vsum O e) - (c + rsum E))
      <= th (n + k) * (Rabs c + rsum (map Rabs E)) + INR n * kap * (1 + uu) ^ n.
  Proof.
    intros k kap c e E Fc Fe Hc Hk n.
    pose proof (u_pos prec) as Hu. pose proof (Rabs_pos c) as Hc0.
    destruct E as [|E0 E'].
    - inversion Hc; subst. cbn [length map INR pow] in *. unfold n. cbn [length INR pow].
      unfold vsum at 1. cbn [fold_left f0 fadd rounded_ops].
      rewrite rsum_nil, Rplus_0_r, (rn_id emin prec c Fc).
      replace (c - c) with 0 by ring. rewrite Rabs_R0.
      pose proof (theta_nonneg prec (0 + k)). nra.
    - set (EE := E0 :: E') in *. set (m := length E').
      assert (Hn : n = S m) by reflexivity.
      pose proof (vsum_close_terms k kap e EE Fe Hc Hk) as HX. cbv zeta in HX. fold n in HX.
      rewrite Hn in *. replace (S m - 1)%nat with m in HX by lia.
      destruct (vsum_err emin prec e Fe) as [FS _].
      set (V := vsum O e) in *. set (T := rsum (map Rabs EE)) in *.
      set (X := Rabs (V - rsum EE)) in *.
      assert (HT : 0 <= T) by apply rsum_abs_nonneg.
      assert (HV : Rabs V <= T + X).
      { replace V with (rsum EE + (V - rsum EE)) at 1 by ring.
        pose proof (Rabs_triang (rsum EE) (V - rsum EE)) as Tr. pose proof (rsum_abs_le EE) as Ha.
        fold T in Ha. fold X in Tr. lra. }
      destruct (fadd_err emin prec c V Fc FS) as [_ ER].
      pose proof (Rabs_triang c V) as Tc.
      replace (fadd O c V - (c + rsum EE)) with ((fadd O c V - (c + V)) + (V - rsum EE)) by ring.
      pose proof (Rabs_triang (fadd O c V - (c + V)) (V - rsum EE)) as Tr. fold X in Tr.
      set (Y := INR (S m) * kap) in *.
      assert (HY : 0 <= Y) by (apply Rmult_le_pos; [apply pos_INR|exact Hk]).
      assert (H3 : (1 + uu) * X <= (1 + uu) * (th (m + k) * T + Y * (1 + uu) ^ m))
        by (apply Rmult_le_compat_l; lra).
      assert (H4 : uu * T + (1 + uu) * (th (m + k) * T + Y * (1 + uu) ^ m)
                   = th (S m + k) * T + Y * (1 + uu) ^ S m).
      { replace (S m + k)%nat with (S (m + k)) by lia. unfold theta. cbn [pow]. ring. }
      assert (H5 : uu <= th (S m + k)).
      { rewrite <- (theta_1 prec). apply theta_mono. lia. }
      assert (H6 : uu * Rabs c <= th (S m + k) * Rabs c) by (apply Rmult_le_compat_r; lra).
      assert (H7 : uu * Rabs (c + V) <= uu * (Rabs c + T + X)) by (apply Rmult_le_compat_l; lra).
      rewrite Rmult_plus_distr_l. lra.
  Qed.

  (** ** one rounding of an exact term *)

  (** the exact term is zero or in the normal range: its rounding does not underflow *)
  Definition no_uflow (x : R) : Prop := x = 0 \/ bpow radix2 (emin + prec - 1) <= Rabs x.

  Lemma rn_err_normal : forall x, no_uflow x -> Rabs (rn x - x) <= uu * Rabs x.
  Proof.
    intros x [->|Hx].
    - unfold rnd. rewrite round_0 by auto with typeclass_instances.
      rewrite Rminus_0_r, Rabs_R0. lra.
    - pose proof (relative_error_N_FLT radix2 emin prec Hprec (fun t => negb (Z.even t)) x Hx) as H.
      change (/ 2 * bpow radix2 (- prec + 1)) with (u_ro radix2 prec) in H.
      rewrite <- (u_u_ro prec) in H. exact H.
  Qed.

  Lemma rounded_close : forall t : list R,
      Forall (fun x => fmt x) (map rn t) /\ close_terms 1 ee (map rn t) t.
  Proof.
    induction t as [|x t [IF IC]]; cbn [map]; [split; constructor|].
    split; constructor; try assumption; [apply (rn_fmt emin prec)|].
    rewrite (theta_1 prec). apply (rn_err emin prec).
  Qed.

  Lemma rounded_close_normal : forall t : list R,
      Forall no_uflow t -> close_terms 1 0 (map rn t) t.
  Proof.
    intros t H. induction H as [|x t Hx _ IH]; cbn [map]; constructor; [|exact IH].
    rewrite (theta_1 prec), Rplus_0_r. apply rn_err_normal. exact Hx.
  Qed.
End Compose.

(** * 1. Dense layer forward (no activation)

    [layer_forward] (Model/Program.v) of a dense layer is
    [a_matmul x false w true (Some b)] with [x : [r; n]], [w : [m; n]], [b : [m]].  The
    literal order (Model/Linalg.v, [matmul_slice]): the output is preset to the additive term,
    the [n] products are rounded and summed by the left fold starting from [0], and that sum
    is added onto the preset value: [out[i][j] = fl(b[j] + fl(sum_k fl(x[i][k] * w[j][k])))]. *)

Section Dense.
  Variables emin prec : Z.
  Context {Hprec : Prec_gt_0 prec}.

  Notation fmt := (generic_format radix2 (FLT_exp emin prec)).
  Notation rn := (rnd emin prec).
  Notation O := (rounded_ops emin prec).
  Notation uu := (u prec).
  Notation ee := (eta emin).
  Notation th := (theta prec).
  Notation ga := (gamma prec).

  Definition dense_terms (x w : arr R) (i j n : nat) : list R :=
    map (fun k => getd R_ops x [i; k] * getd R_ops w [j; k]) (seq 0 n).

  Lemma dense_terms_abs : forall x w i j n,
      map Rabs (dense_terms x w i j n)
      = map (fun k => Rabs (getd R_ops x [i; k]) * Rabs (getd R_ops w [j; k])) (seq 0 n).
  Proof.
    intros. unfold dense_terms. rewrite map_map. apply map_ext. intros k. apply Rabs_mult.
  Qed.

  Theorem dense_rounding : forall (x w b : arr R) (r n m : nat),
      wf x -> wf w -> wf b -> dims x = [r; n] -> dims w = [m; n] -> dims b = [m] ->
      fmt_arr emin prec b ->
      exists yf yr,
        a_matmul O x false w true (Some b) = Some yf /\
        a_matmul R_ops x false w true (Some b) = Some yr /\
        dims yf = [r; m] /\ dims yr = [r; m] /\
        forall i j, (i < r)%nat -> (j < m)%nat ->
          let bj := getd R_ops b [j] in
          let exact := bj + rsum (dense_terms x w i j n) in
          let T := rsum (map Rabs (dense_terms x w i j n)) in
          exists vf,
            get yf [i; j] = Some vf /\ get yr [i; j] = Some exact /\
            Rabs (vf - exact) <= th (S n) * (Rabs bj + T) + INR n * ee * (1 + uu) ^ n /\
            (Forall (no_uflow emin prec) (dense_terms x w i j n) ->
             Rabs (vf - exact) <= th (S n) * (Rabs bj + T)).
  Proof.
    intros x w b r n m Hwx Hww Hwb Ex Ew Eb Fb.
    destruct (matmul_spec_bias_row O x false w true b [] [] r n m n Hwx Hww Hwb Ex Ew eq_refl I Eb)
      as [(yf & Hyf & _ & Dyf & Vyf) _].
    destruct (matmul_spec_bias_row R_ops x false w true b [] [] r n m n Hwx Hww Hwb Ex Ew eq_refl I Eb)
      as [(yr & Hyr & _ & Dyr & Vyr) _].
    exists yf, yr. split; [exact Hyf|]. split; [exact Hyr|].
    split; [exact Dyf|]. split; [exact Dyr|].
    intros i j Hi Hj bj exact T.
    destruct (Vyf [] i j ltac:(constructor) Hi Hj) as [_ Gf].
    destruct (Vyr [] i j ltac:(constructor) Hi Hj) as [_ Gr].
    cbn [app mm_inner_a] in Gf, Gr.
    eexists. split; [exact Gf|]. split; [exact Gr|].
    change (fun k : nat => fmul O (getd O x (a_idx false [] [] i k)) (getd O w (b_idx true [] [] k j)))
      with (fun k : nat => rn (getd R_ops x [i; k] * getd R_ops w [j; k])).
    rewrite <- (map_map (fun k => getd R_ops x [i; k] * getd R_ops w [j; k]) rn).
    fold (dense_terms x w i j n). change (getd O b [j]) with bj.
    assert (Fbj : fmt bj) by (apply nth_fmt; exact Fb).
    assert (Hlen : length (dense_terms x w i j n) = n)
      by (unfold dense_terms; rewrite map_length, seq_length; reflexivity).
    destruct (rounded_close emin prec (dense_terms x w i j n)) as [FT CT].
    split.
    - pose proof (dot_close_terms emin prec 1 ee bj _ _ Fbj FT CT
                                  (Rlt_le _ _ (eta_pos emin))) as H.
      cbv zeta in H. rewrite Hlen, Nat.add_1_r in H. exact H.
    - intros Hno.
      pose proof (dot_close_terms emin prec 1 0 bj _ _ Fbj FT
                                  (rounded_close_normal emin prec _ Hno) (Rle_refl 0)) as H.
      cbv zeta in H. rewrite Hlen, Nat.add_1_r in H.
      rewrite Rmult_0_r, Rmult_0_l, Rplus_0_r in H. exact H.
  Qed.

  (** Higham's form: [gamma (n+1) = (n+1) u / (1 - (n+1) u)] *)
  Corollary dense_rounding_gamma : forall (x w b : arr R) (r n m : nat),
      wf x -> wf w -> wf b -> dims x = [r; n] -> dims w = [m; n] -> dims b = [m] ->
      fmt_arr emin prec b -> INR (S n) * uu < 1 ->
      exists yf yr,
        a_matmul O x false w true (Some b) = Some yf /\
        a_matmul R_ops x false w true (Some b) = Some yr /\
        dims yf = [r; m] /\ dims yr = [r; m] /\
        forall i j, (i < r)%nat -> (j < m)%nat ->
          let bj := getd R_ops b [j] in
          let exact := bj + rsum (dense_terms x w i j n) in
          let T := rsum (map Rabs (dense_terms x w i j n)) in
          exists vf,
            get yf [i; j] = Some vf /\ get yr [i; j] = Some exact /\
            Rabs (vf - exact) <= ga (S n) * (Rabs bj + T) + INR n * ee * (1 + ga n) /\
            (Forall (no_uflow emin prec) (dense_terms x w i j n) ->
             Rabs (vf - exact) <= ga (S n) * (Rabs bj + T)).
  Proof.
    intros x w b r n m Hwx Hww Hwb Ex Ew Eb Fb Hk.
    destruct (dense_rounding x w b r n m Hwx Hww Hwb Ex Ew Eb Fb)
      as (yf & yr & Hyf & Hyr & Dyf & Dyr & V).
    exists yf, yr. split; [exact Hyf|]. split; [exact Hyr|].
    split; [exact Dyf|]. split; [exact Dyr|].
    intros i j Hi Hj bj exact T. destruct (V i j Hi Hj) as (vf & Gf & Gr & B1 & B2).
    exists vf. split; [exact Gf|]. split; [exact Gr|]. fold bj exact T in B1, B2.
    pose proof (theta_le_gamma prec (S n) Hk) as G1.
    assert (Hk' : INR n * uu < 1).
    { rewrite S_INR in Hk. pose proof (u_pos prec). nra. }
    pose proof (theta_le_gamma prec n Hk') as G2. unfold theta in G2.
    assert (HT : 0 <= T) by apply rsum_abs_nonneg. pose proof (Rabs_pos bj) as Hb.
    assert (H1 : th (S n) * (Rabs bj + T) <= ga (S n) * (Rabs bj + T))
      by (apply Rmult_le_compat_r; lra).
    assert (H2 : INR n * ee * (1 + uu) ^ n <= INR n * ee * (1 + ga n)).
    { apply Rmult_le_compat_l; [|lra]. apply Rmult_le_pos; [apply pos_INR|].
      pose proof (eta_pos emin). lra. }
    split; [lra|]. intros Hno. specialize (B2 Hno). lra.
  Qed.
End Dense.

(** * 2. Mean squared error

    [cost_apply .. CMse] followed by [a_sum_all] in [model_backward] (Model/Program.v):
    [d = target - output] (as [target + output * (-1)]), [p = d.powf(2)],
    [e = p * (1 / (len as Float))], and the scalar is the left-fold sum of [e]:
    [mse = fl(sum_j fl(fl(fl(t_j - y_j)^2) * fl(1 / fl(len))))] -- each squared difference is
    scaled by the rounded reciprocal of the length BEFORE the summation. *)

Section MseDef.
  Context {F : Type} (O : ScalarOps F).

  Definition a_mse (target output : arr F) : option F :=
    d <- a_sub O target output ;;
    p <- a_powf O (two O) d ;;
    e <- a_scale O (fdiv O (f1 O) (fofnat O (prod (dims output)))) p ;;
    Some (a_sum_all O e).

  Definition mse_term (s t y : F) : F :=
    fmul O (fpow O (fadd O t (fmul O y (m1 O))) (two O)) s.

  Lemma a_mse_spec : forall (t y : arr F),
      wf t -> wf y -> dims t = dims y -> dims t <> [] ->
      a_mse t y
      = Some (vsum O (map (fun j => mse_term (fdiv O (f1 O) (fofnat O (prod (dims y))))
                                             (nth j (vals t) (f0 O)) (nth j (vals y) (f0 O)))
                          (seq 0 (prod (dims y))))).
  Proof.
    intros t y Hwt Hwy Hd Hne. unfold a_mse, a_sub. rewrite (a_neg_spec O y Hwy). cbn [obind].
    set (ny := {| dims := dims y; vals := map (fun x => fmul O x (fneg O (f1 O))) (vals y) |}).
    assert (Hwny : wf ny) by (apply map_arr_result_wf; exact Hwy).
    destruct (a_add_same_dims O t ny Hwt Hwny Hd Hne) as (c & Hc & Hwc & Hdc & Hv).
    rewrite Hc. cbn [obind]. rewrite (a_powf_spec O _ c Hwc). cbn [obind].
    rewrite a_scale_spec by (apply map_arr_result_wf; exact Hwc). cbn [obind].
    unfold a_sum_all. cbn [vals dims]. f_equal. f_equal. rewrite map_map.
    destruct Hwc as [_ Hlc]. destruct Hwy as [_ Hly]. rewrite Hdc, Hd in Hlc.
    rewrite (list_as_map_seq (vals c) (f0 O)) at 1. rewrite map_map, <- Hlc.
    apply map_ext_in. intros j Hj. apply in_seq in Hj. unfold mse_term.
    rewrite Hv by (rewrite Hd; lia). f_equal. f_equal. f_equal.
    unfold ny. cbn [vals].
    rewrite (nth_indep _ (f0 O) (fmul O (f0 O) (fneg O (f1 O)))) by (rewrite map_length; lia).
    rewrite (map_nth (fun x => fmul O x (fneg O (f1 O)))). reflexivity.
  Qed.
End MseDef.

Section Mse.
  Variables emin prec : Z.
  Context {Hprec : Prec_gt_0 prec}.
  Hypothesis Hemin : (emin <= 0)%Z.

  Notation fmt := (generic_format radix2 (FLT_exp emin prec)).
  Notation rn := (rnd emin prec).
  Notation O := (rounded_ops emin prec).
  Notation uu := (u prec).
  Notation ee := (eta emin).
  Notation th := (theta prec).
  Notation ga := (gamma prec).

  Lemma fmt_1 : fmt 1.
  Proof. change 1 with (bpow radix2 0). apply generic_format_FLT_bpow; [exact Hprec|exact Hemin]. Qed.

  Lemma fmt_2 : fmt (1 + 1).
  Proof.
    replace (1 + 1) with (bpow radix2 1) by (cbn; lra).
    apply generic_format_FLT_bpow; [exact Hprec|lia].
  Qed.

  Lemma fmt_IZR : forall z, (Z.abs z < 2 ^ prec)%Z -> fmt (IZR z).
  Proof.
    intros z Hz. apply generic_format_FLT. exists (Float radix2 z 0).
    - unfold F2R. cbn. ring.
    - exact Hz.
    - exact Hemin.
  Qed.

  Lemma fmt_INR : forall n, (Z.of_nat n < 2 ^ prec)%Z -> fmt (INR n).
  Proof. intros n Hn. rewrite INR_IZR_INZ. apply fmt_IZR. lia. Qed.

  (** ** propagation of (relative [theta j], absolute [kap]) errors *)

  Lemma rel_mul_th : forall j k a a' b b' kap,
      0 <= kap ->
      Rabs (a' - a) <= th j * Rabs a + kap -> Rabs (b' - b) <= th k * Rabs b ->
      Rabs (a' * b' - a * b) <= th (j + k) * Rabs (a * b) + kap * (1 + th k) * Rabs b.
  Proof.
    intros j k a a' b b' kap Hk Ha Hb.
    replace (a' * b' - a * b) with ((a' - a) * b' + a * (b' - b)) by ring.
    pose proof (Rabs_triang ((a' - a) * b') (a * (b' - b))) as T. rewrite !Rabs_mult in T.
    assert (Hb' : Rabs b' <= (1 + th k) * Rabs b).
    { replace b' with (b + (b' - b)) at 1 by ring. pose proof (Rabs_triang b (b' - b)). lra. }
    rewrite theta_add, Rabs_mult.
    pose proof (theta_nonneg prec j). pose proof (theta_nonneg prec k).
    pose proof (Rabs_pos a). pose proof (Rabs_pos b). pose proof (Rabs_pos b').
    pose proof (Rabs_pos (a' - a)). pose proof (Rabs_pos (b' - b)).
    assert (G1 : Rabs (a' - a) * Rabs b' <= (th j * Rabs a + kap) * ((1 + th k) * Rabs b)).
    { apply Rmult_le_compat; lra. }
    assert (G2 : Rabs a * Rabs (b' - b) <= Rabs a * (th k * Rabs b))
      by (apply Rmult_le_compat_l; lra).
    nra.
  Qed.

  Lemma rel_rn_th : forall j x x' kap,
      Rabs (x' - x) <= th j * Rabs x + kap ->
      Rabs (rn x' - x) <= th (S j) * Rabs x + (1 + uu) * kap + ee.
  Proof.
    intros j x x' kap Hx. pose proof (rn_err emin prec x') as E.
    assert (Hx' : Rabs x' <= (1 + th j) * Rabs x + kap).
    { replace x' with (x + (x' - x)) at 1 by ring. pose proof (Rabs_triang x (x' - x)). lra. }
    replace (rn x' - x) with ((rn x' - x') + (x' - x)) by ring.
    pose proof (Rabs_triang (rn x' - x') (x' - x)) as T. rewrite theta_S.
    pose proof (u_pos prec) as Hu.
    assert (H1 : uu * Rabs x' <= uu * ((1 + th j) * Rabs x + kap))
      by (apply Rmult_le_compat_l; lra).
    nra.
  Qed.

  (** ** one term *)

  Definition mse_kappa : R := ee * ((1 + uu) ^ 2 + 1).

  Lemma mse_term_err : forall (N : nat) t y,
      (1 <= N)%nat -> fmt (INR N) -> bpow radix2 (emin + prec - 1) <= / INR N ->
      fmt t -> fmt y ->
      let s := fdiv O (f1 O) (fofnat O N) in
      let E := (t - y) * (t - y) / INR N in
      fmt (mse_term O s t y) /\
      Rabs (mse_term O s t y - E) <= th 5 * Rabs E + mse_kappa.
  Proof.
    intros N t y HN FN HNn Ft Fy s E. split; [apply (rn_fmt emin prec)|].
    assert (HN1 : 1 <= INR N) by (apply (le_INR 1); exact HN).
    assert (HiN : 0 < / INR N <= 1).
    { split; [apply Rinv_0_lt_compat; lra|]. rewrite <- Rinv_1. apply Rinv_le_contravar; lra. }
    (* the scale factor *)
    assert (Hs : Rabs (s - / INR N) <= th 1 * Rabs (/ INR N)).
    { unfold s. cbn [fdiv f1 fofnat rounded_ops]. rewrite (rn_id emin prec _ FN).
      unfold Rdiv. rewrite Rmult_1_l, (theta_1 prec). apply (rn_err_normal emin prec).
      unfold no_uflow. right. rewrite Rabs_pos_eq by lra. exact HNn. }
    (* the difference *)
    assert (Hm1 : fmul O y (m1 O) = - y).
    { unfold m1. cbn [fmul fneg f1 rounded_ops].
      replace (y * - (1)) with (- y) by ring. apply (rn_id emin prec). apply fmt_opp. exact Fy. }
    set (d := fadd O t (fmul O y (m1 O))).
    assert (Hd : Rabs (d - (t - y)) <= th 1 * Rabs (t - y) + 0).
    { unfold d. rewrite Hm1, (theta_1 prec), Rplus_0_r.
      destruct (fadd_err emin prec t (- y) Ft (fmt_opp emin prec y Fy)) as [_ H]. exact H. }
    assert (Hd0 : Rabs (d - (t - y)) <= th 1 * Rabs (t - y)) by lra.
    (* the square *)
    assert (Htwo : two O = 1 + 1).
    { unfold two. cbn [fadd f1 rounded_ops]. apply (rn_id emin prec). exact fmt_2. }
    assert (Hq : mse_term O s t y = rn (rn (d * d) * s)).
    { unfold mse_term. fold d. rewrite Htwo. cbn [fmul fpow rounded_ops].
      pose proof (R_pow_two d) as P. unfold two in P. cbn [fadd fmul fpow f1 R_ops] in P.
      rewrite P. reflexivity. }
    rewrite Hq.
    pose proof (rel_mul_th 1 1 (t - y) d (t - y) d 0 (Rle_refl 0) Hd Hd0) as Hdd.
    rewrite Rmult_0_l, Rmult_0_l, Rplus_0_r in Hdd. cbn [Nat.add] in Hdd.
    assert (Hdd' : Rabs (d * d - (t - y) * (t - y)) <= th 2 * Rabs ((t - y) * (t - y)) + 0) by lra.
    pose proof (rel_rn_th 2 _ _ 0 Hdd') as Hq1. rewrite Rmult_0_r, Rplus_0_r in Hq1.
    pose proof (rel_mul_th 3 1 _ _ _ _ ee (Rlt_le _ _ (eta_pos emin)) Hq1 Hs) as Hqs.
    cbn [Nat.add] in Hqs.
    pose proof (rel_rn_th 4 _ _ _ Hqs) as He.
    fold (Rdiv ((t - y) * (t - y)) (INR N)) in He. fold E in He.
    eapply Rle_trans; [exact He|].
    unfold mse_kappa. rewrite (theta_1 prec), (Rabs_pos_eq (/ INR N)) by lra.
    pose proof (u_pos prec) as Hu. pose proof (eta_pos emin) as Hee.
    assert (H1 : ee * (1 + uu) * / INR N <= ee * (1 + uu) * 1)
      by (apply Rmult_le_compat_l; [apply Rmult_le_pos; lra|lra]).
    assert (H2 : (1 + uu) * (ee * (1 + uu) * / INR N) <= (1 + uu) * (ee * (1 + uu) * 1))
      by (apply Rmult_le_compat_l; lra).
    cbn [pow]. lra.
  Qed.

  (** ** the array-level statement *)

  Definition mse_terms (t y : arr R) : list R :=
    map (fun j => (nth j (vals t) 0 - nth j (vals y) 0) * (nth j (vals t) 0 - nth j (vals y) 0)
                  / INR (prod (dims y)))
        (seq 0 (prod (dims y))).
  Definition mse_exact (t y : arr R) : R := rsum (mse_terms t y).

  Lemma mse_terms_nonneg : forall t y, (1 <= prod (dims y))%nat ->
      map Rabs (mse_terms t y) = mse_terms t y.
  Proof.
    intros t y HN. unfold mse_terms. rewrite map_map. apply map_ext. intros j.
    apply Rabs_pos_eq. apply Rmult_le_pos; [apply Rle_0_sqr|].
    apply Rlt_le, Rinv_0_lt_compat. apply (lt_INR 0). lia.
  Qed.

  Lemma mse_exact_nonneg : forall t y, (1 <= prod (dims y))%nat -> 0 <= mse_exact t y.
  Proof.
    intros t y HN. unfold mse_exact. rewrite <- (mse_terms_nonneg t y HN). apply rsum_abs_nonneg.
  Qed.

  (** the model over the reals computes the mathematical mean squared error *)
  Lemma a_mse_real : forall (t y : arr R),
      wf t -> wf y -> dims t = dims y -> dims t <> [] ->
      a_mse R_ops t y = Some (mse_exact t y).
  Proof.
    intros t y Hwt Hwy Hd Hne. rewrite (a_mse_spec R_ops t y Hwt Hwy Hd Hne).
    f_equal. unfold mse_exact, mse_terms. f_equal. apply map_ext. intros j.
    unfold mse_term, m1. pose proof (R_pow_two (nth j (vals t) 0 + nth j (vals y) 0 * - (1))) as P.
    cbn [fmul fadd fpow fdiv fneg f0 f1 fofnat R_ops] in *. rewrite P. field.
    apply not_0_INR. destruct Hwy as [Hp _]. pose proof (prod_pos _ Hp). lia.
  Qed.

  Theorem mse_rounding : forall (t y : arr R),
      wf t -> wf y -> dims t = dims y -> dims t <> [] ->
      fmt_arr emin prec t -> fmt_arr emin prec y ->
      let N := prod (dims y) in
      fmt (INR N) -> bpow radix2 (emin + prec - 1) <= / INR N ->
      exists vf,
        a_mse O t y = Some vf /\ a_mse R_ops t y = Some (mse_exact t y) /\
        Rabs (vf - mse_exact t y)
        <= th (N + 4) * mse_exact t y + INR N * mse_kappa * (1 + uu) ^ (N - 1).
  Proof.
    intros t y Hwt Hwy Hd Hne Ft Fy N FN HNn.
    assert (HN : (1 <= N)%nat).
    { destruct Hwy as [Hp _]. pose proof (prod_pos _ Hp). unfold N. lia. }
    eexists. split; [apply (a_mse_spec O t y Hwt Hwy Hd Hne)|].
    split; [apply a_mse_real; assumption|]. fold N.
    set (s := fdiv O (f1 O) (fofnat O N)).
    set (e := map (fun j => mse_term O s (nth j (vals t) (f0 O)) (nth j (vals y) (f0 O))) (seq 0 N)).
    assert (Hterm : forall j, fmt (mse_term O s (nth j (vals t) 0) (nth j (vals y) 0)) /\
                              Rabs (mse_term O s (nth j (vals t) 0) (nth j (vals y) 0)
                                    - (nth j (vals t) 0 - nth j (vals y) 0)
                                      * (nth j (vals t) 0 - nth j (vals y) 0) / INR N)
                              <= th 5 * Rabs ((nth j (vals t) 0 - nth j (vals y) 0)
                                              * (nth j (vals t) 0 - nth j (vals y) 0) / INR N)
                                 + mse_kappa).
    { intros j. apply (mse_term_err N _ _ HN FN HNn); apply nth_fmt; assumption. }
    assert (Fe : Forall (fun x => fmt x) e).
    { unfold e. apply Forall_forall. intros v Hv. apply in_map_iff in Hv.
      destruct Hv as (j & <- & _). apply Hterm. }
    assert (Ce : close_terms prec 5 mse_kappa e (mse_terms t y)).
    { unfold e, mse_terms, close_terms. fold N. generalize (seq 0 N). intros l.
      induction l as [|j l IH]; cbn [map]; constructor; [apply Hterm|exact IH]. }
    assert (Hk : 0 <= mse_kappa).
    { unfold mse_kappa. pose proof (eta_pos emin). pose proof (pow1u_ge_1 prec 2). nra. }
    pose proof (vsum_close_terms emin prec 5 mse_kappa e _ Fe Ce Hk) as H. cbv zeta in H.
    assert (Hlen : length (mse_terms t y) = N)
      by (unfold mse_terms; rewrite map_length, seq_length; reflexivity).
    rewrite Hlen, (mse_terms_nonneg t y HN) in H. fold (mse_exact t y) in H.
    replace (N - 1 + 5)%nat with (N + 4)%nat in H by lia. exact H.
  Qed.

  Corollary mse_rounding_gamma : forall (t y : arr R),
      wf t -> wf y -> dims t = dims y -> dims t <> [] ->
      fmt_arr emin prec t -> fmt_arr emin prec y ->
      let N := prod (dims y) in
      fmt (INR N) -> bpow radix2 (emin + prec - 1) <= / INR N -> INR (N + 4) * uu < 1 ->
      exists vf,
        a_mse O t y = Some vf /\ a_mse R_ops t y = Some (mse_exact t y) /\
        Rabs (vf - mse_exact t y)
        <= ga (N + 4) * mse_exact t y + INR N * mse_kappa * (1 + ga (N - 1)).
  Proof.
    intros t y Hwt Hwy Hd Hne Ft Fy N FN HNn Hk.
    destruct (mse_rounding t y Hwt Hwy Hd Hne Ft Fy FN HNn) as (vf & H1 & H2 & B). fold N in B.
    exists vf. split; [exact H1|]. split; [exact H2|].
    assert (HN : (1 <= N)%nat).
    { destruct Hwy as [Hp _]. pose proof (prod_pos _ Hp). unfold N. lia. }
    pose proof (theta_le_gamma prec (N + 4) Hk) as G1.
    assert (Hk' : INR (N - 1) * uu < 1).
    { assert (INR (N - 1) <= INR (N + 4)) by (apply le_INR; lia).
      pose proof (u_pos prec). pose proof (pos_INR (N - 1)). nra. }
    pose proof (theta_le_gamma prec (N - 1) Hk') as G2. unfold theta in G2.
    pose proof (mse_exact_nonneg t y HN) as HM.
    assert (Hkap : 0 <= INR N * mse_kappa).
    { apply Rmult_le_pos; [apply pos_INR|]. unfold mse_kappa.
      pose proof (eta_pos emin). pose proof (pow1u_ge_1 prec 2). nra. }
    assert (H3 : th (N + 4) * mse_exact t y <= ga (N + 4) * mse_exact t y)
      by (apply Rmult_le_compat_r; lra).
    assert (H4 : INR N * mse_kappa * (1 + uu) ^ (N - 1) <= INR N * mse_kappa * (1 + ga (N - 1)))
      by (apply Rmult_le_compat_l; lra).
    lra.
  Qed.
End Mse.

(** * 3. Two formats on the same data *)

Section ComposeTwoFormats.
  Variables emin1 prec1 emin2 prec2 : Z.
  Context {Hprec1 : Prec_gt_0 prec1} {Hprec2 : Prec_gt_0 prec2}.
  Hypothesis Hp : (prec1 <= prec2)%Z.
  Hypothesis He : (emin2 <= emin1)%Z.
  (** the wide format's normal range contains the narrow format's *)
  Hypothesis Hn : (emin2 + prec2 <= emin1 + prec1)%Z.

  Notation O1 := (rounded_ops emin1 prec1).
  Notation O2 := (rounded_ops emin2 prec2).

  Lemma u_mono : u prec2 <= u prec1.
  Proof. unfold u. apply bpow_le. lia. Qed.

  Lemma nu_mono : forall k, INR k * u prec1 < 1 -> INR k * u prec2 < 1.
  Proof. intros k H. pose proof u_mono. pose proof (pos_INR k). nra. Qed.

  Lemma no_uflow_incl : forall x, no_uflow emin1 prec1 x -> no_uflow emin2 prec2 x.
  Proof.
    intros x [H|H]; [left; exact H|right].
    eapply Rle_trans; [|exact H]. apply bpow_le. lia.
  Qed.

  Theorem dense_two_formats : forall (x w b : arr R) (r n m : nat),
      wf x -> wf w -> wf b -> dims x = [r; n] -> dims w = [m; n] -> dims b = [m] ->
      fmt_arr emin1 prec1 b -> INR (S n) * u prec1 < 1 ->
      exists y1 y2,
        a_matmul O1 x false w true (Some b) = Some y1 /\
        a_matmul O2 x false w true (Some b) = Some y2 /\
        dims y1 = [r; m] /\ dims y2 = [r; m] /\
        forall i j, (i < r)%nat -> (j < m)%nat ->
          let bj := getd R_ops b [j] in
          let T := rsum (map Rabs (dense_terms x w i j n)) in
          exists v1 v2,
            get y1 [i; j] = Some v1 /\ get y2 [i; j] = Some v2 /\
            Rabs (v1 - v2)
            <= (gamma prec1 (S n) + gamma prec2 (S n)) * (Rabs bj + T)
               + INR n * (eta emin1 * (1 + gamma prec1 n) + eta emin2 * (1 + gamma prec2 n)) /\
            (Forall (no_uflow emin1 prec1) (dense_terms x w i j n) ->
             Rabs (v1 - v2) <= (gamma prec1 (S n) + gamma prec2 (S n)) * (Rabs bj + T)).
  Proof.
    intros x w b r n m Hwx Hww Hwb Ex Ew Eb Fb Hk.
    destruct (dense_rounding_gamma emin1 prec1 x w b r n m Hwx Hww Hwb Ex Ew Eb Fb Hk)
      as (y1 & yr & H1 & Hr & D1 & _ & V1).
    destruct (dense_rounding_gamma emin2 prec2 x w b r n m Hwx Hww Hwb Ex Ew Eb
                (fmt_arr_incl emin1 prec1 emin2 prec2 Hp He b Fb) (nu_mono _ Hk))
      as (y2 & yr' & H2 & Hr' & D2 & _ & V2).
    exists y1, y2. split; [exact H1|]. split; [exact H2|]. split; [exact D1|]. split; [exact D2|].
    intros i j Hi Hj bj T.
    destruct (V1 i j Hi Hj) as (v1 & G1 & _ & B1 & B1').
    destruct (V2 i j Hi Hj) as (v2 & G2 & _ & B2 & B2').
    exists v1, v2. split; [exact G1|]. split; [exact G2|]. fold bj T in B1, B1', B2, B2'.
    split.
    - pose proof (tri v1 v2 _ _ _ B1 B2). lra.
    - intros Hno. specialize (B1' Hno).
      assert (Hno2 : Forall (no_uflow emin2 prec2) (dense_terms x w i j n)).
      { eapply Forall_impl; [|exact Hno]. apply no_uflow_incl. }
      specialize (B2' Hno2). pose proof (tri v1 v2 _ _ _ B1' B2'). lra.
  Qed.

  Theorem mse_two_formats : forall (t y : arr R),
      (emin1 <= 0)%Z ->
      wf t -> wf y -> dims t = dims y -> dims t <> [] ->
      fmt_arr emin1 prec1 t -> fmt_arr emin1 prec1 y ->
      let N := prod (dims y) in
      generic_format radix2 (FLT_exp emin1 prec1) (INR N) ->
      bpow radix2 (emin1 + prec1 - 1) <= / INR N -> INR (N + 4) * u prec1 < 1 ->
      exists v1 v2,
        a_mse O1 t y = Some v1 /\ a_mse O2 t y = Some v2 /\
        Rabs (v1 - v2)
        <= (gamma prec1 (N + 4) + gamma prec2 (N + 4)) * mse_exact t y
           + INR N * (mse_kappa emin1 prec1 * (1 + gamma prec1 (N - 1))
                      + mse_kappa emin2 prec2 * (1 + gamma prec2 (N - 1))).
  Proof.
    intros t y Hemin Hwt Hwy Hd Hne Ft Fy N FN HNn Hk.
    destruct (mse_rounding_gamma emin1 prec1 Hemin t y Hwt Hwy Hd Hne Ft Fy FN HNn Hk)
      as (v1 & H1 & _ & B1).
    assert (Hemin2 : (emin2 <= 0)%Z) by lia.
    assert (HNn2 : bpow radix2 (emin2 + prec2 - 1) <= / INR N).
    { eapply Rle_trans; [|exact HNn]. apply bpow_le. lia. }
    destruct (mse_rounding_gamma emin2 prec2 Hemin2 t y Hwt Hwy Hd Hne
                (fmt_arr_incl emin1 prec1 emin2 prec2 Hp He t Ft)
                (fmt_arr_incl emin1 prec1 emin2 prec2 Hp He y Fy)
                (fmt_incl emin1 prec1 emin2 prec2 Hp He _ FN) HNn2 (nu_mono _ Hk))
      as (v2 & H2 & _ & B2).
    exists v1, v2. split; [exact H1|]. split; [exact H2|]. fold N in B1, B2.
    pose proof (tri v1 v2 _ _ _ B1 B2). lra.
  Qed.
End ComposeTwoFormats.

(** * binary32 against binary64 *)

Local Instance prec24_gt_0' : Prec_gt_0 24 := eq_refl.
Local Instance prec53_gt_0' : Prec_gt_0 53 := eq_refl.

(** C19 for a dense layer: the single-precision output against the double-precision output *)
Theorem dense_f32_f64 : forall (x w b : arr R) (r n m : nat),
    wf x -> wf w -> wf b -> dims x = [r; n] -> dims w = [m; n] -> dims b = [m] ->
    fmt_arr (-149) 24 b -> (Z.of_nat (S n) < 16777216)%Z ->
    exists y32 y64,
      a_matmul binary32_ops x false w true (Some b) = Some y32 /\
      a_matmul binary64_ops x false w true (Some b) = Some y64 /\
      dims y32 = [r; m] /\ dims y64 = [r; m] /\
      forall i j, (i < r)%nat -> (j < m)%nat ->
        let bj := getd R_ops b [j] in
        let T := rsum (map Rabs (dense_terms x w i j n)) in
        exists v32 v64,
          get y32 [i; j] = Some v32 /\ get y64 [i; j] = Some v64 /\
          Rabs (v32 - v64)
          <= (gamma 24 (S n) + gamma 53 (S n)) * (Rabs bj + T)
             + INR n * (eta (-149) * (1 + gamma 24 n) + eta (-1074) * (1 + gamma 53 n)) /\
          (Forall (no_uflow (-149) 24) (dense_terms x w i j n) ->
           Rabs (v32 - v64) <= (gamma 24 (S n) + gamma 53 (S n)) * (Rabs bj + T)).
Proof.
  intros x w b r n m Hwx Hww Hwb Ex Ew Eb Fb Hk.
  exact (dense_two_formats (-149) 24 (-1074) 53 ltac:(lia) ltac:(lia) ltac:(lia)
                           x w b r n m Hwx Hww Hwb Ex Ew Eb Fb (nu32_lt_1 _ Hk)).
Qed.

(** side conditions of the MSE theorems, for binary32: fewer than [2^24 - 4] elements *)
Lemma mse_side_f32 : forall N, (1 <= N)%nat -> (Z.of_nat N + 4 < 16777216)%Z ->
    generic_format radix2 (FLT_exp (-149) 24) (INR N) /\
    bpow radix2 (-149 + 24 - 1) <= / INR N /\
    INR (N + 4) * u 24 < 1.
Proof.
  intros N HN Hlt. split; [|split].
  - apply (fmt_INR (-149) 24); lia.
  - apply Rle_trans with (bpow radix2 (-24)); [apply bpow_le; lia|].
    change (bpow radix2 (-24)) with (/ 16777216).
    assert (0 < INR N) by (apply (lt_INR 0); lia).
    apply Rinv_le_contravar; [assumption|].
    rewrite INR_IZR_INZ. apply IZR_le. lia.
  - apply nu32_lt_1. rewrite Nat2Z.inj_add. cbn. lia.
Qed.

(** C19 for the mean squared error *)
Theorem mse_f32_f64 : forall (t y : arr R),
    wf t -> wf y -> dims t = dims y -> dims t <> [] ->
    fmt_arr (-149) 24 t -> fmt_arr (-149) 24 y ->
    let N := prod (dims y) in
    (Z.of_nat N + 4 < 16777216)%Z ->
    exists v32 v64,
      a_mse binary32_ops t y = Some v32 /\ a_mse binary64_ops t y = Some v64 /\
      Rabs (v32 - v64)
      <= (gamma 24 (N + 4) + gamma 53 (N + 4)) * mse_exact t y
         + INR N * (mse_kappa (-149) 24 * (1 + gamma 24 (N - 1))
                    + mse_kappa (-1074) 53 * (1 + gamma 53 (N - 1))).
Proof.
  intros t y Hwt Hwy Hd Hne Ft Fy N Hlt.
  assert (HN : (1 <= N)%nat).
  { destruct Hwy as [Hpd _]. pose proof (prod_pos _ Hpd). unfold N. lia. }
  destruct (mse_side_f32 N HN Hlt) as (FN & HNn & Hk).
  exact (mse_two_formats (-149) 24 (-1074) 53 ltac:(lia) ltac:(lia) ltac:(lia)
                         t y ltac:(lia) Hwt Hwy Hd Hne Ft Fy FN HNn Hk).
Qed.

(** * 4. Softmax with a libm [exp] of given relative accuracy

    The instance: rounded arithmetic, but [fexp] is an arbitrary function [fe] that returns
    representable numbers with [|fe x - exp x| <= eps * exp x] for every [x] in a domain
    [dom] that contains the data (no libm can satisfy this for ALL [x] with [eps < 1]: for
    very negative [x], [exp x] is below the smallest subnormal).  A faithful libm has [eps]
    about [2^(1-prec)]; the idealised correctly rounded [fexp] of [rounded_ops] has [eps = u]
    on [dom x := 2^(emin+prec-1) <= exp x] ([rounded_exp_ok], [softmax_rounding_ideal]). *)

Definition with_fexp {F : Type} (O : ScalarOps F) (fe : F -> F) : ScalarOps F := {|
  f0 := f0 O; f1 := f1 O; fadd := fadd O; fmul := fmul O; fsub := fsub O; fdiv := fdiv O;
  fneg := fneg O; fexp := fe; fln := fln O; fpow := fpow O; fgt0 := fgt0 O; feqb := feqb O;
  fofnat := fofnat O |}.

Section SoftmaxRounding.
  Variables emin prec : Z.
  Context {Hprec : Prec_gt_0 prec}.
  Variable fe : R -> R.
  Variable eps : R.
  Variable dom : R -> Prop.
  Hypothesis Heps : 0 <= eps < 1.
  Hypothesis fe_fmt : forall x, generic_format radix2 (FLT_exp emin prec) (fe x).
  Hypothesis fe_err : forall x, dom x -> Rabs (fe x - exp x) <= eps * exp x.

  Notation fmt := (generic_format radix2 (FLT_exp emin prec)).
  Notation rn := (rnd emin prec).
  Notation O := (rounded_ops emin prec).
  Notation OE := (with_fexp (rounded_ops emin prec) fe).
  Notation uu := (u prec).
  Notation ee := (eta emin).
  Notation th := (theta prec).

  Lemma fe_bounds : forall x, dom x -> (1 - eps) * exp x <= fe x <= (1 + eps) * exp x.
  Proof. intros x Hx. pose proof (fe_err x Hx) as H. apply Rabs_le_inv in H. lra. Qed.

  Lemma fe_pos : forall x, dom x -> 0 < fe x.
  Proof.
    intros x Hx. pose proof (fe_bounds x Hx) as [H _]. pose proof (exp_pos x).
    assert (0 < (1 - eps) * exp x) by (apply Rmult_lt_0_compat; lra). lra.
  Qed.

  Lemma fe_sum_bounds : forall row, Forall dom row ->
      (1 - eps) * rsum (map exp row) <= rsum (map fe row) <= (1 + eps) * rsum (map exp row) /\
      map Rabs (map fe row) = map fe row.
  Proof.
    intros row Hd. induction Hd as [|x row Hx _ [IH IA]]; cbn [map].
    - rewrite !rsum_nil. split; [lra|reflexivity].
    - rewrite !rsum_cons. pose proof (fe_bounds x Hx). split; [lra|].
      rewrite IA, (Rabs_pos_eq (fe x)) by (apply Rlt_le, fe_pos; exact Hx). reflexivity.
  Qed.

  (** relative error of one softmax output over a row of [n] elements *)
  Definition softmax_rho (n : nat) : R := (1 + eps) / ((1 - eps) * (1 - th (n - 1))) - 1.
  Definition softmax_rel (n : nat) : R := (1 + uu) * (1 + softmax_rho n) - 1.

  Lemma two_le_sum : forall lo hi, 0 < lo -> 0 < hi -> 1 <= lo * hi -> 2 <= lo + hi.
  Proof.
    intros lo hi H1 H2 H3. destruct (Rle_lt_dec 2 (lo + hi)) as [H|H]; [exact H|]. exfalso.
    assert (H4 : (lo + hi) * (lo + hi) < 2 * 2) by (apply Rmult_le_0_lt_compat; lra).
    pose proof (Rle_0_sqr (lo - hi)) as H5. unfold Rsqr in H5. nra.
  Qed.

  Lemma softmax_elem_err : forall (row : list R) (x : R),
      row <> [] -> th (length row - 1) < 1 -> Forall dom row -> dom x ->
      let n := length row in
      let Z := rsum (map exp row) in
      let S := vsum O (map fe row) in
      let sigma := exp x / Z in
      0 < Z /\ 0 < S /\ 0 < sigma /\ 0 <= softmax_rho n /\
      Rabs (fe x / S - sigma) <= softmax_rho n * sigma /\
      Rabs (rn (fe x / S) - sigma) <= softmax_rel n * sigma + ee.
  Proof.
    intros row x Hne Hth Hdr Hdx n Z S sigma.
    set (t := th (n - 1)) in *. pose proof (theta_nonneg prec (n - 1)) as Ht0. fold t in Ht0.
    assert (Ht1 : t < 1) by exact Hth.
    destruct (RealDerivs.softmax_row_sum row Hne) as [HZ _]. cbv zeta in HZ.
    change (vsum R_ops (map (fexp R_ops) row)) with Z in HZ.
    destruct (fe_sum_bounds row Hdr) as [[HP1 HP2] HPA].
    set (P := rsum (map fe row)) in *. fold Z in HP1, HP2.
    assert (FP : Forall (fun v => fmt v) (map fe row)).
    { apply Forall_forall. intros v Hv. apply in_map_iff in Hv. destruct Hv as (w & <- & _).
      apply fe_fmt. }
    destruct (vsum_err emin prec (map fe row) FP) as [_ HS].
    rewrite map_length, HPA in HS. fold n t P S in HS.
    apply Rabs_le_inv in HS.
    set (L := (1 - eps) * (1 - t)). set (U := (1 + eps) * (1 + t)).
    assert (HL : 0 < L) by (apply Rmult_lt_0_compat; lra).
    assert (HU : 0 < U) by (apply Rmult_lt_0_compat; lra).
    assert (HP0 : 0 < P).
    { assert (0 < (1 - eps) * Z) by (apply Rmult_lt_0_compat; lra). lra. }
    assert (HSl : L * Z <= S).
    { unfold L. assert ((1 - t) * ((1 - eps) * Z) <= (1 - t) * P)
        by (apply Rmult_le_compat_l; lra). nra. }
    assert (HSu : S <= U * Z).
    { unfold U. assert ((1 + t) * P <= (1 + t) * ((1 + eps) * Z))
        by (apply Rmult_le_compat_l; lra). nra. }
    assert (HS0 : 0 < S).
    { assert (0 < L * Z) by (apply Rmult_lt_0_compat; lra). lra. }
    pose proof (exp_pos x) as Ha. pose proof (fe_bounds x Hdx) as [Hf1 Hf2]. pose proof (fe_pos x Hdx) as Hf0.
    assert (Hsig : 0 < sigma) by (unfold sigma; apply Rdiv_lt_0_compat; assumption).
    set (hi := (1 + eps) / L). set (lo := (1 - eps) / U).
    assert (Hhi : 0 < hi) by (unfold hi; apply Rdiv_lt_0_compat; lra).
    assert (Hlo : 0 < lo) by (unfold lo; apply Rdiv_lt_0_compat; lra).
    assert (Hrho : softmax_rho n = hi - 1) by reflexivity.
    (* upper and lower bounds of the quotient *)
    assert (Hq_hi : fe x / S <= hi * sigma).
    { unfold hi, sigma. apply (Rmult_le_reg_r (S * (L * Z))); [apply Rmult_lt_0_compat; nra|].
      replace (fe x / S * (S * (L * Z))) with (fe x * (L * Z)) by (field; lra).
      replace ((1 + eps) / L * (exp x / Z) * (S * (L * Z))) with ((1 + eps) * exp x * S)
        by (field; lra).
      apply Rmult_le_compat; nra. }
    assert (Hq_lo : lo * sigma <= fe x / S).
    { unfold lo, sigma. apply (Rmult_le_reg_r (S * (U * Z))); [apply Rmult_lt_0_compat; nra|].
      replace (fe x / S * (S * (U * Z))) with (fe x * (U * Z)) by (field; lra).
      replace ((1 - eps) / U * (exp x / Z) * (S * (U * Z))) with ((1 - eps) * exp x * S)
        by (field; lra).
      apply Rmult_le_compat; nra. }
    assert (Hlohi : 1 <= lo * hi).
    { replace (lo * hi) with (/ ((1 + t) * (1 - t))) by (unfold lo, hi, L, U; field; lra).
      rewrite <- Rinv_1 at 1. apply Rinv_le_contravar; [apply Rmult_lt_0_compat; lra|nra]. }
    pose proof (two_le_sum lo hi Hlo Hhi Hlohi) as H2.
    assert (Hrho0 : 0 <= softmax_rho n).
    { rewrite Hrho. assert (lo <= 1).
      { unfold lo. apply (Rmult_le_reg_r U); [exact HU|].
        replace ((1 - eps) / U * U) with (1 - eps) by (field; lra). unfold U. nra. }
      lra. }
    assert (Hq : Rabs (fe x / S - sigma) <= softmax_rho n * sigma).
    { rewrite Hrho. apply Rabs_le. split; nra. }
    split; [exact HZ|]. split; [exact HS0|]. split; [exact Hsig|]. split; [exact Hrho0|].
    split; [exact Hq|].
    pose proof (rn_err emin prec (fe x / S)) as Hr.
    assert (Hqa : Rabs (fe x / S) <= (1 + softmax_rho n) * sigma).
    { rewrite Rabs_pos_eq by (apply Rlt_le, Rdiv_lt_0_compat; assumption). rewrite Hrho. nra. }
    replace (rn (fe x / S) - sigma) with ((rn (fe x / S) - fe x / S) + (fe x / S - sigma)) by ring.
    pose proof (Rabs_triang (rn (fe x / S) - fe x / S) (fe x / S - sigma)) as Tr.
    unfold softmax_rel. pose proof (u_pos prec) as Hu.
    assert (H3 : uu * Rabs (fe x / S) <= uu * ((1 + softmax_rho n) * sigma))
      by (apply Rmult_le_compat_l; lra).
    nra.
  Qed.

  Lemma sum_rel_abs : forall (c k : R) (f g : R -> R) (l : list R),
      (forall v, In v l -> Rabs (f v - g v) <= c * g v + k) ->
      Rabs (rsum (map f l) - rsum (map g l)) <= c * rsum (map g l) + INR (length l) * k.
  Proof.
    intros c k f g l. induction l as [|v l IH]; intros H.
    - cbn [map length INR]. rewrite !rsum_nil, Rminus_0_r, Rabs_R0. lra.
    - cbn [map length]. rewrite S_INR, !rsum_cons.
      replace (f v + rsum (map f l) - (g v + rsum (map g l)))
        with ((f v - g v) + (rsum (map f l) - rsum (map g l))) by ring.
      pose proof (Rabs_triang (f v - g v) (rsum (map f l) - rsum (map g l))) as Tr.
      pose proof (H v (or_introl eq_refl)). specialize (IH (fun w Hw => H w (or_intror Hw))). lra.
  Qed.

  (** the model's [softmax] at the instance with libm [fe], against the model over the reals:
      every output within relative [softmax_rel n] (plus one underflow unit) of the exact
      softmax value, and every row summing to one within [softmax_rel n + n * eta] *)
  Theorem softmax_rounding : forall (a : arr R) lead n,
      wf a -> dims a = lead ++ [n] -> th (n - 1) < 1 -> Forall dom (vals a) ->
      exists cf cr,
        a_softmax OE a = Some cf /\ a_softmax R_ops a = Some cr /\ dims cf = dims cr /\
        (forall J i, in_range J lead -> (i < n)%nat ->
           exists vf vr,
             get cf (J ++ [i]) = Some vf /\ get cr (J ++ [i]) = Some vr /\ 0 < vr /\
             Rabs (vf - vr) <= softmax_rel n * vr + ee) /\
        (forall J, in_range J lead ->
           exists rowf,
             map Some rowf = map (fun i => get cf (J ++ [i])) (seq 0 n) /\
             Rabs (rsum rowf - 1) <= softmax_rel n + INR n * ee).
  Proof.
    intros a lead n Hwa Ed Hth Hda.
    destruct (a_softmax_spec OE a lead n Hwa Ed) as (cf & Hcf & _ & Dcf & Vcf).
    destruct (a_softmax_spec R_ops a lead n Hwa Ed) as (cr & Hcr & _ & Dcr & Vcr).
    destruct (wf_snoc a lead n Hwa Ed) as (Hpl & Hn & Hva).
    assert (Hblk : forall J, in_range J lead -> length (block n (rowmajor lead J) (vals a)) = n).
    { intros J HJ. apply (block_length _ _ (prod lead)); [exact Hva|].
      apply rowmajor_lt_prod. exact HJ. }
    assert (Hne : forall J, in_range J lead -> block n (rowmajor lead J) (vals a) <> []).
    { intros J HJ E. pose proof (Hblk J HJ) as L. rewrite E in L. cbn in L. lia. }
    assert (Hdb : forall J, Forall dom (block n (rowmajor lead J) (vals a))).
    { intros J. unfold block. apply Forall_firstn, Forall_skipn. exact Hda. }
    exists cf, cr. split; [exact Hcf|]. split; [exact Hcr|]. split; [congruence|].
    assert (Helem : forall J i, in_range J lead -> (i < n)%nat ->
              exists x, get a (J ++ [i]) = Some x /\
                let blk := block n (rowmajor lead J) (vals a) in
                get cf (J ++ [i]) = Some (rn (fe x / vsum O (map fe blk))) /\
                get cr (J ++ [i]) = Some (exp x / rsum (map exp blk))).
    { intros J i HJ Hi. destruct (Vcf J i HJ Hi) as (x & Gx & Gf).
      destruct (Vcr J i HJ Hi) as (x' & Gx' & Gr). assert (x' = x) by congruence. subst x'.
      exists x. split; [exact Gx|]. split; [exact Gf|exact Gr]. }
    split.
    - intros J i HJ Hi. destruct (Helem J i HJ Hi) as (x & Gx & Gf & Gr). cbv zeta in Gf, Gr.
      eexists. eexists. split; [exact Gf|]. split; [exact Gr|].
      assert (Hdx : dom x).
      { unfold get in Gx. apply nth_error_In in Gx. exact (proj1 (Forall_forall _ _) Hda x Gx). }
      pose proof (softmax_elem_err _ x (Hne J HJ)) as H. rewrite (Hblk J HJ) in H.
      destruct (H Hth (Hdb J) Hdx) as (_ & _ & Hs & _ & _ & Hb). split; [exact Hs|exact Hb].
    - intros J HJ.
      assert (HlenJ : length J = length lead) by (eapply Forall2_len; exact HJ).
      set (blk := block n (rowmajor lead J) (vals a)).
      assert (Hb : length blk = n) by (apply Hblk; exact HJ).
      set (S := vsum O (map fe blk)). set (Z := rsum (map exp blk)).
      exists (map (fun v => rn (fe v / S)) blk). split.
      + rewrite <- (RealDerivs.map_nth_seq blk 0) at 1. rewrite Hb, !map_map.
        apply map_ext_in. intros i Hi. apply in_seq in Hi.
        destruct (Helem J i HJ ltac:(lia)) as (x & Gx & Gf & _). cbv zeta in Gf.
        fold blk in Gf. fold S in Gf. rewrite Gf. f_equal. f_equal. f_equal. f_equal.
        pose proof (row_get a lead n J i Ed HlenJ ltac:(lia)) as Hr. fold blk in Hr.
        rewrite Gx in Hr. apply nth_error_nth. exact Hr.
      + destruct (RealDerivs.softmax_row_sum blk (Hne J HJ)) as [_ H1]. cbv zeta in H1.
        change (vsum R_ops (map (fun v => fdiv R_ops (fexp R_ops v)
                                               (vsum R_ops (map (fexp R_ops) blk))) blk))
          with (rsum (map (fun v => exp v / Z) blk)) in H1.
        pose proof (sum_rel_abs (softmax_rel n) ee (fun v => rn (fe v / S))
                                (fun v => exp v / Z) blk) as H.
        rewrite H1, Hb, Rmult_1_r in H. apply H. intros v Hv.
        pose proof (softmax_elem_err blk v (Hne J HJ)) as G. rewrite Hb in G.
        destruct (G Hth (Hdb J) (proj1 (Forall_forall _ _) (Hdb J) v Hv))
          as (_ & _ & _ & _ & _ & G'). exact G'.
  Qed.
End SoftmaxRounding.

(** the idealised [fexp] of [rounded_ops] meets the hypotheses of the section with [eps = u]
    on the inputs whose exponential is in the normal range *)
Section SoftmaxIdeal.
  Variables emin prec : Z.
  Context {Hprec : Prec_gt_0 prec}.

  Definition exp_normal (x : R) : Prop := bpow radix2 (emin + prec - 1) <= exp x.

  Lemma u_lt_1 : u prec < 1.
  Proof. unfold u. change 1 with (bpow radix2 0). apply bpow_lt. unfold Prec_gt_0 in Hprec. lia. Qed.

  Lemma rounded_exp_ok :
      0 <= u prec < 1 /\
      (forall x, generic_format radix2 (FLT_exp emin prec) (fexp (rounded_ops emin prec) x)) /\
      (forall x, exp_normal x ->
                 Rabs (fexp (rounded_ops emin prec) x - exp x) <= u prec * exp x).
  Proof.
    split; [split; [apply Rlt_le, u_pos|apply u_lt_1]|]. split.
    - intros x. apply (rn_fmt emin prec).
    - intros x Hx. cbn [fexp rounded_ops].
      pose proof (rn_err_normal emin prec (exp x)) as H.
      rewrite (Rabs_pos_eq (exp x)) in H by (apply Rlt_le, exp_pos). apply H.
      right. rewrite Rabs_pos_eq by (apply Rlt_le, exp_pos). exact Hx.
  Qed.

  Theorem softmax_rounding_ideal : forall (a : arr R) lead n,
      wf a -> dims a = lead ++ [n] -> theta prec (n - 1) < 1 -> Forall exp_normal (vals a) ->
      exists cf cr,
        a_softmax (rounded_ops emin prec) a = Some cf /\ a_softmax R_ops a = Some cr /\
        dims cf = dims cr /\
        (forall J i, in_range J lead -> (i < n)%nat ->
           exists vf vr,
             get cf (J ++ [i]) = Some vf /\ get cr (J ++ [i]) = Some vr /\ 0 < vr /\
             Rabs (vf - vr) <= softmax_rel prec (u prec) n * vr + eta emin) /\
        (forall J, in_range J lead ->
           exists rowf,
             map Some rowf = map (fun i => get cf (J ++ [i])) (seq 0 n) /\
             Rabs (rsum rowf - 1) <= softmax_rel prec (u prec) n + INR n * eta emin).
  Proof.
    intros a lead n Hwa Ed Hth Hd. destruct rounded_exp_ok as (H1 & H2 & H3).
    exact (softmax_rounding emin prec (fexp (rounded_ops emin prec)) (u prec) exp_normal
                            H1 H2 H3 a lead n Hwa Ed Hth Hd).
  Qed.
End SoftmaxIdeal.

(** * Non-vacuity: concrete binary32 instances of moderate magnitude *)

Lemma fmt32_small_int : forall z, (Z.abs z < 16777216)%Z ->
    generic_format radix2 (FLT_exp (-149) 24) (IZR z).
Proof. intros z Hz. apply (fmt_IZR (-149) 24); [lia|exact Hz]. Qed.

Lemma bpow_m126_le_1 : bpow radix2 (-149 + 24 - 1) <= 1.
Proof. change 1 with (bpow radix2 0). apply bpow_le. lia. Qed.

(** dense layer [[1 2]] * [[3 4]]^T + [5] = [[16]] *)
Example dense_f32_example :
  let x := {| dims := [1; 2]%nat; vals := [1; 2] |} in
  let w := {| dims := [1; 2]%nat; vals := [3; 4] |} in
  let b := {| dims := [1]%nat; vals := [5] |} in
  exists y32 y64 yr v32 v64,
    a_matmul binary32_ops x false w true (Some b) = Some y32 /\
    a_matmul binary64_ops x false w true (Some b) = Some y64 /\
    a_matmul R_ops x false w true (Some b) = Some yr /\
    get yr [0; 0]%nat = Some 16 /\
    get y32 [0; 0]%nat = Some v32 /\ get y64 [0; 0]%nat = Some v64 /\
    Rabs (v32 - 16) <= gamma 24 3 * 16 /\
    Rabs (v32 - v64) <= (gamma 24 3 + gamma 53 3) * 16.
Proof.
  intros x w b.
  assert (Hwx : wf x) by (split; cbn; [repeat constructor|reflexivity]).
  assert (Hww : wf w) by (split; cbn; [repeat constructor|reflexivity]).
  assert (Hwb : wf b) by (split; cbn; [repeat constructor|reflexivity]).
  assert (Fb : fmt_arr (-149) 24 b).
  { unfold fmt_arr, b. cbn [vals]. constructor; [|constructor]. apply (fmt32_small_int 5). lia. }
  assert (Hk : (Z.of_nat 3 < 16777216)%Z) by (cbn; lia).
  destruct (dense_rounding_gamma (-149) 24 x w b 1 2 1 Hwx Hww Hwb eq_refl eq_refl eq_refl Fb
                                 (nu32_lt_1 _ Hk)) as (y32 & yr & H32 & Hr & _ & _ & V1).
  destruct (dense_f32_f64 x w b 1 2 1 Hwx Hww Hwb eq_refl eq_refl eq_refl Fb Hk)
    as (y32' & y64 & H32' & H64 & _ & _ & V2).
  assert (y32' = y32) by (unfold binary32_ops in H32'; congruence). subst y32'.
  destruct (V1 0%nat 0%nat ltac:(lia) ltac:(lia)) as (v32 & G32 & Gr & _ & B1).
  destruct (V2 0%nat 0%nat ltac:(lia) ltac:(lia)) as (v32' & v64 & G32' & G64 & _ & B2).
  assert (v32' = v32) by congruence. subst v32'. cbv zeta in *.
  assert (Et : dense_terms x w 0 0 2 = [1 * 3; 2 * 4]) by reflexivity.
  assert (Eb : getd R_ops b [0%nat] = 5) by reflexivity.
  rewrite Et, Eb in *.
  assert (Hno : Forall (no_uflow (-149) 24) [1 * 3; 2 * 4]).
  { pose proof bpow_m126_le_1.
    constructor; [|constructor; [|constructor]]; right; rewrite Rabs_pos_eq by lra; lra. }
  specialize (B1 Hno). specialize (B2 Hno).
  assert (ET : Rabs 5 + rsum (map Rabs [1 * 3; 2 * 4]) = 16).
  { unfold vsum. cbn. rewrite !Rabs_pos_eq by lra. lra. }
  assert (EX : 5 + rsum [1 * 3; 2 * 4] = 16) by (unfold vsum; cbn; lra).
  rewrite ET in B1, B2. rewrite EX in B1, Gr.
  exists y32, y64, yr, v32, v64.
  split; [exact H32|]. split; [exact H64|]. split; [exact Hr|]. split; [exact Gr|].
  split; [exact G32|]. split; [exact G64|]. split; [exact B1|exact B2].
Qed.

(** mean squared error of targets [1 2] against outputs [0 4]: [(1 + 4) / 2] *)
Example mse_f32_example :
  let t := {| dims := [2]%nat; vals := [1; 2] |} in
  let y := {| dims := [2]%nat; vals := [0; 4] |} in
  exists v32 v64,
    a_mse binary32_ops t y = Some v32 /\ a_mse binary64_ops t y = Some v64 /\
    a_mse R_ops t y = Some (5 / 2) /\
    Rabs (v32 - 5 / 2) <= gamma 24 6 * (5 / 2) + 2 * mse_kappa (-149) 24 * (1 + gamma 24 1) /\
    Rabs (v32 - v64)
    <= (gamma 24 6 + gamma 53 6) * (5 / 2)
       + 2 * (mse_kappa (-149) 24 * (1 + gamma 24 1) + mse_kappa (-1074) 53 * (1 + gamma 53 1)).
Proof.
  intros t y.
  assert (Hwt : wf t) by (split; cbn; [repeat constructor|reflexivity]).
  assert (Hwy : wf y) by (split; cbn; [repeat constructor|reflexivity]).
  assert (Hne : dims t <> []) by discriminate.
  assert (Ft : fmt_arr (-149) 24 t).
  { unfold fmt_arr, t. cbn [vals]. repeat constructor; apply fmt32_small_int; lia. }
  assert (Fy : fmt_arr (-149) 24 y).
  { unfold fmt_arr, y. cbn [vals]. repeat constructor; apply fmt32_small_int; lia. }
  assert (Hlt : (Z.of_nat (prod (dims y)) + 4 < 16777216)%Z) by (cbn; lia).
  destruct (mse_side_f32 (prod (dims y)) ltac:(cbn; lia) Hlt) as (FN & HNn & Hk).
  destruct (mse_rounding_gamma (-149) 24 ltac:(lia) t y Hwt Hwy eq_refl Hne Ft Fy FN HNn Hk)
    as (v32 & H32 & Hr & B1).
  destruct (mse_f32_f64 t y Hwt Hwy eq_refl Hne Ft Fy Hlt) as (v32' & v64 & H32' & H64 & B2).
  assert (v32' = v32) by (unfold binary32_ops in H32'; congruence). subst v32'.
  assert (EM : mse_exact t y = 5 / 2).
  { unfold mse_exact, mse_terms, vsum. cbn. lra. }
  rewrite EM in *. change (prod (dims y)) with 2%nat in B1, B2.
  change (INR 2) with (1 + 1) in B1, B2. replace (1 + 1) with 2 in B1, B2 by lra.
  exists v32, v64. split; [exact H32|]. split; [exact H64|]. split; [exact Hr|].
  split; [exact B1|exact B2].
Qed.

(** softmax of the row [0 1] in binary32 with the correctly rounded [exp] *)
Example softmax_f32_example :
  let a := {| dims := [1; 2]%nat; vals := [0; 1] |} in
  exists cf v0 v1,
    a_softmax binary32_ops a = Some cf /\
    get cf [0; 0]%nat = Some v0 /\ get cf [0; 1]%nat = Some v1 /\
    Rabs (v0 - exp 0 / (exp 0 + exp 1))
    <= softmax_rel 24 (u 24) 2 * (exp 0 / (exp 0 + exp 1)) + eta (-149) /\
    Rabs (v0 + v1 - 1) <= softmax_rel 24 (u 24) 2 + 2 * eta (-149).
Proof.
  intros a.
  assert (Hwa : wf a) by (split; cbn; [repeat constructor|reflexivity]).
  assert (Hth : theta 24 (2 - 1) < 1).
  { cbn [Nat.sub]. rewrite (theta_1 24). apply (u_lt_1 24). }
  assert (Hd : Forall (exp_normal (-149) 24) (vals a)).
  { pose proof bpow_m126_le_1. unfold a. cbn [vals].
    constructor; [|constructor; [|constructor]]; unfold exp_normal.
    - rewrite exp_0. lra.
    - pose proof (exp_increasing 0 1 ltac:(lra)). rewrite exp_0 in *. lra. }
  destruct (softmax_rounding_ideal (-149) 24 a [1%nat] 2 Hwa eq_refl Hth Hd)
    as (cf & cr & Hcf & Hcr & _ & Ve & Vr).
  assert (R0 : in_range [0%nat] [1%nat]) by (constructor; [lia|constructor]).
  destruct (Ve [0%nat] 0%nat R0 ltac:(lia)) as (v0 & vr0 & G0 & Gr0 & _ & B0).
  destruct (Vr [0%nat] R0) as (rowf & Hm & Bs).
  cbn [seq map app] in Hm, G0, Gr0.
  destruct rowf as [|w0 [|w1 [|? ?]]]; try discriminate Hm.
  cbn [map] in Hm. inversion Hm as [[E0 E1]].
  assert (w0 = v0) by congruence. subst w0.
  (* the exact value of the first output *)
  destruct (a_softmax_spec R_ops a [1%nat] 2 Hwa eq_refl) as (cr' & Hcr' & _ & _ & Vcr).
  assert (cr' = cr) by congruence. subst cr'.
  destruct (Vcr [0%nat] 0%nat R0 ltac:(lia)) as (x0 & Gx0 & Gc0). cbn [app] in Gx0, Gc0.
  assert (x0 = 0) by (unfold get in Gx0; cbn in Gx0; congruence). subst x0.
  assert (Evr : vr0 = exp 0 / (exp 0 + exp 1)).
  { rewrite Gc0 in Gr0. inversion Gr0 as [E]. unfold vsum. cbn. f_equal. ring. }
  subst vr0.
  exists cf, v0, w1. split; [exact Hcf|]. split; [exact G0|]. split; [symmetry; exact E1|].
  split; [exact B0|].
  unfold vsum in Bs. cbn in Bs. replace (v0 + w1 - 1) with (0 + v0 + w1 - 1) by ring.
  replace 2 with (1 + 1) by lra. exact Bs.
Qed.

(** * Axioms used (all declared by Coq's standard library; none by this development) *)
Print Assumptions vsum_close_terms.
Print Assumptions dot_close_terms.
Print Assumptions dense_rounding.
Print Assumptions dense_rounding_gamma.
Print Assumptions a_mse_spec.
Print Assumptions a_mse_real.
Print Assumptions mse_rounding.
Print Assumptions mse_rounding_gamma.
Print Assumptions dense_two_formats.
Print Assumptions mse_two_formats.
Print Assumptions dense_f32_f64.
Print Assumptions mse_f32_f64.
Print Assumptions softmax_elem_err.
Print Assumptions softmax_rounding.
Print Assumptions softmax_rounding_ideal.
Print Assumptions dense_f32_example.
Print Assumptions mse_f32_example.
Print Assumptions softmax_f32_example.
