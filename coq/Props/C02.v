(** C02  Each operation's derivative equals its mathematical definition

    [local_identity O arity pre fwdD code]: for well-formed children cs, tangents ts of the children's
    dimensions, flags, a delta of the result's dimensions: if the forward operation run over dual numbers on the lifted
    children (an unflagged child is a constant: zero tangent) returns RD and the derivative closure [run_bop] returns
    ds, then every returned delta flattens to its child's dimensions and
        <delta, tangent RD> = sum over children <flatten_to d_i (dims c_i), t_i>,
    i.e. the delivered gradients are the transpose-Jacobian applied to the seed, where the Jacobian is the one of the
    dual-number (forward-mode) evaluation of the same operation.  All under [is_cring O] (a commutative ring of
    scalars); division, ln and reciprocal additionally use the scalar laws [Hdiv] (a / b = a * (1 / b)), [Hinv_mul]
    (1 / (a*b) = (1/a) * (1/b)) and [Hpow2] (x^2 = x*x), which hold for real numbers.  That the dual-number rules of
    the primitives are the mathematical derivatives is proved over the reals in Props/C02real.v.  Subtraction, axpy,
    softmax and convolution have no closure of their own in corgi: they are compositions of the nodes below
    (neg+add, scale+add, exp+sum+div, unroll+reshape+matmul+expand) and are covered through C01.

    Statements only: every theorem below is closed by [exact <lemma>]; the lemmas are proved in
    the files imported here.  Generated with tools/gen_props.py from the lemmas' own types. *)

From Coq Require Import List Arith Bool ZArith.
From Corgi Require Import Lib.OptionMonad Lib.Sums Model.Scalar Model.Arr Model.SlicedOp Model.Elementwise
     Model.Linalg Model.Image Proofs.ArrFacts Proofs.BroadcastDims Proofs.SpecDefs Proofs.SlicedOpSpec
     Proofs.EwSpec Proofs.ReduceSpec.
Import ListNotations.
From Corgi Require Import Model.Ops Proofs.FlattenSpec Proofs.MatmulSpec Proofs.DualLift Proofs.LocalAdjoint.

(** addition with arbitrary broadcasting and every flag combination *)
Theorem C02_add :
  forall (F : Type) (O0 : ScalarOps F),
         is_cring O0 ->
         local_identity O0 2 no_pre (fwd2 (a_add (dual_ops O0))) (fun (_ : list (arr F)) (_ : arr F) => BAdd).
Proof. exact @add_local. Qed.

(** multiplication with arbitrary broadcasting *)
Theorem C02_mul :
  forall (F : Type) (O0 : ScalarOps F),
         is_cring O0 ->
         local_identity O0 2 no_pre (fwd2 (a_mul (dual_ops O0))) (fun (_ : list (arr F)) (_ : arr F) => BMul).
Proof. exact @mul_local. Qed.

(** division with arbitrary broadcasting *)
Theorem C02_div :
  forall (F : Type) (O0 : ScalarOps F),
         is_cring O0 ->
         (forall a b : F, fdiv O0 a b = fmul O0 a (fdiv O0 (f1 O0) b)) ->
         (forall x : F, fpow O0 x (two O0) = fmul O0 x x) ->
         local_identity O0 2 no_pre (fwd2 (a_div (dual_ops O0))) (fun (_ : list (arr F)) (_ : arr F) => BDiv).
Proof. exact @div_local. Qed.

(** negation *)
Theorem C02_neg :
  forall (F : Type) (O0 : ScalarOps F),
         is_cring O0 ->
         local_identity O0 1 no_pre (fwd1 (a_neg (dual_ops O0))) (fun (_ : list (arr F)) (_ : arr F) => BNeg).
Proof. exact @neg_local. Qed.

(** scaling by a constant *)
Theorem C02_scale :
  forall (F : Type) (O0 : ScalarOps F),
         is_cring O0 ->
         forall s : F,
         local_identity O0 1 no_pre (fwd1 (a_scale (dual_ops O0) (s, f0 O0)))
           (fun (_ : list (arr F)) (_ : arr F) => BScale s).
Proof. exact @scale_local. Qed.

(** power with ANY exponent: e * x^(e-1) * delta *)
Theorem C02_powf :
  forall (F : Type) (O0 : ScalarOps F),
         is_cring O0 ->
         forall e : F,
         local_identity O0 1 no_pre (fwd1 (a_powf (dual_ops O0) (e, f0 O0)))
           (fun (_ : list (arr F)) (_ : arr F) => BPowf e).
Proof. exact @powf_local. Qed.

(** natural logarithm *)
Theorem C02_ln :
  forall (F : Type) (O0 : ScalarOps F),
         is_cring O0 ->
         (forall a b : F, fdiv O0 a b = fmul O0 a (fdiv O0 (f1 O0) b)) ->
         local_identity O0 1 no_pre (fwd1 (a_ln (dual_ops O0))) (fun (_ : list (arr F)) (_ : arr F) => BLn).
Proof. exact @ln_local. Qed.

(** exponential (closure uses the cached forward values) *)
Theorem C02_exp :
  forall (F : Type) (O0 : ScalarOps F),
         is_cring O0 ->
         local_identity O0 1 no_pre (fwd1 (a_exp (dual_ops O0)))
           (fun (_ : list (arr F)) (r : arr F) => BExp (vals r)).
Proof. exact @exp_local. Qed.

(** reciprocal *)
Theorem C02_recip :
  forall (F : Type) (O0 : ScalarOps F),
         is_cring O0 ->
         (forall a b : F, fdiv O0 a b = fmul O0 a (fdiv O0 (f1 O0) b)) ->
         (forall a b : F, fdiv O0 (f1 O0) (fmul O0 a b) = fmul O0 (fdiv O0 (f1 O0) a) (fdiv O0 (f1 O0) b)) ->
         (forall x : F, fpow O0 x (two O0) = fmul O0 x x) ->
         local_identity O0 1 no_pre (fwd1 (a_reciprocal (dual_ops O0)))
           (fun (_ : list (arr F)) (_ : arr F) => BRecip).
Proof. exact @recip_local. Qed.

(** sum over the last k dimensions, every 1 <= k <= rank *)
Theorem C02_sum :
  forall (F : Type) (O0 : ScalarOps F),
         is_cring O0 ->
         forall k : nat, local_identity O0 1 (sum_pre k) (fwd1 (a_sum (dual_ops O0) k)) (sum_code k).
Proof. exact @sum_local. Qed.

(** reshape *)
Theorem C02_reshape :
  forall (F : Type) (O0 : ScalarOps F),
         is_cring O0 ->
         forall d' : list nat,
         local_identity O0 1 no_pre (fwd1 (a_reshape d')) (fun (_ : list (arr F)) (_ : arr F) => BReshape).
Proof. exact @reshape_local. Qed.

(** relu (derivative 0 at 0 by convention) *)
Theorem C02_relu :
  forall (F : Type) (O0 : ScalarOps F),
         is_cring O0 ->
         local_identity O0 1 no_pre (fwd1 (a_relu (dual_ops O0))) (fun (_ : list (arr F)) (_ : arr F) => BRelu).
Proof. exact @relu_local. Qed.

(** any two-argument element-wise closure reduces to a point-wise identity *)
Theorem C02_binary_generic :
  forall (F : Type) (O0 : ScalarOps F),
         is_cring O0 ->
         forall (fD : dual -> dual -> dual) (code : bop_code F),
         binary_closure_spec O0 fD code ->
         local_identity O0 2 no_pre (fwd2 (element_wise_op (dual_ops O0) fD))
           (fun (_ : list (arr F)) (_ : arr F) => code).
Proof. exact @binary_local. Qed.

(** dual numbers over a commutative ring form a commutative ring *)
Theorem C02_dual_ring :
  forall (F : Type) (O : ScalarOps F), is_cring O -> is_cring (dual_ops O).
Proof. exact @dual_is_cring. Qed.

(** Not yet proved at this level (MANIFEST: partial): the local identities of the matmul, unroll_blocks,
    expand_conv and sigmoid closures.  They are exercised by the correspondence and dual-number runs. *)

Print Assumptions C02_add.
Print Assumptions C02_mul.
Print Assumptions C02_div.
Print Assumptions C02_neg.
Print Assumptions C02_scale.
Print Assumptions C02_powf.
Print Assumptions C02_ln.
Print Assumptions C02_exp.
Print Assumptions C02_recip.
Print Assumptions C02_sum.
Print Assumptions C02_reshape.
Print Assumptions C02_relu.
Print Assumptions C02_binary_generic.
Print Assumptions C02_dual_ring.
