(** C11  One pass evaluates each node's derivative once, with its complete adjoint

    The ghost [log] of [run_backward] records every closure invocation (node id, received delta).  No algebraic
    assumption is needed for once-ness and order ([C11_once]); the value part ([C11_complete]) needs the shape-indexed
    commutative monoid on adjoints.

    Statements only: every theorem below is closed by [exact <lemma>]; the lemmas are proved in
    the files imported here.  Generated with tools/gen_props.py from the lemmas' own types. *)

From Coq Require Import List Arith Bool Permutation.
From Corgi Require Import Lib.OptionMonad Model.Engine Proofs.EngineDefs Proofs.EngineBase Proofs.Propagate
     Proofs.EngineInv Proofs.AdjointSpec Proofs.SweepBase Proofs.SweepAdjoint Proofs.SweepLinear
     Proofs.ValueAlg Proofs.SweepChar Proofs.EngineSeg Proofs.EngineValue Proofs.PassTheorems.

(** conjuncts (d), (e): no node twice, exactly the reachable nodes with a closure, consumers before operands *)
Theorem C11_once :
  forall (P D : Type) (E : eops P D) (g : store P D) (r : nat) (keep : bool) 
           (seed : option D) (g' : store P D) (log : trace),
         wfg E g ->
         clean g ->
         bop_contract E g ->
         r < length g ->
         run_backward E g r keep seed = Some (g', log) ->
         clean g' /\
         length g' = length g /\
         (forall (id : nat) (nd nd' : node P D),
          nth_error g id = Some nd ->
          nth_error g' id = Some nd' -> n_pay nd' = n_pay nd /\ n_children nd' = n_children nd) /\
         (forall (id : nat) (nd nd' : node P D),
          nth_error g id = Some nd -> nth_error g' id = Some nd' -> ~ reach g r id -> n_grad nd' = n_grad nd) /\
         NoDup (map fst log) /\
         (forall id : nat,
          In id (map fst log) <->
          reach g r id /\ (exists nd : node P D, nth_error g id = Some nd /\ hasop E nd = true)) /\
         (forall n m : nat,
          reach g r n ->
          tedge g n m ->
          (exists nd : node P D, nth_error g m = Some nd /\ hasop E nd = true) -> before (map fst log) n m).
Proof. exact @pass_spec. Qed.

(** each closure receives its full adjoint: the accumulation, in any order, of the contributions of all its reachable consumers *)
Theorem C11_complete :
  forall (P D : Type) (E : eops P D) (S : Type) (sh : D -> S) (psh : P -> S),
         (forall x y : D, sh x = sh y -> exists z : D, eo_add E x y = Some z /\ sh z = sh x) ->
         (forall x y : D, sh x = sh y -> eo_add E x y = eo_add E y x) ->
         (forall x y z xy yz : D,
          sh x = sh y ->
          sh y = sh z -> eo_add E x y = Some xy -> eo_add E y z = Some yz -> eo_add E xy z = eo_add E x yz) ->
         (forall (d : D) (p : P) (d' : D), eo_flat E d p = Some d' -> sh d' = psh p) ->
         forall (g : store P D) (r : nat) (keep : bool) (seed : option D) (s0 : D) 
           (g' : store P D) (log : trace),
         good E S sh psh g ->
         seed_ok E S sh psh g r seed s0 ->
         run_backward E g r keep seed = Some (g', log) ->
         exists tab : table,
           adjoints E g r s0 = Some tab /\
           NoDup (map fst log) /\
           (forall id : nat,
            In id (map fst log) <->
            reach g r id /\ (exists nd : node P D, nth_error g id = Some nd /\ hasop E nd = true)) /\
           (forall n m : nat,
            reach g r n ->
            tedge g n m ->
            (exists nd : node P D, nth_error g m = Some nd /\ hasop E nd = true) -> before (map fst log) n m) /\
           (forall (id : nat) (delta : D), In (id, delta) log -> nth id tab None = Some delta) /\
           (forall (id : nat) (l : list D),
            id < length g ->
            Permutation l (vals id (inc_all E g tab r)) ->
            accum E (if id =? r then Some s0 else None) l = Some (nth id tab None)).
Proof. exact @closure_once_complete. Qed.

(** the consumer count equals the number of tracked in-edges from the differentiated sub-graph *)
Theorem C11_counts :
  forall (P D : Type) (E : eops P D) (g : store P D) (r : nat),
         wfg E g ->
         clean g ->
         r < length g ->
         exists g1 : store P D,
           propagate (S r) g r = Some g1 /\
           map nc g1 = map nc g /\
           (forall rb : nat -> bool,
            (forall n : nat, rb n = true <-> reach g r n) ->
            forall m : nat, cnt g1 m = wsum (length g) (fun n : nat => if rb n then mult g n m else 0)).
Proof. exact @propagate_count. Qed.

(** a pass over total operations never gets stuck (fuel S id suffices) *)
Theorem C11_total :
  forall (P D : Type) (E : eops P D) (g : store P D) (r : nat) (keep : bool) (seed : option D),
         wfg E g ->
         clean g ->
         bop_contract E g ->
         r < length g ->
         (forall (d : D) (p : P), eo_flat E d p <> None) ->
         (forall x y : D, eo_add E x y <> None) ->
         (forall (p : P) (pays : list P) (saved : list bool) (d : D), eo_bop E p pays saved d <> None) ->
         run_backward E g r keep seed <> None.
Proof. exact @run_backward_total. Qed.

Print Assumptions C11_once.
Print Assumptions C11_complete.
Print Assumptions C11_counts.
Print Assumptions C11_total.
