(** C17concrete  (concrete closures) every built-in derivative closure is linear in the delta

    [acomb alpha beta x y] = alpha*x + beta*y element-wise.  [bop_linear alpha beta code]: run_bop of that closure
    commutes with acomb in the delta.  Proved for every bop_code; BDiv needs the named law that scalar division is
    linear in its numerator (a ring theory says nothing about fdiv; it holds for the reals).

    Statements only: every theorem below is closed by [exact <lemma>]; the lemmas are proved in
    the files imported here.  Generated with tools/gen_props.py from the lemmas' own types. *)

From Coq Require Import List Arith Bool Permutation.
From Corgi Require Import Lib.OptionMonad Lib.Sums Model.Scalar Model.Arr Model.SlicedOp Model.Elementwise Model.Linalg
     Model.Image Model.Ops Model.Engine Proofs.ArrFacts Proofs.EngineDefs Proofs.AdjointSpec Proofs.SweepBase
     Proofs.SweepLinear Proofs.FlattenSpec Proofs.DualLift Proofs.LocalAdjoint Proofs.HistoryInv
     Proofs.ValueConcrete Model.Program.
From Corgi Require Import Proofs.PassTheorems Proofs.ConcretePasses Proofs.ConcreteLinear Proofs.ConcreteLinearPass.
Import ListNotations.

(** three passes of the real engine with seeds s1, s2, alpha*s1+beta*s2: leaf gradients combine accordingly *)
Theorem C17c_pass_linear :
  forall (F : Type) (O : ScalarOps F),
         is_cring O ->
         forall (alpha beta : F) (LP : bop_code F -> bool),
         (forall code : bop_code F, LP code = true -> bop_linear O alpha beta code) ->
         forall (g : list gnode) (r : nat) (keep : bool) (ndr : gnode) (s1 s2 : arr F) 
           (g1 : store pay (arr F)) (l1 : trace) (g2 : store pay (arr F)) (l2 : trace) 
           (g3 : store pay (arr F)) (l3 : trace),
         store_good g ->
         graph_lp LP g ->
         nth_error g r = Some ndr ->
         grad_ok (n_pay ndr) s1 ->
         grad_ok (n_pay ndr) s2 ->
         run_backward (E O) g r keep (Some s1) = Some (g1, l1) ->
         run_backward (E O) g r keep (Some s2) = Some (g2, l2) ->
         run_backward (E O) g r keep (Some (acomb O alpha beta s1 s2)) = Some (g3, l3) ->
         forall (id : nat) (nd nd1 nd2 nd3 : gnode),
         nth_error g id = Some nd ->
         nth_error g1 id = Some nd1 ->
         nth_error g2 id = Some nd2 ->
         nth_error g3 id = Some nd3 ->
         n_children nd = [] ->
         n_grad nd = None ->
         n_grad nd1 = None /\ n_grad nd2 = None /\ n_grad nd3 = None \/
         (exists x1 x2 : arr F,
            n_grad nd1 = Some x1 /\ n_grad nd2 = Some x2 /\ n_grad nd3 = Some (acomb O alpha beta x1 x2)).
Proof. exact @pass_linear_concrete. Qed.

(** ... for every graph without a division node, unconditionally *)
Theorem C17c_pass_linear_proved :
  forall (F : Type) (O : ScalarOps F),
         is_cring O ->
         forall (alpha beta : F) (g : list gnode) (r : nat) (keep : bool) (ndr : gnode) 
           (s1 s2 : arr F) (g1 : store pay (arr F)) (l1 : trace) (g2 : store pay (arr F)) 
           (l2 : trace) (g3 : store pay (arr F)) (l3 : trace),
         store_good g ->
         graph_lp linear_proved g ->
         nth_error g r = Some ndr ->
         grad_ok (n_pay ndr) s1 ->
         grad_ok (n_pay ndr) s2 ->
         run_backward (E O) g r keep (Some s1) = Some (g1, l1) ->
         run_backward (E O) g r keep (Some s2) = Some (g2, l2) ->
         run_backward (E O) g r keep (Some (acomb O alpha beta s1 s2)) = Some (g3, l3) ->
         forall (id : nat) (nd nd1 nd2 nd3 : gnode),
         nth_error g id = Some nd ->
         nth_error g1 id = Some nd1 ->
         nth_error g2 id = Some nd2 ->
         nth_error g3 id = Some nd3 ->
         n_children nd = [] ->
         n_grad nd = None ->
         n_grad nd1 = None /\ n_grad nd2 = None /\ n_grad nd3 = None \/
         (exists x1 x2 : arr F,
            n_grad nd1 = Some x1 /\ n_grad nd2 = Some x2 /\ n_grad nd3 = Some (acomb O alpha beta x1 x2)).
Proof. exact @pass_linear_proved. Qed.

(** every closure is linear (division law as hypothesis) *)
Theorem C17c_all_closures :
  forall (F : Type) (O : ScalarOps F),
         is_cring O ->
         forall alpha beta : F,
         (forall u v w : F, fdiv O (lc O alpha beta v w) u = lc O alpha beta (fdiv O v u) (fdiv O w u)) ->
         forall code : bop_code F, bop_linear O alpha beta code.
Proof. exact @all_linear. Qed.

(** every closure except BDiv, unconditionally *)
Theorem C17c_closures_without_div :
  forall (F : Type) (O : ScalarOps F),
         is_cring O ->
         forall (alpha beta : F) (code : bop_code F), linear_proved code = true -> bop_linear O alpha beta code.
Proof. exact @linear_proved_linear. Qed.

(** flatten_to is linear *)
Theorem C17c_flatten_linear :
  forall (F : Type) (O : ScalarOps F),
         is_cring O ->
         forall (alpha beta : F) (x y : arr F) (t : list nat) (x' y' : arr F),
         ok x y ->
         flatten_to O x t = Some x' ->
         flatten_to O y t = Some y' ->
         flatten_to O (acomb O alpha beta x y) t = Some (acomb O alpha beta x' y') /\ ok x' y'.
Proof. exact @flatten_to_lin. Qed.

(** the adjoint table is linear in the seed *)
Theorem C17c_table_linear :
  forall (F : Type) (O : ScalarOps F),
         is_cring O ->
         forall (alpha beta : F) (LP : bop_code F -> bool),
         (forall code : bop_code F, LP code = true -> bop_linear O alpha beta code) ->
         forall (g : list gnode) (r : nat) (ndr : gnode) (s1 s2 : arr F) (t1 t2 : table),
         store_good g ->
         graph_lp LP g ->
         nth_error g r = Some ndr ->
         grad_ok (n_pay ndr) s1 ->
         grad_ok (n_pay ndr) s2 ->
         adjoints (E' O) g r s1 = Some t1 ->
         adjoints (E' O) g r s2 = Some t2 ->
         adjoints (E' O) g r (acomb O alpha beta s1 s2) = Some (map2o (acomb O alpha beta) t1 t2) /\
         (forall j : nat, nth j t1 None = None <-> nth j t2 None = None).
Proof. exact @adjoints_linear_concrete. Qed.

Print Assumptions C17c_pass_linear.
Print Assumptions C17c_pass_linear_proved.
Print Assumptions C17c_all_closures.
Print Assumptions C17c_closures_without_div.
Print Assumptions C17c_flatten_linear.
Print Assumptions C17c_table_linear.
