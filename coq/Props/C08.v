(** C08  Arrays are immutable: no operation changes an existing array's values or shape

    [step O s i] executes one instruction of a history (operation, clone, drop, flag change, backward pass, gradient
    read/clear/fetch, optimizer update, model forward/backward/update ...).  [C08_step_frame]: whatever the instruction,
    every node that exists keeps its payload (dimensions, values, buffer identity) and its children; the node list only
    grows; every pool slot the instruction does not explicitly re-bind keeps its handle.  [rebound i] lists the re-bound
    slots: the slot of IDrop/ITakeVec/ITracked/IUntracked/IStart/IStop, the parameter slots of IUpdate.  Unconditional: no
    well-formedness premise at all.  What the model cannot exhibit: mutation through unsafe code or FFI (snapshot runs and
    the informational source audit cover that side).

    Statements only: every theorem below is closed by [exact <lemma>]; the lemmas are proved in
    the files imported here.  Generated with tools/gen_props.py from the lemmas' own types. *)

From Coq Require Import List Arith Bool.
From Corgi Require Import Lib.OptionMonad Model.Scalar Model.Arr Model.SlicedOp Model.Elementwise Model.Linalg
     Model.Image Model.Ops Model.Engine Proofs.ArrFacts Proofs.SpecDefs Proofs.EngineDefs Proofs.EngineBase
     Proofs.OptimSpec Proofs.MatmulSpec Proofs.ConvSpec Model.Program Proofs.ProgramFacts Proofs.ProgramValues.
Import ListNotations.

(** the frame property of every instruction *)
Theorem C08_step_frame :
  forall (F : Type) (O : ScalarOps F) (s : state) (i : instr) (s' : state) (o : obs),
         step O s i = Some (s', o) ->
         (forall (id : nat) (nd : gnode),
          nth_error (st_nodes s) id = Some nd ->
          exists nd' : gnode,
            nth_error (st_nodes s') id = Some nd' /\ n_pay nd' = n_pay nd /\ n_children nd' = n_children nd) /\
         length (st_nodes s) <= length (st_nodes s') /\
         length (st_pool s') = S (length (st_pool s)) /\
         (forall j : nat,
          j < length (st_pool s) -> ~ In j (rebound i) -> nth_error (st_pool s') j = nth_error (st_pool s) j) /\
         st_tag s' = length (st_pool s) /\
         (changes_layers i = false -> st_layers s' = st_layers s) /\
         (changes_config i = false -> st_cost s' = st_cost s /\ st_lr s' = st_lr s) /\
         (changes_output i = false -> st_output s' = st_output s).
Proof. exact @step_frame. Qed.

(** every live handle the instruction does not re-bind denotes the same array before and after *)
Theorem C08_live_handles :
  forall (F : Type) (O : ScalarOps F) (s : state) (i : instr) (s' : state) (o : obs) 
           (j : nat) (x : handle),
         step O s i = Some (s', o) ->
         var s j = Some x ->
         ~ In j (rebound i) ->
         var s' j = Some x /\ (forall a : arr F, h_arr s x = Some a -> h_arr s' x = Some a).
Proof. exact @step_live_handle. Qed.

(** the same over whole programs *)
Theorem C08_histories :
  forall (F : Type) (O : ScalarOps F) (p : list instr) (s s' : state) (os : list obs),
         exec O s p = Some (s', os) ->
         (forall (id : nat) (nd : gnode),
          nth_error (st_nodes s) id = Some nd ->
          exists nd' : gnode,
            nth_error (st_nodes s') id = Some nd' /\ n_pay nd' = n_pay nd /\ n_children nd' = n_children nd) /\
         length (st_nodes s) <= length (st_nodes s') /\
         length (st_pool s') = length (st_pool s) + length p /\
         (forall j : nat,
          j < length (st_pool s) ->
          ~ In j (flat_map rebound p) -> nth_error (st_pool s') j = nth_error (st_pool s) j).
Proof. exact @run_frame. Qed.

(** a backward pass changes no payload (no premise) *)
Theorem C08_backward_payloads :
  forall (P D : Type) (E : eops P D) (fuel : nat) (g : store P D) (id : nat) 
           (keep : bool) (seed : option D) (log : trace) (g' : store P D) (log' : trace),
         backward E fuel g id keep seed log = Some (g', log') -> map n_pay g' = map n_pay g.
Proof. exact @backward_pay. Qed.

(** ... and no child entry *)
Theorem C08_backward_children :
  forall (P D : Type) (E : eops P D) (fuel : nat) (g : store P D) (id : nat) 
           (keep : bool) (seed : option D) (log : trace) (g' : store P D) (log' : trace),
         backward E fuel g id keep seed log = Some (g', log') -> map n_children g' = map n_children g.
Proof. exact @backward_children. Qed.

(** an optimizer update re-binds parameters to fresh nodes and leaves every old node's payload intact *)
Theorem C08_update_rebinds :
  forall (F : Type) (O : ScalarOps F) (s : state) (lr : F) (params : list handle),
         gd_pre s params ->
         exists (s' : state) (out : list handle),
           gd_update O s lr params = Some (s', out) /\ gd_post O s lr params s' out.
Proof. exact @gd_update_spec. Qed.

Print Assumptions C08_step_frame.
Print Assumptions C08_live_handles.
Print Assumptions C08_histories.
Print Assumptions C08_backward_payloads.
Print Assumptions C08_backward_children.
Print Assumptions C08_update_rebinds.
