(** C01full  (every built-in operation, every history) reverse mode equals forward mode

    The capstone of C01.  [reachable_ok O p s]: s is the state reached by the program p (any sequence of the 27
    instructions: leaves, every public operation, clones, drops, flag changes, passes, clears, updates, the model loop ...)
    whose instructions satisfy the side conditions [seed_ok] (an explicit seed has the result's shape) and [instr_ok]:
    sum(k) with k <= rank, softmax on rank >= 1, matmul operands of rank >= 2 with an additive term of shape [cols],
    [rows; cols], [1; cols], [1] or none, conv filters of rank 4, user closures on equal dimensions, dense/conv layers fed
    inputs their matmul/conv accept.  ([reachable_ok_all] / [instr_ok_all] additionally admit the rank-1 matmul forms the property names:
    vector x matrix, matrix x vector and the dot product of two untransposed vectors.)
    [C01_every_history]: for every such state with empty gradient slots, every root r, seed and leaf tangents:
         <seed, dual-number tangent of the result> = sum over leaves <gradient stored by backward, leaf tangent>
    with NO hypothesis about the graph: every closure corgi's operations attach (add, mul, div, neg, scale, powf, ln,
    exp, reciprocal, sum, reshape, relu, sigmoid, matmul, unroll, expand, user mul/affine/square - hence sub, axpy,
    softmax, conv, dense and conv layers, mse and cross-entropy) has its local transpose identity and liftability proved
    ([C01_all_closures_supported]).  Scalars: a commutative ring with the division / power / sigmoid laws as hypotheses;
    [C01_every_history_reals]: the instance at the real numbers has no scalar hypothesis at all (axioms: the standard
    library's Reals axioms and classic).

    Statements only: every theorem below is closed by [exact <lemma>]; the lemmas are proved in
    the files imported here.  Generated with tools/gen_props.py from the lemmas' own types. *)

From Coq Require Import List Arith Bool Permutation.
From Corgi Require Import Lib.OptionMonad Lib.Sums Model.Scalar Model.Arr Model.SlicedOp Model.Elementwise Model.Linalg
     Model.Image Model.Ops Model.Engine Proofs.ArrFacts Proofs.EngineDefs Proofs.AdjointSpec Proofs.SweepBase
     Proofs.SweepLinear Proofs.FlattenSpec Proofs.DualLift Proofs.LocalAdjoint Proofs.HistoryInv
     Proofs.ValueConcrete Model.Program.
From Corgi Require Import Model.RealScalar Proofs.LocalAdjoint2 Proofs.SweepAdjointG Proofs.FwdCode Proofs.CodeSupport
     Proofs.HistoryVC Proofs.C01Concrete Proofs.CodeSupport2 Proofs.C01Full Proofs.HistoryPre Proofs.C01History Proofs.C01Real
     Proofs.LocalAdjoint3 Proofs.C01Gen Proofs.CodeSupport3 Proofs.HistoryPre3 Proofs.C01History3.
Import ListNotations.

(** reverse = forward for every program history, every built-in operation, matmul in its rank >= 2 AND rank-1 forms (vector x matrix, matrix x vector, dot product) *)
Theorem C01_every_history_all_forms :
  forall (F : Type) (O : ScalarOps F),
         is_cring O ->
         (forall a b : F, fdiv O a b = fmul O a (fdiv O (f1 O) b)) ->
         (forall a b : F, fdiv O (f1 O) (fmul O a b) = fmul O (fdiv O (f1 O) a) (fdiv O (f1 O) b)) ->
         (forall x : F, fpow O x (two O) = fmul O x x) ->
         (forall x x' : F, fst (sigmoid_fn (dual_ops O) (x, x')) = sigmoid_fn O x) ->
         (forall x x' : F,
          snd (sigmoid_fn (dual_ops O) (x, x')) =
          fmul O (fmul O (sigmoid_fn O x) (fsub O (f1 O) (sigmoid_fn O x))) x') ->
         forall (p : list instr) (s : state) (lt : nat -> arr F) (r : nat) (keep : bool)
           (seed : option (arr F)) (s0 : arr F) (ndr : gnode) (g' : store pay (arr F)) 
           (log : trace),
         reachable_ok_all O p s ->
         grads_empty (st_nodes s) ->
         leaf_tangents_ok (st_nodes s) lt ->
         nth_error (st_nodes s) r = Some ndr ->
         seed_of (E O) (st_nodes s) r seed = Some s0 ->
         (forall sd : arr F, seed = Some sd -> wf sd /\ dims sd = p_dims (n_pay ndr)) ->
         run_backward (E O) (st_nodes s) r keep seed = Some (g', log) ->
         dot O (vals s0) (vals (tan O (st_nodes s) lt r)) = leaf_pairing O (st_nodes s) g' lt r.
Proof. exact @history_backward_exact_all. Qed.

(** the same over the real numbers, no scalar hypothesis *)
Theorem C01_every_history_all_forms_reals :
  forall (p : list instr) (s : state) (lt : nat -> arr Rdefinitions.RbaseSymbolsImpl.R) 
           (r : nat) (keep : bool) (seed : option (arr Rdefinitions.RbaseSymbolsImpl.R))
           (s0 : arr Rdefinitions.RbaseSymbolsImpl.R) (ndr : gnode)
           (g' : store pay (arr Rdefinitions.RbaseSymbolsImpl.R)) (log : trace),
         reachable_ok_all R_ops p s ->
         grads_empty (st_nodes s) ->
         leaf_tangents_ok (st_nodes s) lt ->
         nth_error (st_nodes s) r = Some ndr ->
         seed_of (E R_ops) (st_nodes s) r seed = Some s0 ->
         (forall sd : arr Rdefinitions.RbaseSymbolsImpl.R,
          seed = Some sd -> wf sd /\ dims sd = p_dims (n_pay ndr)) ->
         run_backward (E R_ops) (st_nodes s) r keep seed = Some (g', log) ->
         dot R_ops (vals s0) (vals (tan R_ops (st_nodes s) lt r)) = leaf_pairing R_ops (st_nodes s) g' lt r.
Proof. exact @history_backward_exact_all_R. Qed.

(** the version with rank >= 2 matmul only *)
Theorem C01_every_history :
  forall (F : Type) (O : ScalarOps F),
         is_cring O ->
         (forall a b : F, fdiv O a b = fmul O a (fdiv O (f1 O) b)) ->
         (forall a b : F, fdiv O (f1 O) (fmul O a b) = fmul O (fdiv O (f1 O) a) (fdiv O (f1 O) b)) ->
         (forall x : F, fpow O x (two O) = fmul O x x) ->
         (forall x x' : F, fst (sigmoid_fn (dual_ops O) (x, x')) = sigmoid_fn O x) ->
         (forall x x' : F,
          snd (sigmoid_fn (dual_ops O) (x, x')) =
          fmul O (fmul O (sigmoid_fn O x) (fsub O (f1 O) (sigmoid_fn O x))) x') ->
         forall (p : list instr) (s : state) (lt : nat -> arr F) (r : nat) (keep : bool)
           (seed : option (arr F)) (s0 : arr F) (ndr : gnode) (g' : store pay (arr F)) 
           (log : trace),
         reachable_ok O p s ->
         grads_empty (st_nodes s) ->
         leaf_tangents_ok (st_nodes s) lt ->
         nth_error (st_nodes s) r = Some ndr ->
         seed_of (E O) (st_nodes s) r seed = Some s0 ->
         (forall sd : arr F, seed = Some sd -> wf sd /\ dims sd = p_dims (n_pay ndr)) ->
         run_backward (E O) (st_nodes s) r keep seed = Some (g', log) ->
         dot O (vals s0) (vals (tan O (st_nodes s) lt r)) = leaf_pairing O (st_nodes s) g' lt r.
Proof. exact @history_backward_exact_full. Qed.

(** the same over the real numbers, no scalar hypothesis *)
Theorem C01_every_history_reals :
  forall (p : list instr) (s : state) (lt : nat -> arr Rdefinitions.RbaseSymbolsImpl.R) 
           (r : nat) (keep : bool) (seed : option (arr Rdefinitions.RbaseSymbolsImpl.R))
           (s0 : arr Rdefinitions.RbaseSymbolsImpl.R) (ndr : gnode)
           (g' : store pay (arr Rdefinitions.RbaseSymbolsImpl.R)) (log : trace),
         reachable_ok R_ops p s ->
         grads_empty (st_nodes s) ->
         leaf_tangents_ok (st_nodes s) lt ->
         nth_error (st_nodes s) r = Some ndr ->
         seed_of (E R_ops) (st_nodes s) r seed = Some s0 ->
         (forall sd : arr Rdefinitions.RbaseSymbolsImpl.R,
          seed = Some sd -> wf sd /\ dims sd = p_dims (n_pay ndr)) ->
         run_backward (E R_ops) (st_nodes s) r keep seed = Some (g', log) ->
         dot R_ops (vals s0) (vals (tan R_ops (st_nodes s) lt r)) = leaf_pairing R_ops (st_nodes s) g' lt r.
Proof. exact @history_backward_exact_R. Qed.

(** store-level form: store_good, value_consistent, pre_ok *)
Theorem C01_every_graph :
  forall (F : Type) (O : ScalarOps F),
         is_cring O ->
         (forall a b : F, fdiv O a b = fmul O a (fdiv O (f1 O) b)) ->
         (forall a b : F, fdiv O (f1 O) (fmul O a b) = fmul O (fdiv O (f1 O) a) (fdiv O (f1 O) b)) ->
         (forall x : F, fpow O x (two O) = fmul O x x) ->
         (forall x x' : F, fst (sigmoid_fn (dual_ops O) (x, x')) = sigmoid_fn O x) ->
         (forall x x' : F,
          snd (sigmoid_fn (dual_ops O) (x, x')) =
          fmul O (fmul O (sigmoid_fn O x) (fsub O (f1 O) (sigmoid_fn O x))) x') ->
         forall (g : list gnode) (lt0 : nat -> arr F) (r : nat) (keep : bool) (seed : option (arr F))
           (s0 : arr F) (ndr : gnode) (g' : store pay (arr F)) (log : trace),
         store_good g ->
         value_consistent O g ->
         pre_ok g ->
         leaf_tangents_ok g lt0 ->
         grads_empty g ->
         r < length g ->
         nth_error g r = Some ndr ->
         seed_of (E O) g r seed = Some s0 ->
         (forall sd : arr F, seed = Some sd -> wf sd /\ dims sd = p_dims (n_pay ndr)) ->
         run_backward (E O) g r keep seed = Some (g', log) ->
         dot O (vals s0) (vals (tan O g lt0 r)) = leaf_pairing O g g' lt0 r.
Proof. exact @backward_exact_full. Qed.

(** store-level form over the reals *)
Theorem C01_every_graph_reals :
  forall (g : list gnode) (lt0 : nat -> arr Rdefinitions.RbaseSymbolsImpl.R) 
           (r : nat) (keep : bool) (seed : option (arr Rdefinitions.RbaseSymbolsImpl.R))
           (s0 : arr Rdefinitions.RbaseSymbolsImpl.R) (ndr : gnode)
           (g' : store pay (arr Rdefinitions.RbaseSymbolsImpl.R)) (log : trace),
         store_good g ->
         value_consistent R_ops g ->
         pre_ok g ->
         leaf_tangents_ok g lt0 ->
         grads_empty g ->
         r < length g ->
         nth_error g r = Some ndr ->
         seed_of (E R_ops) g r seed = Some s0 ->
         (forall sd : arr Rdefinitions.RbaseSymbolsImpl.R,
          seed = Some sd -> wf sd /\ dims sd = p_dims (n_pay ndr)) ->
         run_backward (E R_ops) g r keep seed = Some (g', log) ->
         dot R_ops (vals s0) (vals (tan R_ops g lt0 r)) = leaf_pairing R_ops g g' lt0 r.
Proof. exact @backward_exact_R. Qed.

(** local identity + liftability for every bop_code *)
Theorem C01_all_closures_supported :
  forall (F : Type) (O : ScalarOps F),
         is_cring O ->
         (forall x x' : F, fst (sigmoid_fn (dual_ops O) (x, x')) = sigmoid_fn O x) ->
         (forall x x' : F,
          snd (sigmoid_fn (dual_ops O) (x, x')) =
          fmul O (fmul O (sigmoid_fn O x) (fsub O (f1 O) (sigmoid_fn O x))) x') ->
         (forall a b : F, fdiv O a b = fmul O a (fdiv O (f1 O) b)) ->
         (forall a b : F, fdiv O (f1 O) (fmul O a b) = fmul O (fdiv O (f1 O) a) (fdiv O (f1 O) b)) ->
         (forall x : F, fpow O x (two O) = fmul O x x) ->
         forall (code : bop_code F) (d : list nat), code_ok2 O code d.
Proof. exact @all_code_ok2. Qed.

(** store_good, value_consistent and the closure side conditions are preserved by every instruction *)
Theorem C01_invariants_of_histories :
  forall (F : Type) (O : ScalarOps F) (s0 : state) (i : instr) (s' : state) (o : obs),
         good3 O s0 -> seed_ok s0 i -> instr_ok O s0 i -> step O s0 i = Some (s', o) -> good3 O s'.
Proof. exact @step_good3. Qed.

(** every reachable state satisfies them *)
Theorem C01_all_supported :
  forall (F : Type) (O : ScalarOps F),
         is_cring O ->
         (forall a b : F, fdiv O a b = fmul O a (fdiv O (f1 O) b)) ->
         (forall a b : F, fdiv O (f1 O) (fmul O a b) = fmul O (fdiv O (f1 O) a) (fdiv O (f1 O) b)) ->
         (forall x : F, fpow O x (two O) = fmul O x x) ->
         (forall x x' : F, fst (sigmoid_fn (dual_ops O) (x, x')) = sigmoid_fn O x) ->
         (forall x x' : F,
          snd (sigmoid_fn (dual_ops O) (x, x')) =
          fmul O (fmul O (sigmoid_fn O x) (fsub O (f1 O) (sigmoid_fn O x))) x') ->
         forall (p : list instr) (s : state),
         reachable_ok O p s ->
         store_good (st_nodes s) /\
         value_consistent O (st_nodes s) /\
         pre_ok (st_nodes s) /\ (forall (code : bop_code F) (d : list nat), code_ok2 O code d).
Proof. exact @all_supported. Qed.

Print Assumptions C01_every_history_all_forms.
Print Assumptions C01_every_history_all_forms_reals.
Print Assumptions C01_every_history.
Print Assumptions C01_every_history_reals.
Print Assumptions C01_every_graph.
Print Assumptions C01_every_graph_reals.
Print Assumptions C01_all_closures_supported.
Print Assumptions C01_invariants_of_histories.
Print Assumptions C01_all_supported.
