(** C02real  (scalar part) the dual-number rules are the mathematical derivatives

    Over Coq's real numbers with Coquelicot's [is_derive].  [R_ops] is the real instance of the scalar record
    (fpow recognises integer exponents, as Rust's powf does; Rpower on positive bases).  Each [d_*] theorem: for every
    curve x(t) differentiable at t0, t |-> prim (x t) is differentiable at t0 with derivative the epsilon-part of the
    primitive applied to the dual number (x t0, x').  [R_is_cring], [R_div_mul_inv], [R_inv_mul], [R_pow_two] discharge,
    for the reals, the scalar hypotheses used by Props/C02.v.  Axioms: those of the standard library's Reals
    (ClassicalDedekindReals.sig_not_dec, sig_forall_dec, functional_extensionality_dep) and Classical_Prop.classic.

    Statements only: every theorem below is closed by [exact <lemma>]; the lemmas are proved in
    the files imported here.  Generated with tools/gen_props.py from the lemmas' own types. *)

From Coq Require Import List Reals.
From Coquelicot Require Import Coquelicot.
From Corgi Require Import Lib.OptionMonad Lib.Sums Model.Scalar Model.RealScalar Model.Arr Model.SlicedOp Model.Elementwise
     Model.Ops Proofs.ArrFacts Proofs.SpecDefs Proofs.RealDerivs.
Import ListNotations.
Open Scope R_scope.

(** the reals are a commutative ring for the scalar record *)
Theorem C02r_ring :
  is_cring R_ops.
Proof. exact @R_is_cring. Qed.

(** a / b = a * (1 / b) *)
Theorem C02r_div :
  forall a b : R, fdiv R_ops a b = fmul R_ops a (fdiv R_ops (f1 R_ops) b).
Proof. exact @R_div_mul_inv. Qed.

(** 1 / (a*b) = (1/a) * (1/b) *)
Theorem C02r_inv_mul :
  forall a b : R,
         fdiv R_ops (f1 R_ops) (fmul R_ops a b) =
         fmul R_ops (fdiv R_ops (f1 R_ops) a) (fdiv R_ops (f1 R_ops) b).
Proof. exact @R_inv_mul. Qed.

(** x^2 = x*x at every x *)
Theorem C02r_pow_two :
  forall x : R, fpow R_ops x (two R_ops) = fmul R_ops x x.
Proof. exact @R_pow_two. Qed.

(** addition *)
Theorem C02r_add :
  forall (x y : R -> R) (t0 x' y' : R),
         is_derive x t0 x' ->
         is_derive y t0 y' ->
         is_derive (fun t : R_AbsRing => fadd R_ops (x t) (y t)) t0 (snd (fadd dR (x t0, x') (y t0, y'))).
Proof. exact @d_fadd. Qed.

(** subtraction *)
Theorem C02r_sub :
  forall (x y : R -> R) (t0 x' y' : R),
         is_derive x t0 x' ->
         is_derive y t0 y' ->
         is_derive (fun t : R_AbsRing => fsub R_ops (x t) (y t)) t0 (snd (fsub dR (x t0, x') (y t0, y'))).
Proof. exact @d_fsub. Qed.

(** negation *)
Theorem C02r_neg :
  forall (x : R -> R) (t0 x' : R),
         is_derive x t0 x' -> is_derive (fun t : R_AbsRing => fneg R_ops (x t)) t0 (snd (fneg dR (x t0, x'))).
Proof. exact @d_fneg. Qed.

(** product rule *)
Theorem C02r_mul :
  forall (x y : R -> R) (t0 x' y' : R),
         is_derive x t0 x' ->
         is_derive y t0 y' ->
         is_derive (fun t : R_AbsRing => fmul R_ops (x t) (y t)) t0 (snd (fmul dR (x t0, x') (y t0, y'))).
Proof. exact @d_fmul. Qed.

(** quotient rule (denominator <> 0) *)
Theorem C02r_divide :
  forall (x y : R -> R) (t0 x' y' : R),
         is_derive x t0 x' ->
         is_derive y t0 y' ->
         y t0 <> 0 ->
         is_derive (fun t : R_AbsRing => fdiv R_ops (x t) (y t)) t0 (snd (fdiv dR (x t0, x') (y t0, y'))).
Proof. exact @d_fdiv. Qed.

(** exp *)
Theorem C02r_exp :
  forall (x : R -> R) (t0 x' : R),
         is_derive x t0 x' -> is_derive (fun t : R_AbsRing => fexp R_ops (x t)) t0 (snd (fexp dR (x t0, x'))).
Proof. exact @d_fexp. Qed.

(** ln (x > 0) *)
Theorem C02r_ln :
  forall (x : R -> R) (t0 x' : R),
         is_derive x t0 x' ->
         0 < x t0 -> is_derive (fun t : R_AbsRing => fln R_ops (x t)) t0 (snd (fln dR (x t0, x'))).
Proof. exact @d_fln. Qed.

(** x^e: every real e at positive base, every integer e at non-zero base, non-negative integers everywhere *)
Theorem C02r_pow :
  forall (x : R -> R) (t0 x' : R),
         is_derive x t0 x' ->
         forall e e' : R,
         0 < x t0 \/ (exists z : Z, e = IZR z /\ (x t0 <> 0 \/ (0 <= z)%Z)) ->
         is_derive (fun t : R_AbsRing => fpow R_ops (x t) e) t0 (snd (fpow dR (x t0, x') (e, e'))).
Proof. exact @d_fpow. Qed.

(** natural exponents at every base *)
Theorem C02r_pow_nat :
  forall (x : R -> R) (t0 x' : R) (n : nat),
         is_derive x t0 x' -> is_derive (fun t : R_AbsRing => x t ^ n) t0 (INR n * x t0 ^ (n - 1) * x').
Proof. exact @d_pow_nat. Qed.

(** negative integer exponents at every non-zero base *)
Theorem C02r_pow_neg_nat :
  forall (x : R -> R) (t0 x' : R) (n : nat),
         is_derive x t0 x' ->
         x t0 <> 0 -> is_derive (fun t : R_AbsRing => / x t ^ n) t0 (snd (fpow dR (x t0, x') (- INR n, 0))).
Proof. exact @d_pow_neg_nat. Qed.

(** sigmoid' = sigmoid (1 - sigmoid): the factor of the sigmoid closure *)
Theorem C02r_sigmoid :
  forall x : R_AbsRing, is_derive sigmoid x (sigmoid x * (1 - sigmoid x)).
Proof. exact @sigmoid_derive. Qed.

(** the dual-number run of sigmoid *)
Theorem C02r_sigmoid_dual :
  forall x x' : R, sigmoid_fn dR (x, x') = (sigmoid x, sigmoid x * (1 - sigmoid x) * x').
Proof. exact @sigmoid_dual. Qed.

(** relu' away from 0 *)
Theorem C02r_relu :
  forall x : R, x <> 0 -> is_derive relu x (relu' x).
Proof. exact @relu_derive. Qed.

(** relu has no derivative at 0: the closure's 0 there is a convention *)
Theorem C02r_relu_at_0 :
  ~ ex_derive relu 0.
Proof. exact @relu_not_derivable_at_0. Qed.

Print Assumptions C02r_ring.
Print Assumptions C02r_div.
Print Assumptions C02r_inv_mul.
Print Assumptions C02r_pow_two.
Print Assumptions C02r_add.
Print Assumptions C02r_sub.
Print Assumptions C02r_neg.
Print Assumptions C02r_mul.
Print Assumptions C02r_divide.
Print Assumptions C02r_exp.
Print Assumptions C02r_ln.
Print Assumptions C02r_pow.
Print Assumptions C02r_pow_nat.
Print Assumptions C02r_pow_neg_nat.
Print Assumptions C02r_sigmoid.
Print Assumptions C02r_sigmoid_dual.
Print Assumptions C02r_relu.
Print Assumptions C02r_relu_at_0.
