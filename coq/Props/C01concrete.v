(** C01concrete  (concrete engine) the gradients corgi stores are the transpose of the forward derivative

    For the concrete array engine [E O] of Model/Program.v over a commutative ring of scalars.
    [store_good g]: the store invariant that every program history maintains (HistoryInv.v); [value_consistent O g]:
    every operation node's value is the forward result of its closure's operation on its children's values (also an
    invariant of every history: [C01_history_invariant]); [supported g]: every closure in the graph has its local
    transpose identity proved - [C01_supported_graphs]: all graphs over add, mul, neg, scale, reshape, sum, powf,
    exp, relu (with div, ln, reciprocal under the real-number scalar laws: [C01_supported_graphs_div]); sub, axpy
    and softmax are compositions of these.  [tan O g lt n] is the forward (dual-number) tangent of node n when the
    leaves carry tangents [lt] and untracked entries are constants.
    [C01_backward_exact]:  <seed, tangent of the result> = sum over leaves <stored gradient, leaf tangent>,
    for every graph (any sharing, diamonds, self-products, depth) and every seed; [C01_partial_derivatives]: with unit
    tangents, component j of the gradient of leaf l is the seed-weighted partial derivative of the result w.r.t.
    that component.  PARTIAL: graphs containing matmul / unroll / expand / sigmoid / user closures are covered once
    their local identities are added to [supported] (Props/C02.v lists what is proved).

    Statements only: every theorem below is closed by [exact <lemma>]; the lemmas are proved in
    the files imported here.  Generated with tools/gen_props.py from the lemmas' own types. *)

From Coq Require Import List Arith Bool Permutation.
From Corgi Require Import Lib.OptionMonad Lib.Sums Model.Scalar Model.Arr Model.SlicedOp Model.Elementwise Model.Linalg
     Model.Image Model.Ops Model.Engine Proofs.ArrFacts Proofs.EngineDefs Proofs.AdjointSpec Proofs.SweepBase
     Proofs.SweepLinear Proofs.FlattenSpec Proofs.DualLift Proofs.LocalAdjoint Proofs.HistoryInv
     Proofs.ValueConcrete Model.Program.
From Corgi Require Import Proofs.SweepAdjointG Proofs.FwdCode Proofs.CodeSupport Proofs.HistoryVC Proofs.C01Concrete.
Import ListNotations.

(** reverse mode equals forward mode on the concrete engine *)
Theorem C01_backward_exact :
  forall (F : Type) (O : ScalarOps F),
         is_cring O ->
         forall (g : list gnode) (lt0 : nat -> arr F),
         store_good g ->
         value_consistent O g ->
         supported O g ->
         leaf_tangents_ok g lt0 ->
         forall (r : nat) (keep : bool) (seed : option (arr F)) (s0 : arr F) (ndr : gnode)
           (g' : store pay (arr F)) (log : trace),
         grads_empty g ->
         r < length g ->
         nth_error g r = Some ndr ->
         seed_of (E O) g r seed = Some s0 ->
         (forall sd : arr F, seed = Some sd -> wf sd /\ dims sd = p_dims (n_pay ndr)) ->
         run_backward (E O) g r keep seed = Some (g', log) ->
         dot O (vals s0) (vals (tan O g lt0 r)) = leaf_pairing O g g' lt0 r.
Proof. exact @backward_exact. Qed.

(** each gradient component is the seed-weighted partial derivative *)
Theorem C01_partial_derivatives :
  forall (F : Type) (O : ScalarOps F),
         is_cring O ->
         forall (g : list gnode) (r : nat) (keep : bool) (seed : option (arr F)) (s0 : arr F) 
           (ndr : gnode) (g' : store pay (arr F)) (log : trace) (l0 : nat) (nd0 : gnode) 
           (j : nat),
         store_good g ->
         value_consistent O g ->
         supported O g ->
         grads_empty g ->
         r < length g ->
         nth_error g r = Some ndr ->
         seed_of (E O) g r seed = Some s0 ->
         (forall sd : arr F, seed = Some sd -> wf sd /\ dims sd = p_dims (n_pay ndr)) ->
         run_backward (E O) g r keep seed = Some (g', log) ->
         l0 <= r ->
         nth_error g l0 = Some nd0 ->
         p_bop (n_pay nd0) = None ->
         j < prod (p_dims (n_pay nd0)) ->
         nth j match grad_at g' l0 with
               | Some gl => vals gl
               | None => []
               end (f0 O) = dot O (vals s0) (vals (tan O g (lt_unit O g l0 j) r)).
Proof. exact @backward_partial. Qed.

(** the same for the state reached by any program history *)
Theorem C01_histories :
  forall (F : Type) (O : ScalarOps F),
         is_cring O ->
         forall (p : list instr) (s : state) (lt : nat -> arr F) (r : nat) (keep : bool)
           (seed : option (arr F)) (s0 : arr F) (ndr : gnode) (g' : store pay (arr F)) 
           (log : trace),
         reachable_state O p s ->
         supported O (st_nodes s) ->
         grads_empty (st_nodes s) ->
         leaf_tangents_ok (st_nodes s) lt ->
         nth_error (st_nodes s) r = Some ndr ->
         seed_of (E O) (st_nodes s) r seed = Some s0 ->
         (forall sd : arr F, seed = Some sd -> wf sd /\ dims sd = p_dims (n_pay ndr)) ->
         run_backward (E O) (st_nodes s) r keep seed = Some (g', log) ->
         dot O (vals s0) (vals (tan O (st_nodes s) lt r)) = leaf_pairing O (st_nodes s) g' lt r.
Proof. exact @history_backward_exact. Qed.

(** graphs over the ring closures are supported *)
Theorem C01_supported_graphs :
  forall (F : Type) (O : ScalarOps F),
         is_cring O -> forall g : list gnode, proven_graph g -> supported O g.
Proof. exact @proven_graph_supported. Qed.

(** ... plus div, ln, reciprocal under the scalar division laws *)
Theorem C01_supported_graphs_div :
  forall (F : Type) (O : ScalarOps F),
         is_cring O ->
         (forall a b : F, fdiv O a b = fmul O a (fdiv O (f1 O) b)) ->
         (forall a b : F, fdiv O (f1 O) (fmul O a b) = fmul O (fdiv O (f1 O) a) (fdiv O (f1 O) b)) ->
         (forall x : F, fpow O x (two O) = fmul O x x) ->
         forall g : list gnode, proven_graph_div g -> supported O g.
Proof. exact @proven_graph_div_supported. Qed.

(** every instruction preserves store_good and value_consistent *)
Theorem C01_history_invariant :
  forall (F : Type) (O : ScalarOps F) (s0 : state) (i : instr) (s' : state) (o : obs),
         good2 O s0 -> seed_ok s0 i -> step O s0 i = Some (s', o) -> good2 O s'.
Proof. exact @step_good2. Qed.

(** the guarded adjoint identity of the sweep *)
Theorem C01_guarded_identity :
  forall (P D : Type) (E : eops P D) (g : store P D) (T K : Type) (k0 : K) (kadd : K -> K -> K),
         (forall a b c : K, kadd a (kadd b c) = kadd (kadd a b) c) ->
         (forall a b : K, kadd a b = kadd b a) ->
         (forall a : K, kadd k0 a = a) ->
         forall (pair : D -> T -> K) (tan : nat -> T) (okd : P -> D -> Prop),
         (forall (p : P) (x y z : D), okd p x -> okd p y -> eo_add E x y = Some z -> okd p z) ->
         (forall (n : nat) (nd : node P D) (delta : D) (cs : list (nat * D)) (c : nat * D),
          nth_error g n = Some nd ->
          okd (n_pay nd) delta ->
          contribs E g n delta = Some cs ->
          In c cs -> exists ndc : node P D, nth_error g (fst c) = Some ndc /\ okd (n_pay ndc) (snd c)) ->
         (forall (p : P) (x y z : D) (t : T),
          okd p x -> okd p y -> eo_add E x y = Some z -> pair z t = kadd (pair x t) (pair y t)) ->
         (forall (n : nat) (nd : node P D) (delta : D) (cs : list (nat * D)),
          nth_error g n = Some nd ->
          hasop E nd = true ->
          okd (n_pay nd) delta ->
          contribs E g n delta = Some cs ->
          pair delta (tan n) = SweepAdjoint.ksum kadd k0 (map (SweepAdjoint.pairc T K pair tan) cs)) ->
         forall (r : nat) (s : D) (tab : table) (ndr : node P D),
         wfg E g ->
         nth_error g r = Some ndr ->
         okd (n_pay ndr) s ->
         adjoints E g r s = Some tab ->
         tok g okd tab /\
         pair s (tan r) =
         SweepAdjoint.ksum kadd k0
           (map (fun m : nat => match nth m tab None with
                                | Some d => pair d (tan m)
                                | None => k0
                                end) (filter (fun m : nat => negb (SweepAdjoint.isop E g m)) (seq 0 (S r)))).
Proof. exact @adjoint_identity_g. Qed.

Print Assumptions C01_backward_exact.
Print Assumptions C01_partial_derivatives.
Print Assumptions C01_histories.
Print Assumptions C01_supported_graphs.
Print Assumptions C01_supported_graphs_div.
Print Assumptions C01_history_invariant.
Print Assumptions C01_guarded_identity.
