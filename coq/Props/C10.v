(** C10  Gradients accumulate additively across passes; a finished pass leaves no residue

    Engine level, for any payload type P and adjoint type D with a shape-indexed commutative monoid
    ([add_ok], [add_comm], [add_assoc], [flat_sh]; for arrays: [a_add] on equal dimensions).  [good g]: well-formed,
    clean (no consumer count, no pending delta), closures respect their flags, gradients have their node's shape.
    [adjoints E g r s] is the stand-alone adjoint table of a pass on r with seed s.  [stored_opt o od o']: slot o' is o
    with od added (unchanged when od is None).

    Statements only: every theorem below is closed by [exact <lemma>]; the lemmas are proved in
    the files imported here.  Generated with tools/gen_props.py from the lemmas' own types. *)

From Coq Require Import List Arith Bool Permutation.
From Corgi Require Import Lib.OptionMonad Model.Engine Proofs.EngineDefs Proofs.EngineBase Proofs.Propagate
     Proofs.EngineInv Proofs.AdjointSpec Proofs.SweepBase Proofs.SweepAdjoint Proofs.SweepLinear
     Proofs.ValueAlg Proofs.SweepChar Proofs.EngineSeg Proofs.EngineValue Proofs.PassTheorems.

(** a successful pass from a good store ends in a good store (all counts 0, no pending delta) with the same skeleton *)
Theorem C10_no_residue :
  forall (P D : Type) (E : eops P D) (S : Type) (sh : D -> S) (psh : P -> S),
         (forall x y : D, sh x = sh y -> exists z : D, eo_add E x y = Some z /\ sh z = sh x) ->
         (forall x y : D, sh x = sh y -> eo_add E x y = eo_add E y x) ->
         (forall x y z xy yz : D,
          sh x = sh y ->
          sh y = sh z -> eo_add E x y = Some xy -> eo_add E y z = Some yz -> eo_add E xy z = eo_add E x yz) ->
         (forall (d : D) (p : P) (d' : D), eo_flat E d p = Some d' -> sh d' = psh p) ->
         forall (g : store P D) (r : nat) (keep : bool) (seed : option D) (s0 : D) 
           (g' : store P D) (log : trace),
         good E S sh psh g ->
         seed_ok E S sh psh g r seed s0 ->
         run_backward E g r keep seed = Some (g', log) -> good E S sh psh g' /\ skel_eq g g'.
Proof. exact @pass_preserves_invariants. Qed.

(** earlier passes cannot influence what a later pass computes: same skeleton => same adjoint table and the same closure calls *)
Theorem C10_independent :
  forall (P D : Type) (E : eops P D) (S : Type) (sh : D -> S) (psh : P -> S),
         (forall x y : D, sh x = sh y -> exists z : D, eo_add E x y = Some z /\ sh z = sh x) ->
         (forall x y : D, sh x = sh y -> eo_add E x y = eo_add E y x) ->
         (forall x y z xy yz : D,
          sh x = sh y ->
          sh y = sh z -> eo_add E x y = Some xy -> eo_add E y z = Some yz -> eo_add E xy z = eo_add E x yz) ->
         (forall (d : D) (p : P) (d' : D), eo_flat E d p = Some d' -> sh d' = psh p) ->
         forall (g1 g2 : store P D) (r : nat) (keep : bool) (seed : option D) (s0 : D) 
           (g1' : store P D) (log1 : trace) (g2' : store P D) (log2 : trace),
         skel_eq g1 g2 ->
         good E S sh psh g1 ->
         good E S sh psh g2 ->
         seed_ok E S sh psh g1 r seed s0 ->
         run_backward E g1 r keep seed = Some (g1', log1) ->
         run_backward E g2 r keep seed = Some (g2', log2) ->
         seed_of E g2 r seed = Some s0 /\
         adjoints E g1 r s0 = adjoints E g2 r s0 /\
         (forall (id : nat) (delta : D), In (id, delta) log1 <-> In (id, delta) log2) /\ Permutation log1 log2.
Proof. exact @pass_independent. Qed.

(** after two passes each leaf slot is (old + table1) + table2, both tables computed stand-alone on the original store *)
Theorem C10_two_passes :
  forall (P D : Type) (E : eops P D) (S : Type) (sh : D -> S) (psh : P -> S),
         (forall x y : D, sh x = sh y -> exists z : D, eo_add E x y = Some z /\ sh z = sh x) ->
         (forall x y : D, sh x = sh y -> eo_add E x y = eo_add E y x) ->
         (forall x y z xy yz : D,
          sh x = sh y ->
          sh y = sh z -> eo_add E x y = Some xy -> eo_add E y z = Some yz -> eo_add E xy z = eo_add E x yz) ->
         (forall (d : D) (p : P) (d' : D), eo_flat E d p = Some d' -> sh d' = psh p) ->
         forall (g : store P D) (r1 : nat) (keep1 : bool) (seed1 : option D) (s1 : D) 
           (r2 : nat) (keep2 : bool) (seed2 : option D) (s2 : D) (g1 : store P D) (log1 : trace)
           (g2 : store P D) (log2 : trace),
         good E S sh psh g ->
         seed_ok E S sh psh g r1 seed1 s1 ->
         seed_ok E S sh psh g r2 seed2 s2 ->
         run_backward E g r1 keep1 seed1 = Some (g1, log1) ->
         run_backward E g1 r2 keep2 seed2 = Some (g2, log2) ->
         exists tab1 tab2 : table,
           adjoints E g r1 s1 = Some tab1 /\
           adjoints E g r2 s2 = Some tab2 /\
           good E S sh psh g2 /\
           skel_eq g g2 /\
           (forall (id : nat) (nd nd2 : node P D),
            nth_error g id = Some nd ->
            nth_error g2 id = Some nd2 ->
            n_children nd = nil ->
            exists o1 : option D,
              stored_opt E (n_grad nd) (nth id tab1 None) o1 /\ stored_opt E o1 (nth id tab2 None) (n_grad nd2)).
Proof. exact @two_passes_add. Qed.

(** any sequence of passes and gradient clears: each leaf holds the sum of the stand-alone tables since its last clear *)
Theorem C10_histories :
  forall (P D : Type) (E : eops P D) (S : Type) (sh : D -> S) (psh : P -> S),
         (forall x y : D, sh x = sh y -> exists z : D, eo_add E x y = Some z /\ sh z = sh x) ->
         (forall x y : D, sh x = sh y -> eo_add E x y = eo_add E y x) ->
         (forall x y z xy yz : D,
          sh x = sh y ->
          sh y = sh z -> eo_add E x y = Some xy -> eo_add E y z = Some yz -> eo_add E xy z = eo_add E x yz) ->
         (forall (d : D) (p : P) (d' : D), eo_flat E d p = Some d' -> sh d' = psh p) ->
         forall (g0 : store P D) (st : list step) (gN : store P D),
         good E S sh psh g0 ->
         Forall (step_ok E S sh psh g0) st ->
         run_steps E g0 st = Some gN ->
         good E S sh psh gN /\
         skel_eq g0 gN /\
         (forall (id : nat) (nd ndN : node P D),
          nth_error g0 id = Some nd ->
          nth_error gN id = Some ndN -> n_children nd = nil -> acc_steps E g0 st id (n_grad nd) (n_grad ndN)).
Proof. exact @steps_accumulate. Qed.

(** clearing a gradient preserves the invariant and the skeleton *)
Theorem C10_clear :
  forall (P D : Type) (E : eops P D) (S : Type) (sh : D -> S) (psh : P -> S) 
           (g : store P D) (i : nat) (g' : store P D),
         good E S sh psh g ->
         clear_grad g i = Some g' ->
         good E S sh psh g' /\
         skel_eq g g' /\
         (forall (id : nat) (nd nd' : node P D),
          nth_error g id = Some nd ->
          nth_error g' id = Some nd' -> n_grad nd' = (if i =? id then None else n_grad nd)).
Proof. exact @clear_grad_preserves. Qed.

Print Assumptions C10_no_residue.
Print Assumptions C10_independent.
Print Assumptions C10_two_passes.
Print Assumptions C10_histories.
Print Assumptions C10_clear.
