(** C07  Reductions, reshape and point-wise functions compute their definitions

    [vsum O l] is the left fold of [fadd] from [f0] (Rust's [iter().sum()]); [block g j l] is the j-th block of
    length g of the row-major values.  No ring assumptions: the statements are the literal functions.  The facts
    "every softmax row is positive and sums to one" are about real numbers and live in Props/C07real.v.

    Statements only: every theorem below is closed by [exact <lemma>]; the lemmas are proved in
    the files imported here.  Generated with tools/gen_props.py from the lemmas' own types. *)

From Coq Require Import List Arith Bool ZArith.
From Corgi Require Import Lib.OptionMonad Lib.Sums Model.Scalar Model.Arr Model.SlicedOp Model.Elementwise
     Model.Linalg Model.Image Proofs.ArrFacts Proofs.BroadcastDims Proofs.SpecDefs Proofs.SlicedOpSpec
     Proofs.EwSpec Proofs.ReduceSpec.
Import ListNotations.

(** sum(0) is the identity *)
Theorem C07_sum_zero :
  forall (F : Type) (O0 : ScalarOps F) (a : arr F), a_sum O0 0 a = Some a.
Proof. exact @a_sum_zero. Qed.

(** sum(k): last k dimensions collapsed into one unit dimension holding their sums *)
Theorem C07_sum :
  forall (F : Type) (O0 : ScalarOps F) (k : nat) (a : arr F),
         wf a ->
         1 <= k <= length (dims a) ->
         let lead := firstn (length (dims a) - k) (dims a) in
         let g := prod (lastn k (dims a)) in
         exists c : arr F,
           a_sum O0 k a = Some c /\
           wf c /\
           dims c = lead ++ [1] /\
           (forall J : list nat,
            in_range J lead -> get c (J ++ [0]) = Some (vsum O0 (block g (rowmajor lead J) (vals a)))).
Proof. exact @a_sum_spec. Qed.

(** ... and the summed block is the sub-array at the leading index *)
Theorem C07_sum_block :
  forall (F : Type) (k : nat) (a : arr F) (J : list nat),
         wf a ->
         k <= length (dims a) ->
         in_range J (firstn (length (dims a) - k) (dims a)) ->
         map Some
           (block (prod (lastn k (dims a))) (rowmajor (firstn (length (dims a) - k) (dims a)) J) (vals a)) =
         map (fun K : list nat => get a (J ++ K)) (all_indices (lastn k (dims a))).
Proof. exact @a_sum_block_indices. Qed.

(** reshape keeps the row-major values and succeeds exactly for valid dimensions of the same element count *)
Theorem C07_reshape :
  forall (F : Type) (d : list nat) (a c : arr F),
         a_reshape d a = Some c <->
         Forall (fun x : nat => 1 <= x) d /\ prod d = length (vals a) /\ c = {| dims := d; vals := vals a |}.
Proof. exact @a_reshape_spec. Qed.

(** negation (multiplication by -1) *)
Theorem C07_neg :
  forall (F : Type) (O : ScalarOps F) (a : arr F),
         wf a ->
         a_neg O a = Some {| dims := dims a; vals := map (fun x : F => fmul O x (fneg O (f1 O))) (vals a) |}.
Proof. exact @a_neg_spec. Qed.

(** scaling *)
Theorem C07_scale :
  forall (F : Type) (O : ScalarOps F) (s : F) (a : arr F),
         wf a -> a_scale O s a = Some {| dims := dims a; vals := map (fun x : F => fmul O x s) (vals a) |}.
Proof. exact @a_scale_spec. Qed.

(** powf *)
Theorem C07_powf :
  forall (F : Type) (O : ScalarOps F) (e : F) (a : arr F),
         wf a -> a_powf O e a = Some {| dims := dims a; vals := map (fun x : F => fpow O x e) (vals a) |}.
Proof. exact @a_powf_spec. Qed.

(** ln *)
Theorem C07_ln :
  forall (F : Type) (O : ScalarOps F) (a : arr F),
         wf a -> a_ln O a = Some {| dims := dims a; vals := map (fln O) (vals a) |}.
Proof. exact @a_ln_spec. Qed.

(** exp *)
Theorem C07_exp :
  forall (F : Type) (O : ScalarOps F) (a : arr F),
         wf a -> a_exp O a = Some {| dims := dims a; vals := map (fexp O) (vals a) |}.
Proof. exact @a_exp_spec. Qed.

(** reciprocal *)
Theorem C07_reciprocal :
  forall (F : Type) (O : ScalarOps F) (a : arr F),
         wf a ->
         a_reciprocal O a = Some {| dims := dims a; vals := map (fun x : F => fdiv O (f1 O) x) (vals a) |}.
Proof. exact @a_reciprocal_spec. Qed.

(** relu *)
Theorem C07_relu :
  forall (F : Type) (O : ScalarOps F) (a : arr F),
         wf a ->
         a_relu O a =
         Some {| dims := dims a; vals := map (fun x : F => if fgt0 O x then x else f0 O) (vals a) |}.
Proof. exact @a_relu_spec. Qed.

(** sigmoid = 1 / (1 + exp (-x)) *)
Theorem C07_sigmoid :
  forall (F : Type) (O : ScalarOps F) (a : arr F),
         wf a ->
         a_sigmoid O a =
         Some
           {|
             dims := dims a;
             vals := map (fun x : F => fdiv O (f1 O) (fadd O (f1 O) (fexp O (fneg O x)))) (vals a)
           |}.
Proof. exact @a_sigmoid_spec. Qed.

(** softmax divides exponentials by their sum over the last dimension *)
Theorem C07_softmax :
  forall (F : Type) (O : ScalarOps F) (a : arr F) (lead : list nat) (n : nat),
         wf a ->
         dims a = lead ++ [n] ->
         exists c : arr F,
           a_softmax O a = Some c /\
           wf c /\
           dims c = dims a /\
           (forall (J : list nat) (i : nat),
            in_range J lead ->
            i < n ->
            exists x : F,
              get a (J ++ [i]) = Some x /\
              get c (J ++ [i]) =
              Some (fdiv O (fexp O x) (vsum O (map (fexp O) (block n (rowmajor lead J) (vals a)))))).
Proof. exact @a_softmax_spec. Qed.

(** [sum_all] is the sum of all values by definition. *)
Theorem C07_sum_all : forall (F : Type) (O : ScalarOps F) (a : arr F), a_sum_all O a = vsum O (vals a).
Proof. reflexivity. Qed.

Example C07_example :
  let a := {| dims := [2; 2; 2]; vals := [1; 2; 3; 4; 5; 6; 7; 8]%Z |} in
  wf a /\ option_map (fun r => (dims r, vals r)) (a_sum Z_ops 2 a) = Some ([2; 1], [10; 26]%Z)
  /\ option_map (@vals Z) (a_reshape [4; 2] a) = Some [1; 2; 3; 4; 5; 6; 7; 8]%Z
  /\ a_reshape [3; 2] a = None.
Proof. unfold wf; simpl. repeat split; repeat constructor. Qed.
Print Assumptions C07_sum_all.

Print Assumptions C07_sum_zero.
Print Assumptions C07_sum.
Print Assumptions C07_sum_block.
Print Assumptions C07_reshape.
Print Assumptions C07_neg.
Print Assumptions C07_scale.
Print Assumptions C07_powf.
Print Assumptions C07_ln.
Print Assumptions C07_exp.
Print Assumptions C07_reciprocal.
Print Assumptions C07_relu.
Print Assumptions C07_sigmoid.
Print Assumptions C07_softmax.
