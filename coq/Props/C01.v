(** C01  Reverse-mode gradients are exact on arbitrary computation graphs

    Engine level (any graph: any sharing, diamonds, self-products, depth).  [pair d t] is the pairing of an
    adjoint with a tangent, [tan n] the forward tangent of node n; [H_local] is the LOCAL transpose identity of one
    operation (proved per built-in operation in Props/C02.v, assumed for user closures); [H_pair_add]: the pairing is
    additive.  [C01_reverse_equals_forward]: after a successful pass from a clean store with empty gradient slots,
    <seed, tangent of the result> = sum over leaves <stored gradient, leaf tangent>: the stored gradients are the
    transpose of the forward derivative, every path counted exactly once.

    Statements only: every theorem below is closed by [exact <lemma>]; the lemmas are proved in
    the files imported here.  Generated with tools/gen_props.py from the lemmas' own types. *)

From Coq Require Import List Arith Bool Permutation.
From Corgi Require Import Lib.OptionMonad Model.Engine Proofs.EngineDefs Proofs.EngineBase Proofs.Propagate
     Proofs.EngineInv Proofs.AdjointSpec Proofs.SweepBase Proofs.SweepAdjoint Proofs.SweepLinear
     Proofs.ValueAlg Proofs.SweepChar Proofs.EngineSeg Proofs.EngineValue Proofs.PassTheorems.

(** the engine's stored leaf gradients satisfy the adjoint identity *)
Theorem C01_reverse_equals_forward :
  forall (P D : Type) (E : eops P D) (S0 : Type) (sh : D -> S0) (psh : P -> S0),
         (forall x y : D, sh x = sh y -> exists z : D, eo_add E x y = Some z /\ sh z = sh x) ->
         (forall x y : D, sh x = sh y -> eo_add E x y = eo_add E y x) ->
         (forall x y z xy yz : D,
          sh x = sh y ->
          sh y = sh z -> eo_add E x y = Some xy -> eo_add E y z = Some yz -> eo_add E xy z = eo_add E x yz) ->
         (forall (d : D) (p : P) (d' : D), eo_flat E d p = Some d' -> sh d' = psh p) ->
         forall (g : store P D) (T K : Type) (k0 : K) (kadd : K -> K -> K),
         (forall a b c : K, kadd a (kadd b c) = kadd (kadd a b) c) ->
         (forall a b : K, kadd a b = kadd b a) ->
         (forall a : K, kadd k0 a = a) ->
         forall (pair0 : D -> T -> K) (tan : nat -> T),
         (forall (x y z : D) (t : T), eo_add E x y = Some z -> pair0 z t = kadd (pair0 x t) (pair0 y t)) ->
         (forall (n : nat) (nd : node P D) (delta : D) (cs : list (nat * D)),
          nth_error g n = Some nd ->
          hasop E nd = true ->
          contribs E g n delta = Some cs ->
          pair0 delta (tan n) = ksum kadd k0 (map (fun c : nat * D => pair0 (snd c) (tan (fst c))) cs)) ->
         forall (r : nat) (keep : bool) (seed : option D) (s0 : D) (g' : store P D) (log : trace),
         good E S0 sh psh g ->
         (forall (id : nat) (nd : node P D), nth_error g id = Some nd -> n_grad nd = None) ->
         seed_ok E S0 sh psh g r seed s0 ->
         run_backward E g r keep seed = Some (g', log) ->
         pair0 s0 (tan r) =
         ksum kadd k0
           (map (fun m : nat => match grd g' m with
                                | Some d => pair0 d (tan m)
                                | None => k0
                                end) (filter (fun m : nat => negb (isop E g m)) (seq 0 (S r)))).
Proof. exact @reverse_equals_forward. Qed.

(** the consumer-count driven depth-first engine computes exactly the adjoint table of the topological sweep *)
Theorem C01_engine_is_sweep :
  forall (P D : Type) (E : eops P D) (S : Type) (sh : D -> S) (psh : P -> S),
         (forall x y : D, sh x = sh y -> exists z : D, eo_add E x y = Some z /\ sh z = sh x) ->
         (forall x y : D, sh x = sh y -> eo_add E x y = eo_add E y x) ->
         (forall x y z xy yz : D,
          sh x = sh y ->
          sh y = sh z -> eo_add E x y = Some xy -> eo_add E y z = Some yz -> eo_add E xy z = eo_add E x yz) ->
         (forall (d : D) (p : P) (d' : D), eo_flat E d p = Some d' -> sh d' = psh p) ->
         forall (g : store P D) (r : nat) (keep : bool) (seed : option D) (s0 : D) 
           (ndr : node P D) (g' : store P D) (log : trace),
         wfg E g ->
         clean g ->
         bop_contract E g ->
         r < length g ->
         nth_error g r = Some ndr ->
         seed_of E g r seed = Some s0 ->
         sh s0 = psh (n_pay ndr) ->
         (forall (id : nat) (nd : node P D) (x : D),
          nth_error g id = Some nd -> n_grad nd = Some x -> sh x = psh (n_pay nd)) ->
         run_backward E g r keep seed = Some (g', log) ->
         exists tab : table,
           adjoints E g r s0 = Some tab /\
           length tab = length g /\
           nth_error tab r = Some (Some s0) /\
           (forall (id : nat) (delta : D), In (id, delta) log -> nth_error tab id = Some (Some delta)) /\
           (forall id : nat, id < length g -> nth id tab None <> None <-> reach g r id) /\
           (forall (id : nat) (nd : node P D) (delta : D),
            nth_error g id = Some nd -> nth_error tab id = Some (Some delta) -> sh delta = psh (n_pay nd)) /\
           (forall (id : nat) (nd nd' : node P D),
            nth_error g id = Some nd ->
            nth_error g' id = Some nd' ->
            n_grad nd' = n_grad nd \/
            (exists delta : D, nth_error tab id = Some (Some delta) /\ stored E (n_grad nd) delta (n_grad nd'))) /\
           (forall (id : nat) (nd nd' : node P D) (delta : D),
            nth_error g id = Some nd ->
            nth_error g' id = Some nd' ->
            nth_error tab id = Some (Some delta) ->
            n_children nd = nil -> stored E (n_grad nd) delta (n_grad nd')) /\
           (forall ndr' : node P D,
            nth_error g' r = Some ndr' ->
            (keep = true \/ n_children ndr = nil -> stored E (n_grad ndr) s0 (n_grad ndr')) /\
            (keep = false -> n_children ndr <> nil -> n_grad ndr' = n_grad ndr)) /\
           (forall (id : nat) (nd nd' : node P D) (delta : D),
            nth_error g id = Some nd ->
            nth_error g' id = Some nd' ->
            id <> r ->
            nth_error tab id = Some (Some delta) ->
            (forall (p : nat) (ndp : node P D) (e : entry),
             reach g r p ->
             nth_error g p = Some ndp ->
             In e (n_children ndp) -> e_tracked e = true -> e_node e = id -> e_keep e = true) ->
            stored E (n_grad nd) delta (n_grad nd')) /\
           (forall (id : nat) (nd nd' : node P D),
            nth_error g id = Some nd ->
            nth_error g' id = Some nd' ->
            id <> r ->
            n_children nd <> nil ->
            (forall (p : nat) (ndp : node P D) (e : entry),
             reach g r p ->
             nth_error g p = Some ndp ->
             In e (n_children ndp) -> e_tracked e = true -> e_node e = id -> e_keep e = false) ->
            n_grad nd' = n_grad nd) /\
           (forall (id : nat) (nd' : node P D) (x : D),
            nth_error g' id = Some nd' -> n_grad nd' = Some x -> sh x = psh (n_pay nd')).
Proof. exact @pass_value. Qed.

(** the sweep satisfies the adjoint identity *)
Theorem C01_sweep_adjoint_identity :
  forall (P D : Type) (E : eops P D) (g : store P D) (T K : Type) (k0 : K) (kadd : K -> K -> K),
         (forall a b c : K, kadd a (kadd b c) = kadd (kadd a b) c) ->
         (forall a b : K, kadd a b = kadd b a) ->
         (forall a : K, kadd k0 a = a) ->
         forall (pair : D -> T -> K) (tan : nat -> T),
         (forall (x y z : D) (t : T), eo_add E x y = Some z -> pair z t = kadd (pair x t) (pair y t)) ->
         (forall (n : nat) (nd : node P D) (delta : D) (cs : list (nat * D)),
          nth_error g n = Some nd ->
          hasop E nd = true ->
          contribs E g n delta = Some cs -> pair delta (tan n) = ksum kadd k0 (map (pairc T K pair tan) cs)) ->
         forall (r : nat) (s : D) (tab : table),
         wfg E g ->
         r < length g ->
         adjoints E g r s = Some tab ->
         pair s (tan r) =
         ksum kadd k0
           (map (fun m : nat => match nth m tab None with
                                | Some d => pair d (tan m)
                                | None => k0
                                end) (filter (fun m : nat => negb (isop E g m)) (seq 0 (S r)))).
Proof. exact @adjoint_identity. Qed.

(** a node gets an adjoint iff it is reachable through tracked entries *)
Theorem C01_reach :
  forall (P D : Type) (E : eops P D) (g : store P D) (r : nat) (s : D) (tab : table),
         wfg E g ->
         bop_contract E g ->
         r < length g ->
         adjoints E g r s = Some tab -> forall id : nat, nth id tab None <> None <-> reach g r id.
Proof. exact @adjoints_reach. Qed.

Print Assumptions C01_reverse_equals_forward.
Print Assumptions C01_engine_is_sweep.
Print Assumptions C01_sweep_adjoint_identity.
Print Assumptions C01_reach.
