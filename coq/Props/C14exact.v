(** C14exact  (end to end) each iteration steps every parameter by -lr times the exact gradient of the current loss

    The composition of C14 (training loop bookkeeping), C13 (update) and C01 (exactness).  [ready s]: the loop
    invariant of Props/C14.v; [reachable_ok_all O p s]: s is reached by a program whose instructions satisfy the shape
    side conditions of Props/C01full.v; [layers_ok_all]: the batch has a shape the layers accept.  For EVERY tangent
    direction tau on the parameters,
        sum over parameters p of <theta_p - theta'_p, tau_p>  =  lr * <ones, dual-number tangent of the cost node along tau>
    i.e. theta' = theta - lr * grad(summed cost), the cost being that of the CURRENT parameters on the CURRENT batch
    (its value is the returned loss), whatever the store still contains from earlier iterations (the generalised
    identity [C14_backward_exact_reach] needs only the slots of the reachable leaves to be empty, which [ready]
    guarantees); and the state is [ready] again.  Dense and convolutional layers, every activation, both costs.

    Statements only: every theorem below is closed by [exact <lemma>]; the lemmas are proved in
    the files imported here.  Generated with tools/gen_props.py from the lemmas' own types. *)

From Coq Require Import List Arith Bool Permutation.
From Corgi Require Import Lib.OptionMonad Lib.Sums Model.Scalar Model.Arr Model.SlicedOp Model.Elementwise Model.Linalg
     Model.Image Model.Ops Model.Engine Proofs.ArrFacts Proofs.EngineDefs Proofs.AdjointSpec Proofs.SweepBase
     Proofs.SweepLinear Proofs.FlattenSpec Proofs.DualLift Proofs.LocalAdjoint Proofs.HistoryInv
     Proofs.ValueConcrete Model.Program.
From Corgi Require Import Model.RealScalar Proofs.FwdCode Proofs.HistoryVC Proofs.C01Gen Proofs.CodeSupport3 Proofs.HistoryPre3
     Proofs.C01History3 Proofs.TrainLoop Proofs.C01Reach Proofs.TrainExact Proofs.TrainExactR.
Import ListNotations.

(** one iteration from a ready, good state *)
Theorem C14_train_step_exact :
  forall (F : Type) (O : ScalarOps F),
         is_cring O ->
         (forall a b : F, fdiv O a b = fmul O a (fdiv O (f1 O) b)) ->
         (forall a b : F, fdiv O (f1 O) (fmul O a b) = fmul O (fdiv O (f1 O) a) (fdiv O (f1 O) b)) ->
         (forall x : F, fpow O x (two O) = fmul O x x) ->
         (forall x x' : F, fst (sigmoid_fn (dual_ops O) (x, x')) = sigmoid_fn O x) ->
         (forall x x' : F,
          snd (sigmoid_fn (dual_ops O) (x, x')) =
          fmul O (fmul O (sigmoid_fn O x) (fsub O (f1 O) (sigmoid_fn O x))) x') ->
         forall (s : state) (x : handle) (s1 : state) (out t : handle) (s2 : state) 
           (loss : F) (s3 : state) (tau : nat -> arr F),
         ready s ->
         good_all O s ->
         hvalid (st_nodes s) x ->
         layers_ok_all O s (st_layers s) x ->
         model_forward O s x = Some (s1, out) ->
         hvalid (st_nodes s1) t ->
         model_backward O s1 t = Some (s2, loss) ->
         model_update O s2 = Some s3 ->
         tau_ok s tau ->
         exists (sc : state) (err : handle) (ndr : gnode),
           cost_apply O s1 (st_cost s) out t = Some (sc, err) /\
           nth_error (st_nodes sc) (e_node err) = Some ndr /\
           loss = a_sum_all O (pay_arr (n_pay ndr)) /\
           param_step_pairing O s s3 tau =
           fmul O (st_lr s)
             (dot O (vals (eo_ones (E O) (n_pay ndr)))
                (vals (tan O (st_nodes sc) (lt_params O s (st_nodes sc) tau) (e_node err)))) /\ 
           ready s3.
Proof. exact @train_step_exact. Qed.

(** the same for the state reached by any program history *)
Theorem C14_train_step_exact_history :
  forall (F : Type) (O : ScalarOps F),
         is_cring O ->
         (forall a b : F, fdiv O a b = fmul O a (fdiv O (f1 O) b)) ->
         (forall a b : F, fdiv O (f1 O) (fmul O a b) = fmul O (fdiv O (f1 O) a) (fdiv O (f1 O) b)) ->
         (forall x : F, fpow O x (two O) = fmul O x x) ->
         (forall x x' : F, fst (sigmoid_fn (dual_ops O) (x, x')) = sigmoid_fn O x) ->
         (forall x x' : F,
          snd (sigmoid_fn (dual_ops O) (x, x')) =
          fmul O (fmul O (sigmoid_fn O x) (fsub O (f1 O) (sigmoid_fn O x))) x') ->
         forall (p : list instr) (s : state) (x : handle) (s1 : state) (out t : handle) 
           (s2 : state) (loss : F) (s3 : state) (tau : nat -> arr F),
         reachable_ok_all O p s ->
         ready s ->
         hvalid (st_nodes s) x ->
         layers_ok_all O s (st_layers s) x ->
         model_forward O s x = Some (s1, out) ->
         hvalid (st_nodes s1) t ->
         model_backward O s1 t = Some (s2, loss) ->
         model_update O s2 = Some s3 ->
         tau_ok s tau ->
         exists (sc : state) (err : handle) (ndr : gnode),
           cost_apply O s1 (st_cost s) out t = Some (sc, err) /\
           nth_error (st_nodes sc) (e_node err) = Some ndr /\
           loss = a_sum_all O (pay_arr (n_pay ndr)) /\
           param_step_pairing O s s3 tau =
           fmul O (st_lr s)
             (dot O (vals (eo_ones (E O) (n_pay ndr)))
                (vals (tan O (st_nodes sc) (lt_params O s (st_nodes sc) tau) (e_node err)))) /\ 
           ready s3.
Proof. exact @train_step_exact_history. Qed.

(** over the real numbers, no scalar hypothesis *)
Theorem C14_train_step_exact_reals :
  forall (s : state) (x : handle) (s1 : state) (out t : handle) (s2 : state)
           (loss : Rdefinitions.RbaseSymbolsImpl.R) (s3 : state)
           (tau : nat -> arr Rdefinitions.RbaseSymbolsImpl.R),
         ready s ->
         good_all R_ops s ->
         hvalid (st_nodes s) x ->
         layers_ok_all R_ops s (st_layers s) x ->
         model_forward R_ops s x = Some (s1, out) ->
         hvalid (st_nodes s1) t ->
         model_backward R_ops s1 t = Some (s2, loss) ->
         model_update R_ops s2 = Some s3 ->
         tau_ok s tau ->
         exists (sc : state) (err : handle) (ndr : gnode),
           cost_apply R_ops s1 (st_cost s) out t = Some (sc, err) /\
           nth_error (st_nodes sc) (e_node err) = Some ndr /\
           loss = a_sum_all R_ops (pay_arr (n_pay ndr)) /\
           param_step_pairing R_ops s s3 tau =
           fmul R_ops (st_lr s)
             (dot R_ops (vals (eo_ones (E R_ops) (n_pay ndr)))
                (vals (tan R_ops (st_nodes sc) (lt_params R_ops s (st_nodes sc) tau) (e_node err)))) /\
           ready s3.
Proof. exact @train_step_exact_R. Qed.

(** reverse = forward when only the reachable leaves' slots are empty *)
Theorem C14_backward_exact_reach :
  forall (F : Type) (O0 : ScalarOps F),
         is_cring O0 ->
         (forall a b : F, fdiv O0 a b = fmul O0 a (fdiv O0 (f1 O0) b)) ->
         (forall a b : F, fdiv O0 (f1 O0) (fmul O0 a b) = fmul O0 (fdiv O0 (f1 O0) a) (fdiv O0 (f1 O0) b)) ->
         (forall x : F, fpow O0 x (two O0) = fmul O0 x x) ->
         (forall x x' : F, fst (sigmoid_fn (dual_ops O0) (x, x')) = sigmoid_fn O0 x) ->
         (forall x x' : F,
          snd (sigmoid_fn (dual_ops O0) (x, x')) =
          fmul O0 (fmul O0 (sigmoid_fn O0 x) (fsub O0 (f1 O0) (sigmoid_fn O0 x))) x') ->
         forall (g : list gnode) (lt0 : nat -> arr F) (r : nat) (keep : bool) (seed : option (arr F))
           (s0 : arr F) (ndr : gnode) (g' : store pay (arr F)) (log : trace) (rb : nat -> bool),
         store_good g ->
         value_consistent O0 g ->
         pre_ok_gen code_pre3 g ->
         C01Concrete.leaf_tangents_ok g lt0 ->
         (forall l : nat, l < length g -> rb l = true <-> EngineDefs.reach g r l) ->
         (forall (l : nat) (nd : gnode),
          EngineDefs.reach g r l -> nth_error g l = Some nd -> p_bop (n_pay nd) = None -> n_grad nd = None) ->
         r < length g ->
         nth_error g r = Some ndr ->
         seed_of (E O0) g r seed = Some s0 ->
         (forall sd : arr F, seed = Some sd -> wf sd /\ dims sd = p_dims (n_pay ndr)) ->
         run_backward (E O0) g r keep seed = Some (g', log) ->
         dot O0 (vals s0) (vals (tan O0 g lt0 r)) =
         vsum O0 (map (grad_term O0 g' lt0) (filter (fun l : nat => is_leaf g l && rb l) (seq 0 (S r)))).
Proof. exact @backward_exact_reach. Qed.

(** the table form: no assumption on the gradient slots at all *)
Theorem C14_backward_table :
  forall (F : Type) (O0 : ScalarOps F),
         is_cring O0 ->
         (forall a b : F, fdiv O0 a b = fmul O0 a (fdiv O0 (f1 O0) b)) ->
         (forall a b : F, fdiv O0 (f1 O0) (fmul O0 a b) = fmul O0 (fdiv O0 (f1 O0) a) (fdiv O0 (f1 O0) b)) ->
         (forall x : F, fpow O0 x (two O0) = fmul O0 x x) ->
         (forall x x' : F, fst (sigmoid_fn (dual_ops O0) (x, x')) = sigmoid_fn O0 x) ->
         (forall x x' : F,
          snd (sigmoid_fn (dual_ops O0) (x, x')) =
          fmul O0 (fmul O0 (sigmoid_fn O0 x) (fsub O0 (f1 O0) (sigmoid_fn O0 x))) x') ->
         forall (g : list gnode) (lt0 : nat -> arr F) (r : nat) (keep : bool) (seed : option (arr F))
           (s0 : arr F) (ndr : gnode) (g' : store pay (arr F)) (log : trace),
         store_good g ->
         value_consistent O0 g ->
         pre_ok_gen code_pre3 g ->
         C01Concrete.leaf_tangents_ok g lt0 ->
         r < length g ->
         nth_error g r = Some ndr ->
         seed_of (E O0) g r seed = Some s0 ->
         (forall sd : arr F, seed = Some sd -> wf sd /\ dims sd = p_dims (n_pay ndr)) ->
         run_backward (E O0) g r keep seed = Some (g', log) ->
         exists tab : table,
           adjoints (E' O0) g r s0 = Some tab /\
           length tab = length g /\
           dot O0 (vals s0) (vals (tan O0 g lt0 r)) =
           vsum O0 (map (tab_term O0 tab lt0) (filter (is_leaf g) (seq 0 (S r)))) /\
           (forall id : nat, id < length g -> nth id tab None <> None <-> EngineDefs.reach g r id) /\
           (forall (m : nat) (nd : gnode) (nd' : node pay (arr F)),
            nth_error g m = Some nd ->
            nth_error g' m = Some nd' ->
            n_children nd = [] ->
            match nth m tab None with
            | Some d => EngineValue.stored (E' O0) (n_grad nd) d (n_grad nd')
            | None => n_grad nd' = n_grad nd
            end) /\ length g' = length g.
Proof. exact @backward_table_all. Qed.

Print Assumptions C14_train_step_exact.
Print Assumptions C14_train_step_exact_history.
Print Assumptions C14_train_step_exact_reals.
Print Assumptions C14_backward_exact_reach.
Print Assumptions C14_backward_table.
