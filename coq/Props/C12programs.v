(** C12programs  (whole programs) clones, drops and re-binding never change results

    [variant A L n n' p p' m]: the program p' is obtained from p by renaming pool slots through aliases (an operand
    replaced by a clone of it, the pass started from a clone of the result, a gradient read through a clone), by
    inserting right-only [IClone]s and by inserting right-only [IDrop]s of handles the rest of p reaches only through
    another alias (dropping a handle the program no longer names; re-binding is dropping the old handle).  [m] marks the
    matched instructions.  [C12_variant_observations]: if p does not panic then p' does not panic and the observations of
    the matched instructions coincide - literally for values, gradients, flags, losses and parameters; closure logs up to
    the (ghost) tag of the creating instruction.  Covered: every instruction except [ITakeVec] (Vec::from succeeds only
    for a sole owner, so it legitimately depends on the number of handles; counterexample by vm_compute in the file).

    Statements only: every theorem below is closed by [exact <lemma>]; the lemmas are proved in
    the files imported here.  Generated with tools/gen_props.py from the lemmas' own types. *)

From Coq Require Import List Arith Bool.
From Corgi Require Import Lib.OptionMonad Model.Scalar Model.Arr Model.Ops Model.Engine Model.Program
     Proofs.ProgramFacts Proofs.TagNat Proofs.Transparency.
Import ListNotations.

(** whole-program observational equivalence *)
Theorem C12_variant_observations :
  forall (F : Type) (O0 : ScalarOps F) (tau : nat -> nat) (p p' : list instr) 
           (m : list bool) (os : list obs),
         variant tau [] [] 0 0 p p' m ->
         run O0 p = (os, false) -> exists os' : list obs, run O0 p' = (os', false) /\ obs_match tau m os os'.
Proof. exact @variant_observations. Qed.

(** the one-step simulation, every instruction except ITakeVec *)
Theorem C12_one_step :
  forall (F : Type) (O : ScalarOps F) (tau : nat -> nat) (A : list (nat * nat)) 
           (L : list nat) (s s' : state) (i : instr) (rho : nat -> nat) (s1 : state) 
           (o : obs),
         sim tau A L s s' ->
         supported i = true ->
         tau (length (st_pool s)) = length (st_pool s') ->
         (forall k : nat, In k (mentions i) -> In (k, rho k) A) ->
         upd_ok rho i ->
         step O s i = Some (s1, o) ->
         exists s1' : state,
           step O s' (rename rho i) = Some (s1', otag tau o) /\
           sim tau (updA A (length (st_pool s)) (length (st_pool s')) rho i) (updL L (length (st_pool s)) i) s1
             s1'.
Proof. exact @step_sim. Qed.

(** a right-only clone preserves the simulation *)
Theorem C12_clone_right :
  forall (F : Type) (O : ScalarOps F) (tau : nat -> nat) (A : list (nat * nat)) 
           (L : list nat) (s s' : state) (i0 c : nat),
         sim tau A L s s' ->
         In i0 L ->
         In (i0, c) A ->
         exists s1' : state,
           step O s' (IClone c) = Some (s1', []) /\
           length (st_pool s1') = S (length (st_pool s')) /\
           sim tau (A ++ clones A c (length (st_pool s'))) L s s1'.
Proof. exact @clone_right. Qed.

(** a right-only drop preserves the simulation *)
Theorem C12_drop_right :
  forall (F : Type) (O : ScalarOps F) (tau : nat -> nat) (A : list (nat * nat)) 
           (L : list nat) (s s' : state) (i0 c : nat),
         sim tau A L s s' ->
         In i0 L ->
         In (i0, c) A ->
         exists s1' : state,
           step O s' (IDrop c) = Some (s1', []) /\
           length (st_pool s1') = S (length (st_pool s')) /\ sim tau (drop_r c A) L s s1'.
Proof. exact @drop_right. Qed.

(** the matched observations of the variant are the original's *)
Theorem C12_select :
  forall (F : Type) (tau : nat -> nat) (m : list bool) (os os' : list (@obs F)),
         @obs_match F tau m os os' -> @select F m os' = @map (@obs F) (@obs F) (@otag F tau) os.
Proof. exact @obs_match_select. Qed.

(** a concrete program with three clones and three drops *)
Theorem C12_instance :
  exists os' : list obs,
           run Z_ops pr = (os', false) /\ select mask os' = map (otag tau_ex) (fst (run Z_ops pl)).
Proof. exact @ex_observations. Qed.

Print Assumptions C12_variant_observations.
Print Assumptions C12_one_step.
Print Assumptions C12_clone_right.
Print Assumptions C12_drop_right.
Print Assumptions C12_select.
Print Assumptions C12_instance.
