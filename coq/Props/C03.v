(** C03  Gradients have their array's shape; broadcast contributions are summed

    [flatten_to O d t] is what the engine applies to EVERY delta a closure returns before accumulating it into
    the child (first and later contributions alike).  [sub_target t d]: t is right-aligned below-or-unit w.r.t. d.
    [C03_flatten_value]: the flattened value at J is the sum of the delta over all positions that broadcasting reads J
    from; [C03_flatten_adjoint]: flatten_to is the transpose of broadcasting.  [C03_pass_shapes] (engine level, abstract
    shape function [sh], for arrays [sh := dims]): in any successful pass every adjoint has its node's shape, every stored
    gradient has its node's shape afterwards, for any graph and any number of uses.

    Statements only: every theorem below is closed by [exact <lemma>]; the lemmas are proved in
    the files imported here.  Generated with tools/gen_props.py from the lemmas' own types. *)

From Coq Require Import List Arith Bool ZArith.
From Corgi Require Import Lib.OptionMonad Lib.Sums Model.Scalar Model.Arr Model.SlicedOp Model.Elementwise
     Model.Linalg Model.Image Proofs.ArrFacts Proofs.BroadcastDims Proofs.SpecDefs Proofs.SlicedOpSpec
     Proofs.EwSpec Proofs.ReduceSpec.
Import ListNotations.
From Corgi Require Import Model.Engine Proofs.FlattenSpec Proofs.EngineDefs Proofs.AdjointSpec Proofs.EngineValue Proofs.PassTheorems.

(** whenever flatten_to succeeds the result has exactly the target dimensions *)
Theorem C03_flatten_shape :
  forall (F : Type) (O : ScalarOps F) (a r : arr F) (t : list nat),
         wf a -> flatten_to O a t = Some r -> wf r /\ dims r = t.
Proof. exact @flatten_to_shape. Qed.

(** the value: sum of the delta over the broadcast positions *)
Theorem C03_flatten_value :
  forall (F : Type) (O0 : ScalarOps F),
         is_cring O0 ->
         forall (a : arr F) (t : list nat),
         wf a ->
         dims a <> [] ->
         t <> [] ->
         Forall (fun x : nat => 1 <= x) t ->
         sub_target t (dims a) ->
         exists r : arr F,
           flatten_to O0 a t = Some r /\
           wf r /\
           dims r = t /\
           (forall J : list nat,
            in_range J t ->
            get r J =
            Some
              (vsum O0
                 (map (fun I : list nat => nth (rowmajor (dims a) I) (vals a) (f0 O0))
                    (filter (fun I : list nat => list_eqb (bclamp t I) J) (all_indices (dims a)))))).
Proof. exact @flatten_to_spec. Qed.

(** <flatten_to d t, u> = <d, broadcast u> *)
Theorem C03_flatten_adjoint :
  forall (F : Type) (O0 : ScalarOps F),
         is_cring O0 ->
         forall (a r u : arr F) (t : list nat),
         wf a ->
         dims a <> [] ->
         t <> [] ->
         Forall (fun x : nat => 1 <= x) t ->
         sub_target t (dims a) ->
         flatten_to O0 a t = Some r ->
         wf u -> dims u = t -> dot O0 (vals r) (vals u) = dot O0 (vals a) (vals (bcast_to O0 u (dims a))).
Proof. exact @flatten_to_adjoint. Qed.

(** a delta that already has the target dimensions is passed through *)
Theorem C03_flatten_same :
  forall (F : Type) (O : ScalarOps F) (a : arr F), flatten_to O a (dims a) = Some a.
Proof. exact @flatten_to_same. Qed.

(** conjuncts (3) and (6): adjoints and stored gradients have their node's shape *)
Theorem C03_pass_shapes :
  forall (P D : Type) (E : eops P D) (S : Type) (sh : D -> S) (psh : P -> S),
         (forall x y : D, sh x = sh y -> exists z : D, eo_add E x y = Some z /\ sh z = sh x) ->
         (forall x y : D, sh x = sh y -> eo_add E x y = eo_add E y x) ->
         (forall x y z xy yz : D,
          sh x = sh y ->
          sh y = sh z -> eo_add E x y = Some xy -> eo_add E y z = Some yz -> eo_add E xy z = eo_add E x yz) ->
         (forall (d : D) (p : P) (d' : D), eo_flat E d p = Some d' -> sh d' = psh p) ->
         forall (g : store P D) (r : nat) (keep : bool) (seed : option D) (s0 : D) 
           (ndr : node P D) (g' : store P D) (log : trace),
         wfg E g ->
         clean g ->
         bop_contract E g ->
         r < length g ->
         nth_error g r = Some ndr ->
         seed_of E g r seed = Some s0 ->
         sh s0 = psh (n_pay ndr) ->
         (forall (id : nat) (nd : node P D) (x : D),
          nth_error g id = Some nd -> n_grad nd = Some x -> sh x = psh (n_pay nd)) ->
         run_backward E g r keep seed = Some (g', log) ->
         exists tab : table,
           adjoints E g r s0 = Some tab /\
           length tab = length g /\
           nth_error tab r = Some (Some s0) /\
           (forall (id : nat) (delta : D), In (id, delta) log -> nth_error tab id = Some (Some delta)) /\
           (forall id : nat, id < length g -> nth id tab None <> None <-> reach g r id) /\
           (forall (id : nat) (nd : node P D) (delta : D),
            nth_error g id = Some nd -> nth_error tab id = Some (Some delta) -> sh delta = psh (n_pay nd)) /\
           (forall (id : nat) (nd nd' : node P D),
            nth_error g id = Some nd ->
            nth_error g' id = Some nd' ->
            n_grad nd' = n_grad nd \/
            (exists delta : D, nth_error tab id = Some (Some delta) /\ stored E (n_grad nd) delta (n_grad nd'))) /\
           (forall (id : nat) (nd nd' : node P D) (delta : D),
            nth_error g id = Some nd ->
            nth_error g' id = Some nd' ->
            nth_error tab id = Some (Some delta) ->
            n_children nd = [] -> stored E (n_grad nd) delta (n_grad nd')) /\
           (forall ndr' : node P D,
            nth_error g' r = Some ndr' ->
            (keep = true \/ n_children ndr = [] -> stored E (n_grad ndr) s0 (n_grad ndr')) /\
            (keep = false -> n_children ndr <> [] -> n_grad ndr' = n_grad ndr)) /\
           (forall (id : nat) (nd nd' : node P D) (delta : D),
            nth_error g id = Some nd ->
            nth_error g' id = Some nd' ->
            id <> r ->
            nth_error tab id = Some (Some delta) ->
            (forall (p : nat) (ndp : node P D) (e : entry),
             reach g r p ->
             nth_error g p = Some ndp ->
             In e (n_children ndp) -> e_tracked e = true -> e_node e = id -> e_keep e = true) ->
            stored E (n_grad nd) delta (n_grad nd')) /\
           (forall (id : nat) (nd nd' : node P D),
            nth_error g id = Some nd ->
            nth_error g' id = Some nd' ->
            id <> r ->
            n_children nd <> [] ->
            (forall (p : nat) (ndp : node P D) (e : entry),
             reach g r p ->
             nth_error g p = Some ndp ->
             In e (n_children ndp) -> e_tracked e = true -> e_node e = id -> e_keep e = false) ->
            n_grad nd' = n_grad nd) /\
           (forall (id : nat) (nd' : node P D) (x : D),
            nth_error g' id = Some nd' -> n_grad nd' = Some x -> sh x = psh (n_pay nd')).
Proof. exact @pass_value. Qed.

(** the gradient-shape invariant is preserved by every pass *)
Theorem C03_invariant :
  forall (P D : Type) (E : eops P D) (S : Type) (sh : D -> S) (psh : P -> S),
         (forall x y : D, sh x = sh y -> exists z : D, eo_add E x y = Some z /\ sh z = sh x) ->
         (forall x y : D, sh x = sh y -> eo_add E x y = eo_add E y x) ->
         (forall x y z xy yz : D,
          sh x = sh y ->
          sh y = sh z -> eo_add E x y = Some xy -> eo_add E y z = Some yz -> eo_add E xy z = eo_add E x yz) ->
         (forall (d : D) (p : P) (d' : D), eo_flat E d p = Some d' -> sh d' = psh p) ->
         forall (g : store P D) (r : nat) (keep : bool) (seed : option D) (s0 : D) 
           (g' : store P D) (log : trace),
         good E S sh psh g ->
         seed_ok E S sh psh g r seed s0 ->
         run_backward E g r keep seed = Some (g', log) -> good E S sh psh g' /\ SweepBase.skel_eq g g'.
Proof. exact @pass_preserves_invariants. Qed.

Example C03_example :
  let d := {| dims := [2; 2; 3]; vals := [1; 2; 3; 4; 5; 6; 7; 8; 9; 10; 11; 12]%Z |} in
  wf d /\ sub_target [2; 1] (dims d) /\
  option_map (fun r => (dims r, vals r)) (flatten_to Z_ops d [2; 1]) = Some ([2; 1], [30; 48]%Z)
  /\ option_map (fun r => (dims r, vals r)) (flatten_to Z_ops d [3]) = Some ([3], [22; 26; 30]%Z).
Proof.
  cbv zeta. split; [unfold wf; simpl; split; [repeat constructor | reflexivity]|].
  split; [unfold sub_target; simpl; split; [auto with arith|];
          constructor; [right; reflexivity | constructor; [left; reflexivity | constructor]]|].
  split; vm_compute; reflexivity.
Qed.

Print Assumptions C03_flatten_shape.
Print Assumptions C03_flatten_value.
Print Assumptions C03_flatten_adjoint.
Print Assumptions C03_flatten_same.
Print Assumptions C03_pass_shapes.
Print Assumptions C03_invariant.
