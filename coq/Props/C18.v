(** C18  Dropping results releases everything they held

    Ownership in the model is reachability: [roots s] are the live pool handles, the layer parameters and the model's
    output; [strong_count s b] counts root handles, child entries of nodes reachable from the roots ([creach]) and live sigmoid
    closures that hold buffer b - what Rc::strong_count of the value buffer is in Rust; [ITakeVec] (Vec::from) succeeds iff the
    count is 1.  Gradients and pending deltas are plain array values in the model, so they can hold neither a node nor a
    leaf's buffer; that this is faithful is checked by the correspondence (Vec::from after drops, with stored gradients).

    Statements only: every theorem below is closed by [exact <lemma>]; the lemmas are proved in
    the files imported here.  Generated with tools/gen_props.py from the lemmas' own types. *)

From Coq Require Import List Arith Bool.
From Corgi Require Import Lib.OptionMonad Model.Scalar Model.Arr Model.SlicedOp Model.Elementwise Model.Linalg
     Model.Image Model.Ops Model.Engine Proofs.ArrFacts Proofs.EngineDefs Proofs.EngineBase Proofs.AdjointSpec
     Proofs.SweepBase Proofs.PassTheorems Proofs.OptimSpec Proofs.Ownership Model.Program.
Import ListNotations.

(** holders form a DAG (children have smaller ids): reference counting frees exactly the unreachable part *)
Theorem C18_holders_acyclic :
  forall (F : Type) (g : list (@gnode F)) (a m : nat), @topo F g -> @creach F g a m -> m <= a.
Proof. exact @creach_le. Qed.

(** the live set is exactly the reachability closure of the roots *)
Theorem C18_live_is_reachability :
  forall (F : Type) (g : list (@gnode F)) (rs : list handle),
         @NoDup nat (@live F g rs) /\
         (forall x : nat,
          @In nat x (@live F g rs) <-> (exists h : handle, @In handle h rs /\ @creach F g (e_node h) x)).
Proof. exact @live_spec. Qed.

(** the count does not depend on gradient, delta or counter cells *)
Theorem C18_gradients_hold_nothing :
  forall (F : Type) (s s' : @state F) (b : nat),
         @own_eq F (@st_nodes F s) (@st_nodes F s') ->
         @roots F s = @roots F s' -> @strong_count F s b = @strong_count F s' b.
Proof. exact @strong_count_cells_irrelevant. Qed.

(** a backward pass changes no ownership count (with or without stored gradients) *)
Theorem C18_pass_keeps_counts :
  forall (F : Type) (O : ScalarOps F) (s : state) (r : nat) (keep : bool) (seed : option (arr F))
           (g' : store pay (arr F)) (log : trace) (b : nat),
         wfg (E O) (st_nodes s) ->
         clean (st_nodes s) ->
         bop_contract (E O) (st_nodes s) ->
         r < length (st_nodes s) ->
         run_backward (E O) (st_nodes s) r keep seed = Some (g', log) ->
         strong_count (with_nodes s g') b = strong_count s b.
Proof. exact @strong_count_backward. Qed.

(** clearing a gradient changes no ownership count *)
Theorem C18_clear_keeps_counts :
  forall (F : Type) (s s' : @state F) (h : handle) (b : nat),
         @clear_grad F s h = @Some (@state F) s' -> @strong_count F s' b = @strong_count F s b.
Proof. exact @strong_count_clear_grad. Qed.

(** dropping a handle removes exactly that root and nothing else *)
Theorem C18_drop :
  forall (F : Type) (O : ScalarOps F) (s0 s' : state) (i : nat) (o : obs),
         step O s0 (IDrop i) = Some (s', o) ->
         st_nodes s' = st_nodes s0 /\
         st_layers s' = st_layers s0 /\
         st_output s' = st_output s0 /\
         (exists (x : handle) (p1 p2 : list (option handle)),
            st_pool s0 = p1 ++ Some x :: p2 /\
            length p1 = i /\
            st_pool s' = p1 ++ None :: p2 ++ [None] /\
            roots s0 =
            pool_handles p1 ++
            x
            :: pool_handles p2 ++
               flat_map (fun l : layer => [l_w l; l_b l]) (st_layers s0) ++
               match st_output s0 with
               | Some h => [h]
               | None => []
               end /\
            roots s' =
            pool_handles p1 ++
            pool_handles p2 ++
            flat_map (fun l : layer => [l_w l; l_b l]) (st_layers s0) ++
            match st_output s0 with
            | Some h => [h]
            | None => []
            end).
Proof. exact @drop_step. Qed.

(** the general sole-owner criterion *)
Theorem C18_sole_owner :
  forall (F : Type) (s : @state F) (h : handle) (rs1 rs2 : list handle) (b : nat),
         @roots F s = rs1 ++ h :: rs2 ->
         b = @buf_of F (@st_nodes F s) (e_node h) ->
         (forall h' : handle, @In handle h' (rs1 ++ rs2) -> @buf_of F (@st_nodes F s) (e_node h') <> b) ->
         (forall (h0 : handle) (n : nat) (nd : @gnode F),
          @In handle h0 (@roots F s) ->
          @creach F (@st_nodes F s) (e_node h0) n ->
          @nth_error (@gnode F) (@st_nodes F s) n = @Some (@gnode F) nd ->
          (forall e : entry,
           @In entry e (@n_children (@pay F) (arr F) nd) -> @buf_of F (@st_nodes F s) (e_node e) <> b) /\
          (@is_sig F (@n_pay (@pay F) (arr F) nd) = true -> @p_buf F (@n_pay (@pay F) (arr F) nd) <> b)) ->
         @strong_count F s b = 1.
Proof. exact @sole_owner. Qed.

(** a leaf that is the only remaining root is the sole owner of its buffer, whatever was built and dropped before *)
Theorem C18_only_root :
  forall (F : Type) (s : @state F) (h : handle) (nd : @gnode F),
         @roots F s = [h] ->
         @nth_error (@gnode F) (@st_nodes F s) (e_node h) = @Some (@gnode F) nd ->
         @n_children (@pay F) (arr F) nd = [] ->
         @p_bop F (@n_pay (@pay F) (arr F) nd) = @None (bop_code F) ->
         @strong_count F s (@buf_of F (@st_nodes F s) (e_node h)) = 1.
Proof. exact @only_root_sole_owner. Qed.

(** several remaining leaves: each with a buffer of its own is sole owner *)
Theorem C18_leaf_roots :
  forall (F : Type) (s : @state F) (h : handle) (rs1 rs2 : list handle),
         @roots F s = rs1 ++ h :: rs2 ->
         (forall h' : handle,
          @In handle h' (@roots F s) ->
          exists nd : @gnode F,
            @nth_error (@gnode F) (@st_nodes F s) (e_node h') = @Some (@gnode F) nd /\
            @n_children (@pay F) (arr F) nd = [] /\ @p_bop F (@n_pay (@pay F) (arr F) nd) = @None (bop_code F)) ->
         (forall h' : handle,
          @In handle h' (rs1 ++ rs2) ->
          @buf_of F (@st_nodes F s) (e_node h') <> @buf_of F (@st_nodes F s) (e_node h)) ->
         @strong_count F s (@buf_of F (@st_nodes F s) (e_node h)) = 1.
Proof. exact @leaf_roots_sole_owner. Qed.

(** Vec::from succeeds exactly when the count is 1 *)
Theorem C18_takevec :
  forall (F : Type) (O0 : ScalarOps F) (s0 : state) (i : nat) (x : handle) (a : arr F),
         var s0 i = Some x ->
         h_arr s0 x = Some a ->
         (strong_count s0 (buf_of (st_nodes s0) (e_node x)) = 1 ->
          exists s' : state, step O0 s0 (ITakeVec i) = Some (s', [(7, [], vals a)])) /\
         (strong_count s0 (buf_of (st_nodes s0) (e_node x)) <> 1 -> step O0 s0 (ITakeVec i) = None).
Proof. exact @takevec_step. Qed.

(** a new array never aliases an existing buffer (reshape excepted) *)
Theorem C18_fresh_buffers :
  forall (F : Type) (s : state) (a : arr F) (ch : list handle) (bop : option (bop_code F)),
         buf_le (st_nodes s) ->
         let s' := fst (alloc s a ch bop None) in
         let h := snd (alloc s a ch bop None) in
         e_node h = length (st_nodes s) /\
         buf_of (st_nodes s') (e_node h) = e_node h /\
         (forall id : nat,
          id < length (st_nodes s) ->
          buf_of (st_nodes s') id = buf_of (st_nodes s) id /\
          buf_of (st_nodes s') id <> buf_of (st_nodes s') (e_node h)).
Proof. exact @alloc_fresh_buffer. Qed.

(** a result of untracked operands keeps no reference to them (C09) *)
Theorem C18_untracked_ops_hold_nothing :
  forall (F : Type) (O : ScalarOps F) (s : state) (k : opk) (hs : list handle) 
           (s' : state) (h : handle) (b : nat),
         topo (st_nodes s) ->
         (forall x : handle, In x (roots s) -> e_node x < length (st_nodes s)) ->
         plain_op k = true ->
         Forall (fun x : handle => e_tracked x = false) hs ->
         apply_op O s k hs = Some (s', h) ->
         b < length (st_nodes s) -> strong_count (push s' (Some h)) b = strong_count s b.
Proof. exact @untracked_op_keeps_counts. Qed.

(** after forward the previous output is no longer a root *)
Theorem C18_model_forward_roots :
  forall (F : Type) (O : ScalarOps F) (s s' : state) (x out : handle),
         model_forward O s x = Some (s', out) ->
         st_output s' = Some out /\
         roots s' =
         pool_handles (st_pool s') ++ flat_map (fun l : layer => [l_w l; l_b l]) (st_layers s') ++ [out].
Proof. exact @model_forward_roots. Qed.

(** after update every stepped parameter is a fresh childless node with a buffer of its own *)
Theorem C18_update_fresh_params :
  forall (F : Type) (O : ScalarOps F) (s : state),
         gd_pre s (model_params s) ->
         exists s' : state,
           model_update O s = Some s' /\
           st_pool s' = st_pool s /\
           st_output s' = st_output s /\
           length (model_params s') = length (model_params s) /\
           (forall (i : nat) (h : handle),
            nth_error (model_params s) i = Some h ->
            (grad_of s h = None -> nth_error (model_params s') i = Some h) /\
            (forall p g : arr F,
             h_arr s h = Some p ->
             grad_of s h = Some g ->
             ~ In (e_node h) (map e_node (firstn i (model_params s))) ->
             exists (h' : handle) (nd' : gnode),
               nth_error (model_params s') i = Some h' /\
               length (st_nodes s) <= e_node h' /\
               nth_error (st_nodes s') (e_node h') = Some nd' /\
               n_children nd' = [] /\ p_bop (n_pay nd') = None /\ p_buf (n_pay nd') = e_node h')).
Proof. exact @model_update_fresh_params. Qed.

Print Assumptions C18_holders_acyclic.
Print Assumptions C18_live_is_reachability.
Print Assumptions C18_gradients_hold_nothing.
Print Assumptions C18_pass_keeps_counts.
Print Assumptions C18_clear_keeps_counts.
Print Assumptions C18_drop.
Print Assumptions C18_sole_owner.
Print Assumptions C18_only_root.
Print Assumptions C18_leaf_roots.
Print Assumptions C18_takevec.
Print Assumptions C18_fresh_buffers.
Print Assumptions C18_untracked_ops_hold_nothing.
Print Assumptions C18_model_forward_roots.
Print Assumptions C18_update_fresh_params.
