(** C04  Element-wise operations follow right-aligned broadcasting, or refuse.

    Statements only; every proof is [exact <lemma>] (Proofs/BroadcastDims.v, Proofs/EwSpec.v).
    [bcompat x y]: the dimensions, aligned from the last one, are pairwise equal or 1;
    [bmax x y]: their pairwise maximum; [bclamp d I]: the index an operand of dimensions
    [d] is read at for result index [I] (right-aligned, 0 along unit dimensions);
    [get a I]: the row-major element.  [F] is any type of scalars. *)

From Coq Require Import List Arith ZArith.
From Corgi Require Import Lib.OptionMonad Model.Scalar Model.Arr Model.SlicedOp Model.Elementwise
     Proofs.ArrFacts Proofs.BroadcastDims Proofs.SpecDefs Proofs.EwSpec.
Import ListNotations.

(** The result dimensions exist exactly for compatible pairs and are the pairwise maximum. *)
Theorem C04_dimensions : forall x y d : list nat,
    element_wise_dimensions x y = Some d <-> (bcompat x y /\ d = bmax x y).
Proof. exact element_wise_dimensions_spec. Qed.

(** Every element-wise operation (any scalar function [f]) on compatible operands returns
    the array of the pairwise-maximum dimensions whose element at each index is [f] of the
    operands' elements at the broadcast-clamped index. *)
Theorem C04_values : forall (F : Type) (O : ScalarOps F) (f : F -> F -> F) (a b : arr F),
    wf a -> wf b -> dims a <> [] -> dims b <> [] -> bcompat (dims a) (dims b) ->
    exists c, element_wise_op O f a b = Some c /\ wf c /\ dims c = bmax (dims a) (dims b) /\
      forall I, in_range I (dims c) ->
        exists x y, get a (bclamp (dims a) I) = Some x /\ get b (bclamp (dims b) I) = Some y /\
                    get c I = Some (f x y).
Proof. exact @element_wise_op_spec. Qed.

(** For any other pair of shapes the operation panics. *)
Theorem C04_refuses : forall (F : Type) (O : ScalarOps F) (f : F -> F -> F) (a b : arr F),
    ~ bcompat (dims a) (dims b) -> element_wise_op O f a b = None.
Proof. exact @element_wise_op_refuses. Qed.

(** The five public operations: [+], [*], [/] are direct instances; [a - b] is computed as
    [a + b * (-1)] and [axpy alpha x y] as [x * alpha + y] (non-BLAS build). *)
Theorem C04_add : forall (F : Type) (O : ScalarOps F) (a b : arr F),
    wf a -> wf b -> dims a <> [] -> dims b <> [] -> bcompat (dims a) (dims b) ->
    exists c, a_add O a b = Some c /\ wf c /\ dims c = bmax (dims a) (dims b) /\
      forall I, in_range I (dims c) ->
        exists x y, get a (bclamp (dims a) I) = Some x /\ get b (bclamp (dims b) I) = Some y /\
                    get c I = Some (fadd O x y).
Proof. exact @a_add_spec. Qed.

Theorem C04_mul : forall (F : Type) (O : ScalarOps F) (a b : arr F),
    wf a -> wf b -> dims a <> [] -> dims b <> [] -> bcompat (dims a) (dims b) ->
    exists c, a_mul O a b = Some c /\ wf c /\ dims c = bmax (dims a) (dims b) /\
      forall I, in_range I (dims c) ->
        exists x y, get a (bclamp (dims a) I) = Some x /\ get b (bclamp (dims b) I) = Some y /\
                    get c I = Some (fmul O x y).
Proof. exact @a_mul_spec. Qed.

Theorem C04_div : forall (F : Type) (O : ScalarOps F) (a b : arr F),
    wf a -> wf b -> dims a <> [] -> dims b <> [] -> bcompat (dims a) (dims b) ->
    exists c, a_div O a b = Some c /\ wf c /\ dims c = bmax (dims a) (dims b) /\
      forall I, in_range I (dims c) ->
        exists x y, get a (bclamp (dims a) I) = Some x /\ get b (bclamp (dims b) I) = Some y /\
                    get c I = Some (fdiv O x y).
Proof. exact @a_div_spec. Qed.

Theorem C04_sub : forall (F : Type) (O : ScalarOps F) (a b : arr F),
    wf a -> wf b -> dims a <> [] -> dims b <> [] -> bcompat (dims a) (dims b) ->
    exists c, a_sub O a b = Some c /\ wf c /\ dims c = bmax (dims a) (dims b) /\
      forall I, in_range I (dims c) ->
        exists x y, get a (bclamp (dims a) I) = Some x /\ get b (bclamp (dims b) I) = Some y /\
                    get c I = Some (fadd O x (fmul O y (fneg O (f1 O)))).
Proof. exact @a_sub_spec. Qed.

Theorem C04_axpy : forall (F : Type) (O : ScalarOps F) (alpha : F) (x y : arr F),
    wf x -> wf y -> dims x <> [] -> dims y <> [] -> bcompat (dims x) (dims y) ->
    exists c, a_axpy O alpha x y = Some c /\ wf c /\ dims c = bmax (dims x) (dims y) /\
      forall I, in_range I (dims c) ->
        exists u v, get x (bclamp (dims x) I) = Some u /\ get y (bclamp (dims y) I) = Some v /\
                    get c I = Some (fadd O (fmul O u alpha) v).
Proof. exact @a_axpy_spec. Qed.

Theorem C04_refuses_all : forall (F : Type) (O : ScalarOps F) (alpha : F) (a b : arr F),
    ~ bcompat (dims a) (dims b) ->
    a_add O a b = None /\ a_sub O a b = None /\ a_mul O a b = None /\ a_div O a b = None
    /\ a_axpy O alpha a b = None.
Proof.
  intros F O alpha a b H.
  exact (conj (a_add_refuses O a b H) (conj (a_sub_refuses O a b H) (conj (a_mul_refuses O a b H)
        (conj (a_div_refuses O a b H) (a_axpy_refuses O alpha a b H))))).
Qed.

Check C04_values : forall (F : Type) (O : ScalarOps F) (f : F -> F -> F) (a b : arr F),
    wf a -> wf b -> dims a <> [] -> dims b <> [] -> bcompat (dims a) (dims b) ->
    exists c, element_wise_op O f a b = Some c /\ wf c /\ dims c = bmax (dims a) (dims b) /\
      forall I, in_range I (dims c) ->
        exists x y, get a (bclamp (dims a) I) = Some x /\ get b (bclamp (dims b) I) = Some y /\
                    get c I = Some (f x y).
Check C04_refuses : forall (F : Type) (O : ScalarOps F) (f : F -> F -> F) (a b : arr F),
    ~ bcompat (dims a) (dims b) -> element_wise_op O f a b = None.

(** Non-vacuity: concrete operands meet the hypotheses, and the computed result is the
    broadcast one. *)
Example C04_example :
  let a := {| dims := [2; 1; 3]; vals := [1; 2; 3; 4; 5; 6]%Z |} in
  let b := {| dims := [2; 1]; vals := [10; 20]%Z |} in
  wf a /\ wf b /\ bcompat (dims a) (dims b) /\ bmax (dims a) (dims b) = [2; 2; 3]
  /\ option_map (@vals Z) (a_add Z_ops a b) = Some [11; 12; 13; 21; 22; 23; 14; 15; 16; 24; 25; 26]%Z
  /\ bclamp (dims b) [1; 1; 2] = [1; 0] /\ ~ bcompat [2; 3] [3; 2].
Proof.
  unfold wf, bcompat, bmax; simpl. repeat split; auto; try (repeat constructor; fail).
  intros [[H|[H|H]] _]; discriminate.
Qed.

Print Assumptions C04_dimensions.
Print Assumptions C04_values.
Print Assumptions C04_refuses.
Print Assumptions C04_add.
Print Assumptions C04_mul.
Print Assumptions C04_div.
Print Assumptions C04_sub.
Print Assumptions C04_axpy.
Print Assumptions C04_refuses_all.
