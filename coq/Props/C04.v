(** C04  Element-wise operations follow right-aligned broadcasting, or refuse.

    Statements only; every proof is [exact <lemma>]. *)

From Coq Require Import List Arith.
From Corgi Require Import Lib.OptionMonad Model.Scalar Model.Arr Model.SlicedOp Model.Elementwise
     Proofs.ArrFacts Proofs.BroadcastDims.
Import ListNotations.

(** The result dimensions exist exactly for pairs whose dimensions, aligned from the last
    one, are pairwise equal or 1, and are then the pairwise maximum. *)
Theorem C04_dimensions : forall x y d : list nat,
    element_wise_dimensions x y = Some d <-> (bcompat x y /\ d = bmax x y).
Proof. exact element_wise_dimensions_spec. Qed.

Theorem C04_dimensions_refuse : forall x y : list nat,
    element_wise_dimensions x y = None <-> ~ bcompat x y.
Proof. exact element_wise_dimensions_refuses. Qed.

Check C04_dimensions : forall x y d : list nat,
    element_wise_dimensions x y = Some d <-> (bcompat x y /\ d = bmax x y).

Example C04_example_dims :
  bcompat [2; 1; 3] [4; 1; 2; 1] /\ bmax [2; 1; 3] [4; 1; 2; 1] = [4; 2; 2; 3]
  /\ ~ bcompat [2; 3] [3; 2].
Proof. unfold bcompat, bmax; simpl. repeat split; auto. intros [[H|[H|H]] _]; discriminate. Qed.

Print Assumptions C04_dimensions.
Print Assumptions C04_dimensions_refuse.
