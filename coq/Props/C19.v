(** C19  The single-precision build gives the same results to single precision

    corgi is written against the alias [Float] (f64, or f32 under the cargo feature); the model is written against
    an arbitrary record of scalar operations.  PROVED here (the part of C19 that is a theorem): for ANY two scalar
    instances, every forward operation, every derivative closure, the engine and every instruction of every program
    return results of the same dimensions, panic on exactly the same inputs and produce the same tracking flags,
    counts and observation structure - shapes, tracking and acceptance never depend on the scalar type
    ([C19_programs], [C19_cast_programs] for a program whose constants are converted, e.g. rounded to f32).
    Excluded by construction: the booleans of [IEq] (value comparisons) and scalar values themselves.  NOT PROVED
    (and not provable with this technique here): closeness of f32 results to the f64 reference within single-precision
    rounding - that half is validated by the differential run against the --features f32 build (a test).

    Statements only: every theorem below is closed by [exact <lemma>]; the lemmas are proved in
    the files imported here.  Generated with tools/gen_props.py from the lemmas' own types. *)

From Coq Require Import List Arith Bool.
From Corgi Require Import Lib.OptionMonad Model.Scalar Model.Arr Model.SlicedOp Model.Elementwise Model.Linalg
     Model.Image Model.Ops Model.Engine Model.Program Proofs.ShapeParametric.
Import ListNotations.

(** whole programs: same panics, same observation kinds, dimensions, flags and lengths *)
Theorem C19_programs :
  forall (F1 F2 : Type) (O1 : ScalarOps F1) (O2 : ScalarOps F2) (p1 p2 : list instr),
         Forall2 instr_rel p1 p2 ->
         runs_rel p1 (fst (run O1 p1)) (fst (run O2 p2)) /\ snd (run O1 p1) = snd (run O2 p2).
Proof. exact @run_rel. Qed.

(** a program and its image under any scalar conversion (f64 -> f32 rounding of the constants) *)
Theorem C19_cast_programs :
  forall (F1 F2 : Type) (cast : F1 -> F2) (O1 : ScalarOps F1) (O2 : ScalarOps F2) (p : list instr),
         runs_rel p (fst (run O1 p)) (fst (run O2 (map (cast_instr cast) p))) /\
         snd (run O1 p) = snd (run O2 (map (cast_instr cast) p)).
Proof. exact @run_cast. Qed.

(** same number of observations and the same panic flag *)
Theorem C19_same_panic :
  forall (F1 F2 : Type) (O1 : ScalarOps F1) (O2 : ScalarOps F2) (p1 p2 : list instr),
         Forall2 instr_rel p1 p2 ->
         length (fst (run O1 p1)) = length (fst (run O2 p2)) /\ snd (run O1 p1) = snd (run O2 p2).
Proof. exact @run_same_panic. Qed.

(** every one of the 27 instructions *)
Theorem C19_step :
  forall (F1 F2 : Type) (O1 : ScalarOps F1) (O2 : ScalarOps F2) (s1 s2 : state) (i1 i2 : instr),
         state_rel s1 s2 -> instr_rel i1 i2 -> orel (step_res_rel i1) (step O1 s1 i1) (step O2 s2 i2).
Proof. exact @step_rel. Qed.

(** the broadcasting workhorse *)
Theorem C19_sliced_op :
  forall (F1 F2 : Type) (O1 : ScalarOps F1) (O2 : ScalarOps F2) (l1 : list (arr F1))
           (l2 : list (arr F2)) (op1 op2 : sop) (in_dims out_dims : list nat) (k flatten : nat),
         sop_rel op1 op2 ->
         Forall2 same_shape l1 l2 ->
         orel same_shape (sliced_op O1 l1 op1 in_dims out_dims k flatten)
           (sliced_op O2 l2 op2 in_dims out_dims k flatten).
Proof. exact @sliced_op_rel. Qed.

(** every derivative closure *)
Theorem C19_closures :
  forall (F1 F2 : Type) (O1 : ScalarOps F1) (O2 : ScalarOps F2) (code1 : bop_code F1)
           (code2 : bop_code F2) (cs1 : list (arr F1)) (cs2 : list (arr F2)) (t : list bool) 
           (x1 : arr F1) (x2 : arr F2),
         code_rel code1 code2 ->
         Forall2 same_shape cs1 cs2 ->
         same_shape x1 x2 ->
         orel (Forall2 (orel same_shape)) (run_bop O1 code1 cs1 t x1) (run_bop O2 code2 cs2 t x2).
Proof. exact @run_bop_rel. Qed.

(** the backward engine (an abstraction theorem over payload/adjoint relations) *)
Theorem C19_engine :
  forall (P1 P2 D1 D2 : Type) (RP : P1 -> P2 -> Prop) (RD : D1 -> D2 -> Prop) 
           (E1 : eops P1 D1) (E2 : eops P2 D2),
         eops_rel RP RD E1 E2 ->
         forall (g1 : store P1 D1) (g2 : store P2 D2) (id : nat) (keep : bool) (seed1 : option D1)
           (seed2 : option D2),
         store_rel RP RD g1 g2 ->
         orel RD seed1 seed2 ->
         orel (res_rel RP RD) (run_backward E1 g1 id keep seed1) (run_backward E2 g2 id keep seed2).
Proof. exact @run_backward_rel. Qed.

(** matmul *)
Theorem C19_matmul :
  forall (F1 F2 : Type) (O1 : ScalarOps F1) (O2 : ScalarOps F2) (a1 : arr F1) 
           (a2 : arr F2) (ta : bool) (b1 : arr F1) (b2 : arr F2) (tb : bool) (c1 : option (arr F1))
           (c2 : option (arr F2)),
         same_shape a1 a2 ->
         same_shape b1 b2 ->
         orel same_shape c1 c2 -> orel same_shape (a_matmul O1 a1 ta b1 tb c1) (a_matmul O2 a2 ta b2 tb c2).
Proof. exact @a_matmul_rel. Qed.

(** conv *)
Theorem C19_conv :
  forall (F1 F2 : Type) (O1 : ScalarOps F1) (O2 : ScalarOps F2) (i1 : arr F1) 
           (i2 : arr F2) (f1 : arr F1) (f2 : arr F2) (sr sc : nat),
         same_shape i1 i2 -> same_shape f1 f2 -> orel same_shape (conv O1 i1 f1 sr sc) (conv O2 i2 f2 sr sc).
Proof. exact @conv_rel. Qed.

(** instance: integers against the one-point scalar type *)
Theorem C19_nonvacuous :
  forall p : list instr,
         runs_rel p (fst (run Z_ops p)) (fst (run unit_ops (map (cast_instr (fun _ : BinNums.Z => tt)) p))) /\
         snd (run Z_ops p) = snd (run unit_ops (map (cast_instr (fun _ : BinNums.Z => tt)) p)).
Proof. exact @run_Z_unit. Qed.

Print Assumptions C19_programs.
Print Assumptions C19_cast_programs.
Print Assumptions C19_same_panic.
Print Assumptions C19_step.
Print Assumptions C19_sliced_op.
Print Assumptions C19_closures.
Print Assumptions C19_engine.
Print Assumptions C19_matmul.
Print Assumptions C19_conv.
Print Assumptions C19_nonvacuous.
