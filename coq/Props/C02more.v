(** C02more  (matmul, convolution parts, sigmoid, user closures) local transpose identities

    Same formulation as Props/C02.v.  Matmul: all four transposition pairs, all flag triples, arbitrary
    leading-dimension broadcasting, additive term of shape [cols], [rows; cols], [1; cols], [1] (flagged or not) or absent.
    Convolution is unroll_blocks ; reshape ; matmul ; expand_conv in corgi: the identities of unroll (whose transpose is the
    SUMMING roll - overlapping windows), expand (a per-image permutation) and matmul together with C01 give conv for every
    stride, filter size and batch.  Sigmoid uses the scalar law [Hsig] (the dual-number run of sigmoid has tangent
    s*(1-s)*x'), proved for the reals as Props/C02real.v's C02r_sigmoid_dual.  The rank-1 matmul forms the property names
    (dot product, vector-left, vector-right) are covered too.

    Statements only: every theorem below is closed by [exact <lemma>]; the lemmas are proved in
    the files imported here.  Generated with tools/gen_props.py from the lemmas' own types. *)

From Coq Require Import List Arith Bool ZArith.
From Corgi Require Import Lib.OptionMonad Lib.Sums Model.Scalar Model.Arr Model.SlicedOp Model.Elementwise
     Model.Linalg Model.Image Proofs.ArrFacts Proofs.BroadcastDims Proofs.SpecDefs Proofs.SlicedOpSpec
     Proofs.EwSpec Proofs.ReduceSpec.
Import ListNotations.
From Corgi Require Import Model.Ops Proofs.FlattenSpec Proofs.MatmulSpec Proofs.ConvSpec Proofs.DualLift
     Proofs.LocalAdjoint Proofs.LocalAdjoint2 Proofs.LocalAdjoint3.

(** matmul with additive term *)
Theorem C02_matmul :
  forall (F : Type) (O0 : ScalarOps F),
         is_cring O0 ->
         forall ta tb : bool,
         local_identity O0 3 (mm_pre ta tb)
           (fwd3 (fun A B C : arr dual => a_matmul (dual_ops O0) A ta B tb (Some C)))
           (fun (_ : list (arr F)) (_ : arr F) => BMatmul ta tb).
Proof. exact @matmul_local. Qed.

(** matmul without additive term (third child is the untracked zero) *)
Theorem C02_matmul_no_additive_term :
  forall (F : Type) (O0 : ScalarOps F),
         is_cring O0 ->
         forall (ta tb : bool) (cs ts : list (arr F)) (flags : list bool) (delta : arr F) 
           (RD : arr dual) (ds : list (option (arr F))),
         length cs = 3 ->
         mm_pre ta tb cs ->
         nth 2 cs dummy_arr = zeros1 O0 ->
         flag flags 2 = false ->
         Forall wf cs ->
         Forall2 tangent_for cs ts ->
         fwd3 (fun A B _ : arr dual => a_matmul (dual_ops O0) A ta B tb None) (lift_children O0 0 flags cs ts) =
         Some RD ->
         wf delta ->
         dims delta = dims RD ->
         run_bop O0 (BMatmul ta tb) cs flags delta = Some ds ->
         exists xs : list F,
           child_terms O0 0 flags cs ts ds xs /\ dot O0 (vals delta) (vals (tangent RD)) = vsum O0 xs.
Proof. exact @matmul_local_absent. Qed.

(** unroll_blocks: the closure sums overlapping windows *)
Theorem C02_unroll :
  forall (F : Type) (O0 : ScalarOps F),
         is_cring O0 ->
         forall depth rows cols sr sc fr fc : nat,
         local_identity O0 1 (unroll_pre depth rows cols sr sc fr fc)
           (fwd1 (fun A : arr dual => unroll_blocks (dual_ops O0) A sr sc fr fc))
           (fun (_ : list (arr F)) (_ : arr F) => BUnroll depth rows cols sr sc fr fc).
Proof. exact @unroll_local. Qed.

(** expand_conv *)
Theorem C02_expand :
  forall (F : Type) (O0 : ScalarOps F),
         is_cring O0 ->
         forall rc cc count : nat,
         local_identity O0 1 (expand_pre rc cc count)
           (fwd1 (fun A : arr dual => expand_conv (dual_ops O0) A rc cc))
           (fun (_ : list (arr F)) (_ : arr F) => BExpand count (rc * cc)).
Proof. exact @expand_local. Qed.

(** sigmoid (under the scalar law Hsig) *)
Theorem C02_sigmoid :
  forall (F : Type) (O0 : ScalarOps F),
         is_cring O0 ->
         (forall x x' : F, fst (sigmoid_fn (dual_ops O0) (x, x')) = sigmoid_fn O0 x) ->
         (forall x x' : F,
          snd (sigmoid_fn (dual_ops O0) (x, x')) =
          fmul O0 (fmul O0 (sigmoid_fn O0 x) (fsub O0 (f1 O0) (sigmoid_fn O0 x))) x') ->
         local_identity O0 1 no_pre (fwd1 (a_sigmoid (dual_ops O0)))
           (fun (_ : list (arr F)) (r : arr F) => BSigmoid (vals r)).
Proof. exact @sigmoid_local. Qed.

(** user-defined multiplication (the harness library's closure) *)
Theorem C02_custom_mul :
  forall (F : Type) (O0 : ScalarOps F),
         is_cring O0 ->
         local_identity O0 2 same_dims2 (custom_forward (dual_ops O0) CMul)
           (fun (_ : list (arr F)) (_ : arr F) => BCustom CMul).
Proof. exact @cmul_local. Qed.

(** user-defined a + 2b *)
Theorem C02_custom_affine :
  forall (F : Type) (O0 : ScalarOps F),
         is_cring O0 ->
         local_identity O0 2 same_dims2 (custom_forward (dual_ops O0) CAff)
           (fun (_ : list (arr F)) (_ : arr F) => BCustom CAff).
Proof. exact @caff_local. Qed.

(** user-defined square *)
Theorem C02_custom_square :
  forall (F : Type) (O0 : ScalarOps F),
         is_cring O0 ->
         local_identity O0 1 no_pre (custom_forward (dual_ops O0) CSq)
           (fun (_ : list (arr F)) (_ : arr F) => BCustom CSq).
Proof. exact @csq_local. Qed.

(** value of the summing roll: each image element is the sum over all windows that cover it *)
Theorem C02_roll_value :
  forall (F : Type) (O0 : ScalarOps F),
         is_cring O0 ->
         forall depth rows cols sr sc fr fc : nat,
         1 <= depth ->
         1 <= sr ->
         1 <= sc ->
         1 <= fr ->
         1 <= fc ->
         fr <= rows ->
         fc <= cols ->
         forall s : list F,
         length s = out_count rows fr sr * out_count cols fc sc * depth * fr * fc ->
         roll_sop O0 true (out_count rows fr sr * out_count cols fc sc) depth rows cols sr sc fr fc
           (out_count cols fc sc) (repeat (f0 O0) (depth * (rows * (cols * 1)))) [s] =
         Some (roll_g O0 depth rows cols sr sc fr fc s) /\
         length (roll_g O0 depth rows cols sr sc fr fc s) = depth * (rows * (cols * 1)) /\
         (forall p : nat,
          nth p (roll_g O0 depth rows cols sr sc fr fc s) (f0 O0) =
          vsum O0
            (map
               (fun ii : nat =>
                if unroll_phi depth rows cols sr sc fr fc (out_count cols fc sc) ii =? p
                then nth ii s (f0 O0)
                else f0 O0) (seq 0 (out_count rows fr sr * out_count cols fc sc * depth * fr * fc)))).
Proof. exact @roll_g_spec. Qed.

(** rank-1 . rank-1 (the dot product) with additive term [1] *)
Theorem C02_dot_product :
  forall (F : Type) (O0 : ScalarOps F),
         is_cring O0 ->
         local_identity O0 3 dot_pre
           (fwd3 (fun A B C : arr dual => a_matmul (dual_ops O0) A false B false (Some C)))
           (fun (_ : list (arr F)) (_ : arr F) => BMatmul false false).
Proof. exact @dot_local. Qed.

(** the dot product without additive term (the closure that used to panic: D13) *)
Theorem C02_dot_product_no_term :
  forall (F : Type) (O : ScalarOps F), is_cring O -> local_identity_absent O false false dot_pre.
Proof. exact @dot_local_absent. Qed.

(** vector x matrix *)
Theorem C02_vector_left :
  forall (F : Type) (O0 : ScalarOps F),
         is_cring O0 ->
         forall ta tb : bool,
         local_identity O0 3 (vecl_pre ta tb)
           (fwd3 (fun A B C : arr dual => a_matmul (dual_ops O0) A ta B tb (Some C)))
           (fun (_ : list (arr F)) (_ : arr F) => BMatmul ta tb).
Proof. exact @vecl_local. Qed.

(** vector x matrix without additive term *)
Theorem C02_vector_left_no_term :
  forall (F : Type) (O : ScalarOps F),
         is_cring O -> forall ta tb : bool, local_identity_absent O ta tb (vecl_pre ta tb).
Proof. exact @vecl_local_absent. Qed.

(** matrix x vector *)
Theorem C02_vector_right :
  forall (F : Type) (O0 : ScalarOps F),
         is_cring O0 ->
         forall ta tb : bool,
         local_identity O0 3 (vecr_pre ta tb)
           (fwd3 (fun A B C : arr dual => a_matmul (dual_ops O0) A ta B tb (Some C)))
           (fun (_ : list (arr F)) (_ : arr F) => BMatmul ta tb).
Proof. exact @vecr_local. Qed.

(** matrix x vector without additive term *)
Theorem C02_vector_right_no_term :
  forall (F : Type) (O : ScalarOps F),
         is_cring O -> forall ta tb : bool, local_identity_absent O ta tb (vecr_pre ta tb).
Proof. exact @vecr_local_absent. Qed.

Print Assumptions C02_matmul.
Print Assumptions C02_matmul_no_additive_term.
Print Assumptions C02_unroll.
Print Assumptions C02_expand.
Print Assumptions C02_sigmoid.
Print Assumptions C02_custom_mul.
Print Assumptions C02_custom_affine.
Print Assumptions C02_custom_square.
Print Assumptions C02_roll_value.
Print Assumptions C02_dot_product.
Print Assumptions C02_dot_product_no_term.
Print Assumptions C02_vector_left.
Print Assumptions C02_vector_left_no_term.
Print Assumptions C02_vector_right.
Print Assumptions C02_vector_right_no_term.
