(** C17  Gradients are linear in the seed; an omitted seed means all ones

    [comb] is any binary combination (for arrays: alpha*x + beta*y) that the closures, flatten_to and the
    accumulation commute with ([H_bop], [H_flat], [H_add], restricted to equal shapes).

    Statements only: every theorem below is closed by [exact <lemma>]; the lemmas are proved in
    the files imported here.  Generated with tools/gen_props.py from the lemmas' own types. *)

From Coq Require Import List Arith Bool Permutation.
From Corgi Require Import Lib.OptionMonad Model.Engine Proofs.EngineDefs Proofs.EngineBase Proofs.Propagate
     Proofs.EngineInv Proofs.AdjointSpec Proofs.SweepBase Proofs.SweepAdjoint Proofs.SweepLinear
     Proofs.ValueAlg Proofs.SweepChar Proofs.EngineSeg Proofs.EngineValue Proofs.PassTheorems.

(** three passes from the same store with seeds s1, s2, comb s1 s2: every leaf gradient is the comb of the two *)
Theorem C17_linear :
  forall (P D : Type) (E : eops P D) (S : Type) (sh : D -> S) (psh : P -> S),
         (forall x y : D, sh x = sh y -> exists z : D, eo_add E x y = Some z /\ sh z = sh x) ->
         (forall x y : D, sh x = sh y -> eo_add E x y = eo_add E y x) ->
         (forall x y z xy yz : D,
          sh x = sh y ->
          sh y = sh z -> eo_add E x y = Some xy -> eo_add E y z = Some yz -> eo_add E xy z = eo_add E x yz) ->
         (forall (d : D) (p : P) (d' : D), eo_flat E d p = Some d' -> sh d' = psh p) ->
         forall comb : D -> D -> D,
         (forall (p : P) (pays : list P) (saved : list bool) (x y : D) (dx dy : list (option D)),
          sh x = sh y ->
          eo_bop E p pays saved x = Some dx ->
          eo_bop E p pays saved y = Some dy ->
          eo_bop E p pays saved (comb x y) = Some (map2o comb dx dy) /\
          (forall (i : nat) (a b : D),
           nth_error dx i = Some (Some a) -> nth_error dy i = Some (Some b) -> sh a = sh b)) ->
         (forall (x y : D) (p : P) (x' y' : D),
          sh x = sh y ->
          eo_flat E x p = Some x' ->
          eo_flat E y p = Some y' -> eo_flat E (comb x y) p = Some (comb x' y') /\ sh x' = sh y') ->
         (forall x1 x2 y1 y2 x y : D,
          sh x1 = sh y1 ->
          sh x2 = sh y2 ->
          eo_add E x1 x2 = Some x ->
          eo_add E y1 y2 = Some y -> eo_add E (comb x1 y1) (comb x2 y2) = Some (comb x y) /\ sh x = sh y) ->
         forall (g : store P D) (r : nat) (keep : bool) (ndr : node P D) (s1 s2 : D) 
           (g1 : store P D) (l1 : trace) (g2 : store P D) (l2 : trace) (g3 : store P D) 
           (l3 : trace),
         good E S sh psh g ->
         r < length g ->
         nth_error g r = Some ndr ->
         sh s1 = psh (n_pay ndr) ->
         sh s2 = psh (n_pay ndr) ->
         sh (comb s1 s2) = psh (n_pay ndr) ->
         run_backward E g r keep (Some s1) = Some (g1, l1) ->
         run_backward E g r keep (Some s2) = Some (g2, l2) ->
         run_backward E g r keep (Some (comb s1 s2)) = Some (g3, l3) ->
         forall (id : nat) (nd nd1 nd2 nd3 : node P D),
         nth_error g id = Some nd ->
         nth_error g1 id = Some nd1 ->
         nth_error g2 id = Some nd2 ->
         nth_error g3 id = Some nd3 ->
         n_children nd = nil ->
         n_grad nd = None ->
         n_grad nd1 = None /\ n_grad nd2 = None /\ n_grad nd3 = None \/
         (exists x1 x2 : D, n_grad nd1 = Some x1 /\ n_grad nd2 = Some x2 /\ n_grad nd3 = Some (comb x1 x2)).
Proof. exact @pass_linear. Qed.

(** the adjoint table itself is linear in the seed *)
Theorem C17_table_linear :
  forall (P D : Type) (E : eops P D) (comb : D -> D -> D) (ok : D -> D -> Prop),
         (forall (p : P) (pays : list P) (saved : list bool) (x y : D) (dx dy : list (option D)),
          ok x y ->
          eo_bop E p pays saved x = Some dx ->
          eo_bop E p pays saved y = Some dy ->
          eo_bop E p pays saved (comb x y) = Some (map2o comb dx dy) /\
          (forall (i : nat) (a b : D),
           nth_error dx i = Some (Some a) -> nth_error dy i = Some (Some b) -> ok a b)) ->
         (forall (x y : D) (p : P) (x' y' : D),
          ok x y ->
          eo_flat E x p = Some x' ->
          eo_flat E y p = Some y' -> eo_flat E (comb x y) p = Some (comb x' y') /\ ok x' y') ->
         (forall x1 x2 y1 y2 x y : D,
          ok x1 y1 ->
          ok x2 y2 ->
          eo_add E x1 x2 = Some x ->
          eo_add E y1 y2 = Some y -> eo_add E (comb x1 y1) (comb x2 y2) = Some (comb x y) /\ ok x y) ->
         forall (g : store P D) (r : nat) (s1 s2 : D) (t1 t2 : table),
         bop_contract E g ->
         ok s1 s2 ->
         adjoints E g r s1 = Some t1 ->
         adjoints E g r s2 = Some t2 ->
         adjoints E g r (comb s1 s2) = Some (map2o comb t1 t2) /\
         length t1 = length t2 /\
         (forall j : nat, nth j t1 None = None <-> nth j t2 None = None) /\
         (forall (j : nat) (a b : D), nth j t1 None = Some a -> nth j t2 None = Some b -> ok a b).
Proof. exact @sweep_linear_ok. Qed.

(** backward(None) is literally backward(Some ones) *)
Theorem C17_default_seed :
  forall (P D : Type) (E : eops P D) (g : store P D) (r : nat) (keep : bool) (ndr : node P D),
         nth_error g r = Some ndr ->
         run_backward E g r keep None = run_backward E g r keep (Some (eo_ones E (n_pay ndr))).
Proof. exact @run_backward_default_seed. Qed.

Print Assumptions C17_linear.
Print Assumptions C17_table_linear.
Print Assumptions C17_default_seed.
