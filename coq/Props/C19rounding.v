(** C19rounding  (closeness) rounding-error bounds: f32 and f64 results agree to within single-precision rounding of the terms involved

    [rounded_ops emin prec] is the model's scalar instance over the reals in which every arithmetic operation is the
    exact operation followed by Flocq's round-to-nearest-even in the format FLT(emin, prec): binary32 = (-149, 24),
    binary64 = (-1074, 53) (overflow, NaN and signed zeros are not modelled; exp/ln/pow are an idealised correctly rounded
    libm).  u = 2^-prec is the unit round-off, eta = 2^(emin-1) the underflow unit, theta k = (1+u)^k - 1 <= gamma k =
    k u / (1 - k u).  These are the classical forward error bounds (Higham) for the model's accumulating operations in the
    exact order corgi adds in: [C19_sum_error], [C19_dot_error]; lifted to the array operations against the exact
    real-number result of the SAME model function ([C19_matmul_error], [C19_conv_error], [C19_sum_op_error],
    [C19_elementwise_error]); and the statement the property makes - binary32 against binary64 on the same data -
    [C19_matmul_f32_vs_f64]: |v32 - v64| <= (gamma_24(n+1) + gamma_53(n+1)) * (|c| + sum |a_k b_k|) + underflow terms.
    Compositions ([Proofs/RoundingCompose.v]): a dense layer's pre-activation, the mean-squared-error cost and softmax rows
    (with exp of a stated relative accuracy on the data's range).  NOT covered: whole multi-layer forward passes and
    gradients, which remain validated by the differential run against the --features f32 build.  Axioms: Coq's Reals axioms and Classical_Prop.classic (Flocq adds none).

    Statements only: every theorem below is closed by [exact <lemma>]; the lemmas are proved in
    the files imported here.  Generated with tools/gen_props.py from the lemmas' own types. *)

From Coq Require Import List Reals.
From Flocq Require Import Core.
From Corgi Require Import Lib.OptionMonad Lib.Sums Model.Scalar Model.RealScalar Model.RoundedScalar Model.Arr Model.SlicedOp
     Model.Elementwise Model.Linalg Model.Image Proofs.ArrFacts Proofs.BroadcastDims Proofs.SpecDefs Proofs.MatmulSpec
     Proofs.ConvSpec Proofs.RealDerivs Proofs.RoundingSpec Proofs.RoundingCompose.
Import ListNotations.
Open Scope R_scope.

(** one rounding: |rnd x - x| <= u |x| + eta *)
Theorem C19_round_error :
  forall emin prec : Z,
         Prec_gt_0 prec -> forall x : R, Rabs (rnd emin prec x - x) <= u prec * Rabs x + eta emin.
Proof. exact @rn_err. Qed.

(** addition of representable numbers: purely relative error *)
Theorem C19_add_error :
  forall emin prec : Z,
         Prec_gt_0 prec ->
         forall x y : R,
         generic_format radix2 (FLT_exp emin prec) x ->
         generic_format radix2 (FLT_exp emin prec) y ->
         generic_format radix2 (FLT_exp emin prec) (fadd (rounded_ops emin prec) x y) /\
         Rabs (fadd (rounded_ops emin prec) x y - (x + y)) <= u prec * Rabs (x + y).
Proof. exact @fadd_err. Qed.

(** multiplication *)
Theorem C19_mul_error :
  forall emin prec : Z,
         Prec_gt_0 prec ->
         forall x y : R,
         generic_format radix2 (FLT_exp emin prec) (fmul (rounded_ops emin prec) x y) /\
         Rabs (fmul (rounded_ops emin prec) x y - x * y) <= u prec * Rabs (x * y) + eta emin.
Proof. exact @fmul_err. Qed.

(** the model's left-fold sum of n terms: gamma_(n-1) * sum |terms| *)
Theorem C19_sum_error :
  forall emin prec : Z,
         Prec_gt_0 prec ->
         forall l : list R,
         Forall (fun x : R => generic_format radix2 (FLT_exp emin prec) x) l ->
         INR (length l - 1) * u prec < 1 ->
         Rabs (vsum (rounded_ops emin prec) l - rsum l) <= gamma prec (length l - 1) * rsum (map Rabs l).
Proof. exact @vsum_err_gamma. Qed.

(** c + sum a_k b_k as the model computes it: gamma_(n+1) * (|c| + sum |a_k b_k|) + underflow *)
Theorem C19_dot_error :
  forall emin prec : Z,
         Prec_gt_0 prec ->
         forall (c : R) (A B : nat -> R) (n : nat),
         generic_format radix2 (FLT_exp emin prec) c ->
         INR (S n) * u prec < 1 ->
         let terms := map (fun k : nat => A k * B k) (seq 0 n) in
         Rabs
           (fadd (rounded_ops emin prec) c
              (vsum (rounded_ops emin prec)
                 (map (fun k : nat => fmul (rounded_ops emin prec) (A k) (B k)) (seq 0 n))) - 
            (c + rsum terms)) <=
         gamma prec (S n) * (Rabs c + rsum (map Rabs terms)) + INR n * eta emin * (1 + gamma prec n).
Proof. exact @dot_err_gamma. Qed.

(** every matmul element, all flag pairs and additive terms, against the exact real result *)
Theorem C19_matmul_error :
  forall emin prec : Z,
         Prec_gt_0 prec ->
         forall (a : arr R) (ta : bool) (b : arr R) (tb : bool) (c : option (arr R)) 
           (la : list nat) (ar ac : nat) (lb : list nat) (br bc : nat),
         wf a ->
         wf b ->
         dims a = la ++ [ar; ac] ->
         dims b = lb ++ [br; bc] ->
         mm_inner_a ta ar ac = mm_inner_b tb br bc ->
         bcompat la lb ->
         bias_admissible c (mm_rows ta ar ac) (mm_cols tb br bc) ->
         (forall c' : arr R, c = Some c' -> fmt_arr emin prec c') ->
         let rows := mm_rows ta ar ac in
         let cols := mm_cols tb br bc in
         let n := mm_inner_a ta ar ac in
         exists rf rr : arr R,
           a_matmul (rounded_ops emin prec) a ta b tb c = Some rf /\
           a_matmul R_ops a ta b tb c = Some rr /\
           dims rf = dims rr /\
           (forall (J : list nat) (i j : nat),
            in_range J (bmax la lb) ->
            (i < rows)%nat ->
            (j < cols)%nat ->
            exists vf vr : R,
              get rf (J ++ [i; j]) = Some vf /\
              get rr (J ++ [i; j]) = Some vr /\
              (let ct := bias_flat R_ops c cols i j in
               let terms := mm_terms a ta b tb la lb J i j n in
               vr = ct + rsum terms /\ Rabs (vf - vr) <= dot_bound emin prec n ct (rsum (map Rabs terms)))).
Proof. exact @matmul_rounding. Qed.

(** every convolution element *)
Theorem C19_conv_error :
  forall emin prec : Z,
         Prec_gt_0 prec ->
         forall (image filters : arr R) (batch : list nat) (depth rows cols count fr fc sr sc : nat),
         wf image ->
         wf filters ->
         dims image = batch ++ [depth; rows; cols] ->
         dims filters = [count; depth; fr; fc] ->
         (1 <= sr)%nat ->
         (1 <= sc)%nat ->
         (fr <= rows)%nat ->
         (fc <= cols)%nat ->
         let rc := out_count rows fr sr in
         let cc := out_count cols fc sc in
         let n := (depth * fr * fc)%nat in
         exists rf rr : arr R,
           conv (rounded_ops emin prec) image filters sr sc = Some rf /\
           conv R_ops image filters sr sc = Some rr /\
           dims rf = dims rr /\
           (forall (B : list nat) (f y x : nat),
            in_range B batch ->
            (f < count)%nat ->
            (y < rc)%nat ->
            (x < cc)%nat ->
            exists vf vr : R,
              get rf (B ++ [f; y; x]) = Some vf /\
              get rr (B ++ [f; y; x]) = Some vr /\
              (let terms := conv_terms image filters B f y x sr sc fr fc n in
               vr = 0 + rsum terms /\ Rabs (vf - vr) <= dot_bound emin prec n 0 (rsum (map Rabs terms)))).
Proof. exact @conv_rounding. Qed.

(** sum(k) *)
Theorem C19_sum_op_error :
  forall emin prec : Z,
         Prec_gt_0 prec ->
         forall (k : nat) (a : arr R),
         wf a ->
         (1 <= k <= length (dims a))%nat ->
         fmt_arr emin prec a ->
         let lead := firstn (length (dims a) - k) (dims a) in
         let g := prod (lastn k (dims a)) in
         exists cf cr : arr R,
           a_sum (rounded_ops emin prec) k a = Some cf /\
           a_sum R_ops k a = Some cr /\
           dims cf = dims cr /\
           (forall J : list nat,
            in_range J lead ->
            let blk := SlicedOpSpec.block g (rowmajor lead J) (vals a) in
            exists vf : R,
              get cf (J ++ [0%nat]) = Some vf /\
              get cr (J ++ [0%nat]) = Some (rsum blk) /\
              length blk = g /\ Rabs (vf - rsum blk) <= theta prec (g - 1) * rsum (map Rabs blk)).
Proof. exact @a_sum_rounding. Qed.

(** add / mul / div with broadcasting: one rounding each *)
Theorem C19_elementwise_error :
  forall emin prec : Z,
         Prec_gt_0 prec ->
         forall a b : arr R,
         wf a ->
         wf b ->
         dims a <> [] ->
         dims b <> [] ->
         bcompat (dims a) (dims b) ->
         exists sf sr mf mr df dr : arr R,
           a_add (rounded_ops emin prec) a b = Some sf /\
           a_add R_ops a b = Some sr /\
           dims sf = dims sr /\
           a_mul (rounded_ops emin prec) a b = Some mf /\
           a_mul R_ops a b = Some mr /\
           dims mf = dims mr /\
           a_div (rounded_ops emin prec) a b = Some df /\
           a_div R_ops a b = Some dr /\
           dims df = dims dr /\
           (forall I : list nat,
            in_range I (bmax (dims a) (dims b)) ->
            exists x y : R,
              get a (bclamp (dims a) I) = Some x /\
              get b (bclamp (dims b) I) = Some y /\
              get sr I = Some (x + y) /\
              get mr I = Some (x * y) /\
              get dr I = Some (x / y) /\
              (exists vs vm vd : R,
                 get sf I = Some vs /\
                 get mf I = Some vm /\
                 get df I = Some vd /\
                 (fmt_arr emin prec a -> fmt_arr emin prec b -> Rabs (vs - (x + y)) <= u prec * Rabs (x + y)) /\
                 Rabs (vs - (x + y)) <= u prec * Rabs (x + y) + eta emin /\
                 Rabs (vm - x * y) <= u prec * Rabs (x * y) + eta emin /\
                 Rabs (vd - x / y) <= u prec * Rabs (x / y) + eta emin)).
Proof. exact @ew_rounding. Qed.

(** binary32 against binary64 on the same data *)
Theorem C19_matmul_f32_vs_f64 :
  forall (a : arr R) (ta : bool) (b : arr R) (tb : bool) (c : option (arr R)) 
           (la : list nat) (ar ac : nat) (lb : list nat) (br bc : nat),
         wf a ->
         wf b ->
         dims a = la ++ [ar; ac] ->
         dims b = lb ++ [br; bc] ->
         mm_inner_a ta ar ac = mm_inner_b tb br bc ->
         bcompat la lb ->
         bias_admissible c (mm_rows ta ar ac) (mm_cols tb br bc) ->
         (forall c' : arr R, c = Some c' -> fmt_arr (-149) 24 c') ->
         let rows := mm_rows ta ar ac in
         let cols := mm_cols tb br bc in
         let n := mm_inner_a ta ar ac in
         INR (S n) * u 24 < 1 ->
         exists r32 r64 : arr R,
           a_matmul binary32_ops a ta b tb c = Some r32 /\
           a_matmul binary64_ops a ta b tb c = Some r64 /\
           dims r32 = dims r64 /\
           (forall (J : list nat) (i j : nat),
            in_range J (bmax la lb) ->
            (i < rows)%nat ->
            (j < cols)%nat ->
            exists v32 v64 : R,
              get r32 (J ++ [i; j]) = Some v32 /\
              get r64 (J ++ [i; j]) = Some v64 /\
              (let ct := bias_flat R_ops c cols i j in
               let T := rsum (map Rabs (mm_terms a ta b tb la lb J i j n)) in
               Rabs (v32 - v64) <=
               (gamma 24 (S n) + gamma 53 (S n)) * (Rabs ct + T) +
               INR n * (eta (-149) * (1 + gamma 24 n) + eta (-1074) * (1 + gamma 53 n)))).
Proof. exact @matmul_f32_f64. Qed.

(** convolution in two formats *)
Theorem C19_conv_two_formats :
  forall emin1 prec1 emin2 prec2 : Z,
         Prec_gt_0 prec1 ->
         Prec_gt_0 prec2 ->
         forall (image filters : arr R) (batch : list nat) (depth rows cols count fr fc sr sc : nat),
         wf image ->
         wf filters ->
         dims image = batch ++ [depth; rows; cols] ->
         dims filters = [count; depth; fr; fc] ->
         (1 <= sr)%nat ->
         (1 <= sc)%nat ->
         (fr <= rows)%nat ->
         (fc <= cols)%nat ->
         let rc := out_count rows fr sr in
         let cc := out_count cols fc sc in
         let n := (depth * fr * fc)%nat in
         exists r1 r2 : arr R,
           conv (rounded_ops emin1 prec1) image filters sr sc = Some r1 /\
           conv (rounded_ops emin2 prec2) image filters sr sc = Some r2 /\
           dims r1 = dims r2 /\
           (forall (B : list nat) (f y x : nat),
            in_range B batch ->
            (f < count)%nat ->
            (y < rc)%nat ->
            (x < cc)%nat ->
            exists v1 v2 : R,
              get r1 (B ++ [f; y; x]) = Some v1 /\
              get r2 (B ++ [f; y; x]) = Some v2 /\
              (let T := rsum (map Rabs (conv_terms image filters B f y x sr sc fr fc n)) in
               Rabs (v1 - v2) <= dot_bound emin1 prec1 n 0 T + dot_bound emin2 prec2 n 0 T)).
Proof. exact @conv_two_formats. Qed.

(** sum(k) in two formats *)
Theorem C19_sum_two_formats :
  forall emin1 prec1 emin2 prec2 : Z,
         Prec_gt_0 prec1 ->
         Prec_gt_0 prec2 ->
         (prec1 <= prec2)%Z ->
         (emin2 <= emin1)%Z ->
         forall (k : nat) (a : arr R),
         wf a ->
         (1 <= k <= length (dims a))%nat ->
         fmt_arr emin1 prec1 a ->
         let lead := firstn (length (dims a) - k) (dims a) in
         let g := prod (lastn k (dims a)) in
         exists c1 c2 : arr R,
           a_sum (rounded_ops emin1 prec1) k a = Some c1 /\
           a_sum (rounded_ops emin2 prec2) k a = Some c2 /\
           dims c1 = dims c2 /\
           (forall J : list nat,
            in_range J lead ->
            let blk := SlicedOpSpec.block g (rowmajor lead J) (vals a) in
            exists v1 v2 : R,
              get c1 (J ++ [0%nat]) = Some v1 /\
              get c2 (J ++ [0%nat]) = Some v2 /\
              Rabs (v1 - v2) <= (theta prec1 (g - 1) + theta prec2 (g - 1)) * rsum (map Rabs blk)).
Proof. exact @a_sum_two_formats. Qed.

(** (1+u)^k - 1 <= k u / (1 - k u) *)
Theorem C19_theta_le_gamma :
  forall (prec : Z) (k : nat), INR k * u prec < 1 -> theta prec k <= gamma prec k.
Proof. exact @theta_le_gamma. Qed.

(** composition: a dense layer's pre-activation b_j + sum_k x_ik w_jk exactly as matmul-with-additive-term computes it: gamma_(n+1) * (|b_j| + sum |x_ik w_jk|), plus an underflow term that vanishes when no product underflows *)
Theorem C19_dense_layer_error :
  forall emin prec : Z,
         Prec_gt_0 prec ->
         forall (x w b : arr R) (r n m : nat),
         wf x ->
         wf w ->
         wf b ->
         dims x = [r; n] ->
         dims w = [m; n] ->
         dims b = [m] ->
         fmt_arr emin prec b ->
         INR (S n) * u prec < 1 ->
         exists yf yr : arr R,
           a_matmul (rounded_ops emin prec) x false w true (Some b) = Some yf /\
           a_matmul R_ops x false w true (Some b) = Some yr /\
           dims yf = [r; m] /\
           dims yr = [r; m] /\
           (forall i j : nat,
            (i < r)%nat ->
            (j < m)%nat ->
            let bj := getd R_ops b [j] in
            let exact := bj + rsum (dense_terms x w i j n) in
            let T := rsum (map Rabs (dense_terms x w i j n)) in
            exists vf : R,
              get yf [i; j] = Some vf /\
              get yr [i; j] = Some exact /\
              Rabs (vf - exact) <= gamma prec (S n) * (Rabs bj + T) + INR n * eta emin * (1 + gamma prec n) /\
              (Forall (no_uflow emin prec) (dense_terms x w i j n) ->
               Rabs (vf - exact) <= gamma prec (S n) * (Rabs bj + T))).
Proof. exact @dense_rounding_gamma. Qed.

(** the dense pre-activation in binary32 against binary64 on the same data *)
Theorem C19_dense_layer_f32_vs_f64 :
  forall (x w b : arr R) (r n m : nat),
         wf x ->
         wf w ->
         wf b ->
         dims x = [r; n] ->
         dims w = [m; n] ->
         dims b = [m] ->
         fmt_arr (-149) 24 b ->
         (Z.of_nat (S n) < 16777216)%Z ->
         exists y32 y64 : arr R,
           a_matmul binary32_ops x false w true (Some b) = Some y32 /\
           a_matmul binary64_ops x false w true (Some b) = Some y64 /\
           dims y32 = [r; m] /\
           dims y64 = [r; m] /\
           (forall i j : nat,
            (i < r)%nat ->
            (j < m)%nat ->
            let bj := getd R_ops b [j] in
            let T := rsum (map Rabs (dense_terms x w i j n)) in
            exists v32 v64 : R,
              get y32 [i; j] = Some v32 /\
              get y64 [i; j] = Some v64 /\
              Rabs (v32 - v64) <=
              (gamma 24 (S n) + gamma 53 (S n)) * (Rabs bj + T) +
              INR n * (eta (-149) * (1 + gamma 24 n) + eta (-1074) * (1 + gamma 53 n)) /\
              (Forall (no_uflow (-149) 24) (dense_terms x w i j n) ->
               Rabs (v32 - v64) <= (gamma 24 (S n) + gamma 53 (S n)) * (Rabs bj + T))).
Proof. exact @dense_f32_f64. Qed.

(** composition: the mean-squared-error cost in corgi's literal order (difference, square, scale by 1/N, left-fold sum): gamma_(N+4) * mse + underflow *)
Theorem C19_mse_error :
  forall emin prec : Z,
         Prec_gt_0 prec ->
         (emin <= 0)%Z ->
         forall t y : arr R,
         wf t ->
         wf y ->
         dims t = dims y ->
         dims t <> [] ->
         fmt_arr emin prec t ->
         fmt_arr emin prec y ->
         let N := prod (dims y) in
         generic_format radix2 (FLT_exp emin prec) (INR N) ->
         bpow radix2 (emin + prec - 1) <= / INR N ->
         INR (N + 4) * u prec < 1 ->
         exists vf : R,
           a_mse (rounded_ops emin prec) t y = Some vf /\
           a_mse R_ops t y = Some (mse_exact t y) /\
           Rabs (vf - mse_exact t y) <=
           gamma prec (N + 4) * mse_exact t y + INR N * mse_kappa emin prec * (1 + gamma prec (N - 1)).
Proof. exact @mse_rounding_gamma. Qed.

(** the mse cost in binary32 against binary64 *)
Theorem C19_mse_f32_vs_f64 :
  forall t y : arr R,
         wf t ->
         wf y ->
         dims t = dims y ->
         dims t <> [] ->
         fmt_arr (-149) 24 t ->
         fmt_arr (-149) 24 y ->
         let N := prod (dims y) in
         (Z.of_nat N + 4 < 16777216)%Z ->
         exists v32 v64 : R,
           a_mse binary32_ops t y = Some v32 /\
           a_mse binary64_ops t y = Some v64 /\
           Rabs (v32 - v64) <=
           (gamma 24 (N + 4) + gamma 53 (N + 4)) * mse_exact t y +
           INR N *
           (mse_kappa (-149) 24 * (1 + gamma 24 (N - 1)) + mse_kappa (-1074) 53 * (1 + gamma 53 (N - 1))).
Proof. exact @mse_f32_f64. Qed.

(** over the reals the literal composition is sum (t-y)^2 / N *)
Theorem C19_mse_is_mean_square :
  forall t y : arr R,
         wf t -> wf y -> dims t = dims y -> dims t <> [] -> a_mse R_ops t y = Some (mse_exact t y).
Proof. exact @a_mse_real. Qed.

(** composition: softmax rows with an exp of relative accuracy eps on the data's range: every output within a stated relative bound of the exact softmax (plus eta), and every computed row sums to 1 within softmax_rel n + n eta *)
Theorem C19_softmax_error :
  forall emin prec : Z,
         Prec_gt_0 prec ->
         forall (fe : R -> R) (eps : R) (dom : R -> Prop),
         0 <= eps < 1 ->
         (forall x : R, generic_format radix2 (FLT_exp emin prec) (fe x)) ->
         (forall x : R, dom x -> Rabs (fe x - exp x) <= eps * exp x) ->
         forall (a : arr R) (lead : list nat) (n : nat),
         wf a ->
         dims a = lead ++ [n] ->
         theta prec (n - 1) < 1 ->
         Forall dom (vals a) ->
         exists cf cr : arr R,
           a_softmax (with_fexp (rounded_ops emin prec) fe) a = Some cf /\
           a_softmax R_ops a = Some cr /\
           dims cf = dims cr /\
           (forall (J : list nat) (i : nat),
            in_range J lead ->
            (i < n)%nat ->
            exists vf vr : R,
              get cf (J ++ [i]) = Some vf /\
              get cr (J ++ [i]) = Some vr /\ 0 < vr /\ Rabs (vf - vr) <= softmax_rel prec eps n * vr + eta emin) /\
           (forall J : list nat,
            in_range J lead ->
            exists rowf : list R,
              map Some rowf = map (fun i : nat => get cf (J ++ [i])) (seq 0 n) /\
              Rabs (rsum rowf - 1) <= softmax_rel prec eps n + INR n * eta emin).
Proof. exact @softmax_rounding. Qed.

(** the same with the correctly rounded exp of the rounded instance (eps = u) *)
Theorem C19_softmax_error_ideal_exp :
  forall emin prec : Z,
         Prec_gt_0 prec ->
         forall (a : arr R) (lead : list nat) (n : nat),
         wf a ->
         dims a = lead ++ [n] ->
         theta prec (n - 1) < 1 ->
         Forall (exp_normal emin prec) (vals a) ->
         exists cf cr : arr R,
           a_softmax (rounded_ops emin prec) a = Some cf /\
           a_softmax R_ops a = Some cr /\
           dims cf = dims cr /\
           (forall (J : list nat) (i : nat),
            in_range J lead ->
            (i < n)%nat ->
            exists vf vr : R,
              get cf (J ++ [i]) = Some vf /\
              get cr (J ++ [i]) = Some vr /\
              0 < vr /\ Rabs (vf - vr) <= softmax_rel prec (u prec) n * vr + eta emin) /\
           (forall J : list nat,
            in_range J lead ->
            exists rowf : list R,
              map Some rowf = map (fun i : nat => get cf (J ++ [i])) (seq 0 n) /\
              Rabs (rsum rowf - 1) <= softmax_rel prec (u prec) n + INR n * eta emin).
Proof. exact @softmax_rounding_ideal. Qed.

Print Assumptions C19_round_error.
Print Assumptions C19_add_error.
Print Assumptions C19_mul_error.
Print Assumptions C19_sum_error.
Print Assumptions C19_dot_error.
Print Assumptions C19_matmul_error.
Print Assumptions C19_conv_error.
Print Assumptions C19_sum_op_error.
Print Assumptions C19_elementwise_error.
Print Assumptions C19_matmul_f32_vs_f64.
Print Assumptions C19_conv_two_formats.
Print Assumptions C19_sum_two_formats.
Print Assumptions C19_theta_le_gamma.
Print Assumptions C19_dense_layer_error.
Print Assumptions C19_dense_layer_f32_vs_f64.
Print Assumptions C19_mse_error.
Print Assumptions C19_mse_f32_vs_f64.
Print Assumptions C19_mse_is_mean_square.
Print Assumptions C19_softmax_error.
Print Assumptions C19_softmax_error_ideal_exp.
