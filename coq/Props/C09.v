(** C09  Tracking decides exactly where gradients are computed and stored

    Engine part.  [reach g r id]: id is reachable from r through child entries whose tracking flag is set.

    Statements only: every theorem below is closed by [exact <lemma>]; the lemmas are proved in
    the files imported here.  Generated with tools/gen_props.py from the lemmas' own types. *)

From Coq Require Import List Arith Bool Permutation.
From Corgi Require Import Lib.OptionMonad Model.Engine Proofs.EngineDefs Proofs.EngineBase Proofs.Propagate
     Proofs.EngineInv Proofs.AdjointSpec Proofs.SweepBase Proofs.SweepAdjoint Proofs.SweepLinear
     Proofs.ValueAlg Proofs.SweepChar Proofs.EngineSeg Proofs.EngineValue Proofs.PassTheorems.

(** a pass keeps every payload and every child entry (so every tracking flag), changes gradient slots only inside reach, and stores plain values *)
Theorem C09_flags_and_support :
  forall (P D : Type) (E : eops P D) (g : store P D) (r : nat) (keep : bool) 
           (seed : option D) (g' : store P D) (log : trace),
         wfg E g ->
         clean g ->
         bop_contract E g ->
         r < length g ->
         run_backward E g r keep seed = Some (g', log) ->
         length g' = length g /\
         (forall (id : nat) (nd nd' : node P D),
          nth_error g id = Some nd ->
          nth_error g' id = Some nd' ->
          n_pay nd' = n_pay nd /\
          n_children nd' = n_children nd /\
          (forall (i : nat) (e : entry),
           nth_error (n_children nd) i = Some e -> nth_error (n_children nd') i = Some e)) /\
         (forall (id : nat) (nd nd' : node P D),
          nth_error g id = Some nd -> nth_error g' id = Some nd' -> ~ reach g r id -> n_grad nd' = n_grad nd) /\
         (forall (id : nat) (nd nd' : node P D),
          nth_error g id = Some nd ->
          nth_error g' id = Some nd' ->
          n_grad nd' = n_grad nd \/ (exists delta : D, stored E (n_grad nd) delta (n_grad nd'))).
Proof. exact @pass_flags_and_support. Qed.

(** nothing flows through an untracked entry: adjoints exist exactly on reach *)
Theorem C09_adjoint_support :
  forall (P D : Type) (E : eops P D) (g : store P D) (r : nat) (s : D) (tab : table),
         wfg E g ->
         bop_contract E g ->
         r < length g ->
         adjoints E g r s = Some tab -> forall id : nat, nth id tab None <> None <-> reach g r id.
Proof. exact @adjoints_reach. Qed.

(** the clear/restore pair around the closure call is neutral *)
Theorem C09_restore :
  forall es : list entry, restore_flags (clear_flags es) (map e_tracked es) = es.
Proof. exact @restore_clear. Qed.

Print Assumptions C09_flags_and_support.
Print Assumptions C09_adjoint_support.
Print Assumptions C09_restore.
