(** C14  Each training iteration steps parameters along the true current-loss gradient

    [ready s]: the state invariant of the training loop - the program state is good (HistoryInv), every layer
    parameter is a tracked leaf without closure and WITHOUT gradient, parameter nodes are pairwise distinct.
    [C14_iteration]: from a ready state one forward / backward / update round (a) returns the sum of the cost array
    built from the current output and target, (b) re-binds every parameter to theta - lr*g element-wise where g is exactly
    the adjoint-table entry of the single pass on the cost node started from an EMPTY slot (so nothing of an earlier
    iteration is in it; that table entry is the exact gradient by C01), and (c) ends in a ready state again - the
    induction invariant; [C14_all_iterations_ready]: hence every iteration of any run, with arbitrary batches, starts
    and ends ready.  [C14_loss_is_function_of_parameters_and_batch]: the returned loss depends only on the current
    parameter arrays, the input and the target.  The adjoint table is that of the repaired engine E' of
    ValueConcrete.v (the real engine's run IS a run of E' on good stores).

    Statements only: every theorem below is closed by [exact <lemma>]; the lemmas are proved in
    the files imported here.  Generated with tools/gen_props.py from the lemmas' own types. *)

From Coq Require Import List Arith Bool.
From Corgi Require Import Lib.OptionMonad Lib.Sums Model.Scalar Model.Arr Model.SlicedOp Model.Elementwise Model.Linalg
     Model.Image Model.Ops Model.Engine Proofs.ArrFacts Proofs.EngineDefs Proofs.AdjointSpec Proofs.OptimSpec
     Proofs.HistoryInv Proofs.ValueConcrete Model.Program Proofs.TrainLoop Proofs.TrainInterleave.
Import ListNotations.

(** one iteration: loss, step of every parameter by its own fresh gradient, invariant re-established *)
Theorem C14_iteration :
  forall (F : Type) (O : ScalarOps F),
         is_cring O ->
         forall (s : state) (x : handle) (s1 : state) (out t : handle) (s2 : state) (loss : F) (s3 : state),
         ready s ->
         hvalid (st_nodes s) x ->
         model_forward O s x = Some (s1, out) ->
         hvalid (st_nodes s1) t ->
         model_backward O s1 t = Some (s2, loss) ->
         model_update O s2 = Some s3 ->
         exists (sc : state) (err : handle) (ndr : gnode) (g' : store pay (arr F)) 
         (log : trace) (tab : table),
           st_output s1 = Some out /\
           cost_apply O s1 (st_cost s) out t = Some (sc, err) /\
           nth_error (st_nodes sc) (e_node err) = Some ndr /\
           loss = a_sum_all O (pay_arr (n_pay ndr)) /\
           store_good (st_nodes sc) /\
           (forall h : handle, In h (model_params s) -> h_node sc h = h_node s h) /\
           run_backward (E O) (st_nodes sc) (e_node err) (e_keep err) None = Some (g', log) /\
           s2 = with_nodes sc g' /\
           adjoints (E' O) (st_nodes sc) (e_node err) (eo_ones (E O) (n_pay ndr)) = Some tab /\
           length (model_params s3) = length (model_params s) /\
           (forall (i : nat) (h : handle) (nd : gnode),
            nth_error (model_params s) i = Some h ->
            h_node s h = Some nd ->
            exists nd2 : gnode,
              h_node s2 h = Some nd2 /\
              n_pay nd2 = n_pay nd /\ n_grad nd2 = nth (e_node h) tab None /\ updated_param O s2 s3 i h nd2) /\
           st_lr s2 = st_lr s /\ ready s3.
Proof. exact @train_iteration. Qed.

(** the loss of the CURRENT parameters on the CURRENT batch *)
Theorem C14_loss_is_function_of_parameters_and_batch :
  forall (F : Type) (O : ScalarOps F) (s : state) (x : handle) (xa : arr F) 
           (s1 : state) (out t : handle) (ta : arr F) (s2 : state) (loss : F),
         rvalid s ->
         h_arr s x = Some xa ->
         model_forward O s x = Some (s1, out) ->
         h_arr s1 t = Some ta ->
         model_backward O s1 t = Some (s2, loss) ->
         exists ps : list lvals,
           mapM (layer_arrs s) (st_layers s) = Some ps /\ loss_val O (st_cost s) ps xa ta = Some loss.
Proof. exact @iteration_loss_value. Qed.

(** the invariant holds after model construction *)
Theorem C14_construction_ready :
  forall (F : Type) (O : ScalarOps F) (s0 : state) (ls : list layer_spec) (c : cost) 
           (lr : F) (s' : state) (o : obs), good s0 -> step O s0 (IModel ls c lr) = Some (s', o) -> ready s'.
Proof. exact @model_construction_ready. Qed.

(** every iteration of any run starts and ends ready (no leak between iterations) *)
Theorem C14_all_iterations_ready :
  forall (F : Type) (O0 : ScalarOps F) (bs1 : list batch) (b : batch) (bs2 : list batch) 
           (n : nat) (s s' : state),
         ready s ->
         exec O0 s (train_prog n (bs1 ++ b :: bs2)) = Some s' ->
         exists sk sk' : state,
           exec O0 s (train_prog n bs1) = Some sk /\
           ready sk /\
           exec O0 sk (batch_prog (5 * length bs1 + n) b) = Some sk' /\
           ready sk' /\ exec O0 sk' (train_prog (5 * S (length bs1) + n) bs2) = Some s' /\ ready s'.
Proof. exact @train_prog_iterations_ready. Qed.

(** the same for the direct-call formulation *)
Theorem C14_run_ready :
  forall (F : Type) (O : ScalarOps F) (bs : list (arr F * arr F)) (s s' : state) (ls : list F),
         ready s ->
         Forall (fun b : arr F * arr F => wf (fst b) /\ wf (snd b)) bs ->
         train O s bs = Some (s', ls) -> ready s' /\ length ls = length bs.
Proof. exact @train_ready. Qed.

(** update turns an armed state (gradients present) into a ready one and steps each parameter with its own gradient *)
Theorem C14_update_ready :
  forall (F : Type) (O : ScalarOps F) (s2 s3 : state),
         armed s2 ->
         model_update O s2 = Some s3 ->
         ready s3 /\
         st_pool s3 = st_pool s2 /\
         st_cost s3 = st_cost s2 /\
         st_lr s3 = st_lr s2 /\
         st_output s3 = st_output s2 /\
         length (model_params s3) = length (model_params s2) /\
         length (st_layers s3) = length (st_layers s2) /\
         (forall (i : nat) (h : handle) (nd2 : gnode),
          nth_error (model_params s2) i = Some h -> h_node s2 h = Some nd2 -> updated_param O s2 s3 i h nd2) /\
         (forall (j : nat) (nd : gnode),
          nth_error (st_nodes s2) j = Some nd ->
          exists nd' : gnode,
            nth_error (st_nodes s3) j = Some nd' /\
            n_pay nd' = n_pay nd /\
            n_children nd' = n_children nd /\ (n_grad nd' = n_grad nd \/ n_grad nd' = None)).
Proof. exact @model_update_ready. Qed.

(** after backward every parameter slot is old + adjoint-table entry *)
Theorem C14_slots_are_table_entries :
  forall (F : Type) (O : ScalarOps F),
         is_cring O ->
         forall (s1 : state) (t : handle) (s2 : state) (loss : F),
         armed s1 ->
         hvalid (st_nodes s1) t ->
         model_backward O s1 t = Some (s2, loss) ->
         exists
           (out : handle) (sc : state) (err : handle) (ndr : gnode) (g' : store pay (arr F)) 
         (log : trace) (tab : table),
           st_output s1 = Some out /\
           cost_apply O s1 (st_cost s1) out t = Some (sc, err) /\
           ext s1 sc /\
           store_good (st_nodes sc) /\
           nth_error (st_nodes sc) (e_node err) = Some ndr /\
           loss = a_sum_all O (pay_arr (n_pay ndr)) /\
           run_backward (E O) (st_nodes sc) (e_node err) (e_keep err) None = Some (g', log) /\
           s2 = with_nodes sc g' /\
           adjoints (E' O) (st_nodes sc) (e_node err) (eo_ones (E O) (n_pay ndr)) = Some tab /\
           length tab = length (st_nodes sc) /\
           (forall (h : handle) (nd1 : gnode),
            In h (model_params s1) ->
            h_node s1 h = Some nd1 ->
            exists nd2 : gnode,
              h_node s2 h = Some nd2 /\
              n_pay nd2 = n_pay nd1 /\
              n_children nd2 = [] /\
              PassTheorems.stored_opt (E' O) (n_grad nd1) (nth (e_node h) tab None) (n_grad nd2)).
Proof. exact @model_backward_slots. Qed.

(** two backward calls before one update: the slot holds both tables' entries *)
Theorem C14_double_backward :
  forall (F : Type) (O : ScalarOps F),
         is_cring O ->
         forall (s1 : state) (t1 : handle) (s2 : state) (l1 : F) (t2 : handle) (s2' : state) (l2 : F),
         armed s1 ->
         hvalid (st_nodes s1) t1 ->
         model_backward O s1 t1 = Some (s2, l1) ->
         hvalid (st_nodes s2) t2 ->
         model_backward O s2 t2 = Some (s2', l2) ->
         exists
           (out : handle) (sc1 : state) (err1 : handle) (ndr1 : gnode) (tab1 : table) 
         (sc2 : state) (err2 : handle) (ndr2 : gnode) (tab2 : table),
           st_output s1 = Some out /\
           cost_apply O s1 (st_cost s1) out t1 = Some (sc1, err1) /\
           nth_error (st_nodes sc1) (e_node err1) = Some ndr1 /\
           adjoints (E' O) (st_nodes sc1) (e_node err1) (eo_ones (E O) (n_pay ndr1)) = Some tab1 /\
           cost_apply O s2 (st_cost s1) out t2 = Some (sc2, err2) /\
           nth_error (st_nodes sc2) (e_node err2) = Some ndr2 /\
           adjoints (E' O) (st_nodes sc2) (e_node err2) (eo_ones (E O) (n_pay ndr2)) = Some tab2 /\
           armed s2' /\
           (forall (h : handle) (nd1 : gnode),
            In h (model_params s1) ->
            h_node s1 h = Some nd1 ->
            exists (nd2 : gnode) (o1 : option (arr F)),
              h_node s2' h = Some nd2 /\
              n_pay nd2 = n_pay nd1 /\
              PassTheorems.stored_opt (E' O) (n_grad nd1) (nth (e_node h) tab1 None) o1 /\
              PassTheorems.stored_opt (E' O) o1 (nth (e_node h) tab2 None) (n_grad nd2)).
Proof. exact @double_backward_slots. Qed.

(** after update no layer handle refers to a node holding a gradient or a graph *)
Theorem C14_no_leak :
  forall (F : Type) (O : ScalarOps F) (s2 s3 : state),
         armed s2 ->
         model_update O s2 = Some s3 ->
         (forall h : handle, In h (model_params s2) -> grad_of s3 h = None) /\
         (forall h3 : handle,
          In h3 (model_params s3) ->
          In h3 (model_params s2) /\ grad_of s2 h3 = None \/ length (st_nodes s2) <= e_node h3) /\
         (forall h3 : handle,
          In h3 (model_params s3) ->
          exists nd : gnode,
            h_node s3 h3 = Some nd /\ n_children nd = [] /\ p_bop (n_pay nd) = None /\ n_grad nd = None).
Proof. exact @update_no_leak. Qed.

(** leaf construction, clones, drops, reads and Model::forward between backward and update keep every parameter's handle, values and stored gradient, and the update precondition *)
Theorem C14_harmless_instruction :
  forall (F : Type) (O : ScalarOps F) (s0 : state) (i : instr) (s' : state) (o : obs),
         armed s0 -> harmless i = true -> step O s0 i = Some (s', o) -> armed s' /\ same_params s0 s'.
Proof. exact @step_harmless. Qed.

(** any program of such instructions (e.g. validation forwards) between backward and update: the update still succeeds and re-binds every parameter to exactly the arrays the immediate update would have produced *)
Theorem C14_interleaved_update :
  forall (F : Type) (O : ScalarOps F) (p : list instr) (s s' : state),
         armed s ->
         forallb harmless p = true ->
         exec O s p = Some s' ->
         exists (u : state) (o : obs) (u' : state) (o' : obs),
           step O s IModelUpdate = Some (u, o) /\
           step O s' IModelUpdate = Some (u', o') /\ ready u /\ ready u' /\ param_arrays u' = param_arrays u.
Proof. exact @interleaved_update_same_values. Qed.

(** the single validation forward *)
Theorem C14_forward_between_backward_and_update :
  forall (F : Type) (O : ScalarOps F) (s : state) (h : nat) (s1 : state) (o1 : obs),
         armed s ->
         step O s (IForward h) = Some (s1, o1) ->
         armed s1 /\
         model_params s1 = model_params s /\
         (forall p : handle, In p (model_params s) -> h_arr s1 p = h_arr s p /\ grad_of s1 p = grad_of s p) /\
         (exists (u : state) (o : obs) (u' : state) (o' : obs),
            step O s IModelUpdate = Some (u, o) /\
            step O s1 IModelUpdate = Some (u', o') /\ ready u /\ ready u' /\ param_arrays u' = param_arrays u).
Proof. exact @forward_between_backward_and_update. Qed.

Print Assumptions C14_iteration.
Print Assumptions C14_loss_is_function_of_parameters_and_batch.
Print Assumptions C14_construction_ready.
Print Assumptions C14_all_iterations_ready.
Print Assumptions C14_run_ready.
Print Assumptions C14_update_ready.
Print Assumptions C14_slots_are_table_entries.
Print Assumptions C14_double_backward.
Print Assumptions C14_no_leak.
Print Assumptions C14_harmless_instruction.
Print Assumptions C14_interleaved_update.
Print Assumptions C14_forward_between_backward_and_update.
