(** C16nested  (all nesting depths of arr!) nested construction

    [nest] is a rose tree of values (what nested [arr!] invocations denote); [build] constructs the array level by
    level with the model of [Array::from(Vec<Array>)] / [Array::from(Vec<Float>)]; [regular d t]: t is a well-formed
    nesting of shape d (no empty level, no empty row, equal shapes at every level); [flat t]: the row-major values;
    [path t idx]: the leaf element reached by following the multi-index.

    Statements only: every theorem below is closed by [exact <lemma>]; the lemmas are proved in
    the files imported here.  Generated with tools/gen_props.py from the lemmas' own types. *)

From Coq Require Import List Arith Bool.
From Corgi Require Import Lib.OptionMonad Model.Scalar Model.Arr Proofs.ArrFacts Proofs.NestedSpec.
Import ListNotations.

(** nesting of ANY depth builds exactly the nested dimensions with row-major values, iff the nesting is regular *)
Theorem C16_nested_any_depth :
  forall (F : Type) (t : nest F) (a : arr F),
         build t = Some a <-> (exists d : list nat, regular d t /\ a = built d t).
Proof. exact @build_spec. Qed.

(** ragged nesting, empty levels and empty rows are refused at every depth *)
Theorem C16_nested_refuses :
  forall (F : Type) (t : nest F), build t = None <-> ~ (exists d : list nat, regular d t).
Proof. exact @build_none. Qed.

(** indexing the built array with a full multi-index returns the leaf element reached by following it *)
Theorem C16_nested_index :
  forall (F : Type) (t : nest F) (a : arr F) (idx : list nat),
         build t = Some a ->
         in_range idx (dims a) -> exists x : F, index_multi a idx = Some x /\ path t idx = Some x.
Proof. exact @build_index. Qed.

(** the built array is well formed *)
Theorem C16_nested_wf :
  forall (F : Type) (t : nest F) (a : arr F), build t = Some a -> wf a.
Proof. exact @build_wf. Qed.

Print Assumptions C16_nested_any_depth.
Print Assumptions C16_nested_refuses.
Print Assumptions C16_nested_index.
Print Assumptions C16_nested_wf.
