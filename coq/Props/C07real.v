(** C07real  (real-number part) every softmax row is positive and sums to one

    Over Coq's real numbers; same axioms as Props/C02real.v.

    Statements only: every theorem below is closed by [exact <lemma>]; the lemmas are proved in
    the files imported here.  Generated with tools/gen_props.py from the lemmas' own types. *)

From Coq Require Import List Reals.
From Coquelicot Require Import Coquelicot.
From Corgi Require Import Lib.OptionMonad Lib.Sums Model.Scalar Model.RealScalar Model.Arr Model.SlicedOp Model.Elementwise
     Model.Ops Proofs.ArrFacts Proofs.SpecDefs Proofs.RealDerivs.
Import ListNotations.
Open Scope R_scope.

(** for every well-formed array of rank >= 1: all entries > 0 and every last-dimension row sums to 1 *)
Theorem C07r_softmax_rows :
  forall (a : arr R) (lead : list nat) (n : nat),
         wf a ->
         dims a = lead ++ [n] ->
         exists c : arr R,
           a_softmax R_ops a = Some c /\
           wf c /\
           dims c = lead ++ [n] /\
           List.Forall (fun v : R => 0 < v) (vals c) /\
           (forall I : list nat, in_range I (dims c) -> exists v : R, get c I = Some v /\ 0 < v) /\
           (forall J : list nat,
            in_range J lead ->
            exists row : list R,
              map Some row = map (fun i : nat => get c (J ++ [i])) (seq 0 n) /\ vsum R_ops row = 1).
Proof. exact @softmax_rows_R. Qed.

(** the row fact on lists *)
Theorem C07r_softmax_row_sum :
  forall row : list R,
         row <> [] ->
         let s := vsum R_ops (map (fexp R_ops) row) in
         0 < s /\ vsum R_ops (map (fun v : R => fdiv R_ops (fexp R_ops v) s) row) = 1.
Proof. exact @softmax_row_sum. Qed.

(** a concrete 2x2 instance *)
Theorem C07r_example :
  let a := {| dims := [2%nat; 2%nat]; vals := [0; 1; 2; 3] |} in
         exists (c : arr R) (v00 v01 v10 v11 : R),
           a_softmax R_ops a = Some c /\
           get c [0%nat; 0%nat] = Some v00 /\
           get c [0%nat; 1%nat] = Some v01 /\
           get c [1%nat; 0%nat] = Some v10 /\
           get c [1%nat; 1%nat] = Some v11 /\
           0 < v00 /\ 0 < v01 /\ 0 < v10 /\ 0 < v11 /\ v00 + v01 = 1 /\ v10 + v11 = 1.
Proof. exact @softmax_2x2. Qed.

Print Assumptions C07r_softmax_rows.
Print Assumptions C07r_softmax_row_sum.
Print Assumptions C07r_example.
