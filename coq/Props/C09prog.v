(** C09prog  (construction part) a result is tracked iff an operand is; untracked results keep no reference

    [apply_op O s k hs] builds the result of operation k on the operand handles hs.  [op_res s s' h r t cs]: s' frames s,
    h is a fresh last node holding r, tracked = keep = t, childless without closure when t = false, children cs and a
    closure when t = true.

    Statements only: every theorem below is closed by [exact <lemma>]; the lemmas are proved in
    the files imported here.  Generated with tools/gen_props.py from the lemmas' own types. *)

From Coq Require Import List Arith Bool.
From Corgi Require Import Lib.OptionMonad Model.Scalar Model.Arr Model.SlicedOp Model.Elementwise Model.Linalg
     Model.Image Model.Ops Model.Engine Proofs.ArrFacts Proofs.SpecDefs Proofs.EngineDefs Proofs.EngineBase
     Proofs.OptimSpec Proofs.MatmulSpec Proofs.ConvSpec Model.Program Proofs.ProgramFacts Proofs.ProgramValues.
Import ListNotations.

(** tracked iff some operand (matmul: including the additive term) is tracked; an untracked result is childless *)
Theorem C09_result_tracking :
  forall (F : Type) (O0 : ScalarOps F) (s : state) (k : opk) (hs : list handle) 
           (s' : state) (h : handle),
         apply_op O0 s k hs = Some (s', h) ->
         is_custom_op k = false ->
         is_sum0 k = false ->
         e_tracked h = existsb e_tracked hs /\
         e_keep h = e_tracked h /\
         S (e_node h) = length (st_nodes s') /\
         (exists nd : gnode,
            h_node s' h = Some nd /\
            n_count nd = 0 /\
            n_delta nd = None /\
            n_grad nd = None /\
            (e_tracked h = false -> n_children nd = [] /\ p_bop (n_pay nd) = None) /\
            (e_tracked h = true ->
             (exists code : bop_code F, p_bop (n_pay nd) = Some code) /\
             existsb e_tracked (n_children nd) = true /\
             (is_composite k = false ->
              n_children nd = hs \/ (exists h3 : handle, n_children nd = hs ++ [h3] /\ e_tracked h3 = false)))).
Proof. exact @apply_op_tracking. Qed.

(** the structural form *)
Theorem C09_result_structure :
  forall (F : Type) (O : ScalarOps F) (s : state) (k : opk) (hs : list handle) (s' : state) (h : handle),
         apply_op O s k hs = Some (s', h) ->
         is_custom_op k = false ->
         is_sum0 k = false ->
         exists (r : arr F) (cs : list handle),
           op_res s s' h r (existsb e_tracked hs) cs /\
           (existsb e_tracked hs = true -> existsb e_tracked cs = true) /\
           (is_composite k = false -> cs = hs \/ (exists h3 : handle, cs = hs ++ [h3] /\ e_tracked h3 = false)).
Proof. exact @apply_op_res. Qed.

(** Array::op with a closure always records (by design) *)
Theorem C09_custom_always_tracked :
  forall (F : Type) (O : ScalarOps F) (s : state) (c : custom_op) (hs : list handle) 
           (s' : state) (h : handle),
         apply_op O s (OCustom c) hs = Some (s', h) -> exists r : arr F, op_res s s' h r true hs.
Proof. exact @apply_op_custom. Qed.

(** sum(0) returns the operand handle itself *)
Theorem C09_sum0_is_clone :
  forall (F : Type) (O0 : ScalarOps F) (s : state) (x : handle) (s' : state) (h : handle),
         apply_op O0 s (OSum 0) [x] = Some (s', h) -> s' = s /\ h = x.
Proof. exact @apply_op_sum0. Qed.

(** a pass leaves every pool handle (its flags included), every payload and every child entry as it found them *)
Theorem C09_backward_keeps_pool :
  forall (F : Type) (O : ScalarOps F) (s : state) (h : nat) (seed : option (list nat * list F))
           (s' : state) (o : obs),
         step O s (IBackward h seed) = Some (s', o) ->
         st_pool s' = st_pool s ++ [None] /\
         st_layers s' = st_layers s /\
         st_output s' = st_output s /\
         map n_pay (st_nodes s') = map n_pay (st_nodes s) /\
         map n_children (st_nodes s') = map n_children (st_nodes s).
Proof. exact @step_backward. Qed.

(** setting the flag on a clone never changes the original *)
Theorem C09_flag_on_clone :
  forall (F : Type) (O : ScalarOps F) (s : state) (i : instr) (h : nat) (s' : state) (o : obs),
         slot_of i = Some h ->
         i <> IDrop h ->
         step O s i = Some (s', o) ->
         st_nodes s' = st_nodes s /\
         (exists x y : handle, var s h = Some x /\ var s' h = Some y /\ e_node y = e_node x) /\
         (forall j : nat,
          j < length (st_pool s) -> j <> h -> nth_error (st_pool s') j = nth_error (st_pool s) j).
Proof. exact @clone_flag_independent. Qed.

Print Assumptions C09_result_tracking.
Print Assumptions C09_result_structure.
Print Assumptions C09_custom_always_tracked.
Print Assumptions C09_sum0_is_clone.
Print Assumptions C09_backward_keeps_pool.
Print Assumptions C09_flag_on_clone.
