(** C10concrete  (concrete engine and programs) additivity across passes

    The abstract theorems of Props/C10.v instantiated for the real array engine [E O] on [store_good] stores (what every
    program history maintains), over a commutative ring.  Tables are those of the repaired engine E' (ValueConcrete.v),
    whose addition IS [a_add] on the same-shaped non-scalar arrays a pass adds ([C10_repaired_add_is_add]).

    Statements only: every theorem below is closed by [exact <lemma>]; the lemmas are proved in
    the files imported here.  Generated with tools/gen_props.py from the lemmas' own types. *)

From Coq Require Import List Arith Bool Permutation.
From Corgi Require Import Lib.OptionMonad Lib.Sums Model.Scalar Model.Arr Model.SlicedOp Model.Elementwise Model.Linalg
     Model.Image Model.Ops Model.Engine Proofs.ArrFacts Proofs.EngineDefs Proofs.AdjointSpec Proofs.SweepBase
     Proofs.SweepLinear Proofs.FlattenSpec Proofs.DualLift Proofs.LocalAdjoint Proofs.HistoryInv
     Proofs.ValueConcrete Model.Program.
From Corgi Require Import Proofs.PassTheorems Proofs.ConcretePasses.
Import ListNotations.

(** a successful pass of the real engine keeps the store good (clean, no pending delta) with the same skeleton *)
Theorem C10c_no_residue :
  forall (F : Type) (O : ScalarOps F) (g : list gnode) (r : nat) (keep : bool) 
           (seed : option (arr F)) (g' : store pay (arr F)) (log : trace),
         store_good g ->
         cseed_ok g r seed ->
         run_backward (E O) g r keep seed = Some (g', log) -> store_good g' /\ skel_eq g g'.
Proof. exact @pass_preserves_concrete. Qed.

(** same skeleton => same adjoint table and closure calls, whatever passes ran before *)
Theorem C10c_independent :
  forall (F : Type) (O : ScalarOps F),
         is_cring O ->
         forall (g1 g2 : list gnode) (r : nat) (keep : bool) (seed : option (arr F)) 
           (g1' : store pay (arr F)) (log1 : trace) (g2' : store pay (arr F)) (log2 : trace),
         skel_eq g1 g2 ->
         store_good g1 ->
         store_good g2 ->
         cseed_ok g1 r seed ->
         run_backward (E O) g1 r keep seed = Some (g1', log1) ->
         run_backward (E O) g2 r keep seed = Some (g2', log2) ->
         exists s0 : arr F,
           seed_of (E O) g1 r seed = Some s0 /\
           seed_of (E O) g2 r seed = Some s0 /\
           adjoints (E' O) g1 r s0 = adjoints (E' O) g2 r s0 /\
           (forall (id : nat) (delta : arr F), In (id, delta) log1 <-> In (id, delta) log2) /\
           Permutation log1 log2.
Proof. exact @pass_independent_concrete. Qed.

(** two passes: each leaf holds (old + table1) + table2, tables computed stand-alone *)
Theorem C10c_two_passes :
  forall (F : Type) (O : ScalarOps F),
         is_cring O ->
         forall (g : list gnode) (r1 : nat) (keep1 : bool) (seed1 : option (arr F)) 
           (r2 : nat) (keep2 : bool) (seed2 : option (arr F)) (g1 : store pay (arr F)) 
           (log1 : trace) (g2 : store pay (arr F)) (log2 : trace),
         store_good g ->
         cseed_ok g r1 seed1 ->
         cseed_ok g r2 seed2 ->
         run_backward (E O) g r1 keep1 seed1 = Some (g1, log1) ->
         run_backward (E O) g1 r2 keep2 seed2 = Some (g2, log2) ->
         exists (s1 s2 : arr F) (tab1 tab2 : table),
           seed_of (E O) g r1 seed1 = Some s1 /\
           seed_of (E O) g r2 seed2 = Some s2 /\
           adjoints (E' O) g r1 s1 = Some tab1 /\
           adjoints (E' O) g r2 s2 = Some tab2 /\
           store_good g2 /\
           skel_eq g g2 /\
           (forall (id : nat) (nd : gnode) (nd2 : node pay (arr F)),
            nth_error g id = Some nd ->
            nth_error g2 id = Some nd2 ->
            n_children nd = [] ->
            exists o1 : option (arr F),
              stored_opt (E' O) (n_grad nd) (nth id tab1 None) o1 /\
              stored_opt (E' O) o1 (nth id tab2 None) (n_grad nd2)).
Proof. exact @two_passes_add_concrete. Qed.

(** any sequence of passes and clears *)
Theorem C10c_histories :
  forall (F : Type) (O : ScalarOps F),
         is_cring O ->
         forall (g0 : list gnode) (st : list step) (gN : store pay (arr F)),
         store_good g0 ->
         Forall (cstep_ok g0) st ->
         run_steps (E O) g0 st = Some gN ->
         store_good gN /\
         skel_eq g0 gN /\
         (forall (id : nat) (nd : gnode) (ndN : node pay (arr F)),
          nth_error g0 id = Some nd ->
          nth_error gN id = Some ndN ->
          n_children nd = [] -> acc_steps (E' O) g0 st id (n_grad nd) (n_grad ndN)).
Proof. exact @steps_accumulate_concrete. Qed.

(** the IBackward instruction is exactly run_backward on the node store *)
Theorem C10c_backward_instruction :
  forall (F : Type) (O : ScalarOps F) (s0 s' : state) (h : nat) (seed : option (list nat * list F))
           (o : obs),
         Program.step O s0 (IBackward h seed) = Some (s', o) ->
         exists (x : handle) (sd : option (arr F)) (g' : store pay (arr F)) (log : trace),
           var s0 h = Some x /\
           match seed with
           | Some (d, v) => exists a : arr F, mk d v = Some a /\ sd = Some a
           | None => sd = None
           end /\
           run_backward (E O) (st_nodes s0) (e_node x) (e_keep x) sd = Some (g', log) /\
           st_nodes s' = g' /\
           st_pool s' = st_pool s0 ++ [None] /\ st_layers s' = st_layers s0 /\ st_output s' = st_output s0.
Proof. exact @step_backward_is_run_backward. Qed.

(** the IClearGrad instruction is exactly clear_grad *)
Theorem C10c_clear_instruction :
  forall (F : Type) (O : ScalarOps F) (s0 s' : state) (h : nat) (o : obs),
         Program.step O s0 (IClearGrad h) = Some (s', o) ->
         exists x : handle,
           var s0 h = Some x /\
           clear_grad (st_nodes s0) (e_node x) = Some (st_nodes s') /\
           st_pool s' = st_pool s0 ++ [None] /\ st_layers s' = st_layers s0 /\ st_output s' = st_output s0.
Proof. exact @step_cleargrad_is_clear_grad. Qed.

(** every other non-cell instruction only appends nodes *)
Theorem C10c_other_instructions :
  forall (F : Type) (O : ScalarOps F) (s0 s' : state) (i : instr) (o : obs),
         HistoryInv.good s0 ->
         cell_instr i = false ->
         Program.step O s0 i = Some (s', o) -> exists extra : list gnode, st_nodes s' = st_nodes s0 ++ extra.
Proof. exact @step_other_appends. Qed.

(** the repaired addition is a_add on what a pass adds *)
Theorem C10_repaired_add_is_add :
  forall (F : Type) (O : ScalarOps F) (x y : arr F),
         wf x -> wf y -> dims x = dims y -> dims x <> [] -> eo_add (E' O) x y = a_add O x y.
Proof. exact @add'_is_a_add. Qed.

(** (C11) the real log: once, ordered, complete adjoints *)
Theorem C11c_once_complete :
  forall (F : Type) (O : ScalarOps F),
         is_cring O ->
         forall (g : list gnode) (r : nat) (keep : bool) (seed : option (arr F)) (g' : store pay (arr F))
           (log : trace),
         store_good g ->
         cseed_ok g r seed ->
         run_backward (E O) g r keep seed = Some (g', log) ->
         exists (s0 : arr F) (tab : table),
           seed_of (E O) g r seed = Some s0 /\
           adjoints (E' O) g r s0 = Some tab /\
           NoDup (map fst log) /\
           (forall id : nat,
            In id (map fst log) <->
            EngineDefs.reach g r id /\ (exists nd : gnode, nth_error g id = Some nd /\ hasop (E O) nd = true)) /\
           (forall n m : nat,
            EngineDefs.reach g r n ->
            tedge g n m ->
            (exists nd : gnode, nth_error g m = Some nd /\ hasop (E O) nd = true) -> before (map fst log) n m) /\
           (forall (id : nat) (delta : arr F), In (id, delta) log -> nth id tab None = Some delta) /\
           (forall (id : nat) (l : list (arr F)),
            id < length g ->
            Permutation l (ValueAlg.vals id (inc_all (E' O) g tab r)) ->
            ValueAlg.accum (E' O) (if id =? r then Some s0 else None) l = Some (nth id tab None)).
Proof. exact @closure_once_complete_concrete. Qed.

Print Assumptions C10c_no_residue.
Print Assumptions C10c_independent.
Print Assumptions C10c_two_passes.
Print Assumptions C10c_histories.
Print Assumptions C10c_backward_instruction.
Print Assumptions C10c_clear_instruction.
Print Assumptions C10c_other_instructions.
Print Assumptions C10_repaired_add_is_add.
Print Assumptions C11c_once_complete.
