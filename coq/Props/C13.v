(** C13  A gradient-descent update is exactly one step per parameter and clears gradients

    [gd_update O s lr params] models [GradientDescent::update(Vec<&mut Array>)] including its flat-buffer
    bookkeeping.  [gd_pre]: unfrozen parameters are well formed and their gradient has their length (what C03
    guarantees).  [gd_post] spells out: frozen parameters untouched; unfrozen ones re-bound to a fresh tracked node of
    the same dimensions with values x - lr*g of THEIR OWN gradient, no gradient; old nodes only lose their gradient.
    "Frozen" is decided as corgi decides it, while walking the list ([frozen_flags]): no gradient, or the node's gradient
    was already taken by an earlier handle of the same node (tied weights).
    No ring assumption: the step is the literal [fsub x (fmul lr g)].

    Statements only: every theorem below is closed by [exact <lemma>]; the lemmas are proved in
    the files imported here.  Generated with tools/gen_props.py from the lemmas' own types. *)

From Coq Require Import List Arith Bool.
From Corgi Require Import Lib.OptionMonad Model.Scalar Model.Arr Model.Engine Model.Program Proofs.ArrFacts
     Proofs.EngineBase Proofs.OptimSpec.

(** the update of any parameter list, any shapes, any frozen subset *)
Theorem C13_update :
  forall (F : Type) (O : ScalarOps F) (s : state) (lr : F) (params : list handle),
         gd_pre s params ->
         exists (s' : state) (out : list handle),
           gd_update O s lr params = Some (s', out) /\ gd_post O s lr params s' out.
Proof. exact @gd_update_spec. Qed.

(** closed form of the resulting state *)
Theorem C13_closed_form :
  forall (F : Type) (O : ScalarOps F) (s : state) (lr : F) (params : list handle),
         param_ok s params ->
         gd_update O s lr params =
         Some
           (with_nodes s
              (clear_grads (map e_node (unfrozen s params)) (st_nodes s) ++
               gd_new O s lr (length (st_nodes s)) params), gd_out s (length (st_nodes s)) params).
Proof. exact @gd_update_closed. Qed.

(** without gradients nothing changes *)
Theorem C13_all_frozen :
  forall (F : Type) (O : ScalarOps F) (s : state) (lr : F) (params : list handle),
         (forall h : handle, In h params -> grad_of s h = None) -> gd_update O s lr params = Some (s, params).
Proof. exact @gd_update_all_frozen. Qed.

(** Model::update re-binds the layer parameters position-wise *)
Theorem C13_model_update :
  forall (F : Type) (O0 : ScalarOps F) (s : state),
         gd_pre s (model_params s) ->
         exists (s1 : state) (out : list handle),
           gd_update O0 s (st_lr s) (model_params s) = Some (s1, out) /\
           gd_post O0 s (st_lr s) (model_params s) s1 out /\
           model_update O0 s = Some (with_layers s1 (rebuild_layers (st_layers s) out)) /\
           model_params (with_layers s1 (rebuild_layers (st_layers s) out)) = out /\
           length (rebuild_layers (st_layers s) out) = length (st_layers s) /\
           (forall (k : nat) (l : layer),
            nth_error (st_layers s) k = Some l ->
            exists w b : handle,
              nth_error out (2 * k) = Some w /\
              nth_error out (2 * k + 1) = Some b /\
              nth_error (rebuild_layers (st_layers s) out) k =
              Some {| l_conv := l_conv l; l_act := l_act l; l_w := w; l_b := b |}).
Proof. exact @model_update_spec. Qed.

(** lists holding several handles of one node (tied weights): no distinctness hypothesis; the first handle of a node is stepped with the node's own gradient, later handles are returned untouched, every listed node ends without a gradient - aliasing never shifts the flat buffers *)
Theorem C13_tied_parameters :
  forall (F : Type) (O : ScalarOps F) (s : state) (lr : F) (params : list handle),
         gd_pre s params ->
         exists (s' : state) (out : list handle),
           gd_update O s lr params = Some (s', out) /\
           gd_post O s lr params s' out /\ gd_post_alias s params s' out.
Proof. exact @gd_update_alias_spec. Qed.

(** a parameter is stepped exactly when it holds a gradient and no earlier handle of the list names the same node (corgi decides this while walking the list, taking each gradient as it goes) *)
Theorem C13_frozen_rule :
  forall (F : Type) (s : state) (ps : list handle) (taken : list nat) (i : nat) (h : handle),
         nth_error ps i = Some h ->
         nth_error (frozen_flags s taken ps) i = Some false <->
         (exists g : arr F, grad_of s h = Some g) /\
         ~ In (e_node h) taken /\ ~ In (e_node h) (map e_node (firstn i ps)).
Proof. exact @frozen_flags_false_iff. Qed.

(** for distinct nodes the rule is simply: frozen iff no gradient *)
Theorem C13_frozen_rule_distinct :
  forall (F : Type) (s : @state F) (params : list entry),
         @NoDup nat (@map entry nat e_node params) ->
         @frozen_flags F s (@nil nat) params =
         @map handle bool (fun h : handle => match @grad_of F s h with
                                             | Some _ => false
                                             | None => true
                                             end) params.
Proof. exact @frozen_flags_nodup. Qed.

(** the stepped nodes are pairwise distinct, whatever the list *)
Theorem C13_stepped_nodes_distinct :
  forall (F : Type) (s : @state F) (params : list handle),
         @NoDup nat (@map entry nat e_node (@unfrozen F s params)).
Proof. exact @unfrozen_nodup. Qed.

(** Why the length hypothesis matters (and hence C03): with a gradient one element too long the
    second parameter is stepped with the wrong gradient elements. *)
Check OptimExamples.gd_update_refuted_without_lengths.
Check OptimExamples.gd_update_example.
(** tied weights [w; clone of w; b] over the integers, lr = 2: w stepped once, the clone untouched, b stepped with
    its own gradient *)
Check OptimExamples.gd_update_alias_example.
Check OptimExamples.gd_update_alias_instance.

Print Assumptions C13_update.
Print Assumptions C13_closed_form.
Print Assumptions C13_all_frozen.
Print Assumptions C13_model_update.
Print Assumptions C13_tied_parameters.
Print Assumptions C13_frozen_rule.
Print Assumptions C13_frozen_rule_distinct.
Print Assumptions C13_stepped_nodes_distinct.
