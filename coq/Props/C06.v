(** C06  Convolution equals the direct sliding-window definition

    [conv O image filters sr sc] models [image.conv(&filters, (sr, sc))] = unroll_blocks ; reshape of the
    filters ; matmul ; expand_conv.  [out_count i f s = (i - f) / s + 1].  No ring assumption is needed for
    [C06_value]: the code's summation order is already (k, m, n) row-major; [C06_value_triple] re-brackets it as the
    textbook triple sum under [is_cring O].

    Statements only: every theorem below is closed by [exact <lemma>]; the lemmas are proved in
    the files imported here.  Generated with tools/gen_props.py from the lemmas' own types. *)

From Coq Require Import List Arith Bool ZArith.
From Corgi Require Import Lib.OptionMonad Lib.Sums Model.Scalar Model.Arr Model.SlicedOp Model.Elementwise
     Model.Linalg Model.Image Proofs.ArrFacts Proofs.BroadcastDims Proofs.SpecDefs Proofs.SlicedOpSpec
     Proofs.EwSpec Proofs.ReduceSpec.
Import ListNotations.
From Corgi Require Import Proofs.MatmulSpec Proofs.ConvSpec.

(** dimensions [batch ++ [count; rc; cc]] and element (f, y, x) of every image of the batch *)
Theorem C06_value :
  forall (F : Type) (O0 : ScalarOps F) (image filters : arr F) (batch : list nat)
           (depth rows cols count fr fc sr sc : nat),
         wf image ->
         wf filters ->
         dims image = batch ++ [depth; rows; cols] ->
         dims filters = [count; depth; fr; fc] ->
         1 <= sr ->
         1 <= sc ->
         fr <= rows ->
         fc <= cols ->
         let rc := out_count rows fr sr in
         let cc := out_count cols fc sc in
         exists r : arr F,
           conv O0 image filters sr sc = Some r /\
           wf r /\
           dims r = batch ++ [count; rc; cc] /\
           (forall (B : list nat) (f y x : nat),
            in_range B batch ->
            f < count ->
            y < rc ->
            x < cc ->
            (forall q : nat,
             q < depth * fr * fc ->
             in_range (B ++ [q / (fr * fc); y * sr + (q / fc) mod fr; x * sc + q mod fc]) (dims image) /\
             in_range [f; q / (fr * fc); (q / fc) mod fr; q mod fc] (dims filters)) /\
            get r (B ++ [f; y; x]) =
            Some
              (fadd O0 (f0 O0)
                 (vsum O0
                    (map
                       (fun q : nat =>
                        let k := q / (fr * fc) in
                        let m := (q / fc) mod fr in
                        let n := q mod fc in
                        fmul O0 (getd O0 image (B ++ [k; y * sr + m; x * sc + n]))
                          (getd O0 filters [f; k; m; n])) (seq 0 (depth * fr * fc)))))).
Proof. exact @conv_spec. Qed.

(** the same as the triple sum over depth and filter positions *)
Theorem C06_value_triple :
  forall (F : Type) (O0 : ScalarOps F),
         is_cring O0 ->
         forall (image filters : arr F) (batch : list nat) (depth rows cols count fr fc sr sc : nat),
         wf image ->
         wf filters ->
         dims image = batch ++ [depth; rows; cols] ->
         dims filters = [count; depth; fr; fc] ->
         1 <= sr ->
         1 <= sc ->
         fr <= rows ->
         fc <= cols ->
         let rc := out_count rows fr sr in
         let cc := out_count cols fc sc in
         exists r : arr F,
           conv O0 image filters sr sc = Some r /\
           wf r /\
           dims r = batch ++ [count; rc; cc] /\
           (forall (B : list nat) (f y x : nat),
            in_range B batch ->
            f < count ->
            y < rc ->
            x < cc ->
            (forall k m n : nat,
             k < depth ->
             m < fr ->
             n < fc ->
             in_range (B ++ [k; y * sr + m; x * sc + n]) (dims image) /\ in_range [f; k; m; n] (dims filters)) /\
            get r (B ++ [f; y; x]) =
            Some
              (vsum O0
                 (map
                    (fun k : nat =>
                     vsum O0
                       (map
                          (fun m : nat =>
                           vsum O0
                             (map
                                (fun n : nat =>
                                 fmul O0 (getd O0 image (B ++ [k; y * sr + m; x * sc + n]))
                                   (getd O0 filters [f; k; m; n])) (seq 0 fc))) (seq 0 fr))) 
                    (seq 0 depth)))).
Proof. exact @conv_spec_triple. Qed.

(** im2col: row (y, x), column (k, m, n) holds image[k, y*sr+m, x*sc+n], per image *)
Theorem C06_unroll :
  forall (F : Type) (O0 : ScalarOps F) (image : arr F) (batch : list nat)
           (depth rows cols sr sc fr fc : nat),
         wf image ->
         dims image = batch ++ [depth; rows; cols] ->
         1 <= sr ->
         1 <= sc ->
         1 <= fr ->
         1 <= fc ->
         fr <= rows ->
         fc <= cols ->
         let rc := out_count rows fr sr in
         let cc := out_count cols fc sc in
         exists u : arr F,
           unroll_blocks O0 image sr sc fr fc = Some u /\
           wf u /\
           dims u = batch ++ [rc * cc; depth * (fr * fc)] /\
           (forall (B : list nat) (y x k m n : nat),
            in_range B batch ->
            y < rc ->
            x < cc ->
            k < depth ->
            m < fr ->
            n < fc ->
            in_range (B ++ [y * cc + x; (k * fr + m) * fc + n]) (dims u) /\
            in_range (B ++ [k; y * sr + m; x * sc + n]) (dims image) /\
            get u (B ++ [y * cc + x; (k * fr + m) * fc + n]) = get image (B ++ [k; y * sr + m; x * sc + n])).
Proof. exact @unroll_blocks_spec. Qed.

(** the per-image transposition [windows, count] -> [count, rc, cc] *)
Theorem C06_expand :
  forall (F : Type) (O0 : ScalarOps F) (a : arr F) (batch : list nat) (rc cc count : nat),
         wf a ->
         dims a = batch ++ [rc * cc; count] ->
         1 <= rc ->
         1 <= cc ->
         exists e : arr F,
           expand_conv O0 a rc cc = Some e /\
           wf e /\
           dims e = batch ++ [count; rc; cc] /\
           (forall (B : list nat) (f y x : nat),
            in_range B batch ->
            f < count ->
            y < rc ->
            x < cc ->
            in_range (B ++ [f; y; x]) (dims e) /\
            in_range (B ++ [y * cc + x; f]) (dims a) /\ get e (B ++ [f; y; x]) = get a (B ++ [y * cc + x; f])).
Proof. exact @expand_conv_spec. Qed.

(** fewer than 3 dimensions are refused *)
Theorem C06_refuses_rank :
  forall (F : Type) (O0 : ScalarOps F) (image filters : arr F) (sr sc : nat),
         length (dims image) < 3 \/ length (dims filters) < 3 -> conv O0 image filters sr sc = None.
Proof. exact @conv_refuses_rank. Qed.

(** a filter larger than the image or a zero stride panics *)
Theorem C06_refuses_geometry :
  forall (F : Type) (O0 : ScalarOps F) (image filters : arr F) (sr sc : nat) 
           (batch : list nat) (depth rows cols : nat) (fl : list nat) (fd fr fc : nat),
         dims image = batch ++ [depth; rows; cols] ->
         dims filters = fl ++ [fd; fr; fc] ->
         rows < fr \/ cols < fc \/ sr = 0 \/ sc = 0 -> conv O0 image filters sr sc = None.
Proof. exact @conv_refuses_geometry. Qed.

Example C06_example :
  let image := {| dims := [2; 1; 2; 3]; vals := [1; 2; 3; 4; 5; 6; 1; 0; 1; 0; 1; 0]%Z |} in
  let filters := {| dims := [1; 1; 2; 2]; vals := [1; 0; 0; 1]%Z |} in
  wf image /\ wf filters /\
  option_map (fun r => (dims r, vals r)) (conv Z_ops image filters 1 1)
  = Some ([2; 1; 1; 2], [6; 8; 2; 0]%Z).
Proof. unfold wf; simpl. repeat split; repeat constructor. Qed.

Print Assumptions C06_value.
Print Assumptions C06_value_triple.
Print Assumptions C06_unroll.
Print Assumptions C06_expand.
Print Assumptions C06_refuses_rank.
Print Assumptions C06_refuses_geometry.
