(** C18loop  (training loop) once the model has moved on, the batch is sole owner of its buffer again

    [batch_prog n b] = leaf x; leaf t; forward; backward; update.  [next_prog] = drop the forward result of the finished
    iteration (a Rust program lets `_result` go out of scope), create the next batch, forward.  For arbitrary layer stacks
    (dense or conv), activations, costs, stored gradients and earlier pool contents.

    Statements only: every theorem below is closed by [exact <lemma>]; the lemmas are proved in
    the files imported here.  Generated with tools/gen_props.py from the lemmas' own types. *)

From Coq Require Import List Arith Bool.
From Corgi Require Import Lib.OptionMonad Model.Scalar Model.Arr Model.Ops Model.Engine Model.Program
     Proofs.EngineDefs Proofs.HistoryInv Proofs.Ownership Proofs.ProgramFacts Proofs.TrainLoop Proofs.LoopRelease.
Import ListNotations.

(** after an iteration its forward nodes are reachable only through the output handle, its cost nodes from no root, parameters are leaves *)
Theorem C18_iteration_reachability :
  forall (F : Type) (O0 : ScalarOps F) (s : state) (n : nat) (b : batch) (s5 : state),
         ready s ->
         buf_le (st_nodes s) ->
         n = length (st_pool s) ->
         exec O0 s (batch_prog n b) = Some s5 ->
         exists (f c : nat) (outk : handle),
           length (st_nodes s) + 2 <= f /\
           f <= c /\
           c <= length (st_nodes s5) /\
           st_output s5 = Some outk /\
           nth_error (st_pool s5) (n + 2) = Some (Some outk) /\
           e_node outk < f /\
           (forall h : handle,
            In h (model_params s5) ->
            leaf_at (st_nodes s5) (e_node h) /\ (e_node h < length (st_nodes s) \/ c <= e_node h)) /\
           (forall (h0 : handle) (m : nat),
            In h0 (roots s5) ->
            creach (st_nodes s5) (e_node h0) m -> length (st_nodes s) + 2 <= m -> m < c -> h0 = outk /\ m < f).
Proof. exact @iteration_reachability. Qed.

(** the target is sole owner again as soon as backward returns *)
Theorem C18_target_released :
  forall (F : Type) (O0 : ScalarOps F) (s : state) (n : nat) (b : batch) (s4 : state),
         ready s ->
         buf_le (st_nodes s) ->
         n = length (st_pool s) ->
         exec O0 s (prog4 n b) = Some s4 ->
         exists (ht : handle) (a : arr F),
           var s4 (S n) = Some ht /\
           e_node ht = S (length (st_nodes s)) /\
           h_arr s4 ht = Some a /\
           strong_count s4 (buf_of (st_nodes s4) (e_node ht)) = 1 /\
           (exists s' : state, step O0 s4 (ITakeVec (S n)) = Some (s', [(7, [], vals a)])).
Proof. exact @target_released_after_backward. Qed.

(** after the next forward the previous batch and target are sole owners: Vec::from succeeds *)
Theorem C18_batch_released :
  forall (F : Type) (O0 : ScalarOps F) (s : state) (n : nat) (b b' : batch) (s9 : state),
         ready s ->
         buf_le (st_nodes s) ->
         n = length (st_pool s) ->
         exec O0 s (batch_prog n b ++ next_prog n b') = Some s9 ->
         exists (hx ht : handle) (ax at' : arr F),
           var s9 n = Some hx /\
           var s9 (S n) = Some ht /\
           e_node hx = length (st_nodes s) /\
           e_node ht = S (length (st_nodes s)) /\
           h_arr s9 hx = Some ax /\
           h_arr s9 ht = Some at' /\
           strong_count s9 (buf_of (st_nodes s9) (e_node hx)) = 1 /\
           strong_count s9 (buf_of (st_nodes s9) (e_node ht)) = 1 /\
           (exists s' : state, step O0 s9 (ITakeVec n) = Some (s', [(7, [], vals ax)])) /\
           (exists s' : state, step O0 s9 (ITakeVec (S n)) = Some (s', [(7, [], vals at')])).
Proof. exact @batch_released. Qed.

(** the same at every iteration of any run *)
Theorem C18_every_batch_released :
  forall (F : Type) (O0 : ScalarOps F) (bs : list batch) (s : state) (n : nat) 
           (sk : state) (b b' : batch) (s9 : state),
         ready s ->
         buf_le (st_nodes s) ->
         n = length (st_pool s) ->
         exec O0 s (loop_prog n bs) = Some sk ->
         let nk := n + 6 * length bs in
         exec O0 sk (batch_prog nk b ++ next_prog nk b') = Some s9 ->
         exists (hx ht : handle) (ax at' : arr F),
           var s9 nk = Some hx /\
           var s9 (S nk) = Some ht /\
           e_node hx = length (st_nodes sk) /\
           e_node ht = S (length (st_nodes sk)) /\
           h_arr s9 hx = Some ax /\
           h_arr s9 ht = Some at' /\
           strong_count s9 (buf_of (st_nodes s9) (e_node hx)) = 1 /\
           strong_count s9 (buf_of (st_nodes s9) (e_node ht)) = 1 /\
           (exists s' : state, step O0 s9 (ITakeVec nk) = Some (s', [(7, [], vals ax)])) /\
           (exists s' : state, step O0 s9 (ITakeVec (S nk)) = Some (s', [(7, [], vals at')])).
Proof. exact @every_batch_released. Qed.

(** before the next forward a dense first layer still holds the batch (why 'moved on' matters) *)
Theorem C18_batch_still_held :
  forall (F : Type) (O0 : ScalarOps F) (s : state) (n : nat) (b : batch) (s5 : state) 
           (l : layer) (ls : list layer),
         ready s ->
         buf_le (st_nodes s) ->
         n = length (st_pool s) ->
         st_layers s = l :: ls ->
         l_conv l = None ->
         exec O0 s (batch_prog n b) = Some s5 ->
         exists hx : handle,
           var s5 n = Some hx /\
           e_node hx = length (st_nodes s) /\
           2 <= strong_count s5 (buf_of (st_nodes s5) (e_node hx)) /\ step O0 s5 (ITakeVec n) = None.
Proof. exact @batch_still_held. Qed.

Print Assumptions C18_iteration_reachability.
Print Assumptions C18_target_released.
Print Assumptions C18_batch_released.
Print Assumptions C18_every_batch_released.
Print Assumptions C18_batch_still_held.
