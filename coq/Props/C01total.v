(** C01total  (existence) a backward pass on an API-built graph with a well-shaped seed never panics

    All exactness theorems are conditional on [run_backward ... = Some]; these close that gap.  [nonscalar]: no rank-0
    arrays (they cannot be added); [graph_total_proved g]: every closure node satisfies its side condition
    [closure_side]: sum(k) with k <= rank, user closures on equal dimensions, matmul with both operands of rank >= 2 or
    the untransposed dot product (additive term broadcastable to the result).  Found while proving (Examples/
    NoPanicSanity.v, by vm_compute): matmul of two rank-1 arrays WITH a transposition flag is accepted by the forward
    operation (even for different lengths) and its backward closure panics; this form is outside every property (C05
    defines rank-1 operands only next to a rank >= 2 operand or untransposed) and is recorded in DESIGN.md section 15.

    Statements only: every theorem below is closed by [exact <lemma>]; the lemmas are proved in
    the files imported here.  Generated with tools/gen_props.py from the lemmas' own types. *)

From Coq Require Import List Arith Bool Permutation.
From Corgi Require Import Lib.OptionMonad Lib.Sums Model.Scalar Model.Arr Model.SlicedOp Model.Elementwise Model.Linalg
     Model.Image Model.Ops Model.Engine Proofs.ArrFacts Proofs.EngineDefs Proofs.AdjointSpec Proofs.SweepBase
     Proofs.SweepLinear Proofs.FlattenSpec Proofs.DualLift Proofs.LocalAdjoint Proofs.HistoryInv
     Proofs.ValueConcrete Model.Program.
From Corgi Require Import Proofs.FwdCode Proofs.HistoryVC Proofs.NoPanic Proofs.NoPanicHistory.
Import ListNotations.

(** store-level: good, value-consistent, non-scalar graph with closure side conditions => the pass succeeds *)
Theorem C01_backward_never_panics :
  forall (F : Type) (O : ScalarOps F),
         is_cring O ->
         forall (g : list gnode) (r : nat) (keep : bool) (seed : option (arr F)),
         store_good g ->
         value_consistent O g ->
         nonscalar g ->
         graph_total_proved g ->
         r < length g ->
         (forall (sd : arr F) (nd : gnode), seed = Some sd -> nth_error g r = Some nd -> grad_ok (n_pay nd) sd) ->
         run_backward (E O) g r keep seed <> None.
Proof. exact @backward_total_proved. Qed.

(** the same for the state reached by any program history *)
Theorem C01_history_backward_never_panics :
  forall (F : Type) (O : ScalarOps F),
         is_cring O ->
         forall (p : list instr) (s : state) (r : nat) (keep : bool) (seed : option (arr F)),
         reachable_state O p s ->
         all_dims_ok p ->
         graph_total_proved (st_nodes s) ->
         r < length (st_nodes s) ->
         (forall (sd : arr F) (nd : gnode),
          seed = Some sd -> nth_error (st_nodes s) r = Some nd -> grad_ok (n_pay nd) sd) ->
         run_backward (E O) (st_nodes s) r keep seed <> None.
Proof. exact @history_backward_total. Qed.

(** every built-in closure succeeds on a well-shaped delta and its outputs flatten to the children's dimensions *)
Theorem C01_every_closure_total :
  forall (F : Type) (O : ScalarOps F),
         is_cring O ->
         forall (code : bop_code F) (cs : list (arr F)) (v : arr F) (flags : list bool),
         total_proved code = true -> node_facts O code cs v -> closure_total O code cs v flags.
Proof. exact @closure_total_proved. Qed.

(** abstract engine: guarded totality of the operations implies the pass succeeds *)
Theorem C01_guarded_engine_total :
  forall (P D : Type) (E : eops P D) (pok : P -> Prop) (wfd : D -> Prop) (okd : P -> D -> Prop),
         (forall (p : P) (x : D), okd p x -> wfd x) ->
         (forall p : P, pok p -> okd p (eo_ones E p)) ->
         (forall (p : P) (pays : list P) (saved : list bool) (x : D) (ds : list (option D)) (i : nat) (d : D),
          wfd x -> eo_bop E p pays saved x = Some ds -> nth_error ds i = Some (Some d) -> wfd d) ->
         (forall (d : D) (p : P) (d' : D), wfd d -> eo_flat E d p = Some d' -> okd p d') ->
         (forall (p : P) (x y z : D), okd p x -> okd p y -> eo_add E x y = Some z -> okd p z) ->
         forall (g0 : store P D) (r : nat),
         wfg E g0 ->
         bop_contract E g0 ->
         r < length g0 ->
         (forall (p : P) (x y : D), pok p -> okd p x -> okd p y -> eo_add E x y <> None) ->
         (forall (id : nat) (nd : node P D) (pays : list P) (delta : D),
          nth_error g0 id = Some nd ->
          eo_hasop E (n_pay nd) = true ->
          mapM (fun e : entry => c <- nth_error g0 (e_node e);; Some (n_pay c)) (n_children nd) = Some pays ->
          okd (n_pay nd) delta ->
          exists ds : list (option D),
            eo_bop E (n_pay nd) pays (map e_tracked (n_children nd)) delta = Some ds /\
            (forall (i : nat) (e : entry) (d : D) (c : node P D),
             nth_error (n_children nd) i = Some e ->
             nth_error ds i = Some (Some d) ->
             nth_error g0 (e_node e) = Some c -> eo_flat E d (n_pay c) <> None)) ->
         forall (keep : bool) (seed : option D),
         clean g0 ->
         EnginePred.VInv pok okd g0 ->
         (forall (s : D) (nd : node P D), seed = Some s -> nth_error g0 r = Some nd -> okd (n_pay nd) s) ->
         run_backward E g0 r keep seed <> None.
Proof. exact @guarded_total. Qed.

Print Assumptions C01_backward_never_panics.
Print Assumptions C01_history_backward_never_panics.
Print Assumptions C01_every_closure_total.
Print Assumptions C01_guarded_engine_total.
