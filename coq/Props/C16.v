(** C16  Construction, row-major layout, indexing and equality are consistent.

    Statements only; every proof is [exact <lemma>] from Proofs/ArrFacts.v. *)

From Coq Require Import List Arith ZArith.
From Corgi Require Import Lib.OptionMonad Model.Scalar Model.Arr Proofs.ArrFacts.
Import ListNotations.

(** An array built from dimensions and values exists exactly when every dimension is
    at least 1 and the element count matches; it then has exactly those dimensions
    and values. *)
Theorem C16_construct : forall (F : Type) (d : list nat) (v : list F) (a : arr F),
    mk d v = Some a <->
    (Forall (fun x => 1 <= x) d /\ prod d = length v /\ a = {| dims := d; vals := v |}).
Proof. exact @mk_some. Qed.

Theorem C16_construct_refuses : forall (F : Type) (d : list nat) (v : list F),
    mk d v = None <-> ~ (Forall (fun x => 1 <= x) d /\ prod d = length v).
Proof. exact @mk_none. Qed.

Theorem C16_flat : forall (F : Type) (v : list F) (a : arr F),
    from_flat v = Some a <-> (v <> [] /\ a = {| dims := [length v]; vals := v |}).
Proof. exact @from_flat_spec. Qed.

Theorem C16_zeros : forall (F : Type) (O : ScalarOps F) (d : list nat) (a : arr F),
    zeros O d = Some a <->
    (Forall (fun x => 1 <= x) d /\ a = {| dims := d; vals := repeat (f0 O) (prod d) |}).
Proof. exact @zeros_spec. Qed.

(** Nested construction stacks equal-shaped arrays in order and refuses anything else
    (an empty list, differing inner dimensions). *)
Theorem C16_nested : forall (F : Type) (l : list (arr F)) (r : arr F),
    Forall wf l ->
    (from_arrays l = Some r <->
     exists first rest, l = first :: rest /\
                        Forall (fun a => dims a = dims first) rest /\
                        r = {| dims := length l :: dims first; vals := concat (map vals l) |}).
Proof. exact @from_arrays_spec. Qed.

(** A full in-range multi-index reads the row-major element
    [sum_j I_j * prod_{l>j} d_l]. *)
Theorem C16_index : forall (F : Type) (a : arr F) (idx : list nat),
    wf a -> dims a <> [] -> in_range idx (dims a) ->
    exists x, index_multi a idx = Some x /\ nth_error (vals a) (rowmajor (dims a) idx) = Some x.
Proof. exact @index_multi_spec. Qed.

Theorem C16_index_flat : forall (F : Type) (a : arr F) (i : nat),
    (i < length (vals a) -> index_flat a i = nth_error (vals a) i /\ index_flat a i <> None)
    /\ (length (vals a) <= i -> index_flat a i = None).
Proof. exact @index_flat_spec. Qed.

(** Equality looks at dimensions and values and nothing else. *)
Theorem C16_equality : forall (F : Type) (O : ScalarOps F),
    (forall x y, feqb O x y = true <-> x = y) ->
    forall a b : arr F, arr_eqb O a b = true <-> (dims a = dims b /\ vals a = vals b).
Proof. exact @arr_eqb_spec. Qed.

Check C16_construct : forall (F : Type) (d : list nat) (v : list F) (a : arr F),
    mk d v = Some a <->
    (Forall (fun x => 1 <= x) d /\ prod d = length v /\ a = {| dims := d; vals := v |}).
Check C16_index : forall (F : Type) (a : arr F) (idx : list nat),
    wf a -> dims a <> [] -> in_range idx (dims a) ->
    exists x, index_multi a idx = Some x /\ nth_error (vals a) (rowmajor (dims a) idx) = Some x.

(** Non-vacuity: a concrete array meets the hypotheses, and the index theorem's
    conclusion is the expected element. *)
Example C16_example :
  let a := {| dims := [2; 1; 3]; vals := [10; 11; 12; 13; 14; 15]%Z |} in
  wf a /\ in_range [1; 0; 2] (dims a) /\ index_multi a [1; 0; 2] = Some 15%Z
  /\ rowmajor (dims a) [1; 0; 2] = 5.
Proof.
  simpl. repeat split; try (repeat constructor; fail).
Qed.

Print Assumptions C16_construct.
Print Assumptions C16_construct_refuses.
Print Assumptions C16_flat.
Print Assumptions C16_zeros.
Print Assumptions C16_nested.
Print Assumptions C16_index.
Print Assumptions C16_index_flat.
Print Assumptions C16_equality.
