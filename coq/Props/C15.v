(** C15  Layers, activations, costs and the model compute their documented formulas

    Values of the result arrays of [layer_forward], [model_forward], [cost_apply], [model_backward] (Program.v), in
    the literal form the code computes (no ring assumption).  The activation values are Props/C07.v's relu / sigmoid /
    softmax specs, reached through [act_fwd].

    Statements only: every theorem below is closed by [exact <lemma>]; the lemmas are proved in
    the files imported here.  Generated with tools/gen_props.py from the lemmas' own types. *)

From Coq Require Import List Arith Bool.
From Corgi Require Import Lib.OptionMonad Model.Scalar Model.Arr Model.SlicedOp Model.Elementwise Model.Linalg
     Model.Image Model.Ops Model.Engine Proofs.ArrFacts Proofs.SpecDefs Proofs.EngineDefs Proofs.EngineBase
     Proofs.OptimSpec Proofs.MatmulSpec Proofs.ConvSpec Model.Program Proofs.ProgramFacts Proofs.ProgramValues.
Import ListNotations.

(** dense layer on a batch of row vectors: element (J, o) = b[o] + sum_k x[J,k] * W[o,k] *)
Theorem C15_dense :
  forall (F : Type) (O0 : ScalarOps F) (s : state) (l : layer) (input : handle) 
           (X W Bv : arr F) (batch : list nat) (nin nout : nat),
         l_conv l = None ->
         h_arr s input = Some X ->
         h_arr s (l_w l) = Some W ->
         h_arr s (l_b l) = Some Bv ->
         wf X ->
         wf W ->
         wf Bv ->
         dims X = batch ++ [nin] ->
         batch <> [] ->
         dims W = [nout; nin] ->
         dims Bv = [nout] ->
         exists r0 : arr F,
           wf r0 /\
           dims r0 = batch ++ [nout] /\
           (forall (J : list nat) (o : nat),
            in_range J batch ->
            o < nout ->
            get r0 (J ++ [o]) =
            Some
              (fadd O0 (getd O0 Bv [o])
                 (vsum O0 (map (fun k : nat => fmul O0 (getd O0 X (J ++ [k])) (getd O0 W [o; k])) (seq 0 nin))))) /\
           (forall r : arr F,
            act_fwd O0 (l_act l) r0 = Some r ->
            exists (s' : state) (h : handle),
              layer_forward O0 s l input = Some (s', h) /\ h_arr s' h = Some r /\ sframe s s').
Proof. exact @dense_forward_value. Qed.

(** dense layer on a single vector (result dims [1; nout]) *)
Theorem C15_dense_vector :
  forall (F : Type) (O0 : ScalarOps F) (s : state) (l : layer) (input : handle) 
           (X W Bv : arr F) (nin nout : nat),
         l_conv l = None ->
         h_arr s input = Some X ->
         h_arr s (l_w l) = Some W ->
         h_arr s (l_b l) = Some Bv ->
         wf X ->
         wf W ->
         wf Bv ->
         dims X = [nin] ->
         dims W = [nout; nin] ->
         dims Bv = [nout] ->
         exists r0 : arr F,
           wf r0 /\
           dims r0 = [1; nout] /\
           (forall o : nat,
            o < nout ->
            get r0 [0; o] =
            Some
              (fadd O0 (getd O0 Bv [o])
                 (vsum O0 (map (fun k : nat => fmul O0 (getd O0 X [k]) (getd O0 W [o; k])) (seq 0 nin))))) /\
           (forall r : arr F,
            act_fwd O0 (l_act l) r0 = Some r ->
            exists (s' : state) (h : handle),
              layer_forward O0 s l input = Some (s', h) /\ h_arr s' h = Some r /\ sframe s s').
Proof. exact @dense_forward_value_vec. Qed.

(** conv layer: conv(x, filters, stride) + one bias per filter *)
Theorem C15_conv :
  forall (F : Type) (O0 : ScalarOps F) (s : state) (l : layer) (input : handle) 
           (sr sc : nat) (X W Bv : arr F) (batch : list nat) (depth rows cols count fr fc : nat),
         l_conv l = Some (sr, sc) ->
         h_arr s input = Some X ->
         h_arr s (l_w l) = Some W ->
         h_arr s (l_b l) = Some Bv ->
         wf X ->
         wf W ->
         wf Bv ->
         dims X = batch ++ [depth; rows; cols] ->
         dims W = [count; depth; fr; fc] ->
         dims Bv = [count; 1; 1] ->
         1 <= sr ->
         1 <= sc ->
         fr <= rows ->
         fc <= cols ->
         let rc := out_count rows fr sr in
         let cc := out_count cols fc sc in
         exists r0 : arr F,
           wf r0 /\
           dims r0 = batch ++ [count; rc; cc] /\
           (forall (B : list nat) (f y x : nat),
            in_range B batch ->
            f < count ->
            y < rc ->
            x < cc ->
            get r0 (B ++ [f; y; x]) =
            Some (fadd O0 (conv_elem O0 X W B depth fr fc sr sc f y x) (getd O0 Bv [f; 0; 0]))) /\
           (forall r : arr F,
            act_fwd O0 (l_act l) r0 = Some r ->
            exists (s' : state) (h : handle),
              layer_forward O0 s l input = Some (s', h) /\ h_arr s' h = Some r /\ sframe s s').
Proof. exact @conv_forward_value. Qed.

(** a model's forward is the composition of its layers in order (and records the output) *)
Theorem C15_model_forward :
  forall (F : Type) (O : ScalarOps F) (s : state) (input : handle),
         model_forward O s input =
         r <- layers_fwd O s (st_layers s) input;;
         (let '(s1, out) := r in Some (with_output s1 (Some out), out)).
Proof. exact @model_forward_spec. Qed.

(** mse = (target - output)^2 / element count *)
Theorem C15_mse :
  forall (F : Type) (O : ScalarOps F) (s : state) (output target : handle) (o t : arr F),
         h_arr s output = Some o ->
         h_arr s target = Some t ->
         wf o ->
         wf t ->
         dims t = dims o ->
         dims o <> [] ->
         exists (s' : state) (h : handle) (r : arr F),
           cost_apply O s CMse output target = Some (s', h) /\
           h_arr s' h = Some r /\
           sframe s s' /\
           wf r /\
           dims r = dims o /\
           (forall I : list nat,
            in_range I (dims o) ->
            get r I =
            Some
              (fmul O (fpow O (fadd O (getd O t I) (fmul O (getd O o I) (fneg O (f1 O)))) (two O))
                 (fdiv O (f1 O) (fofnat O (prod (dims o)))))).
Proof. exact @cost_mse_value. Qed.

(** cross-entropy = -target * ln(output) / leading dimension *)
Theorem C15_cross_entropy :
  forall (F : Type) (O : ScalarOps F) (s : state) (output target : handle) (o t : arr F) 
           (batch : nat) (rest : list nat),
         h_arr s output = Some o ->
         h_arr s target = Some t ->
         wf o ->
         wf t ->
         dims t = dims o ->
         dims o = batch :: rest ->
         exists (s' : state) (h : handle) (r : arr F),
           cost_apply O s CCrossEntropy output target = Some (s', h) /\
           h_arr s' h = Some r /\
           sframe s s' /\
           wf r /\
           dims r = dims o /\
           (forall I : list nat,
            in_range I (dims o) ->
            get r I =
            Some
              (fmul O (fmul O (fmul O (getd O t I) (fneg O (f1 O))) (fln O (getd O o I)))
                 (fdiv O (f1 O) (fofnat O batch)))).
Proof. exact @cost_ce_value. Qed.

(** Model::backward returns the sum of the cost array *)
Theorem C15_loss :
  forall (F : Type) (O : ScalarOps F) (s : state) (target : handle) (s' : state) (loss : F),
         model_backward O s target = Some (s', loss) ->
         exists (output : handle) (s1 : state) (err : handle) (ea : arr F),
           st_output s = Some output /\
           cost_apply O s (st_cost s) output target = Some (s1, err) /\
           h_arr s1 err = Some ea /\
           loss = vsum O (vals ea) /\
           (exists lg : trace,
              run_backward (E O) (st_nodes s1) (e_node err) (e_keep err) None = Some (st_nodes s', lg)).
Proof. exact @model_backward_loss. Qed.

Print Assumptions C15_dense.
Print Assumptions C15_dense_vector.
Print Assumptions C15_conv.
Print Assumptions C15_model_forward.
Print Assumptions C15_mse.
Print Assumptions C15_cross_entropy.
Print Assumptions C15_loss.
