(** C05  Matrix multiplication computes the batched, optionally transposed product

    [a_matmul O a ta b tb c] is the model of [Array::matmul((a, ta), (b, tb), c)].  For operands of rank >= 2
    with last two dimensions [ar; ac] and [br; bc]: rows = mm_rows ta ar ac, cols = mm_cols tb br bc, the inner
    dimensions mm_inner_a / mm_inner_b must agree, and the leading dimensions la, lb must be broadcast compatible.
    [matmul_post] says: the result exists, is well formed, has dimensions [bmax la lb ++ [rows; cols]], every read is
    in range, and element (J, i, j) is  cterm i j + sum_k A[bclamp la J, i, k]^ta * B[bclamp lb J, k, j]^tb  (literally
    [fadd (cterm) (vsum ...)], the order the code adds in; no ring assumption).  [bias_shape] lists the additive-term forms
    of the property: absent, [cols], [rows; cols], [1; cols], [1].

    Statements only: every theorem below is closed by [exact <lemma>]; the lemmas are proved in
    the files imported here.  Generated with tools/gen_props.py from the lemmas' own types. *)

From Coq Require Import List Arith Bool ZArith.
From Corgi Require Import Lib.OptionMonad Lib.Sums Model.Scalar Model.Arr Model.SlicedOp Model.Elementwise
     Model.Linalg Model.Image Proofs.ArrFacts Proofs.BroadcastDims Proofs.SpecDefs Proofs.SlicedOpSpec
     Proofs.EwSpec Proofs.ReduceSpec.
Import ListNotations.
From Corgi Require Import Proofs.MatmulSpec.

(** shape and value for every (rows, inner, cols), flag pair, leading broadcast and additive-term form *)
Theorem C05_value :
  forall (F : Type) (O : ScalarOps F) (a : arr F) (ta : bool) (b : arr F) (tb : bool)
           (c : option (arr F)) (la : list nat) (ar ac : nat) (lb : list nat) (br bc : nat),
         wf a ->
         wf b ->
         dims a = la ++ [ar; ac] ->
         dims b = lb ++ [br; bc] ->
         mm_inner_a ta ar ac = mm_inner_b tb br bc ->
         bcompat la lb ->
         bias_shape (mm_rows ta ar ac) (mm_cols tb br bc) c ->
         matmul_post O a ta b tb c la lb (mm_rows ta ar ac) (mm_cols tb br bc) (mm_inner_a ta ar ac)
           (cterm O c).
Proof. exact @matmul_spec. Qed.

(** mismatching inner dimension (or incompatible leading dimensions) is refused *)
Theorem C05_refuses :
  forall (F : Type) (O : ScalarOps F) (a : arr F) (ta : bool) (b : arr F) (tb : bool)
           (c : option (arr F)) (la : list nat) (ar ac : nat) (lb : list nat) (br bc : nat),
         dims a = la ++ [ar; ac] ->
         dims b = lb ++ [br; bc] ->
         mm_inner_a ta ar ac <> mm_inner_b tb br bc \/ ~ bcompat la lb -> a_matmul O a ta b tb c = None.
Proof. exact @matmul_refuses. Qed.

(** a rank-1 left operand behaves as the one-row matrix [1; n] *)
Theorem C05_vector_left :
  forall (F : Type) (O0 : ScalarOps F) (a : arr F) (ta : bool) (b : arr F) (tb : bool)
           (c : option (arr F)) (n : nat) (lb : list nat) (br bc : nat),
         wf a ->
         wf b ->
         dims a = [n] ->
         dims b = lb ++ [br; bc] ->
         a_matmul O0 a ta b tb c = a_matmul O0 {| dims := [1; n]; vals := vals a |} ta b tb c.
Proof. exact @matmul_vec_l. Qed.

(** ... and the result dimensions *)
Theorem C05_vector_left_dims :
  forall (F : Type) (O0 : ScalarOps F) (a : arr F) (ta : bool) (b : arr F) (tb : bool)
           (c : option (arr F)) (n : nat) (lb : list nat) (br bc : nat) (r : arr F),
         dims a = [n] ->
         dims b = lb ++ [br; bc] ->
         a_matmul O0 a ta b tb c = Some r -> dims r = lb ++ [if ta then n else 1; mm_cols tb br bc].
Proof. exact @matmul_vec_l_dims. Qed.

(** a rank-1 right operand behaves as the one-row matrix [1; n] *)
Theorem C05_vector_right :
  forall (F : Type) (O0 : ScalarOps F) (a : arr F) (ta : bool) (b : arr F) (tb : bool)
           (c : option (arr F)) (n : nat) (la : list nat) (ar ac : nat),
         wf a ->
         wf b ->
         dims a = la ++ [ar; ac] ->
         dims b = [n] -> a_matmul O0 a ta b tb c = a_matmul O0 a ta {| dims := [1; n]; vals := vals b |} tb c.
Proof. exact @matmul_vec_r. Qed.

(** ... and the result dimensions *)
Theorem C05_vector_right_dims :
  forall (F : Type) (O0 : ScalarOps F) (a : arr F) (ta : bool) (b : arr F) (tb : bool)
           (c : option (arr F)) (n : nat) (la : list nat) (ar ac : nat) (r : arr F),
         dims a = la ++ [ar; ac] ->
         dims b = [n] ->
         a_matmul O0 a ta b tb c = Some r -> dims r = la ++ [mm_rows ta ar ac; if tb then 1 else n].
Proof. exact @matmul_vec_r_dims. Qed.

(** two untransposed rank-1 operands of equal length give their dot product *)
Theorem C05_dot :
  forall (F : Type) (O0 : ScalarOps F) (a b : arr F) (n : nat),
         wf a ->
         wf b ->
         dims a = [n] ->
         dims b = [n] ->
         a_matmul O0 a false b false None =
         Some
           {|
             dims := [1];
             vals :=
               [fadd O0 (f0 O0)
                  (vsum O0 (map (fun k : nat => fmul O0 (getd O0 a [k]) (getd O0 b [k])) (seq 0 n)))]
           |} /\
         (forall k : nat, k < n -> get a [k] = Some (getd O0 a [k]) /\ get b [k] = Some (getd O0 b [k])).
Proof. exact @matmul_dot. Qed.

(** vectors of different lengths are refused *)
Theorem C05_dot_refuses :
  forall (F : Type) (O : ScalarOps F) (a b : arr F) (c : option (arr F)) (n m : nat),
         dims a = [n] -> dims b = [m] -> n <> m -> a_matmul O a false b false c = None.
Proof. exact @matmul_dot_refuses. Qed.

(** Non-vacuity: a batched, transposed product with a row bias, computed by the model. *)
Example C05_example :
  let a := {| dims := [2; 2; 3]; vals := [1; 2; 3; 4; 5; 6; 1; 0; 0; 0; 1; 0]%Z |} in
  let b := {| dims := [2; 3]; vals := [1; 1; 1; 0; 1; 2]%Z |} in
  let c := {| dims := [2]; vals := [100; 200]%Z |} in
  wf a /\ wf b /\ wf c /\
  option_map (fun r => (dims r, vals r)) (a_matmul Z_ops a false b true (Some c))
  = Some ([2; 2; 2], [106; 208; 115; 217; 101; 200; 101; 201]%Z).
Proof. unfold wf; simpl. repeat split; repeat constructor. Qed.

Print Assumptions C05_value.
Print Assumptions C05_refuses.
Print Assumptions C05_vector_left.
Print Assumptions C05_vector_left_dims.
Print Assumptions C05_vector_right.
Print Assumptions C05_vector_right_dims.
Print Assumptions C05_dot.
Print Assumptions C05_dot_refuses.
