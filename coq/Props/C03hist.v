(** C03hist  (every history) every stored gradient has its array's dimensions

    [good s] (HistoryInv.v) contains, for every node: a stored gradient x satisfies [grad_ok]: wf x and dims x = the
    node's dimensions.  [C03_every_instruction]: all 27 instructions preserve it (the only side condition: an explicit
    seed given to backward has the result's shape - corgi does not check that, and a wrong-shaped seed is outside every
    property); [C03_every_history]: hence in every state reached by any program every stored gradient has exactly its
    array's shape - first and later contributions, any graph, any number of uses, any number of passes.
    [C03_rank0_finding]: records that rank-0 arrays (accepted by the constructors, outside every property) cannot be
    added to themselves, which is why the abstract engine theorems are instantiated through a repaired addition.

    Statements only: every theorem below is closed by [exact <lemma>]; the lemmas are proved in
    the files imported here.  Generated with tools/gen_props.py from the lemmas' own types. *)

From Coq Require Import List Arith Bool Permutation.
From Corgi Require Import Lib.OptionMonad Lib.Sums Model.Scalar Model.Arr Model.SlicedOp Model.Elementwise Model.Linalg
     Model.Image Model.Ops Model.Engine Proofs.ArrFacts Proofs.EngineDefs Proofs.AdjointSpec Proofs.SweepBase
     Proofs.SweepLinear Proofs.FlattenSpec Proofs.DualLift Proofs.LocalAdjoint Proofs.HistoryInv
     Proofs.ValueConcrete Model.Program.
From Corgi Require Import Proofs.OpsWf.
Import ListNotations.

(** the invariant is preserved by every instruction *)
Theorem C03_every_instruction :
  forall (F : Type) (O : ScalarOps F) (s0 : state) (i : instr) (s' : state) (o : obs),
         good s0 -> seed_ok s0 i -> step O s0 i = Some (s', o) -> good s'.
Proof. exact @step_good. Qed.

(** and holds in every reachable state *)
Theorem C03_every_history :
  forall (F : Type) (O : ScalarOps F) (p : list instr) (s : state), reachable_state O p s -> good s.
Proof. exact @run_good. Qed.

(** it holds initially *)
Theorem C03_initial :
  forall (F : Type) (O : ScalarOps F), good (init_state O).
Proof. exact @good_init. Qed.

(** a pass preserves it (no algebra needed) *)
Theorem C03_pass :
  forall (F : Type) (O : ScalarOps F) (g : list gnode) (r : nat) (keep : bool) 
           (seed : option (arr F)) (g' : store pay (arr F)) (log : trace),
         store_good g ->
         r < length g ->
         (forall (sd : arr F) (nd : gnode), seed = Some sd -> nth_error g r = Some nd -> grad_ok (n_pay nd) sd) ->
         run_backward (E O) g r keep seed = Some (g', log) -> store_good g' /\ length g' = length g.
Proof. exact @pass_good. Qed.

(** every delta a built-in closure returns is well formed *)
Theorem C03_closure_outputs_wf :
  forall (F : Type) (O : ScalarOps F) (code : bop_code F) (c : list (arr F)) 
           (t : list bool) (x : arr F) (ds : list (option (arr F))),
         wf x -> run_bop O code c t x = Some ds -> slots_wf ds.
Proof. exact @run_bop_wf. Qed.

(** and closures return deltas exactly where their flags (or their unconditional nature) say *)
Theorem C03_closure_contract :
  forall (F : Type) (O : ScalarOps F) (code : bop_code F) (c : list (arr F)) 
           (t : list bool) (x : arr F) (ds : list (option (arr F))),
         run_bop O code c t x = Some ds ->
         length ds = arity code /\
         (forall i : nat, i < arity code -> filled ds i <-> uncond code = true \/ flag t i = true).
Proof. exact @run_bop_contract. Qed.

(** rank-0 arrays break unconditional addition *)
Theorem C03_rank0_finding :
  forall (F : Type) (O : ScalarOps F) (S : Type) (sh : arr F -> S),
         ~ (forall x y : arr F, sh x = sh y -> exists z : arr F, eo_add (E O) x y = Some z /\ sh z = sh x).
Proof. exact @add_ok_false. Qed.

Print Assumptions C03_every_instruction.
Print Assumptions C03_every_history.
Print Assumptions C03_initial.
Print Assumptions C03_pass.
Print Assumptions C03_closure_outputs_wf.
Print Assumptions C03_closure_contract.
Print Assumptions C03_rank0_finding.
