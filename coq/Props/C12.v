(** C12  Handles are transparent: clones, drops and re-binding never change results

    In the model a handle is the triple (node, tracked flag, keep flag); every cell of the array lives in the
    node.  These theorems are the model-level statement of transparency; that Rust's [Clone] really shares every cell
    (and copies the flags) is what the correspondence establishes (random programs against variants with clones, drops
    and re-bound handles, corgi against corgi bitwise).

    Statements only: every theorem below is closed by [exact <lemma>]; the lemmas are proved in
    the files imported here.  Generated with tools/gen_props.py from the lemmas' own types. *)

From Coq Require Import List Arith Bool.
From Corgi Require Import Lib.OptionMonad Model.Scalar Model.Arr Model.SlicedOp Model.Elementwise Model.Linalg
     Model.Image Model.Ops Model.Engine Proofs.ArrFacts Proofs.SpecDefs Proofs.EngineDefs Proofs.EngineBase
     Proofs.OptimSpec Proofs.MatmulSpec Proofs.ConvSpec Model.Program Proofs.ProgramFacts Proofs.ProgramValues.
Import ListNotations.

(** Clone pushes exactly the same handle and changes nothing else *)
Theorem C12_clone :
  forall (F : Type) (O : ScalarOps F) (s : state) (h : nat) (s' : state) (o : obs),
         step O s (IClone h) = Some (s', o) <->
         (exists x : handle, var s h = Some x /\ s' = push (retag s) (Some x) /\ o = []).
Proof. exact @step_clone. Qed.

(** the gradient read through a handle depends only on its node: deposited through any clone, seen through every other *)
Theorem C12_gradient_by_node :
  forall (F : Type) (s : @state F) (h1 h2 : entry),
         e_node h1 = e_node h2 -> @grad_of F s h1 = @grad_of F s h2.
Proof. exact @grad_of_node_only. Qed.

(** ... and so do the values *)
Theorem C12_values_by_node :
  forall (F : Type) (s : @state F) (h1 h2 : entry),
         e_node h1 = e_node h2 -> @h_arr F s h1 = @h_arr F s h2.
Proof. exact @h_arr_node_only. Qed.

(** ... and clearing *)
Theorem C12_clear_by_node :
  forall (F : Type) (s : @state F) (h1 h2 : entry),
         e_node h1 = e_node h2 -> @clear_grad F s h1 = @clear_grad F s h2.
Proof. exact @clear_grad_node_only. Qed.

(** replacing an operand by a slot holding an equal handle gives literally the same step *)
Theorem C12_operand_clone :
  forall (F : Type) (O : ScalarOps F) (s : state) (k : opk) (args : list nat) (i j : nat),
         var s i = var s j ->
         step O s (IOp k (map (fun a : nat => if a =? i then j else a) args)) = step O s (IOp k args).
Proof. exact @step_op_clone. Qed.

(** the same for backward, gradient reads, observations, forward, model backward *)
Theorem C12_read_clone :
  forall (F : Type) (O : ScalarOps F) (s : state) (c : nat -> instr) (i j : nat),
         reads_one c -> var s i = var s j -> step O s (c i) = step O s (c j).
Proof. exact @step_read_clone. Qed.

(** Drop only empties its slot *)
Theorem C12_drop :
  forall (F : Type) (O : ScalarOps F) (s : state) (h : nat) (s' : state) (o : obs),
         step O s (IDrop h) = Some (s', o) ->
         st_nodes s' = st_nodes s /\
         st_layers s' = st_layers s /\
         st_output s' = st_output s /\
         nth_error (st_pool s') h = Some None /\
         (forall j : nat,
          j < length (st_pool s) -> j <> h -> nth_error (st_pool s') j = nth_error (st_pool s) j).
Proof. exact @step_drop. Qed.

(** setting a flag on one handle changes no other handle *)
Theorem C12_flag_independent :
  forall (F : Type) (O : ScalarOps F) (s : state) (i : instr) (h : nat) (s' : state) (o : obs),
         slot_of i = Some h ->
         i <> IDrop h ->
         step O s i = Some (s', o) ->
         st_nodes s' = st_nodes s /\
         (exists x y : handle, var s h = Some x /\ var s' h = Some y /\ e_node y = e_node x) /\
         (forall j : nat,
          j < length (st_pool s) -> j <> h -> nth_error (st_pool s') j = nth_error (st_pool s) j).
Proof. exact @clone_flag_independent. Qed.

Print Assumptions C12_clone.
Print Assumptions C12_gradient_by_node.
Print Assumptions C12_values_by_node.
Print Assumptions C12_clear_by_node.
Print Assumptions C12_operand_clone.
Print Assumptions C12_read_clone.
Print Assumptions C12_drop.
Print Assumptions C12_flag_independent.
