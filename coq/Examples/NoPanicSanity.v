(** Sanity checks and findings for Proofs/NoPanic.v (model level, integer scalars). *)
From Coq Require Import List Arith Bool ZArith.
From Corgi Require Import Lib.OptionMonad Model.Scalar Model.Arr Model.Ops Model.Engine Model.Program.
Import ListNotations.
Open Scope Z_scope.

Definition L (d : list nat) (v : list Z) := @ILeaf Z d v true.
Definition bk (h : nat) := @IBackward Z h None.
(** (number of instructions executed before the end or the panic, panicked?) *)
Definition outcome (p : list (@instr Z)) : nat * bool := let '(os, b) := run Z_ops p in (length os, b).

(** the plain dot product (defect D13) is fine *)
Example dot_ok : outcome [L [3%nat] [1;2;3]; L [3%nat] [4;5;6]; IOp (OMatmul false false) [0%nat;1%nat]; bk 2%nat]
                 = (4%nat, false).
Proof. vm_compute. reflexivity. Qed.

(** FINDING 1: [matmul] of two rank-1 arrays with a transpose flag: the forward call succeeds
    (even for different lengths), the backward closure panics (instruction 3 is the pass) *)
Example dot_transposed_panics :
  outcome [L [3%nat] [1;2;3]; L [3%nat] [4;5;6]; IOp (OMatmul true false) [0%nat;1%nat]; bk 2%nat] = (3%nat, true)
  /\ outcome [L [3%nat] [1;2;3]; L [3%nat] [4;5;6]; IOp (OMatmul false true) [0%nat;1%nat]; bk 2%nat] = (3%nat, true)
  /\ outcome [L [3%nat] [1;2;3]; L [3%nat] [4;5;6]; IOp (OMatmul true true) [0%nat;1%nat]; bk 2%nat] = (3%nat, true)
  /\ outcome [L [1%nat] [1]; L [2%nat] [4;5]; IOp (OMatmul true false) [0%nat;1%nat]; bk 2%nat] = (3%nat, true).
Proof. vm_compute. repeat split; reflexivity. Qed.

(** FINDING 2: matrix x vector with an additive term of higher rank than the result *)
Example bias_rank_panics :
  outcome [L [2%nat;3%nat] [1;1;1;1;1;1]; L [2%nat] [1;1]; L [2%nat;1%nat;1%nat] [1;1];
           IOp (OMatmul true true) [0%nat;1%nat;2%nat]; bk 3%nat] = (4%nat, true).
Proof. vm_compute. reflexivity. Qed.

(** rank-0 arrays (outside [nonscalar]): two contributions to a rank-0 node cannot be added *)
Example rank0_panics :
  outcome [L [] [3]; IOp (OCustom CMul) [0%nat;0%nat]; bk 1%nat] = (2%nat, true).
Proof. vm_compute. reflexivity. Qed.

(** a user operation on different lengths (outside [closure_side]): the user closure panics *)
Example custom_lengths_panics :
  outcome [L [2%nat] [3;4]; L [3%nat] [3;4;5]; IOp (OCustom CMul) [0%nat;1%nat]; bk 2%nat] = (3%nat, true).
Proof. vm_compute. reflexivity. Qed.

(** convolution, batched matmul with bias, sum beyond the rank: no panic *)
Example conv_ok :
  outcome [L [1%nat;3%nat;3%nat] [1;2;3;4;5;6;7;8;9]; L [2%nat;1%nat;2%nat;2%nat] [1;0;0;1;1;1;1;1];
           IOp (OConv 1%nat 1%nat) [0%nat;1%nat]; bk 2%nat] = (4%nat, false).
Proof. vm_compute. reflexivity. Qed.
Example matmul_bias_ok :
  outcome [L [2%nat;2%nat;3%nat] [1;2;3;4;5;6;1;2;3;4;5;6]; L [3%nat;2%nat] [1;2;3;4;5;6]; L [2%nat] [1;1];
           IOp (OMatmul false false) [0%nat;1%nat;2%nat]; bk 3%nat] = (5%nat, false).
Proof. vm_compute. reflexivity. Qed.
Example sum3_ok :
  outcome [L [2%nat;3%nat] [1;2;3;4;5;6]; IOp (OSum 3%nat) [0%nat]; bk 1%nat] = (3%nat, false).
Proof. vm_compute. reflexivity. Qed.
