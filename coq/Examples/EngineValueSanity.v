From Coq Require Import List Arith Bool Lia PeanoNat.
From Corgi Require Import Lib.OptionMonad Model.Engine Proofs.EngineDefs Proofs.EngineBase Proofs.Propagate Proofs.EngineInv Proofs.AdjointSpec Proofs.EngineValue.
Import ListNotations.

Definition Ex : eops nat nat :=
  {| eo_ones := fun _ => 1;
     eo_flat := fun d _ => Some d;
     eo_add := fun x y => Some (x + y);
     eo_hasop := fun p => p =? 1;
     eo_bop := fun _ _ saved d => Some (map (fun b : bool => if b then Some (2 * d) else None) saved) |}.
Definition en (n : nat) (t k : bool) : entry := {| e_node := n; e_tracked := t; e_keep := k |}.
Definition mk (p : nat) (es : list entry) : node nat nat :=
  {| n_pay := p; n_children := es; n_count := 0; n_delta := None; n_grad := None |}.
Definition gx : store nat nat :=
  [ mk 0 []; mk 0 [];
    mk 1 [en 0 true false; en 1 false false];
    mk 1 [en 2 true false; en 2 true false];
    mk 1 [en 2 true true; en 3 true false];
    mk 1 [en 0 true false] ].
Eval vm_compute in (adjoints Ex gx 4 1).
Eval vm_compute in (option_map (fun p => (map (fun nd => n_grad nd) (fst p), snd p)) (run_backward Ex gx 4 true None)).
Check (pass_value Ex unit (fun _ => tt) (fun _ => tt)
  (fun x y _ => ex_intro _ (x + y) (conj eq_refl eq_refl))).
Goal forall x y : nat, eo_add Ex x y = eo_add Ex y x. intros; simpl; f_equal; lia. Qed.
