(** Non-vacuity check for Proofs/SweepFacts.v: a tiny concrete instance
    (P = D = K = T = nat, closures that scale by the payload) that satisfies all the
    section hypotheses of (S1) and (S2), and on which the statements are also checked
    by computation. *)

From Coq Require Import List Arith Bool Lia PeanoNat.
From Corgi Require Import Lib.OptionMonad Model.Engine Proofs.EngineDefs Proofs.EngineBase
     Proofs.AdjointSpec Proofs.SweepFacts.
Import ListNotations.

(** payload 0 = leaf; payload p > 0 = closure whose local derivative w.r.t. every child is p *)
Definition E0 : eops nat nat :=
  {| eo_ones := fun _ => 1;
     eo_flat := fun d _ => Some d;
     eo_add := fun x y => Some (x + y);
     eo_hasop := fun p => negb (p =? 0);
     eo_bop := fun p _ saved d =>
                 Some (map (fun b : bool => if b then Some (p * d) else None) saved) |}.

Definition mk (p : nat) (cs : list (nat * bool)) : node nat nat :=
  {| n_pay := p;
     n_children := map (fun c => {| e_node := fst c; e_tracked := snd c; e_keep := false |}) cs;
     n_count := 0; n_delta := None; n_grad := None |}.

Definition g0 : store nat nat :=
  [ mk 0 []; mk 0 []; mk 0 [];
    mk 2 [(0, true); (1, true)];
    mk 3 [(1, true); (2, false); (3, true)];
    mk 5 [(3, true); (4, true); (3, true); (0, true)];
    mk 0 [];
    mk 7 [(5, true); (6, true); (2, true)] ].

(** forward tangents: leaves 0, 1, 2, 6 get 11, 13, 17, 19 *)
Definition tan0 (n : nat) : nat :=
  match n with
  | 0 => 11 | 1 => 13 | 2 => 17
  | 3 => 2 * (11 + 13)
  | 4 => 3 * (13 + 2 * (11 + 13))
  | 5 => 5 * (2 * (11 + 13) + 3 * (13 + 2 * (11 + 13)) + 2 * (11 + 13) + 11)
  | 6 => 19
  | 7 => 7 * (5 * (2 * (11 + 13) + 3 * (13 + 2 * (11 + 13)) + 2 * (11 + 13) + 11) + 19 + 17)
  | _ => 0
  end.

Lemma g0_wfg : wfg E0 g0.
Proof.
  intros id nd H.
  do 8 (destruct id as [|id]; [injection H as H; subst nd; split;
                               [intros e He; simpl in He; intuition (subst; simpl; lia)
                               | intro Hh; try reflexivity; discriminate Hh] |]).
  destruct id; discriminate H.
Qed.

Lemma E0_contract : forall g, bop_contract E0 g.
Proof.
  intros g id nd pays delta ds _ H. simpl in H. injection H as H. subst ds.
  rewrite !map_length. split; [lia |].
  intros i e He. rewrite map_map, nth_error_map, He. simpl.
  destruct (e_tracked e); split; intro Hx; try discriminate Hx.
  - eexists. reflexivity.
  - reflexivity.
  - destruct Hx as [d Hd]. discriminate Hd.
Qed.

(** (S2) on the instance *)
Lemma g0_local : forall n nd delta cs,
    nth_error g0 n = Some nd -> hasop E0 nd = true -> contribs E0 g0 n delta = Some cs ->
    delta * tan0 n = ksum Nat.add 0 (map (fun c => snd c * tan0 (fst c)) cs).
Proof.
  intros n nd delta cs Hn Hop Hcs.
  do 8 (destruct n as [|n];
        [injection Hn as Hn; subst nd; try discriminate Hop;
         cbn in Hcs; injection Hcs as Hcs; subst cs;
         unfold ksum, map, fold_right, fst, snd, tan0; lia |]).
  destruct n; discriminate Hn.
Qed.

Theorem g0_adjoint_identity : forall r s tab,
    r < length g0 -> adjoints E0 g0 r s = Some tab ->
    s * tan0 r =
    ksum Nat.add 0
         (map (fun m => match nth m tab None with Some d => d * tan0 m | None => 0 end)
              (filter (fun m => negb (isop E0 g0 m)) (seq 0 (S r)))).
Proof.
  intros r s tab Hr H.
  apply (adjoint_identity E0 g0 nat nat 0 Nat.add Nat.add_assoc Nat.add_comm Nat.add_0_l
                          Nat.mul tan0).
  - intros x y z t Hz. simpl in Hz. injection Hz as Hz. subst z. apply Nat.mul_add_distr_r.
  - exact g0_local.
  - exact g0_wfg.
  - exact Hr.
  - exact H.
Qed.

Example g0_adjoints_7 :
  adjoints E0 g0 7 1 =
  Some [Some 385; Some 455; Some 7; Some 175; Some 35; Some 7; Some 7; Some 1].
Proof. vm_compute. reflexivity. Qed.

Example g0_identity_7 :
  option_map (fun tab => 4 * tan0 7 =? ksum Nat.add 0
         (map (fun m => match nth m tab None with Some d => d * tan0 m | None => 0 end)
              (filter (fun m => negb (isop E0 g0 m)) (seq 0 8)))) (adjoints E0 g0 7 4) = Some true.
Proof. vm_compute. reflexivity. Qed.

(** (S1) on the instance: comb x y = 3 x + 5 y *)
Definition comb0 (x y : nat) : nat := 3 * x + 5 * y.

Theorem E0_linear : forall g r s1 s2 t1 t2,
    adjoints E0 g r s1 = Some t1 -> adjoints E0 g r s2 = Some t2 ->
    adjoints E0 g r (comb0 s1 s2) = Some (map2o comb0 t1 t2) /\
    length t1 = length t2 /\
    (forall j, nth j t1 None = None <-> nth j t2 None = None).
Proof.
  intros g r s1 s2 t1 t2 H1 H2.
  apply (sweep_linear_gen E0 comb0); try assumption.
  - intros p pays saved x y dx dy Hx Hy. simpl in *.
    injection Hx as Hx. injection Hy as Hy. subst dx dy. f_equal.
    induction saved as [|b saved IH]; [reflexivity |].
    simpl. rewrite <- IH. f_equal. destruct b; simpl; [|reflexivity].
    f_equal. unfold comb0. lia.
  - intros x y p x' y' Hx Hy. simpl in *. congruence.
  - intros x1 x2 y1 y2 x y Hx Hy. simpl in *.
    injection Hx as Hx. injection Hy as Hy. subst x y. f_equal. unfold comb0. lia.
  - apply E0_contract.
Qed.

Example g0_linear_7 :
  adjoints E0 g0 7 (comb0 2 9) =
  match adjoints E0 g0 7 2, adjoints E0 g0 7 9 with
  | Some a, Some b => Some (map2o comb0 a b)
  | _, _ => None
  end.
Proof. vm_compute. reflexivity. Qed.

(** (S0) on the instance *)
Example g0_app_5 :
  adjoints E0 (g0 ++ [mk 2 [(7, true)]; mk 0 []]) 5 1 =
  option_map (fun t => t ++ [None; None]) (adjoints E0 g0 5 1).
Proof. vm_compute. reflexivity. Qed.

Example g0_reach_5 :
  adjoints E0 g0 5 1 = Some [Some 55; Some 65; None; Some 25; Some 5; Some 1; None; None].
Proof. vm_compute. reflexivity. Qed.

Print Assumptions g0_adjoint_identity.
Print Assumptions E0_linear.
