From Coq Require Import List Arith Bool Lia PeanoNat.
From Corgi Require Import Lib.OptionMonad Model.Engine Proofs.EngineDefs Proofs.EngineBase Proofs.AdjointSpec Proofs.PassTheorems.
Import ListNotations.
Definition Ex : eops nat nat :=
  {| eo_ones := fun _ => 1; eo_flat := fun d _ => Some d; eo_add := fun x y => Some (x + y);
     eo_hasop := fun p => p =? 1;
     eo_bop := fun _ _ saved d => Some (map (fun b : bool => if b then Some (2 * d) else None) saved) |}.
Definition en (n : nat) (t k : bool) : entry := {| e_node := n; e_tracked := t; e_keep := k |}.
Definition mk (p : nat) (es : list entry) : node nat nat :=
  {| n_pay := p; n_children := es; n_count := 0; n_delta := None; n_grad := None |}.
Definition gx : store nat nat :=
  [ mk 0 []; mk 0 [];
    mk 1 [en 0 true false; en 1 false false];
    mk 1 [en 2 true false; en 2 true false];
    mk 1 [en 2 true true; en 3 true false];
    mk 1 [en 0 true false] ].
About run_steps. About Pass.
Eval vm_compute in (option_map (map (@n_grad nat nat)) (run_steps Ex gx [Pass 4 false None; Pass 5 false (Some 7); Clear 0; Pass 3 false None])).
Eval vm_compute in (adjoints Ex gx 4 1, adjoints Ex gx 5 7, adjoints Ex gx 3 1).
