From Coq Require Import List Arith Bool ZArith.
From Corgi Require Import Lib.OptionMonad Model.Scalar Model.Arr Model.Ops Model.Engine Model.Program.
Import ListNotations.
Open Scope Z_scope.

(* 0: leaf x (tracked); 1: y = x*x; 2: z = y + x; 3: backward z; 4: takevec x (must panic: y,z alive) *)
Definition prog_busy : list (instr (F:=Z)) :=
  [ ILeaf [2%nat] [3; 4] true; IOp OMul [0%nat; 0%nat]; IOp OAdd [1%nat; 0%nat];
    IBackward 2%nat (Some ([2%nat], [1; 1])); ITakeVec 0%nat ].
(* ... drop y and z first: takevec succeeds, although a gradient is stored in x *)
Definition prog_free : list (instr (F:=Z)) :=
  [ ILeaf [2%nat] [3; 4] true; IOp OMul [0%nat; 0%nat]; IOp OAdd [1%nat; 0%nat];
    IBackward 2%nat (Some ([2%nat], [1; 1])); IGrad 0%nat; IDrop 1%nat; IDrop 2%nat; ITakeVec 0%nat ].
(* reshape aliases the buffer; a clone is a second owner *)
Definition prog_alias : list (instr (F:=Z)) :=
  [ ILeaf [2%nat] [3; 4] false; IOp (OReshape [1%nat; 2%nat]) [0%nat]; ITakeVec 0%nat ].
Definition prog_alias2 : list (instr (F:=Z)) :=
  [ ILeaf [2%nat] [3; 4] false; IOp (OReshape [1%nat; 2%nat]) [0%nat]; IDrop 1%nat; ITakeVec 0%nat ].
Eval vm_compute in (run Z_ops prog_busy).
Eval vm_compute in (run Z_ops prog_free).
Eval vm_compute in (run Z_ops prog_alias).
Eval vm_compute in (run Z_ops prog_alias2).
