From Coq Require Import List Arith Bool Lia PeanoNat.
From Corgi Require Import Lib.OptionMonad Model.Engine Proofs.EngineDefs Proofs.EngineBase Proofs.Propagate Proofs.EngineInv.
Import ListNotations.

Definition Ex : eops nat nat :=
  {| eo_ones := fun _ => 1;
     eo_flat := fun d _ => Some d;
     eo_add := fun x y => Some (x + y);
     eo_hasop := fun p => p =? 1;
     eo_bop := fun _ _ saved d => Some (map (fun b : bool => if b then Some d else None) saved) |}.

Definition en (n : nat) (t k : bool) : entry := {| e_node := n; e_tracked := t; e_keep := k |}.
Definition mk (p : nat) (es : list entry) : node nat nat :=
  {| n_pay := p; n_children := es; n_count := 0; n_delta := None; n_grad := None |}.

Definition gx : store nat nat :=
  [ mk 0 []; mk 0 [];
    mk 1 [en 0 true false; en 1 false false];
    mk 1 [en 2 true false; en 2 true false];
    mk 1 [en 2 true true; en 3 true false];
    mk 1 [en 0 true false] ].

Eval vm_compute in (propagate (S 4) gx 4).
Eval vm_compute in (option_map (fun p => (map (fun nd => (n_count nd, n_delta nd, n_grad nd)) (fst p), snd p)) (run_backward Ex gx 4 false None)).
Eval vm_compute in (option_map (fun p => (map (fun nd => (n_count nd, n_delta nd, n_grad nd)) (fst p), snd p)) (run_backward Ex gx 5 true (Some 7))).
Eval vm_compute in (option_map (fun p => map sk (fst p)) (run_backward Ex gx 4 false None)).

Lemma gx_wf : wfg Ex gx.
Proof.
  intros id nd H.
  do 6 (destruct id as [|id]; [injection H as H; subst nd; simpl; split; [intros e He; repeat (destruct He as [He|He]; [subst e; simpl; lia|]); destruct He | intro; try discriminate; reflexivity]|]).
  destruct id; discriminate H.
Qed.
Lemma gx_clean : clean gx.
Proof.
  intros id nd H.
  do 6 (destruct id as [|id]; [injection H as H; subst nd; simpl; auto|]).
  destruct id; discriminate H.
Qed.
Lemma Ex_contract : forall g, bop_contract Ex g.
Proof.
  intros g id nd pays delta ds Hn H. simpl in H. injection H as H. subst ds.
  split; [rewrite !map_length; lia|].
  intros i e Hi. rewrite nth_error_map, nth_error_map, Hi. simpl.
  destruct (e_tracked e); split; intro H; try reflexivity; try discriminate.
  - eexists; reflexivity.
  - destruct H as (d & H); discriminate H.
Qed.
Check (fun g' log H => pass_spec Ex gx 4 false None g' log gx_wf gx_clean (Ex_contract gx) ltac:(simpl; lia) H).
