(** Pure arrays: constructors, row-major indexing, equality, broadcast dimensions.
    Mirrors src/array/mod.rs lines 98-218 (From impls), 260-280
    (element_wise_dimensions), 724-728 (PartialEq), 778-809 (Index, flatten_indices). *)

From Coq Require Import List Arith Bool.
From Corgi Require Import Lib.OptionMonad Model.Scalar.
Import ListNotations.

Section Arr.
  Context {F : Type}.

  Record arr : Type := { dims : list nat; vals : list F }.

  (** [Array::from((dimensions, values))]: both assertions. *)
  Definition dims_valid (d : list nat) : bool := forallb (fun x => 1 <=? x) d.

  Definition mk (d : list nat) (v : list F) : option arr :=
    check dims_valid d ;;
    check (prod d =? length v) ;;
    Some {| dims := d; vals := v |}.

  (** [Array::from(Vec<Float>)] *)
  Definition from_flat (v : list F) : option arr := mk [length v] v.

  (** [Array::from(Vec<Array>)]: the equal-dimensions assertion, then [first().unwrap()]. *)
  Definition dims_eqb (a b : list nat) : bool :=
    (length a =? length b) && forallb (fun p => fst p =? snd p) (combine a b).

  Definition from_arrays (l : list arr) : option arr :=
    match l with
    | [] => None
    | first :: rest =>
      check forallb (fun a => dims_eqb (dims a) (dims first)) rest ;;
      mk (length l :: dims first) (concat (map vals l))
    end.

  (** [flatten_indices] (mod.rs:802-809). *)
  Definition flatten_indices (idx ds : list nat) : option nat :=
    check (length ds <=? length idx) ;;
    match skipn (length idx - length ds) idx with
    | [] => None
    | first :: rest =>
      Some (fold_left (fun acc p => if snd p =? 1 then acc else acc * snd p + fst p)
                      (combine rest (tl ds)) first)
    end.

  (** [a[vec![..]]] *)
  Definition index_multi (a : arr) (idx : list nat) : option F :=
    off <- flatten_indices idx (dims a) ;;
    nth_error (vals a) off.

  (** [a[i]] *)
  Definition index_flat (a : arr) (i : nat) : option F :=
    check (i <? length (vals a)) ;;
    nth_error (vals a) i.

  (** [element_wise_dimensions] (mod.rs:260-280); arguments of [ewd_rev] are reversed. *)
  Fixpoint ewd_rev (l o : list nat) : option (list nat) :=
    match l, o with
    | a :: l', b :: o' =>
      check ((a =? b) || (a =? 1) || (b =? 1)) ;;
      r <- ewd_rev l' o' ;;
      Some (Nat.max a b :: r)
    | _, [] => Some l
    | [], _ :: _ => Some []
    end.

  Definition element_wise_dimensions (x y : list nat) : option (list nat) :=
    let '(longer, other) := if length y <? length x then (x, y) else (y, x) in
    r <- ewd_rev (rev longer) (rev other) ;;
    Some (rev r).
End Arr.

Arguments arr : clear implicits.

Section ArrOps.
  Context {F : Type} (O : ScalarOps F).

  (** [Array::from(Vec<usize>)] *)
  Definition zeros (d : list nat) : option (arr F) := mk d (repeat (f0 O) (prod d)).

  (** [PartialEq]: dimensions and values, nothing else. *)
  Fixpoint vals_eqb (x y : list F) : bool :=
    match x, y with
    | [], [] => true
    | a :: x', b :: y' => feqb O a b && vals_eqb x' y'
    | _, _ => false
    end.

  Definition arr_eqb (a b : arr F) : bool :=
    dims_eqb (dims a) (dims b) && vals_eqb (vals a) (vals b).
End ArrOps.
