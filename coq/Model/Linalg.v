(** [Array::matmul] and [matmul_slice] (src/array/linalg.rs, non-BLAS build). *)

From Coq Require Import List Arith Bool.
From Corgi Require Import Lib.OptionMonad Model.Scalar Model.Arr Model.SlicedOp Model.Elementwise.
Import ListNotations.

Section Linalg.
  Context {F : Type} (O : ScalarOps F).

  (** [dims[len - back]] with Rust's panics (underflow, out of bounds) *)
  Definition dim_back (d : list nat) (back : nat) : option nat :=
    check (back <=? length d) ;;
    nth_error d (length d - back).

  (** the triple loop; [cur] already holds the additive term (or zeros) *)
  Definition matmul_slice (rows cols sum_len : nat) (ta tb : bool) (cur sa sb : list F)
    : option (list F) :=
    mapM (fun p =>
            let r := p / cols in
            let j := p mod cols in
            terms <- mapM (fun k =>
                             x <- nth_error sa (if ta then k * rows + r else r * sum_len + k) ;;
                             y <- nth_error sb (if tb then j * sum_len + k else k * cols + j) ;;
                             Some (fmul O x y))
                          (seq 0 sum_len) ;;
            o <- nth_error cur p ;;
            Some (fadd O o (vsum O terms)))
         (seq 0 (rows * cols)).

  (** [zip(arrays[2].iter().cycle().take(len))] *)
  Definition cyc_fill (cur s : list F) : list F :=
    match s with
    | [] => cur
    | _ => map (fun i => nth (i mod length s) s (f0 O)) (seq 0 (length cur))
    end.

  Definition matmul_sop (set_output : bool) (rows cols sum_len : nat) (ta tb : bool) : @sop F :=
    fun cur slices =>
      match slices with
      | [sa; sb; sc] =>
        let cur' := if set_output then cyc_fill cur sc else cur in
        matmul_slice rows cols sum_len ta tb cur' sa sb
      | _ => None
      end.

  Record matmul_shape := {
    ms_in : list nat; ms_out : list nat; ms_rows : nat; ms_cols : nat; ms_sum : nat }.

  (** the shape derivation of [matmul] (everything before the closure) *)
  Definition matmul_dims (da : list nat) (ta : bool) (db : list nat) (tb : bool)
    : option matmul_shape :=
    let ra := length da in
    let rb := length db in
    lead <- element_wise_dimensions (firstn (ra - 2) da) (firstn (rb - 2) db) ;;
    let in_dims := lead ++ lastn 2 (if rb <=? ra then da else db) in
    rows <- (if (ra <? 2) && (negb ta || (rb <? 2)) then Some 1
             else dim_back da (if ta then 1 else 2)) ;;
    cols <- (if (rb <? 2) && (tb || (ra <? 2)) then Some 1
             else dim_back db (if tb then 2 else 1)) ;;
    let ai := if ta then 2 else 1 in
    let bi := if tb then 1 else 2 in
    sum_len <-
      (if ra <? ai then
         (if bi <=? rb then dim_back db bi else Some 1)
       else
         s <- dim_back da ai ;;
         (if bi <=? rb then
            bd <- dim_back db bi ;; check (s =? bd) ;; Some s
          else
            (* b is a rank-1 row; against a rank-1 [a] it is the dot product *)
            (if 2 <=? ra then Some s
             else bd <- nth_error db 0 ;; check (s =? bd) ;; Some s))) ;;
    let lc := length in_dims - 2 in
    let out_dims := firstn lc in_dims ++ (if length in_dims <? 2 then [cols] else [rows; cols]) in
    Some {| ms_in := in_dims; ms_out := out_dims; ms_rows := rows; ms_cols := cols;
            ms_sum := sum_len |}.

  (** the additive-term assertion *)
  Definition bias_ok (c : arr F) (rows cols : nat) : bool :=
    if length (vals c) =? 1 then true
    else
      match dim_back (dims c) 1 with
      | None => false
      | Some last =>
        (last =? cols) &&
        ((length (dims c) <? 2) ||
         match dim_back (dims c) 2 with
         | Some d2 => (d2 =? 1) || (d2 =? rows)
         | None => false
         end)
      end.

  Definition zeros1 : arr F := {| dims := [1]; vals := [f0 O] |}.

  Definition a_matmul (a : arr F) (ta : bool) (b : arr F) (tb : bool) (c : option (arr F))
    : option (arr F) :=
    sh <- matmul_dims (dims a) ta (dims b) tb ;;
    check (match c with Some c' => bias_ok c' (ms_rows sh) (ms_cols sh) | None => true end) ;;
    let set_output := match c with Some _ => true | None => false end in
    let c' := match c with Some c' => c' | None => zeros1 end in
    sliced_op O [a; b; c']
              (matmul_sop set_output (ms_rows sh) (ms_cols sh) (ms_sum sh) ta tb)
              (ms_in sh) (ms_out sh) 2 0.
End Linalg.
