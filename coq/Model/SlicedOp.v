(** [Array::sliced_op] (src/array/mod.rs), the broadcasting workhorse, and
    [flatten_to].  The loop is modelled iteration by iteration: slice offsets
    are computed from the index vector (right-aligned, unit dimensions
    clamped to 0), the operation rewrites the current output slice, the index
    vector is advanced by the carry loop. *)

From Coq Require Import List Arith Bool.
From Corgi Require Import Lib.OptionMonad Lib.IdxDefs Model.Scalar Model.Arr.
Import ListNotations.

Section SlicedOp.
  Context {F : Type} (O : ScalarOps F).

  (** A sliced operation: current output slice, input slices -> new output slice
      ([None] = the closure panicked, e.g. on an out-of-bounds index). *)
  Definition sop : Type := list F -> list (list F) -> option (list F).

  Definition lastn {A} (n : nat) (l : list A) : list A := skipn (length l - n) l.

  (** fold (acc * d + if d == 1 { 0 } else { i }) over zip(indices, dimensions) *)
  Definition clamp_fold (idx ds : list nat) : nat := clamp_horner idx ds.

  (** the carry loop over the leading indices *)
  Definition incr (idx ds : list nat) : list nat := incr_be idx ds.

  (** validity assertion at the top of [sliced_op] *)
  Definition sliced_valid (k : nat) (in_dims : list nat) (a : arr F) : bool :=
    forallb (fun p => (fst p =? 1) || (fst p =? snd p))
            (combine (skipn k (rev (dims a))) (skipn k (rev in_dims))).

  Definition group_length (k : nat) (a : arr F) : nat := prod (lastn k (dims a)).

  (** the slice of operand [a] for leading index vector [idx] (of length [lc]) *)
  Definition operand_slice (k lc : nat) (idx : list nat) (a : arr F) : option (list F) :=
    let g := group_length k a in
    let count := length (dims a) - k in
    let off := g * clamp_fold (skipn (lc - count) idx) (dims a) in
    slice off g (vals a).

  Fixpoint sliced_loop (op : sop) (arrays : list (arr F)) (k lc : nat) (lead out_dims : list nat)
           (ogl : nat) (n : nat) (idx : list nat) (out : list F) : option (list F) :=
    match n with
    | 0 => Some out
    | S n' =>
      slices <- mapM (operand_slice k lc idx) arrays ;;
      let ooff := ogl * clamp_fold idx out_dims in
      cur <- slice ooff ogl out ;;
      new <- op cur slices ;;
      check (length new =? ogl) ;;
      sliced_loop op arrays k lc lead out_dims ogl n' (incr idx lead) (splice ooff new out)
    end.

  (** Returns dimensions and values of the result (the caller attaches the graph). *)
  Definition sliced_op (arrays : list (arr F)) (op : sop)
             (in_dims out_dims : list nat) (k flatten : nat) : option (arr F) :=
    check forallb (sliced_valid k in_dims) arrays ;;
    let lc := length in_dims - k in
    let lead := firstn lc in_dims in
    let leading_length := prod lead in
    let ogl := prod (skipn lc out_dims) in
    let out0 := repeat (f0 O) (prod out_dims) in
    out <-
      (if lc =? 0 then
         slices <- mapM (fun a => slice 0 (group_length k a) (vals a)) arrays ;;
         cur <- slice 0 ogl out0 ;;
         new <- op cur slices ;;
         check (length new =? ogl) ;;
         Some (splice 0 new out0)
       else
         sliced_loop op arrays k lc lead out_dims ogl leading_length (repeat 0 lc) out0) ;;
    out_dims' <-
      (if flatten =? 0 then Some out_dims
       else
         check (flatten <=? length out_dims) ;;
         let keep := length out_dims - flatten in
         Some (firstn keep out_dims ++ [prod (skipn keep out_dims)])) ;;
    mk out_dims' out.
End SlicedOp.
