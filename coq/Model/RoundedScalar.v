(** Rounded real arithmetic: the scalar instance that models a binary floating-point build
    of corgi (instance only; every fact about it is in Proofs/RoundingSpec.v).

    Format: Flocq's [FLT_exp emin prec] in radix 2 (precision [prec], gradual underflow
    down to [2^emin]); rounding to nearest, ties to even.  binary32 ([f32]) is
    [(emin, prec) = (-149, 24)], binary64 ([f64]) is [(-1074, 53)].

    - [fadd], [fsub], [fmul], [fdiv]: the real operation followed by one rounding (IEEE 754);
    - [fneg]: exact;
    - [fexp], [fln], [fpow]: the real function of Model/RealScalar.v followed by one rounding,
      i.e. an IDEALISED, correctly rounded libm (real libms are faithful to within about one
      ulp, not correctly rounded; no theorem on the accumulating operations depends on them);
    - [fofnat n]: [INR n] rounded ([n as Float]);
    - comparisons: as over the reals.
    OVERFLOW IS NOT MODELLED: the exponent range of [FLT_exp] is unbounded above, so every
    statement about this instance assumes that results stay in range ([|x| < 2^128] for
    binary32, [|x| < 2^1024] for binary64); NaNs, infinities and signed zeros do not exist. *)

From Coq Require Import ZArith Reals.
From Flocq Require Import Core.
From Corgi Require Import Model.Scalar Model.RealScalar.

Local Open Scope R_scope.

Definition rnd (emin prec : Z) (x : R) : R :=
  round radix2 (FLT_exp emin prec) ZnearestE x.

Definition rounded_ops (emin prec : Z) : ScalarOps R := {|
  f0 := 0;
  f1 := 1;
  fadd := fun x y => rnd emin prec (x + y);
  fmul := fun x y => rnd emin prec (x * y);
  fsub := fun x y => rnd emin prec (x - y);
  fdiv := fun x y => rnd emin prec (x / y);
  fneg := Ropp;
  fexp := fun x => rnd emin prec (exp x);
  fln := fun x => rnd emin prec (ln x);
  fpow := fun x e => rnd emin prec (R_pow x e);
  fgt0 := fun x => if Rlt_dec 0 x then true else false;
  feqb := fun x y => if Req_EM_T x y then true else false;
  fofnat := fun n => rnd emin prec (INR n)
|}.

Definition binary32_ops : ScalarOps R := rounded_ops (-149) 24.
Definition binary64_ops : ScalarOps R := rounded_ops (-1074) 53.
