(** Forward values of src/array/arithmetic.rs, [flatten_to] (mod.rs), [reshape] and
    [axpy] (linalg.rs, non-BLAS build), relu/sigmoid/softmax (nonlinearity.rs). *)

From Coq Require Import List Arith Bool.
From Corgi Require Import Lib.OptionMonad Model.Scalar Model.Arr Model.SlicedOp.
Import ListNotations.

Section Elementwise.
  Context {F : Type} (O : ScalarOps F).

  Definition vsum (l : list F) : F := fold_left (fadd O) l (f0 O).

  (** closure of [element_wise_op]: out[i] = f(a[i % la], b[i % lb]) *)
  Definition ew_sop (f : F -> F -> F) (la lb : nat) : @sop F :=
    fun cur slices =>
      match slices with
      | [sa; sb] =>
        mapM (fun i => x <- nth_error sa (i mod la) ;; y <- nth_error sb (i mod lb) ;; Some (f x y))
             (seq 0 (length cur))
      | _ => None
      end.

  Definition element_wise_op (f : F -> F -> F) (a b : arr F) : option (arr F) :=
    d <- element_wise_dimensions (dims a) (dims b) ;;
    la <- nth_error (rev (dims a)) 0 ;;
    lb <- nth_error (rev (dims b)) 0 ;;
    sliced_op O [a; b] (ew_sop f la lb) d d 1 0.

  Definition map_arr (f : F -> F) (a : arr F) : option (arr F) :=
    mk (dims a) (map f (vals a)).

  Definition m1 : F := fneg O (f1 O).

  Definition a_scale (s : F) (a : arr F) := map_arr (fun x => fmul O x s) a.
  Definition a_neg (a : arr F) := a_scale m1 a.
  Definition a_add := element_wise_op (fadd O).
  Definition a_mul := element_wise_op (fmul O).
  Definition a_div := element_wise_op (fdiv O).
  Definition a_sub (a b : arr F) := nb <- a_neg b ;; a_add a nb.
  Definition a_reciprocal := map_arr (fun x => fdiv O (f1 O) x).
  Definition a_powf (e : F) := map_arr (fun x => fpow O x e).
  Definition a_ln := map_arr (fln O).
  Definition a_exp := map_arr (fexp O).
  Definition a_relu := map_arr (fun x => if fgt0 O x then x else f0 O).
  Definition sigmoid_fn (x : F) : F := fdiv O (f1 O) (fadd O (f1 O) (fexp O (fneg O x))).
  Definition a_sigmoid := map_arr sigmoid_fn.

  (** [axpy] without BLAS: [&(alpha * x) + y] *)
  Definition a_axpy (alpha : F) (x y : arr F) := ax <- a_scale alpha x ;; a_add ax y.

  (** [sum(k)]; [k = 0] returns the array itself. *)
  Definition sum_sop : @sop F :=
    fun cur slices =>
      match slices with
      | [s] => match cur with _ :: rest => Some (vsum s :: rest) | [] => None end
      | _ => None
      end.

  Definition sum_target (d : list nat) (k : nat) : list nat :=
    firstn (length d - k) d ++ repeat 1 k.

  Definition a_sum (k : nat) (a : arr F) : option (arr F) :=
    if k =? 0 then Some a
    else sliced_op O [a] sum_sop (dims a) (sum_target (dims a) k) k k.

  Definition a_sum_all (a : arr F) : F := vsum (vals a).

  (** [reshape]: same buffer, constructor checks *)
  Definition a_reshape (d : list nat) (a : arr F) : option (arr F) := mk d (vals a).

  (** [softmax]: exp / exp.sum(1) *)
  Definition a_softmax (a : arr F) : option (arr F) :=
    e <- a_exp a ;; s <- a_sum 1 e ;; a_div e s.

  (** closure of [flatten_to]: out[i] += sum of arrays[0][i], [i+stride], ... *)
  Definition strided (i stride : nat) (s : list F) : list F :=
    map (fun j => nth j s (f0 O))
        (filter (fun j => (i <=? j) && ((j - i) mod stride =? 0)) (seq 0 (length s))).

  Definition flatten_sop : @sop F :=
    fun cur slices =>
      match slices with
      | [s] =>
        let stride := length cur in
        Some (map (fun p => fadd O (snd p) (vsum (strided (fst p) stride s)))
                  (combine (seq 0 stride) cur))
      | _ => None
      end.

  Definition flatten_to (a : arr F) (target : list nat) : option (arr F) :=
    if dims_eqb (dims a) target then Some a
    else
      let fdc := length (dims a) - length target in
      flattened <-
        (if fdc =? 0 then Some a
         else sliced_op O [a] flatten_sop (dims a) (skipn fdc (dims a)) (length (dims a)) 0) ;;
      if dims_eqb (dims flattened) target then Some flattened
      else sliced_op O [flattened] flatten_sop (dims flattened) target 1 0.
End Elementwise.
