(** The real-number instance of the scalar operations (instance only; every fact about it is in
    Proofs/RealDerivs.v).  Used for the scalar-derivative facts of C02 and the softmax row
    facts of C07; nothing else in the development imports Reals.

    [fpow] models Rust's [Float::powf(x, e)] on its real domain:
      - [e] an integer [z] (this is decided classically, [Req_EM_T]; no function on [R] is
        computable anyway): [powerRZ x z], i.e. [x^n] for [z = n >= 0] at EVERY [x], and
        [/ x^n] for [z = -n < 0] (IEEE [powf] agrees for every finite [x <> 0]; at [x = 0],
        [z < 0] Rust returns an infinity and Coq's total inverse returns [/ 0 = 0]);
      - [e] not an integer and [0 < x]: [Rpower x e = exp (e * ln x)];
      - [e] not an integer and [x <= 0]: [0] (faithful at [x = 0 < e]: [powf(0, 0.5) = 0];
        for [x < 0] Rust returns NaN, for [x = 0 > e] an infinity: outside the real domain).
    The plain [fun x e => Rpower x e] would be wrong for every [x <= 0] (stdlib's [ln] is 0
    there, so [Rpower x e = 1]); in particular the law [fpow x (1+1) = x * x], which the
    [BDiv]/[BRecip] closures rely on, would fail at e.g. [x = -2] ([Rpower (-2) 2 = 1]). *)

From Coq Require Import Reals.
From Corgi Require Import Model.Scalar.

Local Open Scope R_scope.

(** [Some z] iff [e = IZR z] *)
Definition R_int_of (e : R) : option Z :=
  let z := Int_part e in
  if Req_EM_T e (IZR z) then Some z else None.

Definition R_pow (x e : R) : R :=
  match R_int_of e with
  | Some z => powerRZ x z
  | None => if Rlt_dec 0 x then Rpower x e else 0
  end.

Definition R_ops : ScalarOps R := {|
  f0 := 0;
  f1 := 1;
  fadd := Rplus;
  fmul := Rmult;
  fsub := Rminus;
  fdiv := Rdiv;
  fneg := Ropp;
  fexp := exp;
  fln := ln;
  fpow := R_pow;
  fgt0 := fun x => if Rlt_dec 0 x then true else false;
  feqb := fun x y => if Req_EM_T x y then true else false;
  fofnat := INR
|}.
