(** Image operations of src/array/image.rs: [unroll_blocks] (im2col), [roll_blocks]
    (assigning, and the summing variant used as its derivative), [expand_conv]
    (per image), [conv] as their composition with [reshape] and [matmul]. *)

From Coq Require Import List Arith Bool.
From Corgi Require Import Lib.OptionMonad Model.Scalar Model.Arr Model.SlicedOp
     Model.Elementwise Model.Linalg.
Import ListNotations.

Section Image.
  Context {F : Type} (O : ScalarOps F).

  (** [(image - filter) / stride + 1] with the debug-build panics *)
  Definition stride_count (image filter stride : nat) : option nat :=
    check (filter <=? image) ;;
    check (1 <=? stride) ;;
    Some ((image - filter) / stride + 1).

  (** closure of [unroll_blocks]; the loop nest r, c, k, m, n with a running output index *)
  Definition unroll_sop (depth rows cols sr sc fr fc rcount ccount : nat) : @sop F :=
    fun cur slices =>
      match slices with
      | [s] =>
        mapM (fun oi =>
                let n := oi mod fc in
                let m := (oi / fc) mod fr in
                let k := (oi / (fc * fr)) mod depth in
                let c := (oi / (fc * fr * depth)) mod ccount in
                let r := oi / (fc * fr * depth * ccount) in
                nth_error s ((n + sc * c) + cols * ((m + sr * r) + rows * k)))
             (seq 0 (rcount * ccount * depth * fr * fc))
      | _ => None
      end.

  Definition unroll_blocks (image : arr F) (sr sc fr fc : nat) : option (arr F) :=
    let d := dims image in
    depth <- dim_back d 3 ;;
    rows <- dim_back d 2 ;;
    cols <- dim_back d 1 ;;
    rcount <- stride_count rows fr sr ;;
    ccount <- stride_count cols fc sc ;;
    let out_dims := firstn (length d - 3) d ++ [rcount * ccount; depth * (fr * fc)] in
    sliced_op O [image] (unroll_sop depth rows cols sr sc fr fc rcount ccount) d out_dims 3 0.

  (** closure of [roll_blocks]; [summed] selects [+=] (derivative of unrolling) over [=] *)
  Definition roll_sop (summed : bool) (count depth rows cols sr sc fr fc ccount : nat) : @sop F :=
    fun cur slices =>
      match slices with
      | [s] =>
        let usize := fr * fc in
        fold_left
          (fun acc ii =>
             out <- acc ;;
             let i := ii / (usize * depth) in
             let j := ii mod (usize * depth) in
             let stride_offset := cols * sr * (i / ccount) + sc * (i mod ccount) in
             let current_depth := j / usize in
             let filter_index := j mod usize in
             let oi := filter_index mod fc + cols * (filter_index / fc)
                       + rows * cols * current_depth + stride_offset in
             x <- nth_error s ii ;;
             o <- nth_error out oi ;;
             set_nth oi (if summed then fadd O o x else x) out)
          (seq 0 (count * (usize * depth))) (Some cur)
      | _ => None
      end.

  Definition roll_blocks (summed : bool) (unrolled : arr F) (depth rows cols sr sc fr fc : nat)
    : option (arr F) :=
    let d := dims unrolled in
    count <- dim_back d 2 ;;
    ccount <- stride_count cols fc sc ;;
    let out_dims := firstn (length d - 2) d ++ [depth; rows; cols] in
    sliced_op O [unrolled] (roll_sop summed count depth rows cols sr sc fr fc ccount)
              d out_dims 2 0.

  (** [expand_conv]: per image, [windows, count] -> [count, out_rows, out_cols] *)
  Definition expand_index (fcount stride : nat) (ri : nat) : nat :=
    let image_length := stride * fcount in
    let offset := (ri / image_length) * image_length in
    let within := ri mod image_length in
    offset + within / stride + fcount * (within mod stride).

  Definition expand_conv (a : arr F) (rcount ccount : nat) : option (arr F) :=
    let d := dims a in
    fcount <- dim_back d 1 ;;
    let n := length (vals a) in
    let stride := rcount * ccount in
    check (1 <=? stride * fcount) ;;
    let images := (n + stride * fcount - 1) / (stride * fcount) in
    vals' <- mapM (fun ri => nth_error (vals a) (expand_index fcount stride ri))
                  (seq 0 (images * (stride * fcount))) ;;
    (* the Rust loop writes result[result_index]; too many writes panic *)
    check (length vals' <=? n) ;;
    mk (firstn (length d - 2) d ++ [fcount; rcount; ccount])
       (vals' ++ repeat (f0 O) (n - length vals')).

  Definition conv (image filters : arr F) (sr sc : nat) : option (arr F) :=
    let d := dims image in
    let fd := dims filters in
    check (1 <=? length d) ;;
    check ((3 <=? length d) && (3 <=? length fd)) ;;
    depth <- dim_back d 3 ;;
    rows <- dim_back d 2 ;;
    cols <- dim_back d 1 ;;
    fr <- dim_back fd 2 ;;
    fc <- dim_back fd 1 ;;
    rcount <- stride_count rows fr sr ;;
    ccount <- stride_count cols fc sc ;;
    unrolled <- unroll_blocks image sr sc fr fc ;;
    last <- dim_back (dims unrolled) 1 ;;
    let usize := last / depth in
    fm <- a_reshape (firstn (length fd - 3) fd ++ [usize * depth]) filters ;;
    convolved <- a_matmul O unrolled false fm true None ;;
    expand_conv convolved rcount ccount.
End Image.
