(** The reverse-mode engine: [propagate_consumers] and [backward]
    (src/array/mod.rs:392-474), over an abstract payload [P] (what a node
    carries besides the engine's own cells) and abstract adjoint values [D].

    A [node] is the bundle of cells that [Array::from] allocates together and
    [Clone] shares (consumer_count, delta, gradient, children); node ids are
    positions in the store and children always have smaller ids.  An [entry]
    is a child handle stored inside the shared children vector, with its own
    flag cells. *)

From Coq Require Import List Arith Bool.
From Corgi Require Import Lib.OptionMonad.
Import ListNotations.

Section Engine.
  Context {P D : Type}.

  Record eops : Type := {
    eo_ones : P -> D;                       (* default seed: ones of the node's dimensions *)
    eo_flat : D -> P -> option D;           (* [delta.flatten_to(&child.dimensions)] *)
    eo_add : D -> D -> option D;            (* [&x + &delta] *)
    eo_hasop : P -> bool;                   (* [backward_op.is_some()] *)
    eo_bop : P -> list P -> list bool -> D -> option (list (option D))
  }.

  Variable E : eops.

  Record entry : Type := { e_node : nat; e_tracked : bool; e_keep : bool }.

  Record node : Type := {
    n_pay : P;
    n_children : list entry;
    n_count : nat;
    n_delta : option D;
    n_grad : option D
  }.

  Definition store : Type := list node.

  Definition set_count (nd : node) (c : nat) : node :=
    {| n_pay := n_pay nd; n_children := n_children nd; n_count := c;
       n_delta := n_delta nd; n_grad := n_grad nd |}.
  Definition set_delta (nd : node) (d : option D) : node :=
    {| n_pay := n_pay nd; n_children := n_children nd; n_count := n_count nd;
       n_delta := d; n_grad := n_grad nd |}.
  Definition set_grad (nd : node) (d : option D) : node :=
    {| n_pay := n_pay nd; n_children := n_children nd; n_count := n_count nd;
       n_delta := n_delta nd; n_grad := d |}.
  Definition set_children (nd : node) (es : list entry) : node :=
    {| n_pay := n_pay nd; n_children := es; n_count := n_count nd;
       n_delta := n_delta nd; n_grad := n_grad nd |}.

  Definition put (g : store) (id : nat) (nd : node) : option store := set_nth id nd g.

  (** [propagate_consumers] *)
  Fixpoint propagate (fuel : nat) (g : store) (id : nat) : option store :=
    match fuel with
    | 0 => None
    | S fuel' =>
      nd <- nth_error g id ;;
      fold_left
        (fun (acc : option store) (e : entry) =>
           g <- acc ;;
           if e_tracked e then
             c <- nth_error g (e_node e) ;;
             let cc := n_count c in
             g' <- put g (e_node e) (set_count c (S cc)) ;;
             if cc =? 0 then propagate fuel' g' (e_node e) else Some g'
           else Some g)
        (n_children nd) (Some g)
    end.

  (** [stop_tracking] on every child, and the restoring loop after the closure *)
  Definition clear_flags (es : list entry) : list entry :=
    map (fun e => {| e_node := e_node e; e_tracked := false; e_keep := e_keep e |}) es.

  Definition restore_flags (es : list entry) (saved : list bool) : list entry :=
    map (fun p : entry * bool => if snd p
                  then {| e_node := e_node (fst p); e_tracked := true; e_keep := e_keep (fst p) |}
                  else fst p)
        (combine es saved).

  Definition trace : Type := list (nat * D).

  (** [backward]; [keep] is the keep_gradient flag of the handle the call goes through. *)
  Fixpoint backward (fuel : nat) (g : store) (id : nat) (keep : bool) (seed : option D)
           (log : trace) : option (store * trace) :=
    match fuel with
    | 0 => None
    | S fuel' =>
      nd <- nth_error g id ;;
      gd <- match n_delta nd with
            | Some x => g1 <- put g id (set_delta nd None) ;; Some (g1, x)
            | None =>
              g1 <- propagate (S id) g id ;;
              Some (g1, match seed with Some s => s | None => eo_ones E (n_pay nd) end)
            end ;;
      let '(g1, delta) := gd in
      nd1 <- nth_error g1 id ;;
      let es := n_children nd1 in
      gl <- (if eo_hasop E (n_pay nd1) then
               let saved := map e_tracked es in
               g1a <- put g1 id (set_children nd1 (clear_flags es)) ;;
               pays <- mapM (fun e => c <- nth_error g1a (e_node e) ;; Some (n_pay c)) es ;;
               ds <- eo_bop E (n_pay nd1) pays saved delta ;;
               nd1a <- nth_error g1a id ;;
               g1b <- put g1a id (set_children nd1a (restore_flags (n_children nd1a) saved)) ;;
               check (length ds <=? length es) ;;
               fold_left
                 (fun (acc : option (store * trace)) (p : entry * option D) =>
                    st <- acc ;;
                    let '(g, lg) := st in
                    let e := fst p in
                    match snd p with
                    | None => Some (g, lg)
                    | Some d =>
                      c <- nth_error g (e_node e) ;;
                      d' <- eo_flat E d (n_pay c) ;;
                      nw <- match n_delta c with
                            | Some x => eo_add E x d'
                            | None => Some d'
                            end ;;
                      let cc := n_count c in
                      check (1 <=? cc) ;;
                      g' <- put g (e_node e) (set_count (set_delta c (Some nw)) (cc - 1)) ;;
                      if cc =? 1 then backward fuel' g' (e_node e) (e_keep e) None lg
                      else Some (g', lg)
                    end)
                 (combine es ds) (Some (g1b, log ++ [(id, delta)]))
             else
               check (match es with [] => true | _ => false end) ;;
               Some (g1, log)) ;;
      let '(g2, log2) := gl in
      nd2 <- nth_error g2 id ;;
      if (match n_children nd2 with [] => true | _ => false end) || keep then
        ng <- match n_grad nd2 with
              | Some x => eo_add E x delta
              | None => Some delta
              end ;;
        g3 <- put g2 id (set_grad nd2 (Some ng)) ;;
        Some (g3, log2)
      else Some (g2, log2)
    end.

  (** a pass started by the user on node [id] through a handle with flag [keep] *)
  Definition run_backward (g : store) (id : nat) (keep : bool) (seed : option D)
    : option (store * trace) :=
    backward (S id) g id keep seed [].
End Engine.

Arguments entry : clear implicits.
Arguments node : clear implicits.
Arguments store : clear implicits.
Arguments eops : clear implicits.
