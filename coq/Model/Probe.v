(** White-box probe used by the correspondence runs only (no theorem is about it): an
    interpreter that wraps [step] and can, between instructions, report the bookkeeping
    cells of the node behind a pool handle - what the guarded hook [Array::verif_probe]
    (built with --cfg corgi_verif) reports for the real array:
    tracking flag, keep_gradient flag, consumer count, pending delta present, gradient
    present, Rc::strong_count of the value buffer (the model's [strong_count]), number of
    recorded children and their (tracked, keep) flags.  [PI i] runs the model's own [step]
    unchanged, so everything proved about [step] / [run] applies to what is compared. *)

From Coq Require Import List Arith Bool.
From Corgi Require Import Lib.OptionMonad Model.Scalar Model.Arr Model.Ops Model.Engine Model.Program.
Import ListNotations.

Section Probe.
  Context {F : Type} (O : ScalarOps F).

  Inductive pinstr :=
  | PI (i : instr (F := F))
  | PProbe (h : nat)
  (* [*h.gradient_mut() = Some(Array::from((d, v)))]: a caller-made gradient written over the stored one.  Not one
     of the model's instructions (no theorem quantifies over it); it exists so that the correspondence runs can put
     the stored-gradient cell into states the instructions alone never reach. *)
  | PSetGrad (h : nat) (d : list nat) (v : list F).

  Definition is_some {A} (o : option A) : bool := match o with Some _ => true | None => false end.

  Definition probe_obs (s : state (F := F)) (h : nat) : option (obs (F := F)) :=
    x <- var s h ;;
    nd <- h_node s x ;;
    Some [(11,
           [b2n (e_tracked x); b2n (e_keep x); n_count nd; b2n (is_some (n_delta nd));
            b2n (is_some (n_grad nd)); strong_count s (buf_of (st_nodes s) (e_node x));
            length (n_children nd)]
           ++ flat_map (fun e : entry => [b2n (e_tracked e); b2n (e_keep e)]) (n_children nd),
           [])].

  Fixpoint prun_from (s : state (F := F)) (p : list pinstr) : list (obs (F := F)) * bool :=
    match p with
    | [] => ([], false)
    | PI i :: p' =>
      match step O s i with
      | None => ([], true)
      | Some (s', o) => let '(os, b) := prun_from s' p' in (o :: os, b)
      end
    | PProbe h :: p' =>
      match probe_obs s h with
      | None => ([], true)
      | Some o =>
        (* like every instruction, a probe occupies one (empty) pool slot, so that variable i
           remains the result of instruction i *)
        let '(os, b) := prun_from (push s None) p' in (o :: os, b)
      end
    | PSetGrad h d v :: p' =>
      match (x <- var s h ;;
             nd <- h_node s x ;;
             a <- mk d v ;;
             g <- put (st_nodes s) (e_node x) (set_grad nd (Some a)) ;;
             Some (with_nodes s g, o_grad (n_grad nd))) with
      | None => ([], true)
      | Some (s1, o) => let '(os, b) := prun_from (push s1 None) p' in (o :: os, b)
      end
    end.

  Definition prun (p : list pinstr) : list (obs (F := F)) * bool := prun_from (init_state O) p.

  (** without probes the wrapper is the model's [run] *)
  Lemma prun_from_run_from : forall p s, prun_from s (map PI p) = run_from O s p.
  Proof.
    induction p as [|i p IH]; intros s; cbn [map prun_from run_from]; [reflexivity|].
    destruct (step O s i) as [[s' o]|]; [|reflexivity]. rewrite IH. reflexivity.
  Qed.

  Lemma prun_run : forall p, prun (map PI p) = run O p.
  Proof. intros p. apply prun_from_run_from. Qed.
End Probe.
