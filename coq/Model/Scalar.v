(** Scalars of the corgi model.

    Every model function is polymorphic in a record of scalar operations
    ([ScalarOps F]), mirroring the way all of corgi is written against the
    alias [Float] (src/numbers.rs).  Instances:
      - [float_ops]  : primitive binary64, used only by the correspondence runs;
      - [Z_ops]      : exact integers, used by [Example]s;
      - [dual_ops O] : dual numbers over [O] (forward-mode reference);
      - any commutative ring (section hypothesis) in the proof files.  *)

From Coq Require Import List ZArith Bool Floats.
Import ListNotations.

Record ScalarOps (F : Type) : Type := {
  f0 : F;
  f1 : F;
  fadd : F -> F -> F;
  fmul : F -> F -> F;
  fsub : F -> F -> F;
  fdiv : F -> F -> F;
  fneg : F -> F;
  fexp : F -> F;
  fln : F -> F;
  fpow : F -> F -> F;      (* Rust [Float::powf] *)
  fgt0 : F -> bool;        (* [x > 0.0] *)
  feqb : F -> F -> bool;   (* [==] on Float *)
  fofnat : nat -> F        (* [n as Float] *)
}.

Arguments f0 {F} _.
Arguments f1 {F} _.
Arguments fadd {F} _ _ _.
Arguments fmul {F} _ _ _.
Arguments fsub {F} _ _ _.
Arguments fdiv {F} _ _ _.
Arguments fneg {F} _ _.
Arguments fexp {F} _ _.
Arguments fln {F} _ _.
Arguments fpow {F} _ _ _.
Arguments fgt0 {F} _ _.
Arguments feqb {F} _ _ _.
Arguments fofnat {F} _ _.

(** * Primitive floats (correspondence instance; no theorem depends on it) *)

Module FloatInst.
  Open Scope float_scope.

  (* exp by scaling and squaring: exp x = (exp (x / 2^10))^(2^10), Taylor of degree 14 *)
  Fixpoint taylor_exp (n : nat) (k : float) (term acc y : float) : float :=
    match n with
    | O => acc
    | S n' => let term' := term * y / k in taylor_exp n' (k + 1) term' (acc + term') y
    end.

  Fixpoint sq_n (n : nat) (x : float) : float :=
    match n with O => x | S n' => sq_n n' (x * x) end.

  Definition fl_exp (x : float) : float :=
    if PrimFloat.ltb x (-746) then 0            (* below the smallest subnormal *)
    else if PrimFloat.ltb 710 x then infinity   (* above the largest finite number *)
    else
      let y := x / 1024 in
      sq_n 10 (taylor_exp 14 1 1 1 y).

  (* ln x = e*ln2 + 2*atanh((m-1)/(m+1)), x = m*2^e, m in [0.5,1) *)
  Fixpoint atanh_series (n : nat) (k : float) (zpow z2 acc : float) : float :=
    match n with
    | O => acc
    | S n' => atanh_series n' (k + 2) (zpow * z2) z2 (acc + zpow / k)
    end.

  Definition ln2 : float := 0x1.62e42fefa39efp-1.

  Definition fl_ln (x : float) : float :=
    if PrimFloat.eqb x 0 then neg_infinity            (* ln 0 = -inf, as in IEEE libm *)
    else if PrimFloat.ltb x 0 then nan
    else if PrimFloat.eqb x infinity then infinity
    else if negb (PrimFloat.eqb x x) then nan
    else if (PrimFloat.ltb 0x1.6p-1 x) && (PrimFloat.ltb x 0x1.6p0) then
      (* near 1: no exponent term, hence no cancellation *)
      let z := (x - 1) / (x + 1) in
      2 * atanh_series 40 1 z (z * z) 0
    else
      let (m, e) := frshiftexp x in
      let ef := of_uint63 e - 2101 in
      let z := (m - 1) / (m + 1) in
      ef * ln2 + 2 * atanh_series 40 1 z (z * z) 0.

  Fixpoint pow_nat (x : float) (n : nat) : float :=
    match n with O => 1 | S n' => x * pow_nat x n' end.

  (* the first n with [of_nat n = e], n < bound *)
  Fixpoint find_int (bound : nat) (k : nat) (kf e : float) : option nat :=
    match bound with
    | O => None
    | S b => if PrimFloat.eqb kf e then Some k else find_int b (S k) (kf + 1) e
    end.

  (* [h] is an integer (for |h| < 2^51): adding and subtracting 2^52 rounds to the nearest integer *)
  Definition is_int_small (h : float) : bool :=
    let a := PrimFloat.abs h in
    PrimFloat.eqb ((a + 0x1p52) - 0x1p52) a.

  (* whole-valued exponents beyond the small table: libm's pow treats a negative base by parity *)
  Definition whole (e : float) : bool :=
    let a := PrimFloat.abs e in
    if PrimFloat.leb 0x1p52 a then true else is_int_small a.

  Definition even_whole (e : float) : bool :=
    let a := PrimFloat.abs e in
    if PrimFloat.leb 0x1p53 a then true else is_int_small (a / 2).

  Definition fl_pow (x e : float) : float :=
    match find_int 33 0 0 e with
    | Some n => pow_nat x n
    | None =>
      match find_int 33 0 0 (- e) with
      | Some n => 1 / pow_nat x n
      | None =>
        if (PrimFloat.ltb x 0) && whole e then
          let r := fl_exp (e * fl_ln (- x)) in
          if even_whole e then r else - r
        else fl_exp (e * fl_ln x)
      end
    end.

  Fixpoint of_nat (n : nat) : float :=
    match n with O => 0 | S n' => of_nat n' + 1 end.
End FloatInst.

Definition float_ops : ScalarOps float := {|
  f0 := 0%float;
  f1 := 1%float;
  fadd := PrimFloat.add;
  fmul := PrimFloat.mul;
  fsub := PrimFloat.sub;
  fdiv := PrimFloat.div;
  fneg := PrimFloat.opp;
  fexp := FloatInst.fl_exp;
  fln := FloatInst.fl_ln;
  fpow := FloatInst.fl_pow;
  fgt0 := fun x => PrimFloat.ltb 0%float x;
  feqb := PrimFloat.eqb;
  fofnat := FloatInst.of_nat
|}.

(** * Integers (exact; division, exp, ln are placeholders never used by an Example) *)

Definition Z_ops : ScalarOps Z := {|
  f0 := 0%Z;
  f1 := 1%Z;
  fadd := Z.add;
  fmul := Z.mul;
  fsub := Z.sub;
  fdiv := Z.div;
  fneg := Z.opp;
  fexp := fun x => x;
  fln := fun x => x;
  fpow := fun x e => Z.pow x e;
  fgt0 := fun x => Z.ltb 0 x;
  feqb := Z.eqb;
  fofnat := Z.of_nat
|}.

(** * Dual numbers: forward-mode reference.

    The derivative rules of the primitives are written here once; that they are
    the mathematical derivatives is proved over the reals in Proofs/RealDerivs.v. *)

Section Dual.
  Context {F : Type} (O : ScalarOps F).

  Definition dual : Type := (F * F)%type.

  Definition dual_ops : ScalarOps dual := {|
    f0 := (f0 O, f0 O);
    f1 := (f1 O, f0 O);
    fadd := fun x y => (fadd O (fst x) (fst y), fadd O (snd x) (snd y));
    fmul := fun x y => (fmul O (fst x) (fst y),
                        fadd O (fmul O (fst x) (snd y)) (fmul O (snd x) (fst y)));
    fsub := fun x y => (fsub O (fst x) (fst y), fsub O (snd x) (snd y));
    (* (x/y)' = x'/y - x*y'/(y*y) *)
    fdiv := fun x y => (fdiv O (fst x) (fst y),
                        fsub O (fdiv O (snd x) (fst y))
                               (fdiv O (fmul O (fst x) (snd y)) (fmul O (fst y) (fst y))));
    fneg := fun x => (fneg O (fst x), fneg O (snd x));
    fexp := fun x => (fexp O (fst x), fmul O (fexp O (fst x)) (snd x));
    fln := fun x => (fln O (fst x), fdiv O (snd x) (fst x));
    (* exponents are constants of the program: (x^e)' = e * x^(e-1) * x' *)
    fpow := fun x e => (fpow O (fst x) (fst e),
                        fmul O (fmul O (fst e) (fpow O (fst x) (fsub O (fst e) (f1 O)))) (snd x));
    fgt0 := fun x => fgt0 O (fst x);
    feqb := fun x y => feqb O (fst x) (fst y);
    fofnat := fun n => (fofnat O n, f0 O)
  |}.
End Dual.
