(** The instruction language shared with the Rust harness, and its interpreter
    over the model: handles, graph construction with the tracking rules of each
    operation, passes, gradient slots, ownership, optimizer, layers and the
    model loop (src/optimizer/gd.rs, src/layer/*.rs, src/model.rs, src/cost.rs). *)

From Coq Require Import List Arith Bool.
From Corgi Require Import Lib.OptionMonad Model.Scalar Model.Arr Model.SlicedOp
     Model.Elementwise Model.Linalg Model.Image Model.Ops Model.Engine.
Import ListNotations.

Section Program.
  Context {F : Type} (O : ScalarOps F).

  (** what a node carries besides the engine cells *)
  Record pay : Type := {
    p_dims : list nat;
    p_vals : list F;
    p_bop : option (bop_code F);
    p_buf : nat;      (* identity of the value buffer (shared by [reshape]) *)
    p_tag : nat       (* index of the instruction that created the node (ghost) *)
  }.

  Definition pay_arr (p : pay) : arr F := {| dims := p_dims p; vals := p_vals p |}.

  Definition E : eops pay (arr F) := {|
    eo_ones := fun p => {| dims := p_dims p; vals := repeat (f1 O) (length (p_vals p)) |};
    eo_flat := fun d p => flatten_to O d (p_dims p);
    eo_add := a_add O;
    eo_hasop := fun p => match p_bop p with Some _ => true | None => false end;
    eo_bop := fun p cs t x => code <- p_bop p ;; run_bop O code (map pay_arr cs) t x
  |}.

  Definition handle : Type := entry.
  Definition gnode : Type := node pay (arr F).

  Inductive act := ANone | ARelu | ASigmoid | ASoftmax.
  Inductive cost := CMse | CCrossEntropy.

  Inductive layer_spec :=
  | LDense (nin nout : nat) (a : act) (w b : list F)
  | LConv (count depth fr fc sr sc : nat) (a : act) (f b : list F).

  Record layer : Type := {
    l_conv : option (nat * nat);   (* strides of a convolutional layer *)
    l_act : act;
    l_w : handle;
    l_b : handle
  }.

  Record state : Type := {
    st_nodes : list gnode;
    st_pool : list (option handle);
    st_layers : list layer;
    st_cost : cost;
    st_lr : F;
    st_output : option handle;
    st_tag : nat
  }.

  Definition init_state : state := {|
    st_nodes := []; st_pool := []; st_layers := []; st_cost := CMse; st_lr := f0 O;
    st_output := None; st_tag := 0 |}.

  Definition with_nodes (s : state) (g : list gnode) : state :=
    {| st_nodes := g; st_pool := st_pool s; st_layers := st_layers s; st_cost := st_cost s;
       st_lr := st_lr s; st_output := st_output s; st_tag := st_tag s |}.
  Definition with_pool (s : state) (p : list (option handle)) : state :=
    {| st_nodes := st_nodes s; st_pool := p; st_layers := st_layers s; st_cost := st_cost s;
       st_lr := st_lr s; st_output := st_output s; st_tag := st_tag s |}.
  Definition with_layers (s : state) (l : list layer) : state :=
    {| st_nodes := st_nodes s; st_pool := st_pool s; st_layers := l; st_cost := st_cost s;
       st_lr := st_lr s; st_output := st_output s; st_tag := st_tag s |}.
  Definition with_output (s : state) (o : option handle) : state :=
    {| st_nodes := st_nodes s; st_pool := st_pool s; st_layers := st_layers s;
       st_cost := st_cost s; st_lr := st_lr s; st_output := o; st_tag := st_tag s |}.
  Definition with_tag (s : state) (t : nat) : state :=
    {| st_nodes := st_nodes s; st_pool := st_pool s; st_layers := st_layers s;
       st_cost := st_cost s; st_lr := st_lr s; st_output := st_output s; st_tag := t |}.
  Definition with_config (s : state) (c : cost) (lr : F) : state :=
    {| st_nodes := st_nodes s; st_pool := st_pool s; st_layers := st_layers s;
       st_cost := c; st_lr := lr; st_output := st_output s; st_tag := st_tag s |}.

  Definition mkh (id : nat) (t k : bool) : handle :=
    {| e_node := id; e_tracked := t; e_keep := k |}.

  Definition h_node (s : state) (h : handle) : option gnode := nth_error (st_nodes s) (e_node h).
  Definition h_arr (s : state) (h : handle) : option (arr F) :=
    nd <- h_node s h ;; Some (pay_arr (n_pay nd)).

  (** [Array::from] (+ [with_children]/[with_backward_op] when a closure is attached):
      a fresh node; the handle is tracked and keeps gradients iff a closure is attached. *)
  Definition alloc (s : state) (a : arr F) (children : list handle)
             (bop : option (bop_code F)) (buf : option nat) : state * handle :=
    let id := length (st_nodes s) in
    let tracked := match bop with Some _ => true | None => false end in
    let nd := {| n_pay := {| p_dims := dims a; p_vals := vals a; p_bop := bop;
                             p_buf := match buf with Some b => b | None => id end;
                             p_tag := st_tag s |};
                 n_children := children; n_count := 0; n_delta := None; n_grad := None |} in
    (with_nodes s (st_nodes s ++ [nd]), mkh id tracked tracked).

  Definition alloc_if (s : state) (a : arr F) (tracked : bool) (children : list handle)
             (bop : bop_code F) : state * handle :=
    if tracked then alloc s a children (Some bop) None else alloc s a [] None None.

  (** ** Operations *)

  Inductive opk :=
  | OAdd | OSub | OMul | ODiv | ONeg
  | OScale (c : F) | ORecip | OPowf (e : F) | OLn | OExp
  | OSum (k : nat) | OReshape (d : list nat)
  | OMatmul (ta tb : bool) (* 2 or 3 arguments *)
  | OConv (sr sc : nat)
  | ORelu | OSigmoid | OSoftmax
  | OAxpy (alpha : F)
  | OCustom (c : custom_op).

  Definition unary (s : state) (h : handle) (fwd : arr F -> option (arr F))
             (code : arr F -> bop_code F) : option (state * handle) :=
    a <- h_arr s h ;;
    r <- fwd a ;;
    Some (alloc_if s r (e_tracked h) [h] (code r)).

  Definition binary (s : state) (ha hb : handle) (fwd : arr F -> arr F -> option (arr F))
             (code : bop_code F) : option (state * handle) :=
    a <- h_arr s ha ;;
    b <- h_arr s hb ;;
    r <- fwd a b ;;
    Some (alloc_if s r (e_tracked ha || e_tracked hb) [ha; hb] code).

  Definition op_neg s h := unary s h (a_neg O) (fun _ => BNeg).
  Definition op_add s ha hb := binary s ha hb (a_add O) BAdd.
  Definition op_mul s ha hb := binary s ha hb (a_mul O) BMul.
  Definition op_div s ha hb := binary s ha hb (a_div O) BDiv.
  Definition op_scale s c h := unary s h (a_scale O c) (fun _ => BScale c).
  Definition op_exp s h := unary s h (a_exp O) (fun r => BExp (vals r)).
  Definition op_ln s h := unary s h (a_ln O) (fun _ => BLn).
  Definition op_powf s e h := unary s h (a_powf O e) (fun _ => BPowf e).
  Definition op_relu s h := unary s h (a_relu O) (fun _ => BRelu).
  Definition op_sigmoid s h := unary s h (a_sigmoid O) (fun r => BSigmoid (vals r)).

  Definition op_sum (s : state) (k : nat) (h : handle) : option (state * handle) :=
    if k =? 0 then Some (s, h)   (* [self.clone()] *)
    else
      a <- h_arr s h ;;
      unary s h (a_sum O k) (fun _ => BSum k (sum_target (dims a) k)).

  Definition op_reshape (s : state) (d : list nat) (h : handle) : option (state * handle) :=
    nd <- h_node s h ;;
    r <- a_reshape d (pay_arr (n_pay nd)) ;;
    let buf := Some (p_buf (n_pay nd)) in
    Some (if e_tracked h then alloc s r [h] (Some BReshape) buf else alloc s r [] None buf).

  Definition op_matmul (s : state) (ta tb : bool) (ha hb : handle) (hc : option handle)
    : option (state * handle) :=
    a <- h_arr s ha ;;
    b <- h_arr s hb ;;
    c <- match hc with Some h => x <- h_arr s h ;; Some (Some x) | None => Some None end ;;
    r <- a_matmul O a ta b tb c ;;
    let tracked := e_tracked ha || e_tracked hb
                   || match hc with Some h => e_tracked h | None => false end in
    if tracked then
      (* the third child is the additive term, or a fresh [arr![0.0]] *)
      let '(s1, h3) := match hc with
                       | Some h => (s, h)
                       | None => alloc s (zeros1 O) [] None None
                       end in
      Some (alloc s1 r [ha; hb; h3] (Some (BMatmul ta tb)) None)
    else Some (alloc s r [] None None).

  Definition op_unroll (s : state) (h : handle) (sr sc fr fc : nat) : option (state * handle) :=
    a <- h_arr s h ;;
    depth <- dim_back (dims a) 3 ;;
    rows <- dim_back (dims a) 2 ;;
    cols <- dim_back (dims a) 1 ;;
    r <- unroll_blocks O a sr sc fr fc ;;
    Some (alloc_if s r (e_tracked h) [h] (BUnroll depth rows cols sr sc fr fc)).

  Definition op_expand (s : state) (h : handle) (rcount ccount : nat) : option (state * handle) :=
    a <- h_arr s h ;;
    fcount <- dim_back (dims a) 1 ;;
    r <- expand_conv O a rcount ccount ;;
    Some (alloc_if s r (e_tracked h) [h] (BExpand fcount (rcount * ccount))).

  Definition op_conv (s : state) (sr sc : nat) (hi hf : handle) : option (state * handle) :=
    image <- h_arr s hi ;;
    filters <- h_arr s hf ;;
    let d := dims image in
    let fd := dims filters in
    check (1 <=? length d) ;;
    check ((3 <=? length d) && (3 <=? length fd)) ;;
    depth <- dim_back d 3 ;;
    rows <- dim_back d 2 ;;
    cols <- dim_back d 1 ;;
    fr <- dim_back fd 2 ;;
    fc <- dim_back fd 1 ;;
    rcount <- stride_count rows fr sr ;;
    ccount <- stride_count cols fc sc ;;
    r1 <- op_unroll s hi sr sc fr fc ;;
    let '(s1, hu) := r1 in
    ua <- h_arr s1 hu ;;
    last <- dim_back (dims ua) 1 ;;
    let usize := last / depth in
    r2 <- op_reshape s1 (firstn (length fd - 3) fd ++ [usize * depth]) hf ;;
    let '(s2, hm) := r2 in
    r3 <- op_matmul s2 false true hu hm None ;;
    let '(s3, hcv) := r3 in
    op_expand s3 hcv rcount ccount.

  Definition op_sub (s : state) (ha hb : handle) : option (state * handle) :=
    r <- op_neg s hb ;; let '(s1, hn) := r in op_add s1 ha hn.

  Definition op_axpy (s : state) (alpha : F) (hx hy : handle) : option (state * handle) :=
    r <- op_scale s alpha hx ;; let '(s1, hs) := r in op_add s1 hs hy.

  Definition op_softmax (s : state) (h : handle) : option (state * handle) :=
    r1 <- op_exp s h ;;
    let '(s1, he) := r1 in
    r2 <- op_sum s1 1 he ;;
    let '(s2, hs) := r2 in
    op_div s2 he hs.

  (** [Array::op]: the result is tracked because a closure is supplied *)
  Definition op_custom (s : state) (c : custom_op) (hs : list handle) : option (state * handle) :=
    args <- mapM (h_arr s) hs ;;
    r <- custom_forward O c args ;;
    Some (alloc s r hs (Some (BCustom c)) None).

  Definition apply_op (s : state) (k : opk) (hs : list handle) : option (state * handle) :=
    match k, hs with
    | OAdd, [a; b] => op_add s a b
    | OSub, [a; b] => op_sub s a b
    | OMul, [a; b] => op_mul s a b
    | ODiv, [a; b] => op_div s a b
    | ONeg, [a] => op_neg s a
    | OScale c, [a] => op_scale s c a
    | ORecip, [a] => unary s a (a_reciprocal O) (fun _ => BRecip)
    | OPowf e, [a] => op_powf s e a
    | OLn, [a] => op_ln s a
    | OExp, [a] => op_exp s a
    | OSum k, [a] => op_sum s k a
    | OReshape d, [a] => op_reshape s d a
    | OMatmul ta tb, [a; b] => op_matmul s ta tb a b None
    | OMatmul ta tb, [a; b; c] => op_matmul s ta tb a b (Some c)
    | OConv sr sc, [a; b] => op_conv s sr sc a b
    | ORelu, [a] => op_relu s a
    | OSigmoid, [a] => op_sigmoid s a
    | OSoftmax, [a] => op_softmax s a
    | OAxpy alpha, [x; y] => op_axpy s alpha x y
    | OCustom c, _ => op_custom s c hs
    | _, _ => None
    end.

  (** ** Ownership: who holds a value buffer (C18) *)

  (** nodes reachable from a list of roots through child entries *)
  Fixpoint reach (fuel : nat) (g : list gnode) (todo : list nat) (seen : list nat) : list nat :=
    match fuel with
    | 0 => seen
    | S fuel' =>
      match todo with
      | [] => seen
      | id :: rest =>
        if existsb (Nat.eqb id) seen then reach fuel' g rest seen
        else
          let kids := match nth_error g id with
                      | Some nd => map e_node (n_children nd)
                      | None => []
                      end in
          reach fuel' g (kids ++ rest) (id :: seen)
      end
    end.

  Definition buf_of (g : list gnode) (id : nat) : nat :=
    match nth_error g id with Some nd => p_buf (n_pay nd) | None => id end.

  Definition roots (s : state) : list handle :=
    flat_map (fun o => match o with Some h => [h] | None => [] end) (st_pool s)
    ++ flat_map (fun l => [l_w l; l_b l]) (st_layers s)
    ++ match st_output s with Some h => [h] | None => [] end.

  Definition count_if {A} (f : A -> bool) (l : list A) : nat := length (filter f l).

  (** [Rc::strong_count] of buffer [b]: live handles, child entries of live nodes, and the
      copy captured by a live sigmoid closure *)
  Definition strong_count (s : state) (b : nat) : nat :=
    let g := st_nodes s in
    let rs := roots s in
    let edges := fold_right (fun nd acc => length (n_children nd) + acc) 0 g in
    let live := reach (S (length g + edges + length rs)) g (map e_node rs) [] in
    count_if (fun h => buf_of g (e_node h) =? b) rs
    + fold_right
        (fun id acc =>
           match nth_error g id with
           | Some nd =>
             count_if (fun e => buf_of g (e_node e) =? b) (n_children nd)
             + (match p_bop (n_pay nd) with
                | Some (BSigmoid _) => if p_buf (n_pay nd) =? b then 1 else 0
                | _ => 0
                end)
             + acc
           | None => acc
           end) 0 live.

  (** ** Optimizer (gd.rs) *)

  Definition grad_of (s : state) (h : handle) : option (arr F) :=
    match h_node s h with Some nd => n_grad nd | None => None end.

  Definition clear_grad (s : state) (h : handle) : option state :=
    nd <- h_node s h ;;
    g <- put (st_nodes s) (e_node h) (set_grad nd None) ;;
    Some (with_nodes s g).

  (** x -= lr * g over zip(values, gradients); the unzipped tail of [values] is kept *)
  Fixpoint sgd_zip (lr : F) (xs gs : list F) : list F :=
    match xs, gs with
    | x :: xs', g :: gs' => fsub O x (fmul O lr g) :: sgd_zip lr xs' gs'
    | _, _ => xs
    end.

  (* corgi decides "frozen" while walking the list and takes each gradient as it goes: a later handle of a node
     whose gradient was already taken sees none and is frozen *)
  Fixpoint frozen_flags (s : state) (taken : list nat) (params : list handle) : list bool :=
    match params with
    | [] => []
    | h :: t =>
      match grad_of s h with
      | None => true :: frozen_flags s taken t
      | Some _ => if existsb (Nat.eqb (e_node h)) taken then true :: frozen_flags s taken t
                  else false :: frozen_flags s (e_node h :: taken) t
      end
    end.

  Definition gd_update (s : state) (lr : F) (params : list handle)
    : option (state * list handle) :=
    let frozen := frozen_flags s [] params in
    let unfrozen := map fst (filter (fun p : handle * bool => negb (snd p)) (combine params frozen)) in
    pv <- mapM (fun h => a <- h_arr s h ;; Some (vals a)) unfrozen ;;
    pg <- mapM (fun h => g <- grad_of s h ;; Some (vals g)) unfrozen ;;
    s1 <- fold_left (fun (acc : option state) (h : handle) => st <- acc ;; clear_grad st h) unfrozen (Some s) ;;
    let buf := sgd_zip lr (concat pv) (concat pg) in
    r <- fold_left
           (fun (acc : option (state * list F * list handle)) (p : handle * bool) =>
              st <- acc ;;
              let '(s', buf', out) := st in
              let h := fst p in
              if snd p then Some (s', buf', out ++ [h])
              else
                a <- h_arr s' h ;;
                let n := length (vals a) in
                check (n <=? length buf') ;;
                na <- mk (dims a) (firstn n buf') ;;
                let '(s'', h') := alloc s' na [] None None in
                Some (s'', skipn n buf', out ++ [mkh (e_node h') true true]))
           (combine params frozen) (Some (s1, buf, [])) ;;
    let '(s2, _, out) := r in
    Some (s2, out).

  (** ** Layers, costs, model (layer/dense.rs, layer/conv.rs, cost.rs, model.rs) *)

  Definition apply_act (s : state) (a : act) (h : handle) : option (state * handle) :=
    match a with
    | ANone => Some (s, h)
    | ARelu => op_relu s h
    | ASigmoid => op_sigmoid s h
    | ASoftmax => op_softmax s h
    end.

  Definition layer_forward (s : state) (l : layer) (input : handle) : option (state * handle) :=
    match l_conv l with
    | None =>
      r <- op_matmul s false true input (l_w l) (Some (l_b l)) ;;
      let '(s1, h) := r in apply_act s1 (l_act l) h
    | Some (sr, sc) =>
      r <- op_conv s sr sc input (l_w l) ;;
      let '(s1, hc) := r in
      r2 <- op_add s1 hc (l_b l) ;;
      let '(s2, h) := r2 in apply_act s2 (l_act l) h
    end.

  Definition model_forward (s : state) (input : handle) : option (state * handle) :=
    r <- fold_left (fun (acc : option (state * handle)) (l : layer) =>
                      st <- acc ;; let '(s', h) := st in layer_forward s' l h)
                   (st_layers s) (Some (s, input)) ;;
    let '(s1, out) := r in
    Some (with_output s1 (Some out), out).

  Definition cost_apply (s : state) (c : cost) (output target : handle)
    : option (state * handle) :=
    o <- h_arr s output ;;
    match c with
    | CMse =>
      let len := prod (dims o) in
      r1 <- op_sub s target output ;;
      let '(s1, d) := r1 in
      r2 <- op_powf s1 (two O) d ;;
      let '(s2, p) := r2 in
      op_scale s2 (fdiv O (f1 O) (fofnat O len)) p
    | CCrossEntropy =>
      batch <- nth_error (dims o) 0 ;;
      r1 <- op_neg s target ;;
      let '(s1, nt) := r1 in
      r2 <- op_ln s1 output ;;
      let '(s2, lo) := r2 in
      r3 <- op_mul s2 nt lo ;;
      let '(s3, m) := r3 in
      op_scale s3 (fdiv O (f1 O) (fofnat O batch)) m
    end.

  Definition model_backward (s : state) (target : handle) : option (state * F) :=
    output <- st_output s ;;
    r <- cost_apply s (st_cost s) output target ;;
    let '(s1, err) := r in
    res <- run_backward E (st_nodes s1) (e_node err) (e_keep err) None ;;
    ea <- h_arr s1 err ;;
    Some (with_nodes s1 (fst res), a_sum_all O ea).

  Definition model_params (s : state) : list handle :=
    flat_map (fun l => [l_w l; l_b l]) (st_layers s).

  Fixpoint rebuild_layers (ls : list layer) (hs : list handle) : list layer :=
    match ls, hs with
    | l :: ls', w :: b :: hs' =>
      {| l_conv := l_conv l; l_act := l_act l; l_w := w; l_b := b |} :: rebuild_layers ls' hs'
    | _, _ => ls
    end.

  Definition model_update (s : state) : option state :=
    r <- gd_update s (st_lr s) (model_params s) ;;
    let '(s1, hs) := r in
    Some (with_layers s1 (rebuild_layers (st_layers s1) hs)).

  Definition make_layer (s : state) (l : layer_spec) : option (state * layer) :=
    match l with
    | LDense nin nout a w b =>
      wa <- mk [nout; nin] w ;;
      ba <- mk [nout] b ;;
      let '(s1, hw) := alloc s wa [] None None in
      let '(s2, hb) := alloc s1 ba [] None None in
      Some (s2, {| l_conv := None; l_act := a;
                   l_w := mkh (e_node hw) true true; l_b := mkh (e_node hb) true true |})
    | LConv count depth fr fc sr sc a f b =>
      fa <- mk [count; depth; fr; fc] f ;;
      ba <- mk [count; 1; 1] b ;;
      let '(s1, hw) := alloc s fa [] None None in
      let '(s2, hb) := alloc s1 ba [] None None in
      Some (s2, {| l_conv := Some (sr, sc); l_act := a;
                   l_w := mkh (e_node hw) true true; l_b := mkh (e_node hb) true true |})
    end.

  (** ** Instructions and observations *)

  Inductive instr :=
  | ILeaf (d : list nat) (v : list F) (tracked : bool)
  | IZeros (d : list nat)
  | IFromFlat (v : list F)
  | IFromArrays (hs : list nat)
  | IOp (k : opk) (args : list nat)
  | IClone (h : nat)
  | IDrop (h : nat)
  | ITracked (h : nat)
  | IUntracked (h : nat)
  | IStart (h : nat)
  | IStop (h : nat)
  | IBackward (h : nat) (seed : option (list nat * list F))
  | IGrad (h : nat)
  | IClearGrad (h : nat)
  | IFetchGrad (h : nat)
  | ITakeVec (h : nat)
  | IIndex (h : nat) (idx : list nat)
  | IIndexFlat (h : nat) (i : nat)
  | IEq (h1 h2 : nat)
  | IObs (h : nat)
  | ISumAll (h : nat)
  | IUpdate (lr : F) (hs : list nat)
  | IModel (ls : list layer_spec) (c : cost) (lr : F)
  | IForward (h : nat)
  | IModelBackward (h : nat)
  | IModelUpdate
  | IParams.

  (** one observation item: (kind, naturals, scalars) *)
  Definition item : Type := (nat * list nat * list F)%type.
  Definition obs : Type := list item.

  Definition b2n (b : bool) : nat := if b then 1 else 0.
  Definition o_unit : obs := [].
  Definition o_arr (a : arr F) (tracked : bool) : obs := [(1, b2n tracked :: dims a, vals a)].
  Definition o_bool (b : bool) : obs := [(2, [b2n b], [])].
  Definition o_grad (g : option (arr F)) : obs :=
    match g with None => [(3, [], [])] | Some a => [(4, dims a, vals a)] end.
  Definition o_val (x : F) : obs := [(5, [], [x])].

  Definition var (s : state) (i : nat) : option handle :=
    o <- nth_error (st_pool s) i ;; o.

  Definition push (s : state) (h : option handle) : state := with_pool s (st_pool s ++ [h]).

  Definition set_var (s : state) (i : nat) (h : option handle) : option state :=
    p <- set_nth i h (st_pool s) ;; Some (with_pool s p).

  Definition is_custom (s : state) (id : nat) : bool :=
    match nth_error (st_nodes s) id with
    | Some nd => match p_bop (n_pay nd) with Some (BCustom _) => true | _ => false end
    | None => false
    end.

  Definition tag_of (s : state) (id : nat) : nat :=
    match nth_error (st_nodes s) id with Some nd => p_tag (n_pay nd) | None => 0 end.

  (** the invocation log of user closures: (creating instruction, received adjoint) *)
  Definition o_log (s : state) (lg : trace (D := arr F)) : obs :=
    map (fun p => (6, tag_of s (fst p) :: dims (snd p), vals (snd p)))
        (filter (fun p => is_custom s (fst p)) lg).

  Definition o_params (s : state) : obs :=
    flat_map (fun h => match h_arr s h with
                       | Some a => o_arr a (e_tracked h) ++ o_grad (grad_of s h)
                       | None => []
                       end) (model_params s).

  (** every instruction appends exactly one slot to the pool, so variable [i] is the
      result of instruction [i] *)
  Definition step (s0 : state) (i : instr) : option (state * obs) :=
    let s := with_tag s0 (length (st_pool s0)) in
    match i with
    | ILeaf d v t =>
      a <- mk d v ;;
      let '(s1, h) := alloc s a [] None None in
      Some (push s1 (Some (mkh (e_node h) t t)), o_arr a t)
    | IZeros d =>
      a <- zeros O d ;;
      let '(s1, h) := alloc s a [] None None in
      Some (push s1 (Some h), o_arr a false)
    | IFromFlat v =>
      a <- from_flat v ;;
      let '(s1, h) := alloc s a [] None None in
      Some (push s1 (Some h), o_arr a false)
    | IFromArrays hs =>
      args <- mapM (fun i => h <- var s i ;; h_arr s h) hs ;;
      a <- from_arrays args ;;
      let '(s1, h) := alloc s a [] None None in
      Some (push s1 (Some h), o_arr a false)
    | IOp k args =>
      hs <- mapM (var s) args ;;
      r <- apply_op s k hs ;;
      let '(s1, h) := r in
      a <- h_arr s1 h ;;
      Some (push s1 (Some h), o_arr a (e_tracked h))
    | IClone h =>
      x <- var s h ;;
      Some (push s (Some x), o_unit)
    | IDrop h =>
      _ <- var s h ;;
      s1 <- set_var s h None ;;
      Some (push s1 None, o_unit)
    | ITracked h =>
      x <- var s h ;;
      s1 <- set_var s h (Some (mkh (e_node x) true true)) ;;
      Some (push s1 None, o_unit)
    | IUntracked h =>
      x <- var s h ;;
      s1 <- set_var s h (Some (mkh (e_node x) false false)) ;;
      Some (push s1 None, o_unit)
    | IStart h =>
      x <- var s h ;;
      s1 <- set_var s h (Some (mkh (e_node x) true (e_keep x))) ;;
      Some (push s1 None, o_bool (e_tracked x))
    | IStop h =>
      x <- var s h ;;
      s1 <- set_var s h (Some (mkh (e_node x) false (e_keep x))) ;;
      Some (push s1 None, o_bool (e_tracked x))
    | IBackward h seed =>
      x <- var s h ;;
      sd <- match seed with
            | Some (d, v) => a <- mk d v ;; Some (Some a)
            | None => Some None
            end ;;
      r <- run_backward E (st_nodes s) (e_node x) (e_keep x) sd ;;
      let s1 := with_nodes s (fst r) in
      Some (push s1 None, o_log s1 (snd r))
    | IGrad h =>
      x <- var s h ;;
      Some (push s None, o_grad (grad_of s x))
    | IClearGrad h =>
      x <- var s h ;;
      s1 <- clear_grad s x ;;
      Some (push s1 None, o_grad (grad_of s x))
    | IFetchGrad h =>
      x <- var s h ;;
      match grad_of s x with
      | None => Some (push s None, o_grad None)
      | Some g =>
        let '(s1, hg) := alloc s g [] None None in
        Some (push s1 (Some hg), o_grad (Some g))
      end
    | ITakeVec h =>
      x <- var s h ;;
      a <- h_arr s x ;;
      check (strong_count s (buf_of (st_nodes s) (e_node x)) =? 1) ;;
      s1 <- set_var s h None ;;
      Some (push s1 None, [(7, [], vals a)])
    | IIndex h idx =>
      x <- var s h ;;
      a <- h_arr s x ;;
      v <- index_multi a idx ;;
      Some (push s None, o_val v)
    | IIndexFlat h i =>
      x <- var s h ;;
      a <- h_arr s x ;;
      v <- index_flat a i ;;
      Some (push s None, o_val v)
    | IEq h1 h2 =>
      x <- var s h1 ;;
      y <- var s h2 ;;
      a <- h_arr s x ;;
      b <- h_arr s y ;;
      Some (push s None, o_bool (arr_eqb O a b))
    | IObs h =>
      x <- var s h ;;
      a <- h_arr s x ;;
      Some (push s None, o_arr a (e_tracked x) ++ o_grad (grad_of s x))
    | ISumAll h =>
      x <- var s h ;;
      a <- h_arr s x ;;
      Some (push s None, o_val (a_sum_all O a))
    | IUpdate lr hs =>
      params <- mapM (var s) hs ;;
      r <- gd_update s lr params ;;
      let '(s1, out) := r in
      s2 <- fold_left (fun (acc : option state) (p : nat * handle) =>
                         st <- acc ;; set_var st (fst p) (Some (snd p)))
                      (combine hs out) (Some s1) ;;
      Some (push s2 None, o_unit)
    | IModel ls c lr =>
      r <- fold_left (fun (acc : option (state * list layer)) (l : layer_spec) =>
                                   st <- acc ;;
                                   let '(s', out) := st in
                                   r <- make_layer s' l ;;
                                   let '(s'', ly) := r in Some (s'', out ++ [ly]))
                     ls (Some (s, [])) ;;
      let '(s1, layers) := r in
      Some (push (with_config (with_layers s1 layers) c lr) None, o_unit)
    | IForward h =>
      x <- var s h ;;
      r <- model_forward s x ;;
      let '(s1, out) := r in
      a <- h_arr s1 out ;;
      Some (push s1 (Some out), o_arr a (e_tracked out))
    | IModelBackward h =>
      x <- var s h ;;
      r <- model_backward s x ;;
      let '(s1, loss) := r in
      Some (push s1 None, o_val loss)
    | IModelUpdate =>
      s1 <- model_update s ;;
      Some (push s1 None, o_unit)
    | IParams => Some (push s None, o_params s)
    end.

  (** observations up to the first panic, and whether the program panicked *)
  Fixpoint run_from (s : state) (p : list instr) : list obs * bool :=
    match p with
    | [] => ([], false)
    | i :: p' =>
      match step s i with
      | None => ([], true)
      | Some (s', o) => let '(os, b) := run_from s' p' in (o :: os, b)
      end
    end.

  Definition run (p : list instr) : list obs * bool := run_from init_state p.
End Program.
