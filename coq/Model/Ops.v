(** Backward closures as data.

    Each closure that corgi attaches to a result ([BackwardOp]) is a
    constructor of [bop_code] carrying exactly what the Rust closure captures;
    [run_bop] is the closure body.  Arguments as in Rust: the children
    arrays, the saved tracking flags, the output adjoint. *)

From Coq Require Import List Arith Bool.
From Corgi Require Import Lib.OptionMonad Model.Scalar Model.Arr Model.SlicedOp
     Model.Elementwise Model.Linalg Model.Image.
Import ListNotations.

Section Ops.
  Context {F : Type} (O : ScalarOps F).

  (** user-defined operations of the harness library (supplied through [Array::op]) *)
  Inductive custom_op := CMul | CAff | CSq.

  Inductive bop_code :=
  | BAdd | BMul | BDiv | BNeg
  | BScale (s : F)
  | BRecip
  | BPowf (e : F)
  | BLn
  | BExp (cached : list F)
  | BSum (k : nat) (target : list nat)
  | BReshape
  | BMatmul (ta tb : bool)
  | BUnroll (depth rows cols sr sc fr fc : nat)
  | BExpand (fcount stride : nat)
  | BRelu
  | BSigmoid (cached : list F)
  | BCustom (c : custom_op).

  Definition two : F := fadd O (f1 O) (f1 O).

  Definition when (b : bool) (x : option (arr F)) : option (option (arr F)) :=
    if b then (r <- x ;; Some (Some r)) else Some None.

  Definition flag (t : list bool) (i : nat) : bool := nth i t false.

  (** [mul_values]: zip, truncating to the shorter *)
  Definition mul_values (a b : list F) : list F :=
    map (fun p => fmul O (fst p) (snd p)) (combine a b).

  (** closure of sum's derivative: out[..] = arrays[0][0] *)
  Definition fill_sop : @sop F :=
    fun cur slices =>
      match slices with
      | [s] => x <- nth_error s 0 ;; Some (map (fun _ => x) cur)
      | _ => None
      end.

  (** custom forward functions (same-dimension element-wise, as in the README example) *)
  Definition zip_vals (f : F -> F -> F) (a b : arr F) : option (arr F) :=
    mk (dims a) (map (fun p => f (fst p) (snd p)) (combine (vals a) (vals b))).

  Definition custom_forward (c : custom_op) (args : list (arr F)) : option (arr F) :=
    match c, args with
    | CMul, [a; b] => zip_vals (fmul O) a b
    | CAff, [a; b] => zip_vals (fun x y => fadd O x (fmul O two y)) a b
    | CSq, [a] => zip_vals (fmul O) a a
    | _, _ => None
    end.

  Definition run_bop (code : bop_code) (c : list (arr F)) (t : list bool) (x : arr F)
    : option (list (option (arr F))) :=
    match code, c with
    | BAdd, [_; _] => Some [if flag t 0 then Some x else None; if flag t 1 then Some x else None]
    | BMul, [c0; c1] =>
      d0 <- when (flag t 0) (a_mul O c1 x) ;;
      d1 <- when (flag t 1) (a_mul O c0 x) ;;
      Some [d0; d1]
    | BDiv, [c0; c1] =>
      d0 <- when (flag t 0) (a_div O x c1) ;;
      d1 <- when (flag t 1)
               (n <- a_neg O c0 ;; p <- a_powf O two c1 ;; q <- a_div O n p ;; a_mul O q x) ;;
      Some [d0; d1]
    | BNeg, [_] => r <- a_neg O x ;; Some [Some r]
    | BScale s, [_] => r <- a_scale O s x ;; Some [Some r]
    | BRecip, [c0] =>
      r <- a_reciprocal O c0 ;; p <- a_powf O two r ;; n <- a_neg O p ;; d <- a_mul O n x ;;
      Some [Some d]
    | BPowf e, [c0] =>
      p <- a_powf O (fsub O e (f1 O)) c0 ;; s <- a_scale O e p ;; d <- a_mul O s x ;;
      Some [Some d]
    | BLn, [c0] => r <- a_reciprocal O c0 ;; d <- a_mul O x r ;; Some [Some d]
    | BExp cached, [c0] => d <- mk (dims c0) (mul_values (vals x) cached) ;; Some [Some d]
    | BSum k target, [c0] =>
      x' <- a_reshape target x ;;
      d <- sliced_op O [x'] fill_sop target (dims c0) k 0 ;;
      Some [Some d]
    | BReshape, [c0] => d <- when (flag t 0) (a_reshape (dims c0) x) ;; Some [d]
    | BMatmul ta tb, [c0; c1; _] =>
      (* the dot product of two vectors scales each by the (single) delta *)
      let is_dot := (length (dims c0) <? 2) && (length (dims c1) <? 2) && negb ta && negb tb in
      d0 <- when (flag t 0)
               (if is_dot then a_mul O c1 x
                else if ta then a_matmul O c1 tb x true None
                else a_matmul O x false c1 (negb tb) None) ;;
      d1 <- when (flag t 1)
               (if is_dot then a_mul O c0 x
                else if tb then a_matmul O x true c0 ta None
                else a_matmul O c0 (negb ta) x false None) ;;
      Some [d0; d1; if flag t 2 then Some x else None]
    | BUnroll depth rows cols sr sc fr fc, [_] =>
      d <- when (flag t 0) (roll_blocks O true x depth rows cols sr sc fr fc) ;;
      Some [d]
    | BExpand fcount stride, [c0] =>
      (* result[offset + k + fcount*i] = x[delta_index++] : the inverse permutation *)
      let n := prod (dims c0) in
      let image_length := stride * fcount in
      check (1 <=? image_length) ;;
      let images := (n + image_length - 1) / image_length in
      vals' <- fold_left
                 (fun acc di =>
                    out <- acc ;;
                    v <- nth_error (vals x) di ;;
                    set_nth (expand_index fcount stride di) v out)
                 (seq 0 (images * image_length)) (Some (repeat (f0 O) n)) ;;
      d <- mk (dims c0) vals' ;;
      Some [Some d]
    | BRelu, [c0] =>
      der <- map_arr (fun v => if fgt0 O v then f1 O else f0 O) c0 ;;
      d <- a_mul O der x ;;
      Some [Some d]
    | BSigmoid cached, [c0] =>
      d <- mk (dims c0)
              (mul_values (map (fun v => fmul O v (fsub O (f1 O) v)) cached) (vals x)) ;;
      Some [Some d]
    | BCustom CMul, [c0; c1] =>
      d0 <- when (flag t 0) (zip_vals (fmul O) c1 x) ;;
      d1 <- when (flag t 1) (zip_vals (fmul O) c0 x) ;;
      Some [d0; d1]
    | BCustom CAff, [_; _] =>
      d1 <- when (flag t 1) (a_scale O two x) ;;
      Some [if flag t 0 then Some x else None; d1]
    | BCustom CSq, [c0] =>
      d <- when (flag t 0) (s <- a_scale O two c0 ;; zip_vals (fmul O) s x) ;;
      Some [d]
    | _, _ => None
    end.
End Ops.

Arguments bop_code : clear implicits.
