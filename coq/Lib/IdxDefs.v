(** Definitions of the mixed-radix index arithmetic used by the model of [sliced_op]
    (no proofs here; the lemmas are in Lib/Idx.v). *)

From Coq Require Import List Arith Bool.
Import ListNotations.

(** little-endian digits of [n] in the mixed radix [ds] (least significant first) *)
Fixpoint unrank_le (ds : list nat) (n : nat) : list nat :=
  match ds with
  | [] => []
  | d :: ds' => n mod d :: unrank_le ds' (n / d)
  end.

(** big-endian multi-index of flat position [n] under dimensions [d] *)
Definition unrank (d : list nat) (n : nat) : list nat := rev (unrank_le (rev d) n).

(** the carry loop of [sliced_op], on least-significant-first lists *)
Fixpoint incr_le (idx ds : list nat) : list nat :=
  match idx, ds with
  | x :: xs, d :: ds' => if x =? d - 1 then 0 :: incr_le xs ds' else S x :: xs
  | _, _ => idx
  end.

(** stepping the big-endian counter *)
Definition incr_be (idx ds : list nat) : list nat := rev (incr_le (rev idx) (rev ds)).

(** plain Horner over big-endian digits *)
Definition horner (idx ds : list nat) : nat :=
  fold_left (fun acc p => acc * snd p + fst p) (combine idx ds) 0.

(** Horner with unit dimensions contributing nothing: the broadcast offset
    [fold(acc * d + if d == 1 { 0 } else { i })] *)
Definition choose (i d : nat) : nat := if d =? 1 then 0 else i.

Definition clamp_horner (idx ds : list nat) : nat :=
  fold_left (fun acc p => acc * snd p + choose (fst p) (snd p)) (combine idx ds) 0.
