(** Shared algebra vocabulary: commutative-ring scalars and finite sums ([vsum], the
    left fold of [fadd] from [f0], Model/Elementwise.v). *)

From Coq Require Import List Arith Lia Permutation Ring_theory Ring.
From Corgi Require Import Lib.OptionMonad Model.Scalar Model.Elementwise.
Import ListNotations.

(** the scalar operations form a commutative ring (for Leibniz equality) *)
Definition is_cring {F} (O : ScalarOps F) : Prop :=
  ring_theory (f0 O) (f1 O) (fadd O) (fmul O) (fsub O) (fneg O) (@eq F).

Lemma seq_shift_map : forall s n, seq s n = map (fun y => s + y) (seq 0 n).
Proof.
  intros s n. revert s. induction n as [|n IH]; intros s; [reflexivity|].
  cbn [seq map]. rewrite Nat.add_0_r. f_equal.
  rewrite (IH (S s)), (IH 1), map_map. apply map_ext. intros y. lia.
Qed.

Section Sums.
  Context {F : Type} (O : ScalarOps F) (R : is_cring O).

  Let Rth : ring_theory (f0 O) (f1 O) (fadd O) (fmul O) (fsub O) (fneg O) (@eq F) := R.
  Add Ring cring_ring : Rth.

  Local Notation "0" := (f0 O).
  Local Notation "x + y" := (fadd O x y).
  Local Notation "x * y" := (fmul O x y).

  (** ** ring identities used by clients *)

  Lemma cr_add_0_l : forall x, 0 + x = x.            Proof. intros; ring. Qed.
  Lemma cr_add_0_r : forall x, x + 0 = x.            Proof. intros; ring. Qed.
  Lemma cr_add_comm : forall x y, x + y = y + x.     Proof. intros; ring. Qed.
  Lemma cr_add_assoc : forall x y z, x + (y + z) = (x + y) + z. Proof. intros; ring. Qed.
  Lemma cr_mul_0_l : forall x, 0 * x = 0.            Proof. intros; ring. Qed.
  Lemma cr_mul_0_r : forall x, x * 0 = 0.            Proof. intros; ring. Qed.
  Lemma cr_mul_1_l : forall x, f1 O * x = x.         Proof. intros; ring. Qed.
  Lemma cr_mul_1_r : forall x, x * f1 O = x.         Proof. intros; ring. Qed.
  Lemma cr_mul_comm : forall x y, x * y = y * x.     Proof. intros; ring. Qed.
  Lemma cr_mul_assoc : forall x y z, x * (y * z) = (x * y) * z. Proof. intros; ring. Qed.
  Lemma cr_distr_l : forall x y z, (x + y) * z = x * z + y * z. Proof. intros; ring. Qed.
  Lemma cr_distr_r : forall x y z, x * (y + z) = x * y + x * z. Proof. intros; ring. Qed.
  Lemma cr_sub_def : forall x y, fsub O x y = x + fneg O y.     Proof. intros; ring. Qed.
  Lemma cr_opp_def : forall x, x + fneg O x = 0.     Proof. intros; ring. Qed.
  Lemma cr_mul_m1 : forall x, x * fneg O (f1 O) = fneg O x.     Proof. intros; ring. Qed.

  (** ** [vsum] *)

  Lemma fold_fadd_acc : forall l acc, fold_left (fadd O) l acc = acc + vsum O l.
  Proof.
    unfold vsum. induction l as [|x l IH]; intros acc; cbn [fold_left].
    - ring.
    - rewrite (IH (acc + x)), (IH (0 + x)). ring.
  Qed.

  Lemma vsum_nil : vsum O [] = 0.
  Proof. reflexivity. Qed.

  Lemma vsum_cons : forall x l, vsum O (x :: l) = x + vsum O l.
  Proof.
    intros x l. unfold vsum at 1. cbn [fold_left]. rewrite fold_fadd_acc. ring.
  Qed.

  Lemma vsum_single : forall x, vsum O [x] = x.
  Proof. intros x. rewrite vsum_cons, vsum_nil. ring. Qed.

  Lemma vsum_app : forall l1 l2, vsum O (l1 ++ l2) = vsum O l1 + vsum O l2.
  Proof.
    induction l1 as [|x l1 IH]; intros l2; cbn [app].
    - rewrite vsum_nil. ring.
    - rewrite !vsum_cons, IH. ring.
  Qed.

  Lemma vsum_snoc : forall l x, vsum O (l ++ [x]) = vsum O l + x.
  Proof. intros. rewrite vsum_app, vsum_single. reflexivity. Qed.

  Lemma vsum_rev : forall l, vsum O (rev l) = vsum O l.
  Proof.
    induction l as [|x l IH]; [reflexivity|]. cbn [rev].
    rewrite vsum_snoc, vsum_cons, IH. ring.
  Qed.

  Lemma vsum_perm : forall l1 l2, Permutation l1 l2 -> vsum O l1 = vsum O l2.
  Proof.
    intros l1 l2 H. induction H as [|x l l' H IH|x y l|l l' l'' H1 IH1 H2 IH2].
    - reflexivity.
    - rewrite !vsum_cons, IH. reflexivity.
    - rewrite !vsum_cons. ring.
    - congruence.
  Qed.

  Lemma vsum_zeros : forall l, (forall x, In x l -> x = 0) -> vsum O l = 0.
  Proof.
    induction l as [|x l IH]; intros H; [reflexivity|].
    rewrite vsum_cons, IH by (intros y Hy; apply H; right; exact Hy).
    rewrite (H x) by (left; reflexivity). ring.
  Qed.

  Lemma vsum_repeat_0 : forall n, vsum O (repeat 0 n) = 0.
  Proof. intros n. apply vsum_zeros. intros x Hx. apply repeat_spec in Hx. exact Hx. Qed.

  Lemma vsum_map_0 : forall {A} (l : list A), vsum O (map (fun _ => 0) l) = 0.
  Proof.
    intros A l. apply vsum_zeros. intros x Hx. apply in_map_iff in Hx.
    destruct Hx as (_ & E & _). symmetry. exact E.
  Qed.

  Lemma vsum_map_ext : forall {A} (f g : A -> F) l,
      (forall x, In x l -> f x = g x) -> vsum O (map f l) = vsum O (map g l).
  Proof. intros A f g l H. f_equal. apply map_ext_in. exact H. Qed.

  Lemma vsum_map_add : forall {A} (f g : A -> F) l,
      vsum O (map (fun p => f p + g p) l) = vsum O (map f l) + vsum O (map g l).
  Proof.
    intros A f g l. induction l as [|p l IH]; cbn [map].
    - rewrite vsum_nil. ring.
    - rewrite !vsum_cons, IH. ring.
  Qed.

  Lemma vsum_map_mul_l : forall c l, vsum O (map (fun x => c * x) l) = c * vsum O l.
  Proof.
    intros c l. induction l as [|x l IH]; cbn [map].
    - rewrite vsum_nil. ring.
    - rewrite !vsum_cons, IH. ring.
  Qed.

  Lemma vsum_map_mul_r : forall c l, vsum O (map (fun x => x * c) l) = vsum O l * c.
  Proof.
    intros c l. induction l as [|x l IH]; cbn [map].
    - rewrite vsum_nil. ring.
    - rewrite !vsum_cons, IH. ring.
  Qed.

  (** scaling, over an index list *)
  Lemma vsum_map_scale_l : forall {A} c (f : A -> F) l,
      vsum O (map (fun p => c * f p) l) = c * vsum O (map f l).
  Proof. intros A c f l. rewrite <- vsum_map_mul_l, map_map. reflexivity. Qed.

  Lemma vsum_map_scale_r : forall {A} c (f : A -> F) l,
      vsum O (map (fun p => f p * c) l) = vsum O (map f l) * c.
  Proof. intros A c f l. rewrite <- vsum_map_mul_r, map_map. reflexivity. Qed.

  Lemma vsum_map_neg : forall l, vsum O (map (fneg O) l) = fneg O (vsum O l).
  Proof.
    induction l as [|x l IH]; cbn [map].
    - rewrite vsum_nil. ring.
    - rewrite !vsum_cons, IH. ring.
  Qed.

  Lemma vsum_concat : forall ls, vsum O (concat ls) = vsum O (map (vsum O) ls).
  Proof.
    induction ls as [|l ls IH]; cbn [concat map]; [reflexivity|].
    rewrite vsum_app, vsum_cons, IH. reflexivity.
  Qed.

  Lemma vsum_flat_map : forall {A} (f : A -> list F) l,
      vsum O (flat_map f l) = vsum O (map (fun x => vsum O (f x)) l).
  Proof. intros A f l. rewrite flat_map_concat_map, vsum_concat, map_map. reflexivity. Qed.

  (** exchange of two nested sums *)
  Lemma vsum_exchange : forall {A B} (h : A -> B -> F) (is_ : list A) (js : list B),
      vsum O (map (fun i => vsum O (map (fun j => h i j) js)) is_)
      = vsum O (map (fun j => vsum O (map (fun i => h i j) is_)) js).
  Proof.
    intros A B h is_ js. induction is_ as [|i is_ IH]; cbn [map].
    - rewrite vsum_nil. symmetry. apply vsum_map_0.
    - rewrite vsum_cons, IH. rewrite <- vsum_map_add.
      apply vsum_map_ext. intros j _. rewrite vsum_cons. reflexivity.
  Qed.

  (** splitting a sum by a predicate *)
  Lemma vsum_filter_split : forall {A} (p : A -> bool) (f : A -> F) l,
      vsum O (map f l)
      = vsum O (map f (filter p l)) + vsum O (map f (filter (fun x => negb (p x)) l)).
  Proof.
    intros A p f l. induction l as [|x l IH]; cbn [map filter].
    - rewrite vsum_nil. ring.
    - rewrite vsum_cons, IH. destruct (p x); cbn [negb map]; rewrite vsum_cons; ring.
  Qed.

  (** ** indicator sums *)

  (** a sum over a filtered list is the sum of the indicator-weighted terms *)
  Lemma vsum_filter_ind : forall {A} (p : A -> bool) (f : A -> F) l,
      vsum O (map f (filter p l)) = vsum O (map (fun x => if p x then f x else 0) l).
  Proof.
    intros A p f l. induction l as [|x l IH]; cbn [map filter]; [reflexivity|].
    destruct (p x); cbn [map]; rewrite !vsum_cons, IH; ring.
  Qed.

  Lemma vsum_ind_false : forall {A} (p : A -> bool) (f : A -> F) l,
      (forall x, In x l -> p x = false) ->
      vsum O (map (fun x => if p x then f x else 0) l) = 0.
  Proof.
    intros A p f l H. apply vsum_zeros. intros y Hy. apply in_map_iff in Hy.
    destruct Hy as (x & <- & Hx). rewrite (H x Hx). reflexivity.
  Qed.

  (** pulling an indicator into a sum *)
  Lemma vsum_ind_in : forall {A} (c : bool) (f : A -> F) l,
      (if c then vsum O (map f l) else 0) = vsum O (map (fun x => if c then f x else 0) l).
  Proof. intros A c f l. destruct c; [reflexivity|]. symmetry. apply vsum_map_0. Qed.

  (** the left fold that adds the selected terms to an accumulator *)
  Lemma fold_acc_ind : forall {A} (p : A -> bool) (f : A -> F) l init,
      fold_left (fun acc i => if p i then acc + f i else acc) l init
      = init + vsum O (map (fun i => if p i then f i else 0) l).
  Proof.
    intros A p f l. induction l as [|i l IH]; intros init; cbn [fold_left map].
    - rewrite vsum_nil. ring.
    - rewrite IH, vsum_cons. destruct (p i); ring.
  Qed.

  (** Kronecker delta *)
  Lemma vsum_delta_seq : forall (v : nat -> F) k n,
      k < n -> vsum O (map (fun o => if k =? o then v o else 0) (seq 0 n)) = v k.
  Proof.
    intros v k n. induction n as [|n IH]; intros Hk; [lia|].
    rewrite seq_S, map_app, vsum_app. cbn [Nat.add map]. rewrite vsum_single.
    destruct (Nat.eq_dec k n) as [->|Hne].
    - rewrite Nat.eqb_refl. rewrite vsum_ind_false; [ring|].
      intros x Hx. apply in_seq in Hx. apply Nat.eqb_neq. lia.
    - rewrite IH by lia. replace (k =? n) with false by (symmetry; apply Nat.eqb_neq; exact Hne).
      ring.
  Qed.

  (** summing fibre by fibre: [sum_j [p (g j)] f j = sum_{o < P} [p o] sum_j [g j = o] f j] *)
  Lemma vsum_fiber : forall {A} (g : A -> nat) (p : nat -> bool) (f : A -> F) P l,
      (forall j, In j l -> g j < P) ->
      vsum O (map (fun j => if p (g j) then f j else 0) l)
      = vsum O (map (fun o => if p o
                              then vsum O (map (fun j => if g j =? o then f j else 0) l)
                              else 0) (seq 0 P)).
  Proof.
    intros A g p f P l Hg.
    transitivity (vsum O (map (fun o => vsum O (map (fun j => if p o then (if g j =? o then f j else 0) else 0) l)) (seq 0 P))).
    2:{ apply vsum_map_ext. intros o _. symmetry. apply vsum_ind_in. }
    rewrite vsum_exchange. f_equal. apply map_ext_in. intros j Hj.
    rewrite <- (vsum_delta_seq (fun o => if p o then f j else 0) (g j) P (Hg j Hj)).
    f_equal. apply map_ext. intros o. destruct (p o), (g j =? o); reflexivity.
  Qed.

  (** a sum over [A * B] consecutive positions, row by row *)
  Lemma vsum_seq_mul : forall (f : nat -> F) (A B : nat),
      vsum O (map f (seq 0 (Nat.mul A B)))
      = vsum O (map (fun i => vsum O (map (fun y => f (Nat.add (Nat.mul B i) y)) (seq 0 B)))
                    (seq 0 A)).
  Proof.
    intros f A B. induction A as [|A IH]; [reflexivity|].
    replace (Nat.mul (S A) B) with (Nat.add (Nat.mul A B) B) by lia.
    rewrite seq_app, map_app, vsum_app, IH. rewrite seq_S, map_app, vsum_app.
    cbn [Nat.add map]. rewrite vsum_single. f_equal. f_equal.
    rewrite (seq_shift_map (Nat.mul A B) B), map_map. apply map_ext. intros y. f_equal. lia.
  Qed.
End Sums.
