(** Option monad and checked list access.  [None] is the single "panicked" outcome. *)

From Coq Require Import List Arith.
Import ListNotations.

Definition obind {A B} (x : option A) (f : A -> option B) : option B :=
  match x with Some a => f a | None => None end.

Notation "x <- e ;; k" := (obind e (fun x => k))
  (at level 61, e at next level, right associativity).

Definition guard (b : bool) : option unit := if b then Some tt else None.

Notation "'check' b ;; k" := (obind (guard b) (fun _ => k))
  (at level 61, b at next level, right associativity).

Fixpoint mapM {A B} (f : A -> option B) (l : list A) : option (list B) :=
  match l with
  | [] => Some []
  | x :: xs => y <- f x ;; ys <- mapM f xs ;; Some (y :: ys)
  end.

(** [slice off len l]: Rust [&l[off .. off+len]], panicking when out of bounds. *)
Definition slice {A} (off len : nat) (l : list A) : option (list A) :=
  if off + len <=? length l then Some (firstn len (skipn off l)) else None.

(** [splice off new l]: overwrite [l[off .. off + length new]] (caller has checked the bounds). *)
Definition splice {A} (off : nat) (new l : list A) : list A :=
  firstn off l ++ new ++ skipn (off + length new) l.

(** Write one element, panicking when out of bounds. *)
Definition set_nth {A} (i : nat) (x : A) (l : list A) : option (list A) :=
  if i <? length l then Some (firstn i l ++ x :: skipn (S i) l) else None.

Definition prod (l : list nat) : nat := fold_right Nat.mul 1 l.
