(** Mixed-radix index arithmetic: unranking, the carry counter, clamped (broadcast)
    Horner offsets. *)

From Coq Require Import List Arith Bool ZArith Lia ZifyNat.
From Corgi Require Import Lib.OptionMonad Lib.IdxDefs.
Import ListNotations.

Ltac Zify.zify_post_hook ::= Z.div_mod_to_equations.


Lemma unrank_le_length : forall ds n, length (unrank_le ds n) = length ds.
Proof. induction ds as [|d ds IH]; intros n; simpl; [reflexivity|]. rewrite IH. reflexivity. Qed.

Lemma unrank_length : forall d n, length (unrank d n) = length d.
Proof. intros. unfold unrank. rewrite rev_length, unrank_le_length, rev_length. reflexivity. Qed.

Lemma unrank_le_zero : forall ds, Forall (fun x => 1 <= x) ds -> unrank_le ds 0 = repeat 0 (length ds).
Proof.
  induction ds as [|d ds IH]; intros H; simpl; [reflexivity|].
  inversion H; subst.
  rewrite Nat.mod_0_l, Nat.div_0_l by lia. rewrite IH by assumption. reflexivity.
Qed.

Lemma rev_repeat : forall {A} (x : A) n, rev (repeat x n) = repeat x n.
Proof.
  intros A x n. induction n as [|n IH]; simpl; [reflexivity|].
  rewrite IH. clear IH. induction n as [|n IH]; simpl; [reflexivity|]. rewrite IH. reflexivity.
Qed.

Lemma Forall_rev : forall {A} (P : A -> Prop) l, Forall P l -> Forall P (rev l).
Proof.
  intros A P l H. apply Forall_forall. intros x Hx. apply in_rev in Hx.
  rewrite Forall_forall in H. auto.
Qed.

Lemma unrank_zero : forall d, Forall (fun x => 1 <= x) d -> unrank d 0 = repeat 0 (length d).
Proof.
  intros d H. unfold unrank. rewrite unrank_le_zero by (apply Forall_rev; exact H).
  rewrite rev_repeat, rev_length. reflexivity.
Qed.


Lemma succ_divmod_carry : forall d n,
    1 <= d -> n mod d = d - 1 -> S n mod d = 0 /\ S n / d = S (n / d).
Proof.
  intros d n Hd E. pose proof (Nat.div_mod n d ltac:(lia)) as H.
  assert (H2 : S n = d * S (n / d) + 0) by lia.
  split; symmetry.
  - apply (Nat.mod_unique (S n) d (S (n / d)) 0); [lia|exact H2].
  - apply (Nat.div_unique (S n) d (S (n / d)) 0); [lia|exact H2].
Qed.

Lemma succ_divmod_nocarry : forall d n,
    1 <= d -> n mod d <> d - 1 -> S n mod d = S (n mod d) /\ S n / d = n / d.
Proof.
  intros d n Hd E. pose proof (Nat.div_mod n d ltac:(lia)) as H.
  pose proof (Nat.mod_upper_bound n d ltac:(lia)) as Hlt.
  assert (H2 : S n = d * (n / d) + S (n mod d)) by lia.
  split; symmetry.
  - apply (Nat.mod_unique (S n) d (n / d) (S (n mod d))); [lia|exact H2].
  - apply (Nat.div_unique (S n) d (n / d) (S (n mod d))); [lia|exact H2].
Qed.

(** the carry counter enumerates [unrank_le] *)
Lemma incr_le_unrank : forall ds n,
    Forall (fun x => 1 <= x) ds ->
    incr_le (unrank_le ds n) ds = unrank_le ds (S n).
Proof.
  induction ds as [|d ds IH]; intros n H; simpl; [reflexivity|].
  inversion H as [|? ? Hd Hds]; subst.
  destruct (n mod d =? d - 1) eqn:E.
  - apply Nat.eqb_eq in E. rewrite IH by assumption.
    destruct (succ_divmod_carry d n Hd E) as [H1 H2]. congruence.
  - apply Nat.eqb_neq in E.
    destruct (succ_divmod_nocarry d n Hd E) as [H1 H2]. congruence.
Qed.

(** digits are in range *)
Lemma unrank_le_lt : forall ds n,
    Forall (fun x => 1 <= x) ds -> Forall2 lt (unrank_le ds n) ds.
Proof.
  induction ds as [|d ds IH]; intros n H; simpl; constructor.
  - inversion H; subst. apply Nat.mod_upper_bound. lia.
  - inversion H; subst. apply IH. assumption.
Qed.

Lemma Forall2_rev : forall {A B} (R : A -> B -> Prop) l1 l2,
    Forall2 R l1 l2 -> Forall2 R (rev l1) (rev l2).
Proof.
  intros A B R l1 l2 H. induction H; simpl; [constructor|].
  apply Forall2_app; [assumption|]. constructor; [assumption|constructor].
Qed.

Lemma unrank_lt : forall d n, Forall (fun x => 1 <= x) d -> Forall2 lt (unrank d n) d.
Proof.
  intros d n H. unfold unrank.
  rewrite <- (rev_involutive d) at 2. apply Forall2_rev. apply unrank_le_lt.
  apply Forall_rev. exact H.
Qed.

(** ** Horner evaluation *)


Lemma prod_app : forall a b, prod (a ++ b) = prod a * prod b.
Proof. induction a as [|x a IH]; intros b; simpl; [lia|]. rewrite IH. lia. Qed.

Lemma prod_rev : forall a, prod (rev a) = prod a.
Proof. induction a as [|x a IH]; simpl; [reflexivity|]. rewrite prod_app, IH. simpl. lia. Qed.

Lemma prod_pos : forall d, Forall (fun x => 1 <= x) d -> 1 <= prod d.
Proof. induction d as [|x d IH]; intros H; simpl; [lia|]. inversion H; subst. specialize (IH H3). nia. Qed.

Lemma fold_horner_app : forall (f : nat -> nat * nat -> nat) l1 l2 acc,
    fold_left f (l1 ++ l2) acc = fold_left f l2 (fold_left f l1 acc).
Proof. intros. apply fold_left_app. Qed.

(** value of little-endian digits *)
Fixpoint value_le (idx ds : list nat) : nat :=
  match idx, ds with
  | x :: xs, d :: ds' => x + d * value_le xs ds'
  | _, _ => 0
  end.

Lemma value_le_unrank : forall ds n,
    Forall (fun x => 1 <= x) ds -> value_le (unrank_le ds n) ds = n mod prod ds.
Proof.
  induction ds as [|d ds IH]; intros n H.
  - unfold prod. cbn [unrank_le value_le fold_right]. symmetry. apply Nat.mod_1_r.
  - cbn [unrank_le value_le]. change (prod (d :: ds)) with (d * prod ds).
    inversion H as [|? ? Hd Hds]; subst. rewrite IH by assumption.
    pose proof (prod_pos ds Hds) as Hp.
    rewrite Nat.mod_mul_r by lia. lia.
Qed.

Lemma combine_app_eq : forall {A B} (a1 a2 : list A) (b1 b2 : list B),
    length a1 = length b1 ->
    combine (a1 ++ a2) (b1 ++ b2) = combine a1 b1 ++ combine a2 b2.
Proof.
  intros A B a1. induction a1 as [|x a1 IH]; intros a2 b1 b2 H; destruct b1; simpl in *;
    try discriminate; [reflexivity|]. f_equal. apply IH. lia.
Qed.

Lemma horner_rev : forall idx ds,
    length idx = length ds ->
    horner (rev idx) (rev ds) = value_le idx ds.
Proof.
  unfold horner. induction idx as [|x xs IH]; intros [|d ds] H; simpl in *; try discriminate;
    [reflexivity|].
  rewrite combine_app_eq by (rewrite !rev_length; lia).
  rewrite fold_left_app. simpl. rewrite IH by lia. lia.
Qed.

(** [horner] inverts [unrank] *)
Lemma horner_unrank : forall d n,
    Forall (fun x => 1 <= x) d -> n < prod d -> horner (unrank d n) d = n.
Proof.
  intros d n H Hn. unfold unrank.
  rewrite <- (rev_involutive d) at 2.
  rewrite horner_rev by (rewrite unrank_le_length; reflexivity).
  rewrite value_le_unrank by (apply Forall_rev; exact H).
  rewrite prod_rev. apply Nat.mod_small. exact Hn.
Qed.

(** on in-range digits, clamping only matters on unit dimensions where the digit is 0 *)
Lemma clamp_horner_in_range : forall idx ds,
    Forall2 lt idx ds -> clamp_horner idx ds = horner idx ds.
Proof.
  intros idx ds H. unfold clamp_horner, horner. generalize 0 as acc.
  induction H as [|i d is_ ds' Hlt H IH]; intros acc; simpl; [reflexivity|].
  unfold choose at 2. destruct (d =? 1) eqn:E.
  - apply Nat.eqb_eq in E. subst. assert (i = 0) by lia. subst. apply IH.
  - apply IH.
Qed.


Lemma incr_be_unrank : forall d n,
    Forall (fun x => 1 <= x) d -> incr_be (unrank d n) d = unrank d (S n).
Proof.
  intros d n H. unfold incr_be, unrank. rewrite rev_involutive.
  rewrite incr_le_unrank by (apply Forall_rev; exact H). reflexivity.
Qed.

(** splitting a flat position into leading part and last coordinate *)
Lemma unrank_snoc : forall d l n,
    1 <= l ->
    unrank (d ++ [l]) n = unrank d (n / l) ++ [n mod l].
Proof.
  intros d l n Hl. unfold unrank. rewrite rev_app_distr. simpl. reflexivity.
Qed.
