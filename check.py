#!/usr/bin/env python3
"""Orchestrator: ./check.py <property id> --tier quick|thorough [--replay file]

For one property:
  1. builds the property's Coq cone (theorems; full .vo build), checks hygiene and the
     Print Assumptions allow-list;
  2. builds the Rust harness against /repo's current working tree (dev profile,
     --cfg corgi_verif) and runs the property's generated programs through corgi;
  3. evaluates the same programs with the Coq model (vm_compute, sharded coqc runs);
  4. compares; a disagreement is a concrete failing input (the model is the proven
     specification) and is written out as a replay.
Exit 0 = held on everything explored; exit 1 + "VIOLATION property=<id> replay=<path>".
"""

import argparse
import concurrent.futures
import hashlib
import json
import os
import random
import re
import shutil
import subprocess
import sys
import time

ROOT = os.path.dirname(os.path.abspath(__file__))
sys.path.insert(0, os.path.join(ROOT, "gen"))

import dsl  # noqa: E402
import props  # noqa: E402

COQ = os.path.join(ROOT, "coq")
CACHE = os.path.join(ROOT, ".cache")
TARGET = os.path.join(CACHE, "target")
REPLAYS = os.path.join(ROOT, "replays")
EVIDENCE = os.path.join(ROOT, "evidence")

ALLOWED_AXIOMS = {
    # axioms declared by Coq's standard library (Reals, classical logic, extensionality)
    "ClassicalDedekindReals.sig_forall_dec",
    "ClassicalDedekindReals.sig_not_dec",
    "FunctionalExtensionality.functional_extensionality_dep",
    "Classical_Prop.classic",
    "ClassicalEpsilon.constructive_indefinite_description",
    "Eqdep.Eq_rect_eq.eq_rect_eq",
    "PropExtensionality.propositional_extensionality",
    "ProofIrrelevance.proof_irrelevance",
}

HYGIENE = re.compile(
    r"\b(Admitted|admit|Axiom|Axioms|Parameter|Parameters|Conjecture|Abort All|"
    r"Unset Guard Checking|Unset Positivity Checking|Unset Universe Checking|bypass_check|"
    r"Admit Obligations|type-in-type|impredicative-set)\b")


def sh(cmd, **kw):
    return subprocess.run(cmd, stdout=subprocess.PIPE, stderr=subprocess.STDOUT, text=True, **kw)


# --------------------------------------------------------------------------------------
# Coq side

def strip_comments(src):
    out = []
    depth = 0
    i = 0
    while i < len(src):
        if src.startswith("(*", i):
            depth += 1
            i += 2
        elif src.startswith("*)", i) and depth > 0:
            depth -= 1
            i += 2
        else:
            if depth == 0:
                out.append(src[i])
            i += 1
    return "".join(out)


def outside_section_declarations(src):
    """Variable / Hypothesis / Context declarations outside any Section (they would be axioms)"""
    depth = 0
    out = []
    for sentence in re.split(r"\.\s", src):
        t = sentence.strip()
        if re.match(r"(Section|Module Type)\s+\w+", t):
            depth += 1
        elif re.match(r"End\s+\w+", t) and depth > 0:
            depth -= 1
        elif re.match(r"Module\s+\w+\s*$", t):
            depth += 0
        elif depth == 0 and re.match(r"(Variable|Variables|Hypothesis|Hypotheses|Context)\b", t):
            out.append("declaration outside a section: " + t[:60])
    return out


def coq_cone(target_v):
    """Source files (relative to coq/) the target depends on, via coqdep."""
    seen = set()
    todo = [target_v]
    while todo:
        f = todo.pop()
        if f in seen:
            continue
        seen.add(f)
        r = sh(["coqdep", "-Q", ".", "Corgi", f], cwd=COQ)
        for m in re.finditer(r"(\S+)\.vo\b", r.stdout.split(":", 1)[1] if ":" in r.stdout else ""):
            v = m.group(1) + ".v"
            if os.path.exists(os.path.join(COQ, v)):
                todo.append(v)
    return sorted(seen)


def ensure_makefile():
    mk = os.path.join(COQ, "Makefile")
    cp = os.path.join(COQ, "_CoqProject")
    if not os.path.exists(mk) or os.path.getmtime(mk) < os.path.getmtime(cp):
        r = sh(["coq_makefile", "-f", "_CoqProject", "-o", "Makefile"], cwd=COQ)
        if r.returncode != 0:
            raise RuntimeError("coq_makefile failed:\n" + r.stdout)


def build_coq(prop, tier, report):
    """Builds every Props/<prop>*.v (always recompiling the Props files themselves so that the
    Print Assumptions output is fresh).  Fills report['coq']."""
    ensure_makefile()
    import glob
    targets = sorted(os.path.relpath(p, COQ) for p in glob.glob(os.path.join(COQ, "Props", prop + "*.v")))
    info = {"targets": targets, "ok": False}
    report["coq"] = info
    if not targets:
        info["error"] = "missing Props/%s.v" % prop
        return False
    cone = sorted(set(f for t in targets for f in coq_cone(t)))
    info["cone"] = cone
    # hygiene
    bad = []
    obligations = 0
    names = []
    for f in cone:
        src = strip_comments(open(os.path.join(COQ, f)).read())
        for m in HYGIENE.finditer(src):
            bad.append("%s: %s" % (f, m.group(0)))
        bad += ["%s: %s" % (f, x) for x in outside_section_declarations(src)]
        obligations += len(re.findall(r"\bQed\.", src))
        if f.startswith("Props/"):
            names += re.findall(r"^\s*Theorem\s+(\w+)", src, flags=re.M)
    info["hygiene_hits"] = bad
    info["obligations"] = obligations
    info["theorems"] = names
    vos = [t[:-2] + ".vo" for t in targets]
    if tier == "thorough":
        # rebuild the cone from clean
        for f in cone:
            for ext in (".vo", ".vos", ".vok", ".glob"):
                p = os.path.join(COQ, f[:-2] + ext)
                if os.path.exists(p):
                    os.remove(p)
    else:
        for v in vos:
            p = os.path.join(COQ, v)
            if os.path.exists(p):
                os.remove(p)
    t0 = time.time()
    r = sh(["timeout", "2400", "make", "-Otarget", "-j16"] + vos, cwd=COQ)
    info["make_s"] = round(time.time() - t0, 1)
    info["checker_cmd"] = "make -C coq -j16 %s  (coq_makefile, full .vo build, coqc 8.16.1)" % " ".join(vos)
    log = r.stdout
    os.makedirs(os.path.join(CACHE, "logs"), exist_ok=True)
    open(os.path.join(CACHE, "logs", "%s.make.log" % prop), "w").write(log)
    if r.returncode != 0:
        info["error"] = "make failed: " + log[-2000:]
        m = re.search(r'File "\./([^"]+)", line (\d+)', log)
        info["broken"] = "%s:%s" % (m.group(1), m.group(2)) if m else targets[0]
        return False
    # assumptions: the blocks printed by Print Assumptions ("Axioms:" followed by one entry per axiom; an
    # entry starts at column 0 with the qualified name, its type may continue on indented lines)
    axioms = set()
    in_block = False
    for line in log.splitlines():
        if line.strip() == "Axioms:":
            in_block = True
            continue
        if not in_block:
            continue
        if line[:1] in (" ", "\t") or not line.strip():
            continue
        m = re.match(r"^([A-Za-z_][\w.']*)(?: :.*)?$", line)
        if m and m.group(1) not in ("Closed", "COQC", "COQDEP", "File", "Warning"):
            # library axioms are printed with their qualified name; anything declared inside this development
            # (Axiom, Parameter, Admitted ...) is caught by the source scan above, so an unqualified stray line
            # of the build log cannot raise a false alarm here
            if "." in m.group(1):
                axioms.add(m.group(1))
        else:
            in_block = False
    closed = len(re.findall(r"Closed under the global context", log))
    info["axioms"] = sorted(axioms)
    info["closed_theorems"] = closed
    unknown = [a for a in axioms if a not in ALLOWED_AXIOMS]
    info["unknown_axioms"] = unknown
    if bad or unknown:
        info["error"] = "hygiene/axiom check failed: %s %s" % (bad, unknown)
        info["broken"] = targets[0]
        return False
    if tier == "thorough":
        t0 = time.time()
        mods = ["Corgi.Props.%s" % os.path.basename(t)[:-2] for t in targets]
        r = sh(["timeout", "2400", "coqchk", "-silent", "-o", "-Q", ".", "Corgi"] + mods, cwd=COQ)
        info["coqchk_s"] = round(time.time() - t0, 1)
        info["coqchk_ok"] = r.returncode == 0
        info["coqchk_tail"] = r.stdout[-1500:]
        if r.returncode != 0:
            info["error"] = "coqchk failed"
            info["broken"] = targets[0]
            return False
    info["ok"] = True
    return True


def build_model_vo():
    ensure_makefile()
    r = sh(["timeout", "1500", "make", "-j16", "Model/Program.vo", "Model/Probe.vo"], cwd=COQ)
    if r.returncode != 0:
        raise RuntimeError("model build failed:\n" + r.stdout[-3000:])


def _run_coq_shard(args):
    path, = args
    r = sh(["timeout", "1800", "coqc", "-noglob", "-w", "-all", "-Q", COQ, "Corgi", path])
    return path, r.returncode, r.stdout


def run_model(cases, workdir, shards=16, dual=False):
    """Evaluates the cases with the Coq model; returns one parsed result per case."""
    os.makedirs(workdir, exist_ok=True)
    n = len(cases)
    if n == 0:
        return []
    shards = max(1, min(shards, (n + 7) // 8))
    # interleave so that shards get similar work, but keep a mapping back
    buckets = [[] for _ in range(shards)]
    for i, c in enumerate(cases):
        buckets[i % shards].append(i)
    paths = []
    for k, idxs in enumerate(buckets):
        p = os.path.join(workdir, "%scases_%02d.v" % ("dual" if dual else "", k))
        open(p, "w").write(dsl.cases_to_coq([cases[i] for i in idxs], dual=dual))
        paths.append(p)
    results = [None] * n
    with concurrent.futures.ThreadPoolExecutor(max_workers=16) as ex:
        for (path, rc, out), idxs in zip(ex.map(_run_coq_shard, [(p,) for p in paths]), buckets):
            if rc != 0:
                raise RuntimeError("coqc failed on %s:\n%s" % (path, out[-3000:]))
            parsed = dsl.parse_coq(out, dual=dual)
            if len(parsed) != len(idxs):
                raise RuntimeError("coqc output of %s: %d results for %d cases" %
                                   (path, len(parsed), len(idxs)))
            for i, res in zip(idxs, parsed):
                results[i] = res
    for p in paths:
        for ext in (".v", ".vo", ".vok", ".vos"):
            q = p[:-2] + ext
            if os.path.exists(q):
                os.remove(q)
    return results


# --------------------------------------------------------------------------------------
# Rust side

def build_harness(f32=False):
    """Builds the harness against /repo's working tree (or, for experiments with scratch worktrees only,
    against $VERIF_REPO: a private copy of harness/ with the dependency path rewritten)."""
    repo = os.environ.get("VERIF_REPO", "/repo")
    hdir = os.path.join(ROOT, "harness")
    target = TARGET
    if repo != "/repo":
        tag = hashlib.sha1(repo.encode()).hexdigest()[:10]
        hdir = os.path.join(CACHE, "harness_alt_" + tag)
        target = os.path.join(CACHE, "target_alt_" + tag)
        shutil.rmtree(hdir, ignore_errors=True)
        shutil.copytree(os.path.join(ROOT, "harness"), hdir, ignore=shutil.ignore_patterns("target"))
        toml = open(os.path.join(hdir, "Cargo.toml")).read().replace('path = "/repo"', 'path = "%s"' % repo)
        open(os.path.join(hdir, "Cargo.toml"), "w").write(toml)
    env = dict(os.environ)
    env["CARGO_TARGET_DIR"] = target + ("_f32" if f32 else "")
    env["CARGO_NET_OFFLINE"] = "true"
    env["RUSTFLAGS"] = "--cfg corgi_verif"
    cmd = ["cargo", "build", "--offline", "--quiet"]
    if f32:
        cmd += ["--features", "f32"]
    r = sh(cmd, cwd=hdir, env=env)
    hook = True
    if r.returncode != 0:
        # fall back to a build without the hook (the tree may not compile with it)
        env["RUSTFLAGS"] = ""
        r2 = sh(cmd, cwd=hdir, env=env)
        if r2.returncode != 0:
            raise RuntimeError("harness build failed:\n" + r.stdout[-3000:])
        hook = False
    return os.path.join(env["CARGO_TARGET_DIR"], "debug", "corgi_harness"), hook


def _run_harness_once(binary, cases, workdir, tag, limit):
    p = os.path.join(workdir, "cases_%s.txt" % tag)
    open(p, "w").write(dsl.cases_to_text(cases))
    try:
        r = subprocess.run([binary, p], stdout=subprocess.PIPE, stderr=subprocess.PIPE, text=True,
                           timeout=limit)
        out, timed_out = r.stdout, False
        if r.returncode != 0:
            # the process died (abort, stack overflow, ...): the case after the last completed one did it
            timed_out = "crash"
    except subprocess.TimeoutExpired as e:
        out = e.stdout or ""
        if isinstance(out, bytes):
            out = out.decode("utf-8", "replace")
        timed_out = True
    os.remove(p)
    return out, timed_out


def _run_harness_chunk(args):
    binary, cases, workdir, tag, limit = args
    results = []
    rest = list(cases)
    rounds = 0
    while rest:
        out, timed_out = _run_harness_once(binary, rest, workdir, "%s_%d" % (tag, rounds), limit)
        rounds += 1
        done = out.count("\nend\n") + (1 if out.startswith("end\n") else 0)
        complete = out[:out.rfind("end\n") + 4] if "end\n" in out else ""
        res = dsl.parse_harness(complete)
        res = res[:done]
        results += res
        if not timed_out:
            if len(res) != len(rest):
                raise RuntimeError("harness produced %d results for %d cases" % (len(res), len(rest)))
            break
        # the case after the last completed one did not finish within the limit (or killed the process)
        if len(res) >= len(rest):
            raise RuntimeError("harness ended abnormally after its last case")
        results.append(["timeout" if timed_out is True else "crash"])
        rest = rest[len(res) + 1:]
    return results


def run_harness(binary, cases, workdir, limit=None):
    """Runs the cases through corgi, in 16 parallel chunks; a case that does not finish within the
    time limit of its chunk is reported as the observation 'timeout' and the chunk continues after it."""
    os.makedirs(workdir, exist_ok=True)
    if limit is None:
        limit = int(os.environ.get("VERIF_HARNESS_LIMIT", "90"))
    n = len(cases)
    if n == 0:
        return []
    k = max(1, min(16, n // 50 + 1))
    size = (n + k - 1) // k
    chunks = [cases[i:i + size] for i in range(0, n, size)]
    out = []
    with concurrent.futures.ThreadPoolExecutor(max_workers=16) as ex:
        for res in ex.map(_run_harness_chunk,
                          [(binary, ch, workdir, "h%02d" % j, limit) for j, ch in enumerate(chunks)]):
            out += res
    if len(out) != n:
        raise RuntimeError("harness produced %d results for %d cases" % (len(out), n))
    return out


# --------------------------------------------------------------------------------------

def load_known_findings():
    p = os.path.join(ROOT, "known_findings.jsonl")
    out = []
    if os.path.exists(p):
        for line in open(p):
            line = line.strip()
            if line and not line.startswith("#") and not line.startswith("fixed:"):
                out.append(json.loads(line))
    return out


AUDIT_PATTERNS = [r"\bunsafe\b", r"\bget_mut\b", r"\bmake_mut\b", r"\bas_ptr\b", r"\bas_mut_ptr\b",
                  r"\bfrom_raw\b", r"\btransmute\b", r"mem::forget", r"\bManuallyDrop\b", r"\bWeak\b",
                  r"Box::leak", r"\bUnsafeCell\b"]


def audit_source():
    """informational source audit of the non-BLAS build (C08, C18): constructs that could mutate a shared
    buffer or leak past Rc; reported in the evidence, never a verdict by itself"""
    hits = []
    src = os.path.join(os.environ.get("VERIF_REPO", "/repo"), "src")
    for root, _, files in os.walk(src):
        for f in sorted(files):
            if not f.endswith(".rs") or f == "blas.rs":
                continue
            p = os.path.join(root, f)
            for ln, line in enumerate(open(p, errors="replace"), 1):
                code = line.split("//")[0]
                for pat in AUDIT_PATTERNS:
                    if re.search(pat, code):
                        hits.append("%s:%d: %s" % (os.path.relpath(p, "/repo"), ln, code.strip()[:100]))
    decl = ""
    try:
        m = re.search(r"pub struct Array \{(.*?)\n\}", open(os.path.join(src, "array/mod.rs")).read(), re.S)
        decl = " ".join(m.group(1).split()) if m else ""
    except OSError:
        pass
    return {"hits": hits, "array_struct": decl}


def dual_check(cases, rust, workdir, rtol_default):
    """Independent check of C01/C02's statement on the implementation's own output: the
    directional derivative sum_leaf <grad_leaf, t_leaf> obtained from corgi's gradients must
    equal <seed, tangent of the result> obtained by running the forward model over dual
    numbers (the forward-mode evaluation of the same program)."""
    idx = [i for i, c in enumerate(cases) if c.get("dual") and "tangents" in c]
    todo = []
    for i in idx:
        c = cases[i]
        r = rust[i]
        if any(o in ("panic", "timeout", "crash") for o in r):
            continue
        d = {"name": c["name"], "tangents": c["tangents"],
             "instrs": list(c["instrs"][:c["backward_at"]]) + [("obs", c["root"])]}
        todo.append((i, d))
    if not todo:
        return [], 0
    res = run_model([d for _, d in todo], workdir, dual=True)
    fails = []
    for (i, d), m in zip(todo, res):
        c = cases[i]
        r = rust[i]
        if not m or m[-1] == "panic":
            fails.append({"case": i, "reason": "dual evaluation of the model panicked", "confirmed": False})
            continue
        out = m[-1][0]
        tans = [p[1] for p in out[2]]
        seed = c["seed"][1] if c.get("seed") else [1.0] * len(tans)
        d2 = sum(s * t for s, t in zip(seed, tans))
        scale = sum(abs(s * t) for s, t in zip(seed, tans)) + 1.0
        d1 = 0.0
        for leaf, gi in c["grads"].items():
            tracked, dims = c["leaves"][leaf]
            if not tracked:
                continue
            ob = r[gi]
            t = c["tangents"][leaf]
            if ob and ob[0][0] == 4:
                g = ob[0][2]
                if len(g) != len(t):
                    d1 = float("nan")
                    break
                d1 += sum(x * y for x, y in zip(g, t))
                scale += sum(abs(x * y) for x, y in zip(g, t))
        rtol = max(c.get("rtol", rtol_default), 1e-9) * 10
        if not (abs(d1 - d2) <= rtol * scale):
            fails.append({"case": i, "confirmed": True,
                          "reason": "directional derivative from corgi's gradients (%r) differs from the "
                                    "dual-number evaluation (%r)" % (d1, d2)})
    return fails, len(todo)


def main():
    ap = argparse.ArgumentParser()
    ap.add_argument("prop")
    ap.add_argument("--tier", default=os.environ.get("VERIF_TIER", "quick"))
    ap.add_argument("--replay")
    ap.add_argument("--seed", type=int, default=int(os.environ.get("VERIF_SEED", "20260926")))
    ap.add_argument("--no-coq", action="store_true", help="(development) skip the theorem build")
    args = ap.parse_args()
    prop = args.prop
    tier = args.tier if args.tier in ("quick", "thorough") else "quick"
    t_start = time.time()
    spec = props.PROPS[prop]
    rng = random.Random(args.seed * 1000003 + int(prop[1:]))
    workdir = os.path.join(CACHE, "run", prop + ("_" + hashlib.sha1(os.environ["VERIF_REPO"].encode()).hexdigest()[:8]
                                                  if os.environ.get("VERIF_REPO") else ""))
    shutil.rmtree(workdir, ignore_errors=True)
    os.makedirs(workdir, exist_ok=True)
    os.makedirs(REPLAYS, exist_ok=True)
    os.makedirs(EVIDENCE, exist_ok=True)
    report = {}
    phase = {}

    # 1. theorems
    coq_ok = True
    if not args.no_coq:
        coq_ok = build_coq(prop, tier, report)
    build_model_vo()
    phase["coq_theorems_s"] = round(time.time() - t_start, 1)

    # 2. cases
    if args.replay:
        rp = json.load(open(args.replay))
        cases = rp.get("cases") or ([rp["case"]] if "case" in rp else [])
    else:
        cases = []
        corpus_dir = os.path.join(ROOT, "corpus", prop)
        if os.path.isdir(corpus_dir):
            for f in sorted(os.listdir(corpus_dir)):
                rp = json.load(open(os.path.join(corpus_dir, f)))
                for c in rp.get("cases") or [rp["case"]]:
                    c["name"] = "corpus_" + f.replace(".json", "")
                    cases.append(c)
        cases += spec["gen"](tier, rng)
    for c in cases:
        props.normalise_case(c)
    for i, c in enumerate(cases):
        c["name"] = "%s_%d" % (re.sub(r"\W", "_", re.sub(r"_\d+$", "", c.get("name", "c"))), i)

    f32 = spec.get("f32", False)
    rtol = spec.get("rtol", 1e-9)
    t1 = time.time()
    binary, hook = build_harness(f32=f32)
    phase["harness_build_s"] = round(time.time() - t1, 1)
    report["hook_available"] = hook
    t1 = time.time()
    rust = run_harness(binary, cases, workdir)
    # handles kept by the custom closures of the harness (C08): (changed, total) per case, not an observation
    kept = {}
    for i, r in enumerate(rust):
        if r and isinstance(r[-1], tuple) and r[-1][0] == "kept":
            kept[i] = r.pop()[1:]
    for i, c in enumerate(cases):
        c["kept_handles"] = kept.get(i)
    phase["harness_run_s"] = round(time.time() - t1, 1)
    t1 = time.time()
    # a few cases are too large for the list-based model (more than a thousand parameters): they are run
    # through corgi only and judged by the property's own predicate on corgi's output
    with_model = [i for i, c in enumerate(cases) if not c.get("skip_model")]
    sub = run_model([cases[i] for i in with_model], workdir)
    model = [None] * len(cases)
    for i, m_ in zip(with_model, sub):
        model[i] = m_
    phase["model_run_s"] = round(time.time() - t1, 1)

    # 3. compare
    failures = []
    classes = {}
    nontrivial = set()
    refused_outside = 0
    for i, (c, r, m) in enumerate(zip(cases, rust, model)):
        cls = c.get("cls", "default")
        classes[cls] = classes.get(cls, 0) + 1
        if c.get("nontrivial", True):
            nontrivial.add(hashlib.sha1(json.dumps(c["instrs"], sort_keys=True, default=str)
                                        .encode()).hexdigest())
        if m is None:
            continue
        tol = c.get("rtol", rtol)
        if c.get("scale_tol"):
            big = max([1.0] + [abs(x) for o in m if not isinstance(o, str) for it in o for x in it[2]
                               if x == x and abs(x) != float("inf")])
            tol = tol * big
        dsl.PURE_REL = bool(c.get("pure_rel"))
        d = dsl.first_difference(r, m, tol, c.get("adjudicate"), c.get("lenient"))
        dsl.PURE_REL = False
        if r == ["timeout"] or r == ["crash"]:
            failures.append({"case": i, "confirmed": True,
                             "reason": ("corgi did not finish this program within the time limit of its chunk "
                                        "(the model evaluates it in milliseconds)") if r == ["timeout"] else
                                       "the process running corgi died on this program (abort / stack overflow), "
                                       "which no panic-catching can report"})
        elif d is not None and c.get("refusal_ok") and d < len(r) and r[d] == "panic":
            # inputs the properties do not speak about (sum over more dimensions than the rank, rank-0 parameters):
            # corgi accepts them today and the model follows it, but a tree that REFUSES them is not in violation
            refused_outside += 1
        elif d is not None:
            kind = dsl.difference_kind(r, m, d)
            # is the disagreement itself a failing input of THIS property?  For functional properties the
            # model's output is the value the property demands; for relational ones (model_is_spec False)
            # only structural disagreements (panics, dimensions, flags, counts) are, value disagreements are
            # reported as a broken correspondence unless the property's own predicate fails too
            confirmed = spec.get("model_is_spec", True) or (kind == "structural" and
                                                            spec.get("structure_is_spec", True))
            if not confirmed and kind == "value" and \
                    dsl.differing_value_kinds(r, m, d) & set(spec.get("value_kinds_spec", [])):
                confirmed = True
            failures.append({"case": i, "confirmed": confirmed, "first_differing_instruction": d,
                             "difference": kind,
                             "reason": "corgi and the model (the proven specification) differ (%s) at "
                                       "instruction %d: %s" % (kind, d, dsl.instr_to_text(c["instrs"][d])
                                                               if d < len(c["instrs"]) else "?")})
    extra_counts = {}
    extra_counts["programs_with_inputs_outside_the_property_refused_by_corgi"] = refused_outside
    # programs that end in a panic on BOTH sides are legitimate only in refusal streams; everywhere else they
    # silently truncate coverage, so they are counted per class and shown
    both_panic = {}
    for c, r, m in zip(cases, rust, model):
        if r and m and r[-1] == "panic" and m[-1] == "panic":
            cls = c.get("cls", "default")
            both_panic[cls] = both_panic.get(cls, 0) + 1
    extra_counts["programs_ending_in_a_panic_on_both_sides_by_class"] = both_panic
    t1 = time.time()
    if spec.get("dual"):
        fl, n = dual_check(cases, rust, workdir, rtol)
        failures += fl
        extra_counts["dual_number_checks"] = n
    for name in spec.get("post", []):
        fl, n = props.POST[name](cases, rust, model)
        failures += fl
        extra_counts[name] = n
    phase["post_checks_s"] = round(time.time() - t1, 1)

    # 4. verdicts
    findings = load_known_findings()
    violations = []
    known_hits = []
    seen_cases = set()
    failures.sort(key=lambda f: (not f.get("confirmed", True)))
    confirmed_cases = set(f["case"] for f in failures if f.get("confirmed", True))
    for f in failures:
        i = f["case"]
        c = cases[i]
        if not f.get("confirmed", True) and i in confirmed_cases:
            continue
        known = None
        for kf in findings:
            if kf["property"] == prop and props.KNOWN_CLASSES[kf["class"]](c, f, rust[i], model[i]):
                known = kf
                break
        if known is not None:
            known_hits.append(known)
            continue
        if i in seen_cases or len(violations) >= 5:
            seen_cases.add(i)
            continue
        seen_cases.add(i)
        group = [c] + [x for x in cases if x is not c and c.get("group") is not None
                       and x.get("group") == c.get("group")]
        path = os.path.join(REPLAYS, "%s-%d-%s.json" % (prop, args.seed, c["name"]))
        json.dump({"property": prop, "reason": f["reason"], "cases": group,
                   "program": [dsl.instr_to_text(x) for x in c["instrs"]],
                   "first_differing_instruction": f.get("first_differing_instruction"),
                   "corgi_observations": rust[i], "model_observations": model[i],
                   "how_to_replay": "./check.py %s --replay %s" % (prop, path)},
                  open(path, "w"), indent=1, default=str)
        violations.append((path, "" if f.get("confirmed", True) else " no-failing-input-found"))

    if not coq_ok and not violations:
        path = os.path.join(REPLAYS, "%s-%d-theorem.json" % (prop, args.seed))
        json.dump({"property": prop, "broken": report["coq"].get("broken"),
                   "error": report["coq"].get("error"),
                   "note": "the theorem build no longer checks; no failing input was found "
                           "among %d programs" % len(cases)}, open(path, "w"), indent=1)
        violations.append((path, " no-failing-input-found"))

    seen = set()
    for kf in known_hits:
        if kf["what"] not in seen:
            seen.add(kf["what"])
            print("KNOWN-FINDING: property=%s %s" % (prop, kf["what"]))

    # 5. evidence
    coqi = report.get("coq", {})
    samples = []
    for c in cases[:: max(1, len(cases) // 3)][:3]:
        samples.append({"name": c["name"], "class": c.get("cls"),
                        "program": [dsl.instr_to_text(i) for i in c["instrs"]][:14]})
    for n in coqi.get("theorems", [])[:8]:
        samples.append({"theorem": n})
    coverage = {
        "obligations": coqi.get("obligations", 0),
        "discharged": coqi.get("obligations", 0) if coqi.get("ok") else 0,
        "checker_cmd": coqi.get("checker_cmd", ""),
        "trusted_base": [
            "Coq 8.16.1 kernel (coqc; coqchk in the thorough tier); vm_compute for the model runs; no native_compute",
            "axioms reported by Print Assumptions: %s" % (", ".join(coqi.get("axioms", [])) or "none (closed under the global context)"),
            "hand-written Gallina model (coq/Model) tied to /repo by the differential run of this check",
            "Rust harness (harness/src/main.rs), Python generators and comparison (gen/, check.py)",
        ],
        "theorems": coqi.get("theorems", []),
        "theorems_closed_under_global_context": coqi.get("closed_theorems", 0),
        "coq_cone": coqi.get("cone", []),
        "programs": len(cases),
        "evaluations": len(cases),
        "distinct_nontrivial": len(nontrivial),
        "rule": spec.get("rule", ""),
        "disagreements_checked": len(failures),
        "input_distribution": classes,
        "samples": samples,
        "hook_available": hook,
        "exhaustive": bool(spec.get("exhaustive", {}).get(tier, False)),
        "coq_make_s": coqi.get("make_s"),
        "coqchk": coqi.get("coqchk_ok"),
        "phases_s": phase,
    }
    coverage.update(extra_counts)
    coverage["programs_judged_by_the_property_predicate_only"] = sum(1 for c in cases if c.get("skip_model"))
    if spec.get("audit"):
        coverage["source_audit"] = audit_source()
    ev = {
        "property_id": prop,
        "tier": tier,
        "seed": args.seed,
        "level": "proof",
        "coverage": coverage,
        "assumptions": spec.get("assumptions", []),
        "wall_s": round(time.time() - t_start, 1),
        "violations": len(violations),
    }
    if not args.replay and not args.no_coq and not os.environ.get("VERIF_REPO"):
        json.dump(ev, open(os.path.join(EVIDENCE, "%s.json" % prop), "w"), indent=1)

    for path, suffix in violations:
        print("VIOLATION property=%s replay=%s%s" % (prop, path, suffix))
    print("%s %s: %d programs, %d failures, %d known, coq=%s, %.1fs %s" % (
        prop, tier, len(cases), len(failures), len(known_hits),
        "ok" if coqi.get("ok") else ("skipped" if args.no_coq else "BROKEN"),
        time.time() - t_start, phase))
    sys.exit(1 if violations else 0)


if __name__ == "__main__":
    main()
